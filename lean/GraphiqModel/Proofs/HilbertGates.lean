/-
  Proofs/HilbertGates.lean — one-qubit gates on `n` qubits as matrices, and the proof that the row-wise tableau
  update rules of transformation.py are conjugation by the gate's unitary (signs included), for every `n` and
  every qubit position.

  * `oneQ n q u` is `I ⊗ … ⊗ u ⊗ … ⊗ I` with the 2×2 matrix `u` at qubit `q`, defined entrywise
    (= `get_one_qubit_gate(n, q, u)` of graphiq's density-matrix backend); it is multiplicative in `u`;
  * `Loc1 f q X' Z' dl` says that a row map `f` only touches site `q`, where it acts by `(x,z) ↦ (X' x z, Z' x z)`
    and adds `dl x z` to the phase word; such descriptions compose;
  * `oneQ_intertwine` : a finite per-site check implies `U · P = f(P) · U` for all rows `P`;
  * the instances H, S, S†, X, Y, Z.
-/
import GraphiqModel.Proofs.HilbertPauli
import Mathlib.Analysis.Real.Sqrt
namespace Graphiq
namespace Hilbert
open Matrix PRow

/-! ### a 2×2 matrix at one site -/

/-- `I ⊗ … ⊗ u ⊗ … ⊗ I` with `u` acting on qubit `q` (entry `(a,b)`: all other bits agree, then `u a_q b_q`) -/
noncomputable def oneQ (n q : Nat) (u : Matrix Bool Bool ℂ) : Matrix (Bits n) (Bits n) ℂ :=
  Matrix.of fun a b => if (∀ j : Fin n, j.val ≠ q → a j = b j) then u (bx a q) (bx b q) else 0

theorem oneQ_apply (n q : Nat) (u : Matrix Bool Bool ℂ) (a b : Bits n) :
    oneQ n q u a b = if (∀ j : Fin n, j.val ≠ q → a j = b j) then u (bx a q) (bx b q) else 0 := rfl

theorem bits_eq_iff_site {n : Nat} (q : Nat) (a b : Bits n) :
    a = b ↔ (∀ j : Fin n, j.val ≠ q → a j = b j) ∧ bx a q = bx b q := by
  constructor
  · intro h; subst h; exact ⟨fun _ _ => rfl, rfl⟩
  · intro ⟨h1, h2⟩
    funext j
    by_cases hj : j.val = q
    · have := h2
      rw [← hj, bx_lt a j.1 j.2, bx_lt b j.1 j.2] at this
      exact this
    · exact h1 j hj

/-- a sum over bit strings whose summand vanishes unless the string agrees with `a` away from site `q` -/
theorem sum_two_site {n : Nat} (q : Nat) (hq : q < n) (a : Bits n) (F : Bits n → ℂ)
    (hF : ∀ b, (¬ ∀ j : Fin n, j.val ≠ q → a j = b j) → F b = 0) :
    ∑ b, F b = F (Function.update a ⟨q, hq⟩ false) + F (Function.update a ⟨q, hq⟩ true) := by
  have hne : Function.update a ⟨q, hq⟩ false ≠ Function.update a ⟨q, hq⟩ true := by
    intro h
    have := congrFun h ⟨q, hq⟩
    simp at this
  rw [← Finset.sum_pair hne]
  symm
  apply Finset.sum_subset (Finset.subset_univ _)
  intro b _ hb
  apply hF
  intro hall
  apply hb
  have e : b = Function.update a ⟨q, hq⟩ (b ⟨q, hq⟩) := by
    funext j
    by_cases hj : j = ⟨q, hq⟩
    · subst hj; simp
    · rw [Function.update_of_ne hj]
      exact (hall j (fun h => hj (Fin.ext h))).symm
  rw [e]
  cases b ⟨q, hq⟩ <;> simp

theorem bx_update_self {n : Nat} (q : Nat) (hq : q < n) (a : Bits n) (s : Bool) :
    bx (Function.update a ⟨q, hq⟩ s) q = s := by
  rw [bx_lt _ _ hq]; simp

theorem update_off {n : Nat} (q : Nat) (hq : q < n) (a : Bits n) (s : Bool) (j : Fin n) (hj : j.val ≠ q) :
    Function.update a ⟨q, hq⟩ s j = a j :=
  Function.update_of_ne (fun h => hj (by rw [h])) _ _

/-- `oneQ` is multiplicative: `(I⊗u⊗I)(I⊗v⊗I) = I⊗uv⊗I` -/
theorem oneQ_mul (n q : Nat) (hq : q < n) (u v : Matrix Bool Bool ℂ) :
    oneQ n q u * oneQ n q v = oneQ n q (u * v) := by
  ext a c
  rw [Matrix.mul_apply, sum_two_site q hq a]
  · simp only [oneQ_apply, bx_update_self]
    have h0 : ∀ s, (∀ j : Fin n, j.val ≠ q → a j = Function.update a ⟨q, hq⟩ s j) :=
      fun s j hj => (update_off q hq a s j hj).symm
    have h1 : ∀ s, (∀ j : Fin n, j.val ≠ q → Function.update a ⟨q, hq⟩ s j = c j) ↔
        (∀ j : Fin n, j.val ≠ q → a j = c j) := by
      intro s
      constructor
      · intro h j hj; rw [← h j hj, update_off q hq a s j hj]
      · intro h j hj; rw [update_off q hq a s j hj]; exact h j hj
    rw [if_pos (h0 false), if_pos (h0 true)]
    by_cases hc : ∀ j : Fin n, j.val ≠ q → a j = c j
    · rw [if_pos ((h1 false).mpr hc), if_pos ((h1 true).mpr hc), if_pos hc, Matrix.mul_apply, Fintype.sum_bool]
      ring
    · rw [if_neg (fun h => hc ((h1 false).mp h)), if_neg (fun h => hc ((h1 true).mp h)), if_neg hc]
      simp
  · intro b hb
    rw [oneQ_apply, if_neg hb, zero_mul]

theorem oneQ_one (n q : Nat) : oneQ n q 1 = 1 := by
  ext a b
  rw [oneQ_apply, Matrix.one_apply, Matrix.one_apply]
  by_cases h : a = b
  · subst h; simp
  · rw [if_neg h]
    have := (not_congr (bits_eq_iff_site q a b)).mp h
    by_cases h1 : ∀ j : Fin n, j.val ≠ q → a j = b j
    · rw [if_pos h1, if_neg (fun h2 => this ⟨h1, h2⟩)]
    · rw [if_neg h1]

theorem oneQ_smul (n q : Nat) (k : ℂ) (u : Matrix Bool Bool ℂ) : oneQ n q (k • u) = k • oneQ n q u := by
  ext a b
  simp only [oneQ_apply, Matrix.smul_apply, smul_eq_mul]
  split <;> simp

theorem oneQ_conjTranspose (n q : Nat) (u : Matrix Bool Bool ℂ) : (oneQ n q u)ᴴ = oneQ n q uᴴ := by
  ext a b
  simp only [Matrix.conjTranspose_apply, oneQ_apply]
  have : (∀ j : Fin n, j.val ≠ q → b j = a j) ↔ (∀ j : Fin n, j.val ≠ q → a j = b j) :=
    ⟨fun h j hj => (h j hj).symm, fun h j hj => (h j hj).symm⟩
  by_cases h : ∀ j : Fin n, j.val ≠ q → a j = b j
  · rw [if_pos h, if_pos (this.mpr h)]
  · rw [if_neg h, if_neg (fun h2 => h (this.mp h2)), star_zero]

/-- a unitary 2×2 matrix gives a unitary `n`-qubit matrix -/
theorem oneQ_unitary (n q : Nat) (hq : q < n) (u : Matrix Bool Bool ℂ) (hu : u * uᴴ = 1) :
    oneQ n q u * (oneQ n q u)ᴴ = 1 := by
  rw [oneQ_conjTranspose, oneQ_mul n q hq, hu, oneQ_one]

theorem oneQ_unitary' (n q : Nat) (hq : q < n) (u : Matrix Bool Bool ℂ) (hu : uᴴ * u = 1) :
    (oneQ n q u)ᴴ * oneQ n q u = 1 := by
  rw [oneQ_conjTranspose, oneQ_mul n q hq, hu, oneQ_one]

/-! ### row maps that act on one site -/

/-- `f` only touches site `q`: there it maps the Pauli bits by `(X', Z')` and adds `dl` to the phase word -/
structure Loc1 (f : PRow → PRow) (q : Nat) (X' Z' : Bool → Bool → Bool) (dl : Bool → Bool → ℤ) : Prop where
  off : ∀ p j, j ≠ q → (f p).x j = p.x j ∧ (f p).z j = p.z j
  xq : ∀ p, (f p).x q = X' (p.x q) (p.z q)
  zq : ∀ p, (f p).z q = Z' (p.x q) (p.z q)
  ph : ∀ p, (f p).ph % 4 = (p.ph + dl (p.x q) (p.z q)) % 4

theorem Loc1.comp {f g : PRow → PRow} {q : Nat} {X1 Z1 X2 Z2 : Bool → Bool → Bool} {d1 d2 : Bool → Bool → ℤ}
    (hf : Loc1 f q X1 Z1 d1) (hg : Loc1 g q X2 Z2 d2) :
    Loc1 (fun p => f (g p)) q (fun x z => X1 (X2 x z) (Z2 x z)) (fun x z => Z1 (X2 x z) (Z2 x z))
      (fun x z => d2 x z + d1 (X2 x z) (Z2 x z)) where
  off p j hj := ⟨((hf.off (g p) j hj).1).trans (hg.off p j hj).1, ((hf.off (g p) j hj).2).trans (hg.off p j hj).2⟩
  xq p := by rw [hf.xq, hg.xq, hg.zq]
  zq p := by rw [hf.zq, hg.xq, hg.zq]
  ph p := by
    have h1 := hf.ph (g p)
    have h2 := hg.ph p
    rw [hg.xq, hg.zq] at h1
    omega

theorem loc1_id (q : Nat) : Loc1 id q (fun x _ => x) (fun _ z => z) (fun _ _ => 0) where
  off _ _ _ := ⟨rfl, rfl⟩
  xq _ := rfl
  zq _ := rfl
  ph _ := by simp

theorem loc1_h (q : Nat) : Loc1 (PRow.h q) q (fun _ z => z) (fun x _ => x) (fun x z => 2 * Bool.toInt' (x && z)) where
  off p j hj := by simp [PRow.h, hj]
  xq p := by simp [PRow.h]
  zq p := by simp [PRow.h]
  ph p := by rw [h_ph]; omega

theorem loc1_s (q : Nat) : Loc1 (PRow.s q) q (fun x _ => x) (fun x z => xor z x) (fun x z => 2 * Bool.toInt' (x && z)) where
  off p j hj := by simp [PRow.s, hj]
  xq p := by simp [PRow.s]
  zq p := by simp [PRow.s]
  ph p := by rw [s_ph]; omega

/-- `z_gate` = two phase gates: `(x,z) ↦ (x,z)`, sign flips iff `x` -/
theorem loc1_zg (q : Nat) : Loc1 (PRow.zg q) q (fun x _ => x) (fun x z => xor (xor z x) x)
    (fun x z => 2 * Bool.toInt' (x && z) + 2 * Bool.toInt' (x && xor z x)) :=
  (loc1_s q).comp (loc1_s q)
/-- `phase_dagger_gate` = three phase gates -/
theorem loc1_sdg (q : Nat) : Loc1 (PRow.sdg q) q (fun x _ => x) (fun x z => xor (xor (xor z x) x) x)
    (fun x z => 2 * Bool.toInt' (x && z) + 2 * Bool.toInt' (x && xor z x)
      + 2 * Bool.toInt' (x && xor (xor z x) x)) :=
  (loc1_s q).comp ((loc1_s q).comp (loc1_s q))

/-! ### the generic one-qubit conjugation lemma -/

/-- If the 2×2 matrix `u` has entries `i^(k A B)` where `m A B` and zero elsewhere, and the per-site check holds for
    the Pauli bits of `p` at `q`, then `U_q · P = P' · U_q`. -/
theorem oneQ_intertwine_row (n q : Nat) (hq : q < n) (u : Matrix Bool Bool ℂ) (m : Bool → Bool → Bool)
    (k : Bool → Bool → ℤ) (hu : ∀ A B, u A B = if m A B then iPow (k A B) else 0)
    (p p' : PRow) (δ : ℤ)
    (hoff : ∀ j, j < n → j ≠ q → p'.x j = p.x j ∧ p'.z j = p.z j)
    (hph : p'.ph % 4 = (p.ph + δ) % 4)
    (hm : ∀ A C : Bool, m A (xor C (p.x q)) = m (xor A (p'.x q)) C)
    (hk : ∀ A C : Bool, m A (xor C (p.x q)) = true →
        (k A (xor C (p.x q)) + sFun (p.x q) (p.z q) C) % 4
          = (δ + sFun (p'.x q) (p'.z q) (xor A (p'.x q)) + k (xor A (p'.x q)) C) % 4) :
    oneQ n q u * pauliMat n p = pauliMat n p' * oneQ n q u := by
  ext a c
  unfold pauliMat
  rw [mul_mono_apply, mono_mul_apply _ _ (flip_involutive _)]
  simp only [oneQ_apply]
  have hc : (∀ j : Fin n, j.val ≠ q → a j = flip p.x c j) ↔ (∀ j : Fin n, j.val ≠ q → flip p'.x a j = c j) := by
    constructor
    · intro h j hj
      have := h j hj
      simp only [flip] at this ⊢
      rw [(hoff j.1 j.2 hj).1, this]; cases c j <;> cases p.x j <;> rfl
    · intro h j hj
      have := h j hj
      simp only [flip] at this ⊢
      rw [(hoff j.1 j.2 hj).1] at this
      rw [← this]; cases a j <;> cases p.x j <;> rfl
  by_cases h1 : ∀ j : Fin n, j.val ≠ q → a j = flip p.x c j
  · rw [if_pos h1, if_pos (hc.mp h1), bx_flip _ _ _ hq, bx_flip _ _ _ hq, hu, hu, hm]
    by_cases h2 : m (xor (bx a q) (p'.x q)) (bx c q) = true
    · rw [if_pos h2, if_pos h2, ← iPow_add, ← iPow_add]
      apply iPow_congr
      have hk' := hk (bx a q) (bx c q) (by rw [hm]; exact h2)
      unfold pexp
      have hs := sumTo_local_one n q (fun j => sFun (p.x j) (p.z j) (bx c j))
        (fun j => sFun (p'.x j) (p'.z j) (bx (flip p'.x a) j)) hq (by
          intro j hj hjq
          rw [(hoff j hj hjq).1, (hoff j hj hjq).2]
          have := (hc.mp h1) ⟨j, hj⟩ hjq
          rw [bx_lt _ _ hj, bx_lt _ _ hj, this])
      rw [bx_flip _ _ _ hq] at hs
      omega
    · rw [if_neg h2, if_neg h2]; simp
  · rw [if_neg h1, if_neg (fun h => h1 (hc.mpr h))]; simp

/-- the gate-level version: a `Loc1` description of the row map and one finite check over the site's bits -/
theorem oneQ_intertwine (n q : Nat) (hq : q < n) (u : Matrix Bool Bool ℂ) (m : Bool → Bool → Bool)
    (k : Bool → Bool → ℤ) (hu : ∀ A B, u A B = if m A B then iPow (k A B) else 0)
    (f : PRow → PRow) (X' Z' : Bool → Bool → Bool) (dl : Bool → Bool → ℤ) (hloc : Loc1 f q X' Z' dl)
    (hcheck : ∀ X Z A C : Bool, m A (xor C X) = m (xor A (X' X Z)) C ∧
      (m A (xor C X) = true →
        (k A (xor C X) + sFun X Z C) % 4
          = (dl X Z + sFun (X' X Z) (Z' X Z) (xor A (X' X Z)) + k (xor A (X' X Z)) C) % 4))
    (p : PRow) : oneQ n q u * pauliMat n p = pauliMat n (f p) * oneQ n q u := by
  apply oneQ_intertwine_row n q hq u m k hu p (f p) (dl (p.x q) (p.z q))
  · intro j _ hjq; exact hloc.off p j hjq
  · exact hloc.ph p
  · intro A C; rw [hloc.xq]; exact (hcheck (p.x q) (p.z q) A C).1
  · intro A C h; rw [hloc.xq, hloc.zq]; exact (hcheck (p.x q) (p.z q) A C).2 h

/-! ### the 2×2 matrices of graphiq's density-matrix backend (`functions.py`) -/

/-- `√2 · hadamard()` = [[1,1],[1,-1]] -/
noncomputable def hadM : Matrix Bool Bool ℂ := Matrix.of fun a b => if a && b then -1 else 1
/-- `phase()` = diag(1, i) -/
noncomputable def phaseM : Matrix Bool Bool ℂ := Matrix.of fun a b => if a = b then (if b then Complex.I else 1) else 0
/-- `phase_dag()` = diag(1, -i) -/
noncomputable def phaseDagM : Matrix Bool Bool ℂ := Matrix.of fun a b => if a = b then (if b then -Complex.I else 1) else 0
/-- `sigmax()` = [[0,1],[1,0]] -/
noncomputable def sigmaX : Matrix Bool Bool ℂ := Matrix.of fun a b => if a = b then 0 else 1
/-- `sigmay()` = [[0,-i],[i,0]] -/
noncomputable def sigmaY : Matrix Bool Bool ℂ := Matrix.of fun a b => if a = b then 0 else (if b then -Complex.I else Complex.I)
/-- `sigmaz()` = diag(1,-1) -/
noncomputable def sigmaZ : Matrix Bool Bool ℂ := Matrix.of fun a b => if a = b then (if b then -1 else 1) else 0

theorem hadM_eq (A B : Bool) : hadM A B = if true then iPow (2 * Bool.toInt' (A && B)) else 0 := by
  cases A <;> cases B <;> simp [hadM, Bool.toInt', iPow_zero, iPow_two]
theorem phaseM_eq (A B : Bool) : phaseM A B = if (A == B) then iPow (Bool.toInt' B) else 0 := by
  cases A <;> cases B <;> simp [phaseM, Bool.toInt', iPow_zero, iPow_one]
theorem phaseDagM_eq (A B : Bool) : phaseDagM A B = if (A == B) then iPow (3 * Bool.toInt' B) else 0 := by
  cases A <;> cases B <;> simp [phaseDagM, Bool.toInt', iPow_zero, iPow_three]
theorem sigmaX_eq (A B : Bool) : sigmaX A B = if (A != B) then iPow 0 else 0 := by
  cases A <;> cases B <;> simp [sigmaX, iPow_zero]
theorem sigmaY_eq (A B : Bool) : sigmaY A B = if (A != B) then iPow (1 + 2 * Bool.toInt' B) else 0 := by
  cases A <;> cases B <;> simp [sigmaY, Bool.toInt', iPow_one, iPow_three]
theorem sigmaZ_eq (A B : Bool) : sigmaZ A B = if (A == B) then iPow (2 * Bool.toInt' B) else 0 := by
  cases A <;> cases B <;> simp [sigmaZ, Bool.toInt', iPow_zero, iPow_two]

/-! ### the tableau rules are conjugation: `U_q · P = (rule P) · U_q` for every row `P` -/

theorem had_intertwine (n q : Nat) (hq : q < n) (p : PRow) :
    oneQ n q hadM * pauliMat n p = pauliMat n (PRow.h q p) * oneQ n q hadM :=
  oneQ_intertwine n q hq hadM _ _ hadM_eq _ _ _ _ (loc1_h q) (by decide) p

theorem phase_intertwine (n q : Nat) (hq : q < n) (p : PRow) :
    oneQ n q phaseM * pauliMat n p = pauliMat n (PRow.s q p) * oneQ n q phaseM :=
  oneQ_intertwine n q hq phaseM _ _ phaseM_eq _ _ _ _ (loc1_s q) (by decide) p

theorem phaseDag_intertwine (n q : Nat) (hq : q < n) (p : PRow) :
    oneQ n q phaseDagM * pauliMat n p = pauliMat n (PRow.sdg q p) * oneQ n q phaseDagM :=
  oneQ_intertwine n q hq phaseDagM _ _ phaseDagM_eq _ _ _ _ (loc1_sdg q) (by decide) p

theorem sigmaX_intertwine (n q : Nat) (hq : q < n) (p : PRow) :
    oneQ n q sigmaX * pauliMat n p = pauliMat n (PRow.xg q p) * oneQ n q sigmaX :=
  oneQ_intertwine n q hq sigmaX _ _ sigmaX_eq _ _ _ _
    ((loc1_h q).comp ((loc1_zg q).comp (loc1_h q))) (by decide) p

theorem sigmaY_intertwine (n q : Nat) (hq : q < n) (p : PRow) :
    oneQ n q sigmaY * pauliMat n p = pauliMat n (PRow.yg q p) * oneQ n q sigmaY :=
  oneQ_intertwine n q hq sigmaY _ _ sigmaY_eq _ _ _ _
    ((loc1_s q).comp (((loc1_h q).comp ((loc1_zg q).comp (loc1_h q))).comp ((loc1_zg q).comp (loc1_s q)))) (by decide) p

theorem sigmaZ_intertwine (n q : Nat) (hq : q < n) (p : PRow) :
    oneQ n q sigmaZ * pauliMat n p = pauliMat n (PRow.zg q p) * oneQ n q sigmaZ :=
  oneQ_intertwine n q hq sigmaZ _ _ sigmaZ_eq _ _ _ _ (loc1_zg q) (by decide) p

/-! ### unitarity of the 2×2 matrices -/

set_option linter.unusedSimpArgs false
set_option linter.unnecessarySeqFocus false

theorem hadM_mul_conjTranspose : hadM * hadMᴴ = (2 : ℂ) • (1 : Matrix Bool Bool ℂ) := by
  ext a b
  cases a <;> cases b <;>
    simp [hadM, Matrix.mul_apply, Fintype.sum_bool, Matrix.conjTranspose_apply, Matrix.one_apply] <;> norm_num

theorem hadM_conjTranspose : hadMᴴ = hadM := by
  ext a b
  cases a <;> cases b <;> simp [hadM, Matrix.conjTranspose_apply]

theorem phaseM_unitary : phaseM * phaseMᴴ = 1 := by
  ext a b
  cases a <;> cases b <;>
    simp [phaseM, Matrix.mul_apply, Fintype.sum_bool, Matrix.conjTranspose_apply, Matrix.one_apply]

theorem phaseDagM_unitary : phaseDagM * phaseDagMᴴ = 1 := by
  ext a b
  cases a <;> cases b <;>
    simp [phaseDagM, Matrix.mul_apply, Fintype.sum_bool, Matrix.conjTranspose_apply, Matrix.one_apply]

theorem sigmaX_unitary : sigmaX * sigmaXᴴ = 1 := by
  ext a b
  cases a <;> cases b <;>
    simp [sigmaX, Matrix.mul_apply, Fintype.sum_bool, Matrix.conjTranspose_apply, Matrix.one_apply]

theorem sigmaY_unitary : sigmaY * sigmaYᴴ = 1 := by
  ext a b
  cases a <;> cases b <;>
    simp [sigmaY, Matrix.mul_apply, Fintype.sum_bool, Matrix.conjTranspose_apply, Matrix.one_apply]

theorem sigmaZ_unitary : sigmaZ * sigmaZᴴ = 1 := by
  ext a b
  cases a <;> cases b <;>
    simp [sigmaZ, Matrix.mul_apply, Fintype.sum_bool, Matrix.conjTranspose_apply, Matrix.one_apply]

/-- `phase_dag()` is the adjoint of `phase()` -/
theorem phaseDagM_eq_conjTranspose : phaseDagM = phaseMᴴ := by
  ext a b
  cases a <;> cases b <;> simp [phaseM, phaseDagM, Matrix.conjTranspose_apply]

/-- the scalar `1/√2` of `hadamard()` -/
noncomputable def invSqrt2 : ℂ := ((1 / Real.sqrt 2 : ℝ) : ℂ)

theorem invSqrt2_mul_self : invSqrt2 * invSqrt2 = 1 / 2 := by
  unfold invSqrt2
  rw [← Complex.ofReal_mul]
  have h : (1 / Real.sqrt 2) * (1 / Real.sqrt 2) = (1 / 2 : ℝ) := by
    rw [div_mul_div_comm, Real.mul_self_sqrt (by norm_num)]; norm_num
  rw [h]; norm_num

theorem star_invSqrt2 : star invSqrt2 = invSqrt2 := by
  unfold invSqrt2; exact Complex.conj_ofReal _

/-- the n-qubit Pauli generators are the one-site embeddings of the 2×2 Pauli matrices -/
theorem oneQ_sigmaZ (n q : Nat) (hq : q < n) : oneQ n q sigmaZ = pauliMat n (Zq q) := by
  ext a b
  rw [pauliMat_Zq_apply n q false hq, oneQ_apply]
  by_cases h : a = b
  · subst h; simp [sigmaZ]
  · rw [if_neg h]
    have := (not_congr (bits_eq_iff_site q a b)).mp h
    by_cases h1 : ∀ j : Fin n, j.val ≠ q → a j = b j
    · rw [if_pos h1]
      have h2 : bx a q ≠ bx b q := fun h2 => this ⟨h1, h2⟩
      simp [sigmaZ, h2]
    · rw [if_neg h1]

theorem oneQ_sigmaX (n q : Nat) (hq : q < n) : oneQ n q sigmaX = pauliMat n (Xq q) := by
  ext a b
  rw [pauliMat_Xq_apply n q false, oneQ_apply]
  have key : a = flip (unitMask q) b ↔ (∀ j : Fin n, j.val ≠ q → a j = b j) ∧ bx a q ≠ bx b q := by
    rw [bits_eq_iff_site q a (flip (unitMask q) b), bx_flip _ _ _ hq]
    have e1 : (∀ j : Fin n, j.val ≠ q → a j = flip (unitMask q) b j) ↔ (∀ j : Fin n, j.val ≠ q → a j = b j) := by
      constructor <;> intro h j hj <;> have := h j hj <;> simpa [flip, unitMask, hj] using this
    rw [e1]
    have e2 : bx a q = xor (bx b q) (unitMask q q) ↔ bx a q ≠ bx b q := by
      cases bx a q <;> cases bx b q <;> simp [unitMask]
    rw [e2]
  by_cases h1 : ∀ j : Fin n, j.val ≠ q → a j = b j
  · rw [if_pos h1]
    by_cases h2 : bx a q = bx b q
    · rw [if_neg (fun h => (key.mp h).2 h2)]; simp [sigmaX, h2]
    · rw [if_pos (key.mpr ⟨h1, h2⟩)]; simp [sigmaX, h2]
  · rw [if_neg h1, if_neg (fun h => h1 (key.mp h).1)]

end Hilbert
end Graphiq
