/-
  Proofs/MixtureDMWeights.lean — every weight of the stabilizer mixture is non-negative, for every circuit (measurements,
  classically controlled operations and resets included) whose depolarizing filter keeps only positive factors (always) and whose
  photon-loss rates are `≤ 1`: the mixture is a genuine (sub-normalised) probability mixture.  Together with
  `mixture_weight_is_survival_product` and `every_branch_valid` this is clause (b) in full.
-/
import GraphiqModel.Proofs.MixtureDMCompile
namespace Graphiq
namespace MixDM
open Noise

/-- every branch weight is `≥ 0` -/
def MixNonneg (m : Mixture) : Prop := ∀ x ∈ m, 0 ≤ x.1

theorem mapTab_nonneg (f : Tab → Tab) (m : Mixture) (h : MixNonneg m) : MixNonneg (Mix.mapTab f m) := by
  intro x hx
  simp only [Mix.mapTab, List.mem_map] at hx
  obtain ⟨⟨p, t⟩, hy, rfl⟩ := hx
  exact h (p, t) hy

theorem reduceScan_nonneg (t0 : Tab) : ∀ (fuel i : Nat) (p0 : Rat) (l : Mixture), 0 ≤ p0 → MixNonneg l →
    0 ≤ (Mix.reduceScan t0 fuel i p0 l).1
  | 0, _, _, _, h0, _ => by simpa [Mix.reduceScan] using h0
  | fuel+1, i, p0, l, h0, hl => by
    unfold Mix.reduceScan
    cases hi : l[i]? with
    | none => simpa using h0
    | some pt =>
      obtain ⟨pi, ti⟩ := pt
      simp only
      have hpi : 0 ≤ pi := hl (pi, ti) (List.mem_of_getElem? hi)
      split
      · exact reduceScan_nonneg t0 fuel (i + 1) (p0 + pi) (l.eraseIdx i) (add_nonneg h0 hpi)
          (fun x hx => hl x ((List.eraseIdx_sublist l i).subset hx))
      · exact reduceScan_nonneg t0 fuel (i + 1) p0 l h0 hl

theorem reduce_nonneg : ∀ (fuel : Nat) (m : Mixture), MixNonneg m → MixNonneg (Mix.reduce fuel m)
  | 0, _, _ => by intro x hx; simp [Mix.reduce] at hx
  | _+1, [], _ => by intro x hx; simp [Mix.reduce] at hx
  | fuel+1, (p0, t0) :: rest, h => by
    have hrest : MixNonneg rest := fun x hx => h x (List.mem_cons_of_mem _ hx)
    have h0 : 0 ≤ p0 := h (p0, t0) List.mem_cons_self
    intro x hx
    simp only [Mix.reduce, List.mem_cons] at hx
    rcases hx with e | hx
    · rw [e]; exact reduceScan_nonneg t0 rest.length 0 p0 rest h0 hrest
    · exact reduce_nonneg fuel _ (fun y hy => hrest y (reduceScan_sub t0 _ _ _ _ y hy)) x hx

theorem applyNoise_nonneg (nm : NoiseM) (hp : ∀ r a, nm = .loss r a → r ≤ 1) (q : Nat) (m m' : Mixture) (hm : MixNonneg m)
    (h : Mix.applyNoise nm q m = .ok m') : MixNonneg m' := by
  cases nm with
  | none => simp [Mix.applyNoise] at h; subst h; exact hm
  | depol p a =>
    simp only [Mix.applyNoise] at h
    rw [Mix.depolarize_unfold] at h
    split at h; · cases h
    split at h; · cases h
    injection h with h; subst h
    apply reduce_nonneg
    intro x hx
    simp only [List.mem_flatMap, Mix.depolBranch, List.mem_filterMap, List.mem_range] at hx
    obtain ⟨⟨pi, ti⟩, hy, k, _, hk⟩ := hx
    simp only at hk
    split at hk
    · rename_i hf
      injection hk with hk; subst hk
      exact mul_nonneg (hm (pi, ti) hy) (le_of_lt hf)
    · cases hk
  | pauli k a =>
    simp only [Mix.applyNoise] at h
    cases k <;> simp only [Mix.pauliError] at h
    · injection h with h; subst h; exact hm
    · injection h with h; subst h; exact mapTab_nonneg _ m hm
    · injection h with h; subst h; exact mapTab_nonneg _ m hm
    · injection h with h; subst h; exact mapTab_nonneg _ m hm
    · cases h
  | loss r a =>
    simp [Mix.applyNoise] at h; subst h
    intro x hx
    simp only [Mix.photonLoss, List.mem_map] at hx
    obtain ⟨⟨p, t⟩, hy, rfl⟩ := hx
    have : r ≤ 1 := hp r a rfl
    exact mul_nonneg (by linarith) (hm (p, t) hy)
  | replace => simp [Mix.applyNoise] at h
  | other => simp [Mix.applyNoise] at h

theorem total_nonneg (m : Mixture) (h : MixNonneg m) : 0 ≤ Mix.total m := by
  induction m with
  | nil => simp [Mix.total_nil]
  | cons x xs ih =>
    obtain ⟨w, t⟩ := x
    rw [Mix.total_cons]
    exact add_nonneg (h (w, t) List.mem_cons_self) (ih (fun z hz => h z (List.mem_cons_of_mem _ hz)))

theorem measureJoint_nonneg (q : Nat) (o : Bool) (m : Mixture) (h : MixNonneg m) : MixNonneg (Mix.measureJoint q o m) := by
  intro z hz
  unfold Mix.measureJoint at hz
  rw [List.mem_filterMap] at hz
  obtain ⟨y, hy, hj⟩ := hz
  have hy0 := h y hy
  rcases (jointBranch_tab q o y z hj).2 with e | e <;> rw [e]
  · positivity
  · exact hy0

/-- the repaired (joint) measurement keeps the weights non-negative -/
theorem measure_nonneg (q : Nat) (det : Bool) (m : Mixture) (h : MixNonneg m) : MixNonneg (Mix.measure q det m).1 := by
  have htot : 0 ≤ Mix.total (Mix.measureJoint q false m) + Mix.total (Mix.measureJoint q true m) := by
    rw [Mix.total_measureJoint_pair]; exact total_nonneg m h
  intro x hx
  unfold Mix.measure at hx
  simp only at hx
  generalize (if det = true then !DM.isclose0 (Mix.total (Mix.measureJoint q true m))
    else DM.isclose0 (Mix.total (Mix.measureJoint q false m))) = oc at hx
  by_cases hw : 0 < (if oc = true then Mix.total (Mix.measureJoint q true m) else Mix.total (Mix.measureJoint q false m))
  · rw [if_pos hw] at hx
    simp only [List.mem_map] at hx
    obtain ⟨z, hz, rfl⟩ := hx
    exact div_nonneg (mul_nonneg (measureJoint_nonneg q oc m h z hz) htot) (le_of_lt hw)
  · rw [if_neg hw] at hx
    simp only [List.mem_map] at hx
    obtain ⟨y, _, rfl⟩ := hx
    simp

theorem conditioned_nonneg (f : Tab → Tab) (outs : List Bool) (m : Mixture) (h : MixNonneg m) :
    MixNonneg (Mix.conditioned f outs m) := by
  intro x hx
  simp only [Mix.conditioned, List.mem_map] at hx
  obtain ⟨⟨⟨p, t⟩, o⟩, hy, rfl⟩ := hx
  have hmem : (p, t) ∈ m := (List.of_mem_zip hy).1
  cases o <;> exact h (p, t) hmem

theorem stabGate_nonneg (np n : Nat) (det : Bool) (op : COp) (s s1 : StabSt) (hm : MixNonneg s.mix)
    (h : stabGate np n det op s = .ok s1) : MixNonneg s1.mix := by
  unfold stabGate at h
  simp only at h
  have m1 : ∀ (q : Nat) (f : Tab → Tab), stabMap1 n q f s = .ok s1 → MixNonneg s1.mix := by
    intro q f h; unfold stabMap1 at h; split at h
    · injection h with h; subst h; exact mapTab_nonneg f _ hm
    · cases h
  have m2 : ∀ (q1 q2 : Nat) (f : Tab → Tab), stabMap2 n q1 q2 f s = .ok s1 → MixNonneg s1.mix := by
    intro q1 q2 f h; unfold stabMap2 at h; split at h
    · injection h with h; subst h; exact mapTab_nonneg f _ hm
    · cases h
  have m3 : ∀ (q1 q2 c : Nat) (f : Tab → Tab) (r : Bool), stabClassical n q1 q2 c det f r s = .ok s1 → MixNonneg s1.mix := by
    intro q1 q2 c f r h; unfold stabClassical at h; split at h
    · injection h with h; subst h
      have h2 := conditioned_nonneg f (Mix.measure q1 det s.mix).2 _ (measure_nonneg q1 det s.mix hm)
      cases r
      · simpa using h2
      · simpa using mapTab_nonneg _ _ h2
    · cases h
  have m4 : ∀ (q1 c : Nat), stabMeasZ n q1 c det s = .ok s1 → MixNonneg s1.mix := by
    intro q1 c h; unfold stabMeasZ at h; split at h
    · injection h with h; subst h; exact measure_nonneg q1 det s.mix hm
    · cases h
  cases hk : op.kind <;> simp only [hk] at h
  all_goals first
    | (injection h with h; subst h; exact hm)
    | exact m1 _ _ h
    | exact m2 _ _ _ h
    | exact m3 _ _ _ _ _ h
    | exact m4 _ _ h
    | cases h

/-- loss rates of a trace are `≤ 1` -/
def LossLe1 (nm : NoiseM) : Prop := ∀ r a, nm = .loss r a → r ≤ 1

theorem stabAct_nonneg (np n : Nat) (det : Bool) (arr : Array COp) (s s1 : StabSt) (a : Act)
    (ha : ∀ k side q nm, a = .noise k side q nm → LossLe1 nm) (hm : MixNonneg s.mix)
    (h : stabAct np n det arr s a = .ok s1) : MixNonneg s1.mix := by
  cases a with
  | gate k => exact stabGate_nonneg np n det _ s s1 hm h
  | noise k side q nm =>
    simp only [stabAct] at h
    cases hn : Mix.applyNoise nm q s.mix with
    | error e => rw [hn] at h; cases h
    | ok m' =>
      rw [hn] at h; injection h with h; subst h
      exact applyNoise_nonneg nm (ha k side q nm rfl) q s.mix m' hm hn
  | replace k => simp [stabAct] at h

theorem runStabActs_nonneg (np n : Nat) (det : Bool) (arr : Array COp) : ∀ (acts : List Act) (s s' : StabSt),
    (∀ k side q nm, Act.noise k side q nm ∈ acts → LossLe1 nm) → MixNonneg s.mix →
    runStabActs np n det arr acts s = .ok s' → MixNonneg s'.mix
  | [], s, s', _, hm, h => by simp [runStabActs] at h; subst h; exact hm
  | a :: as, s, s', hw, hm, h => by
    simp only [runStabActs] at h
    cases ha : stabAct np n det arr s a with
    | error e => rw [ha] at h; cases h
    | ok s1 =>
      rw [ha] at h
      exact runStabActs_nonneg np n det arr as s1 s' (fun k side q nm hmem => hw k side q nm (List.mem_cons_of_mem _ hmem))
        (stabAct_nonneg np n det arr s s1 a (fun k side q nm e => hw k side q nm (by rw [e]; exact List.mem_cons_self)) hm ha) h

/-- every noise application emitted satisfies `P` (no well-formedness of the operation needed) -/
def NoiseP (P : NoiseM → Prop) (l : List Act) : Prop := ∀ k side q nm, Act.noise k side q nm ∈ l → P nm

theorem noiseP_gate (P : NoiseM → Prop) (k : Nat) : NoiseP P [Act.gate k] := by
  intro k' side q nm hm; simp only [List.mem_singleton] at hm; cases hm

theorem noiseP_append (P : NoiseM → Prop) (l1 l2 : List Act) (h1 : NoiseP P l1) (h2 : NoiseP P l2) : NoiseP P (l1 ++ l2) := by
  intro k side q nm hm
  rcases List.mem_append.1 hm with h | h
  · exact h1 k side q nm h
  · exact h2 k side q nm h

theorem addl_P (P : NoiseM → Prop) (be : Backend) (np : Nat) (op : COp) (k : Nat) (a b : NoiseM) (pa : P a) (pb : P b)
    (l : List Act) (h : addl be np op k a b = .ok l) : NoiseP P l := by
  unfold addl at h
  split at h
  · injection h with h; subst h
    intro k' side q nm hm
    split at hm
    · cases hm
    · simp only [List.mem_singleton] at hm; injection hm with _ _ _ e; rw [e]; exact pa
  · split at h
    · injection h with h; subst h
      intro k' side q nm hm
      rcases List.mem_append.1 hm with hm | hm
      · split at hm
        · cases hm
        · simp only [List.mem_singleton] at hm; injection hm with _ _ _ e; rw [e]; exact pa
      · split at hm
        · cases hm
        · simp only [List.mem_singleton] at hm; injection hm with _ _ _ e; rw [e]; exact pb
    · cases be
      · cases h
      · injection h with h; subst h; intro k' side q nm hm; cases hm

theorem placeOp_P (P : NoiseM → Prop) (pn : P NoiseM.none) (ns : Bool) (be : Backend) (np : Nat) (op : COp) (k : Nat)
    (p0 : P op.n0) (p1 : P op.n1) (acts : List Act) (h : placeOp ns be np op k = .ok acts) : NoiseP P acts := by
  unfold placeOp at h
  cases hctl : (op.kind.isCtrlPair || op.kind.isClassicalCtrl) <;> simp only [hctl, Bool.false_eq_true, if_false, if_true] at h
  · split at h
    · injection h with h; subst h; exact noiseP_gate P k
    · split at h
      · split at h
        · cases ha : addl be np op k op.n0 .none with
          | error e => rw [ha] at h; cases h
          | ok l => rw [ha] at h; injection h with h; subst h
                    exact noiseP_append P _ _ (noiseP_gate P k) (addl_P P be np op k _ _ p0 pn l ha)
        · cases ha : addl be np op k op.n0 .none with
          | error e => rw [ha] at h; cases h
          | ok l => rw [ha] at h; injection h with h; subst h
                    exact noiseP_append P _ _ (addl_P P be np op k _ _ p0 pn l ha) (noiseP_gate P k)
      · split at h
        · injection h with h; subst h
          intro k' side q nm hm; simp only [List.mem_singleton] at hm; cases hm
        · cases h
  · split at h
    · injection h with h; subst h; exact noiseP_gate P k
    · split at h
      · split at h
        · cases ha : addl be np op k op.n0 op.n1 with
          | error e => rw [ha] at h; cases h
          | ok l => rw [ha] at h; injection h with h; subst h
                    exact noiseP_append P _ _ (noiseP_gate P k) (addl_P P be np op k _ _ p0 p1 l ha)
        · cases ha : addl be np op k op.n0 op.n1 with
          | error e => rw [ha] at h; cases h
          | ok l => rw [ha] at h; injection h with h; subst h
                    exact noiseP_append P _ _ (addl_P P be np op k _ _ p0 p1 l ha) (noiseP_gate P k)
        · cases ha : addl be np op k .none op.n1 with
          | error e => rw [ha] at h; cases h
          | ok l1 =>
            cases hb : addl be np op k op.n0 .none with
            | error e => rw [ha, hb] at h; cases h
            | ok l2 =>
              rw [ha, hb] at h; injection h with h; subst h
              exact noiseP_append P _ _ (noiseP_append P _ _ (addl_P P be np op k _ _ pn p1 l1 ha) (noiseP_gate P k))
                (addl_P P be np op k _ _ p0 pn l2 hb)
        · cases ha : addl be np op k op.n0 .none with
          | error e => rw [ha] at h; cases h
          | ok l1 =>
            cases hb : addl be np op k .none op.n1 with
            | error e => rw [ha, hb] at h; cases h
            | ok l2 =>
              rw [ha, hb] at h; injection h with h; subst h
              exact noiseP_append P _ _ (noiseP_append P _ _ (addl_P P be np op k _ _ p0 pn l1 ha) (noiseP_gate P k))
                (addl_P P be np op k _ _ pn p1 l2 hb)
      · cases h

theorem stabGo_nonneg (ns : Bool) (np n : Nat) (det : Bool) (arr : Array COp) : ∀ (ops : List COp) (k : Nat) (s s' : StabSt),
    (∀ op ∈ ops, LossLe1 op.n0 ∧ LossLe1 op.n1) → MixNonneg s.mix →
    stabGo ns np n det arr ops k s = .ok s' → MixNonneg s'.mix
  | [], _, s, s', _, hm, h => by simp [stabGo] at h; subst h; exact hm
  | op :: rest, k, s, s', hw, hm, h => by
    simp only [stabGo] at h
    split at h
    · cases h
    · cases hp : placeOp ns .stab np op k with
      | error e => rw [hp] at h; cases h
      | ok acts =>
        rw [hp] at h; simp only at h
        cases hr : runStabActs np n det arr acts s with
        | error e => rw [hr] at h; cases h
        | ok s1 =>
          rw [hr] at h; simp only at h
          have ho := hw op List.mem_cons_self
          have h1 := runStabActs_nonneg np n det arr acts s s1
            (placeOp_P LossLe1 (fun r a e => by cases e) ns .stab np op k ho.1 ho.2 acts hp) hm hr
          exact stabGo_nonneg ns np n det arr rest (k + 1) s1 s' (fun o ho' => hw o (List.mem_cons_of_mem _ ho')) h1 h

/-- **every weight of the mixture is non-negative** — any circuit (measurements, classical control, resets included), loss
    rates `≤ 1` -/
theorem compileStab_nonneg (ns : Bool) (ne np nc : Nat) (det : Bool) (ops : List COp)
    (hw : ∀ op ∈ ops, LossLe1 op.n0 ∧ LossLe1 op.n1) (s : StabSt) (h : compileStab ns ne np nc det ops = .ok s) :
    MixNonneg s.mix := by
  unfold compileStab at h
  refine stabGo_nonneg ns np (ne + np) det ops.toArray ops 0 _ s hw ?_ h
  intro x hx
  simp only [List.mem_singleton] at hx
  subst hx
  norm_num

end MixDM
end Graphiq
