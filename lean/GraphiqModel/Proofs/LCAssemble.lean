/-
  Proofs/LCAssemble.lean — block-diagonal assembly of arbitrary per-component solutions (not only those found by the
  algorithm): if every induced pair of a common component partition admits a valid local Clifford, so does the whole pair.
-/
import GraphiqModel.Proofs.LCRepair
namespace Graphiq.LC
open Graphiq

/-- scatter one chosen vector per component into a vector of `4 n` entries: every component finds its vector back through
    the re-indexing -/
theorem assemble_vectors (n : Nat) (comps : List (List Nat)) (P : List Nat → List Bool → Prop)
    (hnd : ∀ c ∈ comps, c.Nodup) (hlt : ∀ c ∈ comps, ∀ v ∈ c, v < n)
    (hdis : comps.Pairwise fun c1 c2 => ∀ v, v ∈ c1 → v ∉ c2) (hw : ∀ c ∈ comps, ∃ w, P c w)
    (sol : List Bool) (hlen : sol.length = 4 * n) :
    ∃ res : List Bool, res.length = 4 * n ∧
      (∀ v, (∀ c ∈ comps, v ∉ c) → ∀ t, t < 4 → vget res (4 * v + t) = vget sol (4 * v + t)) ∧
      ∀ c ∈ comps, ∃ w, P c w ∧ ∀ i t, i < c.length → t < 4 → vget res (4 * c.getD i 0 + t) = vget w (4 * i + t) := by
  induction comps generalizing sol with
  | nil => exact ⟨sol, hlen, fun _ _ _ _ => rfl, fun c hc => by cases hc⟩
  | cons c rest ih =>
    rw [List.pairwise_cons] at hdis
    obtain ⟨w, hPw⟩ := hw c List.mem_cons_self
    have hc_nd := hnd c List.mem_cons_self
    have hc_lt := hlt c List.mem_cons_self
    obtain ⟨res, r1, r2, r3⟩ := ih (fun c' h' => hnd c' (List.mem_cons_of_mem _ h'))
      (fun c' h' => hlt c' (List.mem_cons_of_mem _ h')) hdis.2 (fun c' h' => hw c' (List.mem_cons_of_mem _ h'))
      (scatter sol c w) (by rw [scatter_length]; exact hlen)
    refine ⟨res, r1, ?_, ?_⟩
    · intro v hv t ht
      rw [r2 v (fun c' h' => hv c' (List.mem_cons_of_mem _ h')) t ht]
      exact vget_scatter_out sol c w v t (hv c List.mem_cons_self) ht
    · intro c' hc'
      rcases List.mem_cons.mp hc' with e | hc'
      · subst e
        refine ⟨w, hPw, ?_⟩
        intro i t hi ht
        have hmem := getD_mem_of_lt c' i hi
        rw [r2 (c'.getD i 0) (fun c'' h'' => hdis.1 c'' h'' _ hmem) t ht]
        exact vget_scatter_in sol c' w hc_nd i t hi ht (by rw [hlen]; have := hc_lt _ hmem; omega)
      · exact r3 c' hc'

/-- **assembly**: valid local Cliffords for the induced pairs of all common components give a valid local Clifford for the
    whole pair -/
theorem assemble_valid (n : Nat) (A B : Adj) (hA : Simple n A) (hB : Simple n B)
    (hcomps : connectedComponents n A = connectedComponents n B)
    (hw : ∀ c ∈ connectedComponents n A, ∃ w : List Bool,
      (∀ i i', i < c.length → i' < c.length → equation c.length (subAdj A c) (subAdj B c) (vget w) i i' = false) ∧
        isValidClifford c.length w = true) :
    ∃ v : List Bool, (∀ j k, j < n → k < n → equation n A B (vget v) j k = false) ∧ isValidClifford n v = true := by
  obtain ⟨hPa, hCa, _⟩ := connectedComponents_partition n A hA.1
  obtain ⟨_, hCb, _⟩ := connectedComponents_partition n B hB.1
  obtain ⟨res, _, _, r3⟩ := assemble_vectors n (connectedComponents n A)
    (fun c w => (∀ i i', i < c.length → i' < c.length →
        equation c.length (subAdj A c) (subAdj B c) (vget w) i i' = false) ∧ isValidClifford c.length w = true)
    (fun c hc => hPa.nodup c hc) (fun c hc v hv => hPa.lt c hc v hv) hPa.disjoint hw
    (List.replicate (4 * n) false) (by simp)
  have hblock := (block_solution_iff n A B _ (vget res) hPa hCa (by rw [hcomps]; exact hCb)).mpr (by
    intro c hc
    obtain ⟨w, ⟨hw1, hw2⟩, hag⟩ := r3 c hc
    obtain ⟨t1, t2⟩ := sub_transfer c (subAdj A c) (subAdj B c) (vget res) (vget w) hag
    refine ⟨fun i i' hi hi' => ?_, fun i hi => ?_⟩
    · rw [t1 i i' hi hi']; exact hw1 i i' hi hi'
    · rw [t2 i hi]; exact detQ_of_valid c.length w hw2 i hi)
  exact ⟨res, hblock.1, valid_of_detQ n res hblock.2⟩

end Graphiq.LC
