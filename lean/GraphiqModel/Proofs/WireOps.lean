/-
  WireOps.lean — for a circuit built by `add`, the operations along the wire of a register (what `reg_gate_history`
  returns between Input and Output) are exactly the operations of the list acting on that register, in list order.
-/
import GraphiqModel.Proofs.Refine
import GraphiqModel.Proofs.Unwrap
set_option linter.unusedSectionVars false
set_option linter.unusedSimpArgs false
namespace Graphiq
namespace Metrics
open Dag Relation

/-- the operations held by the operation nodes of a wire, in wire order -/
def wireOps (c : Dag) (l : List NodeId) : List Op :=
  l.filterMap fun n => match n with | .op _ => c.opOf? n | _ => none

theorem wireOps_append (c : Dag) (l1 l2 : List NodeId) : wireOps c (l1 ++ l2) = wireOps c l1 ++ wireOps c l2 := by
  simp [wireOps, List.filterMap_append]

theorem wireOps_congr {c c' : Dag} {l : List NodeId} (h : ∀ n ∈ l, c'.opOf? n = c.opOf? n) : wireOps c' l = wireOps c l := by
  induction l with
  | nil => rfl
  | cons a t ih =>
    unfold wireOps
    rw [List.filterMap_cons, List.filterMap_cons]
    have ha := h a (by simp)
    have ht := ih (fun n hn => h n (List.mem_cons_of_mem _ hn))
    unfold wireOps at ht
    cases a with
    | inp r => simpa using ht
    | out r => simpa using ht
    | op i => simp only [ha]; rw [ht]

/-- the invariant of the construction: every wire carries the operations of the list acting on its register, in order;
    every register an operation of the list acts on exists -/
def WireSeq (c : Dag) (seq : List Op) : Prop :=
  (∀ P, Inv c P → ∀ r, c.live r → wireOps c (P r) = seq.filter (fun o => decide (r ∈ opRegs o))) ∧
  (∀ o ∈ seq, ∀ r ∈ opRegs o, c.live r)

theorem withNewReg_wireSeq {c : Dag} {P : Paths} (g : Good c P) {seq : List Op} (hW : WireSeq c seq) {r : Reg}
    (hr : r.idx = c.regs r.ty) : WireSeq (c.withNewReg r) seq := by
  have g1 := withNewReg_good g hr
  have hnl : ¬ c.live r := by simp [live, hr]
  have hnodes : (c.withNewReg r).nodes = c.nodes ++ [(.inp r, Op.io .input r), (.out r, Op.io .output r)] := rfl
  constructor
  · intro P1 h1 r' hl'
    have hP1 : P1 r' = setPath P r [.inp r, .out r] r' := h1.paths_unique g1.inv r'
    rw [hP1]
    rcases (withNewReg_live c r r' hr).mp hl' with hl | rfl
    · have hne : r' ≠ r := fun e => hnl (e ▸ hl)
      rw [setPath_other _ _ hne, ← hW.1 P g.inv r' hl]
      apply wireOps_congr
      intro n hn
      have hnm := g.inv.mem_nodes r' n hn
      have := opOf_append_other hnodes (x := n) (by
        intro p hp; simp at hp
        rcases hp with rfl | rfl
        · intro e; simp only at e; subst e; exact hnl ((g.inv.inp_iff r).mp hnm)
        · intro e; simp only at e; subst e; exact hnl ((g.inv.out_iff r).mp hnm)) (Or.inr trivial)
      rw [this]; cases c.opOf? n <;> rfl
    · simp only [setPath_same]
      have : seq.filter (fun o => decide (r' ∈ opRegs o)) = [] := by
        rw [List.filter_eq_nil_iff]
        intro o ho hm
        have : r' ∈ opRegs o := by simpa using hm
        exact hnl (hW.2 o ho r' this)
      rw [this]; simp [wireOps]
  · intro o ho r' hr'
    exact (withNewReg_live c r r' hr).mpr (Or.inl (hW.2 o ho r' hr'))

theorem addRegIfAbsent_wireSeq {c : Dag} {P : Paths} (g : Good c P) {seq : List Op} (hW : WireSeq c seq) (r : Reg) :
    WireSeq (c.addRegIfAbsent r).1 seq := by
  by_cases h1 : c.regs r.ty < r.idx
  · rw [addRegIfAbsent_gap h1]; exact hW
  · by_cases h2 : r.idx = c.regs r.ty
    · rw [addRegIfAbsent_new g.inv h2]; exact withNewReg_wireSeq g hW h2
    · have hl : c.live r := by unfold live; omega
      rw [addRegIfAbsent_old g.inv hl]; exact hW

theorem addRegs_wireSeq {c : Dag} {P : Paths} (g : Good c P) {seq : List Op} (hW : WireSeq c seq) (rs : List Reg) :
    WireSeq (c.addRegs rs).1 seq := by
  induction rs generalizing c P with
  | nil => exact hW
  | cons r rest ih =>
    have h1 := addRegIfAbsent_wireSeq g hW r
    obtain ⟨P1, g1, _⟩ := addRegIfAbsent_good g r
    unfold addRegs
    cases hres : c.addRegIfAbsent r with
    | mk c1 err =>
      rw [hres] at h1 g1
      simp only at h1 g1
      cases err with
      | some e => exact h1
      | none => exact ih g1 h1

theorem ensureRegs_wireSeq {c : Dag} {P : Paths} (g : Good c P) {seq : List Op} (hW : WireSeq c seq) (op : Op) :
    WireSeq (c.ensureRegs op).1 seq := by
  have h1 := addRegs_wireSeq g hW (op.cregs.map (Reg.mk .c))
  obtain ⟨P1, g1, _⟩ := addRegs_good g (op.cregs.map (Reg.mk .c))
  unfold ensureRegs
  cases hres : c.addRegs (op.cregs.map (Reg.mk .c)) with
  | mk c1 err =>
    rw [hres] at h1 g1
    simp only at h1 g1
    cases err with
    | some e => exact h1
    | none =>
      simp only
      by_cases hq : op.qregs.isEmpty = true
      · simp only [hq, if_true]; exact h1
      · have hq' : op.qregs.isEmpty = false := by simpa using hq
        simp only [hq', Bool.false_eq_true, if_false]
        exact addRegs_wireSeq g1 h1 _

theorem add_wireSeq {c : Dag} {P : Paths} (g : Good c P) {op : Op} (hop : OpWF op) (hlive : ∀ r ∈ opRegs op, c.live r)
    {seq : List Op} (hW : WireSeq c seq) : WireSeq (c.add_ op) (seq ++ [op]) := by
  obtain ⟨P2, g2, hregs, _, hnodes, _⟩ := add_good' g hop hlive
  obtain ⟨P', hinv', hother, happ⟩ := add_refines g hop hlive
  have hfresh := g.inv.op_fresh
  have hopOld : ∀ n, n ∈ c.nodeIds → (c.add_ op).opOf? n = c.opOf? n := by
    intro n hn
    have := opOf_append_other hnodes (x := n) (by
      intro p hp; simp at hp; rw [hp]; intro e; simp only at e; subst e; exact hfresh hn) (Or.inr trivial)
    rw [this]; cases c.opOf? n <;> rfl
  have hopNew : (c.add_ op).opOf? (.op (c.nodeId + 1)) = some op :=
    (opOf_eq_some g2.inv.ids_nodup).mpr (by rw [hnodes]; simp)
  constructor
  · intro P1 h1 r hl
    have hl0 : c.live r := (live_eq_of_regs hregs r).mp hl
    rw [h1.paths_unique hinv' r, List.filter_append]
    by_cases hr : r ∈ opRegs op
    · obtain ⟨pre, hpre, hpre'⟩ := happ r hr
      rw [hpre']
      have e1 : pre ++ [NodeId.op (c.nodeId + 1), NodeId.out r] = pre ++ ([NodeId.op (c.nodeId + 1)] ++ [NodeId.out r]) := rfl
      rw [e1, wireOps_append, wireOps_append]
      have hold : wireOps (c.add_ op) pre = wireOps c pre := by
        apply wireOps_congr
        intro n hn
        exact hopOld n (g.inv.mem_nodes r n (by rw [hpre]; exact List.mem_append_left _ hn))
      have hW0 := hW.1 P g.inv r hl0
      rw [hpre, wireOps_append] at hW0
      have hout : wireOps c [NodeId.out r] = [] := by simp [wireOps]
      have hout' : wireOps (c.add_ op) [NodeId.out r] = [] := by simp [wireOps]
      have hnew : wireOps (c.add_ op) [NodeId.op (c.nodeId + 1)] = [op] := by simp [wireOps, hopNew]
      rw [hout, List.append_nil] at hW0
      rw [hold, hW0, hnew, hout']
      simp [hr]
    · rw [hother r hr]
      have hold : wireOps (c.add_ op) (P r) = wireOps c (P r) :=
        wireOps_congr (fun n hn => hopOld n (g.inv.mem_nodes r n hn))
      rw [hold, hW.1 P g.inv r hl0]
      simp [hr]
  · intro o ho r hr
    rw [live_eq_of_regs hregs]
    rcases List.mem_append.mp ho with ho | ho
    · exact hW.2 o ho r hr
    · simp at ho; subst ho; exact hlive r hr

/-- **the wires of a circuit built by `add` carry the operation list, filtered by register, in order** -/
theorem build_wireSeq (ne np nc : Nat) (seq : List Op) (hwf : ∀ op ∈ seq, OpWF op) (hok : (build ne np nc seq).2 = none) :
    WireSeq (build ne np nc seq).1 seq := by
  have herr : ∀ (l : List Op) (c : Dag) (e : DErr), (l.foldl buildStep (c, some e)).2 = some e := by
    intro l; induction l with
    | nil => intro c e; rfl
    | cons o t iht => intro c e; rw [List.foldl_cons]; exact iht c e
  have key : ∀ (rest pre : List Op) (c : Dag) (P : Paths), Good c P → (∀ op ∈ rest, OpWF op) → WireSeq c pre →
      (rest.foldl buildStep (c, none)).2 = none → WireSeq (rest.foldl buildStep (c, none)).1 (pre ++ rest) := by
    intro rest
    induction rest with
    | nil => intro pre c P _ _ hW _; simpa using hW
    | cons op rest ih =>
      intro pre c P g hwf hW hok
      rw [List.foldl_cons] at hok ⊢
      have hstep : buildStep (c, none) op = c.add op := rfl
      rw [hstep] at hok ⊢
      have hW1 := ensureRegs_wireSeq g hW op
      obtain ⟨P1, g1, hl1, _, _⟩ := ensureRegs_good g op
      cases hres : c.add op with
      | mk c2 err =>
        rw [hres] at hok
        cases err with
        | some e => rw [herr] at hok; simp at hok
        | none =>
          unfold add at hres
          cases hens : c.ensureRegs op with
          | mk c1 e1 =>
            rw [hens] at hres hW1 g1 hl1
            simp only at hres hW1 g1 hl1
            cases e1 with
            | some e => simp at hres
            | none =>
              simp only at hres
              injection hres with hc2 _
              subst hc2
              have hW2 := add_wireSeq g1 (hwf op (by simp)) (hl1 rfl) hW1
              obtain ⟨P2, g2, _⟩ := add_good' g1 (hwf op (by simp)) (hl1 rfl)
              have := ih (pre ++ [op]) (c1.add_ op) P2 g2 (fun o ho => hwf o (List.mem_cons_of_mem _ ho)) hW2 hok
              simpa using this
  obtain ⟨P0, g0⟩ := init_good ne np nc
  have hW0 : WireSeq (Dag.init ne np nc) [] := by
    unfold Dag.init
    apply addRegs_wireSeq empty_good
    constructor
    · intro P _ r hl; cases r with | mk t i => cases t <;> simp [live, regs, Dag.empty] at hl
    · intro o ho; simp at ho
  have := key seq [] (Dag.init ne np nc) P0 g0 hwf hW0 hok
  simpa [build] using this

end Metrics
end Graphiq
