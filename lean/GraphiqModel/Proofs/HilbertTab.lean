/-
  Proofs/HilbertTab.lean — the unitary operations of the Clifford-tableau API (`Tab`) as Hilbert-space evolutions of
  the state `ρ(STab.ofTab t)` of the stabilizer half: every gate of `Gate` (`t.map g.act` = `hGate`, `sGate`, …,
  `cnotGate`, `czGate`) and the qubit swap (`swapGate`, with the permutation matrix that exchanges two bits).
-/
import GraphiqModel.Proofs.HilbertMeasure
namespace Graphiq
namespace Hilbert
open Matrix PRow

/-- gates neither read nor write the `ip` bit -/
theorem Gate.act_with_ip (g : Gate) (p : PRow) : g.act { p with ip := false } = { g.act p with ip := false } := by
  cases g <;> rfl

/-- **Tableau gates are unitary evolution.**  `U_g ρ(t) U_g† = ρ(t.map g.act)` for the state of the stabilizer half
    of a Clifford tableau; `t.map (Gate.H q).act = t.hGate q`, …, `t.map (Gate.CZ c t).act = t.czGate c t` by
    definition. -/
theorem rho_tab_gate (t : Tab) (g : Gate) (hg : g.WF t.n) :
    gateMat t.n g * rho t.n (STab.ofTab t) * (gateMat t.n g)ᴴ = rho t.n (STab.ofTab (t.map g.act)) := by
  have h := rho_applyGate (STab.ofTab t) g hg
  have hn : (STab.ofTab t).n = t.n := rfl
  rw [hn] at h
  rw [h]
  apply rhoTo_congr
  intro i _
  show EqOn t.n (g.act { (t.row (i + t.n)) with ip := false }) { (g.act (t.row (i + t.n))) with ip := false }
  rw [Gate.act_with_ip]
  exact EqOn.refl _ _

/-! ### swap -/

/-- exchange bits `a` and `b` of a basis string -/
def swapB {n : Nat} (a b : Nat) (c : Bits n) : Bits n :=
  fun j => if j.val = a then bx c b else if j.val = b then bx c a else c j

theorem bx_swapB {n : Nat} (a b : Nat) (ha : a < n) (hb : b < n) (c : Bits n) (j : Nat) :
    bx (swapB a b c) j = if j = a then bx c b else if j = b then bx c a else bx c j := by
  by_cases hj : j < n
  · rw [bx_lt _ _ hj]
    simp only [swapB]
    by_cases h1 : j = a
    · simp [h1]
    · by_cases h2 : j = b
      · subst h2; simp [h1]
      · simp [h1, h2, bx_lt _ _ hj]
  · have h1 : j ≠ a := by omega
    have h2 : j ≠ b := by omega
    rw [bx_ge _ _ hj, if_neg h1, if_neg h2, bx_ge _ _ hj]

theorem swapB_involutive {n : Nat} (a b : Nat) (ha : a < n) (hb : b < n) :
    Function.Involutive (swapB (n := n) a b) := by
  intro c
  apply bits_ext
  intro j _
  rw [bx_swapB a b ha hb, bx_swapB a b ha hb, bx_swapB a b ha hb, bx_swapB a b ha hb]
  by_cases h1 : j = a
  · by_cases h3 : b = a
    · simp [h1, h3]
    · simp [h1, h3]
  · by_cases h2 : j = b
    · subst h2; simp [h1]
    · simp [h1, h2]

/-- the permutation matrix of the qubit swap -/
noncomputable def swapMat (n a b : Nat) : Matrix (Bits n) (Bits n) ℂ := mono (swapB a b) (fun _ => 0)

theorem swap_intertwine (n a b : Nat) (ha : a < n) (hb : b < n) (p : PRow) :
    swapMat n a b * pauliMat n p = pauliMat n (PRow.swap a b p) * swapMat n a b := by
  unfold swapMat pauliMat
  rw [mono_mul_mono, mono_mul_mono]
  apply mono_congr
  · funext c
    apply bits_ext
    intro j hj
    have hL : bx (swapB a b (flip p.x c)) j = if j = a then xor (bx c b) (p.x b) else if j = b then xor (bx c a) (p.x a)
        else xor (bx c j) (p.x j) := by
      rw [bx_swapB a b ha hb, bx_flip _ _ _ hb, bx_flip _ _ _ ha, bx_flip _ _ _ hj]
    have hR : bx (flip (PRow.swap a b p).x (swapB a b c)) j
        = xor (if j = a then bx c b else if j = b then bx c a else bx c j) ((PRow.swap a b p).x j) := by
      rw [bx_flip _ _ _ hj, bx_swapB a b ha hb]
    rw [hL, hR]
    simp only [PRow.swap]
    by_cases h1 : j = a
    · simp [h1]
    · by_cases h2 : j = b
      · subst h2; simp [h1]
      · simp [h1, h2]
  · intro c
    show (0 + pexp n p c) % 4 = (pexp n (PRow.swap a b p) (swapB a b c) + 0) % 4
    unfold pexp
    have hph : (PRow.swap a b p).ph = p.ph := rfl
    rw [hph]
    by_cases hab : a = b
    · subst hab
      have : sumTo n (fun j => sFun ((PRow.swap a a p).x j) ((PRow.swap a a p).z j) (bx (swapB a a c) j))
          = sumTo n (fun j => sFun (p.x j) (p.z j) (bx c j)) := by
        apply sumTo_congr
        intro j _
        rw [bx_swapB a a ha ha]
        simp only [PRow.swap]
        by_cases h1 : j = a <;> simp [h1]
      rw [this]; omega
    · have hs := sumTo_local_two n a b (fun j => sFun (p.x j) (p.z j) (bx c j))
        (fun j => sFun ((PRow.swap a b p).x j) ((PRow.swap a b p).z j) (bx (swapB a b c) j)) ha hb hab (by
          intro j _ h1 h2
          rw [bx_swapB a b ha hb]
          simp [PRow.swap, h1, h2])
      have e1 : sFun ((PRow.swap a b p).x a) ((PRow.swap a b p).z a) (bx (swapB a b c) a)
          = sFun (p.x b) (p.z b) (bx c b) := by
        rw [bx_swapB a b ha hb]; simp [PRow.swap]
      have e2 : sFun ((PRow.swap a b p).x b) ((PRow.swap a b p).z b) (bx (swapB a b c) b)
          = sFun (p.x a) (p.z a) (bx c a) := by
        rw [bx_swapB a b ha hb]
        have hba : b ≠ a := Ne.symm hab
        simp [PRow.swap, hba]
      rw [e1, e2] at hs
      omega

theorem swap_unitary (n a b : Nat) (ha : a < n) (hb : b < n) :
    swapMat n a b * (swapMat n a b)ᴴ = 1 ∧ (swapMat n a b)ᴴ * swapMat n a b = 1 :=
  ⟨mono_mul_conjTranspose _ (swapB_involutive a b ha hb) _, mono_conjTranspose_mul _ (swapB_involutive a b ha hb) _⟩

/-- `swap_gate` is conjugation by the permutation matrix of the swap -/
theorem swap_conj (n a b : Nat) (ha : a < n) (hb : b < n) (p : PRow) :
    swapMat n a b * pauliMat n p * (swapMat n a b)ᴴ = pauliMat n (PRow.swap a b p) := by
  rw [swap_intertwine n a b ha hb, Matrix.mul_assoc, (swap_unitary n a b ha hb).1, Matrix.mul_one]

theorem rho_tab_swap (t : Tab) (a b : Nat) (ha : a < t.n) (hb : b < t.n) :
    swapMat t.n a b * rho t.n (STab.ofTab t) * (swapMat t.n a b)ᴴ = rho t.n (STab.ofTab (t.swapGate a b)) := by
  have h := conj_rhoTo t.n _ (swap_unitary t.n a b ha hb).1 (swap_unitary t.n a b ha hb).2 (STab.ofTab t).row
    (fun i => PRow.swap a b ((STab.ofTab t).row i)) t.n (fun i _ => swap_conj t.n a b ha hb _)
  exact h

end Hilbert
end Graphiq
