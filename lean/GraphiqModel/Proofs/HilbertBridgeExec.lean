/-
  Proofs/HilbertBridgeExec.lean — the `DensityMatrix` methods of the *executable* exact model (`Model/DMSem.lean`:
  `applyUnitary`, `applyChannel`, `applyMeasurement`) represent, under `Rep` (Proofs/HilbertBridgeMat.lean), the
  Hilbert-space operations of Proofs/HilbertBridgeOps.lean.  Shared between C01 (compile loop, Proofs/DMCompileExec.lean)
  and C06 (noise channels): imports neither Proofs/Circuit.lean nor Proofs/Noise.lean.
-/
import GraphiqModel.Proofs.HilbertBridgeMat
namespace Graphiq
namespace DMX
open Hilbert Matrix

/-! ### `DensityMatrix` methods of the executable model -/

theorem rep_applyUnitary {n : Nat} {ρ : Mat} {R : DMat n} (u : DM.SMat) {U : DMat n} (hρ : Rep n ρ R)
    (hu : Rep n u.m U) :
    ∃ m, DM.applyUnitary ρ u = .ok m ∧ Rep n m (herm (((u.sq : ℝ) : ℂ) • (U * R * Uᴴ))) := by
  unfold DM.applyUnitary
  rw [if_neg (not_not.mpr (hρ.1.trans hu.1.symm))]
  exact ⟨_, rfl, (Rep.hermitianize (Rep.smul _ (Rep.conjBy hu hρ)).norm).norm⟩

theorem rep_applyUnitary_one {n : Nat} {ρ u : Mat} {R U : DMat n} (hρ : Rep n ρ R) (hu : Rep n u U) :
    ∃ m, DM.applyUnitary ρ ⟨1, u⟩ = .ok m ∧ Rep n m (applyUnitary R U) := by
  obtain ⟨m, h1, h2⟩ := rep_applyUnitary ⟨1, u⟩ hρ hu
  refine ⟨m, h1, h2.congr ?_⟩
  unfold applyUnitary
  simp

/-- `½ · H₂ ρ H₂†` (the executable Hadamard) is `apply_unitary` with `hadamard() = H₂/√2` -/
theorem rep_applyUnitary_had {n : Nat} {ρ u : Mat} {R : DMat n} (q : Nat) (hρ : Rep n ρ R)
    (hu : Rep n u (oneQ n q hadM)) :
    ∃ m, DM.applyUnitary ρ ⟨1 / 2, u⟩ = .ok m ∧ Rep n m (applyUnitary R (oneQ n q hadamardM)) := by
  obtain ⟨m, h1, h2⟩ := rep_applyUnitary ⟨1 / 2, u⟩ hρ hu
  refine ⟨m, h1, h2.congr ?_⟩
  unfold applyUnitary hadamardM
  rw [oneQ_smul, Matrix.conjTranspose_smul, star_invSqrt2, smul_mul_assoc, smul_mul_assoc, mul_smul_comm, smul_smul,
    invSqrt2_mul_self]
  congr 2
  norm_num

theorem rep_resetChannel {n : Nat} {ρ : Mat} {R : DMat n} (q : Nat) (hq : q < n) (hρ : Rep n ρ R) :
    ∃ m, DM.applyChannel ρ (DM.resetKraus n q) = .ok m ∧ Rep n m (applyChannel R (resetKraus n q)) := by
  have h0 := rep_getOneQubitGate n q hq _ _ rep2_ketBra00
  have h1 := rep_getOneQubitGate n q hq _ _ rep2_ketBra01
  unfold DM.applyChannel DM.resetKraus
  simp only
  rw [if_neg (not_not.mpr (hρ.1.trans h0.1.symm))]
  refine ⟨_, rfl, ?_⟩
  unfold applyChannel resetKraus
  simp only [List.foldl]
  have hz : Rep n (Mat.zero ρ.n) (0 : DMat n) := by rw [hρ.1]; exact Rep.zero n
  have s0 := (Rep.add hz (Rep.smul 1 (Rep.conjBy h0 hρ)).norm).norm
  have s1 := (Rep.add s0 (Rep.smul 1 (Rep.conjBy h1 hρ)).norm).norm
  refine (Rep.hermitianize s1).norm.congr ?_
  simp

theorem cast_clip (x : Rat) : (((if x < 0 then 0 else x : Rat)) : ℝ) = max 0 (x : ℝ) := by
  split
  · rename_i h
    have : (x : ℝ) < 0 := by exact_mod_cast h
    rw [max_eq_left (le_of_lt this)]; simp
  · rename_i h
    have : (0 : ℝ) ≤ (x : ℝ) := by exact_mod_cast (not_lt.mp h)
    rw [max_eq_right this]

open Classical in
theorem isclose0_cast (x : Rat) : DM.isclose0 x = decide (Hilbert.isclose0 (x : ℝ)) := by
  unfold DM.isclose0 Hilbert.isclose0
  rw [DM.rat_abs_eq]
  apply decide_eq_decide.mpr
  constructor
  · intro h
    have : ((|x| : Rat) : ℝ) ≤ ((1 / 100000000 : Rat) : ℝ) := by exact_mod_cast h
    simpa using this
  · intro h
    have : ((|x| : Rat) : ℝ) ≤ ((1 / 100000000 : Rat) : ℝ) := by simpa using h
    exact_mod_cast this

/-- the two forced settings of the executable model as `Det` -/
def detOf (b : Bool) : Det := if b then .one else .zero

/-- **`apply_measurement` of the executable model** represents `measureH`, provided the divisor is positive -/
theorem rep_applyMeasurement {n : Nat} {ρ p0 p1 : Mat} {R P0 P1 : DMat n} (hρ : Rep n ρ R) (h0 : Rep n p0 P0)
    (h1 : Rep n p1 P1) (det : Bool) (script : List Bool) (hpos : 0 < measNormH R P0 P1 (detOf det) script) :
    ∃ m, DM.applyMeasurement ρ p0 p1 det = .ok (some m, (measureH R P0 P1 (detOf det) script).2.1) ∧
      Rep n m (measureH R P0 P1 (detOf det) script).1 := by
  have e0 : (((if (ρ.mul p0).trace.re < 0 then 0 else (ρ.mul p0).trace.re : Rat)) : ℝ) = probOf R P0 := by
    rw [cast_clip, (Rep.mul hρ h0).trace_re]; rfl
  have e1 : (((if (ρ.mul p1).trace.re < 0 then 0 else (ρ.mul p1).trace.re : Rat)) : ℝ) = probOf R P1 := by
    rw [cast_clip, (Rep.mul hρ h1).trace_re]; rfl
  unfold DM.applyMeasurement
  rw [if_neg (not_not.mpr (hρ.1.trans h0.1.symm))]
  simp only
  generalize (if (ρ.mul p0).trace.re < 0 then 0 else (ρ.mul p0).trace.re : Rat) = q0 at e0 ⊢
  generalize (if (ρ.mul p1).trace.re < 0 then 0 else (ρ.mul p1).trace.re : Rat) = q1 at e1 ⊢
  -- the outcome
  have hout : (if det = true then !DM.isclose0 q1 else DM.isclose0 q0) = (measureH R P0 P1 (detOf det) script).2.1 := by
    rw [measureH_out, ← e0, ← e1, isclose0_cast, isclose0_cast]
    cases det
    · simp [detOf, outcomeOf]
    · simp [detOf, outcomeOf]
  rw [hout]
  generalize hO : (measureH R P0 P1 (detOf det) script).2.1 = o at hout ⊢
  -- the divisor
  have hnorm : (((if 0 < q0 + q1 then (if o = true then q1 else q0) / (q0 + q1) else 1 : Rat)) : ℝ)
      = measNormH R P0 P1 (detOf det) script := by
    unfold measNormH
    simp only
    rw [← measureH_out, hO, ← e0, ← e1]
    by_cases ht : 0 < q0 + q1
    · have ht' : (0 : ℝ) < (q0 : ℝ) + (q1 : ℝ) := by exact_mod_cast ht
      rw [if_pos ht, if_pos ht']
      cases o <;> simp
    · have ht' : ¬ (0 : ℝ) < (q0 : ℝ) + (q1 : ℝ) := by
        intro h; apply ht; exact_mod_cast h
      rw [if_neg ht, if_neg ht']
      simp
  generalize (if 0 < q0 + q1 then (if o = true then q1 else q0) / (q0 + q1) else 1 : Rat) = nm at hnorm ⊢
  have hne : nm ≠ 0 := by
    intro h
    rw [h] at hnorm
    rw [← hnorm] at hpos
    simp at hpos
  rw [if_neg hne]
  refine ⟨_, rfl, ?_⟩
  have hm : Rep n (if o = true then p1 else p0) (if o = true then P1 else P0) := by
    cases o
    · exact h0
    · exact h1
  refine (Rep.smul (1 / nm) (Rep.conjBy hm hρ)).norm.congr ?_
  rw [measureH_fst, hO, ← hnorm]
  congr 1
  push_cast
  simp

/-- a weighted Kraus sum as `DensityMatrix.apply_channel` accumulates it: `hermitianize(Σ_k w_k · K_k ρ K_k†)` from 0 in
    list order (`√w_k · K_k` are the Kraus operators; the executable model keeps the weight symbolic) -/
noncomputable def applyChannelW {n : Nat} (ρ : DMat n) (ks : List (ℝ × DMat n)) : DMat n :=
  match ks with
  | [] => ρ
  | _ :: _ => herm (ks.foldl (fun acc K => acc + (K.1 : ℂ) • (K.2 * ρ * K.2ᴴ)) 0)

theorem rep_channel_fold {n : Nat} {ρ : Mat} {R : DMat n} (hρ : Rep n ρ R) :
    ∀ (ks : List DM.SMat) (Ks : List (ℝ × DMat n)), List.Forall₂ (fun k K => (k.sq : ℝ) = K.1 ∧ Rep n k.m K.2) ks Ks →
      ∀ (acc : Mat) (A : DMat n), Rep n acc A →
        Rep n (ks.foldl (fun acc k => (Mat.add acc (Mat.smul k.sq (Mat.conjBy k.m ρ)).norm).norm) acc)
          (Ks.foldl (fun acc K => acc + (K.1 : ℂ) • (K.2 * R * K.2ᴴ)) A) := by
  intro ks Ks h
  induction h with
  | nil => intro acc A hA; exact hA
  | cons hk _ ih =>
    intro acc A hA
    simp only [List.foldl]
    apply ih
    rw [← hk.1]
    exact (Rep.add hA (Rep.smul _ (Rep.conjBy hk.2 hρ)).norm).norm

/-- **`apply_channel` of the executable model** for any list of weighted Kraus operators (reset, depolarizing, …) -/
theorem rep_applyChannel {n : Nat} {ρ : Mat} {R : DMat n} (hρ : Rep n ρ R) (ks : List DM.SMat) (Ks : List (ℝ × DMat n))
    (h : List.Forall₂ (fun k K => (k.sq : ℝ) = K.1 ∧ Rep n k.m K.2) ks Ks) :
    ∃ m, DM.applyChannel ρ ks = .ok m ∧ Rep n m (applyChannelW R Ks) := by
  cases h with
  | nil => exact ⟨ρ, rfl, hρ⟩
  | cons hk hrest =>
    rename_i k K ks' Ks'
    unfold DM.applyChannel
    simp only
    rw [if_neg (not_not.mpr (hρ.1.trans hk.2.1.symm))]
    refine ⟨_, rfl, ?_⟩
    have hz : Rep n (Mat.zero ρ.n) (0 : DMat n) := by rw [hρ.1]; exact Rep.zero n
    exact (Rep.hermitianize (rep_channel_fold hρ (k :: ks') (K :: Ks') (List.Forall₂.cons hk hrest) _ _ hz)).norm

end DMX
end Graphiq
