/-
  Proofs/HilbertDimReset.lean — `reset_z`, `reset_x`, `reset_y` of clifford.py on density matrices, for every size:
  the reset qubit ends in `|i⟩⟨i|` (resp. `(1 ± X)/2`, `(1 ± Y)/2`) as a tensor factor, and the other qubits are left in the
  reduced state of the post-measurement state:

      ρ(reset_z(t, q, i)) = Tr_q( Π ρ(t) Π / tr(Π ρ(t)) ) ⊗_q |i⟩⟨i| .

  * `oneQ_eq_insSite` : a one-qubit gate matrix is `1 ⊗_q u`;
  * `rho_resetZ`, `rho_resetX`, `rho_resetY`.
-/
import GraphiqModel.Proofs.HilbertDimHistory
namespace Graphiq
namespace Hilbert
open Matrix PRow TabSpec Tab

/-- `get_one_qubit_gate(n, q, u)` is `1 ⊗_q u` -/
theorem oneQ_eq_insSite (m q : Nat) (hq : q ≤ m) (u : Matrix Bool Bool ℂ) : oneQ (m + 1) q u = insSite q 1 u := by
  ext a b
  rw [oneQ_apply, insSite_apply, Matrix.one_apply]
  have key : (∀ j : Fin (m + 1), j.val ≠ q → a j = b j) ↔ delB q a = delB q b := by
    constructor
    · intro h
      by_cases hab : bx a q = bx b q
      · rw [((bits_eq_iff_site q a b).mpr ⟨h, hab⟩)]
      · -- the strings differ only at `q`
        apply bits_ext
        intro j hj
        rw [bx_delB q a j hj, bx_delB q b j hj]
        by_cases hjq : j < q
        · rw [if_pos hjq, if_pos hjq, bx_lt _ _ (by omega), bx_lt _ _ (by omega)]
          exact h ⟨j, by omega⟩ (by show j ≠ q; omega)
        · rw [if_neg hjq, if_neg hjq, bx_lt _ _ (by omega), bx_lt _ _ (by omega)]
          exact h ⟨j + 1, by omega⟩ (by show j + 1 ≠ q; omega)
    · intro h j hj
      have hjlt := j.isLt
      by_cases hjq : j.val < q
      · have : bx (delB q a) j.val = bx (delB q b) j.val := by rw [h]
        rw [bx_delB q a j.val (by omega), bx_delB q b j.val (by omega), if_pos hjq, if_pos hjq,
          bx_lt _ _ hjlt, bx_lt _ _ hjlt] at this
        exact this
      · have hj1 : j.val - 1 < m := by omega
        have : bx (delB q a) (j.val - 1) = bx (delB q b) (j.val - 1) := by rw [h]
        rw [bx_delB q a _ hj1, bx_delB q b _ hj1, if_neg (by omega), if_neg (by omega)] at this
        have e : j.val - 1 + 1 = j.val := by omega
        rw [e, bx_lt _ _ hjlt, bx_lt _ _ hjlt] at this
        exact this
  by_cases h : delB q a = delB q b
  · rw [if_pos (key.mpr h), if_pos h, _root_.one_mul]
  · rw [if_neg (fun h2 => h (key.mp h2)), if_neg h, zero_mul]

/-- conjugating `A ⊗_q w` by a one-qubit operator `1 ⊗_q u` -/
theorem insSite_conj (m q : Nat) (hq : q ≤ m) (A : Matrix (Bits m) (Bits m) ℂ) (u w : Matrix Bool Bool ℂ) :
    insSite q 1 u * insSite q A w * (insSite q 1 u)ᴴ = insSite q A (u * w * uᴴ) := by
  rw [insSite_conjTranspose, insSite_mul q hq, insSite_mul q hq, Matrix.conjTranspose_one, Matrix.one_mul, Matrix.mul_one]

/-! ### 2×2 facts -/

set_option linter.unusedSimpArgs false in
theorem sigmaX_conj_ketbra (s : Bool) : sigmaX * ketbra s * sigmaXᴴ = ketbra (!s) := by
  ext a b
  cases s <;> cases a <;> cases b <;>
    simp [sigmaX, ketbra, Matrix.mul_apply, Fintype.sum_bool, Matrix.conjTranspose_apply]

set_option linter.unusedSimpArgs false in
theorem had_conj_ketbra (i : Bool) :
    (invSqrt2 • hadM) * ketbra i * (invSqrt2 • hadM)ᴴ = bloch true false i := by
  rw [Matrix.conjTranspose_smul, star_invSqrt2, hadM_conjTranspose, smul_mul_assoc, mul_smul_comm, smul_mul_assoc,
    smul_smul, invSqrt2_mul_self]
  unfold bloch
  rw [sigma_tf]
  ext a b
  cases i <;> cases a <;> cases b <;>
    simp [hadM, sigmaX, ketbra, Matrix.mul_apply, Fintype.sum_bool, Matrix.smul_apply, Matrix.add_apply,
      Matrix.one_apply] <;> decide

set_option linter.unusedSimpArgs false in
theorem phase_conj_bloch (i : Bool) : phaseM * bloch true false i * phaseMᴴ = bloch true true i := by
  unfold bloch
  rw [sigma_tf, sigma_tt]
  ext a b
  cases i <;> cases a <;> cases b <;>
    simp [phaseM, sigmaX, sigmaY, Matrix.mul_apply, Fintype.sum_bool, Matrix.smul_apply, Matrix.add_apply,
      Matrix.one_apply, Matrix.conjTranspose_apply] <;>
    first | ring1 | linear_combination (-(2⁻¹ : ℂ)) * Complex.I_sq

/-! ### resets -/

/-- **`reset_z` on density matrices**: the other qubits are left in the reduced state of the post-measurement state and
    qubit `q` is the tensor factor `|i⟩⟨i|` (`i` the intended state), for every forced / drawn outcome `o` -/
theorem rho_resetZ (m : Nat) (t : Tab) (q : Nat) (i o : Bool) (hm : t.n = m + 1) (hq : q < t.n) (hv : t.Valid)
    (hr : t.StabReal) :
    rho (m + 1) (STab.ofTab (t.resetZ q i o))
      = insSite q (ptraceSite q (postMeas (m + 1) q o (rho (m + 1) (STab.ofTab t)))) (ketbra i) := by
  obtain ⟨t', h'⟩ := removeQubit_total t q o hq hv
  obtain ⟨_, hprod⟩ := rho_removeQubit_measured m t t' q o hm hq hv hr h'
  have hred := rho_removeQubit m t t' q o hm hq hv hr h'
  have pm := (meas_density t q o hq hv hr).2.1
  rw [hm] at pm
  rw [pm, ← hred, resetZ_eq t q i o hr]
  by_cases hs : (t.zMeasure q o).2.1 = i
  · rw [if_pos hs, hprod, hs]
  · rw [if_neg hs]
    have hn1 : (t.zMeasure q o).1.n = m + 1 := (zMeasure_n t q o).trans hm
    have hg := rho_tab_gate (t.zMeasure q o).1 (.X q) (by show q < _; rw [zMeasure_n]; exact hq)
    rw [hn1] at hg
    have hX : gateMat (m + 1) (.X q) = insSite q 1 sigmaX := oneQ_eq_insSite m q (by omega) sigmaX
    show rho (m + 1) (STab.ofTab ((t.zMeasure q o).1.map (Gate.X q).act)) = _
    rw [← hg, hprod, hX, insSite_conj m q (by omega), sigmaX_conj_ketbra]
    congr 2
    revert hs; cases (t.zMeasure q o).2.1 <;> cases i <;> simp

/-- **`reset_x`**: qubit `q` ends in `(1 + (-1)^i X)/2` -/
theorem rho_resetX (m : Nat) (t : Tab) (q : Nat) (i o : Bool) (hm : t.n = m + 1) (hq : q < t.n) (hv : t.Valid)
    (hr : t.StabReal) :
    rho (m + 1) (STab.ofTab (t.resetX q i o))
      = insSite q (ptraceSite q (postMeas (m + 1) q o (rho (m + 1) (STab.ofTab t)))) (bloch true false i) := by
  have hn1 : (t.resetZ q i o).n = m + 1 := (resetZ_n t q i o).trans hm
  have hg := rho_tab_gate (t.resetZ q i o) (.H q) (by show q < _; rw [resetZ_n]; exact hq)
  rw [hn1] at hg
  have hH : gateMat (m + 1) (.H q) = insSite q 1 (invSqrt2 • hadM) := by
    show invSqrt2 • oneQ (m + 1) q hadM = _
    rw [oneQ_eq_insSite m q (by omega), insSite_smul_right]
  show rho (m + 1) (STab.ofTab ((t.resetZ q i o).map (Gate.H q).act)) = _
  rw [← hg, rho_resetZ m t q i o hm hq hv hr, hH, insSite_conj m q (by omega), had_conj_ketbra]

/-- **`reset_y`**: qubit `q` ends in `(1 + (-1)^i Y)/2` -/
theorem rho_resetY (m : Nat) (t : Tab) (q : Nat) (i o : Bool) (hm : t.n = m + 1) (hq : q < t.n) (hv : t.Valid)
    (hr : t.StabReal) :
    rho (m + 1) (STab.ofTab (t.resetY q i o))
      = insSite q (ptraceSite q (postMeas (m + 1) q o (rho (m + 1) (STab.ofTab t)))) (bloch true true i) := by
  have hn1 : (t.resetX q i o).n = m + 1 := (resetZ_n t q i o).trans hm
  have hg := rho_tab_gate (t.resetX q i o) (.P q) (by show q < (t.resetZ q i o).n; rw [resetZ_n]; exact hq)
  rw [hn1] at hg
  have hP : gateMat (m + 1) (.P q) = insSite q 1 phaseM := oneQ_eq_insSite m q (by omega) phaseM
  show rho (m + 1) (STab.ofTab ((t.resetX q i o).map (Gate.P q).act)) = _
  rw [← hg, rho_resetX m t q i o hm hq hv hr, hP, insSite_conj m q (by omega), phase_conj_bloch]

end Hilbert
end Graphiq
