/-
  Proofs/MixtureDMPhysMeas.lean — the density-matrix backend is physical on circuits *with* measurements (no uniformity needed),
  every number of qubits: whenever `DensityMatrixCompiler.compile` returns a matrix (not NaN),

      it is positive semidefinite and its trace is exactly `∏ (1 − loss_j)`.

  Covers one-qubit gates, CNOT / CZ with additive noise (depolarizing probabilities in `[0,1]`, loss rates `≤ 1`, Pauli errors,
  either placement), `MeasurementZ`, `ClassicalCNOT`, `ClassicalCZ`, `MeasurementCNOTandReset`.  The point is
  `measurement_phys`: `apply_measurement` divides the projected state by the *conditional* probability, so it keeps the trace
  (the repair of the defect "a measurement after a photon loss renormalises the state", now for every circuit), and
  `reset_phys`: the reset channel is trace preserving.
-/
import GraphiqModel.Proofs.MixtureDMLockstep
namespace Graphiq
namespace MixDM
open Matrix Hilbert Noise DM PRow
open scoped ComplexOrder

/-! ### the state invariant -/

/-- a physical density matrix of trace `τ` -/
structure DGood (n : Nat) (ρ : Mat) (τ : ℚ) : Prop where
  size : ρ.n = 2 ^ n
  psd : (toC n ρ).PosSemidef
  tr : (toC n ρ).trace = ((τ : ℚ) : ℂ)

theorem DGood.herm {n : Nat} {ρ : Mat} {τ : ℚ} (h : DGood n ρ τ) : (toC n ρ)ᴴ = toC n ρ := h.psd.isHermitian

/-! ### measurement -/

theorem projZ_sum (n q : Nat) (hq : q < n) : projZ n q false + projZ n q true = 1 := by
  unfold projZ
  rw [proj_Zq n q hq, proj_Zq n q hq, Matrix.diagonal_add, ← Matrix.diagonal_one]
  congr 1
  funext b
  cases bx b q <;> simp

/-- `probs[k]` of `apply_measurement`: the real part of `tr(ρ m)`, clipped at 0 -/
def prOf (ρ m : Mat) : Rat := let x := (ρ.mul m).trace.re; if x < 0 then 0 else x

theorem applyMeasurement_eq (ρ p0 p1 : Mat) (det : Bool) (hn : ρ.n = p0.n) :
    applyMeasurement ρ p0 p1 det =
      (let outcome : Bool := if det then !isclose0 (prOf ρ p1) else isclose0 (prOf ρ p0)
       let norm : Rat := if 0 < prOf ρ p0 + prOf ρ p1 then (if outcome then prOf ρ p1 else prOf ρ p0) / (prOf ρ p0 + prOf ρ p1) else 1
       if norm = 0 then .ok (none, outcome)
       else .ok (some (Mat.smul (1 / norm) (Mat.conjBy (if outcome then p1 else p0) ρ)).norm, outcome)) := by
  unfold applyMeasurement prOf
  rw [if_neg (fun h => h hn)]

/-- what a returned (non-NaN) measurement result looks like -/
theorem applyMeasurement_some (ρ p0 p1 : Mat) (det : Bool) (ρ' : Mat) (o : Bool)
    (h : applyMeasurement ρ p0 p1 det = .ok (some ρ', o)) :
    ρ.n = p0.n ∧ ∃ norm : Rat, norm ≠ 0 ∧
      norm = (if 0 < prOf ρ p0 + prOf ρ p1 then (if o then prOf ρ p1 else prOf ρ p0) / (prOf ρ p0 + prOf ρ p1) else 1) ∧
      ρ' = (Mat.smul (1 / norm) (Mat.conjBy (if o then p1 else p0) ρ)).norm := by
  by_cases hn : ρ.n = p0.n
  · rw [applyMeasurement_eq ρ p0 p1 det hn] at h
    simp only at h
    generalize (if det = true then !isclose0 (prOf ρ p1) else isclose0 (prOf ρ p0)) = oc at h
    by_cases hz : (if 0 < prOf ρ p0 + prOf ρ p1 then (if oc = true then prOf ρ p1 else prOf ρ p0) / (prOf ρ p0 + prOf ρ p1) else 1) = 0
    · rw [if_pos hz] at h; injection h with h; injection h with h1 h2; cases h1
    · rw [if_neg hz] at h
      injection h with h
      injection h with h1 h2
      injection h1 with h1
      subst h2
      exact ⟨hn, _, hz, rfl, h1.symm⟩
  · unfold applyMeasurement at h
    rw [if_pos hn] at h
    cases h

/-- on a positive semidefinite state the outcome "probability" `tr(ρ Π_s)` is a non-negative rational -/
theorem prob_rat (n q : Nat) (ρ p : Mat) (s : Bool) (hρn : ρ.n = 2 ^ n) (hpsd : (toC n ρ).PosSemidef)
    (hp : toC n p = projZ n q s) :
    0 ≤ (ρ.mul p).trace.re ∧ (toC n ρ * projZ n q s).trace = (((ρ.mul p).trace.re : ℚ) : ℂ) := by
  have h0 : 0 ≤ (toC n ρ * projZ n q s).trace := by
    rw [trace_mul_projZ]
    have := psd_conjH (projZ n q s) (toC n ρ) hpsd
    unfold conjH at this
    rw [projZ_herm] at this
    exact this.trace_nonneg
  have e : gqC (ρ.mul p).trace = (toC n ρ * projZ n q s).trace := by rw [gqC_mulTrace n ρ p hρn, hp]
  rw [← e] at h0 ⊢
  obtain ⟨hre, him⟩ := Complex.nonneg_iff.1 h0
  simp only [gqC_re, gqC_im] at hre him
  refine ⟨by exact_mod_cast hre, ?_⟩
  apply Complex.ext
  · simp
  · simp only [gqC_im]
    rw [← him]; simp

/-- **`apply_measurement` keeps the state physical and keeps its trace** (whatever the outcome) -/
theorem measurement_phys (n q : Nat) (hq : q < n) (ρ p0 p1 : Mat) (hp : projectorsZ n q = .ok (p0, p1)) (τ : ℚ)
    (hg : DGood n ρ τ) (det : Bool) (ρ' : Mat) (o : Bool) (h : applyMeasurement ρ p0 p1 det = .ok (some ρ', o)) :
    DGood n ρ' τ := by
  obtain ⟨e0, e1, n0, n1⟩ := toC_projectorsZ n q hq p0 p1 hp
  obtain ⟨x0n, t0⟩ := prob_rat n q ρ p0 false hg.size hg.psd e0
  obtain ⟨x1n, t1⟩ := prob_rat n q ρ p1 true hg.size hg.psd e1
  have pr0 : prOf ρ p0 = (ρ.mul p0).trace.re := by unfold prOf; simp only; rw [if_neg (not_lt.2 x0n)]
  have pr1 : prOf ρ p1 = (ρ.mul p1).trace.re := by unfold prOf; simp only; rw [if_neg (not_lt.2 x1n)]
  obtain ⟨_, norm, hz, hnorm, hρ'⟩ := applyMeasurement_some ρ p0 p1 det ρ' o h
  rw [pr0, pr1] at hnorm
  generalize (ρ.mul p0).trace.re = x0 at *
  generalize (ρ.mul p1).trace.re = x1 at *
  -- the trace is the sum of the two probabilities
  have hτ : τ = x0 + x1 := by
    have : (toC n ρ).trace = (toC n ρ * projZ n q false).trace + (toC n ρ * projZ n q true).trace := by
      rw [← Matrix.trace_add, ← Matrix.mul_add, projZ_sum n q hq, Matrix.mul_one]
    rw [hg.tr, t0, t1] at this
    exact_mod_cast this
  have hpn : (if o = true then p1 else p0).n = 2 ^ n := by cases o <;> simp [n0, n1]
  have hpc : toC n (if o = true then p1 else p0) = projZ n q o := by cases o <;> simp [e0, e1]
  have hsz : (Mat.smul (1 / norm) (Mat.conjBy (if o = true then p1 else p0) ρ)).n = 2 ^ n := hpn
  have hto : (toC n ρ * projZ n q o).trace = (((if o then x1 else x0 : ℚ)) : ℂ) := by cases o <;> simp [t0, t1]
  have hxo : 0 ≤ (if o then x1 else x0 : ℚ) := by cases o <;> simp [x0n, x1n]
  have hnn : 0 ≤ norm := by
    rw [hnorm]
    split
    · rename_i hpos
      exact div_nonneg hxo (le_of_lt hpos)
    · norm_num
  have hc : toC n ρ' = (((1 / norm : ℚ)) : ℂ) • conjH (projZ n q o) (toC n ρ) := by
    rw [hρ', toC_norm n _ hsz, toC_smul, toC_conjBy n _ _ hpn, hpc]
  refine ⟨by rw [hρ']; exact hpn, ?_, ?_⟩
  · rw [hc]
    exact psd_ratsmul _ (by positivity) _ (psd_conjH _ _ hg.psd)
  · rw [hc, Matrix.trace_smul]
    have htr : (conjH (projZ n q o) (toC n ρ)).trace = (toC n ρ * projZ n q o).trace := by
      unfold conjH
      rw [projZ_herm, ← trace_mul_projZ]
    rw [htr, hto, smul_eq_mul, hτ]
    have key : (1 / norm) * (if o then x1 else x0 : ℚ) = x0 + x1 := by
      by_cases hpos : 0 < x0 + x1
      · rw [if_pos hpos] at hnorm
        have hx : (if o then x1 else x0 : ℚ) ≠ 0 := by
          intro e; rw [e, zero_div] at hnorm; exact hz hnorm
        rw [hnorm]
        field_simp
      · rw [if_neg hpos] at hnorm
        have h0 : x0 = 0 := by linarith
        have h1 : x1 = 0 := by linarith
        rw [hnorm, h0, h1]
        cases o <;> simp
    exact_mod_cast congrArg (fun r : ℚ => (r : ℂ)) key

/-! ### unitaries and the reset channel -/

theorem unitary_phys (n : Nat) (ρ : Mat) (u : Mat) (U : HMat n) (hu : u.n = 2 ^ n) (hU : toC n u = U) (hUU : Uᴴ * U = 1)
    (τ : ℚ) (hg : DGood n ρ τ) (ρ' : Mat) (h : applyUnitary ρ ⟨1, u⟩ = .ok ρ') : DGood n ρ' τ := by
  obtain ⟨e, hn⟩ := applyUnitary_toC n ρ ⟨1, u⟩ hg.size hu hg.herm ρ' h
  simp only [Rat.cast_one, one_smul] at e
  rw [hU] at e
  exact ⟨hn, by rw [e]; exact psd_conjH _ _ hg.psd, by rw [e, trace_conjH _ _ hUU]; exact hg.tr⟩

theorem trace_conjH' {n : Nat} (A R : HMat n) : (conjH A R).trace = (Aᴴ * A * R).trace := by
  unfold conjH
  rw [Matrix.trace_mul_cycle]

/-- **the reset channel keeps the state physical and keeps its trace** -/
theorem reset_phys (n q : Nat) (hq : q < n) (ρ : Mat) (τ : ℚ) (hg : DGood n ρ τ) (ρ' : Mat)
    (h : applyChannel ρ (resetKraus n q) = .ok ρ') : DGood n ρ' τ := by
  obtain ⟨e, hn⟩ := dmReset_toC n q hq ρ ρ' hg.size hg.herm h
  refine ⟨hn, ?_, ?_⟩
  · rw [e]; unfold resetH
    exact (psd_conjH _ _ hg.psd).add (psd_conjH _ _ hg.psd)
  · rw [e]; unfold resetH
    rw [Matrix.trace_add, trace_conjH', trace_conjH', projZ_herm, projZ_idem, Matrix.conjTranspose_mul, projZ_herm]
    have hx : projZ n q true * (gateMat n (.X q))ᴴ * (gateMat n (.X q) * projZ n q true) = projZ n q true := by
      calc projZ n q true * (gateMat n (.X q))ᴴ * (gateMat n (.X q) * projZ n q true)
          = projZ n q true * ((gateMat n (.X q))ᴴ * gateMat n (.X q)) * projZ n q true := by simp only [Matrix.mul_assoc]
        _ = projZ n q true := by rw [(gate_unitary n (.X q) hq).2, Matrix.mul_one, projZ_idem]
    rw [hx, ← Matrix.trace_add, ← Matrix.add_mul, projZ_sum n q hq, Matrix.one_mul]
    exact hg.tr

/-! ### gates with a measurement -/

/-- the operations with a measurement: `MeasurementZ`, `ClassicalCNOT`, `ClassicalCZ`, `MeasurementCNOTandReset` -/
def MeasAny (k : Kind) : Prop := k = .measZ ∨ k = .ccnot ∨ k = .ccz ∨ k = .mcr

theorem dmMeasGate_phys (np n : Nat) (det : Bool) (op : COp) (hk : MeasAny op.kind) (hw : OpWF n np op) (d d1 : DmSt) (τ : ℚ)
    (hg : ∀ ρ, d.ρ = some ρ → DGood n ρ τ) (h : dmGate np n det op d = .ok d1) : ∀ ρ1, d1.ρ = some ρ1 → DGood n ρ1 τ := by
  have hq1 := hw.1
  intro ρ1 hρ1
  unfold dmGate at h
  cases hd : d.ρ with
  | none =>
    simp only [hd] at h
    injection h with h; subst h
    rw [hd] at hρ1; cases hρ1
  | some ρ =>
    have hgρ := hg ρ hd
    simp only [hd] at h
    -- the common part: measurement, conditional Pauli on the target, optional reset
    have classical : ∀ (g : Mat) (U : HMat n) (reset : Bool), g.n = 2 → (qIndex np op.r2 op.t2 < n) →
        toC n (getOneQubitGate n (qIndex np op.r2 op.t2) g) = U → Uᴴ * U = 1 →
        (match projectorsZ n (qIndex np op.r1 op.t1) with
          | .error e => (Except.error e : Except Err DmSt)
          | .ok (p0, p1) =>
            match applyMeasurement ρ p0 p1 det with
            | .error e => .error e
            | .ok (none, o) => .ok { ρ := none, creg := setRec d.creg op.c (if o then 1 else 0) }
            | .ok (some ρ1, o) =>
              match (if o then applyUnitary ρ1 ⟨1, getOneQubitGate n (qIndex np op.r2 op.t2) g⟩ else .ok ρ1 : Except Err Mat) with
              | .error e => .error e
              | .ok ρ2 =>
                (if reset then applyChannel ρ2 (resetKraus n (qIndex np op.r1 op.t1)) else .ok ρ2 : Except Err Mat).map
                  fun r => { ρ := some r, creg := setRec d.creg op.c (if o then 1 else 0) }) = .ok d1 →
        DGood n ρ1 τ := by
      intro g U reset hgn hq2 hU hUU hm
      cases hp : projectorsZ n (qIndex np op.r1 op.t1) with
      | error e => rw [hp] at hm; cases hm
      | ok pp =>
        obtain ⟨p0, p1⟩ := pp
        rw [hp] at hm
        simp only at hm
        cases ha : applyMeasurement ρ p0 p1 det with
        | error e => rw [ha] at hm; cases hm
        | ok ro =>
          obtain ⟨r, o⟩ := ro
          cases r with
          | none =>
            rw [ha] at hm
            simp only at hm
            injection hm with hm; subst hm
            cases hρ1
          | some ρm =>
            rw [ha] at hm
            simp only at hm
            have g1 := measurement_phys n _ hq1 ρ p0 p1 hp τ hgρ det ρm o ha
            cases h2 : (if o then applyUnitary ρm ⟨1, getOneQubitGate n (qIndex np op.r2 op.t2) g⟩ else .ok ρm : Except Err Mat) with
            | error e => rw [h2] at hm; cases hm
            | ok ρ2 =>
              rw [h2] at hm
              simp only at hm
              have g2 : DGood n ρ2 τ := by
                cases o with
                | false => simp only [Bool.false_eq_true, if_false] at h2; injection h2 with h2; subst h2; exact g1
                | true =>
                  simp only [if_true] at h2
                  exact unitary_phys n ρm _ U (oneQubitGate_n n _ hq2 g hgn) hU hUU τ g1 ρ2 h2
              cases reset with
              | false =>
                simp only [Bool.false_eq_true, if_false, Except.map] at hm
                injection hm with hm; subst hm
                injection hρ1 with hρ1; subst hρ1
                exact g2
              | true =>
                simp only [if_true] at hm
                cases h3 : applyChannel ρ2 (resetKraus n (qIndex np op.r1 op.t1)) with
                | error e => rw [h3] at hm; cases hm
                | ok r =>
                  rw [h3] at hm
                  simp only [Except.map] at hm
                  injection hm with hm; subst hm
                  injection hρ1 with hρ1; subst hρ1
                  exact reset_phys n _ hq1 ρ2 τ g2 r h3
    have hX : ∀ q2, q2 < n → toC n (getOneQubitGate n q2 Mat.sigmax) = gateMat n (.X q2) := by
      intro q2 hq2; rw [toC_oneQubitGate n q2 hq2, toC2_sigmax]; rfl
    have hZ : ∀ q2, q2 < n → toC n (getOneQubitGate n q2 Mat.sigmaz) = gateMat n (.Z q2) := by
      intro q2 hq2; rw [toC_oneQubitGate n q2 hq2, toC2_sigmaz]; rfl
    rcases hk with hk | hk | hk | hk <;> simp only [hk] at h
    · -- MeasurementZ
      cases hp : projectorsZ n (qIndex np op.r1 op.t1) with
      | error e => rw [hp] at h; cases h
      | ok pp =>
        obtain ⟨p0, p1⟩ := pp
        rw [hp] at h
        simp only at h
        cases ha : applyMeasurement ρ p0 p1 det with
        | error e => rw [ha] at h; cases h
        | ok ro =>
          obtain ⟨r, o⟩ := ro
          rw [ha] at h
          simp only [Except.map] at h
          injection h with h; subst h
          simp only at hρ1
          subst hρ1
          exact measurement_phys n _ hq1 ρ p0 p1 hp τ hgρ det ρ1 o ha
    · have hq2 := hw.2.1 (Or.inr (by simp [hk, Kind.isClassicalCtrl]))
      exact classical Mat.sigmax _ false rfl hq2 (hX _ hq2) (gate_unitary n (.X _) hq2).2 h
    · have hq2 := hw.2.1 (Or.inr (by simp [hk, Kind.isClassicalCtrl]))
      exact classical Mat.sigmaz _ false rfl hq2 (hZ _ hq2) (gate_unitary n (.Z _) hq2).2 h
    · have hq2 := hw.2.1 (Or.inr (by simp [hk, Kind.isClassicalCtrl]))
      exact classical Mat.sigmax _ true rfl hq2 (hX _ hq2) (gate_unitary n (.X _) hq2).2 h

/-! ### the compile loop -/

/-- the operations covered: measurement-free ones with physical noise parameters, and noiseless operations with a measurement -/
inductive OpOK3 (n np : Nat) (op : COp) : Prop
  | unitary (h : OpOK n np op) (l0 : ParamPhys op.n0) (l1 : ParamPhys op.n1)
  | meas (hk : MeasAny op.kind) (hw : OpWF n np op) (h0 : op.n0.isNone = true) (h1 : op.n1.isNone = true)

theorem OpOK3.wf {n np : Nat} {op : COp} (h : OpOK3 n np op) : OpWF n np op := by
  cases h with
  | unitary h => exact h.wf
  | meas _ hw _ _ => exact hw

theorem OpOK3.kind {n np : Nat} {op : COp} (h : OpOK3 n np op) : MFree op ∨ MeasAny op.kind := by
  cases h with
  | unitary h => exact Or.inl h.mfree
  | meas hk _ _ _ => exact Or.inr hk

def ActOK3 (n np : Nat) (arr : Array COp) : Act → Prop
  | .gate k => ∀ op, arr[k]? = some op → OpWF n np op ∧ (MFree op ∨ MeasAny op.kind)
  | .noise _ _ q nm => q < n ∧ ParamPhys nm
  | .replace _ => True

theorem dmAct_none (np n : Nat) (det : Bool) (arr : Array COp) (d d1 : DmSt) (a : Act) (hd : d.ρ = none)
    (h : dmAct np n det arr d a = .ok d1) : d1.ρ = none := by
  cases a with
  | gate k => simp only [dmAct, dmGate, hd] at h; injection h with h; subst h; exact hd
  | noise k side q nm => simp only [dmAct, hd] at h; injection h with h; subst h; exact hd
  | replace k => simp [dmAct] at h

theorem dmAct_phys (np n : Nat) (det : Bool) (arr : Array COp) (d d1 : DmSt) (a : Act) (ha : ActOK3 n np arr a) (τ : ℚ)
    (hg : ∀ ρ, d.ρ = some ρ → DGood n ρ τ) (h : dmAct np n det arr d a = .ok d1) :
    ∀ ρ1, d1.ρ = some ρ1 → DGood n ρ1 (lossOf a * τ) := by
  intro ρ1 hρ1
  cases hd : d.ρ with
  | none => rw [dmAct_none np n det arr d d1 a hd h] at hρ1; cases hρ1
  | some ρ =>
    have hgρ := hg ρ hd
    cases a with
    | gate k =>
      have e1 : lossOf (.gate k) * τ = τ := by simp [lossOf]
      rw [e1]
      simp only [dmAct] at h
      cases hk : arr[k]? with
      | none =>
        rw [getD_none arr k hk] at h
        simp only [dmGate, hd] at h
        injection h with h; subst h
        rw [hd] at hρ1; injection hρ1 with hρ1; subst hρ1; exact hgρ
      | some op =>
        rw [getD_some arr k op hk] at h
        obtain ⟨hw, hkind⟩ := ha op hk
        rcases hkind with hf | hm
        · obtain ⟨ρ', hρ', e2, n2⟩ := dmGate_toC np n det op hf hw d d1 ρ hd hgρ.size hgρ.herm h
          rw [hρ'] at hρ1; injection hρ1 with hρ1; subst hρ1
          exact ⟨n2, by rw [e2]; exact gateH_psd np n op _ hgρ.psd, by rw [e2, gateH_trace np n op hw]; exact hgρ.tr⟩
        · exact dmMeasGate_phys np n det op hm hw d d1 τ hg h ρ1 hρ1
    | noise k side q nm =>
      simp only [dmAct, hd] at h
      cases hn : DMx.applyNoise n nm q ρ with
      | error e => rw [hn] at h; cases h
      | ok r =>
        rw [hn] at h; injection h with h; subst h
        injection hρ1 with hρ1; subst hρ1
        obtain ⟨e2, n2⟩ := dmNoise_toC n q ha.1 nm ρ r hgρ.size hgρ.herm hn
        refine ⟨n2, by rw [e2]; exact noiseH_psd n nm q ha.2 _ hgρ.psd, ?_⟩
        rw [e2, noiseH_trace n nm q ha.1, hgρ.tr]
        have e : lossOf (.noise k side q nm) = lossOf (.noise 0 0 q nm) := by cases nm <;> rfl
        rw [e]; push_cast; rfl
    | replace k => simp [dmAct] at h

theorem runDmActs_phys (np n : Nat) (det : Bool) (arr : Array COp) : ∀ (acts : List Act) (d d' : DmSt) (τ : ℚ),
    (∀ a ∈ acts, ActOK3 n np arr a) → (∀ ρ, d.ρ = some ρ → DGood n ρ τ) → runDmActs np n det arr acts d = .ok d' →
    ∀ ρ', d'.ρ = some ρ' → DGood n ρ' (lossFactor acts * τ)
  | [], d, d', τ, _, hg, h => by
    simp [runDmActs] at h; subst h
    intro ρ' hρ'; simp only [lossFactor, _root_.one_mul]; exact hg ρ' hρ'
  | a :: as, d, d', τ, hw, hg, h => by
    simp only [runDmActs] at h
    cases ha : dmAct np n det arr d a with
    | error e => rw [ha] at h; cases h
    | ok d1 =>
      rw [ha] at h
      have g1 := dmAct_phys np n det arr d d1 a (hw a List.mem_cons_self) τ hg ha
      have g2 := runDmActs_phys np n det arr as d1 d' _ (fun b hb => hw b (List.mem_cons_of_mem _ hb)) g1 h
      intro ρ' hρ'
      have := g2 ρ' hρ'
      simp only [lossFactor]
      rw [show lossOf a * lossFactor as * τ = lossFactor as * (lossOf a * τ) by ring]
      exact this

theorem dmGo_phys (ns : Bool) (np n : Nat) (det : Bool) (arr : Array COp)
    (harr : ∀ (j : Nat) (op : COp), arr[j]? = some op → OpOK3 n np op) :
    ∀ (ops : List COp) (k : Nat) (d d' : DmSt) (τ : ℚ), (∀ op ∈ ops, OpOK3 n np op) →
      (∀ ρ, d.ρ = some ρ → DGood n ρ τ) → dmGo ns np n det arr ops k d = .ok d' →
      ∃ tr, traceGo ns .dm np ops k = .ok tr ∧ ∀ ρ', d'.ρ = some ρ' → DGood n ρ' (lossFactor tr * τ)
  | [], k, d, d', τ, _, hg, h => by
    simp [dmGo] at h; subst h
    exact ⟨[], rfl, fun ρ' hρ' => by simp only [lossFactor, _root_.one_mul]; exact hg ρ' hρ'⟩
  | op :: rest, k, d, d', τ, hw, hg, h => by
    simp only [dmGo] at h
    cases hp : placeOp ns .dm np op k with
    | error e => rw [hp] at h; cases h
    | ok acts =>
      rw [hp] at h; simp only at h
      cases hr : runDmActs np n det arr acts d with
      | error e => rw [hr] at h; cases h
      | ok d1 =>
        rw [hr] at h; simp only at h
        have ho := hw op List.mem_cons_self
        have hacts : ∀ a ∈ acts, ActOK3 n np arr a := by
          have gate_ok : ActOK3 n np arr (.gate k) := fun op' hop' => ⟨(harr k op' hop').wf, (harr k op' hop').kind⟩
          cases ho with
          | unitary h' l0 l1 =>
            intro a ha
            rcases placeOp_goodP ParamPhys trivial n np ns .dm op k h'.wf l0 l1 acts hp a ha with e | e | ⟨sd, q, nm, e, hq, hP⟩
            · subst e; exact gate_ok
            · subst e; trivial
            · subst e; exact ⟨hq, hP⟩
          | meas hk hw' h0 h1 =>
            rw [placeOp_none ns .dm np op k h0 h1] at hp
            injection hp with hp; subst hp
            intro a ha
            simp only [List.mem_singleton] at ha
            subst ha; exact gate_ok
        have g1 := runDmActs_phys np n det arr acts d d1 τ hacts hg hr
        obtain ⟨tr, htr, g2⟩ := dmGo_phys ns np n det arr harr rest (k + 1) d1 d' _
          (fun o ho' => hw o (List.mem_cons_of_mem _ ho')) g1 h
        refine ⟨acts ++ tr, by simp only [traceGo, hp, htr], ?_⟩
        intro ρ' hρ'
        have := g2 ρ' hρ'
        rw [lossFactor_append, show lossFactor acts * lossFactor tr * τ = lossFactor tr * (lossFactor acts * τ) by ring]
        exact this

/-- **the density-matrix result is physical on circuits with measurements**: whenever `DensityMatrixCompiler.compile` returns
    a matrix, it is positive semidefinite, Hermitian, of size `2^n`, and its trace is exactly `∏ (1 − loss_j)` over the loss
    events of the placement trace.  Every number of qubits; no condition on the measurement outcomes. -/
theorem compileDM_phys (ns : Bool) (ne np nc : Nat) (det : Bool) (ops : List COp)
    (hw : ∀ op ∈ ops, OpOK3 (ne + np) np op) (d : DmSt) (h : compileDM ns ne np nc det ops = .ok d) :
    ∃ tr, compileTrace ns .dm np ops = .ok tr ∧ ∀ ρ, d.ρ = some ρ → DGood (ne + np) ρ (lossFactor tr) := by
  unfold compileDM at h
  have e0 := toC_rho0 (ne + np)
  obtain ⟨tr, htr, g⟩ := dmGo_phys ns np (ne + np) det ops.toArray (by
      intro j op hop
      apply hw
      have : op ∈ ops.toArray := Array.mem_of_getElem? hop
      simpa using this) ops 0 _ d 1 hw (by
      intro ρ hρ
      injection hρ with hρ; subst hρ
      exact ⟨rfl, by rw [e0]; exact rho0_psd _, by rw [e0, rho0_trace]; simp⟩) h
  exact ⟨tr, htr, fun ρ hρ => by have := g ρ hρ; rwa [_root_.mul_one] at this⟩

theorem DGood.trace_exact {n : Nat} {ρ : Mat} {τ : ℚ} (h : DGood n ρ τ) : ρ.trace = ⟨τ, 0⟩ := by
  apply gqC_injective
  rw [gqC_trace n ρ h.size, h.tr, gqC_ofRat]

end MixDM
end Graphiq
