/-
  Proofs/AltTargetReturnsConv.lean — the LC-conversion step of `AlternateTargetSolver.solve` (model `Alt.convModel`) returns
  whenever `lc_check(lc, iso, validate=True)` says yes: every gate name `lc_check` emits is in the table `str_to_op` reads.
-/
import GraphiqModel.Proofs.AltTargetConvDefs
import GraphiqModel.Proofs.LCGates2
namespace Graphiq
namespace Alt
open LC

/-- names that `str_to_op` accepts and `lc_check` emits -/
def TableName (name : String) : Prop := name = "I" ∨ name = "H" ∨ name = "P" ∨ name = "P_dag" ∨ name = "Z"

theorem gateCOp_isSome (g : String × Nat) (h : TableName g.1) : ∃ c, gateCOp g = some c := by
  obtain ⟨name, q⟩ := g
  simp only [TableName] at h
  rcases h with h | h | h | h | h <;> subst h <;> exact ⟨_, rfl⟩

/-- `str_to_op` returns on every list with names from the table -/
theorem gatesCOps_isSome (gates : List (String × Nat)) (h : ∀ g ∈ gates, TableName g.1) : ∃ cs, gatesCOps gates = some cs := by
  unfold gatesCOps
  induction gates with
  | nil => exact ⟨[], rfl⟩
  | cons g rest ih =>
    obtain ⟨c, hc⟩ := gateCOp_isSome g (h g (List.mem_cons_self))
    obtain ⟨cs, hcs⟩ := ih (fun x hx => h x (List.mem_cons_of_mem _ hx))
    exact ⟨c :: cs, by simp [List.mapM_cons, hc, hcs]⟩

/-- the six block words of `local_clifford_ops` are words over I/H/P/P_dag -/
theorem blockOps_names (a b c d : Bool) (ops : List String) (h : LC.blockOps a b c d = some ops) :
    ∀ o ∈ ops, o = "I" ∨ o = "H" ∨ o = "P" ∨ o = "P_dag" := by
  cases a <;> cases b <;> cases c <;> cases d <;> simp [LC.blockOps] at h <;> subst h <;> simp

theorem localCliffordOps_names (n : Nat) (v : List Bool) (ops : List String) (h : ops ∈ LC.localCliffordOps n v) :
    ∀ o ∈ ops, o = "I" ∨ o = "H" ∨ o = "P" ∨ o = "P_dag" := by
  unfold LC.localCliffordOps at h
  obtain ⟨i, -, hi⟩ := List.mem_filterMap.1 h
  exact blockOps_names _ _ _ _ ops hi

/-- the block part of the gate list -/
theorem blockGates_names (names : List (List String)) (hn : ∀ ops ∈ names, ∀ o ∈ ops, o = "I" ∨ o = "H" ∨ o = "P" ∨ o = "P_dag")
    (g : String × Nat) (hg : g ∈ (names.zipIdx).flatMap fun (ops, i) => ops.reverse.map fun o => (o, i)) : TableName g.1 := by
  obtain ⟨⟨ops, i⟩, hmem, hg⟩ := List.mem_flatMap.1 hg
  obtain ⟨o, ho, rfl⟩ := List.mem_map.1 hg
  have hops : ops ∈ names := by
    have := List.mem_zipIdx hmem
    simp at this
    exact this.2 ▸ List.getElem_mem _
  have := hn ops hops o (List.mem_reverse.1 ho)
  unfold TableName
  rcases this with h | h | h | h <;> simp [h]

/-- the phase correction is a list of `Z`s -/
theorem phaseCorrection_names (t : Tab) (B : Adj) (zs : List (String × Nat)) (h : LC.phaseCorrection t B = some zs) :
    ∀ g ∈ zs, g.1 = "Z" := by
  unfold LC.phaseCorrection at h
  simp only at h
  split at h
  · injection h with h
    subst h
    intro g hg
    obtain ⟨q, -, hq⟩ := List.mem_filterMap.1 hg
    split at hq
    · injection hq with hq
      rw [← hq]
    · exact absurd hq (by simp)
  · exact absurd h (by simp)

theorem converterGateListR_names (a b : BMat) (gates : List (String × Nat)) (flag : Bool)
    (h : LC.converterGateListR a b = .ok (gates, flag)) : ∀ g ∈ gates, TableName g.1 := by
  unfold LC.converterGateListR at h
  split at h
  · exact absurd h (by simp)
  · rename_i out _
    split at h
    · exact absurd h (by simp)
    · rename_i s _
      simp only at h
      have hG := blockGates_names (LC.localCliffordOps a.r s) (localCliffordOps_names a.r s)
      split at h
      · exact absurd h (by simp)
      · split at h
        · rename_i zs hz
          injection h with h
          injection h with h1 h2
          subst h1
          intro g hg
          rcases List.mem_append.1 hg with hg | hg
          · exact hG g hg
          · exact Or.inr (Or.inr (Or.inr (Or.inr (phaseCorrection_names _ _ zs hz g hg))))
        · injection h with h
          injection h with h1 h2
          subst h1
          exact hG

/-- every gate `lc_check` (repaired) returns has a name from the table: the blocks of `local_clifford_ops` are I/H/P/P_dag
    words, the phase correction is Z's -/
theorem lcCheckR_names (a b : BMat) (validate : Bool) (gates : List (String × Nat))
    (h : LC.lcCheckR a b validate = .ok (true, gates)) : ∀ g ∈ gates, TableName g.1 := by
  unfold LC.lcCheckR at h
  split at h
  · simp at h
  · rename_i gs flag hc
    have hn := converterGateListR_names a b gs flag hc
    split at h
    · split at h
      · exact absurd h (by simp)
      · split at h
        · injection h with h
          injection h with _ h2
          subst h2
          exact hn
        · exact absurd h (by simp)
    · injection h with h
      injection h with _ h2
      subst h2
      exact hn

/-- so the conversion step returns whenever `lc_check(…, validate=True)` says yes -/
theorem convModel_isSome (a b : BMat) (gates : List (String × Nat)) (h : LC.lcCheckR a b true = .ok (true, gates)) :
    ∃ cs, convModel a b = some cs := by
  obtain ⟨cs, hcs⟩ := gatesCOps_isSome gates (lcCheckR_names a b true gates h)
  exact ⟨cs, by simp [convModel, h, hcs]⟩

end Alt
end Graphiq
