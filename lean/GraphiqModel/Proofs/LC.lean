/-
  Proofs/LC.lean — lemmas about the GF(2) linear algebra of the LC-equivalence test (row reduction preserves the
  solution space, the solution basis, exhaustiveness of the small search) and about its constructive outputs.
-/
import GraphiqModel.Model.LC
import GraphiqModel.Proofs.GraphOps
import GraphiqModel.Proofs.Tableau
namespace Graphiq.LC
open Graphiq PRow Tab

/-! ### solutions of a homogeneous system -/

def rowDot (m : BMat) (i : Nat) (v : Nat → Bool) : Bool := parityTo m.c fun j => m.f i j && v j

/-- `v` solves `M v = 0` over GF(2) -/
def SolF (m : BMat) (v : Nat → Bool) : Prop := ∀ i, i < m.r → rowDot m i v = false

theorem solves_iff (m : BMat) (v : List Bool) : solves m v = true ↔ SolF m (vget v) := by
  unfold solves SolF
  rw [List.all_eq_true]
  constructor
  · intro h i hi
    have := h i (List.mem_range.mpr hi)
    simpa [dotRow, rowDot] using this
  · intro h i hi
    have := h i (List.mem_range.mp hi)
    simpa [dotRow, rowDot] using this

theorem rowDot_norm (m : BMat) (i : Nat) (v : Nat → Bool) (hi : i < m.r) : rowDot m.norm i v = rowDot m i v := by
  unfold rowDot
  apply parityTo_congr
  intro j hj
  rw [BMat.norm_agree m i j hi hj]

theorem solF_norm (m : BMat) (v : Nat → Bool) : SolF m.norm v ↔ SolF m v := by
  constructor
  · intro h i hi; rw [← rowDot_norm m i v hi]; exact h i hi
  · intro h i hi; rw [rowDot_norm m i v hi]; exact h i hi

theorem rowDot_xor (m : BMat) (f g : Nat → Bool) (v : Nat → Bool) :
    (parityTo m.c fun j => xor (f j) (g j) && v j) = xor (parityTo m.c fun j => f j && v j) (parityTo m.c fun j => g j && v j) := by
  rw [← parityTo_xor]
  apply parityTo_congr
  intro j _
  cases f j <;> cases g j <;> cases v j <;> rfl

/-- solutions are closed under addition -/
theorem solF_xor (m : BMat) (v w : Nat → Bool) (hv : SolF m v) (hw : SolF m w) : SolF m (fun j => xor (v j) (w j)) := by
  intro i hi
  unfold rowDot
  have : (parityTo m.c fun j => m.f i j && xor (v j) (w j)) =
      xor (parityTo m.c fun j => m.f i j && v j) (parityTo m.c fun j => m.f i j && w j) := by
    rw [← parityTo_xor]
    apply parityTo_congr
    intro j _
    cases m.f i j <;> cases v j <;> cases w j <;> rfl
  rw [this]
  have h1 := hv i hi
  have h2 := hw i hi
  unfold rowDot at h1 h2
  rw [h1, h2]; rfl

theorem solF_congr (m : BMat) (v w : Nat → Bool) (h : ∀ j, j < m.c → v j = w j) : SolF m v ↔ SolF m w := by
  have e : ∀ i, rowDot m i v = rowDot m i w := by
    intro i
    unfold rowDot
    apply parityTo_congr
    intro j hj
    rw [h j hj]
  constructor
  · intro hv i hi; rw [← e i]; exact hv i hi
  · intro hw i hi; rw [e i]; exact hw i hi

/-! ### row operations preserve the solution space -/

theorem rowSwap_sol (m : BMat) (a b : Nat) (v : Nat → Bool) (ha : a < m.r) (hb : b < m.r) :
    SolF (rowSwap m a b) v ↔ SolF m v := by
  have hrow : ∀ i, rowDot (rowSwap m a b) i v = rowDot m (if i = a then b else if i = b then a else i) v := by
    intro i
    unfold rowDot rowSwap
    simp only []
    by_cases h1 : i = a
    · simp [h1]
    · by_cases h2 : i = b
      · have h3 : ¬ b = a := fun e => h1 (h2.trans e)
        simp [h2, h3]
      · simp [h1, h2]
  constructor
  · intro h i hi
    by_cases h1 : i = a
    · have := h b hb
      rw [hrow] at this
      by_cases h3 : b = a
      · rw [h1, ← h3]; simpa [h3] using this
      · rw [h1]; simpa [h3] using this
    · by_cases h2 : i = b
      · have := h a ha
        rw [hrow] at this
        rw [h2]; simpa using this
      · have := h i hi
        rw [hrow] at this
        simpa [h1, h2] using this
  · intro h i hi
    rw [hrow]
    show rowDot m _ v = false
    split
    · exact h b hb
    · split
      · exact h a ha
      · exact h i hi

theorem addRows_sol (m : BMat) (s t : Nat) (v : Nat → Bool) (hs : s < m.r) (hst : s ≠ t) :
    SolF (addRows m s t) v ↔ SolF m v := by
  have hrow : ∀ i, rowDot (addRows m s t) i v = if i = t then xor (rowDot m s v) (rowDot m t v) else rowDot m i v := by
    intro i
    unfold rowDot addRows
    simp only []
    by_cases h1 : i = t
    · simp only [h1, if_true]
      exact rowDot_xor m (m.f s) (m.f t) v
    · simp [h1]
  constructor
  · intro h i hi
    by_cases h1 : i = t
    · have h2 := h t (by rw [← h1]; exact hi)
      have h3 := h s hs
      rw [hrow] at h2 h3
      simp only [if_true] at h2
      simp only [hst, if_false] at h3
      rw [h3] at h2
      rw [h1]; simpa using h2
    · have := h i hi
      rw [hrow] at this
      simpa [h1] using this
  · intro h i hi
    rw [hrow]
    split
    · rename_i h1
      rw [h s hs, h t (by rw [← h1]; exact hi)]; rfl
    · exact h i hi

@[simp] theorem rowSwap_r (m : BMat) (a b : Nat) : (rowSwap m a b).r = m.r := rfl
@[simp] theorem rowSwap_c (m : BMat) (a b : Nat) : (rowSwap m a b).c = m.c := rfl
@[simp] theorem addRows_r (m : BMat) (a b : Nat) : (addRows m a b).r = m.r := rfl
@[simp] theorem addRows_c (m : BMat) (a b : Nat) : (addRows m a b).c = m.c := rfl

theorem foldAdd_dims (m : BMat) (pr : Nat) (rest : List Nat) :
    (rest.foldl (fun acc j => addRows acc pr j) m).r = m.r ∧ (rest.foldl (fun acc j => addRows acc pr j) m).c = m.c := by
  induction rest generalizing m with
  | nil => exact ⟨rfl, rfl⟩
  | cons j t ih => simp only [List.foldl_cons]; have := ih (addRows m pr j); simpa using this

theorem foldAdd_sol (m : BMat) (pr : Nat) (rest : List Nat) (v : Nat → Bool) (hpr : pr < m.r)
    (hr : ∀ j ∈ rest, pr ≠ j) : SolF (rest.foldl (fun acc j => addRows acc pr j) m) v ↔ SolF m v := by
  induction rest generalizing m with
  | nil => exact Iff.rfl
  | cons j t ih =>
    simp only [List.foldl_cons]
    rw [ih (addRows m pr j) (by simpa using hpr) (fun k hk => hr k (List.mem_cons_of_mem _ hk))]
    exact addRows_sol m pr j v hpr (hr j (by simp))

theorem eliminate_dims (m : BMat) (pr first : Nat) (rest : List Nat) :
    (eliminate m pr first rest).r = m.r ∧ (eliminate m pr first rest).c = m.c := by
  unfold eliminate
  have := foldAdd_dims (rowSwap m first pr) pr rest
  simpa using this

theorem eliminate_sol (m : BMat) (pr first : Nat) (rest : List Nat) (v : Nat → Bool) (hpr : pr < m.r) (hf : first < m.r)
    (hr : ∀ j ∈ rest, pr ≠ j) : SolF (eliminate m pr first rest) v ↔ SolF m v := by
  unfold eliminate
  rw [solF_norm, foldAdd_sol (rowSwap m first pr) pr rest v (by simpa using hpr) hr]
  exact rowSwap_sol m first pr v hf hpr

/-- the rows below (and including) the pivot row with a 1 in the pivot column: increasing, in range, not above the pivot -/
theorem theOnes_spec (m : BMat) (lo c o : Nat) (rest : List Nat) (h : theOnes m lo c = o :: rest) :
    o < m.r ∧ lo ≤ o ∧ ∀ j ∈ rest, o < j := by
  have hp : (theOnes m lo c).Pairwise (· < ·) := List.Pairwise.filter _ List.pairwise_lt_range
  have hm : o ∈ theOnes m lo c := by rw [h]; simp
  rw [h] at hp
  simp only [theOnes, List.mem_filter, List.mem_range, Bool.and_eq_true, decide_eq_true_eq] at hm
  exact ⟨hm.1, hm.2.1, (List.pairwise_cons.mp hp).1⟩

/-- one step of the row reduction keeps the shape, the solution space, and (when it continues) a pivot row in range -/
theorem rowRedOneStep_spec (x z : BMat) (pr pc : Nat) (v : Nat → Bool) (hpr : pr < x.r) :
    (rowRedOneStep x z pr pc).x.r = x.r ∧ (rowRedOneStep x z pr pc).x.c = x.c ∧
    (SolF (rowRedOneStep x z pr pc).x v ↔ SolF x v) ∧
    ((rowRedOneStep x z pr pc).cont = true → (rowRedOneStep x z pr pc).pr.toNat < x.r ∧ (rowRedOneStep x z pr pc).pc = pc + 1) := by
  unfold rowRedOneStep
  split
  · split
    · exact ⟨rfl, rfl, Iff.rfl, by simp⟩
    · rename_i o rest ho
      obtain ⟨h1, h2, h3⟩ := theOnes_spec x pr pc o rest ho
      refine ⟨(eliminate_dims x pr o rest).1, (eliminate_dims x pr o rest).2, ?_, by simp⟩
      exact eliminate_sol x pr o rest v hpr h1 (fun j hj => by have := h3 j hj; omega)
  · split
    · split
      · exact ⟨rfl, rfl, Iff.rfl, by simp⟩
      · refine ⟨rfl, rfl, Iff.rfl, fun _ => ⟨?_, rfl⟩⟩
        simpa using hpr
    · split
      · refine ⟨rfl, rfl, Iff.rfl, fun _ => ⟨?_, rfl⟩⟩
        simpa using hpr
      · rename_i hlast o rest ho
        obtain ⟨h1, h2, h3⟩ := theOnes_spec x pr pc o rest ho
        refine ⟨(eliminate_dims x pr o rest).1, (eliminate_dims x pr o rest).2, ?_, fun _ => ⟨?_, rfl⟩⟩
        · exact eliminate_sol x pr o rest v hpr h1 (fun j hj => by have := h3 j hj; omega)
        · show ((pr : Int) + 1).toNat < x.r
          omega

theorem rowReductionLoop_spec (fuel : Nat) (x z : BMat) (pr pc : Nat) (v : Nat → Bool) (hpr : pr < x.r) :
    (rowReductionLoop fuel x z pr pc).1.r = x.r ∧ (rowReductionLoop fuel x z pr pc).1.c = x.c ∧
    (SolF (rowReductionLoop fuel x z pr pc).1 v ↔ SolF x v) := by
  induction fuel generalizing x z pr pc with
  | zero => exact ⟨rfl, rfl, Iff.rfl⟩
  | succ f ih =>
    simp only [rowReductionLoop]
    obtain ⟨h1, h2, h3, h4⟩ := rowRedOneStep_spec x z pr pc v hpr
    split
    · rename_i hc
      obtain ⟨h5, _⟩ := h4 hc
      obtain ⟨i1, i2, i3⟩ := ih (rowRedOneStep x z pr pc).x (rowRedOneStep x z pr pc).z (rowRedOneStep x z pr pc).pr.toNat
        (rowRedOneStep x z pr pc).pc (by rw [h1]; exact h5)
      exact ⟨i1.trans h1, i2.trans h2, i3.trans h3⟩
    · exact ⟨h1, h2, h3⟩

/-- **row reduction preserves the solution space** (and the shape) -/
theorem rowReduction_spec (x z : BMat) (v : Nat → Bool) (hr : 0 < x.r) :
    (rowReduction x z).1.r = x.r ∧ (rowReduction x z).1.c = x.c ∧ (SolF (rowReduction x z).1 v ↔ SolF x v) :=
  rowReductionLoop_spec x.c x z 0 0 v hr

theorem anyRow_false (m : BMat) (i : Nat) (v : Nat → Bool)
    (h : ((List.range m.c).any fun j => m.f i j) = false) : rowDot m i v = false := by
  unfold rowDot
  apply parityTo_zero
  intro j hj
  rw [List.any_eq_false] at h
  have := h j (List.mem_range.mpr hj)
  simp at this
  simp [this]

/-- dropping the all-zero rows does not change the solution space -/
theorem selectRows_sol (m : BMat) (v : Nat → Bool) : SolF (selectRows m (nonzeroRows m)) v ↔ SolF m v := by
  have hrow : ∀ k, rowDot (selectRows m (nonzeroRows m)) k v = rowDot m ((nonzeroRows m).getD k 0) v := fun _ => rfl
  constructor
  · intro h i hi
    by_cases hz : ((List.range m.c).any fun j => m.f i j) = true
    · have hm : i ∈ nonzeroRows m := by
        simp only [nonzeroRows, List.mem_filter, List.mem_range]
        exact ⟨hi, hz⟩
      obtain ⟨k, hk, e⟩ := List.getElem_of_mem hm
      have := h k hk
      rw [hrow] at this
      have e2 : (nonzeroRows m).getD k 0 = i := by
        simp [List.getD, List.getElem?_eq_getElem hk, e]
      rw [e2] at this; exact this
    · exact anyRow_false m i v (by simpa using hz)
  · intro h k hk
    rw [hrow]
    have hk' : k < (nonzeroRows m).length := hk
    have hm : (nonzeroRows m).getD k 0 ∈ nonzeroRows m := by
      simp [List.getD, List.getElem?_eq_getElem hk']
    simp only [nonzeroRows, List.mem_filter, List.mem_range] at hm
    exact h _ hm.1

/-! ### sums of basis vectors -/

theorem vget_vxor (a b : List Bool) (j : Nat) (h : a.length = b.length) : vget (vxor a b) j = xor (vget a j) (vget b j) := by
  unfold vget vxor
  by_cases hj : j < a.length
  · have hjb : j < b.length := by omega
    simp [List.getD, List.getElem?_zipWith, List.getElem?_eq_getElem hj, List.getElem?_eq_getElem hjb]
  · have hjb : ¬ j < b.length := by omega
    have h1 : a[j]? = none := List.getElem?_eq_none (by omega)
    have h2 : b[j]? = none := List.getElem?_eq_none (by omega)
    simp [List.getD, List.getElem?_zipWith, h1, h2]

theorem vxor_length (a b : List Bool) (h : a.length = b.length) : (vxor a b).length = a.length := by
  simp [vxor, h]

/-- a vector of the right length that solves the system -/
def GoodVec (m : BMat) (v : List Bool) : Prop := v.length = m.c ∧ SolF m (vget v)

theorem goodVec_vxor (m : BMat) (a b : List Bool) (ha : GoodVec m a) (hb : GoodVec m b) : GoodVec m (vxor a b) := by
  have hl : a.length = b.length := by rw [ha.1, hb.1]
  refine ⟨by rw [vxor_length a b hl, ha.1], ?_⟩
  rw [solF_congr m _ (fun j => xor (vget a j) (vget b j)) (fun j _ => vget_vxor a b j hl)]
  exact solF_xor m _ _ ha.2 hb.2

theorem goodVec_zero (m : BMat) : GoodVec m (List.replicate m.c false) := by
  refine ⟨by simp, ?_⟩
  intro i _
  unfold rowDot
  apply parityTo_zero
  intro j _
  have : vget (List.replicate m.c false) j = false := by
    simp only [vget, List.getD, List.getElem?_replicate]
    split <;> rfl
  rw [this]; simp

theorem getD_mem_or (basis : List (List Bool)) (j : Nat) (hj : j < basis.length) : basis.getD j [] ∈ basis := by
  simp [List.getD, List.getElem?_eq_getElem hj]

theorem goodVec_lin (m : BMat) (basis : List (List Bool)) (coef : List Bool) (hb : ∀ v ∈ basis, GoodVec m v) :
    GoodVec m (lin m.c basis coef) := by
  unfold lin
  have key : ∀ (l : List (Bool × List Bool)) (acc : List Bool), (∀ p ∈ l, GoodVec m p.2) → GoodVec m acc →
      GoodVec m (l.foldl (fun acc p => if p.1 then vxor acc p.2 else acc) acc) := by
    intro l
    induction l with
    | nil => intro acc _ h; exact h
    | cons p t ih =>
      intro acc hl h
      simp only [List.foldl_cons]
      apply ih
      · intro k hk; exact hl k (List.mem_cons_of_mem _ hk)
      · split
        · exact goodVec_vxor m _ _ h (hl p (by simp))
        · exact h
  exact key _ _ (fun p hp => hb p.2 (List.of_mem_zip hp).2) (goodVec_zero m)

theorem mem_pairs {α : Type} (l : List α) (p : α × α) (h : p ∈ pairs l) : p.1 ∈ l ∧ p.2 ∈ l := by
  induction l with
  | nil => simp [pairs] at h
  | cons a t ih =>
    simp only [pairs, List.mem_append, List.mem_map] at h
    rcases h with ⟨b, hb, e⟩ | h
    · rw [← e]; exact ⟨by simp, List.mem_cons_of_mem _ hb⟩
    · exact ⟨List.mem_cons_of_mem _ (ih h).1, List.mem_cons_of_mem _ (ih h).2⟩

/-- what `_solution_basis_finder` returns has passed its final assertion -/
theorem solutionBasisFinder_good (m : BMat) (colList : List Nat) (basis : List (List Bool))
    (e : solutionBasisFinder m colList = .ok basis) : ∀ v ∈ basis, GoodVec m v := by
  unfold solutionBasisFinder at e
  simp only [] at e
  split at e
  · cases e
  · split at e
    · cases e
    · split at e
      · rename_i hall
        cases e
        intro v hv
        rw [List.all_eq_true] at hall
        have := hall v hv
        simp only [Bool.and_eq_true, beq_iff_eq] at this
        exact ⟨this.1, (solves_iff m v).mp this.2⟩
      · cases e


/-- the chain from the original system to the matrix the solution basis is computed from -/
theorem reduced_sol (n : Nat) (z1 z2 : Adj) (v : Nat → Bool) (hn : 0 < n) :
    let coeff := (coeffMaker n z1 z2).norm
    let red := (rowReduction coeff { coeff with f := fun _ _ => false }).1
    (selectRows red (nonzeroRows red)).norm.c = 4 * n ∧
    (SolF (selectRows red (nonzeroRows red)).norm v ↔ SolF (coeffMaker n z1 z2) v) := by
  intro coeff red
  have hr : 0 < coeff.r := by show 0 < n * n; exact Nat.mul_pos hn hn
  obtain ⟨h1, h2, h3⟩ := rowReduction_spec coeff { coeff with f := fun _ _ => false } v hr
  refine ⟨?_, ?_⟩
  · show red.c = 4 * n
    rw [h2]; rfl
  · rw [solF_norm, selectRows_sol, h3, solF_norm]

/-- **soundness of every `yes` of the deterministic search paths**: the returned `Q` has the right length, solves the
    linear system of `_coeff_maker`, and every 2×2 block is invertible -/
theorem isLcEquivalent_sound (a b : BMat) (mode : Mode) (draws : List Bool) (out : EqOut) (q : List Bool)
    (hn : 0 < a.r) (e : isLcEquivalent a b mode draws = .ok out) (hq : out.sol = some q) (hp : out.path ≠ "random") :
    q.length = 4 * a.r ∧ SolF (coeffMaker a.r a.f b.f) (vget q) ∧ isValidClifford a.r q = true := by
  unfold isLcEquivalent at e
  simp only [] at e
  split at e
  · cases e
  · split at e
    · cases e; simp at hq
    · split at e
      · cases e
      · split at e
        · cases e
        · have hred := fun v => reduced_sol a.r a.f b.f v hn
          have hc := (hred (vget q)).1
          split at e
          · cases e
          · rename_i basis eb
            have hgood := solutionBasisFinder_good _ _ basis eb
            split at e
            · -- all combinations
              split at e
              · rename_i i hfind
                cases e
                simp only [Option.some.injEq] at hq
                have hv := List.find?_some hfind
                have hg := goodVec_lin _ basis i hgood
                rw [hc] at hg
                rw [← hq]
                exact ⟨hg.1.trans hc, (hred _).2.mp hg.2, by simpa using hv⟩
              · cases e; simp at hq
            · split at e
              · -- random
                split at e
                · cases e
                · cases e; exact absurd rfl hp
              · split at e
                · rename_i p hfind
                  cases e
                  simp only [Option.some.injEq] at hq
                  have hv := List.find?_some hfind
                  have hm := mem_pairs basis p (List.mem_of_find?_eq_some hfind)
                  have hg := goodVec_vxor _ _ _ (hgood _ hm.1) (hgood _ hm.2)
                  rw [← hq]
                  exact ⟨hg.1.trans hc, (hred _).2.mp hg.2, by simpa using hv⟩
                · cases e; simp at hq
              · cases e


/-! ### gates on graph states: the checked path of `lc_check` -/

theorem prow_norm_eqOn (n : Nat) (p : PRow) : EqOn n (p.norm n) p := by
  refine ⟨fun j hj => ⟨?_, ?_⟩, rfl, rfl⟩
  · show lookup1 (Array.ofFn (n := n) fun j => p.x j.val) j = p.x j
    simp [lookup1, Array.getD, hj]
  · show lookup1 (Array.ofFn (n := n) fun j => p.z j.val) j = p.z j
    simp [lookup1, Array.getD, hj]

theorem tab_norm_row (t : Tab) (i : Nat) (hi : i < 2 * t.n) : t.norm.row i = (t.row i).norm t.n := by
  show Tab.lookupRow (Array.ofFn (n := 2 * t.n) fun i => (t.row i.val).norm t.n) i = _
  simp [Tab.lookupRow, Array.getD, hi]

theorem tab_norm_valid (t : Tab) (hv : t.Valid) : t.norm.Valid := by
  intro i k hi hk
  have hi' : i < 2 * t.n := hi
  have hk' : k < 2 * t.n := hk
  show sp t.n (t.norm.row i) (t.norm.row k) = _
  rw [tab_norm_row t i hi', tab_norm_row t k hk',
    sp_eqOn t.n _ (t.row i) _ (t.row k) (prow_norm_eqOn t.n _) (prow_norm_eqOn t.n _)]
  exact hv i k hi' hk'

@[simp] theorem tab_norm_n (t : Tab) : t.norm.n = t.n := rfl

/-- the graph-state tableau (destabilizers `Z_q`, stabilizers `K_q`) is valid for a simple graph -/
theorem graphTab_valid (n : Nat) (A : Adj) (hA : Simple n A) : (graphTab n A).Valid := by
  intro i k hi hk
  have hi' : i < 2 * n := hi
  have hk' : k < 2 * n := hk
  show sp n ((graphTab n A).row i) ((graphTab n A).row k) = decide (i + n = k ∨ k + n = i)
  unfold graphTab
  simp only []
  by_cases h1 : i < n <;> by_cases h2 : k < n
  · -- Z_i, Z_k commute
    simp only [h1, h2, if_true]
    rw [sp_Zq n k _ false h2]
    simp [Zq]; omega
  · -- Z_i against K_{k-n}
    simp only [h1, h2, if_true, if_false]
    rw [sp_comm, sp_Zq n i _ false h1]
    simp only [graphGen]
    apply decide_eq_decide.mpr; omega
  · simp only [h1, h2, if_true, if_false]
    rw [sp_Zq n k _ false h2]
    simp only [graphGen]
    apply decide_eq_decide.mpr; omega
  · -- K_a, K_b commute: one Z–X crossing each way, equal by symmetry
    simp only [h1, h2, if_false]
    have ha : i - n < n := by omega
    have hb : k - n < n := by omega
    unfold sp graphGen
    simp only []
    have e : ∀ j, j < n → xor (decide (j = i - n) && A (k - n) j) (A (i - n) j && decide (j = k - n)) =
        xor (decide (j = i - n) && A (k - n) j) (decide (j = k - n) && A (i - n) j) := by
      intro j _; rw [Bool.and_comm (A (i - n) j)]
    rw [parityTo_congr n _ _ e, parityTo_xor, parityTo_single n (i - n) _ ha, parityTo_single n (k - n) _ hb,
      hA.1 (k - n) (i - n) hb ha]
    have : decide (i + n = k ∨ k + n = i) = false := by apply decide_eq_false; omega
    rw [this]
    cases A (i - n) (k - n) <;> rfl

theorem applyGate_spec (t t' : Tab) (name : String) (q : Nat) (hv : t.Valid) (e : applyGate t name q = .ok t') :
    t'.n = t.n ∧ t'.Valid := by
  unfold applyGate at e
  split at e
  · rename_i hq
    split at e <;> (try cases e)
    · exact ⟨rfl, hv⟩
    · exact ⟨rfl, hGate_valid t q hq hv⟩
    · exact ⟨rfl, sGate_valid t q hq hv⟩
    · exact ⟨rfl, sdgGate_valid t q hq hv⟩
    · exact ⟨rfl, xGate_valid t q hq hv⟩
    · exact ⟨rfl, yGate_valid t q hq hv⟩
    · exact ⟨rfl, zGate_valid t q hq hv⟩
  · cases e


theorem runGates_spec (t t' : Tab) (gates : List (String × Nat)) (hv : t.Valid) (e : runGates t gates = .ok t') :
    t'.n = t.n ∧ t'.Valid := by
  induction gates generalizing t with
  | nil => simp [runGates] at e; cases e; exact ⟨rfl, hv⟩
  | cons g rest ih =>
    simp only [runGates] at e
    split at e
    · cases e
    · rename_i t1 e1
      obtain ⟨h1, h2⟩ := applyGate_spec t t1 g.1 g.2 hv e1
      obtain ⟨h3, h4⟩ := ih t1.norm (tab_norm_valid t1 h2) e
      exact ⟨h3.trans ((tab_norm_n t1).trans h1), h4⟩

theorem beqOn_eqOn (n : Nat) (a b : PRow) (h : PRow.beqOn n a b = true) : EqOn n a b := by
  unfold PRow.beqOn at h
  simp only [Bool.and_eq_true, List.all_eq_true, List.mem_range, beq_iff_eq] at h
  exact ⟨fun j hj => h.1.1 j hj, h.1.2, h.2⟩

/-- a `some` answer of `groupSign` exhibits `± g` as a product of stabilizer generators -/
theorem groupSign_inSpan (t : Tab) (g : PRow) (s : Bool) (h : groupSign t g = some s) :
    InSpan t.n t.n t.stab { g with r := s } := by
  unfold groupSign at h
  simp only [] at h
  split at h
  · rename_i hc
    cases h
    simp only [Bool.and_eq_true] at hc
    have hp : InSpan t.n t.n t.stab (groupProduct t g) := by
      unfold groupProduct
      apply foldl_inSpan
      · intro d hd
        exact ((mem_filterTo _ _ d).mp hd).1
      · exact InSpan.one
    exact InSpan.eqv _ _ hp (beqOn_eqOn _ _ _ hc.1)
  · cases h

theorem isGraphState_inSpan (t : Tab) (B : Adj) (h : isGraphState t B = true) (q : Nat) (hq : q < t.n) :
    InSpan t.n t.n t.stab (graphGen B q) := by
  unfold isGraphState at h
  rw [List.all_eq_true] at h
  have := h q (List.mem_range.mpr hq)
  simp only [beq_iff_eq] at this
  exact groupSign_inSpan t (graphGen B q) false this

/-- **the checked path of `lc_check`**: whenever `lc_check(A, B, validate=True)` answers `(True, gates)`, running the gates
    with the verified tableau semantics on the graph state of `A` gives a valid tableau whose stabilizer group contains
    every generator `K_q(B) = X_q ∏_{j~q} Z_j` of the graph state of `B` with sign `+` -/
theorem lcCheck_sound (a b : BMat) (gates : List (String × Nat)) (hA : Simple a.r a.f)
    (e : lcCheck a b true = .ok (true, gates)) :
    ∃ t, runGates (graphTab a.r a.f) gates = .ok t ∧ t.n = a.r ∧ t.Valid ∧
      ∀ q, q < a.r → InSpan t.n t.n t.stab (graphGen b.f q) := by
  unfold lcCheck at e
  split at e
  · cases e
  · simp only [if_true] at e
    split at e
    · cases e
    · rename_i t et
      split at e
      · rename_i hg
        cases e
        obtain ⟨h1, h2⟩ := runGates_spec _ t gates (graphTab_valid a.r a.f hA) et
        refine ⟨t, et, h1, h2, fun q hq => isGraphState_inSpan t b.f hg q (by rw [h1]; exact hq)⟩
      · cases e


/-! ### the linear system, equation by equation -/

theorem parityTo_blocks4 (n : Nat) (f : Nat → Bool) :
    parityTo (4 * n) f = parityTo n fun m => xor (xor (f (4 * m)) (f (4 * m + 1))) (xor (f (4 * m + 2)) (f (4 * m + 3))) := by
  induction n with
  | zero => rfl
  | succ k ih =>
    have : 4 * (k + 1) = 4 * k + 1 + 1 + 1 + 1 := by omega
    rw [this]
    simp only [parityTo, ih]
    cases parityTo k _ <;> cases f (4 * k) <;> cases f (4 * k + 1) <;> cases f (4 * k + 2) <;> cases f (4 * k + 3) <;> rfl

/-- equation `(j, k)` of `_coeff_maker(θ, θ')`:
    `Σ_m θ_mj θ'_mk c_m + θ_jk a_k + θ'_jk d_j + δ_jk b_j` (Van den Nest–Dehaene–De Moor, eq. (6)) -/
def equation (n : Nat) (z1 z2 : Adj) (v : Nat → Bool) (j k : Nat) : Bool :=
  xor (xor (parityTo n fun m => z1 m j && z2 m k && v (4 * m + 2)) (z1 j k && v (4 * k)))
      (xor (z2 j k && v (4 * j + 3)) (decide (j = k) && v (4 * j + 1)))

theorem coeffMaker_row (n : Nat) (z1 z2 : Adj) (v : Nat → Bool) (j k : Nat) (hj : j < n) (hk : k < n) :
    rowDot (coeffMaker n z1 z2) (n * j + k) v = equation n z1 z2 v j k := by
  have hn : 0 < n := by omega
  have hdiv : (n * j + k) / n = j := by
    rw [Nat.mul_add_div hn, Nat.div_eq_of_lt hk]; rfl
  have hmod : (n * j + k) % n = k := by
    rw [Nat.mul_add_mod, Nat.mod_eq_of_lt hk]
  have ht : ∀ m t, t < 4 → (coeffMaker n z1 z2).f (n * j + k) (4 * m + t) = coeffEntry z1 z2 j k m t := by
    intro m t ht
    show coeffEntry z1 z2 ((n * j + k) / n) ((n * j + k) % n) ((4 * m + t) / 4) ((4 * m + t) % 4) = _
    rw [hdiv, hmod]
    have : (4 * m + t) / 4 = m := by omega
    rw [this]
    have : (4 * m + t) % 4 = t := by omega
    rw [this]
  have ht0 : ∀ m, (coeffMaker n z1 z2).f (n * j + k) (4 * m) = coeffEntry z1 z2 j k m 0 := fun m => ht m 0 (by omega)
  unfold rowDot equation
  show parityTo (4 * n) _ = _
  rw [parityTo_blocks4]
  have hb : ∀ m, m < n →
      xor (xor ((coeffMaker n z1 z2).f (n * j + k) (4 * m) && v (4 * m))
               ((coeffMaker n z1 z2).f (n * j + k) (4 * m + 1) && v (4 * m + 1)))
          (xor ((coeffMaker n z1 z2).f (n * j + k) (4 * m + 2) && v (4 * m + 2))
               ((coeffMaker n z1 z2).f (n * j + k) (4 * m + 3) && v (4 * m + 3))) =
      xor (xor (z1 m j && z2 m k && v (4 * m + 2)) (decide (m = k) && (z1 j k && v (4 * k))))
          (xor (decide (m = j) && (z2 j k && v (4 * j + 3))) (decide (m = k) && (decide (j = k) && v (4 * j + 1)))) := by
    intro m _
    rw [ht0 m, ht m 1 (by omega), ht m 2 (by omega), ht m 3 (by omega)]
    simp only [coeffEntry]
    by_cases h1 : m = k <;> by_cases h2 : m = j
    · subst h1; subst h2; simp
      cases z1 m m <;> cases z2 m m <;> cases v (4 * m) <;> cases v (4 * m + 1) <;> cases v (4 * m + 2) <;> cases v (4 * m + 3) <;> rfl
    · subst h1
      have h3 : ¬ j = m := fun e => h2 e.symm
      simp [h2, h3]
      cases z1 j m <;> cases z1 m j <;> cases z2 m m <;> cases v (4 * m) <;> cases v (4 * m + 2) <;> rfl
    · subst h2
      simp [h1]
    · simp [h1, h2]
  rw [parityTo_congr n _ _ hb]
  rw [parityTo_xor, parityTo_xor, parityTo_xor, parityTo_single n k _ hk, parityTo_single n j _ hj, parityTo_single n k _ hk]

/-- a solution of the model's coefficient matrix is a solution of every equation of the paper, and conversely -/
theorem solF_coeff_iff (n : Nat) (z1 z2 : Adj) (v : Nat → Bool) :
    SolF (coeffMaker n z1 z2) v ↔ ∀ j k, j < n → k < n → equation n z1 z2 v j k = false := by
  constructor
  · intro h j k hj hk
    rw [← coeffMaker_row n z1 z2 v j k hj hk]
    apply h
    show n * j + k < n * n
    calc n * j + k < n * j + n := by omega
      _ = n * (j + 1) := by rw [Nat.mul_succ]
      _ ≤ n * n := Nat.mul_le_mul_left n hj
  · intro h i hi
    have hi' : i < n * n := hi
    have hn : 0 < n := by
      rcases Nat.eq_zero_or_pos n with e | e
      · subst e; simp at hi'
      · exact e
    have e : i = n * (i / n) + i % n := (Nat.div_add_mod i n).symm
    rw [e, coeffMaker_row n z1 z2 v (i / n) (i % n) (Nat.div_lt_of_lt_mul hi') (Nat.mod_lt i hn)]
    exact h _ _ (Nat.div_lt_of_lt_mul hi') (Nat.mod_lt i hn)


/-! ### the 2×2 → gate-name table -/

/-- row-wise action of a named gate (what `applyGate` does to every row of the tableau) -/
def gateRow (name : String) (q : Nat) : PRow → PRow :=
  match name with
  | "H" => PRow.h q
  | "P" => PRow.s q
  | "P_dag" => PRow.sdg q
  | "X" => PRow.xg q
  | "Y" => PRow.yg q
  | "Z" => PRow.zg q
  | _ => id

/-- the gates of a written name act rightmost-first (`ops.split()[::-1]` in `converter_gate_list`) -/
def applyNames (names : List String) (q : Nat) (p : PRow) : PRow :=
  names.reverse.foldl (fun acc nm => gateRow nm q acc) p

/-- every invertible block has a name -/
theorem blockOps_complete (a b c d : Bool) : (blockOps a b c d).isSome = xor (a && d) (b && c) := by
  cases a <;> cases b <;> cases c <;> cases d <;> rfl

/-- the named gates act on the `(z, x)` bits of their qubit exactly as the block `[[a, b], [c, d]]` does on the column
    vector `(z; x)`, and leave every other qubit alone — for every row of every tableau of every size -/
theorem blockOps_action (a b c d : Bool) (names : List String) (h : blockOps a b c d = some names) (q : Nat) (p : PRow) :
    (applyNames names q p).z q = xor (a && p.z q) (b && p.x q) ∧
    (applyNames names q p).x q = xor (c && p.z q) (d && p.x q) ∧
    ∀ j, j ≠ q → (applyNames names q p).x j = p.x j ∧ (applyNames names q p).z j = p.z j := by
  cases a <;> cases b <;> cases c <;> cases d <;> simp [blockOps] at h <;> subst h <;>
    (refine ⟨?_, ?_, fun j hj => ⟨?_, ?_⟩⟩) <;>
    (first
      | (simp [applyNames, gateRow, PRow.h, PRow.s, PRow.sdg, hj]; done)
      | (simp [applyNames, gateRow, PRow.h, PRow.s, PRow.sdg] <;> cases p.x q <;> cases p.z q <;> rfl))


/-! ### exhaustiveness of the small search -/

theorem allCoefs_complete (c : List Bool) : c ∈ allCoefs c.length := by
  induction c with
  | nil => simp [allCoefs]
  | cons b t ih =>
    simp only [List.length_cons, allCoefs, List.mem_append, List.mem_map]
    cases b
    · left; exact ⟨t, ih, rfl⟩
    · right; exact ⟨t, ih, rfl⟩

theorem parityTo_succ_left (n : Nat) (f : Nat → Bool) : parityTo (n + 1) f = xor (f 0) (parityTo n fun t => f (t + 1)) := by
  induction n with
  | zero => simp [parityTo]
  | succ k ih =>
    show xor (parityTo (k + 1) f) (f (k + 1)) = xor (f 0) (xor (parityTo k fun t => f (t + 1)) (f (k + 1)))
    rw [ih]
    cases f 0 <;> cases parityTo k (fun t => f (t + 1)) <;> cases f (k + 1) <;> rfl

theorem vget_cons_succ (b : Bool) (l : List Bool) (t : Nat) : vget (b :: l) (t + 1) = vget l t := by
  simp [vget]

theorem vget_cons_zero (b : Bool) (l : List Bool) : vget (b :: l) 0 = b := by simp [vget]

/-- entry `pos` of a sum of selected basis vectors -/
theorem lin_fold_vget (width : Nat) (basis : List (List Bool)) (coef : List Bool) (acc : List Bool) (pos : Nat)
    (hlen : coef.length = basis.length) (hb : ∀ v ∈ basis, v.length = width) (hacc : acc.length = width) :
    vget ((List.zip coef basis).foldl (fun acc p => if p.1 then vxor acc p.2 else acc) acc) pos =
      xor (vget acc pos) (parityTo basis.length fun t => vget coef t && vget (basis.getD t []) pos) := by
  induction basis generalizing coef acc with
  | nil => simp [parityTo]
  | cons b bs ih =>
    cases coef with
    | nil => simp at hlen
    | cons c cs =>
      simp only [List.zip_cons_cons, List.foldl_cons, List.length_cons]
      have hbl : b.length = width := hb b (by simp)
      have hacc' : (if c = true then vxor acc b else acc).length = width := by
        split
        · rw [vxor_length acc b (by rw [hacc, hbl]), hacc]
        · exact hacc
      rw [ih cs _ (by simpa using hlen) (fun v hv => hb v (List.mem_cons_of_mem _ hv)) hacc', parityTo_succ_left]
      have e1 : vget (c :: cs) 0 = c := vget_cons_zero c cs
      have e2 : (b :: bs).getD 0 [] = b := by simp
      have e3 : ∀ t, vget (c :: cs) (t + 1) = vget cs t := fun t => vget_cons_succ c cs t
      have e4 : ∀ t, (b :: bs).getD (t + 1) [] = bs.getD t [] := fun t => by simp
      simp only [e1, e2, e3, e4]
      cases c
      · simp
      · simp only [if_true, Bool.true_and]
        rw [vget_vxor acc b pos (by rw [hacc, hbl])]
        cases vget acc pos <;> cases vget b pos <;> cases parityTo bs.length _ <;> rfl

theorem vget_replicate_false (w pos : Nat) : vget (List.replicate w false) pos = false := by
  simp only [vget, List.getD, List.getElem?_replicate]
  split <;> rfl

theorem lin_vget (width : Nat) (basis : List (List Bool)) (coef : List Bool) (pos : Nat)
    (hlen : coef.length = basis.length) (hb : ∀ v ∈ basis, v.length = width) :
    vget (lin width basis coef) pos = parityTo basis.length fun t => vget coef t && vget (basis.getD t []) pos := by
  unfold lin
  rw [lin_fold_vget width basis coef _ pos hlen hb (by simp), vget_replicate_false]
  simp


/-- strictly increasing list, all entries below `b` -/
def SortedBelow (l : List Nat) (b : Nat) : Prop := l.Pairwise (· < ·) ∧ ∀ c ∈ l, c < b

theorem sortedBelow_snoc (l : List Nat) (b : Nat) (h : SortedBelow l b) : SortedBelow (l ++ [b]) (b + 1) := by
  refine ⟨?_, ?_⟩
  · rw [List.pairwise_append]
    exact ⟨h.1, by simp, fun x hx y hy => by simp at hy; rw [hy]; exact h.2 x hx⟩
  · intro c hc
    rcases List.mem_append.mp hc with h1 | h1
    · have := h.2 c h1; omega
    · simp at h1; omega

theorem colFinderLoop_sorted (m : BMat) (fuel pr pc : Nat) (deps : List Nat) (hf : pc + fuel + 1 ≤ m.c)
    (hd : SortedBelow deps pc) : SortedBelow (colFinderLoop m fuel pr pc deps) m.c := by
  induction fuel generalizing pr pc deps with
  | zero => exact ⟨hd.1, fun c hc => by have := hd.2 c hc; omega⟩
  | succ f ih =>
    simp only [colFinderLoop]
    split
    · split
      · refine ⟨?_, ?_⟩
        · rw [List.pairwise_append]
          refine ⟨hd.1, List.Pairwise.filter _ List.pairwise_lt_range, ?_⟩
          intro x hx y hy
          simp only [List.mem_filter, List.mem_range, decide_eq_true_eq] at hy
          have := hd.2 x hx; omega
        · intro c hc
          rcases List.mem_append.mp hc with h1 | h1
          · have := hd.2 c h1; omega
          · simp only [List.mem_filter, List.mem_range] at h1; exact h1.1
      · exact ih (pr + 1) (pc + 1) deps (by omega) ⟨hd.1, fun c hc => by have := hd.2 c hc; omega⟩
    · exact ih pr (pc + 1) (deps ++ [pc]) (by omega) (sortedBelow_snoc deps pc hd)

theorem colFinder_sorted (m : BMat) (hc : 0 < m.c) : SortedBelow (colFinder m) m.c := by
  unfold colFinder
  exact colFinderLoop_sorted m (m.c - 1) 0 0 [] (by omega) ⟨by simp, by simp⟩

/-! #### `list.insert` -/

theorem vget_pyInsert_at (l : List Bool) (k : Nat) (v : Bool) (hk : k ≤ l.length) : vget (pyInsert l k v) k = v := by
  unfold vget pyInsert
  have : (l.take k).length = k := by simp [hk]
  rw [List.getD, List.getElem?_append_right (by omega)]
  simp [this]

theorem vget_pyInsert_lt (l : List Bool) (k pos : Nat) (v : Bool) (hp : pos < k) (hk : k ≤ l.length) :
    vget (pyInsert l k v) pos = vget l pos := by
  unfold vget pyInsert
  have : (l.take k).length = k := by simp [hk]
  rw [List.getD, List.getD, List.getElem?_append_left (by omega), List.getElem?_take_of_lt hp]

theorem pyInsert_length (l : List Bool) (k : Nat) (v : Bool) : (pyInsert l k v).length = l.length + 1 := by
  unfold pyInsert
  simp
  omega

/-- sorted lists: `cols[t] + (length - t) ≤ bound` -/
theorem sorted_getD_le (cols : List Nat) (b : Nat) (h : SortedBelow cols b) (t : Nat) (ht : t < cols.length) :
    cols.getD t 0 + (cols.length - t) ≤ b := by
  induction cols generalizing t b with
  | nil => simp at ht
  | cons c cs ih =>
    have hcs : SortedBelow cs b := ⟨(List.pairwise_cons.mp h.1).2, fun x hx => h.2 x (List.mem_cons_of_mem _ hx)⟩
    cases t with
    | zero =>
      simp only [List.getD_cons_zero, List.length_cons]
      cases cs with
      | nil => have := h.2 c (by simp); simp; omega
      | cons c2 cs2 =>
        have h1 := ih b hcs 0 (by simp)
        simp only [List.getD_cons_zero, List.length_cons] at h1
        have h2 : c < c2 := (List.pairwise_cons.mp h.1).1 c2 (by simp)
        simp only [List.length_cons]; omega
    | succ t =>
      simp only [List.getD_cons_succ, List.length_cons]
      have := ih b hcs t (by simpa using ht)
      omega

theorem sorted_getD_lt (cols : List Nat) (b : Nat) (h : SortedBelow cols b) (s t : Nat) (hst : s < t) (ht : t < cols.length) :
    cols.getD s 0 < cols.getD t 0 := by
  have hs : s < cols.length := by omega
  have := List.pairwise_iff_getElem.mp h.1 s t hs ht hst
  simpa [List.getD, List.getElem?_eq_getElem hs, List.getElem?_eq_getElem ht] using this

/-- the unit pattern of a basis vector on the free columns: after splicing `e_i` in at the (sorted) free columns, the
    entry at free column `t` is `[i = t]` -/
theorem splice_unit (x : List Bool) (cols : List Nat) (i : Nat) (b : Nat) (hs : SortedBelow cols b)
    (hb : b = x.length + cols.length) (k : Nat) (hk : k ≤ cols.length) :
    ((List.range k).foldl (fun acc j => pyInsert acc (cols.getD j 0) (decide (i = j))) x).length = x.length + k ∧
    ∀ t, t < k → vget ((List.range k).foldl (fun acc j => pyInsert acc (cols.getD j 0) (decide (i = j))) x) (cols.getD t 0) = decide (i = t) := by
  induction k with
  | zero => simp
  | succ k ih =>
    obtain ⟨h1, h2⟩ := ih (by omega)
    rw [List.range_succ, List.foldl_append]
    simp only [List.foldl_cons, List.foldl_nil]
    have hck : cols.getD k 0 ≤ x.length + k := by
      have := sorted_getD_le cols b hs k (by omega)
      omega
    refine ⟨by rw [pyInsert_length, h1]; omega, ?_⟩
    intro t ht
    by_cases e : t = k
    · subst e
      exact vget_pyInsert_at _ _ _ (by rw [h1]; exact hck)
    · have htk : t < k := by omega
      rw [vget_pyInsert_lt _ _ _ _ (sorted_getD_lt cols b hs t k htk (by omega)) (by rw [h1]; exact hck)]
      exact h2 t htk


/-! #### sums over a sub-list of the columns, exchange of sums, the inverse -/

theorem getD_append_left' (l1 l2 : List Nat) (k : Nat) (hk : k < l1.length) : (l1 ++ l2).getD k 0 = l1.getD k 0 := by
  simp [List.getD, List.getElem?_append_left hk]

theorem parityTo_filter (c : Nat) (p : Nat → Bool) (f : Nat → Bool) :
    parityTo c (fun j => p j && f j) =
      parityTo ((List.range c).filter p).length (fun k => f (((List.range c).filter p).getD k 0)) := by
  induction c with
  | zero => rfl
  | succ c ih =>
    rw [List.range_succ, List.filter_append]
    by_cases hp : p c = true
    · have e : List.filter p [c] = [c] := by simp [hp]
      rw [e, List.length_append]
      show xor (parityTo c _) (p c && f c) = xor (parityTo _ _) _
      rw [ih, hp]
      congr 1
      · apply parityTo_congr
        intro k hk
        rw [getD_append_left' _ _ k hk]
      · simp [List.getD, List.getElem?_append_right]
    · have hp' : p c = false := by simpa using hp
      have e : List.filter p [c] = [] := by simp [hp']
      rw [e, List.append_nil]
      show xor (parityTo c _) (p c && f c) = _
      rw [ih, hp']; simp

theorem parityTo_comm (a b : Nat) (g : Nat → Nat → Bool) :
    parityTo a (fun i => parityTo b (fun j => g i j)) = parityTo b (fun j => parityTo a (fun i => g i j)) := by
  induction a with
  | zero => simp [parityTo, parityTo_false]
  | succ a ih =>
    show xor (parityTo a _) (parityTo b (g a)) = parityTo b (fun j => xor (parityTo a (fun i => g i j)) (g a j))
    rw [parityTo_xor, ih]

theorem parityTo_and_const (n : Nat) (c : Bool) (f : Nat → Bool) : parityTo n (fun j => c && f j) = (c && parityTo n f) := by
  cases c
  · simp [parityTo_false]
  · simp

theorem parityTo_const_and (n : Nat) (c : Bool) (f : Nat → Bool) : parityTo n (fun j => f j && c) = (parityTo n f && c) := by
  cases c
  · simp [parityTo_false]
  · simp

theorem isInverse_spec (k : Nat) (t a : Adj) (h : isInverse k t a = true) (i j : Nat) (hi : i < k) (hj : j < k) :
    matMul k t a i j = decide (i = j) ∧ matMul k a t i j = decide (i = j) := by
  unfold isInverse at h
  rw [List.all_eq_true] at h
  have h1 := h i (List.mem_range.mpr hi)
  rw [List.all_eq_true] at h1
  have h2 := h1 j (List.mem_range.mpr hj)
  simp only [Bool.and_eq_true, beq_iff_eq, idM] at h2
  exact h2

theorem gf2Inv_spec (a ainv : BMat) (h : gf2Inv a = .ok ainv) :
    a.r = a.c ∧ ∀ i j, i < a.r → j < a.r →
      matMul a.r ainv.f a.f i j = decide (i = j) ∧ matMul a.r a.f ainv.f i j = decide (i = j) := by
  unfold gf2Inv at h
  split at h
  · cases h
  · rename_i hsq
    split at h
    · cases h
    · split at h
      · rename_i hinv
        cases h
        exact ⟨by simpa using hsq, fun i j hi hj => isInverse_spec _ _ _ hinv i j hi hj⟩
      · cases h

/-- the columns that are not free -/
def keepCols (m : BMat) (colList : List Nat) : List Nat := (List.range m.c).filter fun j => !colList.contains j

/-- a solution that vanishes on the free columns vanishes everywhere (the pivot-column matrix is invertible) -/
theorem zero_of_free_zero (m : BMat) (colList : List Nat) (ainv : BMat) (w : Nat → Bool)
    (hinv : gf2Inv (deleteCols m colList) = .ok ainv) (hsol : SolF m w)
    (hfree : ∀ j, j < m.c → colList.contains j = true → w j = false) : ∀ j, j < m.c → w j = false := by
  obtain ⟨hsq, hI⟩ := gf2Inv_spec _ _ hinv
  have hr : (deleteCols m colList).r = m.r := rfl
  have hc : (deleteCols m colList).c = (keepCols m colList).length := rfl
  have hf : ∀ i k, (deleteCols m colList).f i k = m.f i ((keepCols m colList).getD k 0) := fun _ _ => rfl
  have hk : m.r = (keepCols m colList).length := by rw [← hr, hsq, hc]
  -- the restriction of w to the kept columns is annihilated by the square matrix
  have hA : ∀ i, i < m.r → parityTo m.r (fun t => (deleteCols m colList).f i t && w ((keepCols m colList).getD t 0)) = false := by
    intro i hi
    have h0 := hsol i hi
    unfold rowDot at h0
    have e : ∀ j, j < m.c → (m.f i j && w j) = ((!colList.contains j) && (m.f i j && w j)) := by
      intro j hj
      by_cases hcj : colList.contains j = true
      · rw [hfree j hj hcj]; simp
      · have : colList.contains j = false := by simpa using hcj
        rw [this]; simp
    rw [parityTo_congr m.c _ _ e, parityTo_filter] at h0
    rw [hk]
    exact h0
  -- hence it is zero
  have hw' : ∀ t0, t0 < m.r → w ((keepCols m colList).getD t0 0) = false := by
    intro t0 ht0
    have e1 : w ((keepCols m colList).getD t0 0) =
        parityTo m.r (fun t => decide (t = t0) && w ((keepCols m colList).getD t 0)) := by
      rw [parityTo_single m.r t0 _ ht0]
    rw [e1]
    have e2 : ∀ t, t < m.r → (decide (t = t0) && w ((keepCols m colList).getD t 0)) =
        parityTo m.r (fun l => ainv.f t0 l && ((deleteCols m colList).f l t && w ((keepCols m colList).getD t 0))) := by
      intro t ht
      have := (hI t0 t (by rw [hr]; exact ht0) (by rw [hr]; exact ht)).1
      rw [hr] at this
      unfold matMul at this
      have e3 : (parityTo m.r fun l => ainv.f t0 l && ((deleteCols m colList).f l t && w ((keepCols m colList).getD t 0))) =
          (parityTo m.r (fun l => ainv.f t0 l && (deleteCols m colList).f l t) && w ((keepCols m colList).getD t 0)) := by
        rw [← parityTo_const_and]
        apply parityTo_congr
        intro l _
        rw [Bool.and_assoc]
      rw [e3, this]
      by_cases e : t = t0
      · subst e; simp
      · have e' : ¬ t0 = t := fun x => e x.symm
        simp [e, e']
    rw [parityTo_congr m.r _ _ e2, parityTo_comm]
    apply parityTo_zero
    intro l hl
    rw [parityTo_and_const, hA l hl]; simp
  intro j hj
  by_cases hcj : colList.contains j = true
  · exact hfree j hj hcj
  · have hm : j ∈ keepCols m colList := by
      simp only [keepCols, List.mem_filter, List.mem_range]
      exact ⟨hj, by simpa using hcj⟩
    obtain ⟨t, ht, e⟩ := List.getElem_of_mem hm
    have : (keepCols m colList).getD t 0 = j := by simp [List.getD, List.getElem?_eq_getElem ht, e]
    rw [← this]
    exact hw' t (by rw [hk]; exact ht)


theorem isValidClifford_congr (n : Nat) (u v : List Bool) (h : ∀ j, j < 4 * n → vget u j = vget v j) :
    isValidClifford n u = isValidClifford n v := by
  unfold isValidClifford
  rw [Bool.eq_iff_iff, List.all_eq_true, List.all_eq_true]
  constructor
  · intro hh i hi
    have hi' : i < n := List.mem_range.mp hi
    rw [← h (4 * i) (by omega), ← h (4 * i + 1) (by omega), ← h (4 * i + 2) (by omega), ← h (4 * i + 3) (by omega)]
    exact hh i hi
  · intro hh i hi
    have hi' : i < n := List.mem_range.mp hi
    rw [h (4 * i) (by omega), h (4 * i + 1) (by omega), h (4 * i + 2) (by omega), h (4 * i + 3) (by omega)]
    exact hh i hi

theorem solutionBasisFinder_shape (m : BMat) (colList : List Nat) (basis : List (List Bool))
    (e : solutionBasisFinder m colList = .ok basis) :
    ∃ ainv, gf2Inv (deleteCols m colList) = .ok ainv ∧
      basis = (List.range colList.length).map (fun i => basisVec m colList ainv i) ∧
      (0 < colList.length → m.r + colList.length = m.c) := by
  unfold solutionBasisFinder at e
  split at e
  · cases e
  · rename_i hshape
    split at e
    · cases e
    · rename_i ainv hinv
      simp only [] at e
      split at e
      · cases e
        refine ⟨ainv, hinv, rfl, fun hL => ?_⟩
        by_cases h : m.r + colList.length = m.c
        · exact h
        · exact absurd ⟨hL, h⟩ hshape
      · cases e

theorem basisVec_unit (m : BMat) (colList : List Nat) (ainv : BMat) (hs : SortedBelow colList m.c)
    (hshape : m.r + colList.length = m.c) (s t : Nat) (ht : t < colList.length) :
    vget (basisVec m colList ainv s) (colList.getD t 0) = decide (s = t) := by
  unfold basisVec
  simp only []
  have := splice_unit ((List.range m.r).map fun k => parityTo m.r fun l => ainv.f k l && m.f l (colList.getD s 0))
    colList s m.c hs (by simp; omega) colList.length (Nat.le_refl _)
  exact this.2 t ht

/-- if no combination of the basis vectors is a valid Clifford, no solution of the system is -/
theorem small_search_exhaustive (m : BMat) (colList : List Nat) (basis : List (List Bool)) (n : Nat)
    (hc : m.c = 4 * n) (hL : 0 < colList.length) (hs : SortedBelow colList m.c)
    (eb : solutionBasisFinder m colList = .ok basis)
    (hnone : ∀ c ∈ allCoefs basis.length, isValidClifford n (lin (4 * n) basis c) = false)
    (v : List Bool) (hv : SolF m (vget v)) : isValidClifford n v = false := by
  obtain ⟨ainv, hinv, hbasis, hshape⟩ := solutionBasisFinder_shape m colList basis eb
  have hshape' := hshape hL
  have hgood := solutionBasisFinder_good m colList basis eb
  have hlen : basis.length = colList.length := by rw [hbasis]; simp
  -- the coefficients: the values of v on the free columns
  let coef : List Bool := (List.range colList.length).map fun t => vget v (colList.getD t 0)
  have hcl : coef.length = basis.length := by simp [coef, hlen]
  have hmem : coef ∈ allCoefs basis.length := by rw [← hcl]; exact allCoefs_complete coef
  have hcoef : ∀ s, s < colList.length → vget coef s = vget v (colList.getD s 0) := by
    intro s hs'
    simp [coef, vget, List.getD, hs']
  have hbget : ∀ s, s < colList.length → basis.getD s [] = basisVec m colList ainv s := by
    intro s hs'
    rw [hbasis]
    simp [List.getD, hs']
  have hu := goodVec_lin m basis coef hgood
  rw [hc] at hu
  -- the difference vanishes on the free columns
  have hfree : ∀ j, j < m.c → colList.contains j = true →
      xor (vget v j) (vget (lin (4 * n) basis coef) j) = false := by
    intro j _ hcj
    have hm : j ∈ colList := by simpa using hcj
    obtain ⟨t, ht, e⟩ := List.getElem_of_mem hm
    have ej : colList.getD t 0 = j := by simp [List.getD, List.getElem?_eq_getElem ht, e]
    rw [lin_vget (4 * n) basis coef j hcl (fun b hb => by rw [(hgood b hb).1, hc]), hlen]
    have e1 : ∀ s, s < colList.length → (vget coef s && vget (basis.getD s []) j) = (decide (s = t) && vget v j) := by
      intro s hs'
      rw [hcoef s hs', hbget s hs', ← ej, basisVec_unit m colList ainv hs hshape' s t ht]
      by_cases e2 : s = t
      · subst e2; simp
      · simp [e2]
    rw [parityTo_congr _ _ _ e1, parityTo_single _ t _ ht]
    simp
  have hsolw : SolF m (fun j => xor (vget v j) (vget (lin (4 * n) basis coef) j)) := solF_xor m _ _ hv hu.2
  have hz := zero_of_free_zero m colList ainv _ hinv hsolw hfree
  have heq : ∀ j, j < 4 * n → vget (lin (4 * n) basis coef) j = vget v j := by
    intro j hj
    have := hz j (by rw [hc]; exact hj)
    revert this
    cases vget v j <;> cases vget (lin (4 * n) basis coef) j <;> simp
  rw [← isValidClifford_congr n _ _ heq]
  exact hnone coef hmem


/-- **for a solution space of dimension ≤ 4 the search is exhaustive**: when `is_lc_equivalent` answers `no` on the
    all-combinations path, *no* solution of the linear system has all blocks invertible -/
theorem isLcEquivalent_no_small (a b : BMat) (mode : Mode) (draws : List Bool) (out : EqOut)
    (hn : 0 < a.r) (e : isLcEquivalent a b mode draws = .ok out) (hsol : out.sol = none)
    (hp : out.path = "all-combinations") (v : List Bool) (hv : SolF (coeffMaker a.r a.f b.f) (vget v)) :
    isValidClifford a.r v = false := by
  unfold isLcEquivalent at e
  simp only [] at e
  split at e
  · cases e
  · split at e
    · cases e; simp at hp
    · rename_i hrank
      split at e
      · cases e
      · split at e
        · cases e
        · rename_i hcl
          have hred := fun v => reduced_sol a.r a.f b.f v hn
          have hc := (hred (vget v)).1
          split at e
          · cases e
          · rename_i basis eb
            split at e
            · split at e
              · cases e; simp at hsol
              · rename_i hfind
                have hL : 0 < (colFinder (selectRows (rowReduction (coeffMaker a.r a.f b.f).norm
                    { r := (coeffMaker a.r a.f b.f).norm.r, c := (coeffMaker a.r a.f b.f).norm.c, f := fun _ _ => false }).1
                    (nonzeroRows (rowReduction (coeffMaker a.r a.f b.f).norm
                    { r := (coeffMaker a.r a.f b.f).norm.r, c := (coeffMaker a.r a.f b.f).norm.c, f := fun _ _ => false }).1)).norm).length := by
                  simp only [ne_eq, Decidable.not_not] at hcl
                  omega
                apply small_search_exhaustive _ _ basis a.r hc hL (colFinder_sorted _ (by rw [hc]; omega)) eb _ v
                  ((hred (vget v)).2.mpr hv)
                intro c hc'
                have := List.find?_eq_none.mp hfind c hc'
                simpa using this
            · split at e
              · split at e
                · cases e
                · cases e; simp at hp
              · split at e
                · cases e; simp at hsol
                · cases e; simp at hp
              · cases e


/-! ### soundness of `_vec_solution_finder` (mode = "random") -/

theorem vget_map_range (c : Nat) (f : Nat → Bool) (j : Nat) (hj : j < c) : vget ((List.range c).map f) j = f j := by
  simp [vget, List.getD, hj]

theorem keepCols_nodup (m : BMat) (colList : List Nat) : (keepCols m colList).Nodup :=
  List.Nodup.sublist List.filter_sublist List.nodup_range

theorem findIdx_keep (l : List Nat) (hn : l.Nodup) (k : Nat) (hk : k < l.length) :
    l.findIdx? (· == l.getD k 0) = some k := by
  have hget : l.getD k 0 = l[k] := by simp [List.getD, List.getElem?_eq_getElem hk]
  rw [hget, List.findIdx?_eq_some_iff_getElem]
  refine ⟨hk, by simp, fun j hj => ?_⟩
  have hjl : j < l.length := by omega
  have : l[j] ≠ l[k] := fun e => by
    have := (List.getElem_inj hn).mp e
    omega
  simpa using this

theorem findIdx_none_of_not_mem (l : List Nat) (j : Nat) (h : j ∉ l) : l.findIdx? (· == j) = none := by
  rw [List.findIdx?_eq_none_iff]
  intro x hx
  have : x ≠ j := fun e => h (e ▸ hx)
  simpa using this

/-- `_vec_solution_finder` returns a solution of the reduced system, whatever the random free coordinates were -/
theorem vecSolutionFinder_sound (m : BMat) (colList : List Nat) (bits s : List Bool)
    (e : vecSolutionFinder m colList bits = .ok s) : s.length = m.c ∧ SolF m (vget s) := by
  unfold vecSolutionFinder at e
  simp only [] at e
  split at e
  · cases e
  · rename_i ainv hinv
    injection e with e
    obtain ⟨hsq, hI⟩ := gf2Inv_spec _ _ hinv
    have hr : (deleteCols m colList).r = m.r := rfl
    have hc : (deleteCols m colList).c = (keepCols m colList).length := rfl
    have hk : m.r = (keepCols m colList).length := by rw [← hr, hsq, hc]
    refine ⟨by rw [← e]; simp, ?_⟩
    -- names for the intermediate vectors
    generalize hvar : ((List.range m.c).map fun j =>
        match colList.findIdx? (· == j) with
        | some k => bits.getD k false
        | none => false) = var at e
    generalize hb : ((List.range m.r).map fun i => dotRow m i var) = b at e
    generalize hx : ((List.range (deleteCols m colList).r).map fun k =>
        parityTo (deleteCols m colList).r fun l => ainv.f k l && vget b l) = x at e
    have hkeep : ((List.range m.c).filter fun j => !colList.contains j) = keepCols m colList := rfl
    rw [hkeep] at e
    -- entries of the returned vector
    have hs_free : ∀ j, j < m.c → colList.contains j = true → vget s j = vget var j := by
      intro j hj hcj
      rw [← e, vget_map_range m.c _ j hj]
      have : j ∉ keepCols m colList := by
        simp only [keepCols, List.mem_filter, List.mem_range, not_and]
        intro _; rw [hcj]; simp
      rw [findIdx_none_of_not_mem _ j this]
    have hs_keep : ∀ k, k < (keepCols m colList).length → vget s ((keepCols m colList).getD k 0) = vget x k := by
      intro k hkk
      have hmem : (keepCols m colList).getD k 0 ∈ keepCols m colList := by
        simp [List.getD, List.getElem?_eq_getElem hkk]
      have hlt : (keepCols m colList).getD k 0 < m.c := by
        simp only [keepCols, List.mem_filter, List.mem_range] at hmem; exact hmem.1
      rw [← e, vget_map_range m.c _ _ hlt, findIdx_keep _ (keepCols_nodup m colList) k hkk]
    have hvar_keep : ∀ j, j < m.c → colList.contains j = false → vget var j = false := by
      intro j hj hcj
      rw [← hvar, vget_map_range m.c _ j hj]
      have : j ∉ colList := by simpa using hcj
      rw [findIdx_none_of_not_mem _ j this]
    have hbi : ∀ i, i < m.r → vget b i = rowDot m i (vget var) := by
      intro i hi
      rw [← hb, vget_map_range m.r _ i hi]; rfl
    have hxk : ∀ k, k < m.r → vget x k = parityTo m.r fun l => ainv.f k l && vget b l := by
      intro k hkk
      rw [← hx, hr, vget_map_range m.r _ k hkk]
    intro i hi
    unfold rowDot
    -- split the row sum into kept and free columns
    have esplit : ∀ j, j < m.c → (m.f i j && vget s j) =
        xor ((!colList.contains j) && (m.f i j && vget s j)) (m.f i j && vget var j) := by
      intro j hj
      by_cases hcj : colList.contains j = true
      · rw [hs_free j hj hcj, hcj]; simp
      · have hcj' : colList.contains j = false := by simpa using hcj
        rw [hvar_keep j hj hcj', hcj']; simp
    rw [parityTo_congr m.c _ _ esplit, parityTo_xor, parityTo_filter]
    have hfree : (parityTo m.c fun j => m.f i j && vget var j) = vget b i := by rw [hbi i hi]; rfl
    rw [hfree]
    -- the kept part is A (A⁻¹ b) = b
    have hkept : (parityTo ((List.range m.c).filter fun j => !colList.contains j).length fun k =>
        m.f i (((List.range m.c).filter fun j => !colList.contains j).getD k 0) &&
          vget s (((List.range m.c).filter fun j => !colList.contains j).getD k 0)) = vget b i := by
      show (parityTo (keepCols m colList).length fun k => m.f i ((keepCols m colList).getD k 0) && vget s ((keepCols m colList).getD k 0)) = _
      rw [← hk]
      have e1 : ∀ k, k < m.r → (m.f i ((keepCols m colList).getD k 0) && vget s ((keepCols m colList).getD k 0)) =
          parityTo m.r (fun l => (deleteCols m colList).f i k && ainv.f k l && vget b l) := by
        intro k hkk
        rw [hs_keep k (by rw [← hk]; exact hkk), hxk k hkk, ← parityTo_and_const]
        apply parityTo_congr
        intro l _
        rw [Bool.and_assoc]; rfl
      rw [parityTo_congr m.r _ _ e1, parityTo_comm]
      have e2 : ∀ l, l < m.r → (parityTo m.r fun k => (deleteCols m colList).f i k && ainv.f k l && vget b l) =
          (decide (l = i) && vget b l) := by
        intro l hl
        rw [parityTo_const_and]
        have := (hI i l (by rw [hr]; exact hi) (by rw [hr]; exact hl)).2
        rw [hr] at this
        unfold matMul at this
        rw [this]
        by_cases e : i = l
        · subst e; simp
        · have e' : ¬ l = i := fun x => e x.symm
          simp [e, e']
      rw [parityTo_congr m.r _ _ e2, parityTo_single m.r i _ hi]
    rw [hkept]
    cases vget b i <;> rfl


theorem randomChecker_sound (n : Nat) (m : BMat) (colList : List Nat) (ts : List (List Bool)) (k k' : Nat) (s : List Bool)
    (e : randomChecker n m colList ts k = .ok (some s, k')) :
    s.length = m.c ∧ SolF m (vget s) ∧ isValidClifford n s = true := by
  induction ts generalizing k with
  | nil => simp [randomChecker] at e
  | cons t rest ih =>
    simp only [randomChecker] at e
    split at e
    · cases e
    · rename_i s1 e1
      split at e
      · rename_i hv
        injection e with e
        injection e with e2 _
        injection e2 with e2
        rw [← e2]
        obtain ⟨h1, h2⟩ := vecSolutionFinder_sound m colList t s1 e1
        exact ⟨h1, h2, hv⟩
      · exact ih (k + 1) e

/-- **soundness of every `yes`, all modes** (all combinations, pair sums, and the random search whatever the draws):
    the returned `Q` has the right length, solves the linear system, and every 2×2 block is invertible -/
theorem isLcEquivalent_sound_all (a b : BMat) (mode : Mode) (draws : List Bool) (out : EqOut) (q : List Bool)
    (hn : 0 < a.r) (e : isLcEquivalent a b mode draws = .ok out) (hq : out.sol = some q) :
    q.length = 4 * a.r ∧ SolF (coeffMaker a.r a.f b.f) (vget q) ∧ isValidClifford a.r q = true := by
  by_cases hp : out.path = "random"
  · unfold isLcEquivalent at e
    simp only [] at e
    split at e
    · cases e
    · split at e
      · cases e; simp at hp
      · split at e
        · cases e
        · split at e
          · cases e
          · have hred := fun v => reduced_sol a.r a.f b.f v hn
            have hc := (hred (vget q)).1
            split at e
            · cases e
            · split at e
              · split at e
                · cases e; simp at hp
                · cases e; simp at hp
              · split at e
                · split at e
                  · cases e
                  · rename_i sol k er
                    cases e
                    simp only [] at hq
                    rw [hq] at er
                    obtain ⟨h1, h2, h3⟩ := randomChecker_sound _ _ _ _ _ _ q er
                    exact ⟨h1.trans hc, (hred _).2.mp h2, h3⟩
                · split at e
                  · cases e; simp at hp
                  · cases e; simp at hp
                · cases e
  · exact isLcEquivalent_sound a b mode draws out q hn e hq hp


/-! ### the echelon structure produced by `row_reduction`, and the full-rank shortcut -/

/-- rows `0..k-1` carry pivots at strictly increasing columns below `bound`; every pivot column is zero below its pivot -/
structure Piv (x : BMat) (k bound : Nat) (piv : Nat → Nat) : Prop where
  one : ∀ i, i < k → x.f i (piv i) = true
  below : ∀ i i', i < k → i < i' → i' < x.r → x.f i' (piv i) = false
  incr : ∀ i i', i < i' → i' < k → piv i < piv i'
  bound : ∀ i, i < k → piv i < bound

theorem Piv.weaken {x : BMat} {k b b' : Nat} {piv : Nat → Nat} (h : Piv x k b piv) (hb : b ≤ b') : Piv x k b' piv :=
  ⟨h.one, h.below, h.incr, fun i hi => Nat.lt_of_lt_of_le (h.bound i hi) hb⟩

theorem foldAdd_entry (m : BMat) (pr : Nat) (rest : List Nat) (i j : Nat) (hn : rest.Nodup) (hpr : pr ∉ rest) :
    (rest.foldl (fun acc t => addRows acc pr t) m).f i j = if i ∈ rest then xor (m.f pr j) (m.f i j) else m.f i j := by
  induction rest generalizing m with
  | nil => simp
  | cons t rest' ih =>
    have hnt : t ∉ rest' := (List.nodup_cons.mp hn).1
    have hprt : pr ≠ t := fun e => hpr (by simp [e])
    have hpr' : pr ∉ rest' := fun e => hpr (List.mem_cons_of_mem _ e)
    simp only [List.foldl_cons]
    rw [ih (addRows m pr t) (List.nodup_cons.mp hn).2 hpr']
    have e1 : (addRows m pr t).f pr j = m.f pr j := by simp [addRows, hprt]
    rw [e1]
    by_cases hit : i = t
    · subst hit
      simp [hnt, addRows]
    · have : (addRows m pr t).f i j = m.f i j := by simp [addRows, hit]
      rw [this]
      simp [hit]

/-- membership in `the_ones` -/
theorem mem_theOnes (m : BMat) (lo c i : Nat) : i ∈ theOnes m lo c ↔ i < m.r ∧ lo ≤ i ∧ m.f i c = true := by
  simp [theOnes, List.mem_filter]

/-- swapping the first 1 into the pivot row and clearing the others creates a new pivot and keeps the old ones -/
theorem eliminate_piv (x : BMat) (pr pc o : Nat) (rest : List Nat) (piv : Nat → Nat) (hP : Piv x pr pc piv)
    (ho : theOnes x pr pc = o :: rest) (hpr : pr < x.r) (hpc : pc < x.c) :
    Piv (eliminate x pr o rest) (pr + 1) (pc + 1) (fun i => if i = pr then pc else piv i) := by
  obtain ⟨ho1, ho2, ho3⟩ := theOnes_spec x pr pc o rest ho
  have hsorted : (o :: rest).Pairwise (· < ·) := by rw [← ho]; exact List.Pairwise.filter _ List.pairwise_lt_range
  have hnd : rest.Nodup := by
    have := (List.pairwise_cons.mp hsorted).2
    exact this.imp (fun h => Nat.ne_of_lt h)
  have hprn : pr ∉ rest := fun h => by have := ho3 pr h; omega
  have hon : o ∉ rest := fun h => by have := ho3 o h; omega
  have hxo : x.f o pc = true := ((mem_theOnes x pr pc o).mp (by rw [ho]; simp)).2.2
  -- entry of the eliminated matrix
  have hent : ∀ i j, i < x.r → j < x.c → (eliminate x pr o rest).f i j =
      if i ∈ rest then xor ((rowSwap x o pr).f pr j) ((rowSwap x o pr).f i j) else (rowSwap x o pr).f i j := by
    intro i j hi hj
    unfold eliminate
    rw [BMat.norm_agree _ i j (by rw [(foldAdd_dims _ pr rest).1]; exact hi) (by rw [(foldAdd_dims _ pr rest).2]; exact hj)]
    exact foldAdd_entry _ pr rest i j hnd hprn
  have hswap : ∀ i j, (rowSwap x o pr).f i j = if i = o then x.f pr j else if i = pr then x.f o j else x.f i j := fun _ _ => rfl
  -- rows above the pivot row are untouched
  have habove : ∀ i j, i < pr → j < x.c → (eliminate x pr o rest).f i j = x.f i j := by
    intro i j hi hj
    rw [hent i j (by omega) hj]
    have h1 : i ∉ rest := fun h => by have := ho3 i h; omega
    rw [if_neg h1, hswap]
    have h2 : i ≠ o := by omega
    have h3 : i ≠ pr := by omega
    simp [h2, h3]
  -- an old pivot column stays zero from the pivot row downwards
  have hold : ∀ q, q < x.c → (∀ i', pr ≤ i' → i' < x.r → x.f i' q = false) →
      ∀ i', pr ≤ i' → i' < x.r → (eliminate x pr o rest).f i' q = false := by
    intro q hq hz i' h1 h2
    have hs : ∀ i'', pr ≤ i'' → i'' < x.r → (rowSwap x o pr).f i'' q = false := by
      intro i'' h3 h4
      rw [hswap]
      split
      · exact hz pr (Nat.le_refl _) hpr
      · split
        · exact hz o ho2 ho1
        · exact hz i'' h3 h4
    rw [hent i' q h2 hq]
    split
    · rw [hs pr (Nat.le_refl _) hpr, hs i' h1 h2]; rfl
    · exact hs i' h1 h2
  refine ⟨?_, ?_, ?_, ?_⟩
  · intro i hi
    by_cases e : i = pr
    · subst e
      simp only [if_true]
      rw [hent i pc hpr hpc, if_neg hprn, hswap]
      by_cases e2 : i = o
      · subst e2; simp [hxo]
      · simp [e2, hxo]
    · simp only [e, if_false]
      have hi' : i < pr := by omega
      rw [habove i (piv i) hi' (Nat.lt_trans (hP.bound i hi') hpc)]
      exact hP.one i hi'
  · intro i i' hi hii' hi'r
    have hr' : (eliminate x pr o rest).r = x.r := (eliminate_dims x pr o rest).1
    rw [hr'] at hi'r
    by_cases e : i = pr
    · subst e
      simp only [if_true]
      -- the new pivot column below the pivot
      rw [hent i' pc hi'r hpc]
      by_cases hm : i' ∈ rest
      · rw [if_pos hm]
        have h1 : i' ≠ o := fun e => hon (e ▸ hm)
        have h2 : i' ≠ i := by omega
        have hx : x.f i' pc = true := ((mem_theOnes x i pc i').mp (by rw [ho]; exact List.mem_cons_of_mem _ hm)).2.2
        rw [hswap, hswap]
        by_cases e2 : i = o
        · subst e2; simp [h1, hxo, hx]
        · simp [e2, h1, h2, hxo, hx]
      · rw [if_neg hm, hswap]
        by_cases e2 : i' = o
        · subst e2
          simp only [if_true]
          -- o ≠ pr here, so the old pivot-row entry is 0
          have hne : i ≠ i' := by omega
          by_cases hx : x.f i pc = true
          · have : i ∈ theOnes x i pc := (mem_theOnes x i pc i).mpr ⟨hpr, Nat.le_refl _, hx⟩
            rw [ho] at this
            rcases List.mem_cons.mp this with h | h
            · exact absurd h hne
            · have := ho3 i h; omega
          · simpa using hx
        · have h2 : i' ≠ i := by omega
          simp only [e2, h2, if_false]
          by_cases hx : x.f i' pc = true
          · have : i' ∈ theOnes x i pc := (mem_theOnes x i pc i').mpr ⟨hi'r, by omega, hx⟩
            rw [ho] at this
            rcases List.mem_cons.mp this with h | h
            · exact absurd h e2
            · exact absurd h hm
          · simpa using hx
    · simp only [e, if_false]
      have hi' : i < pr := by omega
      have hq : piv i < x.c := Nat.lt_trans (hP.bound i hi') hpc
      by_cases h3 : i' < pr
      · rw [habove i' (piv i) h3 hq]
        exact hP.below i i' hi' hii' (by omega)
      · exact hold (piv i) hq (fun i'' h4 h5 => hP.below i i'' hi' (by omega) h5) i' (by omega) hi'r
  · intro i i' hii' hi'
    by_cases e : i' = pr
    · have e1 : i ≠ pr := by omega
      simp only [e, e1, if_true, if_false]
      exact hP.bound i (by omega)
    · have e1 : i ≠ pr := by omega
      simp only [e, e1, if_false]
      exact hP.incr i i' hii' (by omega)
  · intro i hi
    by_cases e : i = pr
    · simp [e]
    · simp only [e, if_false]
      have := hP.bound i (by omega); omega


/-- the state reached when the row reduction stops: `last + 1` pivot rows -/
def FinalPiv (res : BMat × BMat × Int) : Prop :=
  ∃ piv, Piv res.1 (res.2.2 + 1).toNat res.1.c piv ∧ (res.2.2 + 1).toNat ≤ res.1.r

theorem rowReductionLoop_piv (fuel : Nat) (x z : BMat) (pr pc : Nat) (piv : Nat → Nat) (hpr : pr < x.r) (hpc : pc < x.c)
    (hf : x.c ≤ pc + fuel) (hP : Piv x pr pc piv) : FinalPiv (rowReductionLoop fuel x z pr pc) := by
  induction fuel generalizing x z pr pc piv with
  | zero => omega
  | succ f ih =>
    simp only [rowReductionLoop]
    unfold rowRedOneStep
    split
    · -- last column
      rename_i hlast
      split
      · -- nothing below: the pivot rows are 0..pr-1
        simp only [Bool.false_eq_true, if_false]
        refine ⟨piv, ?_, ?_⟩
        · have : ((pr : Int) - 1 + 1).toNat = pr := by omega
          show Piv x ((pr : Int) - 1 + 1).toNat x.c piv
          rw [this]; exact hP.weaken (by omega)
        · show ((pr : Int) - 1 + 1).toNat ≤ x.r
          omega
      · rename_i o rest ho
        simp only [Bool.false_eq_true, if_false]
        have hE := eliminate_piv x pr pc o rest piv hP ho hpr hpc
        have hd := eliminate_dims x pr o rest
        refine ⟨fun i => if i = pr then pc else piv i, ?_, ?_⟩
        · show Piv (eliminate x pr o rest) ((pr : Int) + 1).toNat (eliminate x pr o rest).c _
          have : ((pr : Int) + 1).toNat = pr + 1 := by omega
          rw [this, hd.2]
          exact hE.weaken (by omega)
        · show ((pr : Int) + 1).toNat ≤ (eliminate x pr o rest).r
          rw [hd.1]; omega
    · rename_i hnl
      split
      · -- last row
        rename_i hlr
        split
        · rename_i hx
          simp only [Bool.false_eq_true, if_false]
          refine ⟨fun i => if i = pr then pc else piv i, ?_, ?_⟩
          · show Piv x ((pr : Int) + 1).toNat x.c _
            have : ((pr : Int) + 1).toNat = pr + 1 := by omega
            rw [this]
            refine ⟨?_, ?_, ?_, ?_⟩
            · intro i hi
              by_cases e : i = pr
              · subst e; simpa using hx
              · simp only [e, if_false]; exact hP.one i (by omega)
            · intro i i' hi hii' hi'r
              by_cases e : i = pr
              · omega
              · simp only [e, if_false]; exact hP.below i i' (by omega) hii' hi'r
            · intro i i' hii' hi'
              by_cases e : i' = pr
              · have e1 : i ≠ pr := by omega
                simp only [e, e1, if_true, if_false]
                exact hP.bound i (by omega)
              · have e1 : i ≠ pr := by omega
                simp only [e, e1, if_false]
                exact hP.incr i i' hii' (by omega)
            · intro i hi
              by_cases e : i = pr
              · simp [e]; exact hpc
              · simp only [e, if_false]
                have := hP.bound i (by omega); omega
          · show ((pr : Int) + 1).toNat ≤ x.r
            omega
        · simp only [if_true]
          exact ih x z (Int.toNat pr) (pc + 1) piv (by simpa using hpr) (by omega) (by omega)
            (by simpa using hP.weaken (Nat.le_succ pc))
      · split
        · simp only [if_true]
          exact ih x z (Int.toNat pr) (pc + 1) piv (by simpa using hpr) (by omega) (by omega)
            (by simpa using hP.weaken (Nat.le_succ pc))
        · rename_i hnr o rest ho
          simp only [if_true]
          have hE := eliminate_piv x pr pc o rest piv hP ho hpr hpc
          have hd := eliminate_dims x pr o rest
          have e1 : ((pr : Int) + 1).toNat = pr + 1 := by omega
          apply ih (eliminate x pr o rest) (eliminate z pr o rest) ((pr : Int) + 1).toNat (pc + 1) _
          · rw [e1, hd.1]; omega
          · rw [hd.2]; omega
          · rw [hd.2]; omega
          · rw [e1]; exact hE

theorem rowReduction_piv (x z : BMat) (hr : 0 < x.r) (hc : 0 < x.c) : FinalPiv (rowReduction x z) :=
  rowReductionLoop_piv x.c x z 0 0 (fun i => i) hr hc (by omega)
    ⟨fun i hi => by omega, fun i _ hi => by omega, fun i i' _ hi' => by omega, fun i hi => by omega⟩


theorem piv_ge (x : BMat) (k b : Nat) (piv : Nat → Nat) (h : Piv x k b piv) (i : Nat) (hi : i < k) : i ≤ piv i := by
  induction i with
  | zero => omega
  | succ i ih =>
    have := h.incr i (i + 1) (by omega) hi
    have := ih (by omega)
    omega

theorem piv_add (x : BMat) (k b : Nat) (piv : Nat → Nat) (h : Piv x k b piv) (i d : Nat) (hi : i + d < k) :
    piv i + d ≤ piv (i + d) := by
  induction d with
  | zero => simp
  | succ d ih =>
    have h1 := ih (by omega)
    have h2 := h.incr (i + d) (i + d + 1) (by omega) (by omega)
    have : i + (d + 1) = i + d + 1 := by omega
    rw [this]; omega

/-- as many pivots as columns: the pivots sit on the diagonal -/
theorem piv_diag (x : BMat) (k : Nat) (piv : Nat → Nat) (h : Piv x k x.c piv) (hk : x.c ≤ k) (i : Nat) (hi : i < x.c) :
    piv i = i := by
  have h1 := piv_ge x k x.c piv h i (by omega)
  have h2 := piv_add x k x.c piv h i (x.c - 1 - i) (by omega)
  have h3 := h.bound (i + (x.c - 1 - i)) (by omega)
  omega

theorem parityTo_single_lt (n q : Nat) (f : Nat → Bool) (hq : q < n) (h : ∀ j, j < n → j ≠ q → f j = false) :
    parityTo n f = f q := by
  rw [← parityTo_single n q f hq]
  apply parityTo_congr
  intro j hj
  by_cases e : j = q
  · subst e; simp
  · simp [e, h j hj e]

/-- **full column rank: the only solution is zero** -/
theorem full_rank_zero (x : BMat) (k : Nat) (piv : Nat → Nat) (h : Piv x k x.c piv) (hk : x.c ≤ k) (hkr : k ≤ x.r)
    (v : Nat → Bool) (hv : SolF x v) : ∀ j, j < x.c → v j = false := by
  have hd := piv_diag x k piv h hk
  -- back substitution from the last column
  have key : ∀ d, ∀ j, x.c ≤ j + d → j < x.c → v j = false := by
    intro d
    induction d with
    | zero => intro j h1 h2; omega
    | succ d ih =>
      intro j h1 h2
      have hrow := hv j (by omega)
      unfold rowDot at hrow
      rw [parityTo_single_lt x.c j _ h2] at hrow
      · have hjj : x.f j j = true := by
          have := h.one j (by omega)
          rw [hd j h2] at this; exact this
        rw [hjj] at hrow; simpa using hrow
      · intro l hlc hl
        by_cases hlt : l < j
        · -- below the pivot of column l
          have := h.below l j (by omega) hlt (by omega)
          rw [hd l (by omega)] at this
          rw [this]; simp
        · rw [ih l (by omega) hlc]; simp
  intro j hj
  exact key x.c j (by omega) hj


theorem isValidClifford_zero (n : Nat) (hn : 0 < n) (v : List Bool) (hz : ∀ j, j < 4 * n → vget v j = false) :
    isValidClifford n v = false := by
  unfold isValidClifford
  rw [List.all_eq_false]
  refine ⟨0, List.mem_range.mpr hn, ?_⟩
  rw [hz 0 (by omega), hz 1 (by omega), hz 2 (by omega), hz 3 (by omega)]
  simp

/-- **the full-rank shortcut is right**: when `is_lc_equivalent` answers `no` because the reduced coefficient matrix has
    rank `4 n`, the zero vector is the only solution of the system, so no valid `Q` exists -/
theorem isLcEquivalent_no_fullrank (a b : BMat) (mode : Mode) (draws : List Bool) (out : EqOut)
    (hn : 0 < a.r) (e : isLcEquivalent a b mode draws = .ok out) (hp : out.path = "full-rank") (v : List Bool)
    (hv : SolF (coeffMaker a.r a.f b.f) (vget v)) : isValidClifford a.r v = false := by
  unfold isLcEquivalent at e
  simp only [] at e
  split at e
  · cases e
  · split at e
    · rename_i hrank
      -- the echelon structure of the reduced matrix
      have hr : 0 < (coeffMaker a.r a.f b.f).norm.r := Nat.mul_pos hn hn
      have hc : 0 < (coeffMaker a.r a.f b.f).norm.c := by show 0 < 4 * a.r; omega
      obtain ⟨piv, hP, hkr⟩ := rowReduction_piv (coeffMaker a.r a.f b.f).norm
        { r := (coeffMaker a.r a.f b.f).norm.r, c := (coeffMaker a.r a.f b.f).norm.c, f := fun _ _ => false } hr hc
      obtain ⟨h1, h2, h3⟩ := rowReduction_spec (coeffMaker a.r a.f b.f).norm
        { r := (coeffMaker a.r a.f b.f).norm.r, c := (coeffMaker a.r a.f b.f).norm.c, f := fun _ _ => false } (vget v) hr
      have hc4 : (rowReduction (coeffMaker a.r a.f b.f).norm
          { r := (coeffMaker a.r a.f b.f).norm.r, c := (coeffMaker a.r a.f b.f).norm.c, f := fun _ _ => false }).1.c = 4 * a.r := by
        rw [h2]; rfl
      have hsol := h3.mpr ((solF_norm _ _).mpr hv)
      apply isValidClifford_zero a.r hn v
      intro j hj
      apply full_rank_zero _ _ piv hP _ hkr (vget v) hsol j (by rw [hc4]; exact hj)
      rw [hc4]
      omega
    · split at e
      · cases e
      · split at e
        · cases e
        · split at e
          · cases e
          · split at e
            · split at e <;> (cases e; simp at hp)
            · split at e
              · split at e
                · cases e
                · cases e; simp at hp
              · split at e <;> (cases e; simp at hp)
              · cases e


/-! ### one local complementation is realised by an explicit local Clifford (the easy direction of Van den Nest's theorem, one step) -/

/-- the solution vector for `A → localComp A v`: the block `[[1,0],[1,1]]` at `v`, `[[1,1],[0,1]]` at the neighbours of `v`,
    the identity elsewhere -/
def lcQ (A : Adj) (v : Nat) (idx : Nat) : Bool :=
  if idx % 4 = 1 then A v (idx / 4) else if idx % 4 = 2 then decide (idx / 4 = v) else true

theorem lcQ_0 (A : Adj) (v m : Nat) : lcQ A v (4 * m) = true := by
  unfold lcQ; rw [if_neg (by omega), if_neg (by omega)]
theorem lcQ_1 (A : Adj) (v m : Nat) : lcQ A v (4 * m + 1) = A v m := by
  unfold lcQ; rw [if_pos (by omega)]; congr 1; omega
theorem lcQ_2 (A : Adj) (v m : Nat) : lcQ A v (4 * m + 2) = decide (m = v) := by
  unfold lcQ; rw [if_neg (by omega), if_pos (by omega)]
  have : (4 * m + 2) / 4 = m := by omega
  rw [this]
theorem lcQ_3 (A : Adj) (v m : Nat) : lcQ A v (4 * m + 3) = true := by
  unfold lcQ; rw [if_neg (by omega), if_neg (by omega)]

theorem lcQ_solves (n : Nat) (A : Adj) (v : Nat) (hv : v < n) (hA : Simple n A) (j k : Nat) (hj : j < n) (hk : k < n) :
    equation n A (localComp A v) (lcQ A v) j k = false := by
  unfold equation
  have e2 := lcQ_2 A v
  rw [lcQ_0, lcQ_1, lcQ_3]
  have hsum : (parityTo n fun m => A m j && localComp A v m k && lcQ A v (4 * m + 2)) = (A v j && localComp A v v k) := by
    have : ∀ m, m < n → (A m j && localComp A v m k && lcQ A v (4 * m + 2)) = (decide (m = v) && (A m j && localComp A v m k)) := by
      intro m _; rw [e2 m]; cases A m j <;> cases localComp A v m k <;> cases decide (m = v) <;> rfl
    rw [parityTo_congr n _ _ this, parityTo_single n v _ hv]
  rw [hsum]
  have hvv : A v v = false := hA.2 v hv
  have hvk : localComp A v v k = A v k := by
    unfold localComp
    by_cases e : v = k
    · subst e; simp [hvv]
    · simp [e, hvv]
  rw [hvk]
  unfold localComp
  by_cases e : j = k
  · subst e
    simp [hA.2 j hj]
  · simp only [e, if_false, decide_false, Bool.false_and]
    rw [hA.1 j v hj hv]
    cases A v j <;> cases A v k <;> cases A j k <;> rfl

theorem lcQ_valid (n : Nat) (A : Adj) (v : Nat) (hv : v < n) (hA : Simple n A) :
    isValidClifford n ((List.range (4 * n)).map (lcQ A v)) = true := by
  unfold isValidClifford
  rw [List.all_eq_true]
  intro i hi
  have hi' : i < n := List.mem_range.mp hi
  rw [vget_map_range (4 * n) _ (4 * i) (by omega), vget_map_range (4 * n) _ (4 * i + 1) (by omega),
    vget_map_range (4 * n) _ (4 * i + 2) (by omega), vget_map_range (4 * n) _ (4 * i + 3) (by omega)]
  rw [lcQ_0, lcQ_1, lcQ_2, lcQ_3]
  simp only [Bool.true_and]
  by_cases e : i = v
  · subst e; simp [hA.2 i hi']
  · simp [e]


/-! ### LC-equivalent graphs admit a valid `Q` (the elementary direction of Van den Nest's theorem) -/

/-- a linear functional of a pair of vectors -/
def linfun (n : Nat) (E F z x : Nat → Bool) : Bool := parityTo n fun m => xor (E m && z m) (F m && x m)

/-- coefficients of `⟨Q (z; x), s_k(C)⟩` -/
def coefE (C : Adj) (q : Nat → Bool) (k m : Nat) : Bool := xor (decide (m = k) && q (4 * k)) (C k m && q (4 * m + 2))
def coefF (C : Adj) (q : Nat → Bool) (k m : Nat) : Bool := xor (decide (m = k) && q (4 * k + 1)) (C k m && q (4 * m + 3))

/-- equation `(j, k)` is `⟨Q s_j(A), s_k(C)⟩` -/
theorem equation_linfun (n : Nat) (A C : Adj) (q : Nat → Bool) (j k : Nat) (hA : Simple n A) (hC : Simple n C)
    (hj : j < n) (hk : k < n) :
    equation n A C q j k = linfun n (coefE C q k) (coefF C q k) (fun m => A m j) (fun m => decide (m = j)) := by
  unfold equation linfun coefE coefF
  have e : ∀ m, m < n →
      xor ((xor (decide (m = k) && q (4 * k)) (C k m && q (4 * m + 2))) && A m j)
          ((xor (decide (m = k) && q (4 * k + 1)) (C k m && q (4 * m + 3))) && decide (m = j)) =
      xor (xor (A m j && C m k && q (4 * m + 2)) (decide (m = k) && (A j k && q (4 * k))))
          (xor (decide (m = j) && (C j k && q (4 * j + 3))) (decide (m = k) && (decide (j = k) && q (4 * j + 1)))) := by
    intro m hm
    rw [hC.1 k m hk hm]
    by_cases e1 : m = k <;> by_cases e2 : m = j
    · subst e1; subst e2; simp
      cases A m m <;> cases C m m <;> cases q (4 * m) <;> cases q (4 * m + 1) <;> cases q (4 * m + 2) <;> cases q (4 * m + 3) <;> rfl
    · subst e1
      have e3 : ¬ j = m := fun e => e2 e.symm
      simp [e2, e3]
      rw [hA.1 j m hj hm]
      cases A m j <;> cases C m m <;> cases q (4 * m) <;> cases q (4 * m + 2) <;> rfl
    · subst e2
      simp [e1]
      cases A m m <;> cases C m k <;> cases q (4 * m + 2) <;> cases q (4 * m + 3) <;> rfl
    · simp [e1, e2]
      cases A m j <;> cases C m k <;> cases q (4 * m + 2) <;> rfl
  rw [parityTo_congr n _ _ e, parityTo_xor, parityTo_xor, parityTo_xor, parityTo_single n k _ hk, parityTo_single n j _ hj,
    parityTo_single n k _ hk]

/-- linearity of `linfun` in the pair of vectors -/
theorem linfun_linear (n : Nat) (E F : Nat → Bool) (w : Nat → Bool) (Z X : Nat → Nat → Bool) :
    linfun n E F (fun m => parityTo n fun l => w l && Z l m) (fun m => parityTo n fun l => w l && X l m) =
      parityTo n fun l => w l && linfun n E F (Z l) (X l) := by
  unfold linfun
  have e1 : ∀ m, m < n →
      xor (E m && parityTo n fun l => w l && Z l m) (F m && parityTo n fun l => w l && X l m) =
      parityTo n fun l => w l && xor (E m && Z l m) (F m && X l m) := by
    intro m _
    rw [← parityTo_and_const, ← parityTo_and_const, ← parityTo_xor]
    apply parityTo_congr
    intro l _
    cases E m <;> cases F m <;> cases w l <;> cases Z l m <;> cases X l m <;> rfl
  rw [parityTo_congr n _ _ e1, parityTo_comm]
  apply parityTo_congr
  intro l _
  rw [parityTo_and_const]


/-- blockwise product `Q₂ Q₁` of two local symplectic maps given as solution vectors -/
def qComp (q2 q1 : Nat → Bool) (idx : Nat) : Bool :=
  if idx % 4 = 0 then xor (q2 (4 * (idx / 4)) && q1 (4 * (idx / 4))) (q2 (4 * (idx / 4) + 1) && q1 (4 * (idx / 4) + 2))
  else if idx % 4 = 1 then xor (q2 (4 * (idx / 4)) && q1 (4 * (idx / 4) + 1)) (q2 (4 * (idx / 4) + 1) && q1 (4 * (idx / 4) + 3))
  else if idx % 4 = 2 then xor (q2 (4 * (idx / 4) + 2) && q1 (4 * (idx / 4))) (q2 (4 * (idx / 4) + 3) && q1 (4 * (idx / 4) + 2))
  else xor (q2 (4 * (idx / 4) + 2) && q1 (4 * (idx / 4) + 1)) (q2 (4 * (idx / 4) + 3) && q1 (4 * (idx / 4) + 3))

theorem qComp_0 (q2 q1 : Nat → Bool) (m : Nat) :
    qComp q2 q1 (4 * m) = xor (q2 (4 * m) && q1 (4 * m)) (q2 (4 * m + 1) && q1 (4 * m + 2)) := by
  unfold qComp
  have h : 4 * m / 4 = m := by omega
  rw [if_pos (by omega), h]
theorem qComp_1 (q2 q1 : Nat → Bool) (m : Nat) :
    qComp q2 q1 (4 * m + 1) = xor (q2 (4 * m) && q1 (4 * m + 1)) (q2 (4 * m + 1) && q1 (4 * m + 3)) := by
  unfold qComp
  have h : (4 * m + 1) / 4 = m := by omega
  rw [if_neg (by omega), if_pos (by omega), h]
theorem qComp_2 (q2 q1 : Nat → Bool) (m : Nat) :
    qComp q2 q1 (4 * m + 2) = xor (q2 (4 * m + 2) && q1 (4 * m)) (q2 (4 * m + 3) && q1 (4 * m + 2)) := by
  unfold qComp
  have h : (4 * m + 2) / 4 = m := by omega
  rw [if_neg (by omega), if_neg (by omega), if_pos (by omega), h]
theorem qComp_3 (q2 q1 : Nat → Bool) (m : Nat) :
    qComp q2 q1 (4 * m + 3) = xor (q2 (4 * m + 2) && q1 (4 * m + 1)) (q2 (4 * m + 3) && q1 (4 * m + 3)) := by
  unfold qComp
  have h : (4 * m + 3) / 4 = m := by omega
  rw [if_neg (by omega), if_neg (by omega), if_neg (by omega), h]

/-- determinant of block `m` -/
def detQ (q : Nat → Bool) (m : Nat) : Bool := xor (q (4 * m) && q (4 * m + 3)) (q (4 * m + 1) && q (4 * m + 2))

theorem detQ_comp (q2 q1 : Nat → Bool) (m : Nat) : detQ (qComp q2 q1) m = (detQ q2 m && detQ q1 m) := by
  unfold detQ
  rw [qComp_0, qComp_1, qComp_2, qComp_3]
  cases q2 (4 * m) <;> cases q2 (4 * m + 1) <;> cases q2 (4 * m + 2) <;> cases q2 (4 * m + 3) <;>
    cases q1 (4 * m) <;> cases q1 (4 * m + 1) <;> cases q1 (4 * m + 2) <;> cases q1 (4 * m + 3) <;> rfl

/-- image `Q s_j(A)` of a graph-state generator: `(z', x')` -/
def imgZ (A : Adj) (q : Nat → Bool) (j m : Nat) : Bool := xor (q (4 * m) && A m j) (q (4 * m + 1) && decide (m = j))
def imgX (A : Adj) (q : Nat → Bool) (j m : Nat) : Bool := xor (q (4 * m + 2) && A m j) (q (4 * m + 3) && decide (m = j))

/-- `⟨Q₂Q₁ s_j(A), s_k(C)⟩ = ⟨Q₂ (Q₁ s_j(A)), s_k(C)⟩` -/
theorem equation_comp (n : Nat) (A C : Adj) (q2 q1 : Nat → Bool) (j k : Nat) (hA : Simple n A) (hC : Simple n C)
    (hj : j < n) (hk : k < n) :
    equation n A C (qComp q2 q1) j k = linfun n (coefE C q2 k) (coefF C q2 k) (imgZ A q1 j) (imgX A q1 j) := by
  rw [equation_linfun n A C _ j k hA hC hj hk]
  unfold linfun
  apply parityTo_congr
  intro m _
  unfold coefE coefF imgZ imgX
  rw [qComp_0, qComp_1, qComp_2, qComp_3]
  by_cases e1 : m = k
  · subst e1
    by_cases e2 : m = j
    · subst e2; simp
      cases q2 (4 * m) <;> cases q2 (4 * m + 1) <;> cases q2 (4 * m + 2) <;> cases q2 (4 * m + 3) <;>
        cases q1 (4 * m) <;> cases q1 (4 * m + 1) <;> cases q1 (4 * m + 2) <;> cases q1 (4 * m + 3) <;>
        cases A m m <;> cases C m m <;> rfl
    · simp [e2]
      cases q2 (4 * m) <;> cases q2 (4 * m + 1) <;> cases q2 (4 * m + 2) <;> cases q2 (4 * m + 3) <;>
        cases q1 (4 * m) <;> cases q1 (4 * m + 2) <;> cases A m j <;> cases C m m <;> rfl
  · by_cases e2 : m = j
    · subst e2; simp [e1]
      cases q2 (4 * m + 2) <;> cases q2 (4 * m + 3) <;>
        cases q1 (4 * m) <;> cases q1 (4 * m + 1) <;> cases q1 (4 * m + 2) <;> cases q1 (4 * m + 3) <;>
        cases A m m <;> cases C k m <;> rfl
    · simp [e1, e2]
      cases q2 (4 * m + 2) <;> cases q2 (4 * m + 3) <;> cases q1 (4 * m) <;> cases q1 (4 * m + 2) <;>
        cases A m j <;> cases C k m <;> rfl

/-- if `Q₁` solves the system for `(A, B)` then `Q₁ s_j(A)` lies in the span of the generators of `B`: `z' = θ_B x'` -/
theorem img_in_span (n : Nat) (A B : Adj) (q1 : Nat → Bool) (j k : Nat) (hA : Simple n A) (hB : Simple n B)
    (hj : j < n) (hk : k < n) (h : equation n A B q1 j k = false) :
    imgZ A q1 j k = parityTo n fun l => imgX A q1 j l && B l k := by
  rw [equation_linfun n A B q1 j k hA hB hj hk] at h
  unfold linfun at h
  have e : ∀ m, m < n →
      xor (coefE B q1 k m && A m j) (coefF B q1 k m && decide (m = j)) =
      xor (decide (m = k) && imgZ A q1 j k) (imgX A q1 j m && B m k) := by
    intro m hm
    unfold coefE coefF imgZ imgX
    rw [hB.1 k m hk hm]
    by_cases e1 : m = k
    · subst e1
      cases q1 (4 * m) <;> cases q1 (4 * m + 1) <;> cases q1 (4 * m + 2) <;> cases q1 (4 * m + 3) <;>
        cases A m j <;> cases B m m <;> cases decide (m = j) <;> simp
    · simp [e1]
      cases q1 (4 * m + 2) <;> cases q1 (4 * m + 3) <;> cases A m j <;> cases B m k <;> cases decide (m = j) <;> rfl
  rw [parityTo_congr n _ _ e, parityTo_xor, parityTo_single n k _ hk] at h
  revert h
  cases imgZ A q1 j k <;> cases parityTo n (fun l => imgX A q1 j l && B l k) <;> simp

/-- **composition**: if `Q₁` solves the system for `(A, B)` and `Q₂` for `(B, C)` then `Q₂Q₁` solves it for `(A, C)` -/
theorem equation_trans (n : Nat) (A B C : Adj) (q1 q2 : Nat → Bool) (hA : Simple n A) (hB : Simple n B) (hC : Simple n C)
    (h1 : ∀ j k, j < n → k < n → equation n A B q1 j k = false)
    (h2 : ∀ j k, j < n → k < n → equation n B C q2 j k = false) (j k : Nat) (hj : j < n) (hk : k < n) :
    equation n A C (qComp q2 q1) j k = false := by
  rw [equation_comp n A C q2 q1 j k hA hC hj hk]
  -- write (z', x') as a combination of the generators of B with coefficients x'
  have hz : ∀ m, m < n → imgZ A q1 j m = parityTo n fun l => imgX A q1 j l && B m l := by
    intro m hm
    rw [img_in_span n A B q1 j m hA hB hj hm (h1 j m hj hm)]
    apply parityTo_congr
    intro l hl
    rw [hB.1 l m hl hm]
  have hx : ∀ m, m < n → imgX A q1 j m = parityTo n fun l => imgX A q1 j l && decide (m = l) := by
    intro m hm
    have : ∀ l, l < n → (imgX A q1 j l && decide (m = l)) = (decide (l = m) && imgX A q1 j l) := by
      intro l _
      by_cases e : l = m
      · subst e; simp
      · have e' : ¬ m = l := fun x => e x.symm
        simp [e, e']
    rw [parityTo_congr n _ _ this, parityTo_single n m _ hm]
  have hcong : linfun n (coefE C q2 k) (coefF C q2 k) (imgZ A q1 j) (imgX A q1 j) =
      linfun n (coefE C q2 k) (coefF C q2 k) (fun m => parityTo n fun l => imgX A q1 j l && B m l)
        (fun m => parityTo n fun l => imgX A q1 j l && decide (m = l)) := by
    unfold linfun
    apply parityTo_congr
    intro m hm
    show xor (coefE C q2 k m && imgZ A q1 j m) (coefF C q2 k m && imgX A q1 j m) =
      xor (coefE C q2 k m && parityTo n fun l => imgX A q1 j l && B m l)
          (coefF C q2 k m && parityTo n fun l => imgX A q1 j l && decide (m = l))
    rw [← hz m hm, ← hx m hm]
  rw [hcong, linfun_linear n _ _ (imgX A q1 j) (fun l m => B m l) (fun l m => decide (m = l))]
  apply parityTo_zero
  intro l hl
  rw [← equation_linfun n B C q2 l k hB hC hl hk, h2 l k hl hk]
  simp


/-- the identity `Q` -/
def qId (idx : Nat) : Bool := decide (idx % 4 = 0 ∨ idx % 4 = 3)

theorem qId_vals (m : Nat) : qId (4 * m) = true ∧ qId (4 * m + 1) = false ∧ qId (4 * m + 2) = false ∧ qId (4 * m + 3) = true := by
  unfold qId
  refine ⟨?_, ?_, ?_, ?_⟩ <;> (first | (apply decide_eq_true; omega) | (apply decide_eq_false; omega))

theorem equation_id (n : Nat) (A : Adj) (j k : Nat) : equation n A A qId j k = false := by
  unfold equation
  rw [(qId_vals k).1, (qId_vals j).2.2.2, (qId_vals j).2.1]
  have : (parityTo n fun m => A m j && A m k && qId (4 * m + 2)) = false := by
    apply parityTo_zero
    intro m _
    rw [(qId_vals m).2.2.1]; simp
  rw [this]
  cases A j k <;> simp

theorem detQ_id (m : Nat) : detQ qId m = true := by
  unfold detQ
  rw [(qId_vals m).1, (qId_vals m).2.1, (qId_vals m).2.2.1, (qId_vals m).2.2.2]; rfl

theorem detQ_lcQ (n : Nat) (A : Adj) (v : Nat) (hv : v < n) (hA : Simple n A) (m : Nat) : detQ (lcQ A v) m = true := by
  unfold detQ
  rw [lcQ_0, lcQ_1, lcQ_2, lcQ_3]
  by_cases e : m = v
  · subst e; simp [hA.2 m hv]
  · simp [e]

theorem equation_congr_right (n : Nat) (A B B' : Adj) (q : Nat → Bool) (j k : Nat) (hj : j < n) (hk : k < n)
    (h : EqAdj n B B') : equation n A B q j k = equation n A B' q j k := by
  unfold equation
  rw [h j k hj hk]
  congr 2
  apply parityTo_congr
  intro m hm
  rw [h m k hm hk]

/-- **every graph in the LC orbit of `A` is reached by a valid local Clifford**: for every sequence of local
    complementations there is a `Q` with invertible blocks solving the system for `(A, applySeq A vs)` -/
theorem orbit_has_valid_Q (n : Nat) (A : Adj) (vs : List Nat) (hA : Simple n A) (hvs : ∀ v ∈ vs, v < n) :
    ∃ q : Nat → Bool, (∀ j k, j < n → k < n → equation n A (applySeq A vs) q j k = false) ∧ ∀ m, detQ q m = true := by
  induction vs generalizing A with
  | nil => exact ⟨qId, fun j k _ _ => equation_id n A j k, detQ_id⟩
  | cons v rest ih =>
    have hv : v < n := hvs v (by simp)
    have hA1 : Simple n (localComp A v) := localComp_simple n A v hv hA
    obtain ⟨q2, h2, d2⟩ := ih (localComp A v) hA1 (fun w hw => hvs w (List.mem_cons_of_mem _ hw))
    refine ⟨qComp q2 (lcQ A v), ?_, fun m => ?_⟩
    · intro j k hj hk
      show equation n A (applySeq (localComp A v) rest) (qComp q2 (lcQ A v)) j k = false
      exact equation_trans n A (localComp A v) _ (lcQ A v) q2 hA hA1
        (applySeq_simple n _ rest hA1 (fun w hw => hvs w (List.mem_cons_of_mem _ hw)))
        (fun j k hj hk => lcQ_solves n A v hv hA j k hj hk) h2 j k hj hk
    · rw [detQ_comp, d2 m, detQ_lcQ n A v hv hA m]; rfl

theorem equation_congr_q (n : Nat) (A B : Adj) (q q' : Nat → Bool) (j k : Nat) (hj : j < n) (hk : k < n)
    (h : ∀ i, i < 4 * n → q i = q' i) : equation n A B q j k = equation n A B q' j k := by
  unfold equation
  rw [h (4 * k) (by omega), h (4 * j + 3) (by omega), h (4 * j + 1) (by omega)]
  congr 2
  apply parityTo_congr
  intro m hm
  rw [h (4 * m + 2) (by omega)]

/-- list form: a valid `Q` as the implementation would return it -/
theorem same_orbit_has_valid_Q_list (n : Nat) (A B : Adj) (vs : List Nat) (hA : Simple n A) (hvs : ∀ v ∈ vs, v < n)
    (hB : EqAdj n (applySeq A vs) B) :
    ∃ v : List Bool, (∀ j k, j < n → k < n → equation n A B (vget v) j k = false) ∧ isValidClifford n v = true := by
  obtain ⟨q, h1, h2⟩ := orbit_has_valid_Q n A vs hA hvs
  refine ⟨(List.range (4 * n)).map q, ?_, ?_⟩
  · intro j k hj hk
    rw [equation_congr_q n A B _ q j k hj hk (fun i hi => vget_map_range (4 * n) q i hi),
      ← equation_congr_right n A _ B q j k hj hk hB]
    exact h1 j k hj hk
  · unfold isValidClifford
    rw [List.all_eq_true]
    intro i hi
    have hi' : i < n := List.mem_range.mp hi
    rw [vget_map_range (4 * n) _ (4 * i) (by omega), vget_map_range (4 * n) _ (4 * i + 1) (by omega),
      vget_map_range (4 * n) _ (4 * i + 2) (by omega), vget_map_range (4 * n) _ (4 * i + 3) (by omega)]
    exact h2 i


end Graphiq.LC
