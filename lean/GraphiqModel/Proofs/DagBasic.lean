/-
  DagBasic.lean — generic lemmas used by the circuit-DAG proofs: consecutive elements of a list (`Consec`),
  Python-dictionary helpers, acyclic relations (fresh-node insertion, contraction).
-/
import GraphiqModel.Model.Dag
import Mathlib.Logic.Relation
import Mathlib.Tactic.Tauto
set_option linter.unusedSectionVars false
set_option linter.unusedSimpArgs false
namespace Graphiq
open Relation

/-! ## consecutive elements -/

/-- `x` is immediately followed by `y` in `l` -/
def Consec {α : Type} : List α → α → α → Prop
  | a :: b :: rest, x, y => (a = x ∧ b = y) ∨ Consec (b :: rest) x y
  | _, _, _ => False

section Consec
variable {α : Type}

@[simp] theorem consec_nil (x y : α) : Consec ([] : List α) x y ↔ False := by simp [Consec]
@[simp] theorem consec_single (a x y : α) : Consec [a] x y ↔ False := by simp [Consec]
theorem consec_cons_cons (a b : α) (rest : List α) (x y : α) :
    Consec (a :: b :: rest) x y ↔ (a = x ∧ b = y) ∨ Consec (b :: rest) x y := by simp [Consec]

theorem Consec.mem {l : List α} {x y : α} (h : Consec l x y) : x ∈ l ∧ y ∈ l := by
  induction l with
  | nil => simp at h
  | cons a t ih =>
    cases t with
    | nil => simp at h
    | cons b rest =>
      rw [consec_cons_cons] at h
      rcases h with ⟨rfl, rfl⟩ | h
      · simp
      · have := ih h; exact ⟨List.mem_cons_of_mem _ this.1, List.mem_cons_of_mem _ this.2⟩

/-- pivot split: a consecutive pair of `l1 ++ a :: l2` lies in `l1 ++ [a]` or in `a :: l2` -/
theorem consec_append_cons (l1 : List α) (a : α) (l2 : List α) (x y : α) :
    Consec (l1 ++ a :: l2) x y ↔ Consec (l1 ++ [a]) x y ∨ Consec (a :: l2) x y := by
  induction l1 with
  | nil => simp
  | cons c t ih =>
    cases t with
    | nil =>
      simp only [List.cons_append, List.nil_append, consec_cons_cons, consec_single, or_false]
    | cons d t' =>
      simp only [List.cons_append, consec_cons_cons] at ih ⊢
      rw [ih]; tauto

theorem consec_cons_of_ne {a : α} {l : List α} {x y : α} (hx : x ≠ a) :
    Consec (a :: l) x y ↔ Consec l x y := by
  cases l with
  | nil => simp
  | cons b rest => rw [consec_cons_cons]; constructor
                   · rintro (⟨h, _⟩ | h); exact absurd h.symm hx; exact h
                   · exact Or.inr

/-- in a duplicate-free list the first element has no predecessor -/
theorem consec_head_no_pred {a : α} {l : List α} (hn : (a :: l).Nodup) {x : α} : ¬ Consec (a :: l) x a := by
  intro h
  cases l with
  | nil => simp at h
  | cons b rest =>
    rw [consec_cons_cons] at h
    rcases h with ⟨_, hb⟩ | h
    · simp [hb] at hn
    · have := h.mem.2
      exact (List.nodup_cons.mp hn).1 this

theorem consec_succ_unique {l : List α} (hn : l.Nodup) {x y y' : α} (h : Consec l x y) (h' : Consec l x y') : y = y' := by
  induction l with
  | nil => simp at h
  | cons a t ih =>
    cases t with
    | nil => simp at h
    | cons b rest =>
      rw [consec_cons_cons] at h h'
      have hn' := (List.nodup_cons.mp hn)
      rcases h with ⟨rfl, rfl⟩ | h
      · rcases h' with ⟨_, rfl⟩ | h'
        · rfl
        · exact absurd h'.mem.1 hn'.1
      · rcases h' with ⟨rfl, rfl⟩ | h'
        · exact absurd h.mem.1 hn'.1
        · exact ih hn'.2 h h'

theorem consec_pred_unique {l : List α} (hn : l.Nodup) {x x' y : α} (h : Consec l x y) (h' : Consec l x' y) : x = x' := by
  induction l with
  | nil => simp at h
  | cons a t ih =>
    cases t with
    | nil => simp at h
    | cons b rest =>
      rw [consec_cons_cons] at h h'
      have hn' := (List.nodup_cons.mp hn)
      rcases h with ⟨rfl, rfl⟩ | h
      · rcases h' with ⟨rfl, _⟩ | h'
        · rfl
        · exact absurd h' (consec_head_no_pred hn'.2)
      · rcases h' with ⟨rfl, rfl⟩ | h'
        · exact absurd h (consec_head_no_pred hn'.2)
        · exact ih hn'.2 h h'

theorem Consec.ne {l : List α} (hn : l.Nodup) {x y : α} (h : Consec l x y) : x ≠ y := by
  induction l with
  | nil => simp at h
  | cons a t ih =>
    cases t with
    | nil => simp at h
    | cons b rest =>
      rw [consec_cons_cons] at h
      have hn' := (List.nodup_cons.mp hn)
      rcases h with ⟨rfl, rfl⟩ | h
      · intro e; subst e; simp at hn
      · exact ih hn'.2 h

/-- decomposition of a consecutive pair -/
theorem consec_iff_append {l : List α} {x y : α} : Consec l x y ↔ ∃ l1 l2, l = l1 ++ x :: y :: l2 := by
  constructor
  · intro h
    induction l with
    | nil => simp at h
    | cons a t ih =>
      cases t with
      | nil => simp at h
      | cons b rest =>
        rw [consec_cons_cons] at h
        rcases h with ⟨rfl, rfl⟩ | h
        · exact ⟨[], rest, rfl⟩
        · obtain ⟨l1, l2, e⟩ := ih h
          exact ⟨a :: l1, l2, by rw [e]; rfl⟩
  · rintro ⟨l1, l2, rfl⟩
    rw [consec_append_cons]; right; rw [consec_cons_cons]; left; exact ⟨rfl, rfl⟩

/-- every element but the last has a successor -/
theorem exists_succ_of_mem_append {l1 l2 : List α} {b x : α} (hx : x ∈ l1) : ∃ y, Consec (l1 ++ b :: l2) x y := by
  induction l1 with
  | nil => simp at hx
  | cons a t ih =>
    rcases List.mem_cons.mp hx with rfl | hx
    · cases t with
      | nil => exact ⟨b, by simp [consec_cons_cons]⟩
      | cons c t' => exact ⟨c, by simp [consec_cons_cons]⟩
    · obtain ⟨y, hy⟩ := ih hx
      refine ⟨y, ?_⟩
      cases t with
      | nil => simp at hx
      | cons c t' => simp only [List.cons_append, consec_cons_cons] at hy ⊢; exact Or.inr hy

/-- every element but the first has a predecessor -/
theorem exists_pred_of_mem {a : α} {l : List α} {y : α} (hy : y ∈ l) : ∃ x, Consec (a :: l) x y := by
  induction l generalizing a with
  | nil => simp at hy
  | cons b t ih =>
    rcases List.mem_cons.mp hy with rfl | hy
    · exact ⟨a, by simp [consec_cons_cons]⟩
    · obtain ⟨x, hx⟩ := ih (a := b) hy
      exact ⟨x, by rw [consec_cons_cons]; exact Or.inr hx⟩

/-- the last element has no successor -/
theorem consec_last_no_succ {l : List α} {b : α} (hn : (l ++ [b]).Nodup) {y : α} : ¬ Consec (l ++ [b]) b y := by
  induction l with
  | nil => simp
  | cons a t ih =>
    intro h
    have hn' : (a :: (t ++ [b])).Nodup := by simpa using hn
    have hab : a ≠ b := by
      intro e; subst e
      have := (List.nodup_cons.mp hn').1
      simp at this
    rw [List.cons_append, consec_cons_of_ne (Ne.symm hab)] at h
    exact ih (List.nodup_cons.mp hn').2 h

end Consec

theorem nodup_map_of_inj {α β : Type} {f : α → β} (hf : ∀ a b, f a = f b → a = b) {l : List α} (h : l.Nodup) :
    (l.map f).Nodup := by
  induction l with
  | nil => simp
  | cons a t ih =>
    have hnd := List.nodup_cons.mp h
    rw [List.map_cons, List.nodup_cons]
    refine ⟨?_, ih hnd.2⟩
    intro hm
    obtain ⟨b, hb, e⟩ := List.mem_map.mp hm
    have := hf _ _ e
    subst this; exact hnd.1 hb

theorem nodup_map_of_inj_on {α β : Type} {f : α → β} {l : List α} (h : l.Nodup)
    (hf : ∀ a ∈ l, ∀ b ∈ l, f a = f b → a = b) : (l.map f).Nodup := by
  induction l with
  | nil => simp
  | cons a t ih =>
    have hnd := List.nodup_cons.mp h
    rw [List.map_cons, List.nodup_cons]
    refine ⟨?_, ih hnd.2 (fun x hx y hy => hf x (List.mem_cons_of_mem _ hx) y (List.mem_cons_of_mem _ hy))⟩
    intro hm
    obtain ⟨b, hb, e⟩ := List.mem_map.mp hm
    have := hf b (List.mem_cons_of_mem _ hb) a (by simp) e
    subst this; exact hnd.1 hb

/-! ## inserting after / erasing on duplicate-free lists -/

section ListEdit
variable {α : Type} [DecidableEq α]

/-- insert `n` right after the first occurrence of `u` -/
def insertAfter : List α → α → α → List α
  | [], _, _ => []
  | x :: xs, u, n => if x = u then x :: n :: xs else x :: insertAfter xs u n

theorem insertAfter_append {l1 l2 : List α} {u n : α} (h : u ∉ l1) :
    insertAfter (l1 ++ u :: l2) u n = l1 ++ u :: n :: l2 := by
  induction l1 with
  | nil => simp [insertAfter]
  | cons a t ih =>
    have ha : a ≠ u := fun e => h (by simp [e])
    have ht : u ∉ t := fun e => h (List.mem_cons_of_mem _ e)
    simp [insertAfter, ha, ih ht]

theorem erase_append_mid {l1 l2 : List α} {n : α} (h : n ∉ l1) : (l1 ++ n :: l2).erase n = l1 ++ l2 := by
  induction l1 with
  | nil => simp
  | cons a t ih =>
    have ha : a ≠ n := fun e => h (by simp [e])
    have ht : n ∉ t := fun e => h (List.mem_cons_of_mem _ e)
    simp [ha, ih ht]

/-- effect of inserting a fresh `n` between consecutive `u, v` -/
theorem consec_insertAfter {l : List α} (hn : l.Nodup) {u v n : α} (huv : Consec l u v) (hnl : n ∉ l) (x y : α) :
    Consec (insertAfter l u n) x y ↔ (Consec l x y ∧ ¬ (x = u ∧ y = v)) ∨ (x = u ∧ y = n) ∨ (x = n ∧ y = v) := by
  obtain ⟨l1, l2, rfl⟩ := consec_iff_append.mp huv
  have hu1 : u ∉ l1 := by
    intro h
    have := List.nodup_append.mp hn
    exact this.2.2 u h u (by simp) rfl
  rw [insertAfter_append hu1]
  have hnu : n ≠ u := fun e => hnl (by simp [e])
  have hnv : n ≠ v := fun e => hnl (by simp [e])
  rw [consec_append_cons, consec_append_cons l1 u (v :: l2), consec_cons_cons, consec_cons_cons, consec_cons_cons]
  -- facts from Nodup
  have hA : Consec (l1 ++ [u]) x y → ¬ (x = u ∧ y = v) := by
    rintro h ⟨rfl, rfl⟩
    have hnd : (l1 ++ [x]).Nodup := by
      have := hn
      rw [show l1 ++ x :: y :: l2 = (l1 ++ [x]) ++ (y :: l2) by simp] at this
      exact (List.nodup_append.mp this).1
    exact consec_last_no_succ hnd h
  have hB : Consec (v :: l2) x y → ¬ (x = u ∧ y = v) := by
    rintro h ⟨rfl, rfl⟩
    have hnd : (x :: y :: l2).Nodup := (List.nodup_append.mp hn).2.1
    exact (List.nodup_cons.mp hnd).1 h.mem.1
  constructor
  · rintro (h | ⟨rfl, rfl⟩ | ⟨rfl, rfl⟩ | h)
    · exact Or.inl ⟨Or.inl h, hA h⟩
    · exact Or.inr (Or.inl ⟨rfl, rfl⟩)
    · exact Or.inr (Or.inr ⟨rfl, rfl⟩)
    · exact Or.inl ⟨Or.inr (Or.inr h), hB h⟩
  · rintro (⟨h | ⟨rfl, rfl⟩ | h, hne⟩ | ⟨rfl, rfl⟩ | ⟨rfl, rfl⟩)
    · exact Or.inl h
    · exact absurd ⟨rfl, rfl⟩ hne
    · exact Or.inr (Or.inr (Or.inr h))
    · exact Or.inr (Or.inl ⟨rfl, rfl⟩)
    · exact Or.inr (Or.inr (Or.inl ⟨rfl, rfl⟩))

theorem insertAfter_nodup {l : List α} (hn : l.Nodup) {u n : α} (hnl : n ∉ l) : (insertAfter l u n).Nodup := by
  induction l with
  | nil => simp [insertAfter]
  | cons a t ih =>
    have hn' := List.nodup_cons.mp hn
    have hna : n ≠ a := fun e => hnl (by simp [e])
    have hnt : n ∉ t := fun e => hnl (List.mem_cons_of_mem _ e)
    unfold insertAfter
    split
    · refine List.nodup_cons.mpr ⟨?_, List.nodup_cons.mpr ⟨hnt, hn'.2⟩⟩
      simp [hn'.1, Ne.symm hna]
    · refine List.nodup_cons.mpr ⟨?_, ih hn'.2 hnt⟩
      intro h
      have : ∀ (l : List α), a ∈ insertAfter l u n → a ∈ l ∨ a = n := by
        intro l
        induction l with
        | nil => simp [insertAfter]
        | cons b t' ih' =>
          unfold insertAfter
          split
          · simp; tauto
          · simp; intro h; rcases h with h | h
            · exact Or.inl (Or.inl h)
            · rcases ih' h with h | h
              · exact Or.inl (Or.inr h)
              · exact Or.inr h
      rcases this t h with h | h
      · exact hn'.1 h
      · exact hna h.symm

theorem mem_insertAfter {l : List α} {u n x : α} (hu : u ∈ l) : x ∈ insertAfter l u n ↔ x ∈ l ∨ x = n := by
  induction l with
  | nil => simp at hu
  | cons a t ih =>
    unfold insertAfter
    split
    · simp; tauto
    · rename_i hne
      have hut : u ∈ t := by
        rcases List.mem_cons.mp hu with h | h
        · exact absurd h.symm hne
        · exact h
      simp [ih hut]; tauto

/-- effect of erasing `n` that sits between `a` and `b` -/
theorem consec_erase {l : List α} (hn : l.Nodup) {a n b : α} (han : Consec l a n) (hnb : Consec l n b) (x y : α) :
    Consec (l.erase n) x y ↔ (Consec l x y ∧ x ≠ n ∧ y ≠ n) ∨ (x = a ∧ y = b) := by
  obtain ⟨l1, l2, rfl⟩ := consec_iff_append.mp han
  -- l = l1 ++ a :: n :: l2 and n is followed by b: l2 = b :: l2'
  have hsplit : (l1 ++ a :: n :: l2) = (l1 ++ [a]) ++ n :: l2 := by simp
  have hn1 : n ∉ l1 ++ [a] := by
    intro h
    rw [hsplit] at hn
    exact (List.nodup_append.mp hn).2.2 n h n (by simp) rfl
  have hl2 : ∃ l2', l2 = b :: l2' := by
    rw [consec_append_cons, consec_cons_cons] at hnb
    rcases hnb with h | ⟨e, _⟩ | h
    · exact absurd h.mem.1 (by
        intro hm
        have : n ∈ l1 ++ [a] := hm
        exact hn1 this)
    · exact absurd e (by
        intro e'; apply hn1; simp [e'])
    · cases l2 with
      | nil => simp at h
      | cons c l2' =>
        rw [consec_cons_cons] at h
        rcases h with ⟨_, rfl⟩ | h
        · exact ⟨l2', rfl⟩
        · exfalso
          have hnd : (n :: c :: l2').Nodup := by
            rw [hsplit] at hn; exact (List.nodup_append.mp hn).2.1
          exact (List.nodup_cons.mp hnd).1 h.mem.1
  obtain ⟨l2', rfl⟩ := hl2
  rw [hsplit, erase_append_mid hn1]
  have e1 : (l1 ++ [a]) ++ b :: l2' = l1 ++ a :: b :: l2' := by simp
  rw [e1, consec_append_cons, consec_cons_cons]
  have e2 : (l1 ++ [a]) ++ n :: b :: l2' = l1 ++ a :: n :: b :: l2' := by simp
  rw [e2, consec_append_cons l1 a (n :: b :: l2'), consec_cons_cons, consec_cons_cons]
  have hnd := hn
  rw [hsplit] at hnd
  have hndR : (n :: b :: l2').Nodup := (List.nodup_append.mp hnd).2.1
  have hnR : n ∉ b :: l2' := (List.nodup_cons.mp hndR).1
  have hA : Consec (l1 ++ [a]) x y → x ≠ n ∧ y ≠ n := by
    intro h
    exact ⟨fun e => hn1 (e ▸ h.mem.1), fun e => hn1 (e ▸ h.mem.2)⟩
  have hB : Consec (b :: l2') x y → x ≠ n ∧ y ≠ n := by
    intro h
    exact ⟨fun e => hnR (e ▸ h.mem.1), fun e => hnR (e ▸ h.mem.2)⟩
  constructor
  · rintro (h | ⟨rfl, rfl⟩ | h)
    · exact Or.inl ⟨Or.inl h, hA h⟩
    · exact Or.inr ⟨rfl, rfl⟩
    · exact Or.inl ⟨Or.inr (Or.inr (Or.inr h)), hB h⟩
  · rintro (⟨h | ⟨rfl, rfl⟩ | ⟨rfl, rfl⟩ | h, hx, hy⟩ | ⟨rfl, rfl⟩)
    · exact Or.inl h
    · exact absurd rfl hy
    · exact absurd rfl hx
    · exact Or.inr (Or.inr h)
    · exact Or.inr (Or.inl ⟨rfl, rfl⟩)

end ListEdit

/-! ## Python dictionaries -/

section Dict
variable {κ α : Type} [DecidableEq κ] [DecidableEq α]

theorem dictGet_dictAppend (d : List (κ × List α)) (k k' : κ) (v : α) :
    dictGet (dictAppend d k v) k' = if k' = k then dictGet d k ++ [v] else dictGet d k' := by
  induction d with
  | nil =>
    by_cases h : k' = k
    · subst h; simp [dictAppend, dictGet]
    · have h' : ¬ k = k' := fun e => h e.symm
      simp [dictAppend, dictGet, h, h']
  | cons p d ih =>
    obtain ⟨k0, l⟩ := p
    unfold dictAppend
    by_cases h0 : k0 = k
    · subst h0
      by_cases h : k' = k0
      · subst h; simp [dictGet]
      · have h' : ¬ k0 = k' := fun e => h e.symm
        simp [dictGet, h, h']
    · simp only [h0, if_false]
      by_cases h : k0 = k'
      · subst h
        have : ¬ k0 = k := h0
        simp [dictGet, this]
      · simp [dictGet, h, ih, h0]

theorem dictGet_dictRemove (d : List (κ × List α)) (k k' : κ) (v : α) :
    dictGet (dictRemove d k v) k' = if k' = k then (dictGet d k).erase v else dictGet d k' := by
  induction d with
  | nil => simp [dictRemove, dictGet]
  | cons p d ih =>
    obtain ⟨k0, l⟩ := p
    unfold dictRemove
    by_cases h0 : k0 = k
    · subst h0
      by_cases h : k' = k0
      · subst h; simp [dictGet]
      · have h' : ¬ k0 = k' := fun e => h e.symm
        simp [dictGet, h, h']
    · simp only [h0, if_false]
      by_cases h : k0 = k'
      · subst h
        have : ¬ k0 = k := h0
        simp [dictGet, this]
      · simp [dictGet, h, ih, h0]

omit [DecidableEq α] in
theorem dictHas_dictAppend (d : List (κ × List α)) (k k' : κ) (v : α) :
    dictHas (dictAppend d k v) k' = (dictHas d k' || decide (k' = k)) := by
  induction d with
  | nil =>
    by_cases h : k' = k
    · subst h; simp [dictAppend, dictHas]
    · have h' : ¬ k = k' := fun e => h e.symm
      simp [dictAppend, dictHas, h, h']
  | cons p d ih =>
    obtain ⟨k0, l⟩ := p
    unfold dictAppend
    by_cases h0 : k0 = k
    · subst h0
      by_cases h : k0 = k'
      · subst h; simp [dictHas]
      · have h' : ¬ k' = k0 := fun e => h e.symm
        simp [dictHas, h, h']
    · simp only [h0, if_false]
      by_cases h : k0 = k'
      · simp [dictHas, h]
      · simp [dictHas, h, ih]

theorem dictHas_dictRemove (d : List (κ × List α)) (k k' : κ) (v : α) :
    dictHas (dictRemove d k v) k' = dictHas d k' := by
  induction d with
  | nil => simp [dictRemove, dictHas]
  | cons p d ih =>
    obtain ⟨k0, l⟩ := p
    unfold dictRemove
    by_cases h0 : k0 = k
    · simp [h0, dictHas]
    · simp only [h0, if_false]
      by_cases h : k0 = k'
      · simp [dictHas, h]
      · simp [dictHas, h, ih]

theorem count_dictGet_dictAppend (d : List (κ × List α)) (k l : κ) (v m : α) :
    (dictGet (dictAppend d k v) l).count m = (dictGet d l).count m + (if l = k ∧ m = v then 1 else 0) := by
  rw [dictGet_dictAppend]
  by_cases h : l = k
  · subst h
    by_cases hm : m = v
    · subst hm; simp
    · have : ¬ v = m := fun e => hm e.symm
      simp [hm, this]
  · simp [h]

/-- counting in a dictionary entry after filing `n` under each key of `keys` -/
theorem count_dictGet_foldl_append (keys : List κ) (d : List (κ × List α)) (n m : α) (k' : κ) :
    (dictGet (keys.foldl (fun d k => dictAppend d k n) d) k').count m =
      (dictGet d k').count m + (if m = n then keys.count k' else 0) := by
  induction keys generalizing d with
  | nil => simp
  | cons k ks ih =>
    rw [List.foldl_cons, ih, dictGet_dictAppend]
    by_cases h : k' = k
    · subst h
      by_cases hm : m = n
      · subst hm; simp; omega
      · have : ¬ n = m := fun e => hm e.symm
        simp [hm, this]
    · have h' : ¬ k = k' := fun e => h e.symm
      simp [h, h']

/-- counting after un-filing `n` from under each key of `keys` (`list.remove` = first occurrence) -/
theorem count_dictGet_foldl_remove (keys : List κ) (d : List (κ × List α)) (n m : α) (k' : κ) :
    (dictGet (keys.foldl (fun d k => dictRemove d k n) d) k').count m =
      (dictGet d k').count m - (if m = n then keys.count k' else 0) := by
  induction keys generalizing d with
  | nil => simp
  | cons k ks ih =>
    rw [List.foldl_cons, ih, dictGet_dictRemove]
    by_cases h : k' = k
    · subst h
      by_cases hm : m = n
      · subst hm; simp; omega
      · have : ¬ n = m := fun e => hm e.symm
        simp [hm, this]
    · have h' : ¬ k = k' := fun e => h e.symm
      simp [h, h']

theorem dictHas_foldl_append (keys : List κ) (d : List (κ × List α)) (n : α) (k' : κ) :
    dictHas (keys.foldl (fun d k => dictAppend d k n) d) k' = (dictHas d k' || decide (k' ∈ keys)) := by
  induction keys generalizing d with
  | nil => simp
  | cons k ks ih =>
    rw [List.foldl_cons, ih, dictHas_dictAppend]
    by_cases h : k' = k <;> simp [h, Bool.or_assoc]

theorem dictHas_foldl_remove (keys : List κ) (d : List (κ × List α)) (n : α) (k' : κ) :
    dictHas (keys.foldl (fun d k => dictRemove d k n) d) k' = dictHas d k' := by
  induction keys generalizing d with
  | nil => simp
  | cons k ks ih => rw [List.foldl_cons, ih, dictHas_dictRemove]

end Dict

/-! ## acyclic relations -/

section Acyclic
variable {α : Type}

def AcyclicRel (E : α → α → Prop) : Prop := ∀ a, ¬ TransGen E a a

theorem AcyclicRel.mono {E E' : α → α → Prop} (h : AcyclicRel E) (sub : ∀ a b, E' a b → E a b) : AcyclicRel E' :=
  fun a haa => h a (TransGen.mono (fun x y hxy => sub x y hxy) a a haa)

/-- contraction: every new edge is an old path -/
theorem AcyclicRel.of_sub_transGen {E E' : α → α → Prop} (h : AcyclicRel E) (sub : ∀ a b, E' a b → TransGen E a b) :
    AcyclicRel E' := by
  intro a haa
  have : ∀ {x y}, TransGen E' x y → TransGen E x y := by
    intro x y hxy
    induction hxy with
    | single h1 => exact sub _ _ h1
    | tail _ h2 ih => exact ih.trans (sub _ _ h2)
  exact h a (this haa)

/-- the relation after adding a node `w` with in-neighbours `U` and out-neighbours `V` (old edges kept) -/
def InsRel (E : α → α → Prop) (w : α) (U V : α → Prop) : α → α → Prop :=
  fun a b => E a b ∨ (b = w ∧ U a) ∨ (a = w ∧ V b)

theorem insRel_path_from_old {E : α → α → Prop} {w : α} {U V : α → Prop}
    (hfresh : ∀ a, ¬ E a w ∧ ¬ E w a) {a b : α} (ha : a ≠ w) (h : TransGen (InsRel E w U V) a b) :
    (b ≠ w ∧ TransGen E a b) ∨ ∃ u, U u ∧ ReflTransGen E a u := by
  induction h with
  | single hab =>
    rcases hab with h | ⟨_, h⟩ | ⟨h, _⟩
    · left; exact ⟨fun hb => (hfresh a).1 (hb ▸ h), TransGen.single h⟩
    · right; exact ⟨a, h, ReflTransGen.refl⟩
    · exact absurd h ha
  | tail hac hcb ih =>
    rename_i c b'
    rcases ih with ⟨hc, hac'⟩ | h
    · rcases hcb with h | ⟨_, h⟩ | ⟨h, _⟩
      · left; exact ⟨fun hb => (hfresh c).1 (hb ▸ h), TransGen.tail hac' h⟩
      · right; exact ⟨c, h, hac'.to_reflTransGen⟩
      · exact absurd h hc
    · right; exact h

theorem insRel_through {E : α → α → Prop} {w : α} {U V : α → Prop} {a b : α}
    (h : TransGen (InsRel E w U V) a b) :
    TransGen E a b ∨ (ReflTransGen (InsRel E w U V) a w ∧ ReflTransGen (InsRel E w U V) w b) := by
  induction h with
  | single hab =>
    rcases hab with h | ⟨hb, h⟩ | ⟨ha, h⟩
    · left; exact TransGen.single h
    · right; subst hb; exact ⟨ReflTransGen.single (Or.inr (Or.inl ⟨rfl, h⟩)), ReflTransGen.refl⟩
    · right; subst ha; exact ⟨ReflTransGen.refl, ReflTransGen.single (Or.inr (Or.inr ⟨rfl, h⟩))⟩
  | tail hac hcb ih =>
    rcases ih with h | ⟨h1, h2⟩
    · rcases hcb with h' | ⟨hb, h'⟩ | ⟨hc, h'⟩
      · left; exact TransGen.tail h h'
      · right; subst hb
        exact ⟨hac.to_reflTransGen.tail (Or.inr (Or.inl ⟨rfl, h'⟩)), ReflTransGen.refl⟩
      · right; subst hc
        exact ⟨hac.to_reflTransGen, ReflTransGen.single (Or.inr (Or.inr ⟨rfl, h'⟩))⟩
    · right; exact ⟨h1, h2.tail hcb⟩

/-- **fresh-node insertion keeps acyclicity** iff no out-neighbour already reaches an in-neighbour:
    `E` acyclic, `w` fresh, no old path from any `v ∈ V` to any `u ∈ U`  ⟹  `E + U×{w} + {w}×V` acyclic -/
theorem AcyclicRel.insert_fresh {E : α → α → Prop} {w : α} {U V : α → Prop}
    (hE : AcyclicRel E) (hfresh : ∀ a, ¬ E a w ∧ ¬ E w a) (hU : ∀ u, U u → u ≠ w) (hV : ∀ v, V v → v ≠ w)
    (hno : ∀ u v, U u → V v → ¬ ReflTransGen E v u) : AcyclicRel (InsRel E w U V) := by
  have key : ∀ v, V v → ¬ TransGen (InsRel E w U V) v w := by
    intro v hv hvw
    rcases insRel_path_from_old hfresh (hV v hv) hvw with ⟨hne, _⟩ | ⟨u, hu, hvu⟩
    · exact hne rfl
    · exact hno u v hu hv hvu
  have nocyc_w : ¬ TransGen (InsRel E w U V) w w := by
    intro hww
    rcases TransGen.head'_iff.mp hww with ⟨c, hwc, hcw⟩
    rcases hwc with h | ⟨_, h⟩ | ⟨_, hc⟩
    · exact (hfresh c).2 h
    · exact hU w h rfl
    · rcases reflTransGen_iff_eq_or_transGen.mp hcw with h | h
      · exact hV c hc h.symm
      · exact key c hc h
  intro a haa
  by_cases haw : a = w
  · subst haw; exact nocyc_w haa
  · rcases insRel_through haa with h | ⟨h1, h2⟩
    · exact hE a h
    · rcases reflTransGen_iff_eq_or_transGen.mp h1 with h | h1'
      · exact haw h.symm
      · rcases reflTransGen_iff_eq_or_transGen.mp h2 with h | h2'
        · exact haw h
        · exact nocyc_w (h2'.trans h1')

/-- in an acyclic relation an edge `u → v` excludes a path `v ⇝* u` -/
theorem AcyclicRel.no_back {E : α → α → Prop} (hE : AcyclicRel E) {u v : α} (h : E u v) : ¬ ReflTransGen E v u :=
  fun hvu => hE u (TransGen.head' h hvu)

end Acyclic
end Graphiq
