/-
  Refine.lean — the wire-level ("abstract") effect of the edits as explicit list edits: `_add` appends, `_insert_at`
  inserts between two consecutive entries, `remove_op` erases, `replace_op` leaves the wires alone, and unwrapping one
  wrapper node splices the list of its unwrapped gates in place of the node.
-/
import GraphiqModel.Proofs.Reach
import GraphiqModel.Proofs.Metrics
set_option linter.unusedSectionVars false
set_option linter.unusedSimpArgs false
namespace Graphiq
namespace Dag
open Relation

/-- the wires are determined by the circuit: two witnesses of the invariant agree on every existing register -/
theorem Inv.paths_unique {c : Dag} {P P' : Paths} (h : Inv c P) (h' : Inv c P') (r : Reg) : P r = P' r := by
  by_cases hl : c.live r
  · have a := regGateHistory_eq_wire h hl
    have b := regGateHistory_eq_wire h' hl
    rw [a] at b; injection b
  · rw [h.dead r hl, h'.dead r hl]

/-! ### the list edits of the primitives, collected -/

/-- **`_add` appends**: the new node is put before `out k` on the wire of every register of the operation -/
theorem add_refines {c : Dag} {P : Paths} (g : Good c P) {op : Op} (hop : OpWF op) (hlive : ∀ r ∈ opRegs op, c.live r) :
    ∃ P', Inv (c.add_ op) P' ∧ (∀ k ∉ opRegs op, P' k = P k) ∧
      ∀ k ∈ opRegs op, ∃ pre, P k = pre ++ [.out k] ∧ P' k = pre ++ [.op (c.nodeId + 1), .out k] := by
  have hinv := add_struct g hop hlive
  have hkeys : ((opRegs op).map (lastEdge P)).map (·.key) = opRegs op := by
    rw [List.map_map]; simp [lastEdge, Function.comp_def]
  have hknd : (((opRegs op).map (lastEdge P)).map (·.key)).Nodup := by rw [hkeys]; exact opRegs_nodup hop
  refine ⟨_, hinv, ?_, ?_⟩
  · intro k hk
    exact splicePaths_other _ _ P k (by rw [hkeys]; exact hk)
  · intro k hk
    have hmemE : lastEdge P k ∈ (opRegs op).map (lastEdge P) := List.mem_map.mpr ⟨k, hk, rfl⟩
    have := splicePaths_mem (.op (c.nodeId + 1)) _ P hknd (lastEdge P k) hmemE
    simp only [lastEdge] at this
    obtain ⟨pre, hpre⟩ := g.inv.path_split_last (hlive k hk)
    refine ⟨pre ++ [predOut P k], by rw [hpre]; simp, ?_⟩
    rw [this, hpre]
    have hnd := g.inv.nodup k
    rw [hpre] at hnd
    have hu : predOut P k ∉ pre := by
      intro hm
      have := List.nodup_append.mp hnd
      exact this.2.2 _ hm _ (by simp) rfl
    rw [show pre ++ [predOut P k, NodeId.out k] = pre ++ predOut P k :: [NodeId.out k] by rfl, insertAfter_append hu]
    simp

/-- **`_insert_at` inserts between two consecutive entries** of the wire of each given edge -/
theorem insertAt_refines {c : Dag} {P : Paths} (g : Good c P) {op : Op} (hop : OpWF op) {es : List Edge}
    (hok : InsertOK c op es) :
    ∃ P', Inv (c.insertAt_ op es).1 P' ∧ (∀ k ∉ es.map (·.key), P' k = P k) ∧
      ∀ e ∈ es, ∃ l1 l2, P e.key = l1 ++ e.src :: e.dst :: l2 ∧ P' e.key = l1 ++ e.src :: .op (c.nodeId + 1) :: e.dst :: l2 := by
  let n := NodeId.op (c.nodeId + 1)
  have hfresh := g.inv.op_fresh
  have hnP : ∀ k, n ∉ P k := fun k hm => hfresh (g.inv.mem_nodes k _ hm)
  have h0 : Inv (c.newNode op) P := newNode_inv g.inv hop
  have hn0 : n ∈ (c.newNode op).nodeIds := by simp [nodeIds, newNode_nodes g.inv op, n]
  have hknd : (es.map (·.key)).Nodup := by rw [hok.keys]; exact hop.qregs_nodup
  obtain ⟨hinv, hins⟩ := spliceAll_inv h0 (i := c.nodeId + 1) rfl hn0 es hok.mem hknd (fun e _ => hnP e.key)
  have heq : c.insertAt_ op es = ((c.newNode op).spliceAll n es, none) := hins
  refine ⟨splicePaths n es P, by rw [heq]; exact hinv, fun k hk => splicePaths_other n es P k hk, ?_⟩
  intro e he
  have hcons : Consec (P e.key) e.src e.dst := (g.inv.edges_iff e).mp (hok.mem e he)
  obtain ⟨l1, l2, hP⟩ := consec_iff_append.mp hcons
  refine ⟨l1, l2, hP, ?_⟩
  rw [splicePaths_mem n es P hknd e he, hP]
  have hnd := g.inv.nodup e.key
  rw [hP] at hnd
  have hu : e.src ∉ l1 := by
    intro hm
    exact (List.nodup_append.mp hnd).2.2 _ hm _ (by simp) rfl
  exact insertAfter_append hu

/-- **`remove_op` erases** the node from every wire -/
theorem removeOp_refines {c : Dag} {P : Paths} (g : Good c P) {i : Nat} (hi : NodeId.op i ∈ c.nodeIds) :
    Inv (c.removeOp (.op i)).1 (fun k => (P k).erase (.op i)) := (removeOp_good g hi).2.1.inv

/-- **`replace_op` does not touch the wires** -/
theorem replaceOp_refines {c : Dag} {P : Paths} (g : Good c P) {i : Nat} {new : Op} (hnew : OpWF new) :
    Inv (c.replaceOp (.op i) new).1 P := (replaceOp_good g hnew).1.inv

end Dag
end Graphiq

/-! ### unwrapping one wrapper node = splicing its gate list into the wire -/
namespace Graphiq
namespace Dag
open Relation

theorem split_unique {α : Type} [DecidableEq α] {X Y X' Y' : List α} {n : α} (hnd : (X ++ n :: Y).Nodup)
    (h : X ++ n :: Y = X' ++ n :: Y') : X = X' ∧ Y = Y' := by
  induction X generalizing X' with
  | nil =>
    cases X' with
    | nil => simp at h; exact ⟨rfl, h⟩
    | cons a t =>
      exfalso
      simp only [List.nil_append, List.cons_append, List.cons.injEq] at h
      obtain ⟨h1, h2⟩ := h
      subst h1
      have hn : n ∈ Y := by rw [h2]; simp
      have hnd' : n ∉ Y ∧ Y.Nodup := List.nodup_cons.mp hnd
      exact hnd'.1 hn
  | cons a t ih =>
    have hnd' : a ∉ t ++ n :: Y ∧ (t ++ n :: Y).Nodup := by
      rw [List.cons_append] at hnd; exact List.nodup_cons.mp hnd
    cases X' with
    | nil =>
      exfalso
      simp only [List.nil_append, List.cons_append, List.cons.injEq] at h
      obtain ⟨h1, _⟩ := h
      subst h1
      exact hnd'.1 (by simp)
    | cons b t' =>
      simp only [List.cons_append, List.cons.injEq] at h
      obtain ⟨h1, h2⟩ := h
      subst h1
      obtain ⟨e1, e2⟩ := ih hnd'.2 h2
      exact ⟨by rw [e1], e2⟩

theorem range_map_shift {γ : Type} (N k : Nat) (f : Nat → γ) :
    (List.range (k + 1)).map (fun j => f (N + 1 + j)) = f (N + 1) :: (List.range k).map (fun j => f (N + 1 + 1 + j)) := by
  rw [List.range_succ_eq_map, List.map_cons, List.map_map]
  congr 1
  apply List.map_congr_left
  intro j _
  simp only [Function.comp]
  congr 1
  omega

theorem zipIdx_map_shift {α β : Type} (N : Nat) (o : α) (rest : List α) (g : Nat → α → β) :
    ((o :: rest).zipIdx.map fun p => g (N + 1 + p.2) p.1) =
      g (N + 1) o :: (rest.zipIdx.map fun p => g (N + 1 + 1 + p.2) p.1) := by
  rw [List.zipIdx_cons, List.map_cons]
  congr 1
  rw [show (0 : Nat) + 1 = 0 + 1 from rfl, List.zipIdx_succ, List.map_map]
  apply List.map_congr_left
  intro p _
  simp only [Function.comp]
  congr 1
  omega

/-- one `insert_at(op, in_edges(node))` of `unwrap_nodes`: the new node lands immediately before the wrapper node -/
theorem insertBefore_refines {c : Dag} {P : Paths} (g : Good c P) {i : Nat} {w : Op} (hw : (NodeId.op i, w) ∈ c.nodes)
    {r : Reg} (hq : w.qregs = [r]) (hc : w.cregs = []) {o : Op} (hwf : OpWF o) (hoq : o.qregs = [r]) (hoc : o.cregs = [])
    {X Y : List NodeId} (hP : P r = X ++ .op i :: Y) :
    ∃ P', Good (c.insertAt o (c.inEdges (.op i))).1 P' ∧ (c.insertAt o (c.inEdges (.op i))).2 = none ∧
      P' r = X ++ .op (c.nodeId + 1) :: .op i :: Y ∧ (∀ k, k ≠ r → P' k = P k) ∧
      (c.insertAt o (c.inEdges (.op i))).1.nodes = c.nodes ++ [(.op (c.nodeId + 1), o)] ∧
      (c.insertAt o (c.inEdges (.op i))).1.nodeId = c.nodeId + 1 := by
  obtain ⟨a, hin, hedge⟩ := inEdges_single g hw hq hc
  rw [hin]
  have hlive : c.live r := g.inv.live_of_edge hedge
  have hens : c.ensureRegs o = (c, none) := by
    apply ensureRegs_live_eq g.inv (by rw [hoq]; simp)
    intro r' hr'; unfold opRegs at hr'; rw [hoq, hoc] at hr'; simp at hr'; subst hr'; exact hlive
  have hok : InsertOK c o [⟨a, .op i, r⟩] := by
    refine ⟨by simpa using hedge, by simp [hoq], ?_⟩
    intro e1 he1 e2 he2 hne
    simp at he1 he2; subst he1 he2; exact absurd rfl hne
  have heq : c.insertAt o [⟨a, .op i, r⟩] = c.insertAt_ o [⟨a, .op i, r⟩] := by
    unfold insertAt; rw [hens]; simp [hoq]
  obtain ⟨h1, P1, g1, _, h3, h4, _⟩ := insertAt_good' g hwf hok
  obtain ⟨P', hinv', hother, hsplice⟩ := insertAt_refines g hwf hok
  rw [heq]
  have hPeq : ∀ k, P1 k = P' k := fun k => g1.inv.paths_unique hinv' k
  refine ⟨P1, g1, h1, ?_, ?_, h4, h3⟩
  · obtain ⟨l1, l2, hl, hl'⟩ := hsplice ⟨a, .op i, r⟩ (by simp)
    simp only at hl hl'
    rw [hPeq r, hl']
    have hnd := g.inv.nodup r
    have e1 : l1 ++ a :: NodeId.op i :: l2 = (l1 ++ [a]) ++ NodeId.op i :: l2 := by simp
    rw [hl, e1] at hP
    rw [hl, e1] at hnd
    obtain ⟨hX, hY⟩ := split_unique hnd hP
    rw [← hX, ← hY]; simp
  · intro k hk
    rw [hPeq k]
    exact hother k (by simpa using hk)

/-- **splice-in**: unwrapping the wrapper at node `i` (`for op in op_list: insert_at(op, in_edges(node))` followed by
    `remove_op(node)`) replaces the node on its wire by the list of new nodes `_node_id+1 … _node_id+k`, in order, which
    hold the unwrapped gates; every other wire is unchanged -/
theorem unwrapOne_refines {c : Dag} {P : Paths} (g : Good c P) {i : Nat} {w : Op} (hw : (NodeId.op i, w) ∈ c.nodes) {r : Reg}
    (hq : w.qregs = [r]) (hc : w.cregs = []) (os : List Op) (hos : ∀ o ∈ os, OpWF o ∧ o.qregs = [r] ∧ o.cregs = [])
    {X Y : List NodeId} (hP : P r = X ++ .op i :: Y) :
    ∃ P', Good (c.unwrapOne (.op i) os).1 P' ∧ (c.unwrapOne (.op i) os).2 = none ∧
      P' r = X ++ ((List.range os.length).map fun j => NodeId.op (c.nodeId + 1 + j)) ++ .op i :: Y ∧
      (∀ k, k ≠ r → P' k = P k) ∧
      (c.unwrapOne (.op i) os).1.nodes = c.nodes ++ (os.zipIdx.map fun p => (NodeId.op (c.nodeId + 1 + p.2), p.1)) := by
  induction os generalizing c P X with
  | nil => exact ⟨P, g, rfl, by simpa using hP, fun _ _ => rfl, by simp [unwrapOne]⟩
  | cons o rest ih =>
    obtain ⟨hwf, hoq, hoc⟩ := hos o (by simp)
    obtain ⟨P1, g1, e1, hP1, hoth1, hn1, hid1⟩ := insertBefore_refines g hw hq hc hwf hoq hoc hP
    unfold unwrapOne
    cases hres : c.insertAt o (c.inEdges (.op i)) with
    | mk c1 err =>
      rw [hres] at g1 e1 hn1 hid1
      simp only at g1 e1 hn1 hid1
      subst e1
      simp only
      have hw1 : (NodeId.op i, w) ∈ c1.nodes := by rw [hn1]; exact List.mem_append_left _ hw
      have hP1' : P1 r = (X ++ [.op (c.nodeId + 1)]) ++ .op i :: Y := by rw [hP1]; simp
      obtain ⟨P2, g2, e2, hP2, hoth2, hn2⟩ := ih g1 hw1 (fun o' ho' => hos o' (List.mem_cons_of_mem _ ho')) hP1'
      refine ⟨P2, g2, e2, ?_, fun k hk => (hoth2 k hk).trans (hoth1 k hk), ?_⟩
      · rw [hP2, hid1, List.length_cons, range_map_shift c.nodeId rest.length NodeId.op]
        simp only [List.append_assoc, List.cons_append, List.nil_append]
      · rw [hn2, hn1, hid1, zipIdx_map_shift c.nodeId o rest (fun j a => (NodeId.op j, a))]
        simp only [List.append_assoc, List.cons_append, List.nil_append]

end Dag
end Graphiq

namespace Graphiq
namespace Dag
open Relation

/-- **`unwrap_nodes`, one wrapper node: splice-in.**  Let node `i` hold a `OneQubitGateWrapper` on register `r` and
    `P r = X ++ [i] ++ Y`.  After `for op in unwrap(): insert_at(op, in_edges(i))` and `remove_op(i)` the circuit satisfies
    the invariant with the wire of `r` equal to `X ++ [_node_id+1, …, _node_id+k] ++ Y`, all other wires unchanged, and
    the new nodes hold the unwrapped gates in application order. -/
theorem unwrapNode_refines {c : Dag} {P : Paths} (g : Good c P) {i : Nat} {w : Op} (hw : (NodeId.op i, w) ∈ c.nodes)
    (hk : w.kind = .wrapper) :
    ∃ r X Y P', w.qregs = [r] ∧ P r = X ++ .op i :: Y ∧
      Good ((c.unwrapOne (.op i) w.unwrap).1.removeOp (.op i)).1 P' ∧
      P' r = X ++ ((List.range w.unwrap.length).map fun j => NodeId.op (c.nodeId + 1 + j)) ++ Y ∧
      (∀ k, k ≠ r → P' k = P k) ∧
      ∀ p ∈ w.unwrap.zipIdx, (NodeId.op (c.nodeId + 1 + p.2), p.1) ∈ ((c.unwrapOne (.op i) w.unwrap).1.removeOp (.op i)).1.nodes := by
  have hwf := g.inv.op_wf i w hw
  obtain ⟨⟨r, hq⟩, hc, _⟩ := hwf.wrapper_shape hk
  have hrq : r.ty ≠ .c := hwf.qregs_quantum r (by rw [hq]; simp)
  have hon : NodeId.op i ∈ P r := (g.mem.mem_q i w hw r hrq).mpr (by rw [hq]; simp)
  obtain ⟨X, Y, hP⟩ := List.append_of_mem hon
  obtain ⟨P1, g1, e1, hP1, hoth1, hn1⟩ := unwrapOne_refines g hw hq hc w.unwrap (unwrap_ops_wf hwf hk hq) hP
  have hw1 : (NodeId.op i, w) ∈ (c.unwrapOne (.op i) w.unwrap).1.nodes := by rw [hn1]; exact List.mem_append_left _ hw
  have hi1 : NodeId.op i ∈ (c.unwrapOne (.op i) w.unwrap).1.nodeIds := mem_nodeIds.mpr ⟨w, hw1⟩
  obtain ⟨_, g2, _, _⟩ := removeOp_good g1 hi1
  refine ⟨r, X, Y, erasePaths P1 (.op i), hq, hP, g2, ?_, ?_, ?_⟩
  · unfold erasePaths
    rw [hP1]
    have hnd := g1.inv.nodup r
    rw [hP1] at hnd
    have hnot : NodeId.op i ∉ X ++ ((List.range w.unwrap.length).map fun j => NodeId.op (c.nodeId + 1 + j)) := by
      intro hm
      exact (List.nodup_append.mp hnd).2.2 _ hm _ (by simp) rfl
    exact erase_append_mid hnot
  · intro k hk'
    unfold erasePaths
    rw [hoth1 k hk']
    apply List.erase_of_not_mem
    intro hm
    -- the wrapper node is on no other wire
    by_cases hkc : k.ty = .c
    · have : k = ⟨.c, k.idx⟩ := by cases k with | mk t j => simp at hkc; subst hkc; rfl
      rw [this] at hm
      have := g.mem.mem_c i w hw _ hm
      rw [hc] at this; simp at this
    · have := (g.mem.mem_q i w hw k hkc).mp hm
      rw [hq] at this; simp at this; exact hk' this
  · intro p hp
    have hrm := removeOp_eq ((opOf_eq_some g1.inv.ids_nodup).mpr hw1)
    rw [hrm]
    have F := removeFacts g1.inv (.op i)
    simp only [removed, F.nodes]
    rw [List.mem_filter]
    refine ⟨?_, by simp; intro e; have := g.inv.op_range i (mem_nodeIds.mpr ⟨w, hw⟩); omega⟩
    rw [hn1]
    exact List.mem_append_right _ (List.mem_map.mpr ⟨p, hp, rfl⟩)

end Dag
end Graphiq
