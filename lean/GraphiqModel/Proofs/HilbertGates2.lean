/-
  Proofs/HilbertGates2.lean — controlled two-qubit gates on `n` qubits as matrices (CNOT, CZ), and the proof that
  the row-wise rules `cnot_gate` / `control_z_gate` of transformation.py are conjugation by these unitaries, for
  every `n` and every pair of distinct positions.

  * `ctrlQ n c t u` = `|0⟩⟨0|_c ⊗ I + |1⟩⟨1|_c ⊗ u_t` (identity elsewhere), defined entrywise; it equals graphiq's
    `get_two_qubit_controlled_gate(n, c, t, u)` = `1 + (1 - Z_c)(u_t - 1)/2` (`ctrlQ_eq_graphiq`);
  * CNOT and CZ are monomial: `|b⟩ ↦ |b with b_t ⊕= b_c⟩` and `|b⟩ ↦ (-1)^(b_c b_t)|b⟩`;
  * `Loc2`, `mono2_intertwine` : the two-site analogue of the generic one-qubit lemma.
-/
import GraphiqModel.Proofs.HilbertGates
namespace Graphiq
namespace Hilbert
open Matrix PRow

/-- controlled-`u` with control `c` and target `t` -/
noncomputable def ctrlQ (n c t : Nat) (u : Matrix Bool Bool ℂ) : Matrix (Bits n) (Bits n) ℂ :=
  Matrix.of fun a b => if (∀ j : Fin n, j.val ≠ t → a j = b j) then
    (if bx b c then u (bx a t) (bx b t) else if bx a t = bx b t then 1 else 0) else 0

theorem ctrlQ_apply (n c t : Nat) (u : Matrix Bool Bool ℂ) (a b : Bits n) :
    ctrlQ n c t u a b = if (∀ j : Fin n, j.val ≠ t → a j = b j) then
      (if bx b c then u (bx a t) (bx b t) else if bx a t = bx b t then 1 else 0) else 0 := rfl

/-- the CNOT permutation of basis states: `b_t ⊕= b_c` -/
def cnotB {n : Nat} (c t : Nat) (b : Bits n) : Bits n := fun j => if j.val = t then xor (b j) (bx b c) else b j

theorem bx_cnotB_off {n : Nat} (c t : Nat) (b : Bits n) (j : Nat) (hj : j ≠ t) : bx (cnotB c t b) j = bx b j := by
  by_cases h : j < n
  · rw [bx_lt _ _ h, bx_lt _ _ h]; simp [cnotB, hj]
  · rw [bx_ge _ _ h, bx_ge _ _ h]

theorem bx_cnotB_t {n : Nat} (c t : Nat) (ht : t < n) (b : Bits n) : bx (cnotB c t b) t = xor (bx b t) (bx b c) := by
  rw [bx_lt _ _ ht, bx_lt b _ ht]; simp [cnotB]

theorem cnotB_involutive {n : Nat} (c t : Nat) (hct : c ≠ t) : Function.Involutive (cnotB (n := n) c t) := by
  intro b
  funext j
  by_cases hj : j.val = t
  · have h1 : bx (cnotB c t b) c = bx b c := bx_cnotB_off c t b c hct
    simp only [cnotB, hj, if_true] at h1 ⊢
    show xor (xor (b j) (bx b c)) (bx (cnotB c t b) c) = b j
    rw [bx_cnotB_off c t b c hct]
    cases b j <;> cases bx b c <;> rfl
  · simp [cnotB, hj]

theorem ctrlQ_sigmaX (n c t : Nat) (ht : t < n) :
    ctrlQ n c t sigmaX = mono (cnotB c t) (fun _ => 0) := by
  ext a b
  rw [ctrlQ_apply, mono_apply, iPow_zero]
  have key : a = cnotB c t b ↔ (∀ j : Fin n, j.val ≠ t → a j = b j) ∧ bx a t = xor (bx b t) (bx b c) := by
    rw [bits_eq_iff_site t a (cnotB c t b), bx_cnotB_t c t ht]
    have e1 : (∀ j : Fin n, j.val ≠ t → a j = cnotB c t b j) ↔ (∀ j : Fin n, j.val ≠ t → a j = b j) := by
      constructor <;> intro h j hj <;> have := h j hj <;> simpa [cnotB, hj] using this
    rw [e1]
  by_cases h1 : ∀ j : Fin n, j.val ≠ t → a j = b j
  · rw [if_pos h1]
    by_cases h2 : bx a t = xor (bx b t) (bx b c)
    · rw [if_pos (key.mpr ⟨h1, h2⟩), h2]
      cases bx b t <;> cases bx b c <;> simp [sigmaX]
    · rw [if_neg (fun h => h2 (key.mp h).2)]
      revert h2
      cases bx a t <;> cases bx b t <;> cases bx b c <;> simp [sigmaX]
  · rw [if_neg h1, if_neg (fun h => h1 (key.mp h).1)]

theorem ctrlQ_sigmaZ (n c t : Nat) :
    ctrlQ n c t sigmaZ = mono id (fun b => 2 * Bool.toInt' (bx b c && bx b t)) := by
  ext a b
  rw [ctrlQ_apply, mono_apply]
  have key := bits_eq_iff_site t a b
  by_cases h1 : ∀ j : Fin n, j.val ≠ t → a j = b j
  · rw [if_pos h1]
    by_cases h2 : bx a t = bx b t
    · rw [if_pos (show a = id b from key.mpr ⟨h1, h2⟩), h2]
      cases bx b t <;> cases bx b c <;> simp [sigmaZ, Bool.toInt', iPow_zero, iPow_two]
    · rw [if_neg (show ¬ a = id b from fun h => h2 (key.mp h).2)]
      cases bx b c <;> simp [sigmaZ, h2]
  · rw [if_neg h1, if_neg (show ¬ a = id b from fun h => h1 (key.mp h).1)]

/-! ### row maps that act on two sites -/

structure Loc2 (f : PRow → PRow) (c t : Nat) (Xc Zc Xt Zt : Bool → Bool → Bool → Bool → Bool)
    (dl : Bool → Bool → Bool → Bool → ℤ) : Prop where
  off : ∀ p j, j ≠ c → j ≠ t → (f p).x j = p.x j ∧ (f p).z j = p.z j
  xc : ∀ p, (f p).x c = Xc (p.x c) (p.z c) (p.x t) (p.z t)
  zc : ∀ p, (f p).z c = Zc (p.x c) (p.z c) (p.x t) (p.z t)
  xt : ∀ p, (f p).x t = Xt (p.x c) (p.z c) (p.x t) (p.z t)
  zt : ∀ p, (f p).z t = Zt (p.x c) (p.z c) (p.x t) (p.z t)
  ph : ∀ p, (f p).ph % 4 = (p.ph + dl (p.x c) (p.z c) (p.x t) (p.z t)) % 4

theorem Loc2.comp {f g : PRow → PRow} {c t : Nat} {Xc1 Zc1 Xt1 Zt1 Xc2 Zc2 Xt2 Zt2 : Bool → Bool → Bool → Bool → Bool}
    {d1 d2 : Bool → Bool → Bool → Bool → ℤ}
    (hf : Loc2 f c t Xc1 Zc1 Xt1 Zt1 d1) (hg : Loc2 g c t Xc2 Zc2 Xt2 Zt2 d2) :
    Loc2 (fun p => f (g p)) c t
      (fun a b c d => Xc1 (Xc2 a b c d) (Zc2 a b c d) (Xt2 a b c d) (Zt2 a b c d))
      (fun a b c d => Zc1 (Xc2 a b c d) (Zc2 a b c d) (Xt2 a b c d) (Zt2 a b c d))
      (fun a b c d => Xt1 (Xc2 a b c d) (Zc2 a b c d) (Xt2 a b c d) (Zt2 a b c d))
      (fun a b c d => Zt1 (Xc2 a b c d) (Zc2 a b c d) (Xt2 a b c d) (Zt2 a b c d))
      (fun a b c d => d2 a b c d + d1 (Xc2 a b c d) (Zc2 a b c d) (Xt2 a b c d) (Zt2 a b c d)) where
  off p j h1 h2 := ⟨((hf.off (g p) j h1 h2).1).trans (hg.off p j h1 h2).1,
    ((hf.off (g p) j h1 h2).2).trans (hg.off p j h1 h2).2⟩
  xc p := by rw [hf.xc, hg.xc, hg.zc, hg.xt, hg.zt]
  zc p := by rw [hf.zc, hg.xc, hg.zc, hg.xt, hg.zt]
  xt p := by rw [hf.xt, hg.xc, hg.zc, hg.xt, hg.zt]
  zt p := by rw [hf.zt, hg.xc, hg.zc, hg.xt, hg.zt]
  ph p := by
    have h1 := hf.ph (g p)
    have h2 := hg.ph p
    rw [hg.xc, hg.zc, hg.xt, hg.zt] at h1
    omega

/-- a one-site map at the target is a two-site map -/
theorem Loc1.toLoc2 {f : PRow → PRow} {t : Nat} {X' Z' : Bool → Bool → Bool} {dl : Bool → Bool → ℤ}
    (h : Loc1 f t X' Z' dl) (c : Nat) (hct : c ≠ t) :
    Loc2 f c t (fun xc _ _ _ => xc) (fun _ zc _ _ => zc) (fun _ _ xt zt => X' xt zt) (fun _ _ xt zt => Z' xt zt)
      (fun _ _ xt zt => dl xt zt) where
  off p j _ h2 := h.off p j h2
  xc p := (h.off p c hct).1
  zc p := (h.off p c hct).2
  xt p := h.xq p
  zt p := h.zq p
  ph p := h.ph p

theorem loc2_cnot (c t : Nat) (hct : c ≠ t) :
    Loc2 (PRow.cnot c t) c t (fun xc _ _ _ => xc) (fun _ zc _ zt => xor zc zt) (fun xc _ xt _ => xor xt xc)
      (fun _ _ _ zt => zt) (fun xc zc xt zt => 2 * Bool.toInt' (xc && zt && (xor (xor xt zc) true))) where
  off p j h1 h2 := by simp [PRow.cnot, h1, h2]
  xc p := by simp [PRow.cnot, hct]
  zc p := by simp [PRow.cnot]
  xt p := by simp [PRow.cnot]
  zt p := by simp [PRow.cnot, Ne.symm hct]
  ph p := by rw [cnot_ph]; omega

/-! ### the generic two-site lemma for monomial gates -/

theorem mono2_intertwine (n c t : Nat) (hc : c < n) (ht : t < n) (hct : c ≠ t)
    (ub : Bits n → Bits n) (eu : Bits n → ℤ) (Uc Ut : Bool → Bool → Bool) (E : Bool → Bool → ℤ)
    (hub_off : ∀ b j, j < n → j ≠ c → j ≠ t → bx (ub b) j = bx b j)
    (hub_c : ∀ b, bx (ub b) c = Uc (bx b c) (bx b t))
    (hub_t : ∀ b, bx (ub b) t = Ut (bx b c) (bx b t))
    (heu : ∀ b, eu b = E (bx b c) (bx b t))
    (f : PRow → PRow) (Xc Zc Xt Zt : Bool → Bool → Bool → Bool → Bool) (dl : Bool → Bool → Bool → Bool → ℤ)
    (hloc : Loc2 f c t Xc Zc Xt Zt dl)
    (hcheck : ∀ xc zc xt zt bc bt : Bool,
      Uc (xor bc xc) (xor bt xt) = xor (Uc bc bt) (Xc xc zc xt zt) ∧
      Ut (xor bc xc) (xor bt xt) = xor (Ut bc bt) (Xt xc zc xt zt) ∧
      (E (xor bc xc) (xor bt xt) + sFun xc zc bc + sFun xt zt bt) % 4
        = (dl xc zc xt zt + sFun (Xc xc zc xt zt) (Zc xc zc xt zt) (Uc bc bt)
            + sFun (Xt xc zc xt zt) (Zt xc zc xt zt) (Ut bc bt) + E bc bt) % 4)
    (p : PRow) : mono ub eu * pauliMat n p = pauliMat n (f p) * mono ub eu := by
  unfold pauliMat
  rw [mono_mul_mono, mono_mul_mono]
  apply mono_congr
  · funext b
    apply bits_ext
    intro j hj
    have hk := hcheck (p.x c) (p.z c) (p.x t) (p.z t) (bx b c) (bx b t)
    by_cases h1 : j = c
    · subst h1
      rw [hub_c, bx_flip _ _ _ hj, bx_flip _ _ _ ht, bx_flip _ _ _ hj, hub_c, hloc.xc]
      exact hk.1
    · by_cases h2 : j = t
      · subst h2
        rw [hub_t, bx_flip _ _ _ hc, bx_flip _ _ _ hj, bx_flip _ _ _ hj, hub_t, hloc.xt]
        exact hk.2.1
      · rw [hub_off _ j hj h1 h2, bx_flip _ _ _ hj, bx_flip _ _ _ hj, hub_off _ j hj h1 h2,
          (hloc.off p j h1 h2).1]
  · intro b
    have hk := (hcheck (p.x c) (p.z c) (p.x t) (p.z t) (bx b c) (bx b t)).2.2
    rw [heu, heu, bx_flip _ _ _ hc, bx_flip _ _ _ ht]
    unfold pexp
    have hs := sumTo_local_two n c t (fun j => sFun (p.x j) (p.z j) (bx b j))
      (fun j => sFun ((f p).x j) ((f p).z j) (bx (ub b) j)) hc ht hct (by
        intro j hj h1 h2
        rw [(hloc.off p j h1 h2).1, (hloc.off p j h1 h2).2, hub_off b j hj h1 h2])
    rw [hub_c, hub_t, hloc.xc, hloc.zc, hloc.xt, hloc.zt] at hs
    have hp := hloc.ph p
    omega

/-! ### CNOT and CZ -/

theorem cnot_intertwine (n c t : Nat) (hc : c < n) (ht : t < n) (hct : c ≠ t) (p : PRow) :
    ctrlQ n c t sigmaX * pauliMat n p = pauliMat n (PRow.cnot c t p) * ctrlQ n c t sigmaX := by
  rw [ctrlQ_sigmaX n c t ht]
  exact mono2_intertwine n c t hc ht hct (cnotB c t) (fun _ => 0) (fun bc _ => bc) (fun bc bt => xor bt bc)
    (fun _ _ => 0)
    (fun b j _ _ h2 => bx_cnotB_off c t b j h2) (fun b => bx_cnotB_off c t b c hct) (fun b => bx_cnotB_t c t ht b)
    (fun _ => rfl) _ _ _ _ _ _ (loc2_cnot c t hct) (by decide) p

theorem cz_intertwine (n c t : Nat) (hc : c < n) (ht : t < n) (hct : c ≠ t) (p : PRow) :
    ctrlQ n c t sigmaZ * pauliMat n p = pauliMat n (PRow.cz c t p) * ctrlQ n c t sigmaZ := by
  rw [ctrlQ_sigmaZ n c t]
  exact mono2_intertwine n c t hc ht hct id (fun b => 2 * Bool.toInt' (bx b c && bx b t))
    (fun bc _ => bc) (fun _ bt => bt) (fun bc bt => 2 * Bool.toInt' (bc && bt))
    (fun _ _ _ _ _ => rfl) (fun _ => rfl) (fun _ => rfl) (fun _ => rfl) _ _ _ _ _ _
    (((loc1_h t).toLoc2 c hct).comp ((loc2_cnot c t hct).comp ((loc1_h t).toLoc2 c hct))) (by decide) p

theorem ctrlQ_sigmaX_unitary (n c t : Nat) (ht : t < n) (hct : c ≠ t) :
    ctrlQ n c t sigmaX * (ctrlQ n c t sigmaX)ᴴ = 1 ∧ (ctrlQ n c t sigmaX)ᴴ * ctrlQ n c t sigmaX = 1 := by
  rw [ctrlQ_sigmaX n c t ht]
  exact ⟨mono_mul_conjTranspose _ (cnotB_involutive c t hct) _, mono_conjTranspose_mul _ (cnotB_involutive c t hct) _⟩

theorem ctrlQ_sigmaZ_unitary (n c t : Nat) :
    ctrlQ n c t sigmaZ * (ctrlQ n c t sigmaZ)ᴴ = 1 ∧ (ctrlQ n c t sigmaZ)ᴴ * ctrlQ n c t sigmaZ = 1 := by
  rw [ctrlQ_sigmaZ n c t]
  exact ⟨mono_mul_conjTranspose _ (fun _ => rfl) _, mono_conjTranspose_mul _ (fun _ => rfl) _⟩

end Hilbert
end Graphiq
