/-
  Proofs/CommuteRefine.lean — the compile loop of the stabilizer backend (`stepOp` / `stabRun`, Model/Circuit.lean, the model
  that is compared with the real `StabilizerCompiler` on every run) refines the group semantics of Proofs/CommuteSem.

  * `copPrims np op o`: the tableau API calls `compile_one_gate` makes for the circuit operation `op` when its measurement
    (if it has one) has outcome `o`.
  * `cop_refines`: one step of the compile loop, under every measurement setting and outcome script, takes the stabilizer
    group of the tableau to `runP (copPrims op o)` of it, where `o` is the outcome the step recorded — in particular the
    recorded outcome is *feasible* in the group semantics, and the `reset` inside `MeasurementCNOTandReset` is the
    conditional `X` the group semantics uses (`resetZ_after_Zq`).
  * `toCOp`, `decode_prims`: an operation of the compile sequence (`Wire.SOp`) is that circuit operation, with the same primitives.
  * `run_refines`: a whole run of `stabRunFrom` = `runSeq appRaw` on the outcome streams made of the recorded outcomes.
-/
import GraphiqModel.Proofs.CommuteSem
import GraphiqModel.Proofs.Circuit
namespace Graphiq.Commute
open Graphiq PRow Tab TabSpec Classical
open Graphiq.Wire (Reg RegType SOp Item Kind G1 runSeq)

/-! ## 1. tableau level -/

/-- invariant of the tableau during a run -/
structure TInv (n : Nat) (t : Tab) : Prop where
  valid : t.Valid
  real : t.StabReal
  n_eq : t.n = n

theorem TInv.norm {n : Nat} {t : Tab} (h : TInv n t) : TInv n t.norm :=
  ⟨tnorm_valid t h.valid, norm_stabReal t h.real, h.n_eq⟩

theorem TInv.isTab {n : Nat} {t : Tab} (h : TInv n t) : IsTab n (gstate t) := ⟨t, h.valid, h.real, h.n_eq, rfl⟩

theorem TInv.map {n : Nat} {t : Tab} (h : TInv n t) (f : PRow → PRow) (hf : IsAut1 n f) : TInv n (t.map f) := by
  have hf' : IsAut1 t.n f := by rw [h.n_eq]; exact hf
  exact ⟨map_valid t f hf'.aut h.valid, (gate_tracks t f hf' h.real).1, h.n_eq⟩

theorem TInv.meas {n : Nat} {t : Tab} (h : TInv n t) (q : Nat) (o : Bool) (hq : q < n) : TInv n (t.zMeasure q o).1 := by
  have hq' : q < t.n := by rw [h.n_eq]; exact hq
  exact ⟨zMeasure_valid t q o hq' h.valid, zMeasure_stabReal t q o hq' h.valid h.real, (zMeasure_n t q o).trans h.n_eq⟩

theorem TInv.reset {n : Nat} {t : Tab} (h : TInv n t) (q : Nat) (i o : Bool) (hq : q < n) : TInv n (t.resetZ q i o) := by
  have hq' : q < t.n := by rw [h.n_eq]; exact hq
  exact ⟨resetZ_valid t q i o hq' h.valid, (resetZ_tracks t q i o hq' h.valid h.real).1, (resetZ_n t q i o).trans h.n_eq⟩

/-- a gate primitive on a tableau -/
theorem appP_gate_tab {n : Nat} (op : Tab.Op) (f : PRow → PRow) (hok : primOk n op = true)
    (hinf : ∀ g, ¬ primInfeasible op g) (hspec : ∀ g, specOp op g = specGate f g) (hf : IsAut1 n f) {t : Tab}
    (ht : TInv n t) : appP n op (some (gstate t)) = some (gstate (t.map f)) := by
  rw [appP_gate_aux n op f hok hinf hspec]
  have hf' : IsAut1 t.n f := by rw [ht.n_eq]; exact hf
  show some (specGate f (gstate t)) = _
  rw [(gate_tracks t f hf' ht.real).2]

/-- the six elementary one-qubit gates of `OneQubitGateWrapper.unwrap` as API calls -/
def genPrims (g : Cliff.Gen) (q : Nat) : List Tab.Op :=
  match g with
  | .I => [] | .H => [.h q] | .P => [.s q] | .X => [.x q] | .Y => [.y q] | .Z => [.z q]

theorem runP_single (n : Nat) (op : Tab.Op) (s : Option GState) : runP n [op] s = appP n op s := rfl

theorem gen1_refines {n : Nat} {t : Tab} (ht : TInv n t) (g : Cliff.Gen) (q : Nat) (hq : q < n) :
    runP n (genPrims g q) (some (gstate t)) = some (gstate (gen1 t g q)) ∧ TInv n (gen1 t g q) := by
  have hok : decide (q < n) = true := by simpa using hq
  cases g with
  | I => exact ⟨rfl, ht⟩
  | H => exact ⟨appP_gate_tab (.h q) (PRow.h q) hok (fun _ h => h) (fun _ => rfl) (isAut1_h n q hq) ht,
      ht.map _ (isAut1_h n q hq)⟩
  | P => exact ⟨appP_gate_tab (.s q) (PRow.s q) hok (fun _ h => h) (fun _ => rfl) (isAut1_s n q hq) ht,
      ht.map _ (isAut1_s n q hq)⟩
  | X => exact ⟨appP_gate_tab (.x q) (PRow.xg q) hok (fun _ h => h) (fun _ => rfl) (isAut1_xg n q hq) ht,
      ht.map _ (isAut1_xg n q hq)⟩
  | Y => exact ⟨appP_gate_tab (.y q) (PRow.yg q) hok (fun _ h => h) (fun _ => rfl) (isAut1_yg n q hq) ht,
      ht.map _ (isAut1_yg n q hq)⟩
  | Z => exact ⟨appP_gate_tab (.z q) (PRow.zg q) hok (fun _ h => h) (fun _ => rfl) (isAut1_zg n q hq) ht,
      ht.map _ (isAut1_zg n q hq)⟩

theorem runP_append (n : Nat) (l1 l2 : List Tab.Op) (s : Option GState) : runP n (l1 ++ l2) s = runP n l2 (runP n l1 s) := by
  simp [runP, List.foldl_append]

theorem gens_refine {n : Nat} (gs : List Cliff.Gen) (q : Nat) (hq : q < n) {t : Tab} (ht : TInv n t) :
    runP n (gs.flatMap fun g => genPrims g q) (some (gstate t)) = some (gstate (gs.foldl (fun t g => gen1 t g q) t)) ∧
      TInv n (gs.foldl (fun t g => gen1 t g q) t) := by
  induction gs generalizing t with
  | nil => exact ⟨rfl, ht⟩
  | cons g gs ih =>
    obtain ⟨h1, h2⟩ := gen1_refines ht g q hq
    rw [List.flatMap_cons, runP_append, h1, List.foldl_cons]
    exact ih h2

/-- the outcome a Z measurement records is feasible, and the measured tableau carries C07's post-measurement group for it -/
theorem meas_refines {n : Nat} {t : Tab} (ht : TInv n t) (q : Nat) (off : Bool) (hq : q < n) :
    appP n (.meas q (t.zMeasure q off).2.1) (some (gstate t)) = some (gstate (t.zMeasure q off).1) := by
  have hq' : q < t.n := by rw [ht.n_eq]; exact hq
  rw [appP_meas n q _ hq]
  have htr := measure_tracks t q off hq' ht.valid ht.real
  cases hp : t.pivot q with
  | some p =>
    have e : t.zMeasure q off = (t.measRandom q p off, off, p) := by simp [zMeasure, hp]
    have hR : Random (Grp t) q := (random_iff_pivot t q hq').mpr (by rw [hp]; rfl)
    have hfe : ¬ (gstate t).G (Zq q (!off)) := by
      intro hz
      have := pivot_none_of_Zq t ht.valid ht.real q hq' _ hz
      rw [hp] at this; cases this
    rw [e] at htr ⊢
    simp only [measStep, Option.bind_some, if_neg hfe]
    rw [htr]
  | none =>
    have e : t.zMeasure q off = (t, (t.measScratch q).r, 0) := by simp [zMeasure, hp]
    have hR : ¬ Random (Grp t) q := by
      intro h
      have := (random_iff_pivot t q hq').mp h
      rw [hp] at this; cases this
    have hfe : ¬ (gstate t).G (Zq q (!(t.measScratch q).r)) := by
      intro hz
      have := measScratch_r_of_Zq t ht.valid ht.real q hq' _ hz
      revert this; cases (t.measScratch q).r <;> simp
    rw [e]
    simp only [measStep, Option.bind_some, if_neg hfe]
    congr 1
    refine gstate_ext rfl ?_
    intro P
    show ((Random (Grp t) q ∧ _) ∨ (¬ Random (Grp t) q ∧ Grp t P)) ↔ Grp t P
    constructor
    · rintro (⟨h, _⟩ | ⟨_, h⟩)
      · exact absurd h hR
      · exact h
    · intro h; exact Or.inr ⟨hR, h⟩

/-- after the measurement, `(-1)^outcome Z_q` is a stabilizer -/
theorem meas_leaves_Zq {n : Nat} {t : Tab} (ht : TInv n t) (q : Nat) (off : Bool) (hq : q < n) :
    Grp (t.zMeasure q off).1 (Zq q (t.zMeasure q off).2.1) :=
  measure_leaves_Zq t q off (by rw [ht.n_eq]; exact hq) ht.valid ht.real

/-- **the reset inside `MeasurementCNOTandReset`**: on a tableau that has `(-1)^o Z_q` as a stabilizer (the qubit has just
    been measured with outcome `o`), `reset_z(q, 0, ·)` is `X_q` iff `o = 1`, whatever outcome is offered to its inner
    (deterministic) measurement -/
theorem resetZ_after_Zq {n : Nat} {t : Tab} (ht : TInv n t) (q : Nat) (o off : Bool) (hq : q < n) (hz : Grp t (Zq q o)) :
    t.resetZ q false off = if o then t.xGate q else t := by
  have hq' : q < t.n := by rw [ht.n_eq]; exact hq
  have hp := pivot_none_of_Zq t ht.valid ht.real q hq' o hz
  have hr := measScratch_r_of_Zq t ht.valid ht.real q hq' o hz
  rw [resetZ_det_eq t q false off hp, hr]
  cases o <;> simp

/-- a gate that does not touch `q` keeps `±Z_q` in the group -/
theorem map_keeps_Zq {n : Nat} {t : Tab} (ht : TInv n t) (f : PRow → PRow) (hf : IsAut1 n f) {S : Nat → Prop}
    (hl : Local S f) (q : Nat) (hqS : ¬ S q) (o : Bool) (hz : Grp t (Zq q o)) : Grp (t.map f) (Zq q o) := by
  have hf' : IsAut1 t.n f := by rw [ht.n_eq]; exact hf
  rw [map_grp t f hf']
  exact ⟨Zq q o, hz, (hl.fix_Zq hf'.one hqS o).symm⟩

theorem norm_grp_iff (t : Tab) (P : PRow) : Grp t.norm P ↔ Grp t P := norm_grp t P

/-! ## 2. one step of the compile loop -/

/-- does the operation measure (and so record an outcome)? -/
def cMeasures : COp → Bool
  | .ccx .. | .ccz .. | .mcr .. | .measz .. => true
  | _ => false

/-- the API calls of `compile_one_gate` for `op` when its measurement has outcome `o` -/
def copPrims (np : Nat) (op : COp) (o : Bool) : List Tab.Op :=
  let ix := qIndex np
  match op with
  | .gate1 g q => genPrims g (ix q)
  | .pdag q => [.sdg (ix q)]
  | .cnot c t => [.cnot (ix c) (ix t)]
  | .cz c t => [.cz (ix c) (ix t)]
  | .ccx c t _ => .meas (ix c) o :: (if o then [.x (ix t)] else [])
  | .ccz c t _ => .meas (ix c) o :: (if o then [.z (ix t)] else [])
  | .mcr c t _ => .meas (ix c) o :: (if o then [.x (ix t), .x (ix c)] else [])
  | .measz q _ => [.meas (ix q) o]
  | .wrap gs q => gs.reverse.flatMap fun g => genPrims g (ix q)

/-- well-formedness of the measuring pair operations: control and target are different qubits -/
def cWF2 (np : Nat) : COp → Prop
  | .cnot c t | .cz c t | .mcr c t _ => qIndex np c ≠ qIndex np t
  | _ => True

theorem measure_fields (s : RunState) (d : Det) (q : Nat) :
    ∃ off, (s.measure d q).1.t = (s.t.zMeasure q off).1.norm ∧ (s.measure d q).2 = (s.t.zMeasure q off).2.1 ∧
      (s.measure d q).1.outs = s.outs ++ [(s.t.zMeasure q off).2.1] :=
  ⟨(s.offer d (s.t.pivot q).isSome).1, rfl, rfl, rfl⟩

/-- **one step of the compile loop refines the group semantics**: under every measurement setting and outcome script, the
    step appends to `outs` the outcome `o` it recorded (if the operation measures), and the stabilizer group of the new
    tableau is `runP (copPrims op o)` of the old one — so `o` is feasible in the group semantics -/
theorem cop_refines (np n : Nat) (d : Det) (s s' : RunState) (op : COp) (hwf : cWF2 np op) (ht : TInv n s.t)
    (hs : stepOp np n d s op = some s') :
    TInv n s'.t ∧ ∃ new : List Bool, s'.outs = s.outs ++ new ∧ new.length = (if cMeasures op then 1 else 0) ∧
      runP n (copPrims np op (new.headD false)) (some (gstate s.t)) = some (gstate s'.t) := by
  cases op with
  | gate1 g q =>
    simp only [stepOp] at hs
    split at hs
    · next hq =>
      injection hs with hs; subst hs
      obtain ⟨h1, h2⟩ := gen1_refines ht g _ hq
      exact ⟨h2.norm, [], by simp, rfl, by rw [norm_gstate]; exact h1⟩
    · cases hs
  | pdag q =>
    simp only [stepOp] at hs
    split at hs
    · next hq =>
      injection hs with hs; subst hs
      have hok : decide (qIndex np q < n) = true := by simpa using hq
      refine ⟨(ht.map _ (isAut1_sdg n _ hq)).norm, [], by simp, rfl, ?_⟩
      rw [norm_gstate]
      exact appP_gate_tab (.sdg _) (PRow.sdg _) hok (fun _ h => h) (fun _ => rfl) (isAut1_sdg n _ hq) ht
    · cases hs
  | cnot c t =>
    simp only [stepOp] at hs
    split at hs
    · next hq =>
      injection hs with hs; subst hs
      have hok : decide (qIndex np c < n ∧ qIndex np t < n ∧ qIndex np c ≠ qIndex np t) = true := by
        simpa using ⟨hq.1, hq.2, hwf⟩
      refine ⟨(ht.map _ (isAut1_cnot n _ _ hq.1 hq.2 hwf)).norm, [], by simp, rfl, ?_⟩
      rw [norm_gstate]
      exact appP_gate_tab (.cnot _ _) (PRow.cnot _ _) hok (fun _ h => h) (fun _ => rfl) (isAut1_cnot n _ _ hq.1 hq.2 hwf) ht
    · cases hs
  | cz c t =>
    simp only [stepOp] at hs
    split at hs
    · next hq =>
      injection hs with hs; subst hs
      have hok : decide (qIndex np c < n ∧ qIndex np t < n ∧ qIndex np c ≠ qIndex np t) = true := by
        simpa using ⟨hq.1, hq.2, hwf⟩
      refine ⟨(ht.map _ (isAut1_cz n _ _ hq.1 hq.2 hwf)).norm, [], by simp, rfl, ?_⟩
      rw [norm_gstate]
      exact appP_gate_tab (.cz _ _) (PRow.cz _ _) hok (fun _ h => h) (fun _ => rfl) (isAut1_cz n _ _ hq.1 hq.2 hwf) ht
    · cases hs
  | measz q creg =>
    simp only [stepOp] at hs
    split at hs
    · next hq =>
      injection hs with hs; subst hs
      obtain ⟨off, e1, e2, e3⟩ := measure_fields s d (qIndex np q)
      refine ⟨?_, [(s.t.zMeasure (qIndex np q) off).2.1], e3, rfl, ?_⟩
      · show TInv n (s.measure d (qIndex np q)).1.t
        rw [e1]; exact (ht.meas _ off hq).norm
      · show runP n [.meas (qIndex np q) _] _ = some (gstate (s.measure d (qIndex np q)).1.t)
        rw [e1, norm_gstate]
        exact meas_refines ht _ off hq
    · cases hs
  | ccx c t creg =>
    simp only [stepOp] at hs
    split at hs
    · next hq =>
      injection hs with hs; subst hs
      obtain ⟨off, e1, e2, e3⟩ := measure_fields s d (qIndex np c)
      have hm := (ht.meas _ off hq.1).norm
      have hmr := meas_refines ht _ off hq.1
      refine ⟨?_, [(s.t.zMeasure (qIndex np c) off).2.1], e3, rfl, ?_⟩
      · show TInv n (if (s.measure d (qIndex np c)).2 = true then _ else _)
        rw [e1]
        split
        · exact (hm.map _ (isAut1_xg n _ hq.2)).norm
        · exact hm
      · show runP n (.meas (qIndex np c) _ :: _) _ =
          some (gstate (if (s.measure d (qIndex np c)).2 = true then _ else _))
        simp only [List.headD_cons]
        rw [runP_cons, hmr, e1, e2]
        cases (s.t.zMeasure (qIndex np c) off).2.1
        · simp only [Bool.false_eq_true, if_false]; rw [runP_nil, norm_gstate]
        · simp only [if_true]
          rw [runP_single, norm_gstate, ← norm_gstate (s.t.zMeasure (qIndex np c) off).1]
          exact appP_gate_tab (.x _) (PRow.xg _) (by simpa [primOk] using hq.2) (fun _ h => h) (fun _ => rfl) (isAut1_xg n _ hq.2) hm
    · cases hs
  | ccz c t creg =>
    simp only [stepOp] at hs
    split at hs
    · next hq =>
      injection hs with hs; subst hs
      obtain ⟨off, e1, e2, e3⟩ := measure_fields s d (qIndex np c)
      have hm := (ht.meas _ off hq.1).norm
      have hmr := meas_refines ht _ off hq.1
      refine ⟨?_, [(s.t.zMeasure (qIndex np c) off).2.1], e3, rfl, ?_⟩
      · show TInv n (if (s.measure d (qIndex np c)).2 = true then _ else _)
        rw [e1]
        split
        · exact (hm.map _ (isAut1_zg n _ hq.2)).norm
        · exact hm
      · show runP n (.meas (qIndex np c) _ :: _) _ =
          some (gstate (if (s.measure d (qIndex np c)).2 = true then _ else _))
        simp only [List.headD_cons]
        rw [runP_cons, hmr, e1, e2]
        cases (s.t.zMeasure (qIndex np c) off).2.1
        · simp only [Bool.false_eq_true, if_false]; rw [runP_nil, norm_gstate]
        · simp only [if_true]
          rw [runP_single, norm_gstate, ← norm_gstate (s.t.zMeasure (qIndex np c) off).1]
          exact appP_gate_tab (.z _) (PRow.zg _) (by simpa [primOk] using hq.2) (fun _ h => h) (fun _ => rfl) (isAut1_zg n _ hq.2) hm
    · cases hs
  | mcr c t creg =>
    simp only [stepOp] at hs
    split at hs
    · next hq =>
      injection hs with hs; subst hs
      obtain ⟨off, e1, e2, e3⟩ := measure_fields s d (qIndex np c)
      have hm := (ht.meas _ off hq.1).norm
      have hmr := meas_refines ht _ off hq.1
      have hz1 : Grp (s.t.zMeasure (qIndex np c) off).1.norm (Zq (qIndex np c) (s.t.zMeasure (qIndex np c) off).2.1) :=
        (norm_grp_iff _ _).mpr (meas_leaves_Zq ht _ off hq.1)
      have hfin : ∃ off2, ((((s.measure d (qIndex np c)).1.condX (s.measure d (qIndex np c)).2 (qIndex np t)).write creg
            (s.measure d (qIndex np c)).2).resetQ d (qIndex np c)).t =
          ((if (s.measure d (qIndex np c)).2 = true then ((s.measure d (qIndex np c)).1.t.xGate (qIndex np t)).norm
            else (s.measure d (qIndex np c)).1.t).resetZ (qIndex np c) false off2).norm := ⟨_, rfl⟩
      obtain ⟨off2, e4⟩ := hfin
      refine ⟨?_, [(s.t.zMeasure (qIndex np c) off).2.1], e3, rfl, ?_⟩
      · rw [e4, e1]
        split
        · exact ((hm.map _ (isAut1_xg n _ hq.2)).norm.reset _ _ _ hq.1).norm
        · exact (hm.reset _ _ _ hq.1).norm
      · simp only [List.headD_cons]
        rw [e4, copPrims]
        rw [runP_cons, hmr, e1, e2, norm_gstate]
        revert hz1
        cases (s.t.zMeasure (qIndex np c) off).2.1
        · intro hz1
          simp only [Bool.false_eq_true, if_false]
          rw [runP_nil, resetZ_after_Zq hm _ false off2 hq.1 hz1]
          simp only [Bool.false_eq_true, if_false]
          rw [norm_gstate]
        · intro hz1
          simp only [if_true]
          have hx : TInv n ((s.t.zMeasure (qIndex np c) off).1.norm.xGate (qIndex np t)).norm :=
            (hm.map _ (isAut1_xg n _ hq.2)).norm
          have hz2 : Grp ((s.t.zMeasure (qIndex np c) off).1.norm.xGate (qIndex np t)).norm (Zq (qIndex np c) true) :=
            (norm_grp_iff _ _).mpr (map_keeps_Zq hm _ (isAut1_xg n _ hq.2) (local_xg _) _ (fun h => hwf h) true hz1)
          rw [resetZ_after_Zq hx _ true off2 hq.1 hz2]
          simp only [if_true]
          rw [runP_cons, runP_single, ← norm_gstate (s.t.zMeasure (qIndex np c) off).1,
            appP_gate_tab (.x _) (PRow.xg _) (by simpa [primOk] using hq.2) (fun _ h => h) (fun _ => rfl) (isAut1_xg n _ hq.2) hm,
            ← norm_gstate ((s.t.zMeasure (qIndex np c) off).1.norm.map (PRow.xg (qIndex np t)))]
          exact appP_gate_tab (.x _) (PRow.xg _) (by simpa [primOk] using hq.1) (fun _ h => h) (fun _ => rfl) (isAut1_xg n _ hq.1) hx
    · cases hs
  | wrap gs q =>
    simp only [stepOp] at hs
    split at hs
    · next hq =>
      injection hs with hs; subst hs
      obtain ⟨h1, h2⟩ := gens_refine gs.reverse _ hq ht
      exact ⟨h2.norm, [], by simp, rfl, by rw [norm_gstate]; exact h1⟩
    · cases hs

/-! ## 3. operations of the compile sequence as circuit operations -/

/-- register of the compile loop (`c`-type registers never carry a gate; junk value) -/
def toQReg (r : Reg) : QReg := ⟨match r.ty with | .e => .e | _ => .p, r.idx⟩

theorem regIx_qIndex {ne np : Nat} {r : Reg} {q : Nat} (h : regIx ne np r = some q) : qIndex np (toQReg r) = q := by
  obtain ⟨ty, idx⟩ := r
  rcases regIx_spec h with ⟨h0, _, h2⟩ | ⟨h0, _, h2⟩ <;> simp only at h0 h2 <;> subst h0 <;> subst h2 <;> rfl

def g1COp (g : G1) (q : QReg) : COp :=
  match g with
  | .I => .gate1 .I q | .H => .gate1 .H q | .P => .gate1 .P q | .Pdg => .pdag q
  | .X => .gate1 .X q | .Y => .gate1 .Y q | .Z => .gate1 .Z q

def pairCOp (k : Kind) (c t : QReg) (cr : Nat) : COp :=
  match k with
  | .cnot => .cnot c t | .cz => .cz c t | .ccnot => .ccx c t cr | .ccz => .ccz c t cr | .mcr => .mcr c t cr
  | _ => .gate1 .I c

/-- the circuit operation `compile_one_gate` receives for an operation of the compile sequence (junk on malformed input) -/
def toCOp (a : SOp) : COp :=
  match a.item, a.regs with
  | .g g, [r] => g1COp g (toQReg r)
  | .node .measZ _ cr, [r] => .measz (toQReg r) (cr.headD 0)
  | .node k _ cr, [c, t] => pairCOp k (toQReg c) (toQReg t) (cr.headD 0)
  | _, _ => .gate1 .I ⟨.p, 0⟩

theorem g1Prims_eq (np : Nat) (g : G1) (r : QReg) : ∀ o, g1Prims g (qIndex np r) = copPrims np (g1COp g r) o := by
  intro o; cases g <;> rfl

/-- a decodable operation with distinct registers is the circuit operation `toCOp a`: same primitives, same "measures" flag,
    and the circuit operation satisfies the compiler's precondition (control ≠ target) -/
theorem decode_toCOp (ne np : Nat) (a : SOp) (d : Dec) (hdec : decode ne np a = some d) (hnd : a.regs.Nodup) :
    cWF2 np (toCOp a) ∧ (∀ o, d.prims o = copPrims np (toCOp a) o) ∧ d.mreg.isSome = cMeasures (toCOp a) := by
  have h := hdec
  unfold decode at h
  unfold toCOp
  split at h
  · next g r hitem hregs =>
    rw [hitem, hregs]
    cases hq : regIx ne np r with
    | none => rw [hq] at h; cases h
    | some q =>
      rw [hq] at h
      simp only [Option.map_some, Option.some.injEq] at h
      subst h
      have hix := regIx_qIndex hq
      refine ⟨?_, fun o => ?_, ?_⟩
      · cases g <;> trivial
      · show g1Prims g q = _
        rw [← hix]; exact g1Prims_eq np g _ o
      · cases g <;> rfl
  · next _ cr r hitem hregs =>
    rw [hitem, hregs]
    cases hq : regIx ne np r with
    | none => rw [hq] at h; cases h
    | some q =>
      rw [hq] at h
      simp only [Option.map_some, Option.some.injEq] at h
      subst h
      have hix := regIx_qIndex hq
      refine ⟨trivial, fun o => ?_, rfl⟩
      show [Tab.Op.meas q o] = [Tab.Op.meas (qIndex np (toQReg r)) o]
      rw [hix]
  · next k _ cr c t hitem hregs =>
    rw [hregs] at hnd
    have hct : c ≠ t := by
      intro e; subst e; simp at hnd
    split at h
    · next qc qt hc ht =>
      have hixc := regIx_qIndex hc
      have hixt := regIx_qIndex ht
      have hne : qc ≠ qt := fun e => hct (regIx_inj hc (e ▸ ht))
      rw [hitem, hregs]
      cases k <;> simp only [pairPrims, Option.some.injEq, reduceCtorEq] at h
      all_goals subst h
      all_goals refine ⟨?_, fun o => ?_, rfl⟩
      all_goals first
        | (show qIndex np (toQReg c) ≠ qIndex np (toQReg t); rw [hixc, hixt]; exact hne)
        | trivial
        | (simp only [pairCOp, copPrims, hixc, hixt])
    · cases h
  · cases h

/-! ## 4. a whole run -/

def pushOut (sc : Script) (r : Reg) (o : Bool) : Script := fun r' => if r' = r then o :: sc r' else sc r'

theorem popReg_pushOut (sc : Script) (r : Reg) (o : Bool) : popReg (pushOut sc r o) r = sc := by
  funext r'
  unfold popReg pushOut
  by_cases h : r' = r <;> simp [h]

/-- the outcome streams of a run: the recorded outcomes `outs` (one per measuring operation, in execution order) prepended,
    operation by operation, to the stream of the measured register -/
def feed (ne np : Nat) : List SOp → List Bool → Script → Script
  | [], _, sc => sc
  | a :: l, outs, sc =>
    match (decode ne np a).bind Dec.mreg with
    | some r => pushOut (feed ne np l outs.tail sc) r (outs.headD false)
    | none => feed ne np l outs sc

/-- one operation: the compile step refines `appRaw` on streams that start with the recorded outcome -/
theorem sop_refines (ne np : Nat) (d : Det) (a : SOp) (hdec : (decode ne np a).isSome = true) (hnd : a.regs.Nodup)
    (s s' : RunState) (ht : TInv (ne + np) s.t) (hs : stepOp np (ne + np) d s (toCOp a) = some s') :
    TInv (ne + np) s'.t ∧ ∃ new : List Bool, s'.outs = s.outs ++ new ∧
      ∀ l rest sc, runSeq (appRaw ne np) (a :: l) (some (gstate s.t, feed ne np (a :: l) (new ++ rest) sc)) =
        runSeq (appRaw ne np) l (some (gstate s'.t, feed ne np l rest sc)) := by
  obtain ⟨dd, hdd⟩ := Option.isSome_iff_exists.mp hdec
  obtain ⟨hwf, hpr, hms⟩ := decode_toCOp ne np a dd hdd hnd
  obtain ⟨ht', new, hnew, hlen, hrun⟩ := cop_refines np (ne + np) d s s' (toCOp a) hwf ht hs
  refine ⟨ht', new, hnew, ?_⟩
  intro l rest sc
  rw [Wire.runSeq_cons]
  congr 1
  have e0 := appRaw_map ne np a dd hdd (some (gstate s.t))
  simp only [Option.map_some] at e0
  rw [e0]
  cases hm : dd.mreg with
  | none =>
    have hmf : cMeasures (toCOp a) = false := by rw [← hms, hm]; rfl
    rw [hmf] at hlen
    have hnil : new = [] := List.length_eq_zero_iff.mp (by simpa using hlen)
    subst hnil
    have hfeed : feed ne np (a :: l) ([] ++ rest) sc = feed ne np l rest sc := by
      simp only [feed, hdd, Option.bind_some, hm, List.nil_append]
    have hout : dd.out (feed ne np l rest sc) = false := by simp [Dec.out, hm]
    have hhas : dd.has (feed ne np l rest sc) := by simp [Dec.has, hm]
    simp only [List.headD_nil] at hrun
    rw [hfeed, if_pos hhas, hout, hpr, hrun]
    simp only [Option.map_some, Dec.pop, hm]
  | some r =>
    have hmt : cMeasures (toCOp a) = true := by rw [← hms, hm]; rfl
    rw [hmt] at hlen
    obtain ⟨o, ho⟩ : ∃ o, new = [o] := List.length_eq_one_iff.mp (by simpa using hlen)
    subst ho
    have hfeed : feed ne np (a :: l) ([o] ++ rest) sc = pushOut (feed ne np l rest sc) r o := by
      simp only [feed, hdd, Option.bind_some, hm, List.singleton_append, List.tail_cons, List.headD_cons]
    have hout : dd.out (pushOut (feed ne np l rest sc) r o) = o := by
      simp [Dec.out, hm, pushOut]
    have hhas : dd.has (pushOut (feed ne np l rest sc) r o) := by simp [Dec.has, hm, pushOut]
    rw [hfeed, if_pos hhas, hout, hpr]
    simp only [List.headD_cons] at hrun
    rw [hrun]
    simp only [Option.map_some, Dec.pop, hm, popReg_pushOut]

/-- **a whole run of the stabilizer compile loop refines the group semantics**: if the loop, under any measurement setting
    and outcome script, runs the operations `l` from a valid tableau `s.t` to `s'`, recording the outcomes `new`, then the
    group semantics run on the outcome streams made of `new` is possible and ends in the stabilizer group of `s'.t`, with
    every recorded outcome read -/
theorem run_refines (ne np : Nat) (d : Det) (l : List SOp)
    (hok : ∀ a, a ∈ l → (decode ne np a).isSome = true ∧ a.regs.Nodup) (s s' : RunState) (ht : TInv (ne + np) s.t)
    (hs : (l.map toCOp).foldlM (stepOp np (ne + np) d) s = some s') :
    TInv (ne + np) s'.t ∧ ∃ new : List Bool, s'.outs = s.outs ++ new ∧
      ∀ sc, runSeq (appRaw ne np) l (some (gstate s.t, feed ne np l new sc)) = some (gstate s'.t, sc) := by
  induction l generalizing s with
  | nil =>
    simp only [List.map_nil, List.foldlM, Option.pure_def, Option.some.injEq] at hs
    subst hs
    exact ⟨ht, [], by simp, fun sc => rfl⟩
  | cons a l ih =>
    simp only [List.map_cons, List.foldlM] at hs
    cases h1 : stepOp np (ne + np) d s (toCOp a) with
    | none => rw [h1] at hs; simp at hs
    | some s1 =>
      rw [h1] at hs
      simp only [Option.bind_eq_bind, Option.bind_some] at hs
      obtain ⟨hd1, hd2⟩ := hok a List.mem_cons_self
      obtain ⟨ht1, new1, hn1, hr1⟩ := sop_refines ne np d a hd1 hd2 s s1 ht h1
      obtain ⟨ht', new2, hn2, hr2⟩ := ih (fun b hb => hok b (List.mem_cons_of_mem _ hb)) s1 ht1 hs
      refine ⟨ht', new1 ++ new2, by rw [hn2, hn1, List.append_assoc], fun sc => ?_⟩
      rw [hr1 l new2 sc, hr2 sc]

/-- the outcomes recorded by the measuring operations on register `r`, in execution order (`outs`: one outcome per measuring
    operation of `l`, in execution order) -/
def outsOn (ne np : Nat) : List SOp → List Bool → Reg → List Bool
  | [], _, _ => []
  | a :: l, outs, r =>
    match (decode ne np a).bind Dec.mreg with
    | some r' => (if r = r' then [outs.headD false] else []) ++ outsOn ne np l outs.tail r
    | none => outsOn ne np l outs r

/-- the outcome streams built by `feed` from empty streams are, register by register, the outcomes recorded on that register -/
theorem feed_apply (ne np : Nat) (l : List SOp) (outs : List Bool) (r : Reg) :
    feed ne np l outs (fun _ => []) r = outsOn ne np l outs r := by
  induction l generalizing outs with
  | nil => rfl
  | cons a l ih =>
    unfold feed outsOn
    cases hm : (decode ne np a).bind Dec.mreg with
    | none => exact ih outs
    | some r' =>
      simp only [pushOut]
      by_cases h : r = r'
      · rw [if_pos h, if_pos h, ih]; rfl
      · rw [if_neg h, if_neg h, ih]; rfl

/-- "every measuring operation recorded the same outcome in both runs": the streams agree iff on every register the recorded
    outcomes agree -/
theorem feed_eq_iff (ne np ne' np' : Nat) (l l' : List SOp) (outs outs' : List Bool) :
    feed ne np l outs (fun _ => []) = feed ne' np' l' outs' (fun _ => []) ↔
      ∀ r, outsOn ne np l outs r = outsOn ne' np' l' outs' r := by
  constructor
  · intro h r
    rw [← feed_apply, ← feed_apply, h]
  · intro h
    funext r
    rw [feed_apply, feed_apply, h]

end Graphiq.Commute
