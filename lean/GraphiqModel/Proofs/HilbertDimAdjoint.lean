/-
  Proofs/HilbertDimAdjoint.lean — `ptraceSite` / `ptraceList` satisfy the *defining property* of the partial trace:
  they are the adjoints, for the trace pairing, of the embedding `A ↦ A ⊗ 1` of operators on the kept qubits,

      tr( Tr_q(M) · A ) = tr( M · (A ⊗_q 1) )     for every operator `A` on the remaining qubits,

  and this property determines `Tr_q M` uniquely.  The embedding of a Pauli row is the row with identities inserted
  (`embedCols`, the map in the group-level specification of `partial_trace`).
-/
import GraphiqModel.Proofs.HilbertDimPtrace
namespace Graphiq
namespace Hilbert
open Matrix PRow TabSpec Tab

/-- sum over `Bits (m+1)` as a sum over (the other bits, bit `q`) -/
theorem sum_bits_site {m : Nat} (q : Nat) (hq : q ≤ m) (f : Bits (m + 1) → ℂ) :
    ∑ x, f x = ∑ a : Bits m, (f (insB q a false) + f (insB q a true)) := by
  rw [← Fintype.sum_equiv (siteEquiv q hq).symm (fun p : Bits m × Bool => f (insB q p.1 p.2)) f (fun _ => rfl),
    Fintype.sum_prod_type]
  apply Finset.sum_congr rfl
  intro a _
  rw [Fintype.sum_bool, add_comm]

/-- **defining property of the partial trace over one site** -/
theorem ptraceSite_adjoint {m : Nat} (q : Nat) (hq : q ≤ m) (M : Matrix (Bits (m + 1)) (Bits (m + 1)) ℂ)
    (A : Matrix (Bits m) (Bits m) ℂ) :
    Matrix.trace (ptraceSite q M * A) = Matrix.trace (M * insSite q A 1) := by
  unfold Matrix.trace
  simp only [Matrix.diag_apply, Matrix.mul_apply]
  rw [sum_bits_site q hq]
  apply Finset.sum_congr rfl
  intro a _
  rw [sum_bits_site q hq, sum_bits_site q hq, ← Finset.sum_add_distrib]
  apply Finset.sum_congr rfl
  intro b _
  simp only [ptraceSite_apply, insSite_apply, delB_insB, bx_insB_self q hq, Matrix.one_apply]
  simp
  ring

/-- the trace pairing separates matrices -/
theorem eq_of_trace_mul_eq {ι : Type} [Fintype ι] [DecidableEq ι] (N N' : Matrix ι ι ℂ)
    (h : ∀ A : Matrix ι ι ℂ, Matrix.trace (N * A) = Matrix.trace (N' * A)) : N = N' := by
  ext i j
  have := h (Matrix.single j i 1)
  rw [Matrix.trace_mul_single, Matrix.trace_mul_single] at this
  simpa using this

/-- … and it characterises `Tr_q M` -/
theorem ptraceSite_unique {m : Nat} (q : Nat) (hq : q ≤ m) (M : Matrix (Bits (m + 1)) (Bits (m + 1)) ℂ)
    (N : Matrix (Bits m) (Bits m) ℂ) (h : ∀ A, Matrix.trace (N * A) = Matrix.trace (M * insSite q A 1)) :
    N = ptraceSite q M :=
  eq_of_trace_mul_eq _ _ (fun A => by rw [h A, ptraceSite_adjoint q hq])

/-! ### lists of sites -/

/-- `A ⊗ 1` at the sites of `rem` (the operator counterpart of `embedCols`) -/
noncomputable def embedOp {m : Nat} : (rem : List Nat) → Matrix (Bits m) (Bits m) ℂ →
    Matrix (Bits (m + rem.length)) (Bits (m + rem.length)) ℂ
  | [], A => A
  | q :: rest, A => insSite q (embedOp rest A) 1

/-- **defining property of the partial trace over a removal list** -/
theorem ptraceList_adjoint {m : Nat} (rem : List Nat) (hlt : ∀ q, q ∈ rem → q < m + rem.length)
    (hpw : rem.Pairwise (· > ·)) (M : Matrix (Bits (m + rem.length)) (Bits (m + rem.length)) ℂ)
    (A : Matrix (Bits m) (Bits m) ℂ) :
    Matrix.trace (ptraceList rem M * A) = Matrix.trace (M * embedOp rem A) := by
  induction rem with
  | nil => rfl
  | cons q rest ih =>
    have hp := List.pairwise_cons.mp hpw
    have hq : q < m + (rest.length + 1) := hlt q List.mem_cons_self
    show Matrix.trace (ptraceList rest (ptraceSite q M) * A) = Matrix.trace (M * insSite q (embedOp rest A) 1)
    rw [ih (fun q' hq' => by have := hp.1 q' hq'; omega) hp.2, ptraceSite_adjoint q (by omega)]

theorem ptraceList_unique {m : Nat} (rem : List Nat) (hlt : ∀ q, q ∈ rem → q < m + rem.length)
    (hpw : rem.Pairwise (· > ·)) (M : Matrix (Bits (m + rem.length)) (Bits (m + rem.length)) ℂ)
    (N : Matrix (Bits m) (Bits m) ℂ) (h : ∀ A, Matrix.trace (N * A) = Matrix.trace (M * embedOp rem A)) :
    N = ptraceList rem M :=
  eq_of_trace_mul_eq _ _ (fun A => by rw [h A, ptraceList_adjoint rem hlt hpw])

/-- the embedding of the matrix of a Pauli row is the matrix of the row with identities inserted (`embedCols`) -/
theorem pauliMat_embedCols {m : Nat} (rem : List Nat) (hlt : ∀ q, q ∈ rem → q < m + rem.length)
    (hpw : rem.Pairwise (· > ·)) (P : PRow) :
    pauliMat (m + rem.length) (embedCols rem P) = embedOp rem (pauliMat m P) := by
  induction rem with
  | nil => rfl
  | cons q rest ih =>
    have hp := List.pairwise_cons.mp hpw
    have hq : q < m + (rest.length + 1) := hlt q List.mem_cons_self
    show pauliMat (m + rest.length + 1) ((embedCols rest P).insertCol q) = insSite q (embedOp rest (pauliMat m P)) 1
    rw [pauliMat_insertCol (m + rest.length) q (by omega), ih (fun q' hq' => by have := hp.1 q' hq'; omega) hp.2]

end Hilbert
end Graphiq
