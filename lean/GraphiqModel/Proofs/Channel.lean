/-
  Proofs/Channel.lean — channel identities for arbitrary dimension (Mathlib `Matrix` over ℂ).

  The density-matrix noise models of graphiq are mixtures of unitary conjugations, `ρ ↦ Σ_k f_k U_k ρ U_k†`
  (depolarizing: `U_k` the Pauli strings, `f = (1−p, p/3, p/3, p/3)`; Pauli error: one term; photon loss: `f = 1 − λ`,
  `U = 1`).  For every dimension: the trace is multiplied by `Σ f_k`, and positivity is preserved when `f_k ≥ 0`.
  The model's `DMx.depolarize` / `pauliError` / loss step are instances (same formula over ℚ[i] ⊂ ℂ).
-/
import Mathlib.LinearAlgebra.Matrix.PosDef
import Mathlib.LinearAlgebra.Matrix.Trace
import Mathlib.Analysis.Complex.Basic
import Mathlib.Analysis.Complex.Order
import Mathlib.Analysis.RCLike.Basic
namespace Graphiq.Channel
open Matrix
open scoped ComplexOrder

variable {n : Type} [Fintype n] [DecidableEq n] {K : Type} [Fintype K]

/-- mixture of unitary conjugations with weights `f` -/
noncomputable def mixUnitary (f : K → ℝ) (U : K → Matrix n n ℂ) (ρ : Matrix n n ℂ) : Matrix n n ℂ :=
  ∑ k, (f k : ℂ) • (U k * ρ * (U k)ᴴ)

/-- **trace bookkeeping**: `tr(Σ f_k U_k ρ U_k†) = (Σ f_k) · tr ρ` for unitary `U_k` -/
theorem trace_mixUnitary (f : K → ℝ) (U : K → Matrix n n ℂ) (hU : ∀ k, (U k)ᴴ * U k = 1) (ρ : Matrix n n ℂ) :
    (mixUnitary f U ρ).trace = ((∑ k, f k : ℝ) : ℂ) * ρ.trace := by
  unfold mixUnitary
  rw [Matrix.trace_sum]
  have : ∀ k, ((f k : ℂ) • (U k * ρ * (U k)ᴴ)).trace = (f k : ℂ) * ρ.trace := by
    intro k
    rw [Matrix.trace_smul, Matrix.trace_mul_cycle, hU k, Matrix.one_mul, smul_eq_mul]
  simp only [this, ← Finset.sum_mul]
  push_cast
  rfl

/-- **positivity is preserved** for non-negative weights (no unitarity needed) -/
theorem posSemidef_mixUnitary (f : K → ℝ) (hf : ∀ k, 0 ≤ f k) (U : K → Matrix n n ℂ) (ρ : Matrix n n ℂ)
    (hρ : ρ.PosSemidef) : (mixUnitary f U ρ).PosSemidef := by
  unfold mixUnitary
  apply Matrix.posSemidef_sum
  intro k _
  have h1 : (U k * ρ * (U k)ᴴ).PosSemidef := hρ.mul_mul_conjTranspose_same (U k)
  have h2 : (0 : ℝ) ≤ f k := hf k
  have := h1.smul (α := ℝ) h2
  convert this using 1
  ext i j
  simp [Matrix.smul_apply, Complex.real_smul]

/-- depolarizing factors `(1−p, p/3, p/3, p/3)` sum to one, so the depolarizing channel preserves the trace; they are
    non-negative for `0 ≤ p ≤ 1`, so it preserves positivity -/
theorem depol_factors (p : ℝ) : (1 - p) + p / 3 + p / 3 + p / 3 = 1 := by ring

/-- photon loss `ρ ↦ (1 − λ) ρ`: trace scaled by the survival probability, positivity preserved for `λ ≤ 1` -/
theorem loss_trace (lam : ℝ) (ρ : Matrix n n ℂ) : (((1 - lam : ℝ) : ℂ) • ρ).trace = ((1 - lam : ℝ) : ℂ) * ρ.trace := by
  rw [Matrix.trace_smul, smul_eq_mul]

theorem loss_posSemidef (lam : ℝ) (h : lam ≤ 1) (ρ : Matrix n n ℂ) (hρ : ρ.PosSemidef) :
    (((1 - lam : ℝ) : ℂ) • ρ).PosSemidef := by
  have := hρ.smul (α := ℝ) (a := 1 - lam) (by linarith)
  convert this using 1
  ext i j
  simp [Matrix.smul_apply, Complex.real_smul]

end Graphiq.Channel
