/-
  MetricsHistCheck.lean — a decidable checker for schedules (C18): `schedB c L` evaluates the predicate `Sched c P L` on the
  wires that `reg_gate_history` returns.  Sound on every circuit satisfying DagInv (`schedB_sound`), so a concrete list can be
  shown to be a schedule of a concrete circuit by kernel evaluation — used for the non-vacuity examples of Properties/C18.lean.
-/
import GraphiqModel.Proofs.MetricsHistDepth
set_option linter.unusedSectionVars false
set_option linter.unusedSimpArgs false
namespace Graphiq
namespace Metrics
open Dag Relation

/-- the existing registers -/
def liveRegs (c : Dag) : List Reg :=
  (List.range c.nE).map (Reg.mk .e) ++ (List.range c.nP).map (Reg.mk .p) ++ (List.range c.nC).map (Reg.mk .c)

theorem mem_liveRegs {c : Dag} {r : Reg} : r ∈ liveRegs c ↔ c.live r := by
  obtain ⟨t, i⟩ := r
  unfold liveRegs live regs
  cases t <;> simp

/-- the wire of a register as `reg_gate_history` returns it (empty for a register that does not exist) -/
def wireOf (c : Dag) (r : Reg) : List NodeId :=
  if c.live r then (match c.regGateHistory r with | .ok h => h | .error _ => []) else []

theorem wireOf_eq {c : Dag} {P : Paths} (h : Inv c P) (r : Reg) : wireOf c r = P r := by
  unfold wireOf
  by_cases hl : c.live r
  · rw [if_pos hl, regGateHistory_eq_wire h hl]
  · rw [if_neg hl, h.dead r hl]

/-- `wiredOp` computed from `reg_gate_history` -/
def wiredOpB (c : Dag) (n : NodeId) (o : Op) : Op :=
  { o with cregs := o.cregs.filter (fun j => (wireOf c ⟨.c, j⟩).contains n) }

theorem wiredOpB_eq {c : Dag} {P : Paths} (h : Inv c P) (n : NodeId) (o : Op) : wiredOpB c n o = wiredOp P n o := by
  unfold wiredOpB wiredOp
  congr 1
  apply List.filter_congr
  intro j _
  rw [wireOf_eq h]
  simp

/-- decidable schedule check -/
def schedB (c : Dag) (L : List (NodeId × Op)) : Bool :=
  (liveRegs c).all (fun r => wireOf c r == NodeId.inp r :: (schedWire L r ++ [NodeId.out r])) &&
  L.all (fun p => isOpNode p && (match c.opOf? p.1 with | some o => p.2 == wiredOpB c p.1 o | none => false)) &&
  (c.nodes.filter isOpNode).all (fun q => (L.map (·.1)).contains q.1) &&
  decide (L.map (·.1)).Nodup &&
  L.all (fun p => (opRegs p.2).all (fun r => decide (c.live r)))

theorem isOpNode_iff {p : NodeId × Op} : isOpNode p = true ↔ ∃ i, p.1 = NodeId.op i := by
  obtain ⟨n, o⟩ := p
  cases n <;> simp [isOpNode]

/-- **the checker is sound**: on a circuit satisfying DagInv, a list accepted by `schedB` is a schedule -/
theorem schedB_sound {c : Dag} {P : Paths} {L : List (NodeId × Op)} (g : Good c P) (h : schedB c L = true) : Sched c P L := by
  unfold schedB at h
  simp only [Bool.and_eq_true, List.all_eq_true, decide_eq_true_eq] at h
  obtain ⟨⟨⟨⟨h1, h2⟩, h3⟩, h4⟩, h5⟩ := h
  have hentry : ∀ p ∈ L, (∃ i, p.1 = NodeId.op i) ∧ ∃ o, (p.1, o) ∈ c.nodes ∧ p.2 = wiredOp P p.1 o := by
    intro p hp
    obtain ⟨ha, hb⟩ := h2 p hp
    refine ⟨isOpNode_iff.mp ha, ?_⟩
    cases ho : c.opOf? p.1 with
    | none => rw [ho] at hb; simp at hb
    | some o =>
      rw [ho] at hb
      simp only [beq_iff_eq] at hb
      exact ⟨o, (opOf_eq_some g.inv.ids_nodup).mp ho, by rw [hb, wiredOpB_eq g.inv]⟩
  refine ⟨?_, ?_, h4, ?_⟩
  · intro r hl
    have := h1 r (mem_liveRegs.mpr hl)
    simp only [beq_iff_eq] at this
    rw [← wireOf_eq g.inv r, this]
  · intro p
    constructor
    · exact hentry p
    · rintro ⟨⟨i, hi⟩, o, hm, ho⟩
      have hq := h3 (p.1, o) (mem_opNodes.mpr ⟨⟨i, hi⟩, hm⟩)
      simp only [List.contains_iff_mem] at hq
      obtain ⟨q, hqL, hq1⟩ := List.mem_map.mp hq
      obtain ⟨_, o', hm', ho'⟩ := hentry q hqL
      have : o' = o := by
        have e1 := (opOf_eq_some g.inv.ids_nodup).mpr hm'
        have e2 := (opOf_eq_some g.inv.ids_nodup).mpr hm
        rw [hq1, e2] at e1
        injection e1 with e1; exact e1.symm
      have hqp : q = p := Prod.ext hq1 (by rw [ho', ho, hq1, this])
      rw [← hqp]; exact hqL
  · intro p hp r hr
    exact h5 p hp r hr

/-- convenience: from DagInv -/
theorem schedB_sound' {c : Dag} {L : List (NodeId × Op)} (h : DagInv c) (hb : schedB c L = true) : ∃ P, Good c P ∧ Sched c P L := by
  obtain ⟨P, g⟩ := h
  exact ⟨P, g, schedB_sound g hb⟩

end Metrics
end Graphiq

/-! ## a computable canonical schedule: the specification as a function of the circuit's wires

  `compPos` is the position function of Proofs/Topo.lean (number of proper ancestors, ties broken by the index in the node
  list) computed with the model's breadth-first `ancestors` (proved to meet the networkx specification on every circuit
  satisfying DagInv).  `compSched c` sorts the operation nodes by it and attaches the wired operations read off
  `reg_gate_history`: a computable function of the circuit's observable wires and node operations only. -/
namespace Graphiq
namespace Metrics
open Dag Relation

/-- number of proper ancestors (model's breadth-first search), ties broken by the index in the node list -/
def compPos (c : Dag) (a : NodeId) : Nat :=
  (c.nodeIds.filter (fun x => (c.ancestors a).contains x)).length * (c.nodeIds.length + 1) + c.nodeIds.idxOf a

theorem compPos_eq_topoPos {c : Dag} {P : Paths} (g : Good c P) : compPos c = topoPos c := by
  funext a
  unfold compPos topoPos ancCount
  congr 2
  apply congrArg
  apply List.filter_congr
  intro x _
  have := ancestors_spec g a x
  by_cases h : TransGen c.E x a
  · simp [h, this.mpr h]
  · have h' : x ∉ c.ancestors a := fun hm => h (this.mp hm)
    simp [h, h']

/-- the canonical schedule: operation nodes sorted by `compPos`, operations as wired on the wires `reg_gate_history` returns -/
def compSched (c : Dag) : List (NodeId × Op) := schedOf c (wireOf c) (compPos c)

theorem compSched_eq {c : Dag} {P : Paths} (g : Good c P) : compSched c = schedOf c P (topoPos c) := by
  unfold compSched
  rw [compPos_eq_topoPos g]
  have : wireOf c = P := by funext r; exact wireOf_eq g.inv r
  rw [this]

/-- **the canonical schedule is a schedule** of every circuit satisfying DagInv -/
theorem compSched_sched {c : Dag} {P : Paths} (g : Good c P) : Sched c P (compSched c) := by
  rw [compSched_eq g]
  have hlin : LinearExt c (topoPos c) := by
    intro e he
    have hE : c.E e.src e.dst := ⟨e, he, rfl, rfl⟩
    exact topoPos_lt (E_nodes g.inv hE).1 (ancCount_lt g hE)
  have hinj : ∀ a ∈ c.nodeIds, ∀ b ∈ c.nodeIds, topoPos c a = topoPos c b → a = b := by
    intro a ha b hb heq
    have hia : c.nodeIds.idxOf a < c.nodeIds.length := List.idxOf_lt_length_of_mem ha
    have hib : c.nodeIds.idxOf b < c.nodeIds.length := List.idxOf_lt_length_of_mem hb
    rcases Nat.lt_trichotomy (ancCount c a) (ancCount c b) with hlt | hEq | hgt
    · have := topoPos_lt ha hlt; omega
    · unfold topoPos at heq
      rw [hEq] at heq
      have hidx : c.nodeIds.idxOf a = c.nodeIds.idxOf b := by omega
      have e1 := List.getElem_idxOf hia
      have e2 := List.getElem_idxOf hib
      rw [← e1, ← e2]
      simp only [hidx]
    · have := topoPos_lt hb hgt; omega
  exact schedOf_sched g hlin hinj

/-- **the operation list of the circuit**, as a computable function of its wires and node operations: the wired operations
    in the canonical topological order -/
def wireOpList (c : Dag) : List Op := (compSched c).map (·.2)

end Metrics
end Graphiq
