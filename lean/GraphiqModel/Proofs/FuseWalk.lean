/-
  FuseWalk.lean — `group_one_qubit_gates` on one register: the backward walk of the code (`groupWalk`) transforms the
  operation sequence of the register's wire by `fuseBack` (Proofs/Fuse.lean) and leaves every other wire alone.
-/
import GraphiqModel.Proofs.Fuse
set_option linter.unusedSectionVars false
set_option linter.unusedSimpArgs false
namespace Graphiq
namespace Dag
open Relation Metrics

/-! ## edge lookups along a wire -/

theorem edgeFromReg_in {c : Dag} {P : Paths} (h : Inv c P) {r : Reg} {u n : NodeId} (hc : Consec (P r) u n) :
    edgeFromReg (c.inEdges n) r = some ⟨u, n, r⟩ := by
  unfold edgeFromReg
  have hmem : (⟨u, n, r⟩ : Edge) ∈ c.inEdges n := by
    simp [inEdges, (h.edges_iff ⟨u, n, r⟩).mpr hc]
  cases hf : (c.inEdges n).find? (fun e => e.key = r) with
  | none =>
    have := List.find?_eq_none.mp hf _ hmem
    simp at this
  | some e =>
    have he := List.mem_of_find?_eq_some hf
    have hk : e.key = r := by simpa using List.find?_some hf
    have hdst : e.dst = n := by simpa [inEdges] using (List.mem_filter.mp he).2
    have he' : e ∈ c.edges := (List.mem_filter.mp he).1
    have hc' := (h.edges_iff e).mp he'
    rw [hk, hdst] at hc'
    have hsrc := consec_pred_unique (h.nodup r) hc' hc
    obtain ⟨s, d, k⟩ := e
    simp only at hk hdst hsrc
    rw [hk, hdst, hsrc]

theorem edgeFromReg_out {c : Dag} {P : Paths} (h : Inv c P) {r : Reg} {n m : NodeId} (hc : Consec (P r) n m) :
    edgeFromReg (c.outEdges n) r = some ⟨n, m, r⟩ := by
  unfold edgeFromReg
  have hmem : (⟨n, m, r⟩ : Edge) ∈ c.outEdges n := by
    simp [outEdges, (h.edges_iff ⟨n, m, r⟩).mpr hc]
  cases hf : (c.outEdges n).find? (fun e => e.key = r) with
  | none =>
    have := List.find?_eq_none.mp hf _ hmem
    simp at this
  | some e =>
    have he := List.mem_of_find?_eq_some hf
    have hk : e.key = r := by simpa using List.find?_some hf
    have hsrc : e.src = n := by simpa [outEdges] using (List.mem_filter.mp he).2
    have he' : e ∈ c.edges := (List.mem_filter.mp he).1
    have hc' := (h.edges_iff e).mp he'
    rw [hk, hsrc] at hc'
    have hdst := consec_succ_unique (h.nodup r) hc' hc
    obtain ⟨s, d, k⟩ := e
    simp only at hk hdst hsrc
    rw [hk, hdst, hsrc]

/-! ## `groupable` is a predicate of the operation held by the node -/

theorem groupable_eq {c : Dag} {P : Paths} (h : Inv c P) (n : NodeId) :
    c.groupable n = (match c.opOf? n with
      | some o => (indexKeysOf n o).contains "one-qubit" && o.kind.isOneQubitBase
      | none => false) := by
  unfold groupable
  cases ho : c.opOf? n with
  | none => simp
  | some o =>
    simp only
    congr 1
    have hiff : n ∈ dictGet c.nodeDict "one-qubit" ↔ "one-qubit" ∈ indexKeysOf n o := by
      rw [← List.count_pos_iff, h.nodeDict_ok, indexCount_pos_iff]
      unfold keysAt; rw [ho]
    by_cases hm : n ∈ dictGet c.nodeDict "one-qubit"
    · simp [hm, hiff.mp hm]
    · have : "one-qubit" ∉ indexKeysOf n o := fun hh => hm (hiff.mpr hh)
      simp [hm, this]

theorem groupable_op {c : Dag} {P : Paths} (h : Inv c P) {i : Nat} {o : Op} (hm : (NodeId.op i, o) ∈ c.nodes) :
    c.groupable (.op i) = gOp o := by
  rw [groupable_eq h, (opOf_eq_some h.ids_nodup).mpr hm]
  rfl

theorem groupable_inp {c : Dag} {P : Paths} (h : Inv c P) (r : Reg) : c.groupable (.inp r) = false := by
  rw [groupable_eq h]
  cases c.opOf? (.inp r) with
  | none => rfl
  | some o => simp [indexKeysOf]

/-! ## inserting a one-register operation on one edge of the register's wire -/

theorem insertOn_refines {c : Dag} {P : Paths} (g : Good c P) {w : Op} (hwf : OpWF w) {r : Reg} (hq : w.qregs = [r])
    (hc : w.cregs = []) {l1 l2 : List NodeId} {u v : NodeId} (hP : P r = l1 ++ u :: v :: l2) :
    ∃ P', Good (c.insertAt w [⟨u, v, r⟩]).1 P' ∧ (c.insertAt w [⟨u, v, r⟩]).2 = none ∧
      P' r = l1 ++ u :: .op (c.nodeId + 1) :: v :: l2 ∧ (∀ k, k ≠ r → P' k = P k) ∧
      (c.insertAt w [⟨u, v, r⟩]).1.nodes = c.nodes ++ [(.op (c.nodeId + 1), w)] ∧
      (c.insertAt w [⟨u, v, r⟩]).1.regs = c.regs := by
  have hedge : (⟨u, v, r⟩ : Edge) ∈ c.edges := (g.inv.edges_iff _).mpr (consec_iff_append.mpr ⟨l1, l2, hP⟩)
  have hlive : c.live r := g.inv.live_of_edge hedge
  have hens : c.ensureRegs w = (c, none) := by
    apply ensureRegs_live_eq g.inv (by rw [hq]; simp)
    intro r' hr'; unfold opRegs at hr'; rw [hq, hc] at hr'; simp at hr'; subst hr'; exact hlive
  have hok : InsertOK c w [⟨u, v, r⟩] := by
    refine ⟨by simpa using hedge, by simp [hq], ?_⟩
    intro e1 he1 e2 he2 hne
    simp at he1 he2; subst he1 he2; exact absurd rfl hne
  have heq : c.insertAt w [⟨u, v, r⟩] = c.insertAt_ w [⟨u, v, r⟩] := by
    unfold insertAt; rw [hens]; simp [hq]
  obtain ⟨h1, P1, g1, hr1, _, h4, _⟩ := insertAt_good' g hwf hok
  obtain ⟨P', hinv', hother, hsplice⟩ := insertAt_refines g hwf hok
  rw [heq]
  have hPeq : ∀ k, P1 k = P' k := fun k => g1.inv.paths_unique hinv' k
  refine ⟨P1, g1, h1, ?_, ?_, h4, hr1⟩
  · obtain ⟨m1, m2, hl, hl'⟩ := hsplice ⟨u, v, r⟩ (by simp)
    simp only at hl hl'
    rw [hPeq r, hl']
    have hnd := g.inv.nodup r
    have e1 : m1 ++ u :: v :: m2 = (m1 ++ [u]) ++ v :: m2 := by simp
    have e2 : l1 ++ u :: v :: l2 = (l1 ++ [u]) ++ v :: l2 := by simp
    rw [hl, e1] at hP
    rw [hl, e1] at hnd
    rw [e2] at hP
    obtain ⟨hX, hY⟩ := split_unique hnd hP
    have hX' : m1 = l1 := List.append_cancel_right hX
    rw [hX', hY]
  · intro k hk
    rw [hPeq k]
    exact hother k (by simpa using hk)

/-! ## hypotheses on the circuit: graphiq-constructed operations -/

/-- the operations are plain (no user labels, wrappers wrap base classes) and every groupable operation is a one-qubit
    gate object: one quantum register, no classical register (what `OneQubitOperationBase` is) -/
structure GroupHyp (c : Dag) : Prop where
  plain : AllPlain c
  shape : ∀ i o, (NodeId.op i, o) ∈ c.nodes → gOp o = true → (∃ r, o.qregs = [r]) ∧ o.cregs = []

theorem GroupHyp.of_subset {c c' : Dag} (hh : GroupHyp c) (hsub : ∀ i o, (NodeId.op i, o) ∈ c'.nodes → (NodeId.op i, o) ∈ c.nodes) :
    GroupHyp c' :=
  ⟨fun i o hm => hh.plain i o (hsub i o hm), fun i o hm => hh.shape i o (hsub i o hm)⟩

theorem GroupHyp.of_append {c c' : Dag} (hh : GroupHyp c) {n : NodeId} {w : Op} (hn : c'.nodes = c.nodes ++ [(n, w)])
    (hp : PlainOp' w) (hs : (∃ r, w.qregs = [r]) ∧ w.cregs = []) : GroupHyp c' := by
  constructor
  · intro i o hm
    rw [hn] at hm
    rcases List.mem_append.mp hm with hm | hm
    · exact hh.plain i o hm
    · simp at hm; rw [hm.2]; exact hp
  · intro i o hm hg
    rw [hn] at hm
    rcases List.mem_append.mp hm with hm | hm
    · exact hh.shape i o hm hg
    · simp at hm; rw [hm.2]; exact hs

/-! ## the pieces of one loop iteration -/

theorem groupTake_pos {c : Dag} {node : NodeId} {o : Op} (hg : c.groupable node = true) (ho : c.opOf? node = some o)
    (gates : List Kind) : groupTake c node gates = ((c.removeOp node).1, gates ++ kindsOf o, (c.removeOp node).2) := by
  unfold groupTake
  rw [if_pos hg, ho]
  simp only [kindsOf]
  by_cases hk : o.kind = .wrapper <;> simp [hk]

theorem groupTake_neg {c : Dag} {node : NodeId} (hg : c.groupable node = false) (gates : List Kind) :
    groupTake c node gates = (c, gates, none) := by
  unfold groupTake
  rw [if_neg (by simp [hg])]

theorem mkWrapper_eq {gates : List Kind} {r : Reg} (hr : r.ty ≠ .c) (hall : ∀ k ∈ gates, k.isOneQubitBase = true) :
    mkWrapper gates r = some (wrapperOn r gates) := by
  unfold mkWrapper
  rw [if_neg hr, if_pos (List.all_eq_true.mpr hall)]
  rfl

theorem groupFlush_eq {c : Dag} {r : Reg} {next : NodeId} {gates : List Kind} {ie : Edge} {w : Op}
    (he : edgeFromReg (c.outEdges next) r = some ie) (hw : mkWrapper gates r = some w) :
    groupFlush c r next gates = c.insertAt w [ie] := by
  unfold groupFlush
  rw [he]; simp only; rw [hw]

theorem groupWalk_input {r : Reg} {fuel : Nat} {c : Dag} {node : NodeId} {gates : List Kind}
    (h : (dictGet c.nodeDict "Input").contains node = true) : groupWalk r (fuel + 1) c node gates = (c, none) := by
  unfold groupWalk; rw [if_pos h]

theorem groupWalk_step {r : Reg} {fuel : Nat} {c c1 : Dag} {node : NodeId} {gates gates1 : List Kind} {edge : Edge}
    (h : ¬ (dictGet c.nodeDict "Input").contains node = true) (he : edgeFromReg (c.inEdges node) r = some edge)
    (ht : groupTake c node gates = (c1, gates1, none)) :
    groupWalk r (fuel + 1) c node gates =
      if !(c1.groupable edge.src) && !gates1.isEmpty then
        match groupFlush c1 r edge.src gates1 with
        | (c2, some err) => (c2, some err)
        | (c2, none) => groupWalk r fuel c2 edge.src []
      else groupWalk r fuel c1 edge.src gates1 := by
  rw [groupWalk, if_neg h, he]
  simp only [ht]
  rfl

theorem flushK_nil (r : Reg) : flushK r [] = [] := rfl

theorem fuseBack_head_ng (r : Reg) (rev : List Op) (h : rev = [] ∨ ∃ a t, rev = a :: t ∧ gOp a = false) (gates : List Kind) :
    fuseBack r rev gates = fuseBack r rev [] ++ flushK r gates := by
  rcases h with rfl | ⟨a, t, rfl, ha⟩
  · simp [fuseBack, flushK_nil]
  · simp [fuseBack, ha, flushK_nil]

theorem wireOps_op {c : Dag} (hnd : c.nodeIds.Nodup) {i : Nat} {o : Op} (hm : (NodeId.op i, o) ∈ c.nodes) :
    wireOps c [NodeId.op i] = [o] := by
  simp [wireOps, (opOf_eq_some hnd).mpr hm]

theorem wireOps_inp (c : Dag) (r : Reg) : wireOps c [NodeId.inp r] = [] := by simp [wireOps]

/-- position facts on a wire: the first node is the input, everything strictly inside is an operation node -/
theorem wire_pos_facts {c : Dag} {P : Paths} (h : Inv c P) {r : Reg} {A B : List NodeId} {node : NodeId}
    (hP : P r = A ++ node :: B) (hB : B ≠ []) :
    c.live r ∧ (A = [] → node = .inp r) ∧ (A ≠ [] → ∃ i, node = NodeId.op i) := by
  have hl : c.live r := by
    by_cases hl : c.live r
    · exact hl
    · rw [h.dead r hl] at hP; simp at hP
  obtain ⟨mid, hshape, hmid⟩ := h.shape r hl
  refine ⟨hl, ?_, ?_⟩
  · intro hA
    subst hA
    rw [hshape] at hP
    simp only [List.nil_append, List.cons.injEq] at hP
    exact hP.1.symm
  · intro hA
    cases A with
    | nil => exact absurd rfl hA
    | cons a A' =>
      rw [hshape] at hP
      simp only [List.cons_append, List.cons.injEq] at hP
      rcases List.eq_nil_or_concat B with hb | ⟨B'', z, hb⟩
      · exact absurd hb hB
      · rw [hb, List.concat_eq_append] at hP
        have e : A' ++ node :: (B'' ++ [z]) = (A' ++ node :: B'') ++ [z] := by simp
        rw [e] at hP
        have := (List.append_inj' hP.2 rfl).1
        exact hmid node (by rw [this]; simp)

/-- removing a groupable node met by the walk on register `r` -/
theorem group_remove_step {c : Dag} {P : Paths} (g : Good c P) (hh : GroupHyp c) {r : Reg} {A B : List NodeId} {i : Nat}
    {o : Op} (hP : P r = A ++ NodeId.op i :: B) (hm : (NodeId.op i, o) ∈ c.nodes) (hg : gOp o = true) :
    (c.removeOp (.op i)).2 = none ∧ r.ty ≠ .c ∧ o.qregs = [r] ∧ ∃ P1, Good (c.removeOp (.op i)).1 P1 ∧ GroupHyp (c.removeOp (.op i)).1 ∧
      P1 r = A ++ B ∧ (∀ k, k ≠ r → P1 k = P k ∧ NodeId.op i ∉ P k) ∧
      (∀ x, x ≠ NodeId.op i → x ∈ c.nodeIds → (c.removeOp (.op i)).1.opOf? x = c.opOf? x) := by
  obtain ⟨⟨r0, hq⟩, hc⟩ := hh.shape i o hm hg
  have hon : NodeId.op i ∈ P r := by rw [hP]; simp
  have hrq : r.ty ≠ .c := by
    intro hc'
    have : r = ⟨.c, r.idx⟩ := by cases r with | mk t j => simp at hc'; subst hc'; rfl
    rw [this] at hon
    have := g.mem.mem_c i o hm _ hon
    rw [hc] at this; simp at this
  have hr0 : r0 = r := by
    have := (g.mem.mem_q i o hm r hrq).mp hon
    rw [hq] at this; simp at this; exact this.symm
  subst hr0
  have hnot : ∀ k, k ≠ r0 → NodeId.op i ∉ P k := by
    intro k hk hmk
    by_cases hkc : k.ty = .c
    · have : k = ⟨.c, k.idx⟩ := by cases k with | mk t j => simp at hkc; subst hkc; rfl
      rw [this] at hmk
      have := g.mem.mem_c i o hm _ hmk
      rw [hc] at this; simp at this
    · have := (g.mem.mem_q i o hm k hkc).mp hmk
      rw [hq] at this; simp at this; exact hk this
  obtain ⟨g1, _, hold⟩ := removeNode_wires g hm (fun _ => false) rfl
  obtain ⟨e1, _, _, _⟩ := removeOp_good g (mem_nodeIds.mpr ⟨o, hm⟩)
  have hnodes : (c.removeOp (.op i)).1.nodes = c.nodes.filter (fun p => p.1 ≠ .op i) := by
    rw [removeOp_eq ((opOf_eq_some g.inv.ids_nodup).mpr hm)]
    have F := removeFacts g.inv (.op i)
    simp only [removed, F.nodes]
  refine ⟨e1, hrq, hq, erasePaths P (.op i), g1, ?_, ?_, ?_, hold⟩
  · apply hh.of_subset
    intro j o' hm'
    rw [hnodes] at hm'
    exact (List.mem_filter.mp hm').1
  · unfold erasePaths
    rw [hP]
    have hnd := g.inv.nodup r0
    rw [hP] at hnd
    exact erase_append_mid (fun hmA => (List.nodup_append.mp hnd).2.2 _ hmA _ (by simp) rfl)
  · intro k hk
    refine ⟨?_, hnot k hk⟩
    unfold erasePaths
    exact List.erase_of_not_mem (hnot k hk)

/-- the flush: a wrapper holding the pending gate list is inserted right after `next` on the wire of `r` -/
theorem group_flush_step {c : Dag} {P : Paths} (g : Good c P) (hh : GroupHyp c) {r : Reg} (hrq : r.ty ≠ .c)
    {A0 B' : List NodeId} {next b : NodeId} (hP : P r = A0 ++ next :: b :: B') {gates : List Kind}
    (hall : ∀ k ∈ gates, k.isOneQubitBase = true ∧ k ≠ .wrapper) :
    (groupFlush c r next gates).2 = none ∧ ∃ P2, Good (groupFlush c r next gates).1 P2 ∧ GroupHyp (groupFlush c r next gates).1 ∧
      P2 r = A0 ++ next :: .op (c.nodeId + 1) :: b :: B' ∧ (∀ k, k ≠ r → P2 k = P k) ∧
      (groupFlush c r next gates).1.opOf? (.op (c.nodeId + 1)) = some (wrapperOn r gates) ∧
      (∀ x, x ∈ c.nodeIds → (groupFlush c r next gates).1.opOf? x = c.opOf? x) := by
  have hcons : Consec (P r) next b := consec_iff_append.mpr ⟨A0, B', hP⟩
  have he := edgeFromReg_out g.inv hcons
  have hw := mkWrapper_eq (gates := gates) hrq (fun k hk => (hall k hk).1)
  obtain ⟨hwf, hq, hc⟩ := mkWrapper_wf hw
  rw [groupFlush_eq he hw]
  obtain ⟨P2, g2, e2, hP2, hoth, hnodes, _⟩ := insertOn_refines g hwf hq hc hP
  have hfresh := g.inv.op_fresh
  have hplain : PlainOp' (wrapperOn r gates) :=
    { labels := by intro l hl; simp [wrapperOn] at hl; subst hl; decide
      arity := by simp [wrapperOn]
      inner_base := by intro k hk; exact (hall k hk).2 }
  refine ⟨e2, P2, g2, hh.of_append hnodes hplain ⟨⟨r, rfl⟩, rfl⟩, hP2, hoth, ?_, ?_⟩
  · exact (opOf_eq_some g2.inv.ids_nodup).mpr (by rw [hnodes]; simp)
  · intro x hx
    have := opOf_append_other hnodes (x := x) (by
      intro p hp; simp at hp; rw [hp]; intro e; simp only at e; subst e; exact hfresh hx) (Or.inr trivial)
    rw [this]; cases c.opOf? x <;> rfl

theorem mem_nodeIds_of_opOf_eq {c c' : Dag} {x : NodeId} (h : c'.opOf? x = c.opOf? x) (hx : x ∈ c.nodeIds) : x ∈ c'.nodeIds := by
  by_cases hn : x ∈ c'.nodeIds
  · exact hn
  · exfalso
    rw [opOf_eq_none.mpr hn] at h
    exact (opOf_eq_none.mp h.symm) hx

theorem kindsOf_base {o : Op} (hwf : OpWF o) (hp : PlainOp' o) (hg : gOp o = true) :
    ∀ k ∈ kindsOf o, k.isOneQubitBase = true ∧ k ≠ .wrapper := by
  intro k hk
  unfold kindsOf at hk
  by_cases hw : o.kind = .wrapper
  · rw [if_pos hw] at hk
    exact ⟨(hwf.wrapper_shape hw).2.2 k hk, hp.inner_base k hk⟩
  · rw [if_neg hw] at hk
    simp at hk; subst hk
    unfold gOp at hg
    exact ⟨((Bool.and_eq_true _ _).mp hg).2, hw⟩

theorem groupable_congr {c c' : Dag} {P P' : Paths} (h : Inv c P) (h' : Inv c' P') {x : NodeId} (hx : c'.opOf? x = c.opOf? x) :
    c'.groupable x = c.groupable x := by
  rw [groupable_eq h, groupable_eq h', hx]

/-- **the backward walk of `group_one_qubit_gates` on register `r`**, started at `node` with the wire
    `P r = A ++ node :: B` and pending gate list `gates`: it does not raise, keeps DagInv, turns the operations of
    `A ++ [node]` into `fuseBack` of them, leaves the operations of `B` and every other wire as they are -/
theorem groupWalk_wires (r : Reg) : ∀ (fuel : Nat) {c : Dag} {P : Paths}, Good c P → GroupHyp c →
    ∀ (A B : List NodeId) (node : NodeId) (gates : List Kind),
    P r = A ++ node :: B → B ≠ [] → A.length + 1 ≤ fuel →
    (gates ≠ [] → c.groupable node = true) → (∀ k ∈ gates, k.isOneQubitBase = true ∧ k ≠ .wrapper) →
    (groupWalk r fuel c node gates).2 = none ∧
    ∃ P', Good (groupWalk r fuel c node gates).1 P' ∧ GroupHyp (groupWalk r fuel c node gates).1 ∧
      wireOps (groupWalk r fuel c node gates).1 (P' r) =
        fuseBack r (wireOps c (A ++ [node])).reverse gates ++ wireOps c B ∧
      (∀ k, k ≠ r → P' k = P k ∧ wireOps (groupWalk r fuel c node gates).1 (P' k) = wireOps c (P k)) ∧
      ((A ++ [node]).filter (fun x => !c.groupable x) ++ B).Sublist (P' r) ∧
      (∀ x, x ∈ c.nodeIds → (x ∈ A ++ [node] → c.groupable x = false) →
        (groupWalk r fuel c node gates).1.opOf? x = c.opOf? x) := by
  intro fuel
  induction fuel with
  | zero => intro c P g hh A B node gates hP hB hf; omega
  | succ fuel ih =>
    intro c P g hh A B node gates hP hB hf hgates hall
    obtain ⟨hl, hA0, hA1⟩ := wire_pos_facts g.inv hP hB
    rcases List.eq_nil_or_concat A with hA | ⟨A0, next, hA⟩
    · -- at the input node
      subst hA
      have hn := hA0 rfl; subst hn
      have hin : (dictGet c.nodeDict "Input").contains (NodeId.inp r) = true := isInputNode_inp g.inv hl
      rw [groupWalk_input hin]
      have hg0 : gates = [] := by
        by_cases hne : gates = []
        · exact hne
        · exfalso
          have := hgates hne
          rw [groupable_inp g.inv] at this; simp at this
      subst hg0
      refine ⟨rfl, P, g, hh, ?_, fun k _ => ⟨rfl, rfl⟩, ?_, fun _ _ _ => rfl⟩
      · rw [hP, show ([] : List NodeId) ++ NodeId.inp r :: B = [NodeId.inp r] ++ B from rfl, wireOps_append, wireOps_inp]
        simp [wireOps_inp, fuseBack, flushK_nil]
      · rw [hP]
        simp [groupable_inp g.inv]
    · -- at an operation node
      rw [List.concat_eq_append] at hA; subst hA
      obtain ⟨i, hi⟩ := hA1 (by simp); subst hi
      have hnode : NodeId.op i ∈ c.nodeIds := g.inv.mem_nodes r _ (by rw [hP]; simp)
      obtain ⟨o, hm⟩ := mem_nodeIds.mp hnode
      have hwfo := g.inv.op_wf i o hm
      have hnin : ¬ (dictGet c.nodeDict "Input").contains (NodeId.op i) = true := by
        intro hcon
        have h1 : isInputNode c (.op i) := hcon
        rw [isInputNode_iff g.inv] at h1
        unfold keysAt at h1
        rw [(opOf_eq_some g.inv.ids_nodup).mpr hm] at h1
        exact input_not_key hwfo (hh.plain i o hm).toPlainOp h1
      have hP' : P r = A0 ++ next :: NodeId.op i :: B := by rw [hP]; simp
      have hedge := edgeFromReg_in g.inv (consec_iff_append.mpr ⟨A0, B, hP'⟩)
      have hrev : (wireOps c ((A0 ++ [next]) ++ [NodeId.op i])).reverse = o :: (wireOps c (A0 ++ [next])).reverse := by
        rw [wireOps_append, wireOps_op g.inv.ids_nodup hm]; simp
      rw [hrev]
      have hlenf : A0.length + 1 ≤ fuel := by simp at hf; omega
      have hndP := g.inv.nodup r
      rw [hP] at hndP
      have hneA : ∀ x ∈ A0 ++ [next], x ≠ NodeId.op i := fun x hx e =>
        (List.nodup_append.mp hndP).2.2 x hx _ (by simp) e
      have hneB : ∀ x ∈ B, x ≠ NodeId.op i := fun x hx e =>
        (List.nodup_cons.mp (List.nodup_append.mp hndP).2.1).1 (e ▸ hx)
      have hmemA : ∀ x ∈ A0 ++ [next], x ∈ c.nodeIds := fun x hx =>
        g.inv.mem_nodes r x (by rw [hP]; exact List.mem_append_left _ hx)
      have hmemB : ∀ x ∈ B, x ∈ c.nodeIds := fun x hx =>
        g.inv.mem_nodes r x (by rw [hP]; exact List.mem_append_right _ (List.mem_cons_of_mem _ hx))
      obtain ⟨_, hN0, hN1⟩ := wire_pos_facts g.inv hP' (by simp)
      by_cases hg : gOp o = true
      · -- groupable: the node is removed, its classes are appended
        have hgn : c.groupable (.op i) = true := by rw [groupable_op g.inv hm]; exact hg
        obtain ⟨e1, hrq, hq, P1, g1, hh1, hP1, hoth1, hold1⟩ := group_remove_step g hh hP hm hg
        have ht := groupTake_pos hgn ((opOf_eq_some g.inv.ids_nodup).mpr hm) gates
        rw [e1] at ht
        rw [groupWalk_step hnin hedge ht]
        simp only
        have hall1 : ∀ k ∈ gates ++ kindsOf o, k.isOneQubitBase = true ∧ k ≠ .wrapper := by
          intro k hk
          rcases List.mem_append.mp hk with hk | hk
          · exact hall k hk
          · exact kindsOf_base hwfo (hh.plain i o hm) hg k hk
        have hfb : fuseBack r (o :: (wireOps c (A0 ++ [next])).reverse) gates =
            fuseBack r (wireOps c (A0 ++ [next])).reverse (gates ++ kindsOf o) := by
          simp only [fuseBack, hg, if_true]
        rw [hfb]
        have hwA : wireOps (c.removeOp (.op i)).1 (A0 ++ [next]) = wireOps c (A0 ++ [next]) :=
          wireOps_congr (fun x hx => hold1 x (hneA x hx) (hmemA x hx))
        have hwB : wireOps (c.removeOp (.op i)).1 B = wireOps c B :=
          wireOps_congr (fun x hx => hold1 x (hneB x hx) (hmemB x hx))
        have hwK : ∀ k, k ≠ r → wireOps (c.removeOp (.op i)).1 (P k) = wireOps c (P k) := fun k hk =>
          wireOps_congr (fun x hx => hold1 x (fun e => (hoth1 k hk).2 (e ▸ hx)) (g.inv.mem_nodes k x hx))
        by_cases hcond : (!((c.removeOp (.op i)).1.groupable next) && !(gates ++ kindsOf o).isEmpty) = true
        · -- the run ends here: flush
          rw [if_pos hcond]
          have hc1 : (c.removeOp (.op i)).1.groupable next = false := by
            have := (Bool.and_eq_true _ _).mp hcond; simpa using this.1
          have hne1 : gates ++ kindsOf o ≠ [] := by
            have := (Bool.and_eq_true _ _).mp hcond
            intro e; rw [e] at this; simp at this
          cases B with
          | nil => exact absurd rfl hB
          | cons b B' =>
            have hP1' : P1 r = A0 ++ next :: b :: B' := by rw [hP1]; simp
            obtain ⟨e2, P2, g2, hh2, hP2, hoth2, hnew2, hold2⟩ := group_flush_step g1 hh1 hrq hP1' hall1
            cases hfl : groupFlush (c.removeOp (.op i)).1 r next (gates ++ kindsOf o) with
            | mk c2 err2 =>
              rw [hfl] at e2 g2 hh2 hnew2 hold2
              simp only at e2 g2 hh2 hnew2 hold2
              subst e2
              simp only
              obtain ⟨e3, P3, g3, hh3, hw3, hoth3, hsub3, hkeep3⟩ := ih g2 hh2 A0 (.op ((c.removeOp (.op i)).1.nodeId + 1) :: b :: B') next []
                hP2 (by simp) hlenf (by simp) (by simp)
              have hmem1 : ∀ x, x ≠ NodeId.op i → x ∈ c.nodeIds → c2.opOf? x = c.opOf? x := fun x hx hxm =>
                (hold2 x (mem_nodeIds_of_opOf_eq (hold1 x hx hxm) hxm)).trans (hold1 x hx hxm)
              refine ⟨e3, P3, g3, hh3, ?_, ?_, ?_, ?_⟩
              · rw [hw3]
                have hwA2 : wireOps c2 (A0 ++ [next]) = wireOps c (A0 ++ [next]) :=
                  wireOps_congr (fun x hx => hmem1 x (hneA x hx) (hmemA x hx))
                have hwB2 : wireOps c2 (b :: B') = wireOps c (b :: B') :=
                  wireOps_congr (fun x hx => hmem1 x (hneB x hx) (hmemB x hx))
                have hnewops : wireOps c2 [NodeId.op ((c.removeOp (.op i)).1.nodeId + 1)] = [wrapperOn r (gates ++ kindsOf o)] := by
                  simp [wireOps, hnew2]
                have hsplit : NodeId.op ((c.removeOp (.op i)).1.nodeId + 1) :: b :: B' =
                    [NodeId.op ((c.removeOp (.op i)).1.nodeId + 1)] ++ (b :: B') := rfl
                rw [hwA2, hsplit, wireOps_append c2 [NodeId.op ((c.removeOp (.op i)).1.nodeId + 1)] (b :: B'), hnewops, hwB2]
                -- the node before is not groupable (or the input)
                have hhead : (wireOps c (A0 ++ [next])).reverse = [] ∨
                    ∃ a t, (wireOps c (A0 ++ [next])).reverse = a :: t ∧ gOp a = false := by
                  by_cases hA0e : A0 = []
                  · left
                    have := hN0 hA0e
                    subst hA0e; subst this
                    simp [wireOps_inp]
                  · right
                    obtain ⟨j, hj⟩ := hN1 hA0e
                    subst hj
                    have hjn : NodeId.op j ∈ c.nodeIds := hmemA _ (by simp)
                    obtain ⟨oj, hmj⟩ := mem_nodeIds.mp hjn
                    have hjne : NodeId.op j ≠ NodeId.op i := hneA _ (by simp)
                    have h1 := hold1 _ hjne hjn
                    rw [(opOf_eq_some g.inv.ids_nodup).mpr hmj] at h1
                    have hmj1 := (opOf_eq_some g1.inv.ids_nodup).mp h1
                    rw [groupable_op g1.inv hmj1] at hc1
                    refine ⟨oj, (wireOps c A0).reverse, ?_, hc1⟩
                    rw [wireOps_append, wireOps_op g.inv.ids_nodup hmj]; simp
                rw [fuseBack_head_ng r _ hhead (gates ++ kindsOf o)]
                simp [flushK, hne1]
              · intro k hk
                obtain ⟨p3, w3⟩ := hoth3 k hk
                refine ⟨p3.trans ((hoth2 k hk).trans (hoth1 k hk).1), ?_⟩
                rw [w3, hoth2 k hk, (hoth1 k hk).1, ← hwK k hk]
                apply wireOps_congr
                intro x hx
                have hxm := g.inv.mem_nodes k x hx
                have hxne : x ≠ NodeId.op i := fun e => (hoth1 k hk).2 (e ▸ hx)
                exact hold2 x (mem_nodeIds_of_opOf_eq (hold1 x hxne hxm) hxm)
              · -- the surviving nodes, in order
                refine List.Sublist.trans ?_ hsub3
                rw [List.filter_append, show [NodeId.op i].filter (fun x => !c.groupable x) = [] by simp [hgn],
                  List.append_nil]
                have hcongr : (A0 ++ [next]).filter (fun x => !c.groupable x) = (A0 ++ [next]).filter (fun x => !c2.groupable x) := by
                  apply List.filter_congr
                  intro x hx
                  rw [groupable_congr g.inv g2.inv (hmem1 x (hneA x hx) (hmemA x hx))]
                rw [hcongr]
                exact List.Sublist.append_left (List.Sublist.cons _ (List.Sublist.refl _)) _
              · -- the surviving nodes keep their operation
                intro x hxm hxg
                have hxne : x ≠ NodeId.op i := fun e => by
                  have := hxg (by rw [e]; simp); rw [e, hgn] at this; simp at this
                have h2 := hmem1 x hxne hxm
                rw [← h2]
                apply hkeep3 x (mem_nodeIds_of_opOf_eq h2 hxm)
                intro hxA
                rw [groupable_congr g.inv g2.inv h2]
                exact hxg (List.mem_append_left _ hxA)
        · -- the run goes on (or nothing is pending)
          rw [if_neg hcond]
          have hpend : gates ++ kindsOf o ≠ [] → (c.removeOp (.op i)).1.groupable next = true := by
            intro hne
            by_cases hng : (c.removeOp (.op i)).1.groupable next = true
            · exact hng
            · exfalso
              apply hcond
              have : (gates ++ kindsOf o).isEmpty = false := by simpa using hne
              simp [hng, this]
          have hP1' : P1 r = A0 ++ next :: B := by rw [hP1]; simp
          obtain ⟨e3, P3, g3, hh3, hw3, hoth3, hsub3, hkeep3⟩ := ih g1 hh1 A0 B next (gates ++ kindsOf o) hP1' hB hlenf hpend hall1
          refine ⟨e3, P3, g3, hh3, ?_, ?_, ?_, ?_⟩
          · rw [hw3, hwA, hwB]
          · intro k hk
            obtain ⟨p3, w3⟩ := hoth3 k hk
            exact ⟨p3.trans (hoth1 k hk).1, by rw [w3, (hoth1 k hk).1, hwK k hk]⟩
          · refine List.Sublist.trans ?_ hsub3
            rw [List.filter_append, show [NodeId.op i].filter (fun x => !c.groupable x) = [] by simp [hgn],
              List.append_nil]
            have hcongr : (A0 ++ [next]).filter (fun x => !c.groupable x) =
                (A0 ++ [next]).filter (fun x => !(c.removeOp (.op i)).1.groupable x) := by
              apply List.filter_congr
              intro x hx
              rw [groupable_congr g.inv g1.inv (hold1 x (hneA x hx) (hmemA x hx))]
            rw [hcongr]
            exact List.Sublist.refl _
          · intro x hxm hxg
            have hxne : x ≠ NodeId.op i := fun e => by
              have := hxg (by rw [e]; simp); rw [e, hgn] at this; simp at this
            have h2 := hold1 x hxne hxm
            rw [← h2]
            apply hkeep3 x (mem_nodeIds_of_opOf_eq h2 hxm)
            intro hxA
            rw [groupable_congr g.inv g1.inv h2]
            exact hxg (List.mem_append_left _ hxA)
      · -- not groupable: a boundary; nothing is pending
        have hg' : gOp o = false := by simpa using hg
        have hgn : c.groupable (.op i) = false := by rw [groupable_op g.inv hm]; exact hg'
        have hg0 : gates = [] := by
          by_cases hne : gates = []
          · exact hne
          · exfalso
            have := hgates hne
            rw [hgn] at this; simp at this
        subst hg0
        have ht := groupTake_neg hgn []
        rw [groupWalk_step hnin hedge ht]
        simp only [List.isEmpty_nil, Bool.not_true, Bool.and_false, Bool.false_eq_true, if_false]
        obtain ⟨e3, P3, g3, hh3, hw3, hoth3, hsub3, hkeep3⟩ := ih g hh A0 (.op i :: B) next [] hP' (by simp) hlenf (by simp) (by simp)
        refine ⟨e3, P3, g3, hh3, ?_, hoth3, ?_, ?_⟩
        · rw [hw3, show NodeId.op i :: B = [NodeId.op i] ++ B from rfl, wireOps_append c [NodeId.op i] B, wireOps_op g.inv.ids_nodup hm]
          simp [fuseBack, hg', flushK_nil]
        · refine List.Sublist.trans ?_ hsub3
          rw [List.filter_append, show [NodeId.op i].filter (fun x => !c.groupable x) = [NodeId.op i] by simp [hgn]]
          simp
        · intro x hxm hxg
          exact hkeep3 x hxm (fun hxA => hxg (List.mem_append_left _ hxA))

end Dag
end Graphiq
