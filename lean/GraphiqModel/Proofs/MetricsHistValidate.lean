/-
  MetricsHistValidate.lean — the code's own structural check `CircuitDAG.validate()` (acyclic; every node without in-edges is an
  Input, every node without out-edges an Output) passes on every circuit satisfying DagInv (C12): the model's `validate`
  (Kahn-style `isAcyclicB` + source/sink scan) returns `none`.
-/
import GraphiqModel.Proofs.Topo
set_option linter.unusedSectionVars false
set_option linter.unusedSimpArgs false
namespace Graphiq
namespace Dag
open Relation

theorem exists_min_of_ne_nil {α : Type} (f : α → Nat) : ∀ (l : List α), l ≠ [] → ∃ a ∈ l, ∀ b ∈ l, f a ≤ f b
  | [], h => absurd rfl h
  | [a], _ => ⟨a, by simp, by intro b hb; simp at hb; rw [hb]; exact Nat.le_refl _⟩
  | a :: b :: t, _ => by
    obtain ⟨m, hm, hmin⟩ := exists_min_of_ne_nil f (b :: t) (by simp)
    by_cases h : f a ≤ f m
    · refine ⟨a, by simp, ?_⟩
      intro x hx
      rcases List.mem_cons.mp hx with rfl | hx
      · exact Nat.le_refl _
      · exact Nat.le_trans h (hmin x hx)
    · refine ⟨m, List.mem_cons_of_mem _ hm, ?_⟩
      intro x hx
      rcases List.mem_cons.mp hx with rfl | hx
      · omega
      · exact hmin x hx

/-- the Kahn loop succeeds on a set of remaining nodes of an acyclic circuit when the remaining edges are exactly the edges whose
    source remains and the fuel is at least the number of remaining nodes -/
theorem kahn_go {c : Dag} {P : Paths} (g : Good c P) : ∀ (fuel : Nat) (ns : List NodeId) (es : List Edge),
    (∀ n ∈ ns, n ∈ c.nodeIds) → (∀ e, e ∈ es ↔ e ∈ c.edges ∧ e.src ∈ ns) → ns.length ≤ fuel →
    isAcyclicB.go fuel ns es = true := by
  intro fuel
  induction fuel with
  | zero =>
    intro ns es _ _ hlen
    have : ns = [] := List.length_eq_zero_iff.mp (by omega)
    subst this
    simp [isAcyclicB.go]
  | succ f ih =>
    intro ns es hns hes hlen
    unfold isAcyclicB.go
    simp only
    by_cases hne : ns = []
    · subst hne; simp
    · -- a remaining node of minimal position is free
      obtain ⟨m, hm, hmin⟩ := exists_min_of_ne_nil (topoPos c) ns hne
      have hmfree : m ∈ ns.filter (fun n => !(es.any fun e => e.dst = n)) := by
        apply List.mem_filter.mpr
        refine ⟨hm, ?_⟩
        simp only [Bool.not_eq_true', List.any_eq_false, decide_eq_true_eq]
        intro e he hd
        obtain ⟨hec, hsrc⟩ := (hes e).mp he
        have hE : c.E e.src e.dst := ⟨e, hec, rfl, rfl⟩
        have hlt := topoPos_lt (E_nodes g.inv hE).1 (ancCount_lt g hE)
        have := hmin e.src hsrc
        rw [hd] at hlt
        omega
      have hfne : (ns.filter (fun n => !(es.any fun e => e.dst = n))).isEmpty = false := by
        cases hf : ns.filter (fun n => !(es.any fun e => e.dst = n)) with
        | nil => rw [hf] at hmfree; simp at hmfree
        | cons a t => rfl
      rw [hfne]
      simp only [Bool.false_eq_true, if_false]
      apply ih
      · intro n hn; exact hns n (List.mem_filter.mp hn).1
      · intro e
        rw [List.mem_filter, hes e]
        constructor
        · rintro ⟨⟨h1, h2⟩, h3⟩
          refine ⟨h1, List.mem_filter.mpr ⟨h2, h3⟩⟩
        · rintro ⟨h1, h2⟩
          obtain ⟨h3, h4⟩ := List.mem_filter.mp h2
          exact ⟨⟨h1, h3⟩, h4⟩
      · have hlt : (ns.filter (fun n => !(ns.filter (fun n => !(es.any fun e => e.dst = n))).contains n)).length < ns.length := by
          apply length_filter_lt_of_mem
          exact ⟨m, hm, by simp [List.contains_iff_mem, hmfree]⟩
        omega
where
  length_filter_lt_of_mem {α : Type} {l : List α} {p : α → Bool} (h : ∃ a ∈ l, p a = false) : (l.filter p).length < l.length := by
    induction l with
    | nil => obtain ⟨a, ha, _⟩ := h; simp at ha
    | cons b t ih =>
      obtain ⟨a, ha, hpa⟩ := h
      by_cases hb : p b = true
      · rw [List.filter_cons_of_pos hb]
        rcases List.mem_cons.mp ha with rfl | ha
        · rw [hb] at hpa; simp at hpa
        · have := ih ⟨a, ha, hpa⟩; simp only [List.length_cons]; omega
      · rw [List.filter_cons_of_neg hb]
        have := List.length_filter_le p t
        simp only [List.length_cons]; omega

/-- **the model's acyclicity test succeeds on every circuit satisfying DagInv** -/
theorem isAcyclicB_of_good {c : Dag} {P : Paths} (g : Good c P) : c.isAcyclicB = true := by
  unfold isAcyclicB
  apply kahn_go g
  · intro n hn; exact hn
  · intro e
    constructor
    · intro he; exact ⟨he, (g.inv.edge_nodes he).1⟩
    · intro h; exact h.1
  · simp [nodeIds]

theorem io_kind (k : Kind) (r : Reg) : (Op.io k r).kind = k := by
  unfold Op.io; cases r.ty <;> rfl

/-- **`validate()` passes on every circuit satisfying DagInv** -/
theorem validate_of_good {c : Dag} {P : Paths} (g : Good c P) : c.validate = none := by
  unfold validate
  rw [isAcyclicB_of_good g]
  simp only [Bool.not_true, Bool.false_eq_true, if_false]
  have hsrc : (c.nodes.any fun p => (c.inEdges p.1).isEmpty && decide (p.2.kind ≠ .input)) = false := by
    rw [List.any_eq_false]
    intro p hp
    simp only [Bool.and_eq_true, decide_eq_true_eq, not_and, not_not]
    intro hemp
    have hnoin : ∀ a, ¬ c.E a p.1 := by
      rintro a ⟨e, he, _, hd⟩
      have : e ∈ c.inEdges p.1 := by simp [inEdges, he, hd]
      rw [List.isEmpty_iff.mp hemp] at this; simp at this
    obtain ⟨r, hr⟩ := (g.source_iff (mem_nodeIds.mpr ⟨p.2, hp⟩)).mp hnoin
    have := g.inv.inp_op r p.2 (by rw [← hr]; exact hp)
    rw [this]; exact io_kind _ _
  have hsnk : (c.nodes.any fun p => (c.outEdges p.1).isEmpty && decide (p.2.kind ≠ .output)) = false := by
    rw [List.any_eq_false]
    intro p hp
    simp only [Bool.and_eq_true, decide_eq_true_eq, not_and, not_not]
    intro hemp
    have hnoout : ∀ b, ¬ c.E p.1 b := by
      rintro b ⟨e, he, hs, _⟩
      have : e ∈ c.outEdges p.1 := by simp [outEdges, he, hs]
      rw [List.isEmpty_iff.mp hemp] at this; simp at this
    obtain ⟨r, hr⟩ := (g.sink_iff (mem_nodeIds.mpr ⟨p.2, hp⟩)).mp hnoout
    have := g.inv.out_op r p.2 (by rw [← hr]; exact hp)
    rw [this]; exact io_kind _ _
  rw [hsrc, hsnk]
  rfl

end Dag
end Graphiq
