/-
  Proofs/TabSpecRemove.lean — what `remove_qubit` and `partial_trace` do to the stabilizer group, for every size:

  * `remove_qubit(t, q)` = Z-measure `q`, then drop it: `P'` is in the new group iff `P'` with an identity inserted at
    site `q` is in the group of the measured tableau (`removeQubit_grp`); it never hits its `assert` on a valid tableau;
  * if the qubit carries a single-site stabilizer (it is unentangled) the measured group can be replaced by the old group,
    whatever the outcome (`removeQubit_unentangled_grp`) — the reduced state of a pure product factor;
  * `partial_trace` iterates this, highest index first (`partialTrace_product_grp`).
-/
import GraphiqModel.Proofs.TabSpecOps
namespace Graphiq.TabSpec
open Graphiq PRow Tab STab

/-! ### the last step of `remove_qubit` -/

/-- absorb the `Z` factors on `q` into the rows (multiply by row `zRow`), delete the pair of `zRow` and the column `q`
    (`n` = number of qubits before the removal) -/
def dropQubitN (n : Nat) (t2 : Tab) (q zRow : Nat) : Tab :=
  ({ t2 with row := fun i =>
      if i ≠ zRow ∧ i + n ≠ zRow ∧ (t2.row i).z q then PRow.mul n (t2.row zRow) (t2.row i) else t2.row i } : Tab).deletePair q
    (zRow - n)

theorem isStabGrp_pullIns (m q : Nat) (hq : q ≤ m) (H : PRow → Prop) (hH : IsStabGrp (m + 1) H) :
    IsStabGrp m (fun P' => H (P'.insertCol q)) := by
  refine ⟨hH.eqv _ _ hH.one (insertCol_one (m + 1) q).symm, ?_, ?_, ?_, ?_, ?_⟩
  · intro a b ha hb
    exact hH.eqv _ _ (hH.mul _ _ ha hb) (insertCol_mul m q hq a b).symm
  · intro a b ha hab
    exact hH.eqv _ _ ha (insertCol_congr m q hq a b hab)
  · intro a ha
    exact hH.real (a.insertCol q) ha
  · intro a b ha hb
    rw [← sp_insertCol m q hq a b]; exact hH.comm _ _ ha hb
  · intro h
    exact hH.noNeg (hH.eqv _ _ h (negate_congr (m + 1) _ _ (insertCol_one (m + 1) q)))

/-- in the situation of the last step of `remove_qubit` the row `zRow` is `±Z_q` -/
theorem drop_zrow (t2 : Tab) (q zRow : Nat) (hv : t2.Valid) (hq : q < t2.n) (hz1 : t2.n ≤ zRow) (hz2 : zRow < 2 * t2.n)
    (hx : ∀ i, i < 2 * t2.n → i + t2.n ≠ zRow → (t2.row i).x q = false) :
    SameBits t2.n (t2.row zRow) (Zq q) := by
  have spZ : ∀ i, sp t2.n (Zq q) (t2.row i) = (t2.row i).x q := by
    intro i; rw [sp_comm]; exact sp_Zq _ _ _ _ hq
  have hpart : (t2.row (zRow - t2.n)).x q = true := by
    cases h : (t2.row (zRow - t2.n)).x q
    · exfalso
      have hall : ∀ i, i < 2 * t2.n → sp t2.n (Zq q) (t2.row i) = false := by
        intro i hi
        rw [spZ]
        by_cases e : i + t2.n = zRow
        · have : i = zRow - t2.n := by omega
          rw [this]; exact h
        · exact hx i hi e
      have := (valid_nondeg t2 hv (Zq q) hall q hq).2
      simp [Zq] at this
    · rfl
  apply sameBits_of_sp t2 hv
  intro i hi
  rw [spZ, hv _ _ hz2 hi]
  by_cases e : i + t2.n = zRow
  · have : i = zRow - t2.n := by omega
    rw [this, hpart]
    exact decide_eq_true (by omega)
  · rw [hx i hi e]
    exact decide_eq_false (by omega)

theorem delSrc_ge (n d k : Nat) (hd : d < n) (hk : n - 1 ≤ k) : n ≤ delSrc n d k := by
  unfold delSrc
  split
  · omega
  · split <;> omega

/-- **core of `remove_qubit`, group level**: `P'` is in the group after the removal iff `P'` with an identity inserted
    at site `q` is in the group before -/
theorem drop_grp (n : Nat) (t2 : Tab) (hn : t2.n = n) (q zRow : Nat) (hv : t2.Valid) (hr : t2.StabReal) (hq : q < n)
    (hz1 : n ≤ zRow) (hz2 : zRow < 2 * n)
    (hx : ∀ i, i < 2 * n → i + n ≠ zRow → (t2.row i).x q = false) :
    (dropQubitN n t2 q zRow).Valid ∧ (dropQubitN n t2 q zRow).StabReal ∧
    ∀ P', Grp (dropQubitN n t2 q zRow) P' ↔ Grp t2 (P'.insertCol q) := by
  subst hn
  have hv' : (dropQubitN t2.n t2 q zRow).Valid := dropQubit_valid t2 q zRow hv hq hz1 hz2 hx
  have hn1 : t2.n - 1 + 1 = t2.n := by omega
  have hH0 : IsStabGrp (t2.n - 1 + 1) (Grp t2) := by rw [hn1]; exact grp_isStabGrp t2 hv hr
  have hH : IsStabGrp (t2.n - 1) (fun P' => Grp t2 (P'.insertCol q)) :=
    isStabGrp_pullIns (t2.n - 1) q (by omega) (Grp t2) hH0
  suffices hgen : ∀ i, i < (dropQubitN t2.n t2 q zRow).n → Grp t2 (((dropQubitN t2.n t2 q zRow).stab i).insertCol q) from
    ⟨hv', stabReal_of_gens (dropQubitN t2.n t2 q zRow) _ hH hgen, grp_unique (dropQubitN t2.n t2 q zRow) hv' _ hH hgen⟩
  intro i hi
  have hi' : i < t2.n - 1 := hi
  have zb := drop_zrow t2 q zRow hv hq hz1 hz2 hx
  have zx : (t2.row zRow).x q = false := hx zRow hz2 (by omega)
  have zz : (t2.row zRow).z q = true := by rw [(zb q hq).2]; simp [Zq]
  have hd : zRow - t2.n < t2.n := by omega
  obtain ⟨J1, J2, J3⟩ := delSrc_facts t2.n (zRow - t2.n) (i + (t2.n - 1)) hd (by omega)
  have J4 := delSrc_ge t2.n (zRow - t2.n) (i + (t2.n - 1)) hd (by omega)
  show Grp t2 (((dropQubitN t2.n t2 q zRow).row (i + (t2.n - 1))).insertCol q)
  unfold dropQubitN
  rw [deletePair_row]
  show Grp t2 ((PRow.deleteCol q (if _ then _ else _)).insertCol q)
  generalize delSrc t2.n (zRow - t2.n) (i + (t2.n - 1)) = J at J1 J2 J3 J4
  have gJ : Grp t2 (t2.row J) := grp_row t2 J J4 J1
  have gz : Grp t2 (t2.row zRow) := grp_row t2 zRow hz1 hz2
  have xJ : (t2.row J).x q = false := hx J J1 (by omega)
  have back : ∀ R : PRow, R.x q = false → R.z q = false → Grp t2 R → Grp t2 ((R.deleteCol q).insertCol q) :=
    fun R h1 h2 h3 => InSpan.eqv _ _ h3 (insertCol_deleteCol t2.n q R h1 h2).symm
  by_cases hzq : (t2.row J).z q = true
  · have c : J ≠ zRow ∧ J + t2.n ≠ zRow ∧ (t2.row J).z q = true := ⟨by omega, by omega, hzq⟩
    rw [if_pos c]
    exact back _ (by simp [zx, xJ]) (by simp [zz, hzq]) (InSpan.mul _ _ gz gJ)
  · have c : ¬ (J ≠ zRow ∧ J + t2.n ≠ zRow ∧ (t2.row J).z q = true) := fun h => hzq h.2.2
    rw [if_neg c]
    exact back _ xJ (by simpa using hzq) gJ

/-! ### `remove_qubit` -/

theorem removeQubit_random (t : Tab) (q p : Nat) (o : Bool) (hp : t.pivot q = some p) :
    t.removeQubit q o = .ok (dropQubitN t.n (t.measRandom q p o) q p) := by
  obtain ⟨p1, p2, p3⟩ := pivot_spec t q p hp
  have hpz : p ≠ 0 := by
    intro h; subst h
    have : t.n = 0 := by omega
    omega
  unfold removeQubit
  simp only [zMeasure, hp, hpz, ne_eq, not_false_eq_true, if_true]
  rfl

theorem removeQubit_det (t : Tab) (q : Nat) (o : Bool) (hp : t.pivot q = none) (om : Nat) (rest : List Nat)
    (hf : filterTo t.n (fun i => (t.row i).x q) = om :: rest) :
    t.removeQubit q o = .ok (dropQubitN t.n
      (rest.foldl (fun acc row => (acc.rowSum om row).rowSum (row + t.n) (om + t.n)) t) q (om + t.n)) := by
  unfold removeQubit
  simp only [zMeasure, hp, ne_eq, not_true_eq_false, if_false, hf]
  rfl

theorem removeQubit_det_nil (t : Tab) (q : Nat) (o : Bool) (hp : t.pivot q = none)
    (hf : filterTo t.n (fun i => (t.row i).x q) = []) : t.removeQubit q o = .error .assertion := by
  unfold removeQubit
  simp only [zMeasure, hp, ne_eq, not_true_eq_false, if_false, hf]

/-- in the deterministic branch some destabilizer has an `X` on `q` (the `assert len(non_zero) > 0` never fires) -/
theorem filterTo_ne_nil (t : Tab) (hv : t.Valid) (q : Nat) (hq : q < t.n) (hp : t.pivot q = none) :
    filterTo t.n (fun i => (t.row i).x q) ≠ [] := by
  intro hf
  have hall : ∀ i, i < 2 * t.n → sp t.n (Zq q) (t.row i) = false := by
    intro i hi
    rw [sp_comm, sp_Zq _ _ _ _ hq]
    by_cases hin : i < t.n
    · cases hx : (t.row i).x q
      · rfl
      · exfalso
        have : i ∈ filterTo t.n (fun i => (t.row i).x q) := by
          simp only [filterTo, List.mem_filter, List.mem_range]; exact ⟨hin, hx⟩
        rw [hf] at this; cases this
    · exact findFrom_none _ _ _ hp i (by omega) hi
  have := (valid_nondeg t hv (Zq q) hall q hq).2
  simp [Zq] at this

/-- **`remove_qubit` never fails on a valid tableau** -/
theorem removeQubit_total (t : Tab) (q : Nat) (o : Bool) (hq : q < t.n) (hv : t.Valid) :
    ∃ t', t.removeQubit q o = .ok t' := by
  cases hp : t.pivot q with
  | some p => exact ⟨_, removeQubit_random t q p o hp⟩
  | none =>
    cases hf : filterTo t.n (fun i => (t.row i).x q) with
    | nil => exact absurd hf (filterTo_ne_nil t hv q hq hp)
    | cons om rest => exact ⟨_, removeQubit_det t q o hp om rest hf⟩

/-- the stabilizer rows stay in a product-closed set along the destabilizer-combining loop -/
theorem comb_fold_gens (G : PRow → Prop) (n om : Nat) (hom : om < n) (hmul : ∀ a b, G a → G b → G (PRow.mul n a b))
    (rest : List Nat) (hlt : ∀ i, i ∈ rest → i < n) (hne : ∀ i, i ∈ rest → i ≠ om) (acc : Tab) (hn : acc.n = n)
    (hg : ∀ i, i < n → G (acc.row (i + n))) :
    ∀ i, i < n → G ((rest.foldl (fun acc row => (acc.rowSum om row).rowSum (row + n) (om + n)) acc).row (i + n)) := by
  induction rest generalizing acc with
  | nil => exact hg
  | cons r tl ih =>
    simp only [List.foldl]
    have hr : r < n := hlt r List.mem_cons_self
    have hro : r ≠ om := hne r List.mem_cons_self
    have e : (acc.rowSum om r).rowSum (r + n) (om + n) = acc.pairSum om r := by
      unfold pairSum; rw [hn]
    rw [e]
    apply ih (fun i hi => hlt i (List.mem_cons_of_mem _ hi)) (fun i hi => hne i (List.mem_cons_of_mem _ hi))
      (acc.pairSum om r) hn
    intro i hi
    rw [pairSum_row acc om r (Ne.symm hro) (hn ▸ hom) (hn ▸ hr), hn]
    by_cases e1 : i + n = om + n
    · simp only [e1, if_true]
      exact hmul _ _ (hg r hr) (hg om hom)
    · have e2 : i + n ≠ r := by omega
      simp only [e1, e2, if_false]
      exact hg i hi

/-- **`remove_qubit` = Z-measure, then drop** (group level, all three internal cases): `P'` is in the new group iff
    `P'` with an identity at site `q` is in the group of the measured tableau -/
theorem removeQubit_grp (t t' : Tab) (q : Nat) (o : Bool) (hq : q < t.n) (hv : t.Valid) (hr : t.StabReal)
    (h : t.removeQubit q o = .ok t') :
    t'.n = t.n - 1 ∧ t'.Valid ∧ t'.StabReal ∧
    ∀ P', Grp t' P' ↔ Grp (t.zMeasure q o).1 (P'.insertCol q) := by
  cases hp : t.pivot q with
  | some p =>
    obtain ⟨p1, p2, p3⟩ := pivot_spec t q p hp
    rw [removeQubit_random t q p o hp] at h
    injection h with h
    subst h
    have e : (t.zMeasure q o).1 = t.measRandom q p o := by simp [zMeasure, hp]
    rw [e]
    obtain ⟨v, r, g⟩ := drop_grp t.n (t.measRandom q p o) rfl q p (measRandom_valid t q p o hv hq p1 p2 p3)
      (measRandom_stabReal t q p o hv hr hq hp) hq p1 p2 (fun i _ hip => measRandom_x t q p o p3 i hip)
    exact ⟨rfl, v, r, g⟩
  | none =>
    have e : (t.zMeasure q o).1 = t := by simp [zMeasure, hp]
    rw [e]
    cases hf : filterTo t.n (fun i => (t.row i).x q) with
    | nil => rw [removeQubit_det_nil t q o hp hf] at h; cases h
    | cons om rest =>
      rw [removeQubit_det t q o hp om rest hf] at h
      injection h with h
      subst h
      -- facts about the filtered list (as in `removeQubit_valid`)
      have hmem : ∀ i, i ∈ om :: rest → i < t.n ∧ (t.row i).x q = true := by
        intro i hi
        rw [← hf] at hi
        simp only [filterTo, List.mem_filter, List.mem_range] at hi
        exact hi
      have hnd : (om :: rest).Nodup := by
        rw [← hf]; unfold filterTo
        exact List.Nodup.sublist List.filter_sublist List.nodup_range
      have hom := hmem om List.mem_cons_self
      have hstab : ∀ i, t.n ≤ i → i < 2 * t.n → (t.row i).x q = false :=
        fun i h1 h2 => findFrom_none _ _ _ hp i h1 h2
      have inv0 : CombInv t.n q om rest t := by
        refine ⟨hv, rfl, hom.2, ?_, fun i hi => (hmem i (List.mem_cons_of_mem _ hi)).2⟩
        intro i hi hio hir
        by_cases hin : i < t.n
        · cases hx : (t.row i).x q
          · rfl
          · exfalso
            have : i ∈ om :: rest := by
              rw [← hf]; simp only [filterTo, List.mem_filter, List.mem_range]; exact ⟨hin, hx⟩
            rcases List.mem_cons.mp this with e | e
            · exact hio e
            · exact hir e
        · exact hstab i (by omega) hi
      have hlt : ∀ i, i ∈ rest → i < t.n := fun i hi => (hmem i (List.mem_cons_of_mem _ hi)).1
      have hne : ∀ i, i ∈ rest → i ≠ om := fun i hi he => (List.nodup_cons.mp hnd).1 (he ▸ hi)
      have inv := comb_fold t.n q om hom.1 rest hlt hne (List.nodup_cons.mp hnd).2 t inv0
      have gens := comb_fold_gens (Grp t) t.n om hom.1 (fun a b ha hb => InSpan.mul a b ha hb) rest hlt hne t rfl
        (fun i hi => grp_gen t i hi)
      generalize rest.foldl (fun acc row => (acc.rowSum om row).rowSum (row + t.n) (om + t.n)) t = t2 at inv gens ⊢
      have hn2 := inv.n_eq
      -- the group of `t2` is the group of `t`
      have hHt : IsStabGrp t2.n (Grp t) := by rw [hn2]; exact grp_isStabGrp t hv hr
      have hgen2 : ∀ i, i < t2.n → Grp t (t2.stab i) := by
        intro i hi
        show Grp t (t2.row (i + t2.n))
        rw [hn2]; exact gens i (hn2 ▸ hi)
      have g2 : ∀ P, Grp t2 P ↔ Grp t P := grp_unique t2 inv.valid (Grp t) hHt hgen2
      have hr2 : t2.StabReal := stabReal_of_gens t2 (Grp t) hHt hgen2
      obtain ⟨v, r, g⟩ := drop_grp t.n t2 hn2 q (om + t.n) inv.valid hr2 hq (by omega) (by omega)
        (fun i hi hio => inv.xoth i hi (by omega) (by simp))
      exact ⟨by show t2.n - 1 = t.n - 1; rw [hn2], v, r, fun P' => (g P').trans (g2 _)⟩

theorem removeQubit?_grp (t t' : Tab) (q : Nat) (o : Bool) (hv : t.Valid) (hr : t.StabReal)
    (h : t.removeQubit? q o = .ok t') :
    q < t.n ∧ t'.n = t.n - 1 ∧ t'.Valid ∧ t'.StabReal ∧
    ∀ P', Grp t' P' ↔ Grp (t.zMeasure q o).1 (P'.insertCol q) := by
  unfold removeQubit? at h
  split at h
  · next hq => exact ⟨hq, removeQubit_grp t t' q o hq hv hr h⟩
  · cases h

/-! ### unentangled qubits -/

/-- a row that acts non-trivially on site `q` and as the identity on every other site `< n` -/
def SingleSite (n q : Nat) (σ : PRow) : Prop :=
  (σ.x q = true ∨ σ.z q = true) ∧ ∀ j, j < n → j ≠ q → σ.x j = false ∧ σ.z j = false

/-- qubit `q` is a pure product factor: some single-site Pauli on `q` is in the stabilizer group -/
def Unentangled (t : Tab) (q : Nat) : Prop := ∃ σ, Grp t σ ∧ SingleSite t.n q σ

theorem sp_single (n q : Nat) (hq : q < n) (σ R : PRow) (hσ : SingleSite n q σ) (hR : R.x q = false ∧ R.z q = false) :
    sp n R σ = false := by
  unfold sp
  apply parityTo_zero
  intro j hj
  by_cases e : j = q
  · subst e; simp [hR.1, hR.2]
  · simp [(hσ.2 j hj e).1, (hσ.2 j hj e).2]

/-- measuring an unentangled qubit does not change which rows *with an identity on that qubit* are in the group -/
theorem measure_unentangled (t : Tab) (q : Nat) (o : Bool) (hq : q < t.n) (hv : t.Valid) (hr : t.StabReal)
    (hu : Unentangled t q) (R : PRow) (hR : R.x q = false ∧ R.z q = false) :
    Grp (t.zMeasure q o).1 R ↔ Grp t R := by
  cases hp : t.pivot q with
  | none =>
    have e : (t.zMeasure q o).1 = t := by simp [zMeasure, hp]
    rw [e]
  | some p =>
    have e : (t.zMeasure q o).1 = t.measRandom q p o := by simp [zMeasure, hp]
    rw [e, measRandom_grp t q p o hv hr hq hp]
    obtain ⟨p1, p2, p3⟩ := pivot_spec t q p hp
    obtain ⟨σ, gσ, hσ⟩ := hu
    constructor
    · rintro ⟨_, h | h⟩
      · exact h
      · exfalso
        -- σ has an X on q (else it would anticommute with the pivot), so it anticommutes with R·Z_q
        have sx : σ.x q = true := by
          cases hx : σ.x q
          · exfalso
            have hz : σ.z q = true := by
              rcases hσ.1 with h1 | h1
              · rw [hx] at h1; cases h1
              · exact h1
            have c := grp_comm t hv hr _ _ gσ (grp_row t p p1 p2)
            have : sp t.n σ (t.row p) = true := by
              unfold sp
              rw [parityTo_congr t.n _ (fun j => decide (j = q) && (t.row p).x j)]
              · rw [parityTo_single t.n q _ hq]; exact p3
              · intro j hj
                by_cases e : j = q
                · subst e; simp [hx, hz]
                · simp [(hσ.2 j hj e).1, (hσ.2 j hj e).2, e]
            rw [this] at c; cases c
          · rfl
        have c := grp_comm t hv hr _ _ h gσ
        rw [sp_mul_left, sp_single t.n q hq σ R hσ hR, sp_comm, sp_Zq _ _ _ _ hq, sx] at c
        cases c
    · intro h
      exact ⟨hR.1, Or.inl h⟩

/-- **removing an unentangled qubit** (in particular one in a computational-basis state, `±Z_q` in the group) leaves the
    state of the others unchanged, whatever the drawn / forced outcome: `P'` is in the new group iff `P'` with an
    identity inserted at `q` is in the old group -/
theorem removeQubit_unentangled_grp (t t' : Tab) (q : Nat) (o : Bool) (hq : q < t.n) (hv : t.Valid) (hr : t.StabReal)
    (hu : Unentangled t q) (h : t.removeQubit q o = .ok t') :
    ∀ P', Grp t' P' ↔ Grp t (P'.insertCol q) := by
  intro P'
  rw [(removeQubit_grp t t' q o hq hv hr h).2.2.2 P']
  exact measure_unentangled t q o hq hv hr hu _ ⟨insertCol_x q P', insertCol_z q P'⟩

theorem unentangled_of_Zq (t : Tab) (q : Nat) (s : Bool) (hz : Grp t (Zq q s)) : Unentangled t q := by
  refine ⟨Zq q s, hz, Or.inr (by simp [Zq]), fun j _ hj => ?_⟩
  simp [Zq, hj]

/-- every element of the old group, reduced to the remaining qubits (the factor `Z_q` replaced by its sign), is in
    the new group -/
theorem removeQubit_Zq_image (t t' : Tab) (q : Nat) (o s : Bool) (hq : q < t.n) (hv : t.Valid) (hr : t.StabReal)
    (hz : Grp t (Zq q s)) (h : t.removeQubit q o = .ok t') (P : PRow) (hP : Grp t P) :
    P.x q = false ∧
    Grp t' ((if P.z q then PRow.mul t.n P (Zq q s) else P).deleteCol q) := by
  have g := removeQubit_unentangled_grp t t' q o hq hv hr (unentangled_of_Zq t q s hz) h
  have px : P.x q = false := by
    have := grp_comm t hv hr _ _ hP hz
    rw [sp_Zq _ _ _ _ hq] at this; exact this
  refine ⟨px, ?_⟩
  rw [g]
  by_cases hzq : P.z q = true
  · rw [if_pos hzq]
    exact InSpan.eqv _ _ (InSpan.mul _ _ hP hz)
      (insertCol_deleteCol t.n q _ (by simp [px, Zq]) (by simp [hzq, Zq])).symm
  · rw [if_neg hzq]
    exact InSpan.eqv _ _ hP (insertCol_deleteCol t.n q _ px (by simpa using hzq)).symm

/-! ### partial trace -/

/-- insert identities at the removed positions (listed highest first, as `partial_trace` removes them) -/
def embedCols : List Nat → PRow → PRow
  | [], P => P
  | q :: rest, P => (embedCols rest P).insertCol q

theorem unentangled_after_remove (t t' : Tab) (q q' : Nat) (hq : q < t.n) (hq' : q' < q)
    (hu : Unentangled t q') (g : ∀ P', Grp t' P' ↔ Grp t (P'.insertCol q)) (hn : t'.n = t.n - 1) :
    Unentangled t' q' := by
  obtain ⟨σ, gσ, h1, h2⟩ := hu
  have sq := h2 q hq (by omega)
  refine ⟨σ.deleteCol q, ?_, ?_, ?_⟩
  · rw [g]; exact InSpan.eqv _ _ gσ (insertCol_deleteCol t.n q σ sq.1 sq.2).symm
  · simp only [PRow.deleteCol, hq', if_true]; exact h1
  · intro j hj hjq
    rw [hn] at hj
    simp only [PRow.deleteCol]
    by_cases e : j < q
    · simp only [e, if_true]; exact h2 j (by omega) hjq
    · simp only [e, if_false]; exact h2 (j + 1) (by omega) (by omega)

/-- `partial_trace` of unentangled qubits: by induction over the removal list (strictly descending) -/
theorem partialTrace_go_product (rem : List Nat) :
    ∀ (t t' : Tab) (os : List Bool), t.Valid → t.StabReal → rem.Pairwise (· > ·) → (∀ q, q ∈ rem → q < t.n) →
      (∀ q, q ∈ rem → Unentangled t q) → partialTrace.go t rem os = .ok t' →
      t'.Valid ∧ t'.StabReal ∧ t'.n + rem.length = t.n ∧ ∀ P', Grp t' P' ↔ Grp t (embedCols rem P') := by
  induction rem with
  | nil =>
    intro t t' os hv hr _ _ _ h
    simp [partialTrace.go] at h
    subst h
    exact ⟨hv, hr, rfl, fun _ => Iff.rfl⟩
  | cons q rest ih =>
    intro t t' os hv hr hpw hlt hu h
    simp only [partialTrace.go] at h
    cases hrm : t.removeQubit? q (os.headD false) with
    | error e => rw [hrm] at h; simp at h
    | ok t1 =>
      rw [hrm] at h
      simp only at h
      have hq : q < t.n := hlt q List.mem_cons_self
      have hrm' : t.removeQubit q (os.headD false) = .ok t1 := by
        unfold removeQubit? at hrm; rw [if_pos hq] at hrm; exact hrm
      obtain ⟨n1, v1, r1, _⟩ := removeQubit_grp t t1 q _ hq hv hr hrm'
      have g1 := removeQubit_unentangled_grp t t1 q _ hq hv hr (hu q List.mem_cons_self) hrm'
      have hpw' := List.pairwise_cons.mp hpw
      have hn1 : t1.norm.n = t.n - 1 := n1
      obtain ⟨v', r', n', g'⟩ := ih t1.norm t' _ (tnorm_valid t1 v1) (norm_stabReal t1 r1) hpw'.2
        (by
          intro q' hq'
          have := hpw'.1 q' hq'
          rw [hn1]; omega)
        (by
          intro q' hq'
          have hlt' := hpw'.1 q' hq'
          obtain ⟨σ, gσ, hσ⟩ := unentangled_after_remove t t1 q q' hq hlt' (hu q' (List.mem_cons_of_mem _ hq')) g1 n1
          exact ⟨σ, (norm_grp t1 σ).mpr gσ, hσ⟩)
        h
      refine ⟨v', r', ?_, ?_⟩
      · simp only [List.length_cons]; rw [hn1] at n'; omega
      · intro P'
        rw [g', norm_grp, g1]
        rfl

/-- the removal list of `partial_trace`: qubits not kept, highest first -/
def removalList (n : Nat) (keep : List Nat) : List Nat := ((List.range n).filter fun i => !keep.contains i).reverse

theorem removalList_desc (n : Nat) (keep : List Nat) : (removalList n keep).Pairwise (· > ·) := by
  unfold removalList
  rw [List.pairwise_reverse]
  exact List.Pairwise.sublist List.filter_sublist List.pairwise_lt_range

theorem mem_removalList (n : Nat) (keep : List Nat) (q : Nat) : q ∈ removalList n keep ↔ q < n ∧ q ∉ keep := by
  unfold removalList
  simp [List.mem_filter]

theorem partialTrace_eq (t : Tab) (keep : List Nat) (os : List Bool) :
    t.partialTrace keep os = partialTrace.go t (removalList t.n keep) os := rfl

/-- **`partial_trace` of a pure product factor**: if every traced-out qubit is unentangled (carries a single-site
    stabilizer), the result is the state of the kept qubits — `P'` is in the new group iff `P'` with identities inserted
    at the traced-out positions is in the old group — independently of the drawn / forced outcomes -/
theorem partialTrace_product_grp (t t' : Tab) (keep : List Nat) (os : List Bool) (hv : t.Valid) (hr : t.StabReal)
    (hu : ∀ q, q < t.n → q ∉ keep → Unentangled t q) (h : t.partialTrace keep os = .ok t') :
    t'.n + (removalList t.n keep).length = t.n ∧
    ∀ P', Grp t' P' ↔ Grp t (embedCols (removalList t.n keep) P') := by
  rw [partialTrace_eq] at h
  obtain ⟨_, _, n', g'⟩ := partialTrace_go_product (removalList t.n keep) t t' os hv hr (removalList_desc t.n keep)
    (fun q hq => ((mem_removalList t.n keep q).mp hq).1)
    (fun q hq => hu q ((mem_removalList t.n keep q).mp hq).1 ((mem_removalList t.n keep q).mp hq).2) h
  exact ⟨n', g'⟩

end Graphiq.TabSpec
