/-
  Proofs/C17Bridge.lean — the exact rational model of the density-matrix side (`DM.stabilizerDensity`, `DM.isDensityMatrix`,
  `DM.isPure`, `DM.stabOverlap`; Model/DMSem.lean) on stabilizer states, through the representation bridge `Hilbert.Rep`
  (Proofs/HilbertBridge*.lean): for every valid Clifford tableau the matrix `stabilizerDensity t` passes
  `is_density_matrix` and `is_pure`, and `stabOverlap a b` is exactly the value `inner_product` reports (0 or `2^{-e}`).
  All sizes.
-/
import GraphiqModel.Proofs.C17BridgePsd
import GraphiqModel.Proofs.InnerProductHilbert
import GraphiqModel.Proofs.InvValid
import GraphiqModel.Proofs.InvHilbert
namespace Graphiq
namespace C17B
open Hilbert Matrix STab

theorem stabilizerDensity_isDensityMatrix (t : Tab) (hv : t.Valid) :
    DM.isDensityMatrix (DM.stabilizerDensity t) = true := by
  have g := ofTab_good t hv
  exact isDensityMatrix_of_rep (rep_stabilizerDensity t)
    (posSemidef_of_projector _ (rho_idem _ g) (rho_hermitian _ g)) (rho_ofTab_trace t hv)

theorem stabilizerDensity_isPure (t : Tab) (hv : t.Valid) : DM.isPure (DM.stabilizerDensity t) = true := by
  have g := ofTab_good t hv
  exact isPure_of_rep (rep_stabilizerDensity t) (rho_idem _ g) (rho_ofTab_trace t hv)

/-- the value of `ipVal` as a rational -/
def ipValQ : Option Nat → Rat
  | none => 0
  | some e => (1 / 2 : Rat) ^ e

theorem ipVal_eq (r : Option Nat) : ipVal r = ((ipValQ r : Rat) : ℂ) := by
  cases r with
  | none => simp [ipVal, ipValQ]
  | some e => simp [ipVal, ipValQ]

/-- **`stabOverlap` is the value `inner_product` reports**: `tr(ρ_a ρ_b)` computed in ℚ[i] is 0 or `2^{-e}` -/
theorem stabOverlap_eq (a b : Tab) (r : Option Nat) (ga : (STab.ofTab a).Good) (gb : (STab.ofTab b).Good)
    (h : STab.innerProduct a b = .ok r) : DM.stabOverlap a b = ipValQ r := by
  have hn : a.n = b.n := (innerProduct_inv a b r h).1
  have ra := rep_stabilizerDensity a
  have rb : Rep a.n (DM.stabilizerDensity b) (tabRho a.n b) := by
    have := rep_stabilizerDensity b
    rw [← hn] at this; exact this
  have ht := (ra.mul rb).trace
  have hv := innerProduct_trace a b r ga gb h
  have : gqC ((DM.stabilizerDensity a).mul (DM.stabilizerDensity b)).trace = ((ipValQ r : Rat) : ℂ) := by
    rw [ht]
    show Matrix.trace (rho a.n (STab.ofTab a) * rho a.n (STab.ofTab b)) = _
    rw [hv, ipVal_eq]
  have hre := congrArg Complex.re this
  rw [gqC_re] at hre
  unfold DM.stabOverlap
  have : ((((DM.stabilizerDensity a).mul (DM.stabilizerDensity b)).trace.re : Rat) : ℝ) = ((ipValQ r : Rat) : ℝ) := by
    rw [hre]; simp
  exact_mod_cast this

/-- **the exact overlap is `|⟨ψ_a|ψ_b⟩|²`** for unit vectors with `ρ_a = |ψ_a⟩⟨ψ_a|`, `ρ_b = |ψ_b⟩⟨ψ_b|` -/
theorem stabOverlap_inner (a b : Tab) (va : a.Valid) (vb : b.Valid) (hn : a.n = b.n) :
    ∃ ψa ψb : Bits a.n → ℂ,
      (∑ x, star (ψa x) * ψa x = 1) ∧ (∑ x, star (ψb x) * ψb x = 1) ∧
      (∀ x y, tabRho a.n a x y = ψa x * star (ψa y)) ∧ (∀ x y, tabRho a.n b x y = ψb x * star (ψb y)) ∧
      ((DM.stabOverlap a b : Rat) : ℂ) = (∑ x, star (ψa x) * ψb x) * star (∑ x, star (ψa x) * ψb x) := by
  have ga := ofTab_good_of_valid a va
  have gb := ofTab_good_of_valid b vb
  obtain ⟨r, hr⟩ := innerProduct_total_full a b ga gb (ofTab_indep a va) (ofTab_indep b vb) hn
  obtain ⟨ta, ca, ha, _⟩ := inverseCircuit_of_valid a va
  obtain ⟨tb, cb, hb, _⟩ := inverseCircuit_of_valid b vb
  obtain ⟨a1, a2⟩ := rho_rank_one _ ta ca ga ha
  obtain ⟨b1, b2⟩ := rho_rank_one _ tb cb gb hb
  have nb : (STab.ofTab b).n = a.n := hn.symm
  rw [nb] at b1 b2
  refine ⟨_, _, a2, b2, a1, b1, ?_⟩
  rw [stabOverlap_eq a b r ga gb hr, ← ipVal_eq]
  exact (innerProduct_trace a b r ga gb hr).symm.trans (trace_rank_one _ _ _ _ a1 b1)

theorem ipValQ_range (r : Option Nat) : 0 ≤ ipValQ r ∧ ipValQ r ≤ 1 := by
  cases r with
  | none => simp [ipValQ]
  | some e =>
    simp only [ipValQ]
    exact ⟨pow_nonneg (by norm_num) e, pow_le_one₀ (by norm_num) (by norm_num)⟩

/-- the overlap of two valid tableaux of equal size lies in `[0, 1]` -/
theorem stabOverlap_range (a b : Tab) (va : a.Valid) (vb : b.Valid) (hn : a.n = b.n) :
    0 ≤ DM.stabOverlap a b ∧ DM.stabOverlap a b ≤ 1 := by
  have ga := ofTab_good_of_valid a va
  have gb := ofTab_good_of_valid b vb
  obtain ⟨r, hr⟩ := innerProduct_total_full a b ga gb (ofTab_indep a va) (ofTab_indep b vb) hn
  rw [stabOverlap_eq a b r ga gb hr]
  exact ipValQ_range r

end C17B
end Graphiq
