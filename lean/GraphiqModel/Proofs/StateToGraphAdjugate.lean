/-
  Proofs/StateToGraphAdjugate.lean — the two floating-point lines of `_graph_finder`,
      `assert int(np.round(np.linalg.det(x_mat))) % 2 != 0`
      `x_inv = (np.round(np.linalg.det(x_mat.T) * np.linalg.inv(x_mat.T)) % 2).astype(int)`
  read in EXACT arithmetic (`det · inv` of an integer matrix is its adjugate, an integer matrix): `adjInv`.
  Proved (all n): on every 0/1 matrix with trivial GF(2) kernel the integer determinant is odd (the assertion does not fire) and the
  adjugate reduced mod 2 is a left inverse over GF(2) (`adjInv_ok`), and it agrees entry by entry with the Gauss–Jordan inverse
  `gf2InvF` of the executable model (`adjInv_eq_gf2InvF`), so the model run with `adjInv` returns the same graph and gates
  (`graphFinderWith_adjInv`).  What stays outside: that the float evaluation of `det · inv` is within 1/2 of the adjugate.
-/
import GraphiqModel.Proofs.StateToGraphTotal
import Mathlib.LinearAlgebra.Matrix.Adjugate
namespace Graphiq
namespace S2G
open Matrix

/-- the 0/1 integer matrix that numpy holds -/
def intMat (n : Nat) (A : Adj) : Matrix (Fin n) (Fin n) ℤ := fun i j => if A i.val j.val then 1 else 0

/-- exact-arithmetic reading of the determinant assertion and of `(round(det · inv) % 2).astype(int)`:
    `none` when the integer determinant is even, else the adjugate reduced mod 2 -/
noncomputable def adjInv (n : Nat) (A : Adj) : Option Adj :=
  if (intMat n A).det % 2 = 0 then none
  else some fun i j => if h : i < n ∧ j < n then decide ((adjugate (intMat n A) ⟨i, h.1⟩ ⟨j, h.2⟩) % 2 = 1) else false

theorem toMat_eq_map (n : Nat) (A : Adj) : toMat n A = (Int.castRingHom (ZMod 2)).mapMatrix (intMat n A) := by
  ext i j
  simp only [toMat, intMat, RingHom.mapMatrix_apply, Matrix.map_apply, b2z]
  split <;> simp

theorem zmod2_cast_eq_one_iff (z : ℤ) : ((z : ZMod 2) = 1) ↔ z % 2 = 1 := by
  have h : ((z : ZMod 2) = ((1 : ℤ) : ZMod 2)) ↔ z % 2 = 1 % 2 := by
    rw [ZMod.intCast_eq_intCast_iff]
    exact Iff.rfl
  simpa using h

theorem zmod2_cast_eq_zero_iff (z : ℤ) : ((z : ZMod 2) = 0) ↔ z % 2 = 0 := by
  rw [ZMod.intCast_zmod_eq_zero_iff_dvd]
  exact ⟨fun h => Int.emod_eq_zero_of_dvd h, fun h => Int.dvd_of_emod_eq_zero h⟩

/-- a matrix with trivial GF(2) kernel has an invertible image over `ZMod 2` -/
theorem toMat_left_inverse (n : Nat) (A : Adj) (h : Inj n A) : ∃ N : Adj, toMat n N * toMat n A = 1 := by
  obtain ⟨M, _, hM⟩ := gf2Inv_complete n A h
  exact ⟨M.f, by rw [← toMat_mul]; exact (toMat_one_iff n _).mpr hM⟩

/-- **the determinant assertion does not fire**: the integer determinant of a 0/1 matrix with trivial GF(2) kernel is odd -/
theorem det_odd_of_inj (n : Nat) (A : Adj) (h : Inj n A) : (intMat n A).det % 2 = 1 := by
  obtain ⟨N, hN⟩ := toMat_left_inverse n A h
  have hdet : (toMat n N).det * (toMat n A).det = 1 := by rw [← Matrix.det_mul, hN, Matrix.det_one]
  have hne : (toMat n A).det ≠ 0 := by
    intro h0; rw [h0, mul_zero] at hdet; exact zero_ne_one hdet
  have h1 : (toMat n A).det = 1 := by
    have : ∀ z : ZMod 2, z ≠ 0 → z = 1 := by decide
    exact this _ hne
  rw [toMat_eq_map, ← RingHom.map_det] at h1
  exact (zmod2_cast_eq_one_iff _).mp h1

/-- the matrix `adjInv` returns, over `ZMod 2`, is the adjugate of the GF(2) matrix -/
theorem toMat_adj (n : Nat) (A : Adj) :
    toMat n (fun i j => if h : i < n ∧ j < n then decide ((adjugate (intMat n A) ⟨i, h.1⟩ ⟨j, h.2⟩) % 2 = 1) else false) =
      adjugate (toMat n A) := by
  rw [toMat_eq_map n A, ← RingHom.map_adjugate]
  ext i j
  simp only [toMat, Matrix.map_apply, RingHom.mapMatrix_apply, dif_pos (And.intro i.isLt j.isLt), Fin.eta, b2z,
    Int.coe_castRingHom]
  by_cases h : (adjugate (intMat n A) i j) % 2 = 1
  · simp only [h, decide_true, if_true]
    exact ((zmod2_cast_eq_one_iff _).mpr h).symm
  · have h0 : (adjugate (intMat n A) i j) % 2 = 0 := by omega
    simp only [h, decide_false]
    exact ((zmod2_cast_eq_zero_iff _).mpr h0).symm

/-- **the exact-arithmetic reading of `det · inv % 2` is a correct GF(2) inverse** on every matrix with trivial kernel -/
theorem adjInv_ok (n : Nat) : InvOK adjInv n := by
  intro A h
  have hd := det_odd_of_inj n A h
  refine ⟨_, by unfold adjInv; rw [if_neg (by omega)], ?_⟩
  apply (toMat_one_iff n _).mp
  rw [toMat_mul, toMat_adj, Matrix.adjugate_mul]
  have h1 : (toMat n A).det = 1 := by
    rw [toMat_eq_map, ← RingHom.map_det]
    exact (zmod2_cast_eq_one_iff _).mpr hd
  rw [h1, one_smul]

/-- a left inverse of a matrix with trivial kernel is unique (below `n`) -/
theorem left_inverse_unique (n : Nat) (A M M' : Adj)
    (h : ∀ i j, i < n → j < n → matMul n M A i j = decide (i = j))
    (h' : ∀ i j, i < n → j < n → matMul n M' A i j = decide (i = j)) :
    ∀ i j, i < n → j < n → M i j = M' i j := by
  have e : toMat n M * toMat n A = 1 := by rw [← toMat_mul]; exact (toMat_one_iff n _).mpr h
  have e' : toMat n M' * toMat n A = 1 := by rw [← toMat_mul]; exact (toMat_one_iff n _).mpr h'
  have r : toMat n A * toMat n M = 1 := mul_eq_one_comm.mp e
  have : toMat n M = toMat n M' := by
    calc toMat n M = (toMat n M' * toMat n A) * toMat n M := by rw [e', Matrix.one_mul]
      _ = toMat n M' * (toMat n A * toMat n M) := Matrix.mul_assoc _ _ _
      _ = toMat n M' := by rw [r, Matrix.mul_one]
  intro i j hi hj
  have := congrFun (congrFun this ⟨i, hi⟩) ⟨j, hj⟩
  exact b2z_inj _ _ this

/-- **the executable model's Gauss–Jordan inverse IS the adjugate mod 2**, entry by entry, on every matrix with trivial kernel -/
theorem adjInv_eq_gf2InvF (n : Nat) (A : Adj) (h : Inj n A) :
    ∃ M M', adjInv n A = some M ∧ gf2InvF n A = some M' ∧ ∀ i j, i < n → j < n → M i j = M' i j := by
  obtain ⟨M, e, hM⟩ := adjInv_ok n A h
  obtain ⟨M', e', hM'⟩ := gf2InvF_ok n A h
  exact ⟨M, M', e, e', left_inverse_unique n A M M' hM hM'⟩

/-- on independent commuting rows `_graph_finder` computed with the exact-arithmetic `det · inv % 2` and with the model's Gauss–Jordan
    inverse are the same computation -/
theorem graphFinderWith_adjInv (m0 : XZ) (hn : 0 < m0.n) (hc : Comm m0) (hi : Indep m0) :
    graphFinderWith adjInv m0 = graphFinder m0 :=
  graphFinderWith_congr adjInv gf2InvF m0 hn hc hi (fun A h => adjInv_eq_gf2InvF m0.n A h)

/-- `x_mat` of `_graph_finder` at the determinant assertion: the X part after `row_reduction` and `hadamard_transform` -/
def xAfterHadamards (m0 : XZ) : Adj :=
  ((m0.norm.rowReduction.1.hadamardTransform (positionFinder m0.n m0.norm.rowReduction.1.x)).norm).x

/-- **the determinant assertion of `_graph_finder` cannot fire in exact arithmetic**: on independent commuting rows the integer
    determinant of `x_mat` (equivalently of `x_mat.T`) is odd -/
theorem det_xAfterHadamards_odd (m0 : XZ) (hn : 0 < m0.n) (hc : Comm m0) (hi : Indep m0) :
    (intMat m0.n (transpose (xAfterHadamards m0))).det % 2 = 1 ∧ (intMat m0.n (xAfterHadamards m0)).det % 2 = 1 := by
  have h : (intMat m0.n (transpose (xAfterHadamards m0))).det % 2 = 1 :=
    det_odd_of_inj m0.n _ (hadamard_x_inj m0 hn hc hi)
  refine ⟨h, ?_⟩
  have : intMat m0.n (transpose (xAfterHadamards m0)) = (intMat m0.n (xAfterHadamards m0))ᵀ := by
    ext i j; rfl
  rw [this, Matrix.det_transpose] at h
  exact h

end S2G

open S2G in
/-- **the executable model equals the exact-arithmetic reading of the Python on every stabilizer state**: `state_to_graph` with
    `x_inv = adj(x.T) mod 2` (what `np.round(det · inv) % 2` is when the float error is below 1/2) returns exactly what the model with
    Gauss–Jordan elimination returns -/
theorem stateToGraphWith_adjInv (t : STab) (hn : 0 < t.n) (hg : t.Good) (hi : Indep (XZ.ofSTab t)) :
    stateToGraphWith adjInv t = stateToGraph t := by
  unfold stateToGraph stateToGraphWith
  rw [graphFinderWith_adjInv (XZ.ofSTab t) hn (comm_ofSTab t hg) hi]
  rfl

end Graphiq
