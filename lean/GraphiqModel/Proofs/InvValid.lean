/-
  Proofs/InvValid.lean — the stabilizer half of a valid Clifford tableau is an independent real commuting generating set
  (the destabilizers witness the independence), so `inverse_circuit`, `clifford_from_stabilizer` and `inner_product`
  return on everything the stabilizer backend holds.  All sizes.
-/
import GraphiqModel.Proofs.InvTotal
namespace Graphiq
open PRow Tab
namespace STab

/-- the commutation bit of `d` with a GF(2) combination of rows is the combination of the commutation bits -/
theorem sp_combination (n : Nat) (d : PRow) (row : Nat → PRow) (S : Nat → Bool) (m : Nat) :
    parityTo m (fun i => S i && sp n d (row i))
      = parityTo n (fun j => xor (d.x j && parityTo m (fun i => S i && (row i).z j))
          (d.z j && parityTo m (fun i => S i && (row i).x j))) := by
  have e1 : ∀ i, i < m → (S i && sp n d (row i))
      = parityTo n (fun j => xor (d.x j && (S i && (row i).z j)) (d.z j && (S i && (row i).x j))) := by
    intro i _
    unfold sp
    rw [← parityTo_and_const]
    apply parityTo_congr
    intro j _
    cases S i <;> cases d.x j <;> cases d.z j <;> cases (row i).z j <;> cases (row i).x j <;> rfl
  rw [parityTo_congr m _ _ e1, parityTo_fubini]
  apply parityTo_congr
  intro j _
  rw [parityTo_xor, parityTo_and_const, parityTo_and_const]

/-- **the stabilizer half of a valid Clifford tableau is independent** -/
theorem ofTab_indep (T : Tab) (hv : T.Valid) : (STab.ofTab T).Indep := by
  intro S hS j hj
  have hj' : j < T.n := hj
  -- pair the combination with the destabilizer `j`
  have h1 := sp_combination T.n (T.row j) (STab.ofTab T).row S T.n
  have hz : parityTo T.n (fun c => xor ((T.row j).x c && parityTo T.n (fun i => S i && ((STab.ofTab T).row i).z c))
      ((T.row j).z c && parityTo T.n (fun i => S i && ((STab.ofTab T).row i).x c))) = false := by
    apply parityTo_zero
    intro c hc
    have := hS c hc
    have a1 : parityTo T.n (fun i => S i && ((STab.ofTab T).row i).x c) = false := this.1
    have a2 : parityTo T.n (fun i => S i && ((STab.ofTab T).row i).z c) = false := this.2
    rw [a1, a2]; simp
  rw [hz] at h1
  have e : ∀ i, i < T.n → (S i && sp T.n (T.row j) ((STab.ofTab T).row i)) = (decide (i = j) && S i) := by
    intro i hi
    have : sp T.n (T.row j) ((STab.ofTab T).row i) = decide (i = j) := by
      show sp T.n (T.row j) { (T.row (i + T.n)) with ip := false } = _
      have h2 := hv j (i + T.n) (by omega) (by omega)
      have h3 : sp T.n (T.row j) { (T.row (i + T.n)) with ip := false } = sp T.n (T.row j) (T.row (i + T.n)) := rfl
      rw [h3, h2]
      apply decide_eq_decide.mpr
      omega
    rw [this, Bool.and_comm]
  rw [parityTo_congr T.n _ _ e, parityTo_single T.n j S hj'] at h1
  exact h1

theorem ofTab_good_of_valid (T : Tab) (hv : T.Valid) : (STab.ofTab T).Good := by
  constructor
  · intro i _; rfl
  · intro i k hi hk
    show sp T.n (T.row (i + T.n)) (T.row (k + T.n)) = false
    have hi' : i < T.n := hi
    have hk' : k < T.n := hk
    rw [hv (i + T.n) (k + T.n) (by omega) (by omega)]
    exact decide_eq_false (by omega)

/-- `inverse_circuit` returns |0…0⟩ on the stabilizer half of every valid Clifford tableau -/
theorem inverseCircuit_of_valid (T : Tab) (hv : T.Valid) :
    ∃ t' circ, (STab.ofTab T).inverseCircuit = .ok (t', circ) ∧ t'.isZero = true :=
  inverseCircuit_complete _ (ofTab_good_of_valid T hv) (ofTab_indep T hv)

end STab
end Graphiq
