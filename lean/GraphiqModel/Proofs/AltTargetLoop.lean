/-
  Proofs/AltTargetLoop.lean — relabelling (composition, isomorphism, agreement with `relabel` of relabel_module.py) and the
  outer loops of `AlternateTargetSolver.solve` with the solver / LC conversion / relabel map as parameters.
-/
import GraphiqModel.Proofs.AltTarget
import GraphiqModel.Proofs.GraphOps
import GraphiqModel.Proofs.Check
namespace Graphiq
namespace Alt
open STab

/-! ### relabelling -/

theorem relabelAdj_iff (n : Nat) (A : Adj) (p : List Nat) (a b : Nat) :
    relabelAdj n A p a b = true ↔ ∃ u v, u < n ∧ v < n ∧ p.getD u n = a ∧ p.getD v n = b ∧ A u v = true := by
  unfold relabelAdj
  simp only [List.any_eq_true, List.mem_range, Bool.and_eq_true, beq_iff_eq]
  constructor
  · rintro ⟨u, hu, v, hv, ⟨e1, e2⟩, h⟩; exact ⟨u, v, hu, hv, e1, e2, h⟩
  · rintro ⟨u, v, hu, hv, e1, e2, h⟩; exact ⟨u, hu, v, hv, ⟨e1, e2⟩, h⟩

/-- the renamed graph has the edge `(p u, p v)` exactly when the original has `(u, v)`, for a map that is injective on the vertices -/
theorem relabelAdj_edge (n : Nat) (A : Adj) (p : List Nat)
    (hinj : ∀ u v, u < n → v < n → p.getD u n = p.getD v n → u = v) (u v : Nat) (hu : u < n) (hv : v < n) :
    relabelAdj n A p (p.getD u n) (p.getD v n) = A u v := by
  cases h : A u v with
  | true => exact (relabelAdj_iff n A p _ _).mpr ⟨u, v, hu, hv, rfl, rfl, h⟩
  | false =>
    apply Bool.eq_false_iff.mpr
    intro hc
    obtain ⟨u', v', hu', hv', e1, e2, ha⟩ := (relabelAdj_iff n A p _ _).mp hc
    have := hinj u' u hu' hu e1
    have := hinj v' v hv' hv e2
    subst_vars
    rw [h] at ha; cases ha

theorem compLabels_getD (n : Nat) (p q : List Nat) (u : Nat) (hu : u < n) :
    (compLabels n p q).getD u n = q.getD (p.getD u n) n := by
  simp [compLabels, List.getD, hu]

/-- **relabelling composes**: renaming by `p` and then by `q` is renaming by `u ↦ q[p[u]]` (for every `p` that maps vertices to
    vertices; no injectivity needed) -/
theorem relabelAdj_comp (n : Nat) (A : Adj) (p q : List Nat) (hp : ∀ u, u < n → p.getD u n < n) (a b : Nat) :
    relabelAdj n (relabelAdj n A p) q a b = relabelAdj n A (compLabels n p q) a b := by
  apply Bool.eq_iff_iff.mpr
  rw [relabelAdj_iff, relabelAdj_iff]
  constructor
  · rintro ⟨u, v, _, _, e1, e2, h⟩
    obtain ⟨u', v', hu', hv', f1, f2, h'⟩ := (relabelAdj_iff n A p u v).mp h
    refine ⟨u', v', hu', hv', ?_, ?_, h'⟩
    · rw [compLabels_getD n p q u' hu', f1, e1]
    · rw [compLabels_getD n p q v' hv', f2, e2]
  · rintro ⟨u', v', hu', hv', e1, e2, h'⟩
    rw [compLabels_getD n p q u' hu'] at e1
    rw [compLabels_getD n p q v' hv'] at e2
    exact ⟨p.getD u' n, p.getD v' n, hp u' hu', hp v' hv', e1, e2,
      (relabelAdj_iff n A p _ _).mpr ⟨u', v', hu', hv', rfl, rfl, h'⟩⟩

/-- a permutation list maps vertices to vertices, injectively -/
theorem perm_getD (n : Nat) (p : List Nat) (hp : p.Perm (List.range n)) :
    p.length = n ∧ (∀ u, u < n → p.getD u n < n) ∧ (∀ u v, u < n → v < n → p.getD u n = p.getD v n → u = v) := by
  have hinj := injLabels_of_perm n p hp
  have hlen : p.length = n := hinj.1
  have hget : ∀ u, (hu : u < n) → p.getD u n = p[u]'(by omega) := by
    intro u hu
    have hu' : u < p.length := by omega
    simp [List.getD, List.getElem?_eq_getElem hu']
  refine ⟨hlen, fun u hu => ?_, fun u v hu hv e => ?_⟩
  · rw [hget u hu]
    exact List.mem_range.mp (hp.mem_iff.mp (List.getElem_mem _))
  · rw [hget u hu, hget v hv] at e
    apply hinj.2 u v hu hv
    rw [List.getElem?_eq_getElem (by omega), List.getElem?_eq_getElem (by omega), e]

/-- **relabelling by a permutation yields an isomorphic graph**: the permutation is an isomorphism (in the sense recorded for
    networkx's matcher, C16) from the graph to its renaming -/
theorem relabelAdj_iso (n : Nat) (A : Adj) (p : List Nat) (hp : p.Perm (List.range n)) :
    isIsoMap n A (relabelAdj n A p) p = true := by
  obtain ⟨hlen, hr, hinj⟩ := perm_getD n p hp
  unfold isIsoMap
  simp only [Bool.and_eq_true, beq_iff_eq, List.all_eq_true, List.mem_range, decide_eq_true_eq, Bool.or_eq_true, ne_eq]
  refine ⟨⟨⟨hlen, hr⟩, fun u hu v hv => ?_⟩, fun u hu v hv => (relabelAdj_edge n A p hinj u v hu hv).symm⟩
  by_cases e : u = v
  · left; exact e
  · right; intro h; exact e (hinj u v hu hv h)

/-- for a permutation the renamed graph is the matrix `Pᵀ A P` computed by `relabel` of relabel_module.py (C16's model) -/
theorem relabelAdj_eq_relabel (n : Nat) (A : Adj) (p : List Nat) (hp : p.Perm (List.range n)) (a b : Nat) (ha : a < n)
    (hb : b < n) : Graphiq.relabelAdj n A p a b = relabelAdj n A p a b := by
  obtain ⟨hlen, _, hinj⟩ := perm_getD n p hp
  obtain ⟨u, hu, eu⟩ := perm_surj n p hp a ha
  obtain ⟨v, hv, ev⟩ := perm_surj n p hp b hb
  have gu : p.getD u n = a := getD_of_getElem? p u a n eu
  have gv : p.getD v n = b := getD_of_getElem? p v b n ev
  have h1 := relabelAdj_edge n A p hinj u v hu hv
  rw [gu, gv] at h1
  rw [h1]
  unfold Graphiq.relabelAdj
  rw [relabel_perm n A p (injLabels_of_perm n p hp) u v a b hu hv eu ev]
  cases A u v <;> simp [Bool.toInt']

/-! ### what "generates" means, independent of how the adjacency function behaves outside `0..n-1` -/

/-- under every combination of measurement outcomes the circuit leaves the photons in the graph state of `A`, emitters in |0⟩ -/
def Generates (ne np : Nat) (ops : List COp) (A : Adj) : Prop :=
  ∀ script : List Bool, script.length = countMeas ops →
    ∃ s, stabRun ne np .prob script ops = some s ∧ SpanEq (STab.ofTab s.t) (targetSTab np ne A)

theorem generates_of_check (ne np : Nat) (ops : List COp) (A : Adj) (h : checkGenerates ne np ops A = true) :
    Generates ne np ops A := checkGenerates_sound ne np ops A h

theorem targetSTab_congr (np ne : Nat) (A B : Adj) (h : ∀ i j, i < np → j < np → A i j = B i j) :
    SpanEq (targetSTab np ne A) (targetSTab np ne B) := by
  have rows : ∀ i, i < np + ne → PRow.EqOn (np + ne) ((targetSTab np ne A).row i) ((targetSTab np ne B).row i) := by
    intro i _
    simp only [targetSTab]
    split
    · next hi =>
      refine ⟨fun j _ => ⟨rfl, ?_⟩, rfl, rfl⟩
      by_cases hj : j < np
      · simp [hj, h i j hi hj]
      · simp [hj]
    · exact PRow.EqOn.refl _ _
  apply spanEq_of_gens _ _ (show (targetSTab np ne B).n = (targetSTab np ne A).n from rfl)
  · intro i hi
    exact Tab.InSpan.eqv _ _ (spn_gen (targetSTab np ne A) i hi) (rows i hi)
  · intro i hi
    exact Tab.InSpan.eqv _ _ (spn_gen (targetSTab np ne B) i hi) (rows i hi).symm

theorem generates_congr (ne np : Nat) (ops : List COp) (A B : Adj) (h : ∀ i j, i < np → j < np → A i j = B i j)
    (hg : Generates ne np ops A) : Generates ne np ops B := by
  intro script hl
  obtain ⟨s, hs, se⟩ := hg script hl
  exact ⟨s, hs, se.trans (targetSTab_congr np ne A B h)⟩

/-! ### the loops -/

theorem lcLoop_spec (P : Parts) (iso : BMat) (rmap : List Nat) (i : Nat) (lcs : List BMat) (k : Nat)
    (acc out : List Entry) (h : lcLoop P iso rmap i lcs k acc = .ok out) :
    ∃ new, out = acc ++ new ∧ ∀ e, e ∈ new → ∃ lc k', lc ∈ lcs ∧ lcEntry P iso rmap i k' lc = .ok e := by
  induction lcs generalizing k acc with
  | nil =>
    simp only [lcLoop] at h
    injection h with h
    exact ⟨[], by simp [h], fun _ he => by cases he⟩
  | cons lc rest ih =>
    simp only [lcLoop] at h
    split at h
    · cases h
    · next en hen =>
      obtain ⟨new, e1, e2⟩ := ih (k + 1) (acc ++ [en]) h
      refine ⟨en :: new, by rw [e1]; simp, ?_⟩
      intro e he
      rcases List.mem_cons.mp he with he | he
      · rw [he]; exact ⟨lc, k, List.mem_cons_self, hen⟩
      · obtain ⟨lc', k', hm, hh⟩ := e2 e he
        exact ⟨lc', k', List.mem_cons_of_mem _ hm, hh⟩

theorem isoLoop_spec (P : Parts) (isos : List BMat) (i : Nat) (acc out : List Entry)
    (h : isoLoop P isos i acc = .ok out) :
    ∃ new, out = acc ++ new ∧ ∀ e, e ∈ new → ∃ iso i' lc k', iso ∈ isos ∧ lc ∈ P.lcGraphs iso ∧
      lcEntry P iso (P.relabelMap iso) i' k' lc = .ok e := by
  induction isos generalizing i acc with
  | nil =>
    simp only [isoLoop] at h
    injection h with h
    exact ⟨[], by simp [h], fun _ he => by cases he⟩
  | cons iso rest ih =>
    simp only [isoLoop] at h
    split at h
    · cases h
    · next acc' hacc =>
      obtain ⟨new1, e1, f1⟩ := lcLoop_spec P iso (P.relabelMap iso) i (P.lcGraphs iso) 0 acc acc' hacc
      obtain ⟨new2, e2, f2⟩ := ih (i + 1) acc' h
      refine ⟨new1 ++ new2, by rw [e2, e1]; simp, ?_⟩
      intro e he
      rcases List.mem_append.mp he with he | he
      · obtain ⟨lc, k', hm, hh⟩ := f1 e he
        exact ⟨iso, i, lc, k', List.mem_cons_self, hm, hh⟩
      · obtain ⟨iso', i', lc, k', hm1, hm2, hh⟩ := f2 e he
        exact ⟨iso', i', lc, k', List.mem_cons_of_mem _ hm1, hm2, hh⟩

/-- every entry of `results_list` comes from one round of the inner loop -/
theorem allEntries_spec (P : Parts) (es : List Entry) (h : allEntries P = .ok es) :
    ∀ e, e ∈ es → ∃ iso i lc k, iso ∈ P.isoAdjs ∧ lc ∈ P.lcGraphs iso ∧
      lcEntry P iso (P.relabelMap iso) i k lc = .ok e := by
  obtain ⟨new, e1, f⟩ := isoLoop_spec P P.isoAdjs 0 [] es h
  intro e he
  rw [e1] at he
  exact f e (by simpa using he)

theorem beq_agree (a b : BMat) (h : a.beq b = true) : ∀ i j, i < a.r → j < a.c → a.f i j = b.f i j := by
  unfold BMat.beq at h
  simp only [Bool.and_eq_true, beq_iff_eq, List.all_eq_true, List.mem_range] at h
  exact fun i j hi hj => h.2 i hi j hj

/-- **one entry is right when the parts are**: if the solver's circuit generates the LC graph, the conversion gates turn a
    generator of the LC graph into a generator of the relabelled target, and the relabel map renames the target into that
    relabelled target, then the entry's circuit generates the target renamed by the entry's map -/
theorem lcEntry_generates (P : Parts) (np : Nat) (target : Adj) (iso lc : BMat) (i k : Nat) (e : Entry)
    (hsolver : ∀ ne ops, P.solver lc = some (ne, ops) → Generates ne np ops lc.f)
    (hconv : ∀ ne ops gates, P.conv lc iso = some gates → Generates ne np ops lc.f → Generates ne np (ops ++ gates) iso.f)
    (hshape : lc.r = np ∧ lc.c = np)
    (hmap : ∀ a b, a < np → b < np → iso.f a b = relabelAdj np target (P.relabelMap iso) a b)
    (h : lcEntry P iso (P.relabelMap iso) i k lc = .ok e) :
    Generates e.ne np e.ops (relabelAdj np target e.map) ∧ e.g = lc ∧ e.map = P.relabelMap iso := by
  unfold lcEntry at h
  split at h
  · cases h
  · next ne ops hs =>
    split at h
    · cases h
    · next gates hc =>
      injection h with h
      subst h
      refine ⟨?_, rfl, rfl⟩
      have g1 := hsolver ne ops hs
      by_cases hb : lc.beq iso = true
      · simp only [hb, if_true]
        have hag := beq_agree lc iso hb
        rw [hshape.1, hshape.2] at hag
        exact generates_congr ne np ops lc.f _ (fun a b ha hb' => (hag a b ha hb').trans (hmap a b ha hb')) g1
      · simp only [hb, Bool.false_eq_true, if_false]
        exact generates_congr ne np _ iso.f _ hmap (hconv ne ops gates hc g1)

/-- **the result of `solve`**: every returned entry generates the target renamed by its map and lists the LC graph it was
    built from, the listed graphs are pairwise different, and every graph listed before the duplicate removal is still listed —
    provided the parts are correct and `pick` returns a member of its class -/
theorem solve_spec (P : Parts) (pick : List Nat → Nat) (np : Nat) (target : Adj) (out : List Entry)
    (hsolver : ∀ iso lc ne ops, iso ∈ P.isoAdjs → lc ∈ P.lcGraphs iso → P.solver lc = some (ne, ops) →
      Generates ne np ops lc.f)
    (hconv : ∀ iso lc ne ops gates, iso ∈ P.isoAdjs → lc ∈ P.lcGraphs iso → P.conv lc iso = some gates →
      Generates ne np ops lc.f → Generates ne np (ops ++ gates) iso.f)
    (hshape : ∀ iso lc, iso ∈ P.isoAdjs → lc ∈ P.lcGraphs iso → lc.r = np ∧ lc.c = np)
    (hmap : ∀ iso, iso ∈ P.isoAdjs → ∀ a b, a < np → b < np →
      iso.f a b = relabelAdj np target (P.relabelMap iso) a b)
    (hpick : ∀ keys : List (List Bool), ∀ s, s ∈ setList keys → pick s ∈ s)
    (h : solve P pick = .ok out) :
    (∀ e, e ∈ out → Generates e.ne np e.ops (relabelAdj np target e.map)) ∧
    out.Pairwise (fun e e' => e.g.flat ≠ e'.g.flat) ∧
    ∃ es, allEntries P = .ok es ∧ out.Sublist es ∧ ∀ e, e ∈ es → ∃ e', e' ∈ out ∧ e'.g.flat = e.g.flat := by
  unfold solve at h
  split at h
  · cases h
  · next es hes =>
    injection h with h
    have hall := allEntries_spec P es hes
    obtain ⟨T, eT, sT, gT, pT, cT⟩ := dedup_spec pick (es.map fun e => e.g.flat) es (by simp)
      (hpick (es.map fun e => e.g.flat))
    rw [eT] at h
    have hsub : out.Sublist es := by
      rw [← h]
      have := sT.map Prod.fst
      rw [zipIdx_map_fst] at this
      exact this
    have key_of : ∀ x, x ∈ T → (es.map fun e => e.g.flat)[x.2]? = some x.1.g.flat := by
      intro x hx
      rw [List.getElem?_map, gT x hx]; rfl
    refine ⟨?_, ?_, es, hes, hsub, ?_⟩
    · intro e he
      obtain ⟨iso, i, lc, k, h1, h2, h3⟩ := hall e (hsub.subset he)
      exact (lcEntry_generates P np target iso lc i k e (fun ne ops => hsolver iso lc ne ops h1 h2)
        (fun ne ops gates => hconv iso lc ne ops gates h1 h2) (hshape iso lc h1 h2) (hmap iso h1) h3).1
    · rw [← h, List.pairwise_map]
      refine List.Pairwise.imp_of_mem ?_ pT
      intro x y hx hy hne heq
      apply hne
      rw [key_of x hx, key_of y hy, heq]
    · intro e he
      obtain ⟨j, hj, ej⟩ := List.getElem_of_mem he
      obtain ⟨x, hx, kx⟩ := cT j (by simpa using hj)
      refine ⟨x.1, by rw [← h]; exact List.mem_map_of_mem hx, ?_⟩
      rw [key_of x hx, List.getElem?_map, List.getElem?_eq_getElem hj, ej] at kx
      exact Option.some.inj kx

end Alt
end Graphiq
