/-
  Proofs/SolverCompleteValidator.lean — the verified validator ACCEPTS every circuit the solver model returns (completeness of the
  validator on these circuits): `checkGenerates` runs every outcome script and compares the final group with the target through
  canonical forms (`sameGroup`); the runs succeed with exactly the target group (`solve_correct`), and `sameGroup` is complete on valid
  tableaux because `canonical_form` is a normal form (C05 `canon_unique`) and returns on them (it is the first step of `inverse_circuit`).
-/
import GraphiqModel.Proofs.SolverCompleteFinal
import GraphiqModel.Proofs.SolverCompleteFlag
import GraphiqModel.Proofs.CanonUnique
namespace Graphiq.Solver
open Graphiq Graphiq.Cliff PRow STab Tab

theorem ofTab_good' (t : Tab) (hv : t.Valid) : (STab.ofTab t).Good := by
  constructor
  · intro i _; rfl
  · intro i k hi hk
    show sp t.n (t.row (i + t.n)) (t.row (k + t.n)) = false
    have hi' : i < t.n := hi
    have hk' : k < t.n := hk
    rw [hv (i + t.n) (k + t.n) (by omega) (by omega)]
    exact decide_eq_false (by omega)

/-- the starting tableau of the solver is, row by row, the property's target tableau -/
theorem withEmitters_target_rows (np ne : Nat) (adj : Nat → Nat → Bool) (i : Nat) (hi : i < np + ne) :
    EqOn (np + ne) ((withEmitters (graphSTab np adj) ne).row i) ((targetSTab np ne adj).row i) := by
  refine (withEmitters_row (graphSTab np adj) ne i hi).trans ?_
  have hn : (graphSTab np adj).n = np := rfl
  unfold extRow targetSTab
  rw [hn]
  by_cases h : i < np
  · simp only [h, if_true]
    refine ⟨fun j hj => ?_, rfl, rfl⟩
    simp only [PRow.truncCols, graphSTab]
    constructor
    · by_cases e : j = i
      · subst e; simp [h]
      · simp [e]
    · cases hjn : decide (j < np) <;> simp
  · simp only [h, if_false]
    exact EqOn.refl _ _

theorem targetSTab_good (np ne : Nat) (adj : Nat → Nat → Bool) (hsym : ∀ i j, adj i j = adj j i) : (targetSTab np ne adj).Good := by
  obtain ⟨g, n0⟩ := withEmitters_good (graphSTab np adj) (graphSTab_good np adj hsym) ne
  have hn : (withEmitters (graphSTab np adj) ne).n = np + ne := n0
  apply good_of_eqOn (withEmitters (graphSTab np adj) ne) (targetSTab np ne adj) (by rw [hn]; rfl) _ g
  intro i hi
  rw [hn] at hi ⊢
  exact (withEmitters_target_rows np ne adj i hi).symm

theorem targetSTab_linIndep (np ne : Nat) (adj : Nat → Nat → Bool) : (targetSTab np ne adj).LinIndep :=
  indep_of_spanEq _ _ (withEmitters_graph np ne adj) (indep_withEmitters _ (graph_indep np adj) ne)

theorem sameRows_of_rows (a b : STab) (hn : a.n = b.n) (h : ∀ i, i < a.n → EqOn a.n (a.row i) (b.row i)) : a.sameRows b = true := by
  unfold STab.sameRows
  simp only [Bool.and_eq_true, beq_iff_eq, List.all_eq_true, List.mem_range]
  exact ⟨hn, fun i hi => beqOn_of_eqOn a.n _ _ (h i hi)⟩

/-- **`sameGroup` is complete on valid stabilizer tableaux**: real, commuting, independent generators of the same signed group have
    equal canonical forms (C05 normal form), and `canonical_form` returns on them (first step of `inverse_circuit`, `hinv`) -/
theorem sameGroup_of_spanEq (hinv : InvComplete) (a b : STab) (ga : a.Good) (gb : b.Good) (ia : a.LinIndep) (ib : b.LinIndep)
    (h : SpanEq a b) : a.sameGroup b = true := by
  obtain ⟨ta, ca, ha, _⟩ := hinv a ga (linIndep_bits a ia)
  obtain ⟨tb, cb, hb, _⟩ := hinv b gb (linIndep_bits b ib)
  obtain ⟨a0, _, hca, _⟩ := inverseCircuit_eq a ta ca ha
  obtain ⟨b0, _, hcb, _⟩ := inverseCircuit_eq b tb cb hb
  obtain ⟨sa, ga0⟩ := canonicalForm_spanEq a a0 ga hca
  obtain ⟨sb, gb0⟩ := canonicalForm_spanEq b b0 gb hcb
  have hs : SpanEq a0 b0 := (sa.symm.trans h).trans sb
  have hrows := canon_unique a0 b0 (canonicalForm_canon a a0 hca) (canonicalForm_canon b b0 hcb) ga0 gb0 hs
  unfold STab.sameGroup
  rw [isGood_of_good a ga, isGood_of_good b gb, hca, hcb]
  simp only [Bool.and_self, Bool.true_and]
  exact sameRows_of_rows a0 b0 hs.n_eq hrows

/-- **the validator accepts the model solver's circuit** on every graph on ≥ 1 vertex without isolated vertex -/
theorem checkGenerates_solver (hinv : InvComplete) (np : Nat) (adj : Nat → Nat → Bool) (hnp : 0 < np)
    (hsym : ∀ i j, adj i j = adj j i) (hirr : ∀ i, adj i i = false) (hiso : ∀ i, i < np → ∃ j, j < np ∧ adj i j = true) :
    ∃ s, solve (graphSTab np adj) = .ok s ∧ checkGenerates s.ne np s.cops adj = true := by
  obtain ⟨s, hs, hfinal⟩ := solve_complete_graph hinv np adj hnp hsym hirr hiso
  refine ⟨s, hs, ?_⟩
  unfold checkGenerates
  simp only [List.all_eq_true]
  intro script _
  obtain ⟨rs, h1, h2, h3⟩ := solve_run (graphSTab np adj) (graphSTab_good np adj hsym) s hs hfinal script
  have h4 : SpanEq (STab.ofTab rs.t) (targetSTab np s.ne adj) := h3.trans (withEmitters_graph np s.ne adj)
  have h1' : stabRun s.ne np .prob script s.cops = some rs := h1
  unfold checkScript
  rw [h1']
  simp only
  exact sameGroup_of_spanEq hinv _ _ (ofTab_good' rs.t h2) (targetSTab_good np s.ne adj hsym)
    (indep_of_spanEq _ _ h4.symm (targetSTab_linIndep np s.ne adj)) (targetSTab_linIndep np s.ne adj) h4

end Graphiq.Solver
