/-
  Proofs/StateToGraphCompress.lean — the Hilbert-space identity behind `_density_to_graph_pure` on graph states, for every n:
  with `|0_M⟩` the all-zero state of the qubits other than `i < j`,
      `⟨0_M| ρ_G |0_M⟩ = (4 / 2ⁿ) · ρ_{G[i,j]}`
  where `ρ_G = Hilbert.rho n (graphSTab n A)` is the density matrix of the graph state (`∏ (1 + K_v)/2`, equal to the textbook
  `CZ_E H^{⊗n}|0…0⟩⟨0…0|…`: `rho_graphSTab`) and `ρ_{G[i,j]}` that of the two-vertex graph with an edge iff `A i j`.
  `compress` is the matrix `⟨0_M| · |0_M⟩` (rows/columns of the basis states that vanish outside `i, j`); `P₀ ρ P₀` traced over `M` —
  what `project_and_remove` computes before normalising — is this matrix (the projected qubits are in `|0⟩`).
  Proof: expand `∏_v (1 + K_v)` generator by generator; `K_v` flips qubit `v`, so a term containing `K_v` with `v ∉ {i, j}` has no entry
  between basis states that vanish on `v`; the terms with `v ∈ {i, j}` act on the pair as the generators of the two-vertex graph.
-/
import GraphiqModel.Proofs.StateToGraphDensity
import GraphiqModel.Proofs.HilbertPure
namespace Graphiq
open PRow Tab STab S2G Matrix Hilbert

/-- the basis state of `n` qubits that carries the two bits of `a` at the sites `i`, `j` and `0` elsewhere -/
def emb (n i j : Nat) (a : Bits 2) : Bits n := fun k => if k.val = i then a 0 else if k.val = j then a 1 else false

/-- `⟨0_M| M |0_M⟩` for `M` = all sites but `i, j` -/
def compress (n i j : Nat) (M : Matrix (Bits n) (Bits n) ℂ) : Matrix (Bits 2) (Bits 2) ℂ :=
  fun a b => M (emb n i j a) (emb n i j b)

theorem bx_emb (n i j : Nat) (a : Bits 2) (k : Nat) (hk : k < n) :
    bx (emb n i j a) k = if k = i then a 0 else if k = j then a 1 else false := by
  rw [bx_lt _ _ hk]; rfl

theorem emb_inj (n i j : Nat) (hi : i < n) (hj : j < n) (hij : i ≠ j) (a b : Bits 2) (h : emb n i j a = emb n i j b) : a = b := by
  funext s
  have h0 := congrFun h ⟨i, hi⟩
  have h1 := congrFun h ⟨j, hj⟩
  simp only [emb, if_true] at h0
  have hji : ¬ (j = i) := fun e => hij e.symm
  simp only [emb, hji, if_false, if_true] at h1
  have : s = 0 ∨ s = 1 := by
    rcases s with ⟨v, hv⟩
    have : v = 0 ∨ v = 1 := by omega
    rcases this with rfl | rfl
    · exact Or.inl rfl
    · exact Or.inr rfl
  rcases this with rfl | rfl
  · exact h0
  · exact h1

theorem compress_one (n i j : Nat) (hi : i < n) (hj : j < n) (hij : i ≠ j) : compress n i j (1 : Matrix (Bits n) (Bits n) ℂ) = 1 := by
  ext a b
  simp only [compress, Matrix.one_apply]
  by_cases h : a = b
  · subst h; simp
  · have : ¬ (emb n i j a = emb n i j b) := fun e => h (emb_inj n i j hi hj hij a b e)
    simp [h, this]

theorem compress_add (n i j : Nat) (M N : Matrix (Bits n) (Bits n) ℂ) :
    compress n i j (M + N) = compress n i j M + compress n i j N := rfl

theorem compress_smul (n i j : Nat) (c : ℂ) (M : Matrix (Bits n) (Bits n) ℂ) :
    compress n i j (c • M) = c • compress n i j M := rfl

/-- `∏_{k<m} (1 + P_k)`, the unnormalised stabilizer projector -/
noncomputable def gTo (n : Nat) (row : Nat → PRow) : Nat → Matrix (Bits n) (Bits n) ℂ
  | 0 => 1
  | k + 1 => gTo n row k * (1 + pauliMat n (row k))

theorem rhoTo_eq_gTo (n : Nat) (row : Nat → PRow) (m : Nat) : rhoTo n row m = ((1 / 2 : ℂ) ^ m) • gTo n row m := by
  induction m with
  | zero => simp [rhoTo, gTo]
  | succ k ih =>
    show rhoTo n row k * proj n (row k) = _
    rw [ih]
    show ((1 / 2 : ℂ) ^ k • gTo n row k) * ((1 / 2 : ℂ) • (1 + pauliMat n (row k))) = _
    rw [Matrix.smul_mul, Matrix.mul_smul, smul_smul, pow_succ]
    rfl

section graph
variable (n : Nat) (A : Adj)

/-- a term of the expansion of `∏_{k<m}(1 + K_k)` only flips qubits `< m` -/
theorem gTo_local (m : Nat) (hm : m ≤ n) (a c : Bits n) (h : ∃ k : Fin n, m ≤ k.val ∧ a k ≠ c k) :
    gTo n (graphSTab n A).row m a c = 0 := by
  induction m generalizing a c with
  | zero =>
    obtain ⟨k, _, hk⟩ := h
    show (1 : Matrix (Bits n) (Bits n) ℂ) a c = 0
    rw [Matrix.one_apply, if_neg (fun e => hk (by rw [e]))]
  | succ m ih =>
    obtain ⟨k, hk1, hk2⟩ := h
    show (gTo n (graphSTab n A).row m * (1 + pauliMat n ((graphSTab n A).row m))) a c = 0
    rw [Matrix.mul_add, Matrix.mul_one, Matrix.add_apply]
    have e1 := ih (by omega) a c ⟨k, by omega, hk2⟩
    have e2 : (gTo n (graphSTab n A).row m * pauliMat n ((graphSTab n A).row m)) a c = 0 := by
      unfold pauliMat
      rw [mul_mono_apply]
      have : gTo n (graphSTab n A).row m a (flip ((graphSTab n A).row m).x c) = 0 := by
        apply ih (by omega)
        refine ⟨k, by omega, ?_⟩
        show a k ≠ xor (c k) (decide (k.val = m))
        have : ¬ (k.val = m) := by omega
        simp [this, hk2]
      rw [this, zero_mul]
    rw [e1, e2, add_zero]

variable (i j : Nat) (hi : i < n) (hj : j < n) (hij : i ≠ j)
include hi hj hij

omit hi hj hij in
/-- a generator off the pair contributes nothing to the compression -/
theorem compress_step_off (m : Nat) (hm : m < n) (h1 : m ≠ i) (h2 : m ≠ j) :
    compress n i j (gTo n (graphSTab n A).row (m + 1)) = compress n i j (gTo n (graphSTab n A).row m) := by
  ext a b
  show (gTo n (graphSTab n A).row m * (1 + pauliMat n ((graphSTab n A).row m))) (emb n i j a) (emb n i j b) = _
  rw [Matrix.mul_add, Matrix.mul_one, Matrix.add_apply]
  have : (gTo n (graphSTab n A).row m * pauliMat n ((graphSTab n A).row m)) (emb n i j a) (emb n i j b) = 0 := by
    unfold pauliMat
    rw [mul_mono_apply]
    have : gTo n (graphSTab n A).row m (emb n i j a) (flip ((graphSTab n A).row m).x (emb n i j b)) = 0 := by
      apply gTo_local n A m (by omega)
      refine ⟨⟨m, hm⟩, Nat.le_refl m, ?_⟩
      show emb n i j a ⟨m, hm⟩ ≠ xor (emb n i j b ⟨m, hm⟩) (decide (m = m))
      simp [emb, h1, h2]
    rw [this, zero_mul]
  rw [this, add_zero]
  rfl

/-- the phase exponent of a row without X/Y off the pair, on a basis state that vanishes off the pair -/
theorem pexp_emb (g : PRow) (hx : XFreeOff n i j g) (b : Bits 2) :
    pexp n g (emb n i j b) = pexp 2 (PRow.pair i j g) b := by
  unfold pexp
  have e0 : (PRow.pair i j g).ph = g.ph := rfl
  rw [e0]
  congr 1
  let F : Nat → Int := fun k => if k < n then sFun (g.x k) (g.z k) (bx (emb n i j b) k) else 0
  have e1 : (sumTo n fun k => sFun (g.x k) (g.z k) (bx (emb n i j b) k)) = sumTo n F :=
    sumTo_congr n _ _ (fun k hk => by simp [F, hk])
  have := sumTo_diff_two n i j F (fun _ => 0) hi hj hij (fun k h1 h2 => by
    show (if k < n then sFun (g.x k) (g.z k) (bx (emb n i j b) k) else 0) = 0
    split
    · next hk =>
      rw [hx k hk h1 h2, bx_emb n i j b k hk, if_neg h1, if_neg h2]
      simp [sFun, Bool.toInt']
    · rfl)
  rw [sumTo_zero] at this
  have hji : ¬ (j = i) := fun e => hij e.symm
  have fi : F i = sFun (g.x i) (g.z i) (b 0) := by simp [F, hi, bx_emb n i j b i hi]
  have fj : F j = sFun (g.x j) (g.z j) (b 1) := by simp [F, hj, bx_emb n i j b j hj, hji]
  rw [fi, fj] at this
  have e2 : (sumTo 2 fun s => sFun ((PRow.pair i j g).x s) ((PRow.pair i j g).z s) (bx b s)) =
      sFun (g.x i) (g.z i) (b 0) + sFun (g.x j) (g.z j) (b 1) := by
    simp [sumTo, PRow.pair, bx]
  rw [e1, e2]
  omega

omit hi hj in
/-- flipping by a row without X/Y off the pair keeps the basis states that vanish off the pair -/
theorem flip_emb (g : PRow) (hx : XFreeOff n i j g) (b : Bits 2) :
    flip g.x (emb n i j b) = emb n i j (flip (PRow.pair i j g).x b) := by
  funext k
  have hji : ¬ (j = i) := fun e => hij e.symm
  show xor (emb n i j b k) (g.x k.val) = emb n i j (fun s => xor (b s) ((PRow.pair i j g).x s.val)) k
  by_cases h1 : k.val = i
  · simp [emb, h1, PRow.pair]
  · by_cases h2 : k.val = j
    · simp [emb, h2, PRow.pair, hji]
    · simp [emb, h1, h2, hx k.val k.isLt h1 h2]

/-- a generator on the pair acts on the compression as its restriction -/
theorem compress_mul_pauli (G : Matrix (Bits n) (Bits n) ℂ) (g : PRow) (hx : XFreeOff n i j g) :
    compress n i j (G * pauliMat n g) = compress n i j G * pauliMat 2 (PRow.pair i j g) := by
  ext a b
  show (G * pauliMat n g) (emb n i j a) (emb n i j b) = (compress n i j G * pauliMat 2 (PRow.pair i j g)) a b
  unfold pauliMat
  rw [mul_mono_apply, mul_mono_apply, flip_emb n i j hij g hx b, pexp_emb n i j hi hj hij g hx b]
  rfl

theorem compress_step_on (m : Nat) (hm : m = i ∨ m = j) :
    compress n i j (gTo n (graphSTab n A).row (m + 1)) =
      compress n i j (gTo n (graphSTab n A).row m) * (1 + pauliMat 2 (PRow.pair i j ((graphSTab n A).row m))) := by
  show compress n i j (gTo n (graphSTab n A).row m * (1 + pauliMat n ((graphSTab n A).row m))) = _
  rw [Matrix.mul_add, Matrix.mul_one, compress_add, Matrix.mul_add, Matrix.mul_one,
    compress_mul_pauli n i j hi hj hij _ _ (graphRow_xFreeOff n A i j m hm)]

end graph

/-- **`⟨0_M| ρ_G |0_M⟩ = (4/2ⁿ) ρ_{G[i,j]}`** (every n, every simple graph, every pair `i < j < n`) -/
theorem compress_rho_graph (n : Nat) (A : Adj) (hsym : ∀ i j, i < n → j < n → A i j = A j i) (hirr : ∀ i, i < n → A i i = false)
    (i j : Nat) (hij : i < j) (hj : j < n) :
    compress n i j (rho n (graphSTab n A)) = ((1 / 2 : ℂ) ^ n * 4) • rho 2 (graphSTab 2 (pairAdj (A i j))) := by
  have hi : i < n := by omega
  have hne : i ≠ j := by omega
  let Qi := pauliMat 2 (PRow.pair i j ((graphSTab n A).row i))
  let Qj := pauliMat 2 (PRow.pair i j ((graphSTab n A).row j))
  -- the compression of the partial products
  have key : ∀ m, m ≤ n → compress n i j (gTo n (graphSTab n A).row m) =
      (if i < m then 1 + Qi else 1) * (if j < m then 1 + Qj else 1) := by
    intro m
    induction m with
    | zero => intro _; simp [gTo, compress_one n i j hi hj hne]
    | succ m ih =>
      intro hm
      have ih := ih (by omega)
      by_cases h1 : m = i
      · rw [compress_step_on n A i j hi hj hne m (Or.inl h1), ih]
        have a1 : ¬ (i < m) := by omega
        have a2 : ¬ (j < m) := by omega
        have a3 : i < m + 1 := by omega
        have a4 : ¬ (j < m + 1) := by omega
        rw [if_neg a1, if_neg a2, if_pos a3, if_neg a4, h1]
        simp [Qi]
      · by_cases h2 : m = j
        · rw [compress_step_on n A i j hi hj hne m (Or.inr h2), ih]
          have a1 : i < m := by omega
          have a2 : ¬ (j < m) := by omega
          have a3 : i < m + 1 := by omega
          have a4 : j < m + 1 := by omega
          rw [if_pos a1, if_neg a2, if_pos a3, if_pos a4, h2]
          simp [Qj]
        · rw [compress_step_off n A i j m (by omega) h1 h2, ih]
          have e1 : (i < m + 1) ↔ (i < m) := by omega
          have e2 : (j < m + 1) ↔ (j < m) := by omega
          simp only [e1, e2]
  have hfin := key n (Nat.le_refl n)
  rw [if_pos hi, if_pos hj] at hfin
  -- the two-vertex graph state
  obtain ⟨ri, rj⟩ := pair_graphRow n A hsym hirr i j hi hj hne
  have q0 : Qi = pauliMat 2 ((graphSTab 2 (pairAdj (A i j))).row 0) := pauliMat_congr 2 _ _ ri
  have q1 : Qj = pauliMat 2 ((graphSTab 2 (pairAdj (A i j))).row 1) := pauliMat_congr 2 _ _ rj
  have h2 : rho 2 (graphSTab 2 (pairAdj (A i j))) = ((1 / 2 : ℂ) ^ 2) • ((1 + Qi) * (1 + Qj)) := by
    show rhoTo 2 (graphSTab 2 (pairAdj (A i j))).row 2 = _
    rw [rhoTo_eq_gTo]
    congr 1
    show (1 * (1 + pauliMat 2 ((graphSTab 2 (pairAdj (A i j))).row 0))) * (1 + pauliMat 2 ((graphSTab 2 (pairAdj (A i j))).row 1)) = _
    rw [Matrix.one_mul, ← q0, ← q1]
  show compress n i j (rhoTo n (graphSTab n A).row n) = _
  rw [rhoTo_eq_gTo, compress_smul, hfin, h2, smul_smul]
  congr 1
  ring

/-! ### `project_and_remove` as a map on density matrices

  `dmf.project_and_remove(rho, mask)` with `mask[k] = 1` for `k ∉ {i, j}`: `new_rho = P₀ ρ P₀` with `P₀ = ⊗_{k ∉ {i,j}} |0⟩⟨0|_k ⊗ 1`
  (if its trace is 0 the code switches to `1 − P₀`; on graph states the trace is `4/2ⁿ`, see below), `new_rho / tr(new_rho)`, then the
  partial trace over the projected qubits. -/

/-- the basis states that vanish off the pair -/
def offZero (n i j : Nat) (c : Bits n) : Prop := ∀ k : Fin n, k.val ≠ i → k.val ≠ j → c k = false

instance (n i j : Nat) (c : Bits n) : Decidable (offZero n i j c) := by unfold offZero; infer_instance

/-- `P₀ = ⊗_{k ∉ {i,j}} |0⟩⟨0|_k` (identity on the pair) -/
noncomputable def projOff (n i j : Nat) : Matrix (Bits n) (Bits n) ℂ :=
  Matrix.diagonal fun c => if offZero n i j c then 1 else 0

/-- the bits of `a` on the pair, those of `m` elsewhere -/
def comb (n i j : Nat) (a : Bits 2) (m : Bits n) : Bits n := fun k => if k.val = i then a 0 else if k.val = j then a 1 else m k

/-- partial trace over the qubits other than `i, j`: `Σ_m X[(a, m), (b, m)]`, `m` ranging over the bit strings of the traced qubits
    (represented by the `n`-bit strings that vanish on the pair) -/
noncomputable def ptraceOff (n i j : Nat) (X : Matrix (Bits n) (Bits n) ℂ) : Matrix (Bits 2) (Bits 2) ℂ :=
  fun a b => ∑ m : Bits n, if (∀ k : Fin n, (k.val = i ∨ k.val = j) → m k = false) then X (comb n i j a m) (comb n i j b m) else 0

/-- `project_and_remove` on the pair `(i, j)` (the branch with non-zero trace) -/
noncomputable def projectAndRemove (n i j : Nat) (ρ : Matrix (Bits n) (Bits n) ℂ) : Matrix (Bits 2) (Bits 2) ℂ :=
  (Matrix.trace (projOff n i j * ρ * projOff n i j))⁻¹ • ptraceOff n i j (projOff n i j * ρ * projOff n i j)

theorem projOff_sandwich (n i j : Nat) (X : Matrix (Bits n) (Bits n) ℂ) (c d : Bits n) :
    (projOff n i j * X * projOff n i j) c d =
      (if offZero n i j c then 1 else 0) * X c d * (if offZero n i j d then 1 else 0) := by
  unfold projOff
  rw [Matrix.mul_diagonal, Matrix.diagonal_mul]

theorem offZero_comb (n i j : Nat) (a : Bits 2) (m : Bits n) :
    offZero n i j (comb n i j a m) ↔ ∀ k : Fin n, k.val ≠ i → k.val ≠ j → m k = false := by
  unfold offZero comb
  constructor
  · intro h k h1 h2
    have := h k h1 h2
    simpa [h1, h2] using this
  · intro h k h1 h2
    simp [h1, h2, h k h1 h2]

/-- **the partial trace of the projected matrix is the compression**: `Tr_M (P₀ X P₀) = ⟨0_M| X |0_M⟩` -/
theorem ptraceOff_projOff (n i j : Nat) (X : Matrix (Bits n) (Bits n) ℂ) :
    ptraceOff n i j (projOff n i j * X * projOff n i j) = compress n i j X := by
  ext a b
  unfold ptraceOff
  rw [Finset.sum_eq_single (fun _ => false : Bits n)]
  · have h0 : ∀ k : Fin n, (k.val = i ∨ k.val = j) → (fun _ => false : Bits n) k = false := fun _ _ => rfl
    rw [if_pos h0, projOff_sandwich]
    have e : ∀ c : Bits 2, comb n i j c (fun _ => false) = emb n i j c := fun c => rfl
    have hz : ∀ c : Bits 2, offZero n i j (emb n i j c) := by
      intro c k h1 h2
      simp [emb, h1, h2]
    rw [e a, e b, if_pos (hz a), if_pos (hz b), _root_.one_mul, _root_.mul_one]
    rfl
  · intro m _ hm
    split
    · next hpair =>
      rw [projOff_sandwich]
      have : ¬ offZero n i j (comb n i j a m) := by
        intro h
        apply hm
        funext k
        by_cases hk : k.val = i ∨ k.val = j
        · exact hpair k hk
        · exact (offZero_comb n i j a m).mp h k (fun e => hk (Or.inl e)) (fun e => hk (Or.inr e))
      rw [if_neg this]; simp
    · rfl
  · intro h; exact absurd (Finset.mem_univ _) h

/-- the trace of the projected matrix is the trace of the compression -/
theorem trace_projOff (n i j : Nat) (X : Matrix (Bits n) (Bits n) ℂ) :
    Matrix.trace (ptraceOff n i j (projOff n i j * X * projOff n i j)) = Matrix.trace (compress n i j X) := by
  rw [ptraceOff_projOff]

/-- the trace `np.trace(new_rho)` of the projected `2ⁿ × 2ⁿ` matrix is the trace of the compression -/
theorem trace_projOff_sandwich (n i j : Nat) (hi : i < n) (hj : j < n) (hij : i ≠ j) (X : Matrix (Bits n) (Bits n) ℂ) :
    Matrix.trace (projOff n i j * X * projOff n i j) = Matrix.trace (compress n i j X) := by
  unfold Matrix.trace
  simp only [Matrix.diag_apply, projOff_sandwich]
  have e1 : ∀ c : Bits n, (if offZero n i j c then (1 : ℂ) else 0) * X c c * (if offZero n i j c then 1 else 0) =
      if offZero n i j c then X c c else 0 := by
    intro c; split <;> simp
  rw [Finset.sum_congr rfl (fun c _ => e1 c), ← Finset.sum_filter]
  have himg : (Finset.univ.filter fun c : Bits n => offZero n i j c) = Finset.univ.image (emb n i j) := by
    ext c
    simp only [Finset.mem_filter, Finset.mem_univ, true_and, Finset.mem_image]
    constructor
    · intro h
      refine ⟨fun s => if s.val = 0 then c ⟨i, hi⟩ else c ⟨j, hj⟩, ?_⟩
      funext k
      have hji : ¬ (j = i) := fun e => hij e.symm
      by_cases h1 : k.val = i
      · have : k = ⟨i, hi⟩ := Fin.ext h1
        simp [emb, this]
      · by_cases h2 : k.val = j
        · have : k = ⟨j, hj⟩ := Fin.ext h2
          simp [emb, this, hji]
        · simp [emb, h1, h2, h k h1 h2]
    · rintro ⟨a, rfl⟩ k h1 h2
      simp [emb, h1, h2]
  rw [himg, Finset.sum_image (fun a _ b _ h => emb_inj n i j hi hj hij a b h)]
  rfl

/-- the trace of a two-vertex graph state is 1 -/
theorem trace_rho_pair (a : Bool) : Matrix.trace (rho 2 (graphSTab 2 (pairAdj a))) = 1 := by
  show Matrix.trace (rhoTo 2 (graphSTab 2 (pairAdj a)).row 2) = 1
  rw [trace_rhoTo_paired 2 (graphSTab 2 (pairAdj a)).row (fun k => Zq k) 2 (by
    intro u v hu hv
    show sp 2 (Zq u) ((graphSTab 2 (pairAdj a)).row v) = decide (v = u)
    have h1 : u = 0 ∨ u = 1 := by omega
    have h2 : v = 0 ∨ v = 1 := by omega
    rcases h1 with rfl | rfl <;> rcases h2 with rfl | rfl <;> cases a <;> decide)]
  norm_num

/-- **`project_and_remove(|G⟩⟨G|, all but i, j) = |G[i,j]⟩⟨G[i,j]|`** (Hilbert space, every n, every simple graph, `i < j < n`): the trace
    of the projected matrix is `4/2ⁿ ≠ 0` (so the code never takes its `1 − P₀` branch on a graph state), and the normalised partial
    trace is the density matrix of the two-vertex graph with an edge iff `A i j` -/
theorem projectAndRemove_graph (n : Nat) (A : Adj) (hsym : ∀ i j, i < n → j < n → A i j = A j i) (hirr : ∀ i, i < n → A i i = false)
    (i j : Nat) (hij : i < j) (hj : j < n) :
    Matrix.trace (projOff n i j * rho n (graphSTab n A) * projOff n i j) = (1 / 2 : ℂ) ^ n * 4 ∧
    projectAndRemove n i j (rho n (graphSTab n A)) = rho 2 (graphSTab 2 (pairAdj (A i j))) := by
  have hi : i < n := by omega
  have hne : i ≠ j := by omega
  have hc := compress_rho_graph n A hsym hirr i j hij hj
  have htr : Matrix.trace (projOff n i j * rho n (graphSTab n A) * projOff n i j) = (1 / 2 : ℂ) ^ n * 4 := by
    rw [trace_projOff_sandwich n i j hi hj hne, hc, Matrix.trace_smul, trace_rho_pair, smul_eq_mul, _root_.mul_one]
  refine ⟨htr, ?_⟩
  unfold projectAndRemove
  rw [htr, ptraceOff_projOff, hc, smul_smul]
  have : ((1 / 2 : ℂ) ^ n * 4)⁻¹ * ((1 / 2 : ℂ) ^ n * 4) = 1 := by
    apply inv_mul_cancel₀
    apply mul_ne_zero
    · exact pow_ne_zero n (by norm_num)
    · norm_num
  rw [this, one_smul]

end Graphiq
