/-
  Proofs/StateToGraphDensity.lean — what is exact about `density_to_graph` (`_density_to_graph_pure`), at the level of stabilizer groups.

  For every pair `i < j` the code projects every other qubit onto `|0⟩` (`project_and_remove`: `P₀ ρ P₀ / tr`, then partial trace) and
  declares an edge iff the negativity of the resulting two-qubit state exceeds 0.1.
  For a stabilizer state `ρ = 2⁻ⁿ Σ_{g ∈ S} g` the compression `⟨0_M| ρ |0_M⟩` (M = the other qubits) is `2⁻ⁿ Σ g|_{i,j}` over the elements
  `g ∈ S` that carry no X or Y on M (`⟨0|X|0⟩ = ⟨0|Y|0⟩ = 0`, `⟨0|Z|0⟩ = ⟨0|I|0⟩ = 1`) — textbook, cited, not proved here.  `PairGroup`
  is that set of restrictions (signs kept).
  Proved here, for every n and every simple graph: restriction is a group homomorphism on those elements (`pair_mul`), and for the graph
  state of `A` the pair group at `(i, j)` is exactly the signed group of the two-vertex graph state with an edge iff `A i j`
  (`pairGroup_graph`).  The two possible two-qubit states have negativity 0 and 1/2 (Proofs/StateToGraphNegativity.lean, exact 4×4
  rational matrices), on either side of the threshold 0.1.
-/
import GraphiqModel.Proofs.StateToGraph
import GraphiqModel.Proofs.GraphStateGroup
namespace Graphiq
open PRow Tab STab S2G

/-- restriction of a Pauli row to the sites `i, j` (site 0 := `i`, site 1 := `j`), sign and phase kept -/
def PRow.pair (i j : Nat) (g : PRow) : PRow :=
  ⟨fun s => if s = 0 then g.x i else g.x j, fun s => if s = 0 then g.z i else g.z j, g.r, g.ip⟩

/-- no X or Y outside the sites `i, j` -/
def XFreeOff (n i j : Nat) (g : PRow) : Prop := ∀ k, k < n → k ≠ i → k ≠ j → g.x k = false

/-- the signed group of `⟨0_M| ρ_S |0_M⟩`, M = all sites but `i, j`: the restrictions of the elements of `S` without X or Y on M -/
def PairGroup (t : STab) (i j : Nat) (P : PRow) : Prop :=
  ∃ g, t.Spn g ∧ XFreeOff t.n i j g ∧ EqOn 2 (PRow.pair i j g) P

/-- the two-vertex graph: an edge iff `a` -/
def pairAdj (a : Bool) : Adj := fun u v => a && ((u == 0 && v == 1) || (u == 1 && v == 0))

theorem gFun_zz (z1 z2 : Bool) : gFun false z1 false z2 = 0 := by
  cases z1 <;> cases z2 <;> rfl

theorem pair_eqOn (n i j : Nat) (hi : i < n) (hj : j < n) (a b : PRow) (h : EqOn n a b) :
    EqOn 2 (PRow.pair i j a) (PRow.pair i j b) := by
  refine ⟨fun s _ => ?_, h.2.1, h.2.2⟩
  simp only [PRow.pair]
  split
  · exact h.1 i hi
  · exact h.1 j hj

/-- **restriction is multiplicative on the elements without X or Y off the pair** -/
theorem pair_mul (n i j : Nat) (hi : i < n) (hj : j < n) (hij : i ≠ j) (a b : PRow)
    (ha : XFreeOff n i j a) (hb : XFreeOff n i j b) :
    EqOn 2 (PRow.pair i j (PRow.mul n a b)) (PRow.mul 2 (PRow.pair i j a) (PRow.pair i j b)) := by
  apply eqOn_of
  · intro s _
    simp only [PRow.pair, mul_x, mul_z]
    split <;> exact ⟨rfl, rfl⟩
  · have e1 : (PRow.pair i j (PRow.mul n a b)).ph = (PRow.mul n a b).ph := rfl
    rw [e1, mul_ph, mul_ph]
    have e2 : (PRow.pair i j a).ph = a.ph := rfl
    have e3 : (PRow.pair i j b).ph = b.ph := rfl
    rw [e2, e3]
    have hs : gSum n a b = gFun (a.x i) (a.z i) (b.x i) (b.z i) + gFun (a.x j) (a.z j) (b.x j) (b.z j) := by
      let F : Nat → Int := fun k => if k < n then gFun (a.x k) (a.z k) (b.x k) (b.z k) else 0
      have e0 : gSum n a b = sumTo n F := sumTo_congr n _ _ (fun k hk => by simp [F, hk])
      have := sumTo_diff_two n i j F (fun _ => 0) hi hj hij (fun k h1 h2 => by
        show (if k < n then gFun (a.x k) (a.z k) (b.x k) (b.z k) else 0) = 0
        split
        · next hk => rw [ha k hk h1 h2, hb k hk h1 h2]; exact gFun_zz _ _
        · rfl)
      rw [sumTo_zero] at this
      have fi : F i = gFun (a.x i) (a.z i) (b.x i) (b.z i) := by simp [F, hi]
      have fj : F j = gFun (a.x j) (a.z j) (b.x j) (b.z j) := by simp [F, hj]
      rw [fi, fj] at this
      rw [e0]
      omega
    have hs2 : gSum 2 (PRow.pair i j a) (PRow.pair i j b) =
        gFun (a.x i) (a.z i) (b.x i) (b.z i) + gFun (a.x j) (a.z j) (b.x j) (b.z j) := by
      simp [gSum, sumTo, PRow.pair]
    rw [hs, hs2]

theorem xFreeOff_mul (n i j : Nat) (a b : PRow) (ha : XFreeOff n i j a) (hb : XFreeOff n i j b) :
    XFreeOff n i j (PRow.mul n a b) := by
  intro k hk h1 h2
  rw [mul_x, ha k hk h1 h2, hb k hk h1 h2]; rfl

theorem xFreeOff_eqOn (n i j : Nat) (a b : PRow) (h : EqOn n a b) (ha : XFreeOff n i j a) : XFreeOff n i j b :=
  fun k hk h1 h2 => by rw [← (h.1 k hk).1]; exact ha k hk h1 h2

/-! ### the graph state -/

theorem graphRow_xFreeOff (n : Nat) (A : Adj) (i j v : Nat) (hv : v = i ∨ v = j) : XFreeOff n i j ((graphSTab n A).row v) := by
  intro k _ h1 h2
  show decide (k = v) = false
  rcases hv with rfl | rfl <;> simp [h1, h2]

/-- the generators at `i` and `j` restrict to the generators of the two-vertex graph state -/
theorem pair_graphRow (n : Nat) (A : Adj) (hsym : ∀ i j, i < n → j < n → A i j = A j i) (hirr : ∀ i, i < n → A i i = false)
    (i j : Nat) (hi : i < n) (hj : j < n) (hij : i ≠ j) :
    EqOn 2 (PRow.pair i j ((graphSTab n A).row i)) ((graphSTab 2 (pairAdj (A i j))).row 0) ∧
    EqOn 2 (PRow.pair i j ((graphSTab n A).row j)) ((graphSTab 2 (pairAdj (A i j))).row 1) := by
  have hji : ¬ (j = i) := fun e => hij e.symm
  constructor
  · refine ⟨fun s hs => ?_, rfl, rfl⟩
    have : s = 0 ∨ s = 1 := by omega
    rcases this with rfl | rfl
    · refine ⟨?_, ?_⟩
      · show (if (0 : Nat) = 0 then decide (i = i) else decide (j = i)) = decide ((0 : Nat) = 0)
        simp
      · show (if (0 : Nat) = 0 then (decide (i < n) && A i i) else (decide (j < n) && A i j)) =
          (decide ((0 : Nat) < 2) && pairAdj (A i j) 0 0)
        simp [hirr i hi, pairAdj]
    · refine ⟨?_, ?_⟩
      · show (if (1 : Nat) = 0 then decide (i = i) else decide (j = i)) = decide ((1 : Nat) = 0)
        simp [hji]
      · show (if (1 : Nat) = 0 then (decide (i < n) && A i i) else (decide (j < n) && A i j)) =
          (decide ((1 : Nat) < 2) && pairAdj (A i j) 0 1)
        simp [hj, pairAdj]
  · refine ⟨fun s hs => ?_, rfl, rfl⟩
    have : s = 0 ∨ s = 1 := by omega
    rcases this with rfl | rfl
    · refine ⟨?_, ?_⟩
      · show (if (0 : Nat) = 0 then decide (i = j) else decide (j = j)) = decide ((0 : Nat) = 1)
        simp [hij]
      · show (if (0 : Nat) = 0 then (decide (i < n) && A j i) else (decide (j < n) && A j j)) =
          (decide ((0 : Nat) < 2) && pairAdj (A i j) 1 0)
        simp [hi, pairAdj, hsym j i hj hi]
    · refine ⟨?_, ?_⟩
      · show (if (1 : Nat) = 0 then decide (i = j) else decide (j = j)) = decide ((1 : Nat) = 1)
        simp
      · show (if (1 : Nat) = 0 then (decide (i < n) && A j i) else (decide (j < n) && A j j)) =
          (decide ((1 : Nat) < 2) && pairAdj (A i j) 1 1)
        simp [hirr j hj, pairAdj]

theorem pair_one (i j : Nat) : EqOn 2 (PRow.pair i j PRow.one) PRow.one :=
  ⟨fun s _ => by simp only [PRow.pair, PRow.one]; split <;> exact ⟨rfl, rfl⟩, rfl, rfl⟩

/-- **the pair group of a graph state is the two-vertex graph state on the induced pair**: projecting all other qubits of `|G⟩` onto
    `|0⟩` leaves, on the qubits `i, j`, the graph state of the single edge `i – j` if `A i j`, and `|+⟩|+⟩` otherwise -/
theorem pairGroup_graph (n : Nat) (A : Adj) (hsym : ∀ i j, i < n → j < n → A i j = A j i) (hirr : ∀ i, i < n → A i i = false)
    (i j : Nat) (hi : i < n) (hj : j < n) (hij : i ≠ j) (P : PRow) :
    PairGroup (graphSTab n A) i j P ↔ (graphSTab 2 (pairAdj (A i j))).Spn P := by
  have hG := graphSTab_good n A hsym
  obtain ⟨ri, rj⟩ := pair_graphRow n A hsym hirr i j hi hj hij
  have gi : (graphSTab 2 (pairAdj (A i j))).Spn (PRow.pair i j ((graphSTab n A).row i)) :=
    InSpan.eqv _ _ (spn_gen (graphSTab 2 (pairAdj (A i j))) 0 (show 0 < 2 by decide)) ri.symm
  have gj : (graphSTab 2 (pairAdj (A i j))).Spn (PRow.pair i j ((graphSTab n A).row j)) :=
    InSpan.eqv _ _ (spn_gen (graphSTab 2 (pairAdj (A i j))) 1 (show 1 < 2 by decide)) rj.symm
  have g1 : (graphSTab 2 (pairAdj (A i j))).Spn (PRow.pair i j PRow.one) := InSpan.eqv _ _ InSpan.one (pair_one i j).symm
  constructor
  · rintro ⟨g, hg, hx, e⟩
    refine InSpan.eqv _ _ ?_ e
    -- `g` is the product of the generators `i`, `j` selected by its X bits
    obtain ⟨c, ec⟩ := spn_normal_form (graphSTab n A) hG g hg
    have ec' : EqOn n g (prodTo (graphSTab n A) c n) := ec
    have hc : ∀ k, k < n → k ≠ i → k ≠ j → c k = false := by
      intro k hk h1 h2
      have := hx k hk h1 h2
      rw [(ec'.1 k hk).1, graph_prodTo_x] at this
      simpa [hk] using this
    let ci : Nat → Bool := fun m => c i && decide (m = i)
    let cj : Nat → Bool := fun m => c j && decide (m = j)
    have hsplit : prodTo (graphSTab n A) c n = prodTo (graphSTab n A) (fun m => xor (ci m) (cj m)) n := by
      apply prodTo_congr
      intro k hk
      simp only [ci, cj]
      by_cases h1 : k = i
      · subst h1
        have : ¬ (k = j) := hij
        simp [this]
      · by_cases h2 : k = j
        · subst h2; simp [h1]
        · simp [h1, h2, hc k hk h1 h2]
    have hmul := prodTo_mul (graphSTab n A) hG ci cj n (Nat.le_refl _)
    have hn' : (graphSTab n A).n = n := rfl
    rw [hn'] at hmul
    -- each factor is a generator or the identity
    have fac : ∀ (v : Nat), v < n → (v = i ∨ v = j) → ∃ R, EqOn n (prodTo (graphSTab n A) (fun m => c v && decide (m = v)) n) R ∧
        XFreeOff n i j R ∧ (graphSTab 2 (pairAdj (A i j))).Spn (PRow.pair i j R) := by
      intro v hv hvij
      cases hcv : c v
      · refine ⟨PRow.one, ?_, fun _ _ _ _ => rfl, g1⟩
        rw [prodTo_congr (graphSTab n A) _ (fun _ => false) n (fun m _ => by simp)]
        rw [prodTo_false]; exact EqOn.refl _ _
      · refine ⟨(graphSTab n A).row v, ?_, graphRow_xFreeOff n A i j v hvij, ?_⟩
        · rw [prodTo_congr (graphSTab n A) _ (fun m => decide (m = v)) n (fun m _ => by simp)]
          have := prodTo_single (graphSTab n A) v n
          rw [hn', if_pos hv] at this
          exact this
        · rcases hvij with rfl | rfl
          · exact gi
          · exact gj
    obtain ⟨Ri, eRi, xRi, sRi⟩ := fac i hi (Or.inl rfl)
    obtain ⟨Rj, eRj, xRj, sRj⟩ := fac j hj (Or.inr rfl)
    have eg : EqOn n g (PRow.mul n Ri Rj) := by
      rw [hsplit] at ec'
      exact ec'.trans (hmul.symm.trans (mul_congr n _ _ _ _ eRi eRj))
    have := (pair_eqOn n i j hi hj _ _ eg).trans (pair_mul n i j hi hj hij Ri Rj xRi xRj)
    exact InSpan.eqv _ _ (InSpan.mul _ _ sRi sRj) this.symm
  · intro hP
    unfold Spn at hP
    induction hP with
    | one => exact ⟨PRow.one, InSpan.one, fun _ _ _ _ => rfl, pair_one i j⟩
    | gen v hv =>
      have hv2 : v < 2 := hv
      have : v = 0 ∨ v = 1 := by omega
      rcases this with rfl | rfl
      · exact ⟨(graphSTab n A).row i, spn_gen _ i hi, graphRow_xFreeOff n A i j i (Or.inl rfl), ri⟩
      · exact ⟨(graphSTab n A).row j, spn_gen _ j hj, graphRow_xFreeOff n A i j j (Or.inr rfl), rj⟩
    | mul a b _ _ iha ihb =>
      obtain ⟨ga, sa, xa, ea⟩ := iha
      obtain ⟨gb, sb, xb, eb⟩ := ihb
      exact ⟨PRow.mul n ga gb, InSpan.mul _ _ sa sb, xFreeOff_mul n i j ga gb xa xb,
        (pair_mul n i j hi hj hij ga gb xa xb).trans (mul_congr 2 _ _ _ _ ea eb)⟩
    | eqv a b _ hab iha =>
      obtain ⟨ga, sa, xa, ea⟩ := iha
      exact ⟨ga, sa, xa, ea.trans hab⟩

end Graphiq
