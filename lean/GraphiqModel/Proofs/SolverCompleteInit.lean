/-
  Proofs/SolverCompleteInit.lean — completeness of the time-reversed solver, part 7: the loop invariant holds for the tableau
  `solve` starts from (`target ⊗ |0…0⟩` with `ne = determine_n_emitters(target)` emitters), provided no photon of the target is a
  product qubit; for a graph state this is "no isolated vertex".
-/
import GraphiqModel.Proofs.SolverCompleteLoop
import GraphiqModel.Proofs.HeightGraph
namespace Graphiq.Solver
open Graphiq Graphiq.Cliff PRow STab Tab

/-- the photon part of an element of the group of `target ⊗ |0…0⟩` is an element of the group of `target` -/
theorem spn_withEmitters_restrict (target : STab) (ne : Nat) (a : PRow) (h : (withEmitters target ne).Spn a) :
    ∃ b, target.Spn b ∧ ∀ j, j < target.n → b.x j = a.x j ∧ b.z j = a.z j := by
  have hN : (withEmitters target ne).n = target.n + ne := withEmitters_n target ne
  unfold STab.Spn at h
  induction h with
  | one => exact ⟨PRow.one, InSpan.one, fun _ _ => ⟨rfl, rfl⟩⟩
  | gen i hi =>
    have hr := withEmitters_row target ne i (hN ▸ hi)
    by_cases hlt : i < target.n
    · refine ⟨target.row i, spn_gen target i hlt, fun j hj => ?_⟩
      obtain ⟨e1, e2⟩ := hr.1 j (by omega)
      rw [e1, e2]
      simp [extRow, hlt, PRow.truncCols, hj]
    · refine ⟨PRow.one, InSpan.one, fun j hj => ?_⟩
      obtain ⟨e1, e2⟩ := hr.1 j (by omega)
      rw [e1, e2]
      have : ¬ j = i := by omega
      simp [extRow, hlt, PRow.one, Zq, this]
  | mul a1 a2 _ _ ih1 ih2 =>
    obtain ⟨b1, hb1, e1⟩ := ih1
    obtain ⟨b2, hb2, e2⟩ := ih2
    refine ⟨PRow.mul target.n b1 b2, InSpan.mul _ _ hb1 hb2, fun j hj => ?_⟩
    rw [PRow.mul_x, PRow.mul_z, PRow.mul_x, PRow.mul_z, (e1 j hj).1, (e1 j hj).2, (e2 j hj).1, (e2 j hj).2]
    exact ⟨rfl, rfl⟩
  | eqv a1 a2 _ hab ih =>
    obtain ⟨b, hb, e⟩ := ih
    refine ⟨b, hb, fun j hj => ?_⟩
    obtain ⟨c1, c2⟩ := hab.1 j (by rw [hN]; omega)
    exact ⟨(e j hj).1.trans c1, (e j hj).2.trans c2⟩

/-- appending emitters in |0⟩ keeps every photon that was not a product qubit a non-product qubit -/
theorem notProd_withEmitters (target : STab) (ne p : Nat) (hp : p < target.n) (h : target.NotProd p) :
    (withEmitters target ne).NotProd p := by
  have hN : (withEmitters target ne).n = target.n + ne := withEmitters_n target ne
  intro a ha hs
  obtain ⟨b, hb, e⟩ := spn_withEmitters_restrict target ne a ha
  have := h b hb (fun j hj hjp => by
    have := hs j (by rw [hN]; omega) hjp
    exact ⟨(e j hj).1.trans this.1, (e j hj).2.trans this.2⟩)
  exact ⟨(e p hp).1.symm.trans this.1, (e p hp).2.symm.trans this.2⟩

/-- **a vertex with a neighbour is not a product qubit of the graph state** -/
theorem graph_notProd (np : Nat) (adj : Nat → Nat → Bool) (hirr : ∀ i, adj i i = false) (p : Nat) (hp : p < np)
    (hnb : ∃ j, j < np ∧ adj p j = true) : (graphSTab np adj).NotProd p := by
  intro a ha hs
  obtain ⟨S, hS⟩ := spn_combo (graphSTab np adj) a ha
  have hn : (graphSTab np adj).n = np := rfl
  rw [hn] at hS hs
  have hX : ∀ j, j < np → (graphSTab np adj).comboX S j = S j := by
    intro j hj
    unfold STab.comboX
    rw [hn, parityTo_one np j _ hj]
    · simp [graphSTab]
    · intro i _ hij
      have : ¬ j = i := fun e => hij e.symm
      simp [graphSTab, this]
  have hSoff : ∀ j, j < np → j ≠ p → S j = false := by
    intro j hj hjp
    rw [← hX j hj, (hS j hj).1]; exact (hs j hj hjp).1
  have hZ : ∀ j, j < np → (graphSTab np adj).comboZ S j = (S p && adj p j) := by
    intro j hj
    unfold STab.comboZ
    rw [hn, parityTo_one np p _ hp]
    · simp [graphSTab, hj]
    · intro i hi hip
      simp [hSoff i hi hip]
  obtain ⟨j0, hj0, hadj⟩ := hnb
  have hj0p : j0 ≠ p := by
    intro e; rw [e, hirr] at hadj; cases hadj
  have hSp : S p = false := by
    have h1 := (hS j0 hj0).2
    rw [hZ j0 hj0, hadj, (hs j0 hj0 hj0p).2] at h1
    simpa using h1
  refine ⟨?_, ?_⟩
  · rw [← (hS p hp).1, hX p hp]; exact hSp
  · rw [← (hS p hp).2, hZ p hp, hSp]; rfl

/-- appending emitters in |0⟩ keeps the column of an isolated photon -/
theorem litX_withEmitters (target : STab) (ne p : Nat) (hp : p < target.n) (h : target.LitX p) :
    (withEmitters target ne).LitX p := by
  have hN : (withEmitters target ne).n = target.n + ne := withEmitters_n target ne
  obtain ⟨w, hw, hrow, hoth⟩ := h
  refine ⟨w, by rw [hN]; omega, ?_, ?_⟩
  · intro j hj
    rw [hN] at hj
    obtain ⟨e1, e2⟩ := (withEmitters_row target ne w (by omega)).1 j hj
    rw [e1, e2]
    by_cases hjn : j < target.n
    · obtain ⟨b1, b2⟩ := hrow j hjn
      simp [extRow, hw, PRow.truncCols, hjn, b1, b2]
    · have : ¬ j = p := by omega
      simp [extRow, hw, PRow.truncCols, hjn, Xq, this]
  · intro k hk hkw
    rw [hN] at hk
    obtain ⟨e1, e2⟩ := (withEmitters_row target ne k hk).1 p (by omega)
    apply PRow.pt_of_bits
    · rw [e1]
      by_cases hkn : k < target.n
      · have := PRow.pt_zero_bits _ _ (hoth k hkn hkw)
        simp [extRow, hkn, PRow.truncCols, hp, this.1]
      · simp [extRow, hkn, Zq]
    · rw [e2]
      by_cases hkn : k < target.n
      · have := PRow.pt_zero_bits _ _ (hoth k hkn hkw)
        simp [extRow, hkn, PRow.truncCols, hp, this.2]
      · have : ¬ p = k := by omega
        simp [extRow, hkn, Zq, this]

/-- **an isolated vertex of a graph state is the product qubit `X_p`**, alone in its column -/
theorem graph_litX (np : Nat) (adj : Nat → Nat → Bool) (hsym : ∀ i j, adj i j = adj j i) (p : Nat) (hp : p < np)
    (hiso : ∀ j, j < np → adj p j = false) : (graphSTab np adj).LitX p := by
  refine ⟨p, hp, ?_, ?_⟩
  · intro j hj
    have hj' : j < np := hj
    refine ⟨rfl, ?_⟩
    show (decide (j < np) && adj p j) = false
    rw [hiso j hj']; simp
  · intro k hk hkp
    have hk' : k < np := hk
    apply PRow.pt_of_bits
    · show decide (p = k) = false
      have : ¬ p = k := fun e => hkp e.symm
      simp [this]
    · show (decide (p < np) && adj k p) = false
      rw [hsym k p, hiso k hk']; simp

/-- **the loop invariant holds at the start of the loop**; `I` = the isolated photons (product qubits `X_p`) -/
theorem rinv_init (I : Nat → Prop) (target : STab) (hg : target.Good) (hi : target.LinIndep) (ne : Nat)
    (hdet : determineNEmitters target = .ok ne) (hnp : ∀ p, p < target.n → ¬ I p → target.NotProd p)
    (hx : ∀ p, p < target.n → I p → target.LitX p) :
    RInv I target.n ne target.n { np := target.n, ne := ne, t := withEmitters target ne, circ := [] } := by
  obtain ⟨g0, n0⟩ := withEmitters_good target hg ne
  refine ⟨Nat.le_refl _, rfl, rfl, n0, g0, indep_withEmitters target hi ne, ?_, ?_, ?_, ?_⟩
  · intro q h1 h2; omega
  · intro p hp hI; exact notProd_withEmitters target ne p hp (hnp p hp hI)
  · intro p hp hI; exact litX_withEmitters target ne p hp (hx p hp hI)
  · intro k hk; exact cutRank_withEmitters target ne hdet k (by omega)

end Graphiq.Solver
