/-
  Proofs/SolverCompleteLitX.lean — the column of an ISOLATED photon: one generator is `X_q` (bits; sign irrelevant), every other
  generator is trivial at `q`.  Like the literal `Z` columns of absorbed photons, it survives gates that do not touch `q` and
  witnessed row operations (`rref`).  Used to prove that the solver raises IndexError exactly on targets with an isolated vertex (D3).
-/
import GraphiqModel.Proofs.SolverCompleteReach
namespace Graphiq
open PRow
namespace STab

/-- column `q` carries an isolated `X`: some generator has exactly the bits of `X_q`, all other generators are trivial at `q` -/
def LitX (t : STab) (q : Nat) : Prop :=
  ∃ i, i < t.n ∧ PRow.SameBits t.n (t.row i) (PRow.Xq q) ∧ ∀ k, k < t.n → k ≠ i → t.ptype k q = 0

theorem ptype_of_Xq (t : STab) (i q j : Nat) (hj : j < t.n) (h : PRow.SameBits t.n (t.row i) (PRow.Xq q)) :
    t.ptype i j = if j = q then 1 else 0 := by
  have e := h j hj
  unfold ptype
  rw [e.1, e.2]
  by_cases hjq : j = q <;> simp [PRow.Xq, hjq]

theorem LitX.witness_ne {t : STab} {q i a b pc : Nat} (hi : PRow.SameBits t.n (t.row i) (PRow.Xq q))
    (ho : ∀ k, k < t.n → k ≠ i → t.ptype k q = 0) (ha : a < t.n) (hb : b < t.n) (hab : a ≠ b) (hpc : pc < t.n)
    (hta : t.ptype a pc ≠ 0) (htb : t.ptype b pc ≠ 0) : a ≠ i ∧ b ≠ i := by
  constructor
  · intro e; subst e
    rw [ptype_of_Xq t a q pc hpc hi] at hta
    by_cases hq : pc = q
    · subst hq; exact htb (ho b hb (Ne.symm hab))
    · rw [if_neg hq] at hta; exact hta rfl
  · intro e; subst e
    rw [ptype_of_Xq t b q pc hpc hi] at htb
    by_cases hq : pc = q
    · subst hq; exact hta (ho a ha hab)
    · rw [if_neg hq] at htb; exact htb rfl

theorem LitX.norm {t : STab} {q : Nat} (hq : q < t.n) (hl : t.LitX q) : t.norm.LitX q := by
  obtain ⟨i, hi, he, ho⟩ := hl
  refine ⟨i, hi, fun j hj => ?_, fun k hk hki => ?_⟩
  · have e := (norm_row t i hi).1 j hj
    exact ⟨e.1.trans (he j hj).1, e.2.trans (he j hj).2⟩
  · have hk' : k < t.n := hk
    rw [ptype_norm t k q hk' hq]; exact ho k hk' hki

theorem LitX.rowSwap {t : STab} {q : Nat} (a b : Nat) (ha : a < t.n) (hb : b < t.n) (hl : t.LitX q) :
    (t.rowSwap a b).LitX q := by
  obtain ⟨i, hi, he, ho⟩ := hl
  by_cases hia : i = a
  · subst hia
    refine ⟨b, hb, ?_, fun k hk hkb => ?_⟩
    · rw [rowSwap_row]; by_cases e : b = i
      · rw [if_pos e, e]; exact he
      · rw [if_neg e, if_pos rfl]; exact he
    · rw [ptype_eq, rowSwap_row]
      by_cases hki : k = i
      · rw [if_pos hki]; exact ho b hb (fun e => hkb (by rw [hki, e]))
      · rw [if_neg hki, if_neg hkb]; exact ho k hk hki
  · by_cases hib : i = b
    · subst hib
      refine ⟨a, ha, ?_, fun k hk hka => ?_⟩
      · rw [rowSwap_row, if_pos rfl]; exact he
      · rw [ptype_eq, rowSwap_row, if_neg hka]
        by_cases hki : k = i
        · rw [if_pos hki]; exact ho a ha (fun e => hia e.symm)
        · rw [if_neg hki]; exact ho k hk hki
    · refine ⟨i, hi, ?_, fun k hk hki => ?_⟩
      · rw [rowSwap_row, if_neg hia, if_neg hib]; exact he
      · rw [ptype_eq, rowSwap_row]
        by_cases hka : k = a
        · rw [if_pos hka]; exact ho b hb (fun e => hib e.symm)
        · rw [if_neg hka]
          by_cases hkb : k = b
          · rw [if_pos hkb]; exact ho a ha (fun e => hia e.symm)
          · rw [if_neg hkb]; exact ho k hk hki

theorem LitX.rowSum {t : STab} {q : Nat} (a b pc : Nat) (ha : a < t.n) (hb : b < t.n) (hab : a ≠ b) (hpc : pc < t.n)
    (hta : t.ptype a pc ≠ 0) (htb : t.ptype b pc ≠ 0) (hl : t.LitX q) : (t.rowSum a b).LitX q := by
  obtain ⟨i, hi, he, ho⟩ := hl
  have hne := LitX.witness_ne he ho ha hb hab hpc hta htb
  refine ⟨i, hi, ?_, fun k hk hki => ?_⟩
  · rw [rowSum_row, if_neg (Ne.symm hne.2)]; exact he
  · have hk' : k < t.n := hk
    by_cases hkb : k = b
    · subst hkb
      rw [ptype_rowSum_eq, ho a ha hne.1, ho k hk' hki]; rfl
    · rw [ptype_rowSum_ne t a b k q hkb]; exact ho k hk' hki

theorem COps.litX {t0 t : STab} (h : COps t0 t) (q : Nat) (hq : q < t0.n) (hl : t0.LitX q) : t.LitX q := by
  induction h with
  | refl => exact hl
  | @norm t h ih => exact LitX.norm (h.n_eq ▸ hq) ih
  | @swap t a b ha hb h ih => exact LitX.rowSwap a b (h.n_eq ▸ ha) (h.n_eq ▸ hb) ih
  | @sum t a b pc ha hb hab hpc hta htb h ih =>
    exact LitX.rowSum a b pc (h.n_eq ▸ ha) (h.n_eq ▸ hb) hab (h.n_eq ▸ hpc) hta htb ih

/-- a gate that does not touch `q` keeps the isolated `X` column -/
theorem gateNorm_litX (t : STab) (G : Gate) (hG : G.WF t.n) (q : Nat) (hq : q < t.n) (hoff : q ∉ G.cols) (hl : t.LitX q) :
    ((t.applyGate G).norm).LitX q := by
  obtain ⟨i, hi, hrow, hoth⟩ := hl
  refine ⟨i, hi, ?_, ?_⟩
  · have h1 := (gateNorm_row t G i hi).1
    have h2 := Gate.act_sameBits t.n G hG _ _ hrow
    have htriv : ∀ c, c ∈ G.cols → (Xq q).x c = false ∧ (Xq q).z c = false := by
      intro c hc
      refine ⟨?_, rfl⟩
      show decide (c = q) = false
      have : c ≠ q := fun e => hoff (e ▸ hc)
      simp [this]
    obtain ⟨hb, _, _⟩ := Gate.act_of_triv G (Xq q) htriv
    intro j hj
    exact ⟨(h1 j hj).1.trans ((h2 j hj).1.trans (hb j).1), (h1 j hj).2.trans ((h2 j hj).2.trans (hb j).2)⟩
  · intro k hk hki
    show ((t.applyGate G).norm).ptype k q = 0
    rw [gateNorm_ptype_off t G k q hk hq hoff]
    exact hoth k hk hki

theorem Reach.litX {A : Nat → Prop} {t0 t : STab} (h : Reach A t0 t) (q : Nat) (hq : q < t0.n) (hA : ¬ A q) (hl : t0.LitX q) :
    t.LitX q := by
  induction h with
  | refl => exact hl
  | @gate t G h1 hG hc ih => exact gateNorm_litX t G hG q (h1.n_eq ▸ hq) (fun hm => hA (hc q hm)) ih
  | ops h1 o ih => exact o.litX q (h1.n_eq ▸ hq) ih

end STab
end Graphiq
