/-
  FuseLoop.lean — `group_one_qubit_gates`, whole edit: on every wire the operation sequence becomes `fuseWire` of what it
  was (Proofs/Fuse.lean), for circuits of graphiq-constructed operations.
-/
import GraphiqModel.Proofs.FuseWalk
set_option linter.unusedSectionVars false
set_option linter.unusedSimpArgs false
namespace Graphiq
namespace Dag
open Relation Metrics

/-- no plain operation carries the key "Output" -/
theorem output_not_key {op : Op} (hwf : OpWF op) (hp : PlainOp op) : "Output" ∉ op.indexKeys := by
  rw [mem_indexKeys_iff]
  rintro (h | h | h)
  · exact hp.labels _ h (by decide)
  · have : op.kind = .output := by
      cases hk : op.kind <;> rw [hk] at h <;> first | rfl | exact absurd h (by decide)
    exact hwf.not_output this
  · rcases parse_cases hwf hp with ⟨_, b⟩ | ⟨_, b⟩ | ⟨_, b⟩ | ⟨_, b⟩ | ⟨_, b⟩ | ⟨_, b⟩ <;> rw [b] at h <;>
      exact absurd h (by decide)

theorem wireOps_out (c : Dag) (r : Reg) : wireOps c [NodeId.out r] = [] := by simp [wireOps]

/-- `node_dict["Output"]` of a plain circuit: the output nodes of the existing registers, each once -/
theorem outputList_spec {c : Dag} {P : Paths} (g : Good c P) (hpl : AllPlain c) :
    (dictGet c.nodeDict "Output").Nodup ∧
    (∀ n ∈ dictGet c.nodeDict "Output", ∃ r, n = NodeId.out r ∧ c.live r) ∧
    (∀ r, c.live r → NodeId.out r ∈ dictGet c.nodeDict "Output") := by
  have hcount : ∀ n, (dictGet c.nodeDict "Output").count n = match n with | .out r => (if c.live r then 1 else 0) | _ => 0 := by
    intro n
    rw [g.inv.nodeDict_ok]
    unfold indexCount
    cases ho : c.opOf? n with
    | none =>
      cases n with
      | out r =>
        have : ¬ c.live r := fun hl => (opOf_eq_none.mp ho) ((g.inv.out_iff r).mpr hl)
        simp [this]
      | inp r => rfl
      | op i => rfl
    | some o =>
      have hm := (opOf_eq_some g.inv.ids_nodup).mp ho
      cases n with
      | out r =>
        have : c.live r := (g.inv.out_iff r).mp (mem_nodeIds.mpr ⟨o, hm⟩)
        simp [indexKeysOf, this]
      | inp r => simp [indexKeysOf]
      | op i =>
        simp only [indexKeysOf]
        exact List.count_eq_zero.mpr (output_not_key (g.inv.op_wf i o hm) (hpl i o hm).toPlainOp)
  refine ⟨?_, ?_, ?_⟩
  · rw [List.nodup_iff_count]
    intro n
    rw [hcount n]
    cases n with
    | out r => by_cases hl : c.live r <;> simp [hl]
    | inp r => simp
    | op i => simp
  · intro n hn
    have hpos : 0 < (dictGet c.nodeDict "Output").count n := List.count_pos_iff.mpr hn
    rw [hcount n] at hpos
    cases n with
    | out r =>
      by_cases hl : c.live r
      · exact ⟨r, rfl, hl⟩
      · simp [hl] at hpos
    | inp r => simp at hpos
    | op i => simp at hpos
  · intro r hl
    apply List.count_pos_iff.mp
    rw [hcount]; simp [hl]

theorem fuseWire_nil (r : Reg) : fuseWire r [] = [] := rfl

theorem groupable_out {c : Dag} {P : Paths} (h : Inv c P) (r : Reg) : c.groupable (.out r) = false := by
  rw [groupable_eq h]
  cases c.opOf? (.out r) with
  | none => rfl
  | some o => simp [indexKeysOf]

/-- the nodes that are not groupable -/
def ng (c : Dag) (x : NodeId) : Bool := !c.groupable x

/-- one register of the outer loop: the walk from the node before `out r` -/
theorem groupReg_wires {c : Dag} {P : Paths} (g : Good c P) (hh : GroupHyp c) {r : Reg} (hl : c.live r) :
    (groupWalk r (c.nodes.length + 1) c (predOut P r) []).2 = none ∧
    ∃ P', Good (groupWalk r (c.nodes.length + 1) c (predOut P r) []).1 P' ∧
      GroupHyp (groupWalk r (c.nodes.length + 1) c (predOut P r) []).1 ∧
      (groupWalk r (c.nodes.length + 1) c (predOut P r) []).1.regs = c.regs ∧
      wireOps (groupWalk r (c.nodes.length + 1) c (predOut P r) []).1 (P' r) = fuseWire r (wireOps c (P r)) ∧
      (∀ k, k ≠ r → P' k = P k ∧ wireOps (groupWalk r (c.nodes.length + 1) c (predOut P r) []).1 (P' k) = wireOps c (P k)) ∧
      ((P r).filter (ng c)).Sublist (P' r) ∧
      (∀ x, x ∈ c.nodeIds → c.groupable x = false →
        (groupWalk r (c.nodes.length + 1) c (predOut P r) []).1.opOf? x = c.opOf? x) := by
  obtain ⟨pre, hP⟩ := g.inv.path_split_last hl
  have hP' : P r = pre ++ predOut P r :: [NodeId.out r] := hP
  have hlen : pre.length + 1 ≤ c.nodes.length + 1 := by
    have h1 := (g.inv.nodup r).length_le_of_subset (fun x hx => g.inv.mem_nodes r x hx)
    rw [hP] at h1
    simp [nodeIds] at h1
    omega
  obtain ⟨e, P', g', hh', hw, hoth, hsub, hkeep⟩ := groupWalk_wires r (c.nodes.length + 1) g hh pre [NodeId.out r] (predOut P r) []
    hP' (by simp) hlen (by simp) (by simp)
  obtain ⟨P'', g'', hregs⟩ := groupWalk_good r (c.nodes.length + 1) g (predOut P r) []
  refine ⟨e, P', g', hh', hregs, ?_, hoth, ?_, fun x hxm hxg => hkeep x hxm (fun _ => hxg)⟩
  · rw [hw, wireOps_out, List.append_nil, fuseBack_eq_fuseWire, hP,
      show pre ++ [predOut P r, NodeId.out r] = (pre ++ [predOut P r]) ++ [NodeId.out r] by simp,
      wireOps_append c (pre ++ [predOut P r]) [NodeId.out r], wireOps_out, List.append_nil]
  · have : (P r).filter (ng c) = (pre ++ [predOut P r]).filter (fun x => !c.groupable x) ++ [NodeId.out r] := by
      rw [hP, show pre ++ [predOut P r, NodeId.out r] = (pre ++ [predOut P r]) ++ [NodeId.out r] by simp,
        List.filter_append]
      congr 1
      simp [ng, groupable_out g.inv]
    rw [this]; exact hsub

theorem groupLoop_wires : ∀ (os : List NodeId) {c : Dag} {P : Paths}, Good c P → GroupHyp c →
    os.Nodup → (∀ n ∈ os, ∃ r, n = NodeId.out r ∧ c.live r) →
    (c.groupLoop os).2 = none ∧ ∃ P', Good (c.groupLoop os).1 P' ∧ GroupHyp (c.groupLoop os).1 ∧
      (∀ r, wireOps (c.groupLoop os).1 (P' r) =
        if NodeId.out r ∈ os then fuseWire r (wireOps c (P r)) else wireOps c (P r)) ∧
      (∀ r, ((P r).filter (ng c)).Sublist (P' r)) ∧
      (∀ x, x ∈ c.nodeIds → c.groupable x = false → (c.groupLoop os).1.opOf? x = c.opOf? x) := by
  intro os
  induction os with
  | nil =>
    intro c P g hh _ _
    exact ⟨rfl, P, g, hh, fun r => by simp [groupLoop], fun r => List.filter_sublist, fun _ _ _ => rfl⟩
  | cons n rest ih =>
    intro c P g hh hnd hos
    obtain ⟨r0, rfl, hl⟩ := hos n (by simp)
    have hnd' := List.nodup_cons.mp hnd
    obtain ⟨op, hop⟩ := mem_nodeIds.mp ((g.inv.out_iff r0).mpr hl)
    have hopo : c.opOf? (.out r0) = some op := (opOf_eq_some g.inv.ids_nodup).mpr hop
    have hedge : edgeFromReg (c.inEdges (.out r0)) r0 = some (lastEdge P r0) := by
      unfold edgeFromReg
      rw [g.inv.inEdges_out hl]
      simp [lastEdge]
    obtain ⟨e1, P1, g1, hh1, hregs1, hw1, hoth1, hsub1, hkeep1⟩ := groupReg_wires g hh hl
    unfold groupLoop
    rw [hopo]
    simp only [outReg, hedge, lastEdge]
    cases hres : groupWalk r0 (c.nodes.length + 1) c (predOut P r0) [] with
    | mk c1 err =>
      rw [hres] at e1 g1 hh1 hregs1 hw1 hoth1 hkeep1
      simp only at e1 g1 hh1 hregs1 hw1 hoth1 hkeep1
      subst e1
      simp only
      have hos1 : ∀ n ∈ rest, ∃ r, n = NodeId.out r ∧ c1.live r := by
        intro n hn
        obtain ⟨r, hr, hlr⟩ := hos n (List.mem_cons_of_mem _ hn)
        exact ⟨r, hr, (live_eq_of_regs hregs1 r).mpr hlr⟩
      obtain ⟨e2, P2, g2, hh2, hw2, hsub2, hkeep2⟩ := ih g1 hh1 hnd'.2 hos1
      -- a node that is not groupable stays, with its operation, and stays not groupable
      have hstay : ∀ x, x ∈ c.nodeIds → c.groupable x = false → x ∈ c1.nodeIds ∧ c1.groupable x = false := by
        intro x hxm hxg
        have h1 := hkeep1 x hxm hxg
        exact ⟨mem_nodeIds_of_opOf_eq h1 hxm, by rw [groupable_congr g.inv g1.inv h1]; exact hxg⟩
      refine ⟨e2, P2, g2, hh2, ?_, ?_, ?_⟩
      · intro r
        rw [hw2 r]
        by_cases hr : r = r0
        · subst hr
          rw [if_neg hnd'.1, if_pos (by simp), hw1]
        · have hne : NodeId.out r ≠ NodeId.out r0 := fun e => hr (by injection e)
          rw [(hoth1 r hr).2]
          by_cases hm : NodeId.out r ∈ rest
          · rw [if_pos hm, if_pos (List.mem_cons_of_mem _ hm)]
          · rw [if_neg hm, if_neg (by simp [hne, hm])]
      · intro r
        have hS1 : ((P r).filter (ng c)).Sublist (P1 r) := by
          by_cases hr : r = r0
          · subst hr; exact hsub1
          · rw [(hoth1 r hr).1]; exact List.filter_sublist
        have hSelf : ((P r).filter (ng c)).filter (ng c1) = (P r).filter (ng c) := by
          rw [List.filter_eq_self]
          intro x hx
          obtain ⟨hxP, hxg⟩ := List.mem_filter.mp hx
          have hxg' : c.groupable x = false := by simpa [ng] using hxg
          have := (hstay x (g.inv.mem_nodes r x hxP) hxg').2
          simp [ng, this]
        rw [← hSelf]
        exact List.Sublist.trans (List.Sublist.filter _ hS1) (hsub2 r)
      · intro x hxm hxg
        obtain ⟨hxm1, hxg1⟩ := hstay x hxm hxg
        exact (hkeep2 x hxm1 hxg1).trans (hkeep1 x hxm hxg)

/-- **`group_one_qubit_gates` is the fuse of runs on every wire**: on a circuit of graphiq-constructed operations the
    call does not raise, keeps DagInv, the operation sequence of every wire becomes `fuseWire` of what it was, the nodes
    that are not groupable stay on their wires in their order and keep their operations -/
theorem groupOneQubitGates_wires {c : Dag} {P : Paths} (g : Good c P) (hh : GroupHyp c) :
    c.groupOneQubitGates.2 = none ∧ ∃ P', Good c.groupOneQubitGates.1 P' ∧ GroupHyp c.groupOneQubitGates.1 ∧
      (∀ r, wireOps c.groupOneQubitGates.1 (P' r) = fuseWire r (wireOps c (P r))) ∧
      (∀ r, ((P r).filter (ng c)).Sublist (P' r)) ∧
      (∀ x, x ∈ c.nodeIds → c.groupable x = false → c.groupOneQubitGates.1.opOf? x = c.opOf? x) := by
  obtain ⟨hnd, hmem, hall⟩ := outputList_spec g hh.plain
  obtain ⟨e, P', g', hh', hw, hsub, hkeep⟩ := groupLoop_wires (dictGet c.nodeDict "Output") g hh hnd hmem
  unfold groupOneQubitGates
  refine ⟨e, P', g', hh', ?_, hsub, hkeep⟩
  intro r
  rw [hw r]
  by_cases hl : c.live r
  · rw [if_pos (hall r hl)]
  · have hn : NodeId.out r ∉ dictGet c.nodeDict "Output" := by
      intro hm
      obtain ⟨r', hr', hl'⟩ := hmem _ hm
      injection hr' with hr'; subst hr'; exact hl hl'
    rw [if_neg hn, g.inv.dead r hl]
    rfl

/-- circuits built by `add` from graphiq-constructed operations satisfy the hypotheses of the refinement -/
theorem groupHyp_of_built (ne np nc : Nat) (seq : List Op)
    (hseq : ∀ op ∈ seq, OpWF op ∧ PlainOp' op ∧ (gOp op = true → (∃ r, op.qregs = [r]) ∧ op.cregs = []))
    (hok : (build ne np nc seq).2 = none) : DagInv (build ne np nc seq).1 ∧ GroupHyp (build ne np nc seq).1 := by
  obtain ⟨hops, hinv⟩ := build_spec ne np nc seq (fun op h => (hseq op h).1) hok
  refine ⟨hinv, ?_, ?_⟩
  · intro i o hm
    have : o ∈ opsOf (build ne np nc seq).1 := mem_opsOf.mpr ⟨i, hm⟩
    rw [hops] at this; exact (hseq o this).2.1
  · intro i o hm
    have : o ∈ opsOf (build ne np nc seq).1 := mem_opsOf.mpr ⟨i, hm⟩
    rw [hops] at this; exact (hseq o this).2.2

/-! ## the declarative reading of `fuseWire`: maximal runs -/

theorem fuseRun_nil (r : Reg) : fuseRun r [] = [] := rfl

theorem fuseFwd_run (r : Reg) (run : List Op) (hrun : ∀ o ∈ run, gOp o = true) (pre t : List Op) :
    fuseFwd r pre (run ++ t) = fuseFwd r (pre ++ run) t := by
  induction run generalizing pre with
  | nil => simp
  | cons a rest ih =>
    simp only [List.cons_append, fuseFwd, hrun a (by simp), if_true]
    rw [ih (fun o ho => hrun o (List.mem_cons_of_mem _ ho))]
    simp

/-- a non-groupable operation stays where it is -/
theorem fuseWire_cons_ng (r : Reg) {o : Op} (ho : gOp o = false) (t : List Op) : fuseWire r (o :: t) = o :: fuseWire r t := by
  simp [fuseWire, fuseFwd, ho, fuseRun_nil]

/-- a maximal run (all groupable; followed by nothing or by a non-groupable operation) is replaced by `fuseRun` of it -/
theorem fuseWire_run (r : Reg) (run : List Op) (hrun : ∀ o ∈ run, gOp o = true) (t : List Op)
    (hmax : t = [] ∨ ∃ o t', t = o :: t' ∧ gOp o = false) : fuseWire r (run ++ t) = fuseRun r run ++ fuseWire r t := by
  unfold fuseWire
  rw [fuseFwd_run r run hrun [] t, List.nil_append]
  rcases hmax with rfl | ⟨o, t', rfl, ho⟩
  · simp [fuseFwd, fuseRun_nil]
  · simp [fuseFwd, ho, fuseRun_nil]

end Dag
end Graphiq
