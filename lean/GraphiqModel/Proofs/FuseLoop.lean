/-
  FuseLoop.lean — `group_one_qubit_gates`, whole edit: on every wire the operation sequence becomes `fuseWire` of what it
  was (Proofs/Fuse.lean), for circuits of graphiq-constructed operations.
-/
import GraphiqModel.Proofs.FuseWalk
set_option linter.unusedSectionVars false
set_option linter.unusedSimpArgs false
namespace Graphiq
namespace Dag
open Relation Metrics

/-- no plain operation carries the key "Output" -/
theorem output_not_key {op : Op} (hwf : OpWF op) (hp : PlainOp op) : "Output" ∉ op.indexKeys := by
  rw [mem_indexKeys_iff]
  rintro (h | h | h)
  · rcases hp.labels _ h with h | h <;> exact absurd h (by decide)
  · have : op.kind = .output := by
      cases hk : op.kind <;> rw [hk] at h <;> first | rfl | exact absurd h (by decide)
    exact hwf.not_output this
  · rcases parse_cases hwf hp with ⟨_, b⟩ | ⟨_, b⟩ | ⟨_, b⟩ | ⟨_, b⟩ | ⟨_, b⟩ | ⟨_, b⟩ <;> rw [b] at h <;>
      exact absurd h (by decide)

theorem wireOps_out (c : Dag) (r : Reg) : wireOps c [NodeId.out r] = [] := by simp [wireOps]

/-- `node_dict["Output"]` of a plain circuit: the output nodes of the existing registers, each once -/
theorem outputList_spec {c : Dag} {P : Paths} (g : Good c P) (hpl : AllPlain c) :
    (dictGet c.nodeDict "Output").Nodup ∧
    (∀ n ∈ dictGet c.nodeDict "Output", ∃ r, n = NodeId.out r ∧ c.live r) ∧
    (∀ r, c.live r → NodeId.out r ∈ dictGet c.nodeDict "Output") := by
  have hcount : ∀ n, (dictGet c.nodeDict "Output").count n = match n with | .out r => (if c.live r then 1 else 0) | _ => 0 := by
    intro n
    rw [g.inv.nodeDict_ok]
    unfold indexCount
    cases ho : c.opOf? n with
    | none =>
      cases n with
      | out r =>
        have : ¬ c.live r := fun hl => (opOf_eq_none.mp ho) ((g.inv.out_iff r).mpr hl)
        simp [this]
      | inp r => rfl
      | op i => rfl
    | some o =>
      have hm := (opOf_eq_some g.inv.ids_nodup).mp ho
      cases n with
      | out r =>
        have : c.live r := (g.inv.out_iff r).mp (mem_nodeIds.mpr ⟨o, hm⟩)
        simp [indexKeysOf, this]
      | inp r => simp [indexKeysOf]
      | op i =>
        simp only [indexKeysOf]
        exact List.count_eq_zero.mpr (output_not_key (g.inv.op_wf i o hm) (hpl i o hm).toPlainOp)
  refine ⟨?_, ?_, ?_⟩
  · rw [List.nodup_iff_count]
    intro n
    rw [hcount n]
    cases n with
    | out r => by_cases hl : c.live r <;> simp [hl]
    | inp r => simp
    | op i => simp
  · intro n hn
    have hpos : 0 < (dictGet c.nodeDict "Output").count n := List.count_pos_iff.mpr hn
    rw [hcount n] at hpos
    cases n with
    | out r =>
      by_cases hl : c.live r
      · exact ⟨r, rfl, hl⟩
      · simp [hl] at hpos
    | inp r => simp at hpos
    | op i => simp at hpos
  · intro r hl
    apply List.count_pos_iff.mp
    rw [hcount]; simp [hl]

theorem fuseWire_nil (r : Reg) : fuseWire r [] = [] := rfl

/-- one register of the outer loop: the walk from the node before `out r` -/
theorem groupReg_wires {c : Dag} {P : Paths} (g : Good c P) (hh : GroupHyp c) {r : Reg} (hl : c.live r) :
    (groupWalk r (c.nodes.length + 1) c (predOut P r) []).2 = none ∧
    ∃ P', Good (groupWalk r (c.nodes.length + 1) c (predOut P r) []).1 P' ∧
      GroupHyp (groupWalk r (c.nodes.length + 1) c (predOut P r) []).1 ∧
      (groupWalk r (c.nodes.length + 1) c (predOut P r) []).1.regs = c.regs ∧
      wireOps (groupWalk r (c.nodes.length + 1) c (predOut P r) []).1 (P' r) = fuseWire r (wireOps c (P r)) ∧
      ∀ k, k ≠ r → wireOps (groupWalk r (c.nodes.length + 1) c (predOut P r) []).1 (P' k) = wireOps c (P k) := by
  obtain ⟨pre, hP⟩ := g.inv.path_split_last hl
  have hP' : P r = pre ++ predOut P r :: [NodeId.out r] := hP
  have hlen : pre.length + 1 ≤ c.nodes.length + 1 := by
    have h1 := (g.inv.nodup r).length_le_of_subset (fun x hx => g.inv.mem_nodes r x hx)
    rw [hP] at h1
    simp [nodeIds] at h1
    omega
  obtain ⟨e, P', g', hh', hw, hoth⟩ := groupWalk_wires r (c.nodes.length + 1) g hh pre [NodeId.out r] (predOut P r) []
    hP' (by simp) hlen (by simp) (by simp)
  obtain ⟨P'', g'', hregs⟩ := groupWalk_good r (c.nodes.length + 1) g (predOut P r) []
  refine ⟨e, P', g', hh', hregs, ?_, fun k hk => (hoth k hk).2⟩
  rw [hw, wireOps_out, List.append_nil, fuseBack_eq_fuseWire, hP,
    show pre ++ [predOut P r, NodeId.out r] = (pre ++ [predOut P r]) ++ [NodeId.out r] by simp,
    wireOps_append c (pre ++ [predOut P r]) [NodeId.out r], wireOps_out, List.append_nil]

theorem groupLoop_wires : ∀ (os : List NodeId) {c : Dag} {P : Paths}, Good c P → GroupHyp c →
    os.Nodup → (∀ n ∈ os, ∃ r, n = NodeId.out r ∧ c.live r) →
    (c.groupLoop os).2 = none ∧ ∃ P', Good (c.groupLoop os).1 P' ∧ GroupHyp (c.groupLoop os).1 ∧
      ∀ r, wireOps (c.groupLoop os).1 (P' r) =
        if NodeId.out r ∈ os then fuseWire r (wireOps c (P r)) else wireOps c (P r) := by
  intro os
  induction os with
  | nil => intro c P g hh _ _; exact ⟨rfl, P, g, hh, fun r => by simp [groupLoop]⟩
  | cons n rest ih =>
    intro c P g hh hnd hos
    obtain ⟨r0, rfl, hl⟩ := hos n (by simp)
    have hnd' := List.nodup_cons.mp hnd
    obtain ⟨op, hop⟩ := mem_nodeIds.mp ((g.inv.out_iff r0).mpr hl)
    have hopo : c.opOf? (.out r0) = some op := (opOf_eq_some g.inv.ids_nodup).mpr hop
    have hedge : edgeFromReg (c.inEdges (.out r0)) r0 = some (lastEdge P r0) := by
      unfold edgeFromReg
      rw [g.inv.inEdges_out hl]
      simp [lastEdge]
    obtain ⟨e1, P1, g1, hh1, hregs1, hw1, hoth1⟩ := groupReg_wires g hh hl
    unfold groupLoop
    rw [hopo]
    simp only [outReg, hedge, lastEdge]
    cases hres : groupWalk r0 (c.nodes.length + 1) c (predOut P r0) [] with
    | mk c1 err =>
      rw [hres] at e1 g1 hh1 hregs1 hw1 hoth1
      simp only at e1 g1 hh1 hregs1 hw1 hoth1
      subst e1
      simp only
      have hos1 : ∀ n ∈ rest, ∃ r, n = NodeId.out r ∧ c1.live r := by
        intro n hn
        obtain ⟨r, hr, hlr⟩ := hos n (List.mem_cons_of_mem _ hn)
        exact ⟨r, hr, (live_eq_of_regs hregs1 r).mpr hlr⟩
      obtain ⟨e2, P2, g2, hh2, hw2⟩ := ih g1 hh1 hnd'.2 hos1
      refine ⟨e2, P2, g2, hh2, ?_⟩
      intro r
      rw [hw2 r]
      by_cases hr : r = r0
      · subst hr
        rw [if_neg hnd'.1, if_pos (by simp), hw1]
      · have hne : NodeId.out r ≠ NodeId.out r0 := fun e => hr (by injection e)
        rw [hoth1 r hr]
        by_cases hm : NodeId.out r ∈ rest
        · rw [if_pos hm, if_pos (List.mem_cons_of_mem _ hm)]
        · rw [if_neg hm, if_neg (by simp [hne, hm])]

/-- **`group_one_qubit_gates` is the fuse of runs on every wire**: on a circuit of graphiq-constructed operations the
    call does not raise, keeps DagInv, and the operation sequence of every wire becomes `fuseWire` of what it was -/
theorem groupOneQubitGates_wires {c : Dag} {P : Paths} (g : Good c P) (hh : GroupHyp c) :
    c.groupOneQubitGates.2 = none ∧ ∃ P', Good c.groupOneQubitGates.1 P' ∧ GroupHyp c.groupOneQubitGates.1 ∧
      ∀ r, wireOps c.groupOneQubitGates.1 (P' r) = fuseWire r (wireOps c (P r)) := by
  obtain ⟨hnd, hmem, hall⟩ := outputList_spec g hh.plain
  obtain ⟨e, P', g', hh', hw⟩ := groupLoop_wires (dictGet c.nodeDict "Output") g hh hnd hmem
  unfold groupOneQubitGates
  refine ⟨e, P', g', hh', ?_⟩
  intro r
  rw [hw r]
  by_cases hl : c.live r
  · rw [if_pos (hall r hl)]
  · have hn : NodeId.out r ∉ dictGet c.nodeDict "Output" := by
      intro hm
      obtain ⟨r', hr', hl'⟩ := hmem _ hm
      injection hr' with hr'; subst hr'; exact hl hl'
    rw [if_neg hn, g.inv.dead r hl]
    rfl

end Dag
end Graphiq
