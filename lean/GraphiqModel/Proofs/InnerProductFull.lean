/-
  Proofs/InnerProductFull.lean — the fidelity theorems of Proofs/InnerProduct*.lean without the hypothesis `hzero`
  ("`inverse_circuit` reached |0…0⟩ on the first argument"): that hypothesis is a theorem since the repair of D42
  (Proofs/InvBridge.lean, `inverseCircuit_isZero`).  All sizes.
-/
import GraphiqModel.Proofs.InvTotal
import GraphiqModel.Proofs.InnerProductDim
namespace Graphiq
open PRow Tab
namespace STab

/-- a normal return of `inner_product` on a valid first argument: the inner synthesis returned and reached |0…0⟩ -/
theorem innerProduct_synth (a b : Tab) (r : Option Nat) (ga : (STab.ofTab a).Good) (h : STab.innerProduct a b = .ok r) :
    ∃ s1 circ, (STab.ofTab a).inverseCircuit = .ok (s1, circ) ∧ s1.isZero = true := by
  obtain ⟨_, s1, circ, _, h1, _, _⟩ := innerProduct_inv a b r h
  exact ⟨s1, circ, h1, inverseCircuit_isZero _ s1 circ ga h1⟩

section
variable (a b : Tab) (r : Option Nat)
variable (ga : (STab.ofTab a).Good) (gb : (STab.ofTab b).Good) (h : STab.innerProduct a b = .ok r)
include ga gb h

/-- the result is `0` exactly when the two groups contain a Pauli with opposite signs -/
theorem innerProduct_none_iff_full : r = none ↔ Orth (STab.ofTab a) (STab.ofTab b) := by
  obtain ⟨s1, circ, hs, hz⟩ := innerProduct_synth a b r ga h
  exact innerProduct_none_iff a b s1 circ r ga gb hs hz h

/-- a non-zero result `2^{-e/2}`: `e ≤ n`, not orthogonal, the common subgroup has rank `n − e`; and `e` is what the code
    counts in the canonical form of the transformed second state -/
theorem innerProduct_some_full (e : Nat) (he : r = some e) :
    e ≤ a.n ∧ ¬ Orth (STab.ofTab a) (STab.ofTab b) ∧ OverlapDim (STab.ofTab a) (STab.ofTab b) (a.n - e) ∧
    ∃ s1 circ s2, (STab.ofTab a).inverseCircuit = .ok (s1, circ) ∧
      (STab.ofTab (b.runCircuit circ)).canonicalForm = .ok s2 ∧
      (∀ i, i < a.n → (((List.range a.n).any fun j => (s2.row i).x j) = true ↔ i < e)) ∧
      (∀ i, e ≤ i → i < a.n → (s2.row i).r = false) := by
  obtain ⟨s1, circ, hs, hz⟩ := innerProduct_synth a b r ga h
  obtain ⟨h1, h2, h3⟩ := innerProduct_some a b s1 circ r ga gb hs hz h e he
  obtain ⟨s2, h4, h5, h6⟩ := innerProduct_some_rows a b s1 circ r ga gb hs hz h e he
  exact ⟨h1, h2, h3, s1, circ, s2, hs, h4, h5, h6⟩

/-- the result is `1` exactly when the two signed groups coincide -/
theorem innerProduct_one_iff_full : r = some 0 ↔ SpanEq (STab.ofTab a) (STab.ofTab b) := by
  obtain ⟨s1, circ, hs, hz⟩ := innerProduct_synth a b r ga h
  exact innerProduct_one_iff a b s1 circ r ga gb hs hz h

end

/-- whatever `inner_product` of a valid state with itself returns is the value 1 -/
theorem innerProduct_self_val (a : Tab) (r : Option Nat) (ga : (STab.ofTab a).Good) (h : STab.innerProduct a a = .ok r) :
    r = some 0 :=
  (innerProduct_one_iff_full a a r ga ga h).2 (SpanEq.refl _)

/-- **`inner_product` returns on every pair of stabilizer states of the same size** (independent real commuting
    generators on both sides; nothing else assumed) -/
theorem innerProduct_total_full (a b : Tab) (ga : (STab.ofTab a).Good) (gb : (STab.ofTab b).Good)
    (ia : (STab.ofTab a).Indep) (ib : (STab.ofTab b).Indep) (hn : a.n = b.n) : ∃ r, STab.innerProduct a b = .ok r := by
  obtain ⟨s1, circ, hs, _⟩ := inverseCircuit_complete _ ga ia
  obtain ⟨cb, hcb⟩ := canonicalForm_of_indep _ gb ib
  exact innerProduct_total a b s1 cb circ ga gb hn hs hcb

/-- **the fidelity of a stabilizer state with itself is 1**: the call returns, and returns 1 -/
theorem innerProduct_self_full (a : Tab) (ga : (STab.ofTab a).Good) (ia : (STab.ofTab a).Indep) :
    STab.innerProduct a a = .ok (some 0) := by
  obtain ⟨s1, circ, hs, hz⟩ := inverseCircuit_complete _ ga ia
  exact innerProduct_self a s1 circ ga hs hz

/-- **the fidelity is symmetric** -/
theorem innerProduct_symm_full (a b : Tab) (rab rba : Option Nat) (ga : (STab.ofTab a).Good) (gb : (STab.ofTab b).Good)
    (hab : STab.innerProduct a b = .ok rab) (hba : STab.innerProduct b a = .ok rba) : rab = rba := by
  obtain ⟨sa, ca, hsa, hza⟩ := innerProduct_synth a b rab ga hab
  obtain ⟨sb, cb, hsb, hzb⟩ := innerProduct_synth b a rba gb hba
  exact innerProduct_symm a b sa sb ca cb rab rba ga gb hsa hza hsb hzb hab hba

/-- whenever `inner_product` returns, both arguments have the same size and the first is an independent generating set -/
theorem innerProduct_ok_indep (a b : Tab) (r : Option Nat) (ga : (STab.ofTab a).Good) (h : STab.innerProduct a b = .ok r) :
    a.n = b.n ∧ (STab.ofTab a).Indep := by
  obtain ⟨hn, s1, circ, _, h1, _, _⟩ := innerProduct_inv a b r h
  exact ⟨hn, (inverseCircuit_returns_iff _ ga).1 ⟨_, h1⟩⟩

/-- **the value depends only on the two signed groups**: other generating sets (and destabilizers) of the same two states
    give the same result -/
theorem innerProduct_congr (a a' b b' : Tab) (r r' : Option Nat)
    (ga : (STab.ofTab a).Good) (gb : (STab.ofTab b).Good) (ga' : (STab.ofTab a').Good) (gb' : (STab.ofTab b').Good)
    (sa : SpanEq (STab.ofTab a) (STab.ofTab a')) (sb : SpanEq (STab.ofTab b) (STab.ofTab b'))
    (h : STab.innerProduct a b = .ok r) (h' : STab.innerProduct a' b' = .ok r') : r = r' := by
  have hn : a.n = a'.n := sa.n_eq
  have hab : a.n = b.n := (innerProduct_inv a b r h).1
  cases hr : r with
  | none =>
    have ho := (innerProduct_none_iff_full a b r ga gb h).1 hr
    exact ((innerProduct_none_iff_full a' b' r' ga' gb' h').2 (ho.congr sa sb)).symm
  | some e =>
    cases hr' : r' with
    | none =>
      have ho := (innerProduct_none_iff_full a' b' r' ga' gb' h').1 hr'
      have := (innerProduct_none_iff_full a b r ga gb h).2 (ho.congr sa.symm sb.symm)
      rw [this] at hr; cases hr
    | some e' =>
      obtain ⟨l1, _, d1, _⟩ := innerProduct_some_full a b r ga gb h e hr
      obtain ⟨l2, _, d2, _⟩ := innerProduct_some_full a' b' r' ga' gb' h' e' hr'
      have d1' := d1.congr sa sb
      have := overlapDim_unique (STab.ofTab a') (STab.ofTab b') ga'
        (sa.n_eq.symm.trans ((show (STab.ofTab a).n = (STab.ofTab b).n from hab).trans sb.n_eq)) _ _ d1' d2
      congr 1
      omega

/-- **the value is invariant under applying one gate list to both states** (Clifford covariance of the fidelity) -/
theorem innerProduct_circuit_invariant (a b : Tab) (c : List Gate) (hc : ∀ g, g ∈ c → g.WF a.n) (hn : b.n = a.n)
    (ga : (STab.ofTab a).Good) (gb : (STab.ofTab b).Good) (r r' : Option Nat)
    (h : STab.innerProduct a b = .ok r) (h' : STab.innerProduct (a.runCircuit c) (b.runCircuit c) = .ok r') : r = r' := by
  obtain ⟨iA, gA'⟩ := ofTab_runCircuit_image a.n c hc a rfl ga
  obtain ⟨iB, gB'⟩ := ofTab_runCircuit_image a.n c hc b hn gb
  have na' : (a.runCircuit c).n = a.n := iA.nT'
  cases hr : r with
  | none =>
    have ho := (innerProduct_none_iff_full a b r ga gb h).1 hr
    exact ((innerProduct_none_iff_full _ _ r' gA' gB' h').2 ((orth_image_iff iA iB).1 ho)).symm
  | some e =>
    cases hr' : r' with
    | none =>
      have ho := (innerProduct_none_iff_full _ _ r' gA' gB' h').1 hr'
      have := (innerProduct_none_iff_full a b r ga gb h).2 ((orth_image_iff iA iB).2 ho)
      rw [this] at hr; cases hr
    | some e' =>
      obtain ⟨l1, _, d1, _⟩ := innerProduct_some_full a b r ga gb h e hr
      obtain ⟨l2, _, d2, _⟩ := innerProduct_some_full _ _ r' gA' gB' h' e' hr'
      have d1' := (overlapDim_image_iff iA iB _).1 d1
      have := overlapDim_unique _ _ gA' (iA.nT'.trans iB.nT'.symm) _ _ d1' d2
      rw [na'] at this l2
      congr 1
      omega

end STab
end Graphiq
