/-
  Proofs/StateToGraphRoundTrip.lean — graph → stabilizer → graph on the model: for every simple graph the modelled
  `state_to_graph` / `stabilizer_to_graph` applied to `graph_to_stabilizer(G)` return `G` again, with an empty gate list.
  (Every step of `_graph_finder` is computed on a table whose X part is the identity.)  All sizes n ≥ 1.
-/
import GraphiqModel.Proofs.StateToGraph
namespace Graphiq
open PRow Tab STab S2G

namespace S2G

/-- pointwise equality of the two matrices below `n` -/
def XZ.Agree (m m' : XZ) : Prop :=
  m'.n = m.n ∧ ∀ i j, i < m.n → j < m.n → m'.x i j = m.x i j ∧ m'.z i j = m.z i j

theorem XZ.Agree.refl (m : XZ) : XZ.Agree m m := ⟨rfl, fun _ _ _ _ => ⟨rfl, rfl⟩⟩
theorem XZ.Agree.trans {a b c : XZ} (h1 : XZ.Agree a b) (h2 : XZ.Agree b c) : XZ.Agree a c :=
  ⟨h2.1.trans h1.1, fun i j hi hj =>
    ⟨((h2.2 i j (h1.1 ▸ hi) (h1.1 ▸ hj)).1).trans (h1.2 i j hi hj).1,
     ((h2.2 i j (h1.1 ▸ hi) (h1.1 ▸ hj)).2).trans (h1.2 i j hi hj).2⟩⟩

theorem agree_norm (m : XZ) : XZ.Agree m m.norm :=
  ⟨rfl, fun i j hi hj => ⟨norm_x m i j hi hj, norm_z m i j hi hj⟩⟩

/-- the X part is the identity matrix -/
def XId (m : XZ) : Prop := ∀ i j, i < m.n → j < m.n → m.x i j = decide (i = j)

theorem xid_agree {m m' : XZ} (h : XZ.Agree m m') (hx : XId m) : XId m' :=
  fun i j hi hj => by rw [(h.2 i j (h.1 ▸ hi) (h.1 ▸ hj)).1]; exact hx i j (h.1 ▸ hi) (h.1 ▸ hj)

theorem singleton_of_pairwise (l : List Nat) (k : Nat) (hs : l.Pairwise (· < ·)) (hall : ∀ i, i ∈ l → i = k)
    (hk : k ∈ l) : l = [k] := by
  cases l with
  | nil => cases hk
  | cons a rest =>
    have ha : a = k := hall a List.mem_cons_self
    cases rest with
    | nil => rw [ha]
    | cons b rest' =>
      have hb : b = k := hall b (List.mem_cons_of_mem _ List.mem_cons_self)
      have := (List.pairwise_cons.mp hs).1 b List.mem_cons_self
      omega

theorem theOnes_id (m : XZ) (k : Nat) (hk : k < m.n) (hx : XId m) : m.theOnes k k = [k] := by
  obtain ⟨hmem, hsorted⟩ := theOnes_spec m k k
  apply singleton_of_pairwise _ k hsorted
  · intro i hi
    have := hmem i hi
    have e := this.2.2
    rw [hx i k this.2.1 hk] at e
    simpa using e
  · simp only [XZ.theOnes, List.mem_filter, List.mem_range, Bool.and_eq_true, decide_eq_true_eq]
    exact ⟨hk, Nat.le_refl k, by rw [hx k k hk hk]; simp⟩

theorem elimBelow_id (m : XZ) (k : Nat) : XZ.Agree m (m.elimBelow k [k]) := by
  simp only [XZ.elimBelow, List.foldl]
  have a1 : XZ.Agree m (m.rowSwap k k) := by
    refine ⟨rfl, fun i j _ _ => ?_⟩
    simp only [XZ.rowSwap]
    by_cases h : i = k <;> simp [h]
  exact a1.trans (agree_norm _)

/-- `row_reduction` leaves a table with identity X part unchanged -/
theorem rowRedLoop_id (fuel : Nat) (m : XZ) (k : Nat) (hk : k < m.n) (hx : XId m) :
    XZ.Agree m (XZ.rowRedLoop fuel m k k).1 := by
  induction fuel generalizing m k with
  | zero => exact XZ.Agree.refl m
  | succ fuel ih =>
    unfold XZ.rowRedLoop
    rw [theOnes_id m k hk hx]
    by_cases h1 : k + 1 = m.n
    · rw [if_pos h1]
      simp only [List.isEmpty_cons, Bool.false_eq_true, if_false]
      exact elimBelow_id m k
    · rw [if_neg h1, if_neg h1]
      simp only [List.isEmpty_cons, Bool.false_eq_true, if_false]
      have a1 := elimBelow_id m k
      have hk' : k + 1 < (m.elimBelow k [k]).n := by rw [a1.1]; omega
      exact a1.trans (ih (m.elimBelow k [k]) (k + 1) hk' (xid_agree a1 hx))

theorem posLoop_id (x : Adj) (n : Nat) (hx : ∀ i j, i < n → j < n → x i j = decide (i = j)) (k : Nat) (hk : k ≤ n) :
    posLoop x n k = (k, []) := by
  induction k with
  | zero => rfl
  | succ k ih =>
    rw [posLoop_succ, ih (by omega)]
    unfold posStep
    have e1 : x k k = true := by rw [hx k k (by omega) (by omega)]; simp
    rw [if_pos ⟨by show k < n; omega, e1⟩]

end S2G

/-! ### `_graph_finder` on the graph-state table -/

theorem graphFinder_graph (n : Nat) (hn : 0 < n) (A : Adj) (hsym : ∀ i j, i < n → j < n → A i j = A j i)
    (hirr : ∀ i, i < n → A i i = false) (m0 : XZ) (hm0n : m0.n = n) (hm0x : XId m0)
    (hm0z : ∀ i j, i < n → j < n → m0.z i j = A i j) :
    ∃ g, graphFinder m0 = .ok g ∧ g.hpos = [] ∧ g.zdiag = [] ∧ ∀ i j, i < n → j < n → g.adj.f i j = A i j := by
  subst hm0n
  unfold graphFinder graphFinderWith
  rw [if_neg (by omega)]
  generalize hrr : m0.norm.rowReduction = rr
  obtain ⟨m1, rank0⟩ := rr
  simp only
  have a01 : XZ.Agree m0 m1 := by
    have := rowRedLoop_id (m0.norm.n + 1) m0.norm 0 hn (xid_agree (agree_norm m0) hm0x)
    have e : (XZ.rowRedLoop (m0.norm.n + 1) m0.norm 0 0).1 = m1 := by
      show m0.norm.rowReduction.1 = m1; rw [hrr]
    rw [e] at this
    exact (agree_norm m0).trans this
  have hx1 : XId m1 := xid_agree a01 hm0x
  have hpos : positionFinder m0.n m1.x = [] := by
    unfold positionFinder
    rw [posLoop_id m1.x m0.n (fun i j hi hj => hx1 i j (a01.1 ▸ hi) (a01.1 ▸ hj)) m0.n (Nat.le_refl _)]
  rw [hpos]
  generalize hm2 : (m1.hadamardTransform []).norm = m2
  have a12 : XZ.Agree m1 m2 := by
    rw [← hm2]
    have a1 : XZ.Agree m1 (m1.hadamardTransform []) := ⟨rfl, fun i j _ _ => by simp [XZ.hadamardTransform]⟩
    exact a1.trans (agree_norm _)
  have a02 := a01.trans a12
  have hx2 : XId m2 := xid_agree a02 hm0x
  have hn2 : m2.n = m0.n := a02.1
  have hz2 : ∀ i j, i < m0.n → j < m0.n → m2.z i j = A i j := fun i j hi hj => by
    rw [(a02.2 i j hi hj).2]; exact hm0z i j hi hj
  -- the inverse of the identity
  obtain ⟨M, eM, hM⟩ := gf2Inv_id m0.n (transpose m2.x) (fun i j hi hj => by
    simp only [transpose]
    rw [hx2 j i (hn2 ▸ hj) (hn2 ▸ hi)]
    by_cases h : i = j
    · subst h; rfl
    · have : ¬ (j = i) := fun e => h e.symm
      simp [h, this])
  have eInv : gf2InvF m0.n (transpose m2.x) = some M.f := by simp only [gf2InvF, eM, Option.map_some]
  rw [eInv]
  simp only
  -- the tail
  unfold graphFinderTail
  simp only [hn2]
  have hfz : ∀ i j, i < m0.n → j < m0.n →
      (BMat.ofAdj m0.n (matMul m0.n (transpose m2.z) M.f)).norm.f i j = A i j := by
    intro i j hi hj
    rw [BMat.norm_agree _ i j hi hj]
    show parityTo m0.n (fun k => m2.z k i && M.f k j) = A i j
    rw [parityTo_congr m0.n _ (fun k => m2.z k i && decide (k = j)) (fun k hk => by rw [hM k j hk hj])]
    have h := S2G.parityTo_single' m0.n j (fun k => m2.z k i) hj
    rw [h, hz2 j i hj hi, hsym j i hj hi]
  have hadj : ∀ i j, i < m0.n → j < m0.n →
      (BMat.ofAdj m0.n fun i j => if i = j then false else
        (BMat.ofAdj m0.n (matMul m0.n (transpose m2.z) M.f)).norm.f i j).norm.f i j = A i j := by
    intro i j hi hj
    rw [BMat.norm_agree _ i j hi hj]
    show (if i = j then false else (BMat.ofAdj m0.n (matMul m0.n (transpose m2.z) M.f)).norm.f i j) = A i j
    by_cases h : i = j
    · subst h; rw [if_pos rfl, hirr i hi]
    · rw [if_neg h, hfz i j hi hj]
  have c1 : ((List.range m0.n).all fun i => (List.range m0.n).all fun j =>
      (BMat.ofAdj m0.n fun i j => if i = j then false else
        (BMat.ofAdj m0.n (matMul m0.n (transpose m2.z) M.f)).norm.f i j).norm.f i j ==
      (BMat.ofAdj m0.n fun i j => if i = j then false else
        (BMat.ofAdj m0.n (matMul m0.n (transpose m2.z) M.f)).norm.f i j).norm.f j i) = true := by
    simp only [List.all_eq_true, List.mem_range, beq_iff_eq]
    intro i hi j hj
    rw [hadj i j hi hj, hadj j i hj hi, hsym i j hi hj]
  have c2 : ((List.range m0.n).all fun i => (List.range m0.n).all fun j =>
      matMul m0.n M.f (transpose m2.x) i j == decide (i = j)) = true := by
    simp only [List.all_eq_true, List.mem_range, beq_iff_eq]
    intro i hi j hj
    show parityTo m0.n (fun k => M.f i k && m2.x j k) = decide (i = j)
    rw [parityTo_congr m0.n _ (fun k => decide (i = k) && m2.x j k) (fun k hk => by rw [hM i k hi hk])]
    have h := S2G.parityTo_single'' m0.n i (fun k => m2.x j k) hi
    rw [h, hx2 j i (hn2 ▸ hj) (hn2 ▸ hi)]
    by_cases h : i = j
    · subst h; rfl
    · have : ¬ (j = i) := fun e => h e.symm
      simp [h, this]
  rw [c1, c2]
  simp only [Bool.not_true, Bool.false_eq_true, if_false]
  refine ⟨_, rfl, rfl, ?_, hadj⟩
  simp only [List.filter_eq_nil_iff, List.mem_range]
  intro i hi
  rw [hfz i i hi hi, hirr i hi]
  simp

/-! ### the whole round trip -/

theorem ofSTab_graph (n : Nat) (A : Adj) :
    (XZ.ofSTab (graphSTab n A)).n = n ∧ XId (XZ.ofSTab (graphSTab n A)) ∧
    ∀ i j, i < n → j < n → (XZ.ofSTab (graphSTab n A)).z i j = A i j := by
  refine ⟨rfl, fun i j _ _ => ?_, fun i j _ hj => ?_⟩
  · show decide (j = i) = decide (i = j)
    by_cases h : i = j
    · subst h; rfl
    · have : ¬ (j = i) := fun e => h e.symm
      simp [h, this]
  · show (decide (j < n) && A i j) = A i j
    simp [hj]

/-- rows that agree with the graph-state generators have identity X part -/
theorem xcols_of_rows (S : STab) (n : Nat) (A : Adj) (hn : S.n = n)
    (hr : ∀ m, m < n → EqOn n (S.row m) ((graphSTab n A).row m)) : XCols S S.n := by
  intro m k hm hk
  rw [hn] at hm hk
  rw [((hr m hm).1 k hk).1]; rfl

/-- **graph → stabilizer → graph** on the model: `state_to_graph` returns the graph itself and no gates -/
theorem stateToGraph_graph (n : Nat) (hn : 0 < n) (A : Adj) (hsym : ∀ i j, i < n → j < n → A i j = A j i)
    (hirr : ∀ i, i < n → A i i = false) :
    ∃ g, stateToGraph (graphSTab n A) = .ok (g, []) ∧ ∀ i j, i < n → j < n → g.f i j = A i j := by
  obtain ⟨h1, h2, h3⟩ := ofSTab_graph n A
  obtain ⟨g, eg, gh, gz, ga⟩ := graphFinder_graph n hn A hsym hirr _ h1 h2 h3
  have gsym : ∀ i j, i < n → j < n → g.adj.f i j = g.adj.f j i := fun i j hi hj => by
    rw [ga i j hi hj, ga j i hj hi, hsym i j hi hj]
  -- the three canonical forms
  obtain ⟨tab1, e1, n1, r1⟩ := canonicalForm_graphSTab n A hsym
  obtain ⟨tab2, e2, _, r2⟩ := canonicalForm_graphSTab n g.adj.f gsym
  obtain ⟨_, g1⟩ := canonicalForm_spanEq _ tab1 (graphSTab_good n A hsym) e1
  obtain ⟨newTab, e3, n3, r3⟩ := canonicalForm_idX tab1 g1 (xcols_of_rows tab1 n A n1 r1)
  rw [n1] at r3
  have nN : newTab.n = n := n3.trans n1
  have rN : ∀ m, m < n → EqOn n (newTab.row m) ((graphSTab n A).row m) := fun m hm => (r3 m hm).trans (r1 m hm)
  obtain ⟨M, eM, hM⟩ := gf2Inv_id newTab.n (fun i j => (newTab.row i).x j) (fun i j hi hj => by
    rw [nN] at hi hj
    rw [((rN i hi).1 j hj).1]
    show decide (j = i) = decide (i = j)
    by_cases h : i = j
    · subst h; rfl
    · have : ¬ (j = i) := fun e => h e.symm
      simp [h, this])
  refine ⟨g.adj, ?_, ga⟩
  unfold stateToGraph stateToGraphWith
  have eg' : graphFinderWith gf2InvF (XZ.ofSTab (graphSTab n A)) = .ok g := eg
  rw [eg']
  simp only [gh, gz]
  have hl : lcGates [] [] = [] := rfl
  rw [hl]
  have hpc : phaseCorrection (graphSTab n A) (graphSTab (graphSTab n A).n g.adj.f) [] = .ok [] := by
    unfold phaseCorrection
    rw [e1]
    simp only
    have : (graphSTab (graphSTab n A).n g.adj.f) = graphSTab n g.adj.f := rfl
    rw [this, e2]
    simp only
    have : tab1.runCircuit [] = tab1 := rfl
    rw [this, e3]
    simp only
    rw [eM]
    simp only
    have : ((List.range newTab.n).filter fun i =>
        parityTo newTab.n fun k => M.f i k && xor (tab2.row k).r (newTab.row k).r) = [] := by
      simp only [List.filter_eq_nil_iff, List.mem_range]
      intro i hi
      rw [nN] at hi
      rw [nN]
      have : parityTo n (fun k => M.f i k && xor (tab2.row k).r (newTab.row k).r) = false := by
        apply parityTo_zero
        intro k hk
        rw [(r2 k hk).2.1, (rN k hk).2.1]
        show (M.f i k && xor false false) = false
        simp
      rw [this]; simp
    rw [this]; rfl
  rw [hpc]
  rfl

/-- the same for `stabilizer_to_graph(validate=True)` -/
theorem stabilizerToGraph_graph (n : Nat) (hn : 0 < n) (A : Adj) (hsym : ∀ i j, i < n → j < n → A i j = A j i)
    (hirr : ∀ i, i < n → A i i = false) :
    ∃ g, stabilizerToGraph (graphSTab n A) = .ok g ∧ ∀ i j, i < n → j < n → g.f i j = A i j := by
  obtain ⟨h1, h2, h3⟩ := ofSTab_graph n A
  obtain ⟨g, eg, _, _, ga⟩ := graphFinder_graph n hn A hsym hirr _ h1 h2 h3
  have gsym : ∀ i j, i < n → j < n → g.adj.f i j = g.adj.f j i := fun i j hi hj => by
    rw [ga i j hi hj, ga j i hj hi, hsym i j hi hj]
  obtain ⟨tab1, e1, n1, r1⟩ := canonicalForm_graphSTab n A hsym
  obtain ⟨tab2, e2, n2, r2⟩ := canonicalForm_graphSTab n g.adj.f gsym
  refine ⟨g.adj, ?_, ga⟩
  unfold stabilizerToGraph
  rw [eg]
  simp only
  have hs : sameStabilizerState (graphSTab n A) (graphSTab (graphSTab n A).n g.adj.f) = .ok true := by
    unfold sameStabilizerState
    have hne : ¬ ((graphSTab n A).n ≠ (graphSTab (graphSTab n A).n g.adj.f).n) := fun h => h rfl
    rw [if_neg hne, e1]
    simp only
    have : (graphSTab (graphSTab n A).n g.adj.f) = graphSTab n g.adj.f := rfl
    rw [this, e2]
    simp only
    congr 1
    unfold STab.beq
    rw [n1, n2]
    simp only [beq_self_eq_true, Bool.true_and, List.all_eq_true, List.mem_range]
    intro i hi
    have a := r1 i hi
    have b := r2 i hi
    unfold PRow.beqOn
    simp only [Bool.and_eq_true, List.all_eq_true, List.mem_range, beq_iff_eq]
    refine ⟨⟨fun j hj => ?_, ?_⟩, trivial⟩
    · rw [(a.1 j hj).1, (a.1 j hj).2, (b.1 j hj).1, (b.1 j hj).2]
      refine ⟨rfl, ?_⟩
      show (decide (j < n) && A i j) = (decide (j < n) && g.adj.f i j)
      rw [ga i j hi hj]
    · rw [a.2.1, b.2.1]; rfl
  rw [hs]

end Graphiq
