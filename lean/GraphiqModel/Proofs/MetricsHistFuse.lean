/-
  MetricsHistFuse.lean — `group_one_qubit_gates` on the wire sequences AS WIRED (C18/C12): on every circuit satisfying DagInv
  whose operations are graphiq-constructed, the operation sequence of every wire after the call — with the classical wiring of
  every operation — is `fuseWire` of what it was.  (Proofs/FuseLoop.lean proves this for the operations held by the nodes; here the
  classical threading of the persisting nodes is shown to be unchanged, through a tagged version of the fuse scan.)
-/
import GraphiqModel.Proofs.MetricsHistIso
import GraphiqModel.Proofs.FuseLoop
set_option linter.unusedSectionVars false
set_option linter.unusedSimpArgs false
namespace Graphiq
namespace Metrics
open Dag Relation

/-! ## a tagged fuse scan -/

/-- `fuseFwd` on operations tagged with their node: wrappers are untagged, the other operations keep their tag -/
def fuseFwdT {τ : Type} (r : Reg) : List Op → List (τ × Op) → List (Option τ × Op)
  | run, [] => (fuseRun r run).map (fun o => (none, o))
  | run, p :: t =>
    if gOp p.2 then fuseFwdT r (run ++ [p.2]) t
    else (fuseRun r run).map (fun o => (none, o)) ++ (some p.1, p.2) :: fuseFwdT r [] t

theorem map_snd_untagged {τ : Type} (l : List Op) : (l.map (fun o => ((none : Option τ), o))).map (·.2) = l := by
  induction l with
  | nil => rfl
  | cons a t ih => simp only [List.map_cons, ih]

theorem map_rewire_untagged {τ : Type} (w : τ → Op → Op) (l : List Op) :
    (l.map (fun o => ((none : Option τ), o))).map (fun b => match b.1 with | some a => w a b.2 | none => b.2) = l := by
  induction l with
  | nil => rfl
  | cons a t ih => simp only [List.map_cons, ih]

theorem fuseFwdT_snd {τ : Type} (r : Reg) (l : List (τ × Op)) : ∀ run, (fuseFwdT r run l).map (·.2) = fuseFwd r run (l.map (·.2)) := by
  induction l with
  | nil => intro run; simp only [fuseFwdT, fuseFwd, List.map_nil]; exact map_snd_untagged _
  | cons p t ih =>
    intro run
    unfold fuseFwdT
    rw [List.map_cons]
    unfold fuseFwd
    by_cases hg : gOp p.2 = true
    · rw [if_pos hg, if_pos hg]; exact ih _
    · rw [if_neg hg, if_neg hg, List.map_append, List.map_cons, map_snd_untagged, ih]

theorem fuseFwdT_tags {τ : Type} (r : Reg) (l : List (τ × Op)) :
    ∀ run, (fuseFwdT r run l).filterMap (·.1) = (l.filter (fun p => !gOp p.2)).map (·.1) := by
  induction l with
  | nil => intro run; simp [fuseFwdT, List.filterMap_map, Function.comp]
  | cons p t ih =>
    intro run
    unfold fuseFwdT
    by_cases hg : gOp p.2 = true
    · rw [if_pos hg, List.filter_cons_of_neg (by simp [hg])]; exact ih _
    · rw [if_neg hg, List.filter_cons_of_pos (by simpa using hg)]
      simp [List.filterMap_append, List.filterMap_map, Function.comp, ih]

theorem gOp_of_mem_fuseRun {r : Reg} {run : List Op} {o : Op} (h : o ∈ fuseRun r run) : gOp o = true ∧ o.cregs = [] := by
  unfold fuseRun flushK at h
  by_cases hk : runKinds run = []
  · rw [if_pos hk] at h; simp at h
  · rw [if_neg hk] at h
    simp at h; subst h
    exact ⟨gOp_wrapperOn r _, rfl⟩

/-- untagged entries are wrappers (groupable, no classical register); tagged entries are the non-groupable inputs -/
theorem fuseFwdT_entries {τ : Type} (r : Reg) (l : List (τ × Op)) : ∀ run, ∀ b ∈ fuseFwdT r run l,
    (b.1 = none → gOp b.2 = true ∧ b.2.cregs = []) ∧ (∀ a, b.1 = some a → gOp b.2 = false ∧ (a, b.2) ∈ l) := by
  induction l with
  | nil =>
    intro run b hb
    simp only [fuseFwdT, List.mem_map] at hb
    obtain ⟨o, ho, rfl⟩ := hb
    exact ⟨fun _ => gOp_of_mem_fuseRun ho, fun a h => by simp at h⟩
  | cons p t ih =>
    intro run b hb
    unfold fuseFwdT at hb
    by_cases hg : gOp p.2 = true
    · rw [if_pos hg] at hb
      obtain ⟨h1, h2⟩ := ih _ b hb
      exact ⟨h1, fun a ha => ⟨(h2 a ha).1, List.mem_cons_of_mem _ (h2 a ha).2⟩⟩
    · rw [if_neg hg] at hb
      rcases List.mem_append.mp hb with hb | hb
      · obtain ⟨o, ho, rfl⟩ := List.mem_map.mp hb
        exact ⟨fun _ => gOp_of_mem_fuseRun ho, fun a h => by simp at h⟩
      · rcases List.mem_cons.mp hb with rfl | hb
        · exact ⟨fun h => by simp at h, fun a ha => by
            simp only [Option.some.injEq] at ha; subst ha
            exact ⟨by simpa using hg, by simp⟩⟩
        · obtain ⟨h1, h2⟩ := ih _ b hb
          exact ⟨h1, fun a ha => ⟨(h2 a ha).1, List.mem_cons_of_mem _ (h2 a ha).2⟩⟩

/-- re-wiring the tagged entries of the output = fusing the re-wired input, when re-wiring does not touch groupable operations -/
theorem fuseFwd_rewire {τ : Type} (r : Reg) (w : τ → Op → Op) (hw : ∀ a o, gOp (w a o) = gOp o) (l : List (τ × Op))
    (hl : ∀ p ∈ l, gOp p.2 = true → w p.1 p.2 = p.2) :
    ∀ run, fuseFwd r run (l.map (fun p => w p.1 p.2)) =
      (fuseFwdT r run l).map (fun b => match b.1 with | some a => w a b.2 | none => b.2) := by
  induction l with
  | nil => intro run; simp only [fuseFwdT, fuseFwd, List.map_nil]; exact (map_rewire_untagged w _).symm
  | cons p t ih =>
    intro run
    have iht := ih (fun q hq => hl q (List.mem_cons_of_mem _ hq))
    rw [List.map_cons]
    unfold fuseFwd fuseFwdT
    by_cases hg : gOp p.2 = true
    · rw [if_pos hg, if_pos (by rw [hw]; exact hg), hl p (by simp) hg]
      exact iht _
    · rw [if_neg hg, if_neg (by rw [hw]; exact hg), List.map_append, List.map_cons, map_rewire_untagged, iht]

/-- positions: if a list of nodes `A` carries the operations of the tagged list `B`, and the non-groupable nodes of `A` are, in
    order, the tags of `B`, then re-wiring `A` node by node is re-wiring `B` tag by tag -/
theorem retag {τ : Type} (U : τ → Op) (w : τ → Op → Op) : ∀ (A : List τ) (B : List (Option τ × Op)),
    A.map U = B.map (·.2) → A.filter (fun a => !gOp (U a)) = B.filterMap (·.1) →
    (∀ b ∈ B, (b.1 = none → gOp b.2 = true) ∧ (∀ a, b.1 = some a → gOp b.2 = false)) →
    (∀ a ∈ A, gOp (U a) = true → w a (U a) = U a) →
    A.map (fun a => w a (U a)) = B.map (fun b => match b.1 with | some a => w a b.2 | none => b.2) := by
  intro A
  induction A with
  | nil =>
    intro B h1 _ _ _
    have : B = [] := by simpa using h1.symm
    subst this; rfl
  | cons a A' ih =>
    intro B h1 h2 h3 h4
    cases B with
    | nil => simp at h1
    | cons b B' =>
      rw [List.map_cons, List.map_cons] at h1
      injection h1 with hab h1'
      have h3' := fun b' hb' => h3 b' (List.mem_cons_of_mem _ hb')
      have h4' := fun a' ha' => h4 a' (List.mem_cons_of_mem _ ha')
      obtain ⟨hb_none, hb_some⟩ := h3 b (by simp)
      rw [List.map_cons, List.map_cons]
      by_cases hg : gOp (U a) = true
      · have hbn : b.1 = none := by
          cases hb1 : b.1 with
          | none => rfl
          | some a' => have := hb_some a' hb1; rw [← hab, hg] at this; cases this
        rw [List.filter_cons_of_neg (by simp [hg]), List.filterMap_cons, hbn] at h2
        simp only at h2
        rw [ih B' h1' h2 h3' h4', hbn, h4 a (by simp) hg, hab]
      · cases hb1 : b.1 with
        | none => have := hb_none hb1; rw [← hab] at this; exact absurd this hg
        | some a' =>
          rw [List.filter_cons_of_pos (by simpa using hg), List.filterMap_cons, hb1] at h2
          simp only at h2
          injection h2 with ha h2'
          rw [ih B' h1' h2' h3' h4', ← ha, hab]

/-! ## wires as lists of operation nodes with their operations -/

/-- the operation of a node (default for an absent node) -/
def opD (c : Dag) (n : NodeId) : Op := (c.opOf? n).getD default

theorem wire_mid {c : Dag} {P : Paths} (g : Good c P) {r : Reg} (hl : c.live r) :
    ∃ mid, P r = NodeId.inp r :: (mid ++ [NodeId.out r]) ∧ mid.Nodup ∧
      ∀ n ∈ mid, ∃ i, n = NodeId.op i ∧ (NodeId.op i, opD c n) ∈ c.nodes := by
  obtain ⟨mid, hP, hmid⟩ := g.inv.shape r hl
  have hnd := g.inv.nodup r
  rw [hP] at hnd
  refine ⟨mid, hP, (List.nodup_append.mp (List.nodup_cons.mp hnd).2).1, ?_⟩
  intro n hn
  obtain ⟨i, rfl⟩ := hmid n hn
  obtain ⟨o, ho⟩ := mem_nodeIds.mp (g.inv.mem_nodes r (NodeId.op i)
    (by rw [hP]; exact List.mem_cons_of_mem _ (List.mem_append.mpr (Or.inl hn))))
  refine ⟨i, rfl, ?_⟩
  unfold opD
  rw [(opOf_eq_some g.inv.ids_nodup).mpr ho]
  exact ho

theorem wireOps_of_mid {c : Dag} {r : Reg} {mid : List NodeId} (hmid : ∀ n ∈ mid, ∃ i, n = NodeId.op i ∧ (NodeId.op i, opD c n) ∈ c.nodes)
    (hnd : c.nodeIds.Nodup) : wireOps c (NodeId.inp r :: (mid ++ [NodeId.out r])) = mid.map (opD c) := by
  unfold wireOps
  simp only [List.filterMap_cons, List.filterMap_append, List.filterMap_nil, List.append_nil]
  induction mid with
  | nil => rfl
  | cons n t ih =>
    obtain ⟨i, hn, hm⟩ := hmid n (by simp)
    subst hn
    rw [List.filterMap_cons, List.map_cons]
    simp only
    have ho := (opOf_eq_some hnd).mpr hm
    rw [ho]
    simp only
    rw [ih (fun x hx => hmid x (List.mem_cons_of_mem _ hx))]

theorem wiredWire_of_mid {c : Dag} {P : Paths} {r : Reg} {mid : List NodeId} (hP : P r = NodeId.inp r :: (mid ++ [NodeId.out r]))
    (hmid : ∀ n ∈ mid, ∃ i, n = NodeId.op i ∧ (NodeId.op i, opD c n) ∈ c.nodes) (hnd : c.nodeIds.Nodup) :
    wiredWire c P r = mid.map (fun n => wiredOp P n (opD c n)) := by
  unfold wiredWire
  rw [hP]
  simp only [List.filterMap_cons, List.filterMap_append, List.filterMap_nil, List.append_nil]
  clear hP
  induction mid with
  | nil => rfl
  | cons n t ih =>
    obtain ⟨i, hn, hm⟩ := hmid n (by simp)
    subst hn
    rw [List.filterMap_cons, List.map_cons]
    simp only
    have ho := (opOf_eq_some hnd).mpr hm
    rw [ho]
    simp only [Option.map_some]
    rw [ih (fun x hx => hmid x (List.mem_cons_of_mem _ hx))]

theorem fuseWire_of_all_ng (r : Reg) (l : List Op) (h : ∀ o ∈ l, gOp o = false) : fuseWire r l = l := by
  induction l with
  | nil => rfl
  | cons o t ih =>
    rw [fuseWire_cons_ng r (h o (by simp)), ih (fun x hx => h x (List.mem_cons_of_mem _ hx))]

theorem sublist_of_cons_snoc {α : Type} {a b : α} {X Y : List α} (h : (a :: (X ++ [b])).Sublist (a :: (Y ++ [b]))) : X.Sublist Y := by
  have h1 : (X ++ [b]).Sublist (Y ++ [b]) := List.cons_sublist_cons.mp h
  have h2 := List.reverse_sublist.mpr h1
  simp only [List.reverse_append, List.reverse_cons, List.reverse_nil, List.nil_append, List.singleton_append] at h2
  exact List.reverse_sublist.mp (List.cons_sublist_cons.mp h2)

theorem length_tagged_eq {τ : Type} (B : List (Option τ × Op))
    (h : ∀ b ∈ B, (b.1 = none → gOp b.2 = true) ∧ (∀ a, b.1 = some a → gOp b.2 = false)) :
    (B.filter (fun b => !gOp b.2)).length = (B.filterMap (·.1)).length := by
  induction B with
  | nil => rfl
  | cons b t ih =>
    have iht := ih (fun x hx => h x (List.mem_cons_of_mem _ hx))
    obtain ⟨h1, h2⟩ := h b (by simp)
    cases hb : b.1 with
    | none =>
      rw [List.filter_cons_of_neg (by simp [h1 hb]), List.filterMap_cons, hb]
      exact iht
    | some a =>
      rw [List.filter_cons_of_pos (by simp [h2 a hb]), List.filterMap_cons, hb]
      simp only [List.length_cons, iht]

/-! ## `group_one_qubit_gates` on the wire sequences as wired -/

/-- **`group_one_qubit_gates` = fuse of runs on every wire, classical wiring included**: the operation sequence of every wire —
    each operation with the classical registers it is threaded on — becomes `fuseWire` of what it was -/
theorem groupOneQubitGates_wiredWire {c : Dag} {P : Paths} (g : Good c P) (hh : GroupHyp c) :
    c.groupOneQubitGates.2 = none ∧ ∃ P', Good c.groupOneQubitGates.1 P' ∧ GroupHyp c.groupOneQubitGates.1 ∧
      c.groupOneQubitGates.1.regs = c.regs ∧
      ∀ r, wiredWire c.groupOneQubitGates.1 P' r = fuseWire r (wiredWire c P r) := by
  obtain ⟨e, P', g', hh', hw, hsub, hkeep⟩ := groupOneQubitGates_wires g hh
  obtain ⟨_, _, hregs⟩ := groupOneQubitGates_good g
  refine ⟨e, P', g', hh', hregs, ?_⟩
  generalize hc' : c.groupOneQubitGates.1 = c' at g' hh' hw hsub hkeep hregs
  have hlive : ∀ r, c'.live r ↔ c.live r := fun r => live_eq_of_regs hregs r
  -- non-groupable nodes of `c` keep their operation
  have hkeepD : ∀ x, x ∈ c.nodeIds → c.groupable x = false → opD c' x = opD c x := by
    intro x hx hgx; unfold opD; rw [hkeep x hx hgx]
  -- the middle part of a wire before and after
  have hmidsub : ∀ r, c.live r → ∀ mid mid', P r = NodeId.inp r :: (mid ++ [NodeId.out r]) →
      P' r = NodeId.inp r :: (mid' ++ [NodeId.out r]) → (mid.filter (ng c)).Sublist mid' := by
    intro r hl mid mid' hP hP'
    have h1 := hsub r
    rw [hP, hP', List.filter_cons_of_pos (by simp [ng, groupable_inp g.inv]), List.filter_append,
      List.filter_cons_of_pos (by simp [ng, groupable_out g.inv]), List.filter_nil] at h1
    exact sublist_of_cons_snoc h1
  -- classical wires are unchanged
  have hclass : ∀ j, P' ⟨.c, j⟩ = P ⟨.c, j⟩ := by
    intro j
    by_cases hl : c.live ⟨.c, j⟩
    · obtain ⟨mid, hP, hndm, hmid⟩ := wire_mid g hl
      obtain ⟨mid', hP', hndm', hmid'⟩ := wire_mid g' ((hlive _).mpr hl)
      have hng : ∀ n ∈ mid, ng c n = true := by
        intro n hn
        obtain ⟨i, rfl, hm⟩ := hmid n hn
        have hmem : NodeId.op i ∈ P ⟨.c, j⟩ := by rw [hP]; exact List.mem_cons_of_mem _ (List.mem_append.mpr (Or.inl hn))
        have hj := g.mem.mem_c i _ hm j hmem
        have : gOp (opD c (.op i)) = false := by
          cases hgo : gOp (opD c (.op i)) with
          | false => rfl
          | true => have := (hh.shape i _ hm hgo).2; rw [this] at hj; simp at hj
        simp [ng, groupable_op g.inv hm, this]
      have hfilt : mid.filter (ng c) = mid := List.filter_eq_self.mpr hng
      have hs := hmidsub _ hl mid mid' hP hP'
      rw [hfilt] at hs
      have hops := hw ⟨.c, j⟩
      rw [hP, hP', wireOps_of_mid hmid g.inv.ids_nodup, wireOps_of_mid hmid' g'.inv.ids_nodup] at hops
      have hall : ∀ o ∈ mid.map (opD c), gOp o = false := by
        intro o ho
        obtain ⟨n, hn, rfl⟩ := List.mem_map.mp ho
        obtain ⟨i, rfl, hm⟩ := hmid n hn
        have := hng _ hn
        simpa [ng, groupable_op g.inv hm] using this
      rw [fuseWire_of_all_ng _ _ hall] at hops
      have hlen : mid'.length = mid.length := by
        have := congrArg List.length hops
        simpa using this
      have := hs.eq_of_length hlen.symm
      rw [hP, hP', this]
    · rw [g.inv.dead _ hl, g'.inv.dead _ (fun h => hl ((hlive _).mp h))]
  have hwire : ∀ n o, wiredOp P' n o = wiredOp P n o := by
    intro n o
    apply wiredOp_congr
    intro j _
    rw [hclass j]
  intro r
  by_cases hl : c.live r
  · obtain ⟨mid, hP, hndm, hmid⟩ := wire_mid g hl
    obtain ⟨mid', hP', hndm', hmid'⟩ := wire_mid g' ((hlive _).mpr hl)
    rw [wiredWire_of_mid hP hmid g.inv.ids_nodup, wiredWire_of_mid hP' hmid' g'.inv.ids_nodup]
    -- tagged input and its fuse
    let T : List (NodeId × Op) := mid.map (fun n => (n, opD c n))
    have hTsnd : T.map (·.2) = mid.map (opD c) := by simp [T, List.map_map, Function.comp]
    have hops := hw r
    rw [hP, hP', wireOps_of_mid hmid g.inv.ids_nodup, wireOps_of_mid hmid' g'.inv.ids_nodup] at hops
    have hentries := fuseFwdT_entries r T []
    have h1 : mid'.map (opD c') = (fuseFwdT r [] T).map (·.2) := by
      rw [fuseFwdT_snd, hTsnd]; exact hops
    have h3 : ∀ b ∈ fuseFwdT r [] T, (b.1 = none → gOp b.2 = true) ∧ (∀ a, b.1 = some a → gOp b.2 = false) :=
      fun b hb => ⟨fun h => ((hentries b hb).1 h).1, fun a h => ((hentries b hb).2 a h).1⟩
    -- the non-groupable nodes of the wire persist, in order
    have hK : mid.filter (ng c) = (T.filter (fun p => !gOp p.2)).map (·.1) := by
      simp only [T, List.filter_map, List.map_map]
      have hid : ((fun x : NodeId × Op => x.1) ∘ fun n => (n, opD c n)) = id := rfl
      rw [hid, List.map_id]
      apply List.filter_congr
      intro n hn
      obtain ⟨i, rfl, hm⟩ := hmid n hn
      simp [ng, groupable_op g.inv hm]
    have hKsub : (mid.filter (ng c)).Sublist (mid'.filter (fun a => !gOp (opD c' a))) := by
      have hs := hmidsub r hl mid mid' hP hP'
      have := hs.filter (fun a => !gOp (opD c' a))
      rwa [List.filter_eq_self.mpr] at this
      intro n hn
      obtain ⟨hn1, hn2⟩ := List.mem_filter.mp hn
      obtain ⟨i, rfl, hm⟩ := hmid n hn1
      have hgx : c.groupable (.op i) = false := by simpa [ng] using hn2
      rw [hkeepD _ (mem_nodeIds.mpr ⟨_, hm⟩) hgx]
      rw [groupable_op g.inv hm] at hgx
      simp [hgx]
    have hlenK : (mid'.filter (fun a => !gOp (opD c' a))).length = (mid.filter (ng c)).length := by
      have e1 : (mid'.filter (fun a => !gOp (opD c' a))).length = ((mid'.map (opD c')).filter (fun o => !gOp o)).length := by
        rw [List.filter_map, List.length_map]; rfl
      have e2 : ((fuseFwdT r [] T).map (·.2)).filter (fun o => !gOp o) =
          ((fuseFwdT r [] T).filter (fun b => !gOp b.2)).map (·.2) := by
        rw [List.filter_map]; rfl
      rw [e1, h1, e2, List.length_map, length_tagged_eq _ h3, fuseFwdT_tags, ← hK]
    have h2 : mid'.filter (fun a => !gOp (opD c' a)) = (fuseFwdT r [] T).filterMap (·.1) := by
      rw [fuseFwdT_tags, ← hK]
      exact (hKsub.eq_of_length hlenK.symm).symm
    have h4 : ∀ a ∈ mid', gOp (opD c' a) = true → wiredOp P a (opD c' a) = opD c' a := by
      intro a ha hga
      obtain ⟨i, rfl, hm⟩ := hmid' a ha
      exact wiredOp_of_cregs_nil (hh'.shape i _ hm hga).2
    have hTw : ∀ p ∈ T, gOp p.2 = true → wiredOp P p.1 p.2 = p.2 := by
      intro p hp hgp
      obtain ⟨n, hn, rfl⟩ := List.mem_map.mp hp
      obtain ⟨i, rfl, hm⟩ := hmid n hn
      exact wiredOp_of_cregs_nil (hh.shape i _ hm hgp).2
    have hretag := retag (opD c') (fun a o => wiredOp P a o) mid' (fuseFwdT r [] T) h1 h2 h3 h4
    have hrew := fuseFwd_rewire r (fun a o => wiredOp P a o) (fun a o => rfl) T hTw []
    have hmapT : T.map (fun p => wiredOp P p.1 p.2) = mid.map (fun n => wiredOp P n (opD c n)) := by
      simp [T, List.map_map, Function.comp]
    have : mid'.map (fun n => wiredOp P' n (opD c' n)) = mid'.map (fun a => wiredOp P a (opD c' a)) := by
      apply List.map_congr_left; intro n _; exact hwire n _
    rw [this, hretag, ← hrew, hmapT]
    rfl
  · have hl' : ¬ c'.live r := fun h => hl ((hlive r).mp h)
    unfold wiredWire
    rw [g.inv.dead r hl, g'.inv.dead r hl']
    rfl

end Metrics
end Graphiq
