/-
  Proofs/CompareRepairNorm.lean — `unwrap_nodes` and `remove_identity` (the normalisation `remove_redundant_circuits` applies
  before comparing) keep the register-path invariant; on every register the operations met along the path become the
  flattened operations (`flat`: wrappers expanded in application order, identities dropped).
-/
import GraphiqModel.Proofs.CompareRepairSound
namespace Graphiq.Compare
open Graphiq Graphiq.Export

/-! ## lists -/

theorem nodup_split_unique (l : List Nd) (hn : l.Nodup) (p : Nd) :
    ∀ (a1 a2 c1 c2 : List Nd), l = a1 ++ p :: a2 → l = c1 ++ p :: c2 → a1 = c1 ∧ a2 = c2 := by
  intro a1
  induction a1 generalizing l with
  | nil =>
    intro a2 c1 c2 h1 h2
    cases c1 with
    | nil => rw [h1] at h2; simp only [List.nil_append, List.cons.injEq, true_and] at h2; exact ⟨rfl, h2⟩
    | cons y c1' =>
      exfalso
      rw [h1] at h2 hn
      simp only [List.nil_append, List.cons_append, List.cons.injEq] at h2
      have : p ∈ a2 := by rw [h2.2]; simp
      exact (List.nodup_cons.1 hn).1 this
  | cons x a1' ih =>
    intro a2 c1 c2 h1 h2
    cases c1 with
    | nil =>
      exfalso
      rw [h2] at h1 hn
      simp only [List.nil_append, List.cons_append, List.cons.injEq] at h1
      have : p ∈ c2 := by rw [h1.2]; simp
      exact (List.nodup_cons.1 hn).1 this
    | cons y c1' =>
      rw [h1] at h2 hn
      simp only [List.cons_append, List.cons.injEq] at h2
      obtain ⟨rfl, h2⟩ := h2
      obtain ⟨e1, e2⟩ := ih (a1' ++ p :: a2) (List.nodup_cons.1 hn).2 a2 c1' c2 rfl h2
      exact ⟨by rw [e1], e2⟩

/-! ## the invariant carried through the normalisation -/

structure NInv (W : List Wire) (g : MG) (body : Wire → List Nd) : Prop where
  rep : Rep0 g W body
  onPath : ∀ n o, g.opOf n = some (.gate o) → ∀ w' ∈ opWires o, w' ∈ W ∧ n ∈ body w'
  names : (g.nodes.map (·.1)).Nodup
  ids : ∀ n ∈ g.nodes.map (·.1), ∀ k, n = .op k → k ≤ g.nodeId

theorem insertAt_eq (g : MG) (o : Op) (e : Edge) :
    g.insertAt o e = (g.addNode (g.nodeId + 1) (.gate o)).splice e (.op (g.nodeId + 1)) := rfl

theorem gateAt_congr (g g' : MG) (n : Nd) (h : g'.opOf n = g.opOf n) : gateAt g' n = gateAt g n := by
  unfold gateAt; rw [h]

/-- **`insert_at` on the in-edge of node `p`** puts the new one-register node right before `p` on the path of its register -/
theorem NInv.insertBefore {W : List Wire} {g : MG} {body : Wire → List Nd} (h : NInv W g body) (p : Nd) (wq : Wire)
    (hwq : wq ∈ W) (b1 b2 : List Nd) (hb : body wq = b1 ++ p :: b2) (o : Op) (ho : opWires o = [wq]) (e : Edge)
    (he : g.inEdge p wq = some e) :
    NInv W (g.insertAt o e) (upd body wq (b1 ++ Nd.op (g.nodeId + 1) :: p :: b2)) ∧
    (∀ m, m ∈ g.nodes.map (·.1) → (g.insertAt o e).opOf m = g.opOf m) ∧
    (g.insertAt o e).opOf (.op (g.nodeId + 1)) = some (.gate o) ∧
    (g.insertAt o e).nodes = g.nodes ++ [(.op (g.nodeId + 1), .gate o)] := by
  obtain ⟨hem, hed, hek⟩ := inEdge_some g p wq e he
  have hfreshN : Nd.op (g.nodeId + 1) ∉ g.nodes.map (·.1) := by
    intro hm
    have := h.ids _ hm (g.nodeId + 1) rfl
    omega
  have hon : (opWires o).Nodup := by rw [ho]; simp
  have r1 : Rep0 (g.addNode (g.nodeId + 1) (.gate o)) W body := h.rep.addNode _ o hon
  have hxo : (g.addNode (g.nodeId + 1) (.gate o)).opOf (.op (g.nodeId + 1)) = some (.gate o) := by
    rw [opOf_addNode, opOf_none_of_not_mem g _ hfreshN]; simp
  -- the position of the edge on the path
  obtain ⟨_, l1, l2, h12⟩ := h.rep.edge_sound0 e hem
  rw [hek, hed] at h12
  have hpath : pathOf body wq = (Nd.inp wq :: b1) ++ p :: (b2 ++ [Nd.out wq]) := by
    unfold pathOf; rw [hb]; simp
  have h12' : pathOf body wq = (l1 ++ [e.src]) ++ p :: l2 := by rw [h12]; simp
  obtain ⟨e1, e2⟩ := nodup_split_unique _ (h.rep.pathNodup wq hwq) p _ _ _ _ hpath h12'
  have hnodes : (g.insertAt o e).nodes = g.nodes ++ [(.op (g.nodeId + 1), .gate o)] := rfl
  have hfreshP : Nd.op (g.nodeId + 1) ∉ pathOf body e.key := by
    rw [hek]
    intro hm
    exact hfreshN (h.rep.path_mem_nodes wq hwq _ hm)
  have hp' : pathOf (upd body wq (b1 ++ Nd.op (g.nodeId + 1) :: p :: b2)) e.key
      = l1 ++ e.src :: Nd.op (g.nodeId + 1) :: e.dst :: l2 := by
    rw [hek, hed]
    unfold pathOf
    rw [upd_same]
    have : Nd.inp wq :: ((b1 ++ Nd.op (g.nodeId + 1) :: p :: b2) ++ [Nd.out wq])
        = (Nd.inp wq :: b1) ++ Nd.op (g.nodeId + 1) :: p :: (b2 ++ [Nd.out wq]) := by simp
    rw [this, e1, e2]
    simp
  have r' : Rep0 (g.insertAt o e) W (upd body wq (b1 ++ Nd.op (g.nodeId + 1) :: p :: b2)) := by
    rw [insertAt_eq]
    exact r1.splice e hem (g.nodeId + 1) o hxo (by rw [hek, ho]; simp) hfreshP l1 l2 (by rw [hek, hed]; exact h12) _ hp'
      (fun w' hw' => upd_other body wq w' _ (by rw [← hek]; exact hw'))
  have hold : ∀ m, m ∈ g.nodes.map (·.1) → (g.insertAt o e).opOf m = g.opOf m :=
    fun m hm => opOf_append_old g _ _ hnodes m hm
  have hnew : (g.insertAt o e).opOf (.op (g.nodeId + 1)) = some (.gate o) := hxo
  refine ⟨⟨r', ?_, ?_, ?_⟩, hold, hnew, hnodes⟩
  · intro n o' ho' w' hw'
    by_cases hmem : n ∈ g.nodes.map (·.1)
    · rw [hold n hmem] at ho'
      obtain ⟨a, b⟩ := h.onPath n o' ho' w' hw'
      refine ⟨a, ?_⟩
      by_cases hk : w' = wq
      · subst hk
        rw [upd_same]
        rw [hb] at b
        simp only [List.mem_append, List.mem_cons] at b ⊢
        tauto
      · rw [upd_other body wq w' _ hk]; exact b
    · have : (g.insertAt o e).opOf n = (if Nd.op (g.nodeId + 1) = n then some (.gate o) else none) := by
        rw [opOf_append g _ _ hnodes, opOf_none_of_not_mem g _ hmem]
        simp only [Option.none_or, List.find?_cons, List.find?_nil]
        by_cases hx : Nd.op (g.nodeId + 1) = n
        · simp [hx]
        · have : (Nd.op (g.nodeId + 1) == n) = false := by simpa using hx
          simp [this, hx]
      rw [this] at ho'
      split at ho'
      · rename_i hx
        injection ho' with ho'
        injection ho' with ho'
        subst ho' hx
        rw [ho, List.mem_singleton] at hw'
        subst hw'
        exact ⟨hwq, by rw [upd_same]; simp⟩
      · cases ho'
  · rw [hnodes, List.map_append, List.nodup_append]
    refine ⟨h.names, by simp, ?_⟩
    intro a ha b hb' hab
    simp only [List.map_cons, List.map_nil, List.mem_singleton] at hb'
    subst hab hb'
    exact hfreshN ha
  · intro n hn k hk
    have hid : (g.insertAt o e).nodeId = g.nodeId + 1 := rfl
    rw [hid]
    rw [hnodes, List.map_append, List.mem_append] at hn
    rcases hn with hn | hn
    · have := h.ids n hn k hk; omega
    · simp only [List.map_cons, List.map_nil, List.mem_singleton] at hn
      rw [hn] at hk
      injection hk with hk
      omega

/-! ## `remove_op`: the edges -/

theorem foldl_inv {α β : Type} (f : β → α → β) (I : β → Prop) :
    ∀ (l : List α) (b : β), I b → (∀ b a, a ∈ l → I b → I (f b a)) → I (l.foldl f b) := by
  intro l
  induction l with
  | nil => intro b h _; exact h
  | cons a l ih =>
    intro b h hs
    exact ih (f b a) (hs b a (by simp) h) (fun b' a' ha' => hs b' a' (List.mem_cons_of_mem _ ha'))

def newEdge (ie oe : Edge) : Edge := { src := ie.src, dst := oe.dst, key := oe.key }

def addNew (ie : Edge) (g : MG) (oe : Edge) : MG :=
  if ie.key == oe.key then { g with edges := g.edges ++ [newEdge ie oe] } else g

def rmStep (outs : List Edge) (g : MG) (ie : Edge) : MG := (outs.foldl (addNew ie) g).removeEdge ie

def rmOut (g : MG) (oe : Edge) : MG := g.removeEdge oe

def rmEdges (g : MG) (n : Nd) : MG :=
  (g.edges.filter (fun e => e.src == n)).foldl rmOut
    ((g.edges.filter (fun e => e.dst == n)).foldl (rmStep (g.edges.filter (fun e => e.src == n))) g)

theorem removeOp_eq (g : MG) (n : Nd) :
    g.removeOp n = { rmEdges g n with nodes := (rmEdges g n).nodes.filter (fun p => p.1 != n) } := rfl

theorem mem_removeEdge (g : MG) (x e' : Edge) :
    e' ∈ (g.removeEdge x).edges ↔ e' ∈ g.edges ∧ ¬(e'.src = x.src ∧ e'.dst = x.dst ∧ e'.key = x.key) := by
  unfold MG.removeEdge
  simp only [List.mem_filter, Bool.not_eq_true', Bool.and_eq_false_iff, beq_eq_false_iff_ne, ne_eq]
  constructor
  · rintro ⟨h1, h2⟩
    refine ⟨h1, ?_⟩
    rintro ⟨a, b, c⟩
    rcases h2 with (h | h) | h
    · exact h a
    · exact h b
    · exact h c
  · rintro ⟨h1, h2⟩
    refine ⟨h1, ?_⟩
    by_cases a : e'.src = x.src
    · by_cases b : e'.dst = x.dst
      · right; intro c; exact h2 ⟨a, b, c⟩
      · left; right; exact b
    · left; left; exact a

theorem mem_addNew (ie : Edge) (g : MG) (oe e' : Edge) :
    e' ∈ (addNew ie g oe).edges ↔ e' ∈ g.edges ∨ (ie.key = oe.key ∧ e' = newEdge ie oe) := by
  unfold addNew
  by_cases h : ie.key = oe.key
  · simp [h]
  · have : (ie.key == oe.key) = false := by simpa using h
    simp [this, h]

theorem nodes_addNew (ie : Edge) (g : MG) (oe : Edge) : (addNew ie g oe).nodes = g.nodes := by
  unfold addNew; split <;> rfl

/-- what `remove_op` does to the edges of a node without self-loop -/
structure RmSpec (g : MG) (n : Nd) (g' : MG) : Prop where
  nodes : g'.nodes = g.nodes
  sound : ∀ e' ∈ g'.edges, (e' ∈ g.edges ∧ e'.src ≠ n ∧ e'.dst ≠ n) ∨
    ∃ ie ∈ g.edges, ∃ oe ∈ g.edges, ie.dst = n ∧ oe.src = n ∧ ie.key = oe.key ∧ e' = newEdge ie oe
  keep : ∀ e' ∈ g.edges, e'.src ≠ n → e'.dst ≠ n → e' ∈ g'.edges
  new : ∀ ie ∈ g.edges, ∀ oe ∈ g.edges, ie.dst = n → oe.src = n → ie.key = oe.key → newEdge ie oe ∈ g'.edges

theorem rmEdges_spec (g : MG) (n : Nd) (hloop : ∀ e ∈ g.edges, ¬(e.src = n ∧ e.dst = n)) : RmSpec g n (rmEdges g n) := by
  have hins : ∀ e, e ∈ g.edges.filter (fun e => e.dst == n) ↔ e ∈ g.edges ∧ e.dst = n := by
    intro e; simp [List.mem_filter]
  have houts : ∀ e, e ∈ g.edges.filter (fun e => e.src == n) ↔ e ∈ g.edges ∧ e.src = n := by
    intro e; simp [List.mem_filter]
  generalize hI : g.edges.filter (fun e => e.dst == n) = ins at hins
  generalize hO : g.edges.filter (fun e => e.src == n) = outs at houts
  have hdef : rmEdges g n = outs.foldl rmOut (ins.foldl (rmStep outs) g) := by
    unfold rmEdges; rw [hI, hO]
  rw [hdef]
  have hrmOut : ∀ (b : MG) (a e' : Edge), e' ∈ (rmOut b a).edges → e' ∈ b.edges :=
    fun b a e' he' => ((mem_removeEdge b a e').1 he').1
  -- new edges are clean
  have hclean : ∀ ie oe, ie ∈ ins → oe ∈ outs → (newEdge ie oe).src ≠ n ∧ (newEdge ie oe).dst ≠ n := by
    intro ie oe hie hoe
    obtain ⟨a, b⟩ := (hins ie).1 hie
    obtain ⟨c, d⟩ := (houts oe).1 hoe
    exact ⟨fun h => hloop ie a ⟨h, b⟩, fun h => hloop oe c ⟨d, h⟩⟩
  -- a property of the edge set that adding new edges and removing edges preserve is preserved by a step
  have hstepP : ∀ (P : Edge → Prop), (∀ ie ∈ ins, ∀ oe ∈ outs, ie.key = oe.key → P (newEdge ie oe)) →
      ∀ (b : MG) (ie : Edge), ie ∈ ins → (∀ e' ∈ b.edges, P e') → ∀ e' ∈ (rmStep outs b ie).edges, P e' := by
    intro P hP b ie hie hb e' he'
    unfold rmStep at he'
    have he'' := ((mem_removeEdge _ ie e').1 he').1
    refine foldl_inv (addNew ie) (fun g' : MG => ∀ e' ∈ g'.edges, P e') outs b hb ?_ e' he''
    intro b' oe hoe hb' e' he'
    rcases (mem_addNew ie b' oe e').1 he' with h | ⟨hk, h⟩
    · exact hb' e' h
    · rw [h]; exact hP ie hie oe hoe hk
  refine ⟨?_, ?_, ?_, ?_⟩
  · -- nodes
    refine foldl_inv rmOut (fun g' : MG => g'.nodes = g.nodes) outs _ ?_ (fun b a _ hb => hb)
    refine foldl_inv (rmStep outs) (fun g' : MG => g'.nodes = g.nodes) ins g rfl ?_
    intro b a _ hb
    show (List.foldl (addNew a) b outs).nodes = g.nodes
    refine foldl_inv (addNew a) (fun g' : MG => g'.nodes = g.nodes) outs b hb ?_
    intro b' a' _ hb'
    rw [nodes_addNew]; exact hb'
  · -- every remaining edge is an old clean edge or a new edge
    have hA1 : ∀ e' ∈ (outs.foldl rmOut (ins.foldl (rmStep outs) g)).edges,
        e' ∈ g.edges ∨ ∃ ie ∈ ins, ∃ oe ∈ outs, ie.key = oe.key ∧ e' = newEdge ie oe := by
      refine foldl_inv rmOut
        (fun g' : MG => ∀ e' ∈ g'.edges, e' ∈ g.edges ∨ ∃ ie ∈ ins, ∃ oe ∈ outs, ie.key = oe.key ∧ e' = newEdge ie oe)
        outs _ ?_ (fun b a _ hb e' he' => hb e' (hrmOut b a e' he'))
      refine foldl_inv (rmStep outs)
        (fun g' : MG => ∀ e' ∈ g'.edges, e' ∈ g.edges ∨ ∃ ie ∈ ins, ∃ oe ∈ outs, ie.key = oe.key ∧ e' = newEdge ie oe)
        ins g (fun e' he' => Or.inl he') ?_
      intro b ie hie hb
      exact hstepP (fun e' => e' ∈ g.edges ∨ ∃ ie ∈ ins, ∃ oe ∈ outs, ie.key = oe.key ∧ e' = newEdge ie oe)
        (fun ie hie oe hoe hk => Or.inr ⟨ie, hie, oe, hoe, hk, rfl⟩) b ie hie hb
    -- an unclean old edge does not survive
    have hA2 : ∀ x ∈ g.edges, (x.dst = n ∨ x.src = n) →
        ∀ e' ∈ (outs.foldl rmOut (ins.foldl (rmStep outs) g)).edges,
          ¬(e'.src = x.src ∧ e'.dst = x.dst ∧ e'.key = x.key) := by
      intro x hx hxn
      have hnewP : ∀ ie ∈ ins, ∀ oe ∈ outs, ie.key = oe.key →
          ¬((newEdge ie oe).src = x.src ∧ (newEdge ie oe).dst = x.dst ∧ (newEdge ie oe).key = x.key) := by
        intro ie hie oe hoe _
        rintro ⟨h1, h2, _⟩
        rcases hxn with hxd | hxs
        · exact (hclean ie oe hie hoe).2 (h2.trans hxd)
        · exact (hclean ie oe hie hoe).1 (h1.trans hxs)
      rcases hxn with hxd | hxs
      · -- `x` is an in-edge: removed in its own step, never re-created
        have hxi : x ∈ ins := (hins x).2 ⟨hx, hxd⟩
        obtain ⟨l1, l2, hl⟩ := List.append_of_mem hxi
        refine foldl_inv rmOut
          (fun g' : MG => ∀ e' ∈ g'.edges, ¬(e'.src = x.src ∧ e'.dst = x.dst ∧ e'.key = x.key))
          outs _ ?_ (fun b a _ hb e' he' => hb e' (hrmOut b a e' he'))
        have hfold : ins.foldl (rmStep outs) g = l2.foldl (rmStep outs) (rmStep outs (l1.foldl (rmStep outs) g) x) := by
          rw [hl, List.foldl_append, List.foldl_cons]
        rw [hfold]
        refine foldl_inv (rmStep outs)
          (fun g' : MG => ∀ e' ∈ g'.edges, ¬(e'.src = x.src ∧ e'.dst = x.dst ∧ e'.key = x.key)) l2 _ ?_ ?_
        · intro e' he'
          unfold rmStep at he'
          exact ((mem_removeEdge _ x e').1 he').2
        · intro b ie hie hb
          exact hstepP _ hnewP b ie (by rw [hl]; simp [hie]) hb
      · -- `x` is an out-edge: removed in the last loop
        have hxo : x ∈ outs := (houts x).2 ⟨hx, hxs⟩
        obtain ⟨l1, l2, hl⟩ := List.append_of_mem hxo
        have hfold : ∀ b : MG, outs.foldl rmOut b = l2.foldl rmOut (rmOut (l1.foldl rmOut b) x) := by
          intro b; rw [hl, List.foldl_append, List.foldl_cons]
        rw [hfold]
        refine foldl_inv rmOut
          (fun g' : MG => ∀ e' ∈ g'.edges, ¬(e'.src = x.src ∧ e'.dst = x.dst ∧ e'.key = x.key))
          l2 _ ?_ (fun b a _ hb e' he' => hb e' (hrmOut b a e' he'))
        intro e' he'
        exact ((mem_removeEdge _ x e').1 he').2
    intro e' he'
    rcases hA1 e' he' with hold | ⟨ie, hie, oe, hoe, hk, hnew⟩
    · left
      refine ⟨hold, ?_, ?_⟩
      · intro hs; exact hA2 e' hold (Or.inr hs) e' he' ⟨rfl, rfl, rfl⟩
      · intro hd; exact hA2 e' hold (Or.inl hd) e' he' ⟨rfl, rfl, rfl⟩
    · right
      obtain ⟨a, b⟩ := (hins ie).1 hie
      obtain ⟨c, d⟩ := (houts oe).1 hoe
      exact ⟨ie, a, oe, c, b, d, hk, hnew⟩
  · -- clean old edges are kept
    intro e' he' hs hd
    have hkeepRm : ∀ (b : MG) (y : Edge), (y.dst = n ∨ y.src = n) → e' ∈ b.edges → e' ∈ (b.removeEdge y).edges := by
      intro b y hy hb
      refine (mem_removeEdge b y e').2 ⟨hb, ?_⟩
      rintro ⟨h1, h2, _⟩
      rcases hy with hy | hy
      · exact hd (h2.trans hy)
      · exact hs (h1.trans hy)
    refine foldl_inv rmOut (fun g' : MG => e' ∈ g'.edges) outs _ ?_
      (fun b oe hoe hb => hkeepRm b oe (Or.inr ((houts oe).1 hoe).2) hb)
    refine foldl_inv (rmStep outs) (fun g' : MG => e' ∈ g'.edges) ins g he' ?_
    intro b ie hie hb
    unfold rmStep
    apply hkeepRm _ ie (Or.inl ((hins ie).1 hie).2)
    refine foldl_inv (addNew ie) (fun g' : MG => e' ∈ g'.edges) outs b hb ?_
    intro b' oe _ hb'
    exact (mem_addNew ie b' oe e').2 (Or.inl hb')
  · -- the bridging edges are there
    intro ie hie oe hoe hid hos hk
    have hie' : ie ∈ ins := (hins ie).2 ⟨hie, hid⟩
    have hoe' : oe ∈ outs := (houts oe).2 ⟨hoe, hos⟩
    obtain ⟨hc1, hc2⟩ := hclean ie oe hie' hoe'
    have hkeepRm : ∀ (b : MG) (y : Edge), (y.dst = n ∨ y.src = n) → newEdge ie oe ∈ b.edges →
        newEdge ie oe ∈ (b.removeEdge y).edges := by
      intro b y hy hb
      refine (mem_removeEdge b y _).2 ⟨hb, ?_⟩
      rintro ⟨h1, h2, _⟩
      rcases hy with hy | hy
      · exact hc2 (h2.trans hy)
      · exact hc1 (h1.trans hy)
    have hkeepAdd : ∀ (y : Edge) (l : List Edge) (b : MG), newEdge ie oe ∈ b.edges →
        newEdge ie oe ∈ (l.foldl (addNew y) b).edges := by
      intro y l b hb
      refine foldl_inv (addNew y) (fun g' : MG => newEdge ie oe ∈ g'.edges) l b hb ?_
      intro b' oe' _ hb'
      exact (mem_addNew y b' oe' _).2 (Or.inl hb')
    have hkeepStep : ∀ (b : MG) (y : Edge), y ∈ ins → newEdge ie oe ∈ b.edges → newEdge ie oe ∈ (rmStep outs b y).edges := by
      intro b y hy hb
      unfold rmStep
      exact hkeepRm _ y (Or.inl ((hins y).1 hy).2) (hkeepAdd y outs b hb)
    obtain ⟨l1, l2, hl⟩ := List.append_of_mem hie'
    obtain ⟨m1, m2, hm⟩ := List.append_of_mem hoe'
    refine foldl_inv rmOut (fun g' : MG => newEdge ie oe ∈ g'.edges) outs _ ?_
      (fun b y hy hb => hkeepRm b y (Or.inr ((houts y).1 hy).2) hb)
    have hfold : ins.foldl (rmStep outs) g = l2.foldl (rmStep outs) (rmStep outs (l1.foldl (rmStep outs) g) ie) := by
      rw [hl, List.foldl_append, List.foldl_cons]
    rw [hfold]
    refine foldl_inv (rmStep outs) (fun g' : MG => newEdge ie oe ∈ g'.edges) l2 _ ?_
      (fun b y hy hb => hkeepStep b y (by rw [hl]; simp [hy]) hb)
    -- the step of `ie` creates the edge
    unfold rmStep
    apply hkeepRm _ ie (Or.inl hid)
    have hfold2 : ∀ b : MG, outs.foldl (addNew ie) b = m2.foldl (addNew ie) (addNew ie (m1.foldl (addNew ie) b) oe) := by
      intro b; rw [hm, List.foldl_append, List.foldl_cons]
    rw [hfold2]
    apply hkeepAdd
    exact (mem_addNew ie _ oe _).2 (Or.inr ⟨hk, rfl⟩)

/-! ## `remove_op` of a one-register node -/

theorem opOf_removeNode (g g' : MG) (n : Nd) (h : g'.nodes = g.nodes.filter (fun p => p.1 != n)) (m : Nd) :
    g'.opOf m = if m = n then none else g.opOf m := by
  unfold MG.opOf
  rw [h, List.find?_filter]
  by_cases hm : m = n
  · rw [if_pos hm]
    have : g.nodes.find? (fun a => decide ((a.1 != n) = true ∧ (a.1 == m) = true)) = none := by
      rw [List.find?_eq_none]
      intro a _
      rw [hm]
      simp
    rw [this]; rfl
  · rw [if_neg hm]
    have : (fun a : Nd × NOp => decide ((a.1 != n) = true ∧ (a.1 == m) = true)) = (fun a : Nd × NOp => a.1 == m) := by
      funext a
      by_cases ha : a.1 = m
      · have hne : a.1 ≠ n := fun h' => hm (ha.symm.trans h')
        simp [ha, hm]
      · have : (a.1 == m) = false := by simpa using ha
        simp [this]
    rw [this]

theorem Rep0.no_loop {g : MG} {W : List Wire} {body : Wire → List Nd} (r : Rep0 g W body) (p : Nd) :
    ∀ e ∈ g.edges, ¬(e.src = p ∧ e.dst = p) := by
  rintro e he ⟨hs, hd⟩
  obtain ⟨hk, l1, l2, h12⟩ := r.edge_sound0 e he
  have hnd := r.pathNodup _ hk
  rw [h12, hs, hd] at hnd
  have := (List.nodup_append.1 hnd).2.1
  exact (List.nodup_cons.1 this).1 (by simp)

/-- **`remove_op` of a one-register operation node takes it out of the path of its register** -/
theorem NInv.removeOne {W : List Wire} {g : MG} {body : Wire → List Nd} (h : NInv W g body) (p : Nd) (o : Op)
    (hp : g.opOf p = some (.gate o)) (wq : Wire) (ho : opWires o = [wq]) :
    ∃ b1 b2, body wq = b1 ++ p :: b2 ∧ NInv W (g.removeOp p) (upd body wq (b1 ++ b2)) ∧
      (∀ m, (g.removeOp p).opOf m = if m = p then none else g.opOf m) ∧
      (g.removeOp p).nodes = g.nodes.filter (fun q => q.1 != p) := by
  obtain ⟨hwq, hpb⟩ := h.onPath p o hp wq (by rw [ho]; simp)
  obtain ⟨b1, b2, hb⟩ := List.append_of_mem hpb
  refine ⟨b1, b2, hb, ?_⟩
  have spec := rmEdges_spec g p (h.rep.no_loop p)
  have hnodes : (g.removeOp p).nodes = g.nodes.filter (fun q => q.1 != p) := by
    rw [removeOp_eq]; show (rmEdges g p).nodes.filter _ = _; rw [spec.nodes]
  have hedges : (g.removeOp p).edges = (rmEdges g p).edges := by rw [removeOp_eq]
  have hop : ∀ m, (g.removeOp p).opOf m = if m = p then none else g.opOf m := opOf_removeNode g _ p hnodes
  have hopne : ∀ m, m ≠ p → (g.removeOp p).opOf m = g.opOf m := fun m hm => by rw [hop m, if_neg hm]
  -- the neighbours of `p` on the path
  obtain ⟨l1, a, hl1⟩ : ∃ l1 a, Nd.inp wq :: b1 = l1 ++ [a] := by
    rcases List.eq_nil_or_concat (Nd.inp wq :: b1) with h' | ⟨l1, a, h'⟩
    · cases h'
    · exact ⟨l1, a, by rw [h', List.concat_eq_append]⟩
  obtain ⟨b, l2, hl2⟩ : ∃ b l2, b2 ++ [Nd.out wq] = b :: l2 := by
    cases hh : b2 ++ [Nd.out wq] with
    | nil => simp at hh
    | cons b l2 => exact ⟨b, l2, rfl⟩
  have hpath : pathOf body wq = l1 ++ a :: p :: b :: l2 := by
    unfold pathOf
    rw [hb]
    have : Nd.inp wq :: ((b1 ++ p :: b2) ++ [Nd.out wq]) = (Nd.inp wq :: b1) ++ p :: (b2 ++ [Nd.out wq]) := by simp
    rw [this, hl1, hl2]; simp
  have hpath' : pathOf (upd body wq (b1 ++ b2)) wq = l1 ++ a :: b :: l2 := by
    unfold pathOf
    rw [upd_same]
    have : Nd.inp wq :: ((b1 ++ b2) ++ [Nd.out wq]) = (Nd.inp wq :: b1) ++ (b2 ++ [Nd.out wq]) := by simp
    rw [this, hl1, hl2]; simp
  have hnd := h.rep.pathNodup wq hwq
  have hpother : ∀ w', w' ≠ wq → pathOf (upd body wq (b1 ++ b2)) w' = pathOf body w' := by
    intro w' hw'; unfold pathOf; rw [upd_other body wq w' _ hw']
  -- `p` lies on the path of `wq` only
  have honly : ∀ k ∈ W, p ∈ pathOf body k → k = wq := by
    intro k hk hm
    have := (h.rep.gate_on_path k hk p o hp hm).2
    rw [ho, List.mem_singleton] at this
    exact this
  have hpnot : p ∉ l1 ++ a :: b :: l2 := by
    rw [hpath] at hnd
    have hperm : (l1 ++ a :: p :: b :: l2).Perm (p :: (l1 ++ a :: b :: l2)) := by
      have e1 : l1 ++ a :: p :: b :: l2 = (l1 ++ [a]) ++ p :: (b :: l2) := by simp
      have e2 : l1 ++ a :: b :: l2 = (l1 ++ [a]) ++ (b :: l2) := by simp
      rw [e1, e2]; exact List.perm_middle
    exact (List.nodup_cons.1 (hperm.nodup_iff.1 hnd)).1
  -- in- and out-edges of `p`
  have hin : ∀ ie ∈ g.edges, ie.dst = p → ie.key = wq ∧ ie.src = a := by
    intro ie hie hd
    obtain ⟨hk, m1, m2, hm⟩ := h.rep.edge_sound0 ie hie
    have hkq : ie.key = wq := honly _ hk (by rw [hm, hd]; simp)
    rw [hkq, hd, hpath] at hm
    have e1 : l1 ++ a :: p :: b :: l2 = (l1 ++ [a]) ++ p :: (b :: l2) := by simp
    have e2 : m1 ++ ie.src :: p :: m2 = (m1 ++ [ie.src]) ++ p :: m2 := by simp
    rw [hpath] at hnd
    obtain ⟨h1, _⟩ := nodup_split_unique _ hnd p _ _ _ _ e1 (hm.trans e2)
    exact ⟨hkq, ((List.append_inj' h1 rfl).2 |> fun h' => by injection h' with h' _; exact h'.symm)⟩
  have hout : ∀ oe ∈ g.edges, oe.src = p → oe.key = wq ∧ oe.dst = b := by
    intro oe hoe hs
    obtain ⟨hk, m1, m2, hm⟩ := h.rep.edge_sound0 oe hoe
    have hkq : oe.key = wq := honly _ hk (by rw [hm, hs]; simp)
    rw [hkq, hs, hpath] at hm
    have e1 : l1 ++ a :: p :: b :: l2 = (l1 ++ [a]) ++ p :: (b :: l2) := by simp
    rw [hpath] at hnd
    obtain ⟨_, h2⟩ := nodup_split_unique _ hnd p _ _ _ _ e1 hm
    injection h2 with h2 _
    exact ⟨hkq, h2.symm⟩
  have hrep : Rep0 (g.removeOp p) W (upd body wq (b1 ++ b2)) := by
    refine ⟨?_, ?_, ?_, ?_, ?_, ?_, ?_, ?_, ?_, ?_⟩
    · intro w hw
      by_cases hk : w = wq
      · subst hk
        rw [hpath']
        rw [hpath] at hnd
        refine hnd.sublist ?_
        exact List.Sublist.append (List.Sublist.refl l1) (List.Sublist.cons_cons a (List.Sublist.cons p (List.Sublist.refl _)))
      · rw [hpother w hk]; exact h.rep.pathNodup w hw
    · intro w hw n hn
      have hnb : n ∈ body w ∧ n ≠ p := by
        by_cases hk : w = wq
        · subst hk
          rw [upd_same] at hn
          refine ⟨by rw [hb]; simp only [List.mem_append, List.mem_cons] at hn ⊢; tauto, ?_⟩
          rintro rfl
          apply hpnot
          rw [← hpath']
          exact (mem_pathOf _ _ _).2 (Or.inr (Or.inl (by rw [upd_same]; exact hn)))
        · rw [upd_other body wq w _ hk] at hn
          refine ⟨hn, ?_⟩
          rintro rfl
          exact hk (honly w hw ((mem_pathOf _ _ _).2 (Or.inr (Or.inl hn))))
      obtain ⟨id, o', h1, h2, h3⟩ := h.rep.bodyOp w hw n hnb.1
      exact ⟨id, o', h1, by rw [hopne n hnb.2]; exact h2, h3⟩
    · intro w hw
      have : Nd.inp w ≠ p := by
        intro h'; rw [← h', h.rep.inpOp w hw] at hp; cases hp
      rw [hopne _ this]; exact h.rep.inpOp w hw
    · intro w hw
      have : Nd.out w ≠ p := by
        intro h'; rw [← h', h.rep.outOp w hw] at hp; cases hp
      rw [hopne _ this]; exact h.rep.outOp w hw
    · intro n w hn
      rw [hop n] at hn
      split at hn
      · cases hn
      · exact h.rep.kindIn n w hn
    · intro n w hn
      rw [hop n] at hn
      split at hn
      · cases hn
      · exact h.rep.kindOut n w hn
    · intro n o' hn
      rw [hop n] at hn
      split at hn
      · cases hn
      · exact h.rep.wiresNodup n o' hn
    · intro e' he'
      rw [hedges] at he'
      rcases spec.sound e' he' with ⟨hold, hs, hd⟩ | ⟨ie, hie, oe, hoe, hid, hos, hk, rfl⟩
      · obtain ⟨hkW, hadj⟩ := h.rep.edge_sound0 e' hold
        refine ⟨hkW, ?_⟩
        by_cases hkq : e'.key = wq
        · rw [hkq] at hadj ⊢
          rw [hpath']
          rw [hpath] at hadj
          rcases adj_insert_inv l1 l2 a b p _ _ hadj with ⟨_, h2⟩ | ⟨h1, _⟩ | h3
          · exact absurd h2 hd
          · exact absurd h1 hs
          · exact h3
        · rw [hpother _ hkq]; exact hadj
      · obtain ⟨hk1, hs1⟩ := hin ie hie hid
        obtain ⟨hk2, hd2⟩ := hout oe hoe hos
        show (newEdge ie oe).key ∈ W ∧ Adj (pathOf _ (newEdge ie oe).key) (newEdge ie oe).src (newEdge ie oe).dst
        simp only [newEdge, hk2, hs1, hd2]
        exact ⟨hwq, by rw [hpath']; exact ⟨l1, l2, rfl⟩⟩
    · intro w hw u v hadj
      rw [hedges]
      by_cases hk : w = wq
      · subst hk
        rw [hpath'] at hadj
        by_cases huv : u = a ∧ v = b
        · obtain ⟨rfl, rfl⟩ := huv
          obtain ⟨ie, hie, h1, h2, h3⟩ := h.rep.edge_complete w hw u p (by rw [hpath]; exact ⟨l1, v :: l2, rfl⟩)
          obtain ⟨oe, hoe, h4, h5, h6⟩ := h.rep.edge_complete w hw p v (by rw [hpath]; exact ⟨l1 ++ [u], l2, by simp⟩)
          refine ⟨newEdge ie oe, spec.new ie hie oe hoe h2 h4 (h3.trans h6.symm), ?_, ?_, ?_⟩
          · exact h1
          · exact h5
          · exact h6
        · have hold := adj_insert l1 l2 a b p u v hadj huv
          rw [← hpath] at hold
          obtain ⟨e0, he0, h1, h2, h3⟩ := h.rep.edge_complete w hw u v hold
          have hu : u ≠ p := by
            rintro rfl; exact hpnot (adj_mem_left hadj)
          have hv : v ≠ p := by
            rintro rfl; exact hpnot (adj_mem_right hadj)
          exact ⟨e0, spec.keep e0 he0 (by rw [h1]; exact hu) (by rw [h2]; exact hv), h1, h2, h3⟩
      · rw [hpother w hk] at hadj
        obtain ⟨e0, he0, h1, h2, h3⟩ := h.rep.edge_complete w hw u v hadj
        have hu : u ≠ p := by
          rintro rfl; exact hk (honly w hw (adj_mem_left hadj))
        have hv : v ≠ p := by
          rintro rfl; exact hk (honly w hw (adj_mem_right hadj))
        exact ⟨e0, spec.keep e0 he0 (by rw [h1]; exact hu) (by rw [h2]; exact hv), h1, h2, h3⟩
    · intro w hm
      apply h.rep.inputsW w
      rw [hnodes] at hm
      obtain ⟨q, hq, hq1⟩ := List.mem_map.1 hm
      exact List.mem_map.2 ⟨q, (List.mem_filter.1 hq).1, hq1⟩
  refine ⟨⟨hrep, ?_, ?_, ?_⟩, hop, hnodes⟩
  · intro n o' hn w' hw'
    rw [hop n] at hn
    split at hn
    · cases hn
    · rename_i hne
      obtain ⟨a', b'⟩ := h.onPath n o' hn w' hw'
      refine ⟨a', ?_⟩
      by_cases hk : w' = wq
      · subst hk
        rw [upd_same]
        rw [hb] at b'
        simp only [List.mem_append, List.mem_cons] at b' ⊢
        rcases b' with h1 | h1 | h1
        · exact Or.inl h1
        · exact absurd h1 hne
        · exact Or.inr h1
      · rw [upd_other body wq w' _ hk]; exact b'
  · rw [hnodes]
    exact (h.names.sublist (List.Sublist.map _ List.filter_sublist))
  · intro n hn k hk
    have hid : (g.removeOp p).nodeId = g.nodeId := by
      rw [removeOp_eq]
      show (rmEdges g p).nodeId = g.nodeId
      unfold rmEdges
      refine foldl_inv rmOut (fun g' : MG => g'.nodeId = g.nodeId) _ _ ?_ (fun b a _ hb => hb)
      refine foldl_inv (rmStep _) (fun g' : MG => g'.nodeId = g.nodeId) _ g rfl ?_
      intro b a _ hb
      show (List.foldl (addNew a) b _).nodeId = g.nodeId
      refine foldl_inv (addNew a) (fun g' : MG => g'.nodeId = g.nodeId) _ b hb ?_
      intro b' a' _ hb'
      unfold addNew; split <;> exact hb'
    rw [hid]
    apply h.ids n _ k hk
    rw [hnodes] at hn
    obtain ⟨q, hq, hq1⟩ := List.mem_map.1 hn
    exact List.mem_map.2 ⟨q, (List.mem_filter.1 hq).1, hq1⟩

/-! ## one wrapper node: insert the unwrapped operations before it, then remove it -/

/-- the loop of `unwrap_nodes` for one wrapper: insert `us` (application order) on the in-edge of `p` -/
def insertAll (p : Nd) (wq : Wire) (us : List Op) (g : MG) : MG :=
  us.foldl (fun g o => match g.inEdge p wq with
    | some e => g.insertAt o e
    | none => g) g

theorem NInv.insertMany {W : List Wire} (p : Nd) (wq : Wire) (hwq : wq ∈ W) (b1 b2 : List Nd) :
    ∀ (us : List Op) (g : MG) (body : Wire → List Nd) (ins0 : List Nd), NInv W g body →
      body wq = b1 ++ ins0 ++ p :: b2 → (∀ o ∈ us, opWires o = [wq]) →
      ∃ body' ins, NInv W (insertAll p wq us g) body' ∧ body' wq = b1 ++ ins0 ++ ins ++ p :: b2 ∧
        (∀ w, w ≠ wq → body' w = body w) ∧ ins.filterMap (gateAt (insertAll p wq us g)) = us ∧
        (∀ m, m ∈ g.nodes.map (·.1) → (insertAll p wq us g).opOf m = g.opOf m) ∧
        (∀ m, m ∈ g.nodes.map (·.1) → m ∈ (insertAll p wq us g).nodes.map (·.1)) ∧
        (∀ m o', (insertAll p wq us g).opOf m = some (.gate o') → g.opOf m = some (.gate o') ∨ o' ∈ us) ∧
        (∃ extra, (insertAll p wq us g).nodes = g.nodes ++ extra ∧ extra.map (·.2) = us.map NOp.gate) := by
  intro us
  induction us with
  | nil =>
    intro g body ins0 h hb _
    exact ⟨body, [], h, by simpa using hb, fun _ _ => rfl, rfl, fun _ _ => rfl, fun _ hm => hm, fun _ _ ho => Or.inl ho,
      [], by simp [insertAll], rfl⟩
  | cons o us' ih =>
    intro g body ins0 h hb hus
    -- the in-edge of `p`
    have hpath : pathOf body wq = (Nd.inp wq :: (b1 ++ ins0)) ++ p :: (b2 ++ [Nd.out wq]) := by
      unfold pathOf; rw [hb]; simp
    obtain ⟨l1, a, hl1⟩ : ∃ l1 a, Nd.inp wq :: (b1 ++ ins0) = l1 ++ [a] := by
      rcases List.eq_nil_or_concat (Nd.inp wq :: (b1 ++ ins0)) with h' | ⟨l1, a, h'⟩
      · cases h'
      · exact ⟨l1, a, by rw [h', List.concat_eq_append]⟩
    have hadj : Adj (pathOf body wq) a p := ⟨l1, b2 ++ [Nd.out wq], by rw [hpath, hl1]; simp⟩
    obtain ⟨e0, he0, _, hd0, hk0⟩ := h.rep.edge_complete wq hwq a p hadj
    obtain ⟨e, hfind⟩ : ∃ e, g.inEdge p wq = some e := by
      have := inEdge_isSome_of_mem g e0 he0
      rwa [hd0, hk0] at this
    have hstep : insertAll p wq (o :: us') g = insertAll p wq us' (g.insertAt o e) := by
      unfold insertAll
      rw [List.foldl_cons, hfind]
    rw [hstep]
    obtain ⟨h', hold, hnew, hnodes⟩ := h.insertBefore p wq hwq (b1 ++ ins0) b2 hb o (hus o (by simp)) e hfind
    have hb' : upd body wq (b1 ++ ins0 ++ Nd.op (g.nodeId + 1) :: p :: b2) wq = b1 ++ (ins0 ++ [Nd.op (g.nodeId + 1)]) ++ p :: b2 := by
      rw [upd_same]; simp
    obtain ⟨body'', ins, h'', hb'', hother, hgates, hold2, hmem2, hwr, extra, hex1, hex2⟩ := ih (g.insertAt o e) _ (ins0 ++ [Nd.op (g.nodeId + 1)]) h' hb'
      (fun o' ho' => hus o' (List.mem_cons_of_mem _ ho'))
    have hxmem : Nd.op (g.nodeId + 1) ∈ (g.insertAt o e).nodes.map (·.1) := by rw [hnodes]; simp
    have hsub : ∀ m, m ∈ g.nodes.map (·.1) → m ∈ (g.insertAt o e).nodes.map (·.1) := by
      intro m hm; rw [hnodes, List.map_append]; exact List.mem_append_left _ hm
    refine ⟨body'', Nd.op (g.nodeId + 1) :: ins, h'', ?_, ?_, ?_, ?_, ?_, ?_,
      ⟨(Nd.op (g.nodeId + 1), NOp.gate o) :: extra, by rw [hex1, hnodes]; simp, by simp [hex2]⟩⟩
    · rw [hb'']; simp
    · intro w hw; rw [hother w hw, upd_other body wq w _ hw]
    · rw [List.filterMap_cons]
      have : gateAt (insertAll p wq us' (g.insertAt o e)) (Nd.op (g.nodeId + 1)) = some o := by
        unfold gateAt; rw [hold2 _ hxmem, hnew]
      rw [this, hgates]
    · intro m hm
      rw [hold2 m (hsub m hm), hold m hm]
    · intro m hm; exact hmem2 m (hsub m hm)
    · intro m o' ho'
      rcases hwr m o' ho' with h1 | h1
      · by_cases hm : m ∈ g.nodes.map (·.1)
        · left; rw [← hold m hm]; exact h1
        · right
          have hm' := opOf_some_mem _ _ _ h1
          rw [hnodes, List.map_append, List.mem_append] at hm'
          rcases hm' with hm' | hm'
          · exact absurd hm' hm
          · simp only [List.map_cons, List.map_nil, List.mem_singleton] at hm'
            rw [hm', hnew] at h1
            injection h1 with h1
            injection h1 with h1
            rw [← h1]; simp
      · right; exact List.mem_cons_of_mem _ h1

theorem unwrap_wires (gs : List G1) (q : QReg) : ∀ o ∈ Op.unwrap (.wrap gs q), opWires o = [Wire.ofQ q] := by
  intro o ho
  simp only [Op.unwrap, List.mem_map] at ho
  obtain ⟨g1, _, rfl⟩ := ho
  rfl

theorem unwrap_unwrap (gs : List G1) (q : QReg) :
    (Op.unwrap (.wrap gs q)).flatMap Op.unwrap = Op.unwrap (.wrap gs q) := by
  simp only [Op.unwrap]
  induction gs.reverse with
  | nil => rfl
  | cons a l ih => simp only [List.map_cons, List.flatMap_cons, Op.unwrap, ih]; rfl

theorem filterMap_gateAt_congr (g g' : MG) (l : List Nd) (h : ∀ n ∈ l, g'.opOf n = g.opOf n) :
    l.filterMap (gateAt g') = l.filterMap (gateAt g) := by
  apply List.filterMap_congr
  intro n hn
  exact gateAt_congr g g' n (h n hn)

/-- **one wrapper node processed**: the register-path invariant is kept and, on every register, the unwrapped operation
    sequence is unchanged -/
theorem NInv.unwrapOne {W : List Wire} {g : MG} {body : Wire → List Nd} (h : NInv W g body) (p : Nd) (gs : List G1) (q : QReg)
    (hp : g.opOf p = some (.gate (.wrap gs q))) :
    ∃ body', NInv W ((insertAll p (Wire.ofQ q) (Op.unwrap (.wrap gs q)) g).removeOp p) body' ∧
      (∀ w ∈ W, (wireOps ((insertAll p (Wire.ofQ q) (Op.unwrap (.wrap gs q)) g).removeOp p) body' w).flatMap Op.unwrap
        = (wireOps g body w).flatMap Op.unwrap) ∧
      (∀ m, m ≠ p → m ∈ g.nodes.map (·.1) →
        ((insertAll p (Wire.ofQ q) (Op.unwrap (.wrap gs q)) g).removeOp p).opOf m = g.opOf m) ∧
      (∀ m o', ((insertAll p (Wire.ofQ q) (Op.unwrap (.wrap gs q)) g).removeOp p).opOf m = some (.gate o') →
        (m ≠ p ∧ g.opOf m = some (.gate o')) ∨ o' ∈ Op.unwrap (.wrap gs q)) ∧
      (∃ extra, ((insertAll p (Wire.ofQ q) (Op.unwrap (.wrap gs q)) g).removeOp p).nodes
          = (g.nodes ++ extra).filter (fun x => x.1 != p) ∧
        extra.map (·.2) = (Op.unwrap (.wrap gs q)).map NOp.gate ∧ ((g.nodes ++ extra).map (·.1)).Nodup) := by
  have hwires : opWires (.wrap gs q) = [Wire.ofQ q] := rfl
  obtain ⟨hwq, hpb⟩ := h.onPath p _ hp (Wire.ofQ q) (by rw [hwires]; simp)
  obtain ⟨b1, b2, hb⟩ := List.append_of_mem hpb
  obtain ⟨body1, ins, h1, hb1, hother1, hgates1, hold1, hmem1, hwr1, extra, hex1, hex2⟩ :=
    NInv.insertMany p (Wire.ofQ q) hwq b1 b2 (Op.unwrap (.wrap gs q)) g body [] h (by simpa using hb) (unwrap_wires gs q)
  have hp1 : (insertAll p (Wire.ofQ q) (Op.unwrap (.wrap gs q)) g).opOf p = some (.gate (.wrap gs q)) := by
    rw [hold1 p (opOf_some_mem g p _ hp)]; exact hp
  obtain ⟨c1, c2, hc, h2, hop2, hnodes2⟩ := h1.removeOne p _ hp1 (Wire.ofQ q) hwires
  -- the two decompositions of the path body agree
  have hbody1 : body1 (Wire.ofQ q) = (b1 ++ ins) ++ p :: b2 := by rw [hb1]; simp
  have hnd1 : (body1 (Wire.ofQ q)).Nodup := by
    have := h1.rep.pathNodup _ hwq
    unfold pathOf at this
    exact (List.nodup_append.1 (List.nodup_cons.1 this).2).1
  obtain ⟨ec1, ec2⟩ := nodup_split_unique _ hnd1 p _ _ _ _ hc hbody1
  have ec2' := ec2.symm
  subst ec1
  subst ec2'
  have hpnot : p ∉ b1 ++ ins ∧ p ∉ b2 := by
    rw [hbody1] at hnd1
    have hperm : ((b1 ++ ins) ++ p :: b2).Perm (p :: ((b1 ++ ins) ++ b2)) := List.perm_middle
    have := (List.nodup_cons.1 (hperm.nodup_iff.1 hnd1)).1
    simp only [List.mem_append, not_or] at this ⊢
    tauto
  refine ⟨_, h2, ?_, ?_, ?_, ⟨extra, by rw [hnodes2, hex1], hex2, by rw [← hex1]; exact h1.names⟩⟩
  · intro w hw
    by_cases hk : w = Wire.ofQ q
    · subst hk
      unfold wireOps
      rw [upd_same, hb]
      simp only [List.filterMap_append, List.filterMap_cons, List.flatMap_append]
      have hgp : gateAt g p = some (.wrap gs q) := by unfold gateAt; rw [hp]
      rw [hgp]
      -- old nodes keep their operation
      have hkeep : ∀ (l : List Nd), (∀ n ∈ l, n ∈ body (Wire.ofQ q)) → p ∉ l →
          l.filterMap (gateAt ((insertAll p (Wire.ofQ q) (Op.unwrap (.wrap gs q)) g).removeOp p)) = l.filterMap (gateAt g) := by
        intro l hl hpl
        apply filterMap_gateAt_congr
        intro n hn
        have hne : n ≠ p := fun h' => hpl (h' ▸ hn)
        rw [hop2 n, if_neg hne]
        obtain ⟨_, _, _, hop, _⟩ := h.rep.bodyOp _ hwq n (hl n hn)
        exact hold1 n (opOf_some_mem g n _ hop)
      have hins : ins.filterMap (gateAt ((insertAll p (Wire.ofQ q) (Op.unwrap (.wrap gs q)) g).removeOp p))
          = Op.unwrap (.wrap gs q) := by
        refine Eq.trans (filterMap_gateAt_congr _ _ ins ?_) hgates1
        intro n hn
        have hne : n ≠ p := fun h' => hpnot.1 (h' ▸ List.mem_append_right _ hn)
        rw [hop2 n, if_neg hne]
      rw [hkeep b1 (fun n hn => by rw [hb]; simp [hn]) (fun h' => hpnot.1 (List.mem_append_left _ h')),
        hkeep b2 (fun n hn => by rw [hb]; simp [hn]) hpnot.2, hins, unwrap_unwrap]
      simp only [List.flatMap_cons, List.append_assoc]
    · unfold wireOps
      rw [upd_other _ _ w _ hk, hother1 w hk]
      congr 1
      apply filterMap_gateAt_congr
      intro n hn
      obtain ⟨_, o', _, hop, hwo⟩ := h.rep.bodyOp w hw n hn
      have hne : n ≠ p := by
        rintro rfl
        rw [hp] at hop
        injection hop with hop
        injection hop with hop
        rw [← hop, hwires, List.mem_singleton] at hwo
        exact hk hwo
      rw [hop2 n, if_neg hne]
      exact hold1 n (opOf_some_mem g n _ hop)
  · intro m hm hmem
    rw [hop2 m, if_neg hm]
    exact hold1 m hmem
  · intro m o' ho'
    rw [hop2 m] at ho'
    split at ho'
    · cases ho'
    · rename_i hne
      rcases hwr1 m o' ho' with h' | h'
      · exact Or.inl ⟨hne, h'⟩
      · exact Or.inr h'


/-! ## counting nodes: the operation nodes as a multiset -/

def nonId (o : Op) : Bool := !o.isIdentity

theorem perm_cons_filter (ns : List (Nd × NOp)) (hnd : (ns.map (·.1)).Nodup) (e : Nd × NOp) (he : e ∈ ns) :
    ns.Perm (e :: ns.filter (fun q => q.1 != e.1)) := by
  induction ns with
  | nil => cases he
  | cons a rest ih =>
    simp only [List.map_cons, List.nodup_cons] at hnd
    rcases List.mem_cons.1 he with rfl | he'
    · have : (e :: rest).filter (fun q => q.1 != e.1) = rest := by
        rw [List.filter_cons_of_neg (by simp), List.filter_eq_self]
        intro q hq
        have : q.1 ≠ e.1 := fun h' => hnd.1 (h' ▸ List.mem_map_of_mem hq)
        simpa using this
      rw [this]
    · have hne : a.1 ≠ e.1 := fun h' => hnd.1 (h' ▸ List.mem_map_of_mem he')
      have : (a :: rest).filter (fun q => q.1 != e.1) = a :: rest.filter (fun q => q.1 != e.1) := by
        rw [List.filter_cons_of_pos (by simpa using hne)]
      rw [this]
      exact ((ih hnd.2 he').cons a).trans (List.Perm.swap e a _)

theorem gateOpsOf_of_snd (extra : List (Nd × NOp)) (us : List Op) (h : extra.map (·.2) = us.map NOp.gate) :
    gateOpsOf extra = us ∧ ioOf extra = [] := by
  induction extra generalizing us with
  | nil =>
    cases us with
    | nil => exact ⟨rfl, rfl⟩
    | cons _ _ => cases h
  | cons a rest ih =>
    cases us with
    | nil => cases h
    | cons u us' =>
      simp only [List.map_cons, List.cons.injEq] at h
      obtain ⟨e1, e2⟩ := ih us' h.2
      have hg : gateOfEntry a = some u := by unfold gateOfEntry; rw [h.1]
      constructor
      · unfold gateOpsOf at e1 ⊢
        rw [List.filterMap_cons, hg, e1]
      · unfold ioOf at e2 ⊢
        rw [List.filter_cons_of_neg (by simp [hg]), e2]

/-- one wrapper node processed: the multiset of unwrapped operations and the input/output nodes are unchanged -/
theorem unwrap_nodes_measure (ns extra : List (Nd × NOp)) (hnd : ((ns ++ extra).map (·.1)).Nodup) (p : Nd) (gs : List G1)
    (q : QReg) (he : (p, NOp.gate (.wrap gs q)) ∈ ns) (hex : extra.map (·.2) = (Op.unwrap (.wrap gs q)).map NOp.gate) :
    ((gateOpsOf ((ns ++ extra).filter (fun x => x.1 != p))).flatMap Op.unwrap).Perm ((gateOpsOf ns).flatMap Op.unwrap) ∧
    (ioOf ((ns ++ extra).filter (fun x => x.1 != p))).length = (ioOf ns).length := by
  obtain ⟨eg, eio⟩ := gateOpsOf_of_snd extra _ hex
  have hperm := perm_cons_filter (ns ++ extra) hnd (p, NOp.gate (.wrap gs q)) (List.mem_append_left _ he)
  simp only at hperm
  constructor
  · have h1 : (gateOpsOf (ns ++ extra)).Perm (Op.wrap gs q :: gateOpsOf ((ns ++ extra).filter (fun x => x.1 != p))) := by
      have := hperm.filterMap gateOfEntry
      simpa [gateOpsOf, gateOfEntry] using this
    have h2 := h1.flatMap_right Op.unwrap
    have e1 : gateOpsOf (ns ++ extra) = gateOpsOf ns ++ Op.unwrap (.wrap gs q) := by
      unfold gateOpsOf at eg ⊢
      rw [List.filterMap_append, eg]
    rw [e1, List.flatMap_append, unwrap_unwrap, List.flatMap_cons] at h2
    -- cancel the unwrapped operations of the wrapper
    have h3 : ((gateOpsOf ns).flatMap Op.unwrap ++ Op.unwrap (.wrap gs q)).Perm
        ((gateOpsOf ((ns ++ extra).filter (fun x => x.1 != p))).flatMap Op.unwrap ++ Op.unwrap (.wrap gs q)) :=
      h2.trans List.perm_append_comm
    exact ((List.perm_append_right_iff _).1 h3).symm
  · have h1 := (hperm.filter (fun p => (gateOfEntry p).isNone)).length_eq
    have e1 : ioOf (ns ++ extra) = ioOf ns := by
      unfold ioOf at eio ⊢
      rw [List.filter_append, eio, List.append_nil]
    unfold ioOf at e1 ⊢
    rw [e1] at h1
    rw [h1, List.filter_cons_of_neg (by simp [gateOfEntry])]

/-- one identity node removed -/
theorem ident_nodes_measure (ns : List (Nd × NOp)) (hnd : (ns.map (·.1)).Nodup) (p : Nd) (q : QReg)
    (he : (p, NOp.gate (.one .I q)) ∈ ns) :
    ((gateOpsOf (ns.filter (fun x => x.1 != p))).filter nonId).Perm ((gateOpsOf ns).filter nonId) ∧
    (ioOf (ns.filter (fun x => x.1 != p))).length = (ioOf ns).length := by
  have hperm := perm_cons_filter ns hnd (p, NOp.gate (.one .I q)) he
  simp only at hperm
  constructor
  · have h1 : (gateOpsOf ns).Perm (Op.one .I q :: gateOpsOf (ns.filter (fun x => x.1 != p))) := by
      have := hperm.filterMap gateOfEntry
      simpa [gateOpsOf, gateOfEntry] using this
    have h2 := h1.filter nonId
    rw [List.filter_cons_of_neg (by simp [nonId, Op.isIdentity])] at h2
    exact h2.symm
  · have h1 := (hperm.filter (fun p => (gateOfEntry p).isNone)).length_eq
    unfold ioOf
    rw [h1, List.filter_cons_of_neg (by simp [gateOfEntry])]

/-! ## `unwrap_nodes` -/

def unwrapStep (g : MG) (p : Nd × NOp) : MG :=
  match p.2 with
  | .gate (.wrap gs q) => (insertAll p.1 (Wire.ofQ q) (Op.unwrap (.wrap gs q)) g).removeOp p.1
  | _ => g

theorem unwrapNodes_eq (g : MG) : g.unwrapNodes = (g.nodes.filter (fun p => isWrapper p.2)).foldl unwrapStep g := rfl

theorem opOf_some_pair_mem (g : MG) (n : Nd) (o : NOp) (h : g.opOf n = some o) : (n, o) ∈ g.nodes := by
  unfold MG.opOf at h
  cases hf : g.nodes.find? (fun p => p.1 == n) with
  | none => rw [hf] at h; cases h
  | some p =>
    rw [hf] at h
    have hp := List.find?_some hf
    have hm := List.mem_of_find?_eq_some hf
    simp only [beq_iff_eq] at hp
    simp only [Option.map_some, Option.some.injEq] at h
    have : p = (n, o) := by cases p; simp_all
    rw [← this]; exact hm

theorem opOf_of_mem_nodes (l : List (Nd × NOp)) (hn : (l.map (·.1)).Nodup) (p : Nd × NOp) (hp : p ∈ l) :
    (l.find? (fun x => x.1 == p.1)).map (·.2) = some p.2 := by
  induction l with
  | nil => cases hp
  | cons a rest ih =>
    simp only [List.map_cons, List.nodup_cons] at hn
    rcases List.mem_cons.1 hp with rfl | hp'
    · simp
    · have hne : a.1 ≠ p.1 := by
        intro h'
        apply hn.1
        rw [h']
        exact List.mem_map_of_mem hp'
      have : (a.1 == p.1) = false := by simpa using hne
      rw [List.find?_cons, this]
      exact ih hn.2 hp'

theorem opOf_of_mem (g : MG) (hn : (g.nodes.map (·.1)).Nodup) (p : Nd × NOp) (hp : p ∈ g.nodes) : g.opOf p.1 = some p.2 :=
  opOf_of_mem_nodes g.nodes hn p hp

theorem unwrap_no_wrap (gs : List G1) (q : QReg) (gs' : List G1) (q' : QReg) : Op.wrap gs' q' ∉ Op.unwrap (.wrap gs q) := by
  intro h
  simp only [Op.unwrap, List.mem_map] at h
  obtain ⟨_, _, h⟩ := h
  cases h

theorem unwrap_fold {W : List Wire} : ∀ (todo : List (Nd × NOp)) (g : MG) (body : Wire → List Nd), NInv W g body →
    (todo.map (·.1)).Nodup → (∀ p ∈ todo, g.opOf p.1 = some p.2 ∧ isWrapper p.2 = true) →
    (∀ m gs q, g.opOf m = some (.gate (.wrap gs q)) → m ∈ todo.map (·.1)) →
    ∃ body', NInv W (todo.foldl unwrapStep g) body' ∧
      (∀ w ∈ W, (wireOps (todo.foldl unwrapStep g) body' w).flatMap Op.unwrap = (wireOps g body w).flatMap Op.unwrap) ∧
      (∀ m gs q, (todo.foldl unwrapStep g).opOf m ≠ some (.gate (.wrap gs q))) ∧
      ((gateOpsOf (todo.foldl unwrapStep g).nodes).flatMap Op.unwrap).Perm ((gateOpsOf g.nodes).flatMap Op.unwrap) ∧
      (ioOf (todo.foldl unwrapStep g).nodes).length = (ioOf g.nodes).length := by
  intro todo
  induction todo with
  | nil =>
    intro g body h _ _ hall
    refine ⟨body, h, fun _ _ => rfl, ?_, List.Perm.refl _, rfl⟩
    intro m gs q hm
    have := hall m gs q hm
    cases this
  | cons p rest ih =>
    intro g body h hnd htodo hall
    obtain ⟨hp1, hp2⟩ := htodo p (by simp)
    -- `p` carries a wrapper
    obtain ⟨gs, q, hpw⟩ : ∃ gs q, p.2 = .gate (.wrap gs q) := by
      cases hh : p.2 with
      | input w => rw [hh] at hp2; cases hp2
      | output w => rw [hh] at hp2; cases hp2
      | gate o =>
        cases o with
        | wrap gs q => exact ⟨gs, q, rfl⟩
        | one _ _ => rw [hh] at hp2; cases hp2
        | ctrl _ _ _ => rw [hh] at hp2; cases hp2
        | cctrl _ _ _ _ => rw [hh] at hp2; cases hp2
        | meas _ _ => rw [hh] at hp2; cases hp2
    have hstep : unwrapStep g p = (insertAll p.1 (Wire.ofQ q) (Op.unwrap (.wrap gs q)) g).removeOp p.1 := by
      unfold unwrapStep; rw [hpw]
    rw [hpw] at hp1
    obtain ⟨body1, h1, hT1, hold1, hwr1, extra1, hex1, hex2, hexnd⟩ := h.unwrapOne p.1 gs q hp1
    rw [List.foldl_cons, hstep]
    simp only [List.map_cons, List.nodup_cons] at hnd
    obtain ⟨body2, h2, hT2, hno, hP2, hI2⟩ := ih _ body1 h1 hnd.2
      (by
        intro p' hp'
        obtain ⟨a, b⟩ := htodo p' (List.mem_cons_of_mem _ hp')
        have hne : p'.1 ≠ p.1 := fun h' => hnd.1 (h' ▸ List.mem_map_of_mem hp')
        exact ⟨by rw [hold1 p'.1 hne (opOf_some_mem g _ _ a)]; exact a, b⟩)
      (by
        intro m gs' q' hm
        rcases hwr1 m _ hm with ⟨hne, hold⟩ | hnew
        · have := hall m gs' q' hold
          simp only [List.map_cons, List.mem_cons] at this
          rcases this with h' | h'
          · exact absurd h' hne
          · exact h'
        · exact absurd hnew (unwrap_no_wrap gs q gs' q'))
    obtain ⟨hP1, hI1⟩ := unwrap_nodes_measure g.nodes extra1 hexnd p.1 gs q (opOf_some_pair_mem g _ _ hp1) hex2
    rw [← hex1] at hP1 hI1
    exact ⟨body2, h2, fun w hw => (hT2 w hw).trans (hT1 w hw), hno, hP2.trans hP1, hI2.trans hI1⟩

theorem flatMap_unwrap_of_no_wrap (l : List Op) (h : ∀ o ∈ l, ∀ gs q, o ≠ .wrap gs q) : l.flatMap Op.unwrap = l := by
  induction l with
  | nil => rfl
  | cons a rest ih =>
    rw [List.flatMap_cons, ih (fun o ho => h o (List.mem_cons_of_mem _ ho))]
    cases a with
    | wrap gs q => exact absurd rfl (h _ (by simp) gs q)
    | one _ _ => rfl
    | ctrl _ _ _ => rfl
    | cctrl _ _ _ _ => rfl
    | meas _ _ => rfl

theorem mem_wireOps (g : MG) (body : Wire → List Nd) (w : Wire) (o : Op) (h : o ∈ wireOps g body w) :
    ∃ n ∈ body w, g.opOf n = some (.gate o) := by
  unfold wireOps at h
  obtain ⟨n, hn, hg⟩ := List.mem_filterMap.1 h
  refine ⟨n, hn, ?_⟩
  unfold gateAt at hg
  cases ho : g.opOf n with
  | none => rw [ho] at hg; cases hg
  | some x =>
    rw [ho] at hg
    cases x with
    | gate o' => simp only [Option.some.injEq] at hg; rw [hg]
    | input _ => cases hg
    | output _ => cases hg

/-! ## `remove_identity` -/

theorem removeIdentity_eq (g : MG) :
    g.removeIdentity = (g.nodes.filter (fun p => isIdentityNode p.2)).foldl (fun g p => g.removeOp p.1) g := rfl

theorem ident_fold {W : List Wire} : ∀ (todo : List (Nd × NOp)) (g : MG) (body : Wire → List Nd), NInv W g body →
    (todo.map (·.1)).Nodup → (∀ p ∈ todo, g.opOf p.1 = some p.2 ∧ isIdentityNode p.2 = true) →
    (∀ m q, g.opOf m = some (.gate (.one .I q)) → m ∈ todo.map (·.1)) →
    ∃ body', NInv W (todo.foldl (fun g p => g.removeOp p.1) g) body' ∧
      (∀ w ∈ W, (wireOps (todo.foldl (fun g p => g.removeOp p.1) g) body' w).filter nonId = (wireOps g body w).filter nonId) ∧
      (∀ m q, (todo.foldl (fun g p => g.removeOp p.1) g).opOf m ≠ some (.gate (.one .I q))) ∧
      ((gateOpsOf (todo.foldl (fun g p => g.removeOp p.1) g).nodes).filter nonId).Perm ((gateOpsOf g.nodes).filter nonId) ∧
      (ioOf (todo.foldl (fun g p => g.removeOp p.1) g).nodes).length = (ioOf g.nodes).length := by
  intro todo
  induction todo with
  | nil =>
    intro g body h _ _ hall
    refine ⟨body, h, fun _ _ => rfl, ?_, List.Perm.refl _, rfl⟩
    intro m q hm
    have := hall m q hm
    cases this
  | cons p rest ih =>
    intro g body h hnd htodo hall
    obtain ⟨hp1, hp2⟩ := htodo p (by simp)
    obtain ⟨q, hpw⟩ : ∃ q, p.2 = .gate (.one .I q) := by
      cases hh : p.2 with
      | input w => rw [hh] at hp2; cases hp2
      | output w => rw [hh] at hp2; cases hp2
      | gate o =>
        cases o with
        | one g1 q =>
          cases g1 <;> first | exact ⟨q, rfl⟩ | (rw [hh] at hp2; cases hp2)
        | wrap _ _ => rw [hh] at hp2; cases hp2
        | ctrl _ _ _ => rw [hh] at hp2; cases hp2
        | cctrl _ _ _ _ => rw [hh] at hp2; cases hp2
        | meas _ _ => rw [hh] at hp2; cases hp2
    rw [hpw] at hp1
    have hwires : opWires (.one .I q) = [Wire.ofQ q] := rfl
    obtain ⟨hwq, _⟩ := h.onPath p.1 _ hp1 (Wire.ofQ q) (by rw [hwires]; simp)
    obtain ⟨b1, b2, hb, h1, hop1, hnodes1⟩ := h.removeOne p.1 _ hp1 (Wire.ofQ q) hwires
    rw [List.foldl_cons]
    simp only [List.map_cons, List.nodup_cons] at hnd
    have hT1 : ∀ w ∈ W, (wireOps (g.removeOp p.1) (upd body (Wire.ofQ q) (b1 ++ b2)) w).filter nonId = (wireOps g body w).filter nonId := by
      intro w hw
      have hbnd : (body (Wire.ofQ q)).Nodup := by
        have := h.rep.pathNodup _ hwq
        unfold pathOf at this
        exact (List.nodup_append.1 (List.nodup_cons.1 this).2).1
      by_cases hk : w = Wire.ofQ q
      · subst hk
        have hpnot : p.1 ∉ b1 ∧ p.1 ∉ b2 := by
          rw [hb] at hbnd
          have hperm : (b1 ++ p.1 :: b2).Perm (p.1 :: (b1 ++ b2)) := List.perm_middle
          have := (List.nodup_cons.1 (hperm.nodup_iff.1 hbnd)).1
          simp only [List.mem_append, not_or] at this
          exact this
        have hkeep : ∀ (l : List Nd), p.1 ∉ l → l.filterMap (gateAt (g.removeOp p.1)) = l.filterMap (gateAt g) := by
          intro l hpl
          apply filterMap_gateAt_congr
          intro n hn
          have hne : n ≠ p.1 := fun h' => hpl (h' ▸ hn)
          rw [hop1 n, if_neg hne]
        unfold wireOps
        rw [upd_same, hb]
        simp only [List.filterMap_append, List.filterMap_cons, List.filter_append]
        have hgp : gateAt g p.1 = some (.one .I q) := by unfold gateAt; rw [hp1]
        rw [hgp, hkeep b1 hpnot.1, hkeep b2 hpnot.2]
        simp [nonId, Op.isIdentity]
      · unfold wireOps
        rw [upd_other _ _ w _ hk]
        congr 1
        apply filterMap_gateAt_congr
        intro n hn
        obtain ⟨_, o', _, hop, hwo⟩ := h.rep.bodyOp w hw n hn
        have hne : n ≠ p.1 := by
          rintro rfl
          rw [hp1] at hop
          injection hop with hop
          injection hop with hop
          rw [← hop, hwires, List.mem_singleton] at hwo
          exact hk hwo
        rw [hop1 n, if_neg hne]
    obtain ⟨body2, h2, hT2, hno, hP2, hI2⟩ := ih _ _ h1 hnd.2
      (by
        intro p' hp'
        obtain ⟨a, b⟩ := htodo p' (List.mem_cons_of_mem _ hp')
        have hne : p'.1 ≠ p.1 := fun h' => hnd.1 (h' ▸ List.mem_map_of_mem hp')
        exact ⟨by rw [hop1 p'.1, if_neg hne]; exact a, b⟩)
      (by
        intro m q' hm
        rw [hop1 m] at hm
        split at hm
        · cases hm
        · rename_i hne
          have := hall m q' hm
          simp only [List.map_cons, List.mem_cons] at this
          rcases this with h' | h'
          · exact absurd h' hne
          · exact h')
    obtain ⟨hP1, hI1⟩ := ident_nodes_measure g.nodes h.names p.1 q (opOf_some_pair_mem g _ _ hp1)
    rw [← hnodes1] at hP1 hI1
    exact ⟨body2, h2, fun w hw => (hT2 w hw).trans (hT1 w hw), hno, hP2.trans hP1, hI2.trans hI1⟩

/-! ## the normalised DAG -/

theorem touches_unwrap (w : Wire) (o o' : Op) (h : o' ∈ Op.unwrap o) : touches w o' = touches w o := by
  cases o with
  | wrap gs q =>
    simp only [Op.unwrap, List.mem_map] at h
    obtain ⟨_, _, rfl⟩ := h
    rfl
  | one _ _ => simp only [Op.unwrap, List.mem_singleton] at h; rw [h]
  | ctrl _ _ _ => simp only [Op.unwrap, List.mem_singleton] at h; rw [h]
  | cctrl _ _ _ _ => simp only [Op.unwrap, List.mem_singleton] at h; rw [h]
  | meas _ _ => simp only [Op.unwrap, List.mem_singleton] at h; rw [h]

theorem filter_touches_flatMap_unwrap (w : Wire) (l : List Op) :
    (l.flatMap Op.unwrap).filter (touches w) = (l.filter (touches w)).flatMap Op.unwrap := by
  induction l with
  | nil => rfl
  | cons a rest ih =>
    rw [List.flatMap_cons, List.filter_append, ih]
    by_cases ha : touches w a = true
    · rw [List.filter_cons_of_pos ha, List.flatMap_cons]
      congr 1
      rw [List.filter_eq_self]
      intro o ho
      rw [touches_unwrap w a o ho]; exact ha
    · rw [List.filter_cons_of_neg ha]
      have : (Op.unwrap a).filter (touches w) = [] := by
        rw [List.filter_eq_nil_iff]
        intro o ho
        rw [touches_unwrap w a o ho]; exact ha
      rw [this]; rfl

theorem flat_filter_touches (w : Wire) (l : List Op) :
    (flat l).filter (touches w) = ((l.filter (touches w)).flatMap Op.unwrap).filter nonId := by
  unfold flat
  rw [← filter_touches_flatMap_unwrap, List.filter_filter, List.filter_filter]
  apply List.filter_congr
  intro o _
  unfold nonId
  rw [Bool.and_comm]

theorem gateOpsOf_mem_opOf (g : MG) (hn : (g.nodes.map (·.1)).Nodup) (o : Op) (ho : o ∈ gateOpsOf g.nodes) :
    ∃ n, g.opOf n = some (.gate o) := by
  unfold gateOpsOf at ho
  obtain ⟨p, hp, hg⟩ := List.mem_filterMap.1 ho
  refine ⟨p.1, ?_⟩
  rw [opOf_of_mem g hn p hp]
  unfold gateOfEntry at hg
  cases h2 : p.2 with
  | gate o' => rw [h2] at hg; simp only [Option.some.injEq] at hg; rw [hg]
  | input _ => rw [h2] at hg; cases hg
  | output _ => rw [h2] at hg; cases hg

/-- **the normalised DAG (`unwrap_nodes`, `remove_identity`) is a family of register paths carrying the flattened
    operations**, and it has one node per executed operation besides the input and output nodes -/
theorem normalise_full (W : List Wire) (g : MG) (l : List Op) (h : BuildInv W g l) :
    GraphInv W g.normalise (fun w => (flat l).filter (touches w)) ∧
    g.normalise.nodes.length = 2 * W.length + (flat l).length := by
  obtain ⟨body, r, _, hid, hops, hon, hnames, hgl, hio, _⟩ := h
  have h0 : NInv W g body := ⟨r, hon, hnames, hid⟩
  -- unwrap
  obtain ⟨body1, h1, hT1, hno1, hP1, hI1⟩ := unwrap_fold (g.nodes.filter (fun p => isWrapper p.2)) g body h0
    (hnames.sublist (List.Sublist.map _ List.filter_sublist))
    (by
      intro p hp
      obtain ⟨a, b⟩ := List.mem_filter.1 hp
      exact ⟨opOf_of_mem g hnames p a, b⟩)
    (by
      intro m gs q hm
      have := opOf_some_pair_mem g m _ hm
      exact List.mem_map.2 ⟨_, List.mem_filter.2 ⟨this, rfl⟩, rfl⟩)
  rw [← unwrapNodes_eq] at h1 hT1 hno1 hP1 hI1
  -- remove identities
  obtain ⟨body2, h2, hT2, hno2, hP2, hI2⟩ := ident_fold (g.unwrapNodes.nodes.filter (fun p => isIdentityNode p.2)) g.unwrapNodes body1 h1
    (h1.names.sublist (List.Sublist.map _ List.filter_sublist))
    (by
      intro p hp
      obtain ⟨a, b⟩ := List.mem_filter.1 hp
      exact ⟨opOf_of_mem _ h1.names p a, b⟩)
    (by
      intro m q hm
      have := opOf_some_pair_mem _ m _ hm
      exact List.mem_map.2 ⟨_, List.mem_filter.2 ⟨this, rfl⟩, rfl⟩)
  rw [← removeIdentity_eq] at h2 hT2 hno2 hP2 hI2
  constructor
  · refine ⟨body2, h2.rep, ?_, h2.onPath⟩
    intro w hw
    show wireOps g.unwrapNodes.removeIdentity body2 w = (flat l).filter (touches w)
    rw [flat_filter_touches, ← hops w hw, ← hT1 w hw]
    have e1 : (wireOps g.unwrapNodes body1 w).flatMap Op.unwrap = wireOps g.unwrapNodes body1 w := by
      apply flatMap_unwrap_of_no_wrap
      intro o ho gs q hoq
      obtain ⟨n, _, hn⟩ := mem_wireOps _ _ _ _ ho
      rw [hoq] at hn
      exact hno1 n gs q hn
    rw [e1, ← hT2 w hw]
    symm
    rw [List.filter_eq_self]
    intro o ho
    obtain ⟨n, _, hn⟩ := mem_wireOps _ _ _ _ ho
    unfold nonId
    cases o with
    | one g1 q =>
      cases g1 <;> first | rfl | exact absurd hn (hno2 n q)
    | wrap _ _ => rfl
    | ctrl _ _ _ => rfl
    | cctrl _ _ _ _ => rfl
    | meas _ _ => rfl
  · -- the operation nodes of the normalised graph are, as a multiset, the executed operations
    have e1 : (gateOpsOf g.unwrapNodes.nodes).flatMap Op.unwrap = gateOpsOf g.unwrapNodes.nodes := by
      apply flatMap_unwrap_of_no_wrap
      intro o ho gs q hoq
      obtain ⟨n, hn⟩ := gateOpsOf_mem_opOf _ h1.names o ho
      rw [hoq] at hn
      exact hno1 n gs q hn
    have e2 : (gateOpsOf g.unwrapNodes.removeIdentity.nodes).filter nonId = gateOpsOf g.unwrapNodes.removeIdentity.nodes := by
      rw [List.filter_eq_self]
      intro o ho
      obtain ⟨n, hn⟩ := gateOpsOf_mem_opOf _ h2.names o ho
      unfold nonId
      cases o with
      | one g1 q =>
        cases g1 <;> first | rfl | exact absurd hn (hno2 n q)
      | wrap _ _ => rfl
      | ctrl _ _ _ => rfl
      | cctrl _ _ _ _ => rfl
      | meas _ _ => rfl
    rw [e1, hgl] at hP1
    rw [e2] at hP2
    have hperm : (gateOpsOf g.unwrapNodes.removeIdentity.nodes).Perm (flat l) := hP2.trans (hP1.filter nonId)
    have hlen := length_io_gate g.unwrapNodes.removeIdentity.nodes
    show g.unwrapNodes.removeIdentity.nodes.length = _
    rw [hlen, hperm.length_eq, hI2, hI1, hio]

theorem normalise_graphInv (W : List Wire) (g : MG) (l : List Op) (h : BuildInv W g l) :
    GraphInv W g.normalise (fun w => (flat l).filter (touches w)) := (normalise_full W g l h).1

/-! ## the comparison `remove_redundant_circuits` makes -/

/-- the circuit with its executed operations: wrappers expanded, identities dropped -/
def flatC (c : Circuit) : Circuit := ⟨c.ne, c.np, c.nc, flat c.ops⟩

theorem opWires_unwrap (o o' : Op) (h : o' ∈ Op.unwrap o) : opWires o' = opWires o := by
  cases o with
  | wrap gs q =>
    simp only [Op.unwrap, List.mem_map] at h
    obtain ⟨_, _, rfl⟩ := h
    rfl
  | one _ _ => simp only [Op.unwrap, List.mem_singleton] at h; rw [h]
  | ctrl _ _ _ => simp only [Op.unwrap, List.mem_singleton] at h; rw [h]
  | cctrl _ _ _ _ => simp only [Op.unwrap, List.mem_singleton] at h; rw [h]
  | meas _ _ => simp only [Op.unwrap, List.mem_singleton] at h; rw [h]

theorem flat_opOK (W : List Wire) (l : List Op) (h : ∀ o ∈ l, OpOK W o) : ∀ o ∈ flat l, OpOK W o := by
  intro o ho
  unfold flat at ho
  obtain ⟨ho1, _⟩ := List.mem_filter.1 ho
  obtain ⟨o0, ho0, hu⟩ := List.mem_flatMap.1 ho1
  unfold OpOK
  rw [opWires_unwrap o0 o hu]
  exact h o0 ho0

/-- **soundness of the repaired comparison as the filter uses it** (copy, `unwrap_nodes`, `remove_identity`, then
    `circuit_is_isomorphic`): reported isomorphic ⇒ the executed operations of the two circuits are renamings of each
    other, register by register -/
theorem isoNorm2_sound (c1 c2 : Circuit) (h1 : ∀ o ∈ c1.ops, OpOK (wiresN c1.ne c1.np c1.nc) o)
    (h2 : ∀ o ∈ c2.ops, OpOK (wiresN c2.ne c2.np c2.nc) o) (h : isoNormalised2 c1 c2 = .ok true) :
    ∃ π, RenamedBy π (flatC c1) (flatC c2) := by
  obtain ⟨g1, hb1, i1, _, _, _⟩ := build_rep c1 h1
  obtain ⟨g2, hb2, i2, _, _, _⟩ := build_rep c2 h2
  unfold isoNormalised2 at h
  rw [hb1, hb2] at h
  have hiso : isoGraphs2 g1.normalise g2.normalise = true := by
    simp only [bind, Except.bind, pure, Except.pure] at h
    injection h
  obtain ⟨e1, e2, e3, π, a, b, c, d⟩ := iso2_sound_graphs _ _ _ _ _ _ _ _ _ _
    (normalise_graphInv _ g1 c1.ops i1) (normalise_graphInv _ g2 c2.ops i2) hiso
  exact ⟨π, ⟨e1, e2, e3, a, b, c, d⟩⟩

/-- **soundness of `remove_redundant_circuits` with the repaired comparison**: the result is a sub-list, and every
    circuit that was dropped is — after unwrapping and identity removal — a renaming, register by register, of a circuit
    that is kept -/
theorem removeRedundant2_sound (l : List Circuit) (hl : ∀ c ∈ l, ∀ o ∈ c.ops, OpOK (wiresN c.ne c.np c.nc) o) :
    (removeRedundant2 l).Sublist l ∧
    ∀ x ∈ l, x ∈ removeRedundant2 l ∨ ∃ k ∈ removeRedundant2 l, ∃ π, RenamedBy π (flatC k) (flatC x) := by
  have hsub : (removeRedundant2 l).Sublist l := (removeRedundantWith_spec _ l).1
  refine ⟨hsub, ?_⟩
  intro x hx
  rcases (removeRedundantWith_spec _ l).2 x hx with h | ⟨k, hk, hkx⟩
  · exact Or.inl h
  · refine Or.inr ⟨k, hk, ?_⟩
    have hkl : k ∈ l := hsub.subset hk
    cases hr : isoNormalised2 k x with
    | ok r =>
      rw [hr] at hkx
      simp only at hkx
      rw [hkx] at hr
      exact isoNorm2_sound k x (hl k hkl) (hl x hx) hr
    | error e => rw [hr] at hkx; cases hkx

end Graphiq.Compare
