/-
  PrepDepthStatic.lean — schedules of a circuit and the *static* depth theorem (C18).

  A schedule `L` of a circuit `c` (w.r.t. its wires `P`) is a duplicate-free list of all operation nodes with their
  operations such that the wire of every register is `inp, (the nodes of L acting on the register, in L-order), out`.
  A circuit built by `add` has the schedule "nodes in creation order" (Proofs/PrepDepthSched.lean); `unwrap_nodes` and
  `remove_identity` transform the schedule by splice-in / erase, so the prepared copy of the emitter metrics has one too.

  Static depth theorem: for ANY circuit satisfying DagInv that has a schedule `L`, `_max_depth` (relation `HasDepth`) of
  the k-th node of `L` is the ASAP layer of the k-th operation of `L` minus one, and `_max_depth(out r)` is the ASAP
  depth of register `r` — no reference to how the circuit was constructed.
-/
import GraphiqModel.Proofs.PrepOrder
set_option linter.unusedSectionVars false
set_option linter.unusedSimpArgs false
namespace Graphiq
namespace Metrics
open Dag Relation

/-- the nodes of schedule `L` acting on register `r`, in schedule order -/
def schedWire (L : List (NodeId × Op)) (r : Reg) : List NodeId :=
  (L.filter (fun p => decide (r ∈ opRegs p.2))).map (·.1)

theorem schedWire_append (L1 L2 : List (NodeId × Op)) (r : Reg) :
    schedWire (L1 ++ L2) r = schedWire L1 r ++ schedWire L2 r := by
  simp [schedWire, List.filter_append]

theorem schedWire_cons_pos {p : NodeId × Op} {L : List (NodeId × Op)} {r : Reg} (h : r ∈ opRegs p.2) :
    schedWire (p :: L) r = p.1 :: schedWire L r := by
  simp [schedWire, List.filter_cons, h]

theorem schedWire_cons_neg {p : NodeId × Op} {L : List (NodeId × Op)} {r : Reg} (h : r ∉ opRegs p.2) :
    schedWire (p :: L) r = schedWire L r := by
  simp [schedWire, List.filter_cons, h]

theorem mem_schedWire {L : List (NodeId × Op)} {r : Reg} {n : NodeId} :
    n ∈ schedWire L r ↔ ∃ p ∈ L, r ∈ opRegs p.2 ∧ p.1 = n := by
  unfold schedWire
  rw [List.mem_map]
  constructor
  · rintro ⟨p, hp, rfl⟩
    obtain ⟨h1, h2⟩ := List.mem_filter.mp hp
    exact ⟨p, h1, by simpa using h2, rfl⟩
  · rintro ⟨p, hp, hr, rfl⟩
    exact ⟨p, List.mem_filter.mpr ⟨hp, by simpa using hr⟩, rfl⟩

/-- **the operation of a node as the circuit wires it**: the operation with only those classical registers on whose wire
    the node lies.  `add` threads a node on the wires of all its `c_registers`; `insert_at` (by design) only on the quantum
    registers of the given edges, so an operation inserted with `insert_at` holds a `c_register` that creates no dependency
    in the graph.  The registers of `wiredOp P n o` are exactly the registers whose wire contains `n` (`mem_opRegs_wiredOp`). -/
def wiredOp (P : Paths) (n : NodeId) (o : Op) : Op :=
  { o with cregs := o.cregs.filter (fun j => decide (n ∈ P ⟨.c, j⟩)) }

@[simp] theorem wiredOp_kind (P : Paths) (n : NodeId) (o : Op) : (wiredOp P n o).kind = o.kind := rfl
@[simp] theorem wiredOp_qregs (P : Paths) (n : NodeId) (o : Op) : (wiredOp P n o).qregs = o.qregs := rfl
@[simp] theorem wiredOp_labels (P : Paths) (n : NodeId) (o : Op) : (wiredOp P n o).labels = o.labels := rfl
@[simp] theorem wiredOp_inner (P : Paths) (n : NodeId) (o : Op) : (wiredOp P n o).inner = o.inner := rfl
@[simp] theorem wiredOp_indexKeys (P : Paths) (n : NodeId) (o : Op) : (wiredOp P n o).indexKeys = o.indexKeys := rfl
theorem wiredOp_cregs (P : Paths) (n : NodeId) (o : Op) :
    (wiredOp P n o).cregs = o.cregs.filter (fun j => decide (n ∈ P ⟨.c, j⟩)) := rfl

theorem wiredOp_of_cregs_nil {P : Paths} {n : NodeId} {o : Op} (h : o.cregs = []) : wiredOp P n o = o := by
  cases o; simp only [wiredOp] at *; simp [h]

/-- only the membership of the node in the classical wires it names matters -/
theorem wiredOp_congr {P P' : Paths} {n : NodeId} {o : Op} (h : ∀ j ∈ o.cregs, (n ∈ P' ⟨.c, j⟩ ↔ n ∈ P ⟨.c, j⟩)) :
    wiredOp P' n o = wiredOp P n o := by
  unfold wiredOp
  congr 1
  apply List.filter_congr
  intro j hj
  simp [h j hj]

/-- a fully wired operation is its own wired form -/
theorem wiredOp_eq_self {P : Paths} {n : NodeId} {o : Op} (h : ∀ j ∈ o.cregs, n ∈ P ⟨.c, j⟩) : wiredOp P n o = o := by
  cases o with
  | mk k q cr l i =>
    simp only [wiredOp, Op.mk.injEq, true_and, and_true]
    exact List.filter_eq_self.mpr (fun j hj => by simpa using h j hj)

theorem wiredOp_wf {P : Paths} {n : NodeId} {o : Op} (h : OpWF o) : OpWF (wiredOp P n o) :=
  { not_input := h.not_input, not_output := h.not_output, qregs_ne := h.qregs_ne, qregs_nodup := h.qregs_nodup,
    cregs_nodup := h.cregs_nodup.sublist List.filter_sublist, qregs_quantum := h.qregs_quantum,
    wrapper_shape := fun hk => by
      obtain ⟨a, b, c⟩ := h.wrapper_shape hk
      exact ⟨a, by rw [wiredOp_cregs, b]; rfl, c⟩
    wrapper_key := h.wrapper_key }

/-- **the registers of the wired operation of a node are exactly the registers whose wire contains the node** -/
theorem mem_opRegs_wiredOp {c : Dag} {P : Paths} (g : Good c P) {i : Nat} {o : Op} (hm : (NodeId.op i, o) ∈ c.nodes) (r : Reg) :
    r ∈ opRegs (wiredOp P (.op i) o) ↔ NodeId.op i ∈ P r := by
  unfold opRegs
  rw [List.mem_append, wiredOp_qregs, wiredOp_cregs]
  by_cases hr : r.ty = .c
  · obtain ⟨t, j⟩ := r
    simp only at hr; subst hr
    constructor
    · rintro (h | h)
      · exact absurd rfl ((g.inv.op_wf i o hm).qregs_quantum _ h)
      · obtain ⟨j', hj', e⟩ := List.mem_map.mp h
        injection e with _ e; subst e
        simpa using (List.mem_filter.mp hj').2
    · intro h
      refine Or.inr (List.mem_map.mpr ⟨j, List.mem_filter.mpr ⟨g.mem.mem_c i o hm j h, by simpa using h⟩, rfl⟩)
  · rw [g.mem.mem_q i o hm r hr]
    constructor
    · rintro (h | h)
      · exact h
      · obtain ⟨j', _, e⟩ := List.mem_map.mp h
        exact absurd (by rw [← e]) hr
    · exact Or.inl

/-- a schedule of the circuit: all operation nodes, each once — each with its operation as wired (`wiredOp`: the
    operation restricted to the classical registers the node is threaded on) — ordered consistently with every wire -/
structure Sched (c : Dag) (P : Paths) (L : List (NodeId × Op)) : Prop where
  wire : ∀ r, c.live r → P r = .inp r :: (schedWire L r ++ [.out r])
  nodes : ∀ p, p ∈ L ↔ (∃ i, p.1 = NodeId.op i) ∧ ∃ o, (p.1, o) ∈ c.nodes ∧ p.2 = wiredOp P p.1 o
  nodup : (L.map (·.1)).Nodup
  live : ∀ p ∈ L, ∀ r ∈ opRegs p.2, c.live r

theorem fst_inj_of_nodup {L : List (NodeId × Op)} (hnd : (L.map (·.1)).Nodup) {p q : NodeId × Op} (hp : p ∈ L) (hq : q ∈ L)
    (h : p.1 = q.1) : p = q := by
  induction L with
  | nil => simp at hp
  | cons a t ih =>
    rw [List.map_cons, List.nodup_cons] at hnd
    rcases List.mem_cons.mp hp with rfl | hp' <;> rcases List.mem_cons.mp hq with rfl | hq'
    · rfl
    · exact absurd (List.mem_map.mpr ⟨q, hq', h.symm⟩) hnd.1
    · exact absurd (List.mem_map.mpr ⟨p, hp', h⟩) hnd.1
    · exact ih hnd.2 hp' hq'

/-- the last node of `L` acting on `r` (the input node if there is none) -/
def lastOn (L : List (NodeId × Op)) (r : Reg) : NodeId := ((schedWire L r).getLast?).getD (.inp r)

theorem lastOn_nil (r : Reg) : lastOn [] r = .inp r := rfl

theorem lastOn_snoc_pos {L : List (NodeId × Op)} {p : NodeId × Op} {r : Reg} (h : r ∈ opRegs p.2) :
    lastOn (L ++ [p]) r = p.1 := by
  unfold lastOn
  rw [schedWire_append, schedWire_cons_pos h]
  simp [schedWire, List.getLast?_concat]

theorem lastOn_snoc_neg {L : List (NodeId × Op)} {p : NodeId × Op} {r : Reg} (h : r ∉ opRegs p.2) :
    lastOn (L ++ [p]) r = lastOn L r := by
  unfold lastOn
  rw [schedWire_append, schedWire_cons_neg h]
  simp [schedWire]

theorem inp_cons_schedWire (L : List (NodeId × Op)) (r : Reg) :
    ∃ l1, NodeId.inp r :: schedWire L r = l1 ++ [lastOn L r] := by
  unfold lastOn
  rcases List.eq_nil_or_concat (schedWire L r) with h | ⟨l, a, h⟩
  · rw [h]; exact ⟨[], rfl⟩
  · rw [h, List.concat_eq_append, List.getLast?_concat]
    exact ⟨NodeId.inp r :: l, rfl⟩

section static
variable {c : Dag} {P : Paths} {L : List (NodeId × Op)}

theorem Sched.op_node (hS : Sched c P L) {p : NodeId × Op} (hp : p ∈ L) :
    ∃ i o, p.1 = NodeId.op i ∧ (NodeId.op i, o) ∈ c.nodes ∧ p.2 = wiredOp P (.op i) o := by
  obtain ⟨⟨i, hi⟩, o, hm, ho⟩ := (hS.nodes p).mp hp
  refine ⟨i, o, hi, ?_, ?_⟩
  · rw [← hi]; exact hm
  · rw [← hi]; exact ho

theorem Sched.mem_nodeIds (hS : Sched c P L) {p : NodeId × Op} (hp : p ∈ L) : p.1 ∈ c.nodeIds := by
  obtain ⟨_, o, hm, _⟩ := (hS.nodes p).mp hp
  exact Dag.mem_nodeIds.mpr ⟨o, hm⟩

theorem Sched.mem_of_node (hS : Sched c P L) {i : Nat} {o : Op} (hm : (NodeId.op i, o) ∈ c.nodes) :
    (NodeId.op i, wiredOp P (.op i) o) ∈ L := (hS.nodes _).mpr ⟨⟨i, rfl⟩, o, hm, rfl⟩

/-- the wire of a register of the operation at a split point of the schedule -/
theorem Sched.wire_split (hS : Sched c P L) {pre suf : List (NodeId × Op)} {p : NodeId × Op} (hL : L = pre ++ p :: suf)
    {r : Reg} (hr : r ∈ opRegs p.2) :
    ∃ l1, P r = l1 ++ lastOn pre r :: p.1 :: (schedWire suf r ++ [.out r]) := by
  have hl : c.live r := hS.live p (by rw [hL]; simp) r hr
  obtain ⟨l1, h1⟩ := inp_cons_schedWire pre r
  refine ⟨l1, ?_⟩
  rw [hS.wire r hl, hL, schedWire_append, schedWire_cons_pos hr]
  calc NodeId.inp r :: (schedWire pre r ++ p.1 :: schedWire suf r ++ [NodeId.out r])
      = (NodeId.inp r :: schedWire pre r) ++ p.1 :: (schedWire suf r ++ [NodeId.out r]) := by simp
    _ = _ := by rw [h1]; simp

/-- the in-edges of the node at a split point: one per register of its operation, from the last earlier node on it -/
theorem Sched.inEdges_split (g : Good c P) (hS : Sched c P L) {pre suf : List (NodeId × Op)} {p : NodeId × Op}
    (hL : L = pre ++ p :: suf) (e : Edge) :
    (e ∈ c.edges ∧ e.dst = p.1) ↔ ∃ r ∈ opRegs p.2, e = ⟨lastOn pre r, p.1, r⟩ := by
  have hpL : p ∈ L := by rw [hL]; simp
  constructor
  · rintro ⟨he, hd⟩
    have hc := (g.inv.edges_iff e).mp he
    rw [hd] at hc
    have hmem := hc.mem.2
    have hl : c.live e.key := by
      by_cases hl : c.live e.key
      · exact hl
      · rw [g.inv.dead _ hl] at hmem; simp at hmem
    obtain ⟨i, _, hi, _, _⟩ := hS.op_node hpL
    have hr : e.key ∈ opRegs p.2 := by
      rw [hS.wire _ hl, hi] at hmem
      have : NodeId.op i ∈ schedWire L e.key := by simpa using hmem
      obtain ⟨q, hq, hqr, hq1⟩ := mem_schedWire.mp this
      have : q = p := fst_inj_of_nodup hS.nodup hq hpL (by rw [hq1, hi])
      rw [← this]; exact hqr
    obtain ⟨l1, hP⟩ := hS.wire_split hL hr
    have hc2 : Consec (P e.key) (lastOn pre e.key) p.1 := consec_iff_append.mpr ⟨l1, _, hP⟩
    have := consec_pred_unique (g.inv.nodup e.key) hc hc2
    refine ⟨e.key, hr, ?_⟩
    obtain ⟨s, d, k⟩ := e
    simp only at hd this ⊢
    rw [hd, this]
  · rintro ⟨r, hr, rfl⟩
    refine ⟨?_, rfl⟩
    rw [g.inv.edges_iff]
    obtain ⟨l1, hP⟩ := hS.wire_split hL hr
    exact consec_iff_append.mpr ⟨l1, _, hP⟩

/-- depth invariant of a prefix of the schedule: the last node of the prefix on every register has the ASAP front of
    the register (minus one; the input node: −1) -/
def FrontDepth (c : Dag) (pre : List (NodeId × Op)) : Prop :=
  ∀ r, c.live r → HasDepth c (lastOn pre r) ((Spec.frontGet (Spec.fronts (pre.map (·.2))) r : Int) - 1)

theorem frontDepth_nil (g : Good c P) : FrontDepth c [] := by
  intro r hl
  rw [lastOn_nil]
  have : ((Spec.frontGet (Spec.fronts (([] : List (NodeId × Op)).map (·.2))) r : Nat) : Int) - 1 = -1 := by
    simp [Spec.fronts, Spec.frontGet]
  rw [this]
  exact HasDepth.input (isInputNode_inp g.inv hl)

theorem sched_depth_step (g : Good c P) (hS : Sched c P L) (hkey : ∀ p ∈ L, "Input" ∉ p.2.indexKeys)
    {pre suf : List (NodeId × Op)} {p : NodeId × Op} (hL : L = pre ++ p :: suf) (hF : FrontDepth c pre) :
    HasDepth c p.1 ((Spec.layerOf (Spec.fronts (pre.map (·.2))) p.2 : Int) - 1) ∧ FrontDepth c (pre ++ [p]) := by
  have hpL : p ∈ L := by rw [hL]; simp
  obtain ⟨i, o, hi, hnode, hpo⟩ := hS.op_node hpL
  have hwf : OpWF p.2 := hpo ▸ wiredOp_wf (g.inv.op_wf i o hnode)
  obtain ⟨a1, a2, a3⟩ := foldl_max_nat (fun r => Spec.frontGet (Spec.fronts (pre.map (·.2))) r) (opRegs p.2) 0
  have hne : opRegs p.2 ≠ [] := by
    unfold opRegs; intro h
    exact hwf.qregs_ne (List.append_eq_nil_iff.mp h).1
  have hex : ∃ k ∈ opRegs p.2, Spec.frontGet (Spec.fronts (pre.map (·.2))) k =
      (opRegs p.2).foldl (fun m r => max m (Spec.frontGet (Spec.fronts (pre.map (·.2))) r)) 0 := by
    rcases a3 with h0 | h
    · obtain ⟨k, hk⟩ := List.exists_mem_of_ne_nil _ hne
      exact ⟨k, hk, by have := a2 k hk; omega⟩
    · exact h
  have hlayer : Spec.layerOf (Spec.fronts (pre.map (·.2))) p.2 =
      1 + (opRegs p.2).foldl (fun m r => max m (Spec.frontGet (Spec.fronts (pre.map (·.2))) r)) 0 := rfl
  have hnin : ¬ isInputNode c p.1 := by
    rw [isInputNode_iff g.inv, hi]
    unfold keysAt
    rw [(opOf_eq_some g.inv.ids_nodup).mpr hnode]
    have := hkey p hpL
    rw [hpo, wiredOp_indexKeys] at this
    simpa [indexKeysOf] using this
  have hdn : HasDepth c p.1 ((Spec.layerOf (Spec.fronts (pre.map (·.2))) p.2 : Int) - 1) := by
    have : HasDepth c p.1
        (((((opRegs p.2).foldl (fun m r => max m (Spec.frontGet (Spec.fronts (pre.map (·.2))) r)) 0 : Nat) : Int) - 1) + 1) := by
      apply HasDepth.node (fun e => (Spec.frontGet (Spec.fronts (pre.map (·.2))) e.key : Int) - 1) hnin
      · intro e he hd
        obtain ⟨r, hr, rfl⟩ := (hS.inEdges_split g hL e).mp ⟨he, hd⟩
        exact hF r (hS.live p hpL r hr)
      · intro e he hd
        obtain ⟨r, hr, rfl⟩ := (hS.inEdges_split g hL e).mp ⟨he, hd⟩
        have := a2 r hr
        simp only; omega
      · obtain ⟨k, hk, hkM⟩ := hex
        have := (hS.inEdges_split g hL ⟨lastOn pre k, p.1, k⟩).mpr ⟨k, hk, rfl⟩
        exact ⟨_, this.1, this.2, by simp only; omega⟩
    rw [hlayer]
    have e : ((1 + (opRegs p.2).foldl (fun m r => max m (Spec.frontGet (Spec.fronts (pre.map (·.2))) r)) 0 : Nat) : Int) - 1 =
        ((((opRegs p.2).foldl (fun m r => max m (Spec.frontGet (Spec.fronts (pre.map (·.2))) r)) 0 : Nat) : Int) - 1) + 1 := by
      push_cast; omega
    rw [e]; exact this
  refine ⟨hdn, ?_⟩
  intro r hl
  rw [List.map_append, List.map_cons, List.map_nil, fronts_append, frontGet_pushLayer]
  by_cases hr : r ∈ opRegs p.2
  · rw [lastOn_snoc_pos hr, if_pos hr]; exact hdn
  · rw [lastOn_snoc_neg hr, if_neg hr]; exact hF r hl

theorem sched_depth_aux (g : Good c P) (hS : Sched c P L) (hkey : ∀ p ∈ L, "Input" ∉ p.2.indexKeys) :
    ∀ (suf pre : List (NodeId × Op)), L = pre ++ suf → FrontDepth c pre →
      (∀ s1 p s2, suf = s1 ++ p :: s2 →
        HasDepth c p.1 ((Spec.layerOf (Spec.fronts ((pre ++ s1).map (·.2))) p.2 : Int) - 1)) ∧ FrontDepth c L := by
  intro suf
  induction suf with
  | nil =>
    intro pre hL hF
    refine ⟨?_, ?_⟩
    · intro s1 p s2 h; simp at h
    · rw [hL, List.append_nil]; exact hF
  | cons q rest ih =>
    intro pre hL hF
    obtain ⟨hq, hF'⟩ := sched_depth_step g hS hkey hL hF
    obtain ⟨h1, h2⟩ := ih (pre ++ [q]) (by rw [hL]; simp) hF'
    refine ⟨?_, h2⟩
    intro s1 p s2 hsplit
    cases s1 with
    | nil =>
      simp only [List.nil_append, List.cons.injEq] at hsplit
      obtain ⟨rfl, _⟩ := hsplit
      simpa using hq
    | cons a s1' =>
      simp only [List.cons_append, List.cons.injEq] at hsplit
      obtain ⟨rfl, hrest⟩ := hsplit
      have := h1 s1' p s2 hrest
      simpa [List.append_assoc] using this

theorem predOut_eq_lastOn (hS : Sched c P L) {r : Reg} (hl : c.live r) : predOut P r = lastOn L r := by
  unfold predOut
  obtain ⟨l1, h1⟩ := inp_cons_schedWire L r
  have : P r = (l1 ++ [lastOn L r]) ++ [.out r] := by
    rw [hS.wire r hl, ← h1]; simp
  rw [this, List.dropLast_concat, List.getLast?_concat]
  rfl

/-- **static depth theorem**: on a circuit with DagInv and a schedule `L`, the node at every split point of `L` has depth
    "ASAP layer of its operation − 1", and every output node has the ASAP depth of its register -/
theorem sched_depth (g : Good c P) (hS : Sched c P L) (hkey : ∀ p ∈ L, "Input" ∉ p.2.indexKeys) :
    (∀ pre p suf, L = pre ++ p :: suf →
      HasDepth c p.1 ((Spec.layerOf (Spec.fronts (pre.map (·.2))) p.2 : Int) - 1)) ∧
    (∀ r, c.live r → HasDepth c (.out r) (Spec.regDepth (L.map (·.2)) r : Int)) := by
  obtain ⟨h1, h2⟩ := sched_depth_aux g hS hkey L [] rfl (frontDepth_nil g)
  refine ⟨fun pre p suf hL => by simpa using h1 pre p suf hL, ?_⟩
  intro r hl
  have := HasDepth.out_of_pred g.inv hl (d := (Spec.frontGet (Spec.fronts (L.map (·.2))) r : Int) - 1)
    (by rw [predOut_eq_lastOn hS hl]; exact h2 r hl)
  have e : (Spec.frontGet (Spec.fronts (L.map (·.2))) r : Int) - 1 + 1 = (Spec.regDepth (L.map (·.2)) r : Int) := by
    unfold Spec.regDepth; omega
  rw [e] at this; exact this

end static

end Metrics
end Graphiq
