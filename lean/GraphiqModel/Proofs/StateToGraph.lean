/-
  Proofs/StateToGraph.lean — soundness of the modelled `state_to_graph` / `stabilizer_to_graph`:
  whenever the model returns `(graph, gates)`, running the gates on the input tableau gives a tableau that generates exactly
  the signed group of the graph state.  For every n, every input, every candidate inverse in `_graph_finder`.
-/
import GraphiqModel.Proofs.StateToGraphBits
import GraphiqModel.Proofs.StateToGraphCanon
import GraphiqModel.Proofs.Convert
namespace Graphiq
open PRow Tab STab S2G

/-! ### running a gate list: rows, spans -/

theorem runCircuit_n (t : STab) (c : List Gate) : (t.runCircuit c).n = t.n := by
  induction c generalizing t with
  | nil => rfl
  | cons g rest ih => simp only [STab.runCircuit, List.foldl]; exact ih _

theorem runCircuit_cons (t : STab) (g : Gate) (c : List Gate) :
    t.runCircuit (g :: c) = ((t.applyGate g).norm).runCircuit c := rfl

theorem runCircuit_append (t : STab) (c d : List Gate) : t.runCircuit (c ++ d) = (t.runCircuit c).runCircuit d := by
  simp [STab.runCircuit, List.foldl_append]

/-- row `i` of the result is the image of row `i` -/
theorem runCircuit_row (t : STab) (c : List Gate) (hc : ∀ g, g ∈ c → g.WF t.n) (i : Nat) (hi : i < t.n) :
    EqOn t.n ((t.runCircuit c).row i) (actCirc c (t.row i)) := by
  induction c generalizing t with
  | nil => exact EqOn.refl _ _
  | cons g rest ih =>
    rw [runCircuit_cons]
    have hrest : ∀ g', g' ∈ rest → g'.WF t.n := fun g' hg' => hc g' (List.mem_cons_of_mem _ hg')
    have h1 := ih ((t.applyGate g).norm) hrest hi
    have h2 : EqOn t.n (((t.applyGate g).norm).row i) (g.act (t.row i)) := norm_row (t.applyGate g) i hi
    exact h1.trans (actCirc_congr t.n rest hrest _ _ h2)

theorem tracks_runCircuit (t : STab) (hg : t.Good) (c : List Gate) (hc : ∀ g, g ∈ c → g.WF t.n) :
    Tracks t { t := t.runCircuit c, circ := c } := by
  have key : ∀ (l : List Gate) (st : InvState), (∀ g, g ∈ l → g.WF t.n) → Tracks t st →
      Tracks t { t := st.t.runCircuit l, circ := st.circ ++ l } := by
    intro l
    induction l with
    | nil =>
      intro st _ h
      have : ({ t := st.t.runCircuit [], circ := st.circ ++ [] } : InvState) = st := by
        cases st; simp [STab.runCircuit]
      rw [this]; exact h
    | cons g rest ih =>
      intro st hl h
      have hg' : g.WF st.t.n := by rw [h.n_eq]; exact hl g List.mem_cons_self
      have := ih (st.gate g) (fun g' hg'' => hl g' (List.mem_cons_of_mem _ hg'')) (tracks_gate t st g h hg')
      simpa [InvState.gate, runCircuit_cons] using this
  simpa using key c { t := t, circ := [] } hc (tracks_init t hg)

/-- equal signed groups stay equal under a gate list -/
theorem runCircuit_spanEq (a b : STab) (c : List Gate) (hc : ∀ g, g ∈ c → g.WF a.n) (hab : SpanEq a b)
    (ha : a.Good) (hb : b.Good) : SpanEq (a.runCircuit c) (b.runCircuit c) := by
  have ta := tracks_runCircuit a ha c hc
  have tb := tracks_runCircuit b hb c (fun g hg => hab.n_eq ▸ hc g hg)
  refine ⟨by rw [runCircuit_n, runCircuit_n]; exact hab.n_eq, ?_, ?_⟩
  · intro q hq
    obtain ⟨p, hp, e⟩ := ta.bwd q hq
    have := tb.fwd p (hab.sub p hp)
    have e' : EqOn (b.runCircuit c).n (actCirc c p) q := by
      rw [runCircuit_n, ← hab.n_eq]; exact e
    exact InSpan.eqv _ _ this e'
  · intro q hq
    obtain ⟨p, hp, e⟩ := tb.bwd q hq
    have := ta.fwd p (hab.sup p hp)
    have e' : EqOn (a.runCircuit c).n (actCirc c p) q := by
      rw [runCircuit_n, hab.n_eq]; exact e
    exact InSpan.eqv _ _ this e'

/-! ### the bits of a row after `H…` and `P_dag…` -/

theorem actCirc_H_bits (l : List Nat) (hl : l.Nodup) (p : PRow) (j : Nat) :
    (actCirc (l.map Gate.H) p).x j = hx l p.x p.z j ∧ (actCirc (l.map Gate.H) p).z j = hx l p.z p.x j ∧
    (actCirc (l.map Gate.H) p).ip = p.ip := by
  induction l generalizing p with
  | nil => simp [actCirc, hx]
  | cons q rest ih =>
    have hq : q ∉ rest := (List.nodup_cons.mp hl).1
    have e : actCirc ((q :: rest).map Gate.H) p = actCirc (rest.map Gate.H) (PRow.h q p) := rfl
    rw [e]
    obtain ⟨i1, i2, i3⟩ := ih (List.nodup_cons.mp hl).2 (PRow.h q p)
    rw [i1, i2, i3]
    simp only [hx, List.contains_cons]
    by_cases hj : j = q
    · subst hj
      simp [hq, PRow.h]
    · have hne : (j == q) = false := by simp [hj]
      simp only [hne, Bool.false_or]
      split <;> simp [PRow.h, hj]

theorem sdg_bits (q : Nat) (p : PRow) (j : Nat) :
    (PRow.sdg q p).x j = p.x j ∧ (PRow.sdg q p).z j = (if j = q then xor (p.z j) (p.x j) else p.z j) ∧
    (PRow.sdg q p).ip = p.ip := by
  refine ⟨rfl, ?_, rfl⟩
  simp only [PRow.sdg, PRow.s]
  by_cases hj : j = q
  · subst hj; simp
  · simp [hj]

theorem actCirc_Pdag_bits (l : List Nat) (hl : l.Nodup) (p : PRow) (j : Nat) :
    (actCirc (l.map Gate.Pdag) p).x j = p.x j ∧
    (actCirc (l.map Gate.Pdag) p).z j = xor (p.z j) (l.contains j && p.x j) ∧
    (actCirc (l.map Gate.Pdag) p).ip = p.ip := by
  induction l generalizing p with
  | nil => simp [actCirc]
  | cons q rest ih =>
    have hq : q ∉ rest := (List.nodup_cons.mp hl).1
    have e : actCirc ((q :: rest).map Gate.Pdag) p = actCirc (rest.map Gate.Pdag) (PRow.sdg q p) := rfl
    rw [e]
    obtain ⟨i1, i2, i3⟩ := ih (List.nodup_cons.mp hl).2 (PRow.sdg q p)
    obtain ⟨s1, s2, s3⟩ := sdg_bits q p j
    rw [i1, i2, i3, s1, s2, s3]
    refine ⟨rfl, ?_, rfl⟩
    simp only [List.contains_cons]
    by_cases hj : j = q
    · subst hj
      simp [hq]
    · have hne : (j == q) = false := by simp [hj]
      simp [hne, hj]

theorem actCirc_app (c d : List Gate) (p : PRow) : actCirc (c ++ d) p = actCirc d (actCirc c p) := by
  simp [actCirc, List.foldl_append]

/-- bits of a row after the local-Clifford part of the gate list -/
theorem actCirc_lcGates_bits (hpos zdiag : List Nat) (h1 : hpos.Nodup) (h2 : zdiag.Nodup) (p : PRow) (j : Nat) :
    (actCirc (lcGates hpos zdiag) p).x j = hx hpos p.x p.z j ∧
    (actCirc (lcGates hpos zdiag) p).z j = xor (hx hpos p.z p.x j) (zdiag.contains j && hx hpos p.x p.z j) ∧
    (actCirc (lcGates hpos zdiag) p).ip = p.ip := by
  unfold lcGates
  rw [actCirc_app]
  obtain ⟨a1, a2, a3⟩ := actCirc_Pdag_bits zdiag h2 (actCirc (hpos.map Gate.H) p) j
  obtain ⟨b1, b2, b3⟩ := actCirc_H_bits hpos h1 p j
  rw [a1, a2, a3, b1, b2, b3]
  exact ⟨rfl, rfl, rfl⟩

theorem lcGates_wf (n : Nat) (hpos zdiag : List Nat) (h1 : ∀ q, q ∈ hpos → q < n) (h2 : ∀ q, q ∈ zdiag → q < n) :
    ∀ g, g ∈ lcGates hpos zdiag → g.WF n := by
  intro g hg
  simp only [lcGates, List.mem_append, List.mem_map] at hg
  rcases hg with ⟨q, hq, e⟩ | ⟨q, hq, e⟩
  · rw [← e]; exact h1 q hq
  · rw [← e]; exact h2 q hq

/-! ### rows of the form `z = x · A` -/

/-- the Z part of the row is its X part times the matrix `A` -/
def GraphBits (n : Nat) (A : Adj) (p : PRow) : Prop := ∀ j, j < n → p.z j = parityTo n (fun k => p.x k && A k j)

theorem graphBits_span (S : STab) (A : Adj) (hrows : ∀ i, i < S.n → GraphBits S.n A (S.row i)) (p : PRow)
    (hp : S.Spn p) : GraphBits S.n A p := by
  unfold Spn at hp
  induction hp with
  | one => intro j _; symm; apply parityTo_zero; intro k _; simp [PRow.one]
  | gen i hi => exact hrows i hi
  | mul a b _ _ iha ihb =>
    intro j hj
    rw [mul_z, iha j hj, ihb j hj, ← parityTo_xor]
    apply parityTo_congr
    intro k _
    rw [mul_x]
    cases a.x k <;> cases b.x k <;> simp
  | eqv a b _ hab iha =>
    intro j hj
    rw [← (hab.1 j hj).2, iha j hj]
    apply parityTo_congr
    intro k hk
    rw [(hab.1 k hk).1]

/-- two such rows commute when `A` is symmetric -/
theorem sp_of_graphBits (n : Nat) (A : Adj) (hsym : ∀ i j, i < n → j < n → A i j = A j i) (a b : PRow)
    (ha : GraphBits n A a) (hb : GraphBits n A b) : sp n a b = false := by
  unfold sp
  rw [parityTo_xor]
  have e1 : parityTo n (fun j => a.x j && b.z j) =
      parityTo n (fun j => parityTo n (fun k => a.x j && (b.x k && A k j))) := by
    apply parityTo_congr
    intro j hj
    rw [hb j hj, and_parityTo]
  have e2 : parityTo n (fun j => a.z j && b.x j) =
      parityTo n (fun j => parityTo n (fun k => a.x j && (b.x k && A k j))) := by
    have : parityTo n (fun j => a.z j && b.x j) =
        parityTo n (fun j => parityTo n (fun k => (a.x k && A k j) && b.x j)) := by
      apply parityTo_congr
      intro j hj
      rw [ha j hj, parityTo_and]
    rw [this, parityTo_comm]
    apply parityTo_congr
    intro j hj
    apply parityTo_congr
    intro k hk
    rw [hsym j k hj hk]
    cases a.x j <;> cases b.x k <;> cases A k j <;> rfl
  rw [e1, e2]; simp

/-- every GF(2) combination of the rows' bits is the bit pattern of an element of the signed group -/
theorem bspan_spn (t : STab) (a b : Nat → Bool)
    (h : BSpan t.n t.n (XZ.ofSTab t).x (XZ.ofSTab t).z a b) :
    ∃ p, t.Spn p ∧ ∀ k, k < t.n → p.x k = a k ∧ p.z k = b k := by
  induction h with
  | zero => exact ⟨PRow.one, InSpan.one, fun k _ => ⟨rfl, rfl⟩⟩
  | gen i hi => exact ⟨t.row i, InSpan.gen i hi, fun k _ => ⟨rfl, rfl⟩⟩
  | add a b a' b' _ _ ih1 ih2 =>
    obtain ⟨p, hp, ep⟩ := ih1
    obtain ⟨q, hq, eq⟩ := ih2
    refine ⟨PRow.mul t.n p q, InSpan.mul _ _ hp hq, fun k hk => ?_⟩
    rw [mul_x, mul_z, (ep k hk).1, (ep k hk).2, (eq k hk).1, (eq k hk).2]
    exact ⟨rfl, rfl⟩
  | ext a b a' b' _ he ih =>
    obtain ⟨p, hp, ep⟩ := ih
    exact ⟨p, hp, fun k hk => ⟨(ep k hk).1.trans (he k hk).1, (ep k hk).2.trans (he k hk).2⟩⟩

theorem actCirc_sp (n : Nat) (c : List Gate) (hc : ∀ g, g ∈ c → g.WF n) (a b : PRow) :
    sp n (actCirc c a) (actCirc c b) = sp n a b := by
  induction c generalizing a b with
  | nil => rfl
  | cons g rest ih =>
    have e : ∀ p, actCirc (g :: rest) p = actCirc rest (g.act p) := fun _ => rfl
    rw [e, e, ih (fun g' hg' => hc g' (List.mem_cons_of_mem _ hg')), (g.isAut n (hc g List.mem_cons_self)).sp]

theorem actCirc_ip (c : List Gate) (a : PRow) : (actCirc c a).ip = a.ip := by
  induction c generalizing a with
  | nil => rfl
  | cons g rest ih =>
    have e : actCirc (g :: rest) a = actCirc rest (g.act a) := rfl
    rw [e, ih, Gate.act_ip]

/-! ### the state after the local-Clifford gates found by `_graph_finder` -/

/-- what `_graph_finder` establishes about the input tableau and the tableau after `H…, P_dag…` -/
structure AfterLC (t : STab) (g : GraphFinderOut) : Prop where
  wf : ∀ g', g' ∈ lcGates g.hpos g.zdiag → g'.WF t.n
  good : t.Good
  sym : ∀ i j, i < t.n → j < t.n → g.adj.f i j = g.adj.f j i
  irrefl : ∀ i, i < t.n → g.adj.f i i = false
  /-- every element of the transformed group has `z = x · A` -/
  bits : ∀ p, (t.runCircuit (lcGates g.hpos g.zdiag)).Spn p → GraphBits t.n g.adj.f p
  /-- and the transformed group contains an element with X part `e_j` for every `j` -/
  full : ∀ j, j < t.n → ∃ p, (t.runCircuit (lcGates g.hpos g.zdiag)).Spn p ∧ ∀ k, k < t.n → p.x k = decide (k = j)

theorem afterLC_of_spec (t : STab) (hreal : ∀ i, i < t.n → (t.row i).ip = false) (g : GraphFinderOut)
    (hs : GFSpec (XZ.ofSTab t) g) : AfterLC t g := by
  have hn : (XZ.ofSTab t).n = t.n := rfl
  have wf := lcGates_wf t.n g.hpos g.zdiag hs.hpos_lt hs.zdiag_lt
  let t2 := t.runCircuit (lcGates g.hpos g.zdiag)
  have hn2 : t2.n = t.n := runCircuit_n _ _
  -- bits of the transformed rows
  have rowbits : ∀ i, i < t.n → GraphBits t.n g.adj.f (t2.row i) := by
    intro i hi j hj
    have er := runCircuit_row t _ wf i hi
    have bj := actCirc_lcGates_bits g.hpos g.zdiag hs.hpos_nodup hs.zdiag_nodup (t.row i)
    rw [(er.1 j hj).2, (bj j).2.1]
    have hrow := hs.rows i hi j hj
    have hrow' : hx g.hpos (t.row i).z (t.row i).x j =
        parityTo t.n (fun k => hx g.hpos (t.row i).x (t.row i).z k &&
          xor (g.adj.f k j) (decide (k = j) && g.zdiag.contains j)) := hrow
    rw [hrow']
    have split : parityTo t.n (fun k => hx g.hpos (t.row i).x (t.row i).z k &&
          xor (g.adj.f k j) (decide (k = j) && g.zdiag.contains j)) =
        xor (parityTo t.n (fun k => hx g.hpos (t.row i).x (t.row i).z k && g.adj.f k j))
          (hx g.hpos (t.row i).x (t.row i).z j && g.zdiag.contains j) := by
      rw [← parityTo_single t.n j (fun k => hx g.hpos (t.row i).x (t.row i).z k && g.zdiag.contains j) hj,
        ← parityTo_xor]
      apply parityTo_congr
      intro k _
      by_cases hk : k = j
      · subst hk; cases hx g.hpos (t.row i).x (t.row i).z k <;> cases g.adj.f k k <;> cases g.zdiag.contains k <;> simp
      · simp [hk]
    rw [split]
    have ex : ∀ k, k < t.n → (t2.row i).x k = hx g.hpos (t.row i).x (t.row i).z k := by
      intro k hk; rw [(er.1 k hk).1, (bj k).1]
    rw [parityTo_congr t.n (fun k => (t2.row i).x k && g.adj.f k j)
      (fun k => hx g.hpos (t.row i).x (t.row i).z k && g.adj.f k j) (fun k hk => by rw [ex k hk])]
    cases parityTo t.n (fun k => hx g.hpos (t.row i).x (t.row i).z k && g.adj.f k j) <;>
      cases hx g.hpos (t.row i).x (t.row i).z j <;> cases g.zdiag.contains j <;> rfl
  -- the input rows commute
  have good : t.Good := by
    refine ⟨hreal, fun i k hi hk => ?_⟩
    have e1 := runCircuit_row t _ wf i hi
    have e2 := runCircuit_row t _ wf k hk
    rw [← actCirc_sp t.n _ wf, ← sp_eqOn t.n _ _ _ _ e1 e2]
    exact sp_of_graphBits t.n g.adj.f hs.sym _ _ (rowbits i hi) (rowbits k hk)
  have tr := tracks_runCircuit t good _ wf
  refine ⟨wf, good, hs.sym, hs.irrefl, ?_, ?_⟩
  · intro p hp
    have := graphBits_span t2 g.adj.f (fun i hi => by rw [hn2] at hi ⊢; exact rowbits i hi) p hp
    rw [hn2] at this; exact this
  · intro j hj
    obtain ⟨a, b, hab, hxe⟩ := hs.full j hj
    obtain ⟨p, hp, ep⟩ := bspan_spn t a b hab
    refine ⟨actCirc (lcGates g.hpos g.zdiag) p, tr.fwd p hp, fun k hk => ?_⟩
    rw [(actCirc_lcGates_bits g.hpos g.zdiag hs.hpos_nodup hs.zdiag_nodup p k).1, ← hxe k hk]
    simp only [hx]
    split
    · exact (ep k hk).2
    · exact (ep k hk).1

/-! ### the graph-state tableau -/

theorem graphSTab_graphBits (n : Nat) (A : Adj) (i : Nat) (hi : i < n) : GraphBits n A ((graphSTab n A).row i) := by
  intro j hj
  show (decide (j < n) && A i j) = parityTo n (fun k => decide (k = i) && A k j)
  rw [parityTo_single n i (fun k => A k j) hi]
  simp [hj]

theorem graphSTab_good (n : Nat) (A : Adj) (hsym : ∀ i j, i < n → j < n → A i j = A j i) : (graphSTab n A).Good :=
  ⟨fun _ _ => rfl, fun i k hi hk =>
    sp_of_graphBits n A hsym _ _ (graphSTab_graphBits n A i hi) (graphSTab_graphBits n A k hk)⟩

theorem graphSTab_xcols (n : Nat) (A : Adj) : XCols (graphSTab n A) n := fun _ _ _ _ => rfl

/-- `canonical_form` of the graph-state tableau returns it unchanged (up to tabulation) -/
theorem canonicalForm_graphSTab (n : Nat) (A : Adj) (hsym : ∀ i j, i < n → j < n → A i j = A j i) :
    ∃ c, (graphSTab n A).canonicalForm = .ok c ∧ c.n = n ∧ ∀ m, m < n → EqOn n (c.row m) ((graphSTab n A).row m) :=
  canonicalForm_idX (graphSTab n A) (graphSTab_good n A hsym) (graphSTab_xcols n A)

/-! ### exact inverse of the identity matrix -/

theorem gjStep_id (n : Nat) (s : GJ) (c : Nat) (hc : c < n) (hr : s.a.r = n ∧ s.a.c = n ∧ s.m.r = n ∧ s.m.c = n)
    (ha : ∀ i j, i < n → j < n → s.a.f i j = decide (i = j)) (hm : ∀ i j, i < n → j < n → s.m.f i j = decide (i = j)) :
    ∃ s', gjStep n (some s) c = some s' ∧ (s'.a.r = n ∧ s'.a.c = n ∧ s'.m.r = n ∧ s'.m.c = n) ∧
      (∀ i j, i < n → j < n → s'.a.f i j = decide (i = j)) ∧ (∀ i j, i < n → j < n → s'.m.f i j = decide (i = j)) := by
  have hmemc : c ∈ (List.range n).filter fun i => decide (c ≤ i) && s.a.f i c := by
    simp only [List.mem_filter, List.mem_range, Bool.and_eq_true, decide_eq_true_eq]
    exact ⟨hc, Nat.le_refl c, by rw [ha c c hc hc]; simp⟩
  cases hh : ((List.range n).filter fun i => decide (c ≤ i) && s.a.f i c).head? with
  | none =>
    rw [List.head?_eq_none_iff] at hh
    rw [hh] at hmemc; cases hmemc
  | some p =>
    have hp := List.mem_of_mem_head? hh
    simp only [List.mem_filter, List.mem_range, Bool.and_eq_true, decide_eq_true_eq] at hp
    have hpc : p = c := by
      have := hp.2.2
      rw [ha p c hp.1 hc] at this
      simpa using this
    subst hpc
    have sw : ∀ (A : Adj) i, swapRows A p p i = A i := by
      intro A i; simp only [swapRows]; by_cases h : i = p <;> simp [h]
    have hstep : gjStep n (some s) p = some
        { a := (BMat.ofAdj n fun i j => if i ≠ p ∧ swapRows s.a.f p p i p = true
              then xor (swapRows s.a.f p p i j) (swapRows s.a.f p p p j) else swapRows s.a.f p p i j).norm
          m := (BMat.ofAdj n fun i j => if i ≠ p ∧ swapRows s.a.f p p i p = true
              then xor (swapRows s.m.f p p i j) (swapRows s.m.f p p p j) else swapRows s.m.f p p i j).norm } := by
      simp only [gjStep, hh]
    refine ⟨_, hstep, ⟨rfl, rfl, rfl, rfl⟩, ?_, ?_⟩
    · intro i j hi hj
      rw [BMat.norm_agree _ i j hi hj]
      simp only [BMat.ofAdj, sw]
      rw [ha i p hi hc, ha i j hi hj]
      by_cases h : i = p
      · simp [h]
      · simp [h]
    · intro i j hi hj
      rw [BMat.norm_agree _ i j hi hj]
      simp only [BMat.ofAdj, sw]
      rw [ha i p hi hc, hm i j hi hj]
      by_cases h : i = p
      · simp [h]
      · simp [h]

theorem gf2Inv_id (n : Nat) (X : Adj) (hX : ∀ i j, i < n → j < n → X i j = decide (i = j)) :
    ∃ M, gf2Inv n X = some M ∧ ∀ i j, i < n → j < n → M.f i j = decide (i = j) := by
  have key : ∀ k, k ≤ n → ∃ s, (List.range k).foldl (gjStep n) (some { a := BMat.ofAdj n X, m := BMat.ofAdj n idM }) = some s ∧
      (s.a.r = n ∧ s.a.c = n ∧ s.m.r = n ∧ s.m.c = n) ∧
      (∀ i j, i < n → j < n → s.a.f i j = decide (i = j)) ∧ (∀ i j, i < n → j < n → s.m.f i j = decide (i = j)) := by
    intro k
    induction k with
    | zero => intro _; exact ⟨_, rfl, ⟨rfl, rfl, rfl, rfl⟩, hX, fun i j _ _ => rfl⟩
    | succ k ih =>
      intro hk
      obtain ⟨s, e, hr, ha, hm⟩ := ih (by omega)
      obtain ⟨s', e', hr', ha', hm'⟩ := gjStep_id n s k (by omega) hr ha hm
      exact ⟨s', by rw [foldl_range_succ, e, e'], hr', ha', hm'⟩
  obtain ⟨s, e, _, _, hm⟩ := key n (Nat.le_refl n)
  exact ⟨s.m, by simp only [gf2Inv, e, Option.map_some], hm⟩

/-! ### `Z` gates -/

theorem zg_spec (q : Nat) (p : PRow) :
    (∀ j, (PRow.zg q p).x j = p.x j) ∧ (∀ j, (PRow.zg q p).z j = p.z j) ∧ (PRow.zg q p).r = xor p.r (p.x q) ∧
    (PRow.zg q p).ip = p.ip := by
  refine ⟨fun j => rfl, fun j => ?_, ?_, rfl⟩
  · simp only [PRow.zg, PRow.s]
    by_cases h : j = q
    · subst h; simp
    · simp [h]
  · simp only [PRow.zg, PRow.s]
    cases p.r <;> cases p.x q <;> cases p.z q <;> simp

/-- `Z` on distinct qubits of a row whose X part is `e_i`: only the sign changes, and it flips iff `i` is among the qubits -/
theorem actCirc_Z (n i : Nat) (l : List Nat) (hl : l.Nodup) (hln : ∀ q, q ∈ l → q < n) (p : PRow)
    (hpx : ∀ k, k < n → p.x k = decide (k = i)) :
    (∀ j, (actCirc (l.map Gate.Z) p).x j = p.x j) ∧ (∀ j, (actCirc (l.map Gate.Z) p).z j = p.z j) ∧
    (actCirc (l.map Gate.Z) p).r = xor p.r (l.contains i) ∧ (actCirc (l.map Gate.Z) p).ip = p.ip := by
  induction l generalizing p with
  | nil => simp [actCirc]
  | cons q rest ih =>
    have e : actCirc ((q :: rest).map Gate.Z) p = actCirc (rest.map Gate.Z) (PRow.zg q p) := rfl
    obtain ⟨z1, z2, z3, z4⟩ := zg_spec q p
    have hq : q ∉ rest := (List.nodup_cons.mp hl).1
    obtain ⟨i1, i2, i3, i4⟩ := ih (List.nodup_cons.mp hl).2 (fun q' hq' => hln q' (List.mem_cons_of_mem _ hq'))
      (PRow.zg q p) (fun k hk => by rw [z1 k]; exact hpx k hk)
    rw [e]
    refine ⟨fun j => by rw [i1 j, z1 j], fun j => by rw [i2 j, z2 j], ?_, by rw [i4, z4]⟩
    rw [i3, z3, hpx q (hln q List.mem_cons_self)]
    simp only [List.contains_cons]
    by_cases h : i = q
    · subst h
      simp [hq]
    · have h' : ¬ (q = i) := fun e => h e.symm
      have hne : (i == q) = false := by simp [h]
      simp [h', hne]

/-! ### `_phase_correction` and the final statement -/

theorem phaseCorrection_unfold (t gt : STab) (gates zs : List Gate) (e : phaseCorrection t gt gates = .ok zs) :
    ∃ tab1 tab2 newTab xinv, t.canonicalForm = .ok tab1 ∧ gt.canonicalForm = .ok tab2 ∧
      (tab1.runCircuit gates).canonicalForm = .ok newTab ∧
      gf2Inv newTab.n (fun i j => (newTab.row i).x j) = some xinv ∧
      zs = ((List.range newTab.n).filter fun i =>
        parityTo newTab.n fun k => xinv.f i k && xor (tab2.row k).r (newTab.row k).r).map Gate.Z := by
  unfold phaseCorrection at e
  split at e
  · cases e
  · next tab1 h1 =>
    split at e
    · cases e
    · next tab2 h2 =>
      split at e
      · cases e
      · next newTab h3 =>
        simp only at e
        split at e
        · cases e
        · next xinv h4 =>
          injection e with e
          exact ⟨tab1, tab2, newTab, xinv, h1, h2, h3, h4, e.symm⟩

/-- **soundness of the modelled `state_to_graph`**, for every candidate inverse used inside `_graph_finder`:
    the returned gates are in range and map the input tableau onto a tableau generating exactly the signed group of the
    returned graph's state -/
theorem stateToGraphWith_sound (inv : Nat → Adj → Option Adj) (t : STab)
    (hreal : ∀ i, i < t.n → (t.row i).ip = false) (adj : BMat) (gates : List Gate)
    (e : stateToGraphWith inv t = .ok (adj, gates)) :
    (∀ g, g ∈ gates → g.WF t.n) ∧ SpanEq (t.runCircuit gates) (graphSTab t.n adj.f) ∧
    (∀ i j, i < t.n → j < t.n → adj.f i j = adj.f j i) ∧ (∀ i, i < t.n → adj.f i i = false) := by
  unfold stateToGraphWith at e
  split at e
  · cases e
  · next g hg =>
    simp only at e
    split at e
    · cases e
    · next zs hz =>
      injection e with e
      injection e with e1 e2
      subst e1 e2
      have spec := graphFinderWith_spec inv _ g hg
      obtain ⟨Awf, Agood, Asym, Airr, Abits, Afull⟩ := afterLC_of_spec t hreal g spec
      obtain ⟨tab1, tab2, newTab, xinv, c1, c2, c3, c4, ezs⟩ := phaseCorrection_unfold _ _ _ _ hz
      generalize hgates0 : lcGates g.hpos g.zdiag = gates0 at *
      -- canonical form of the input
      obtain ⟨s1, g1⟩ := canonicalForm_spanEq t tab1 Agood c1
      have n1 : tab1.n = t.n := s1.n_eq.symm
      have tr2 := tracks_runCircuit t Agood gates0 Awf
      have wf1 : ∀ g', g' ∈ gates0 → g'.WF tab1.n := fun g' h => n1 ▸ Awf g' h
      have tr0 := tracks_runCircuit tab1 g1 gates0 wf1
      have s20 : SpanEq (t.runCircuit gates0) (tab1.runCircuit gates0) :=
        runCircuit_spanEq t tab1 gates0 Awf s1 Agood g1
      have n0 : (tab1.runCircuit gates0).n = t.n := by rw [runCircuit_n]; exact n1
      -- canonical form of the transformed state: X part = identity
      have hK : ∀ j, j < (tab1.runCircuit gates0).n →
          ∃ p, (tab1.runCircuit gates0).Spn p ∧ ∀ k, k < (tab1.runCircuit gates0).n → p.x k = decide (k = j) := by
        intro j hj
        rw [n0] at hj
        obtain ⟨p, hp, hpx⟩ := Afull j hj
        exact ⟨p, s20.sub p hp, fun k hk => hpx k (n0 ▸ hk)⟩
      obtain ⟨c, ec, cn, sc, gc, xc⟩ := canonicalForm_fullX (tab1.runCircuit gates0) tr0.good hK
      have hcn : c = newTab := by rw [c3] at ec; injection ec with ec; exact ec.symm
      subst hcn
      have nN : c.n = t.n := cn.trans n0
      rw [n0] at xc
      -- canonical form of the graph tableau
      obtain ⟨c', ec', _, rc'⟩ := canonicalForm_graphSTab t.n g.adj.f Asym
      have hc' : c' = tab2 := by rw [c2] at ec'; injection ec' with ec'; exact ec'.symm
      subst hc'
      -- rows of the new tableau
      have rowx : ∀ i k, i < t.n → k < t.n → (c.row i).x k = decide (k = i) :=
        fun i k hi hk => xc i k (nN ▸ hi) hk
      have rowz : ∀ i j, i < t.n → j < t.n → (c.row i).z j = g.adj.f i j := by
        intro i j hi hj
        have hb := Abits (c.row i) (s20.sup _ (sc.sup _ (spn_gen c i (nN ▸ hi)))) j hj
        rw [hb, parityTo_congr t.n _ (fun k => decide (k = i) && g.adj.f k j) (fun k hk => by rw [rowx i k hi hk])]
        exact parityTo_single t.n i (fun k => g.adj.f k j) hi
      have rowip : ∀ i, i < t.n → (c.row i).ip = false := fun i hi => gc.real i (nN ▸ hi)
      -- the exact inverse of the identity is the identity
      obtain ⟨M, eM, hM⟩ := gf2Inv_id c.n (fun i j => (c.row i).x j) (fun i j hi hj => by
        rw [nN] at hi hj
        rw [rowx i j hi hj]
        by_cases h : i = j
        · subst h; simp
        · have : ¬ (j = i) := fun e => h e.symm
          simp [h, this])
      have hMx : M = xinv := by rw [c4] at eM; injection eM with eM; exact eM.symm
      subst hMx
      rw [nN] at hM ezs
      have zops : ∀ i, i < t.n →
          parityTo t.n (fun k => M.f i k && xor (c'.row k).r (c.row k).r) = (c.row i).r := by
        intro i hi
        rw [parityTo_congr t.n _ (fun k => decide (i = k) && xor (c'.row k).r (c.row k).r)
          (fun k hk => by rw [hM i k hi hk])]
        rw [parityTo_single'' t.n i (fun k => xor (c'.row k).r (c.row k).r) hi, (rc' i hi).2.1]
        show xor false (c.row i).r = (c.row i).r
        simp
      generalize hl : ((List.range t.n).filter fun i =>
        parityTo t.n fun k => M.f i k && xor (c'.row k).r (c.row k).r) = l at ezs
      have l_lt : ∀ q, q ∈ l → q < t.n := by
        intro q hq; rw [← hl] at hq; exact List.mem_range.mp (List.mem_filter.mp hq).1
      have l_nodup : l.Nodup := by rw [← hl]; exact List.Nodup.filter _ List.nodup_range
      have l_mem : ∀ i, i < t.n → l.contains i = (c.row i).r := by
        intro i hi
        cases hr : (c.row i).r
        · apply Bool.eq_false_iff.mpr
          intro hc
          have : i ∈ l := by simpa using hc
          rw [← hl] at this
          have := (List.mem_filter.mp this).2
          rw [zops i hi, hr] at this; cases this
        · have : i ∈ l := by
            rw [← hl]
            exact List.mem_filter.mpr ⟨List.mem_range.mpr hi, by rw [zops i hi, hr]⟩
          simpa using this
      subst ezs
      have wfZ : ∀ g', g' ∈ l.map Gate.Z → g'.WF t.n := by
        intro g' hg'
        obtain ⟨q, hq, e⟩ := List.mem_map.mp hg'
        rw [← e]; exact l_lt q hq
      -- rows after the Z gates are the graph-state generators
      have wfZc : ∀ g', g' ∈ l.map Gate.Z → g'.WF c.n := fun g' h => nN ▸ wfZ g' h
      have finalRow : ∀ i, i < t.n → EqOn t.n ((c.runCircuit (l.map Gate.Z)).row i) ((graphSTab t.n g.adj.f).row i) := by
        intro i hi
        have er := runCircuit_row c (l.map Gate.Z) wfZc i (nN ▸ hi)
        rw [nN] at er
        obtain ⟨a1, a2, a3, a4⟩ := actCirc_Z t.n i l l_nodup l_lt (c.row i) (fun k hk => rowx i k hi hk)
        refine er.trans ⟨fun j hj => ⟨?_, ?_⟩, ?_, ?_⟩
        · rw [a1 j, rowx i j hi hj]; rfl
        · rw [a2 j, rowz i j hi hj]
          show g.adj.f i j = (decide (j < t.n) && g.adj.f i j)
          simp [hj]
        · rw [a3, l_mem i hi]
          show xor (c.row i).r (c.row i).r = false
          simp
        · rw [a4, rowip i hi]; rfl
      have nF : (c.runCircuit (l.map Gate.Z)).n = t.n := by rw [runCircuit_n]; exact nN
      have sFinal : SpanEq (c.runCircuit (l.map Gate.Z)) (graphSTab t.n g.adj.f) := by
        apply spanEq_of_gens _ _ (show (graphSTab t.n g.adj.f).n = (c.runCircuit (l.map Gate.Z)).n from nF.symm)
        · intro i hi
          have hi' : i < t.n := hi
          have := spn_gen (c.runCircuit (l.map Gate.Z)) i (nF ▸ hi')
          refine InSpan.eqv _ _ this ?_
          rw [nF]; exact finalRow i hi'
        · intro i hi
          rw [nF] at hi
          have := spn_gen (graphSTab t.n g.adj.f) i hi
          exact InSpan.eqv _ _ this (finalRow i hi).symm
      -- transport along the Z gates
      have wfZ2 : ∀ g', g' ∈ l.map Gate.Z → g'.WF (t.runCircuit gates0).n := by
        intro g' h; rw [runCircuit_n]; exact wfZ g' h
      have sZ := runCircuit_spanEq (t.runCircuit gates0) c (l.map Gate.Z) wfZ2 (s20.trans sc) tr2.good gc
      refine ⟨?_, ?_, Asym, Airr⟩
      · intro g' hg'
        rcases List.mem_append.mp hg' with h | h
        · exact Awf g' h
        · exact wfZ g' h
      · rw [runCircuit_append]
        exact sZ.trans sFinal

/-- equal tableaux (`StabilizerTableau.__eq__`) with real rows generate the same group -/
theorem beq_spanEq (a b : STab) (ha : a.Good) (hb : b.Good) (h : a.beq b = true) : SpanEq a b := by
  unfold STab.beq at h
  simp only [Bool.and_eq_true, beq_iff_eq, List.all_eq_true, List.mem_range] at h
  obtain ⟨hn, hr⟩ := h
  have rows : ∀ i, i < a.n → EqOn a.n (a.row i) (b.row i) := by
    intro i hi
    have := beqOn_eqOn _ _ _ (hr i hi)
    rw [with_ip_false _ (ha.real i hi), with_ip_false _ (hb.real i (hn ▸ hi))] at this
    exact this
  apply spanEq_of_gens a b hn.symm
  · intro i hi
    exact InSpan.eqv _ _ (spn_gen a i (hn ▸ hi)) (rows i (hn ▸ hi))
  · intro i hi
    have := (rows i hi).symm
    rw [hn] at this
    exact InSpan.eqv _ _ (spn_gen b i (hn ▸ hi)) this

/-- **soundness of the modelled `stabilizer_to_graph(validate=True)`**: a returned graph's state is the input state -/
theorem stabilizerToGraph_sound (t : STab) (hreal : ∀ i, i < t.n → (t.row i).ip = false) (adj : BMat)
    (e : stabilizerToGraph t = .ok adj) :
    SpanEq t (graphSTab t.n adj.f) ∧
    (∀ i j, i < t.n → j < t.n → adj.f i j = adj.f j i) ∧ (∀ i, i < t.n → adj.f i i = false) := by
  unfold stabilizerToGraph at e
  split at e
  · cases e
  · next g hg =>
    have A := afterLC_of_spec t hreal g (graphFinder_spec _ g hg)
    split at e
    · cases e
    · next hs =>
      injection e with e
      subst e
      unfold sameStabilizerState at hs
      have hn : ¬ (t.n ≠ (graphSTab t.n g.adj.f).n) := fun h => h rfl
      rw [if_neg hn] at hs
      split at hs
      · cases hs
      · next ca h1 =>
        split at hs
        · cases hs
        · next cb h2 =>
          injection hs with hs
          obtain ⟨s1, g1⟩ := canonicalForm_spanEq t ca A.good h1
          obtain ⟨s2, g2⟩ := canonicalForm_spanEq _ cb (graphSTab_good t.n g.adj.f A.sym) h2
          exact ⟨(s1.trans (beq_spanEq ca cb g1 g2 hs)).trans s2.symm, A.sym, A.irrefl⟩
    · cases e

/-- the same for the model with exact GF(2) arithmetic -/
theorem stateToGraph_sound (t : STab) (hreal : ∀ i, i < t.n → (t.row i).ip = false) (adj : BMat) (gates : List Gate)
    (e : stateToGraph t = .ok (adj, gates)) :
    (∀ g, g ∈ gates → g.WF t.n) ∧ SpanEq (t.runCircuit gates) (graphSTab t.n adj.f) ∧
    (∀ i j, i < t.n → j < t.n → adj.f i j = adj.f j i) ∧ (∀ i, i < t.n → adj.f i i = false) :=
  stateToGraphWith_sound gf2InvF t hreal adj gates e

end Graphiq
