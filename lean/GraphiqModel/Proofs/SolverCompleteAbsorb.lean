/-
  Proofs/SolverCompleteAbsorb.lean — completeness of the time-reversed solver, part 5: the photon absorption.

  `_add_photon_absorption(photon)` RETURNS when (i) some generator has its leftmost non-trivial site at `photon`, (ii) every such
  generator acts on some emitter (`emitter_indices[0]` exists) and (iii) is trivial on the already absorbed photons (so that, once
  its Paulis on the photon and the emitters are turned into `Z`, it has no X/Y left: `assert not np.any(x_matrix[g])`).
  Afterwards column `photon` is literal: the chosen generator is exactly `+Z_photon` and no other generator acts on the photon.
  What happens to the tableau is gates on the photon and the emitters, then witnessed row products (`Reach`).
-/
import GraphiqModel.Proofs.SolverCompleteTrm
namespace Graphiq.Solver
open Graphiq Graphiq.Cliff PRow STab

/-! ### `_transform_generator_emitters` on a generator without X/Y (the photon part is kept) -/

/-- state of row `g` while the emitter CNOTs with controls `l` are still to be applied (photon part arbitrary but fixed) -/
structure CInv2 (s : St) (g e : Nat) (l : List Nat) (a : St) : Prop where
  np_eq : a.np = s.np
  ne_eq : a.ne = s.ne
  n_eq : a.t.n = s.t.n
  xs : ∀ j, j < s.t.n → (a.t.row g).x j = false
  phot : ∀ j, j < s.np → (a.t.row g).z j = (s.t.row g).z j
  ze : (a.t.row g).z (s.np + e) = true
  sup : ∀ c, c < s.ne → c ≠ e → (a.t.row g).z (s.np + c) = true → c ∈ l
  mem : ∀ c, c ∈ l → c < s.ne ∧ c ≠ e ∧ (a.t.row g).z (s.np + c) = true
  nodup : l.Nodup

theorem addEmitterCnot_step2 (s : St) (g e : Nat) (hn : s.t.n = s.np + s.ne) (hg : g < s.t.n) (he : e < s.ne)
    (c : Nat) (rest : List Nat) (a : St) (inv : CInv2 s g e (c :: rest) a) :
    CInv2 s g e rest (addEmitterCnot a c e) := by
  obtain ⟨hc, hce, hcz⟩ := inv.mem c (List.mem_cons_self ..)
  have hg' : g < a.t.n := by rw [inv.n_eq]; exact hg
  have hnd := List.nodup_cons.mp inv.nodup
  have hX : ∀ j, j < s.t.n → ((addEmitterCnot a c e).t.row g).x j = false := by
    intro j hj
    show ((a.gate (.CNOT (a.np + c) (a.np + e))).t.row g).x j = false
    rw [gateCNOT_x a _ _ g j hg' (by rw [inv.n_eq]; exact hj), inv.np_eq, inv.xs j hj, inv.xs (s.np + c) (by omega)]
    simp
  have hZ : ∀ j, j < s.t.n → ((addEmitterCnot a c e).t.row g).z j =
      if j = s.np + c then false else (a.t.row g).z j := by
    intro j hj
    show ((a.gate (.CNOT (a.np + c) (a.np + e))).t.row g).z j = _
    rw [gateCNOT_z a _ _ g j hg' (by rw [inv.n_eq]; exact hj), inv.np_eq, inv.ze]
    by_cases hjc : j = s.np + c
    · subst hjc; simp [hcz]
    · simp [hjc]
  refine ⟨inv.np_eq, inv.ne_eq, inv.n_eq, hX, ?_, ?_, ?_, ?_, hnd.2⟩
  · intro j hj
    rw [hZ j (by omega), if_neg (by omega)]; exact inv.phot j hj
  · rw [hZ _ (by omega), if_neg (by omega)]; exact inv.ze
  · intro c' hc' hc'e hz
    rw [hZ _ (by omega)] at hz
    by_cases hcc : c' = c
    · subst hcc; simp at hz
    · rw [if_neg (by omega)] at hz
      have := inv.sup c' hc' hc'e hz
      rcases List.mem_cons.mp this with h | h
      · exact absurd h hcc
      · exact h
  · intro c' hc'
    obtain ⟨m1, m2, m3⟩ := inv.mem c' (List.mem_cons_of_mem _ hc')
    have hcc : c' ≠ c := fun h => hnd.1 (h ▸ hc')
    refine ⟨m1, m2, ?_⟩
    rw [hZ _ (by omega), if_neg (by omega)]; exact m3

/-- `_transform_generator_emitters` on a generator without X/Y and with a `Z` on the target emitter: still no X/Y, the photon part is
    unchanged, and the only `Z` left on the emitters is on the target -/
theorem transformGeneratorEmitters_row2 (s s2 : St) (g e : Nat) (hn : s.t.n = s.np + s.ne) (hg : g < s.t.n) (he : e < s.ne)
    (hx : ∀ j, j < s.t.n → (s.t.row g).x j = false) (hze : (s.t.row g).z (s.np + e) = true)
    (h : transformGeneratorEmitters s g e = .ok s2) :
    s2.np = s.np ∧ s2.ne = s.ne ∧ s2.t.n = s.t.n ∧ (∀ j, j < s.t.n → (s2.t.row g).x j = false) ∧
    (∀ j, j < s.np → (s2.t.row g).z j = (s.t.row g).z j) ∧
    (∀ c, c < s.ne → (s2.t.row g).z (s.np + c) = decide (c = e)) := by
  have key : CInv2 s g e [] s2 := by
    unfold transformGeneratorEmitters at h
    split at h
    · next h1 =>
      injection h with h; rw [← h]
      refine ⟨rfl, rfl, rfl, hx, fun _ _ => rfl, hze, ?_, ?_, List.nodup_nil⟩
      · intro c hc hce _; omega
      · intro c hc; simp at hc
    · split at h
      · cases h
      · injection h with h; rw [← h]
        apply foldl_rest_inv _ (fun l a => CInv2 s g e l a) (fun c rest a inv => addEmitterCnot_step2 s g e hn hg he c rest a inv)
        refine ⟨rfl, rfl, rfl, hx, fun _ _ => rfl, hze, ?_, ?_, ?_⟩
        · intro c hc hce hz
          simp only [List.mem_filter, List.mem_range, decide_eq_true_eq]
          exact ⟨⟨hc, hz⟩, hce⟩
        · intro c hc
          simp only [List.mem_filter, List.mem_range, decide_eq_true_eq] at hc
          exact ⟨hc.1.1, hc.2, hc.1.2⟩
        · exact (List.nodup_range.filter _).filter _
  refine ⟨key.np_eq, key.ne_eq, key.n_eq, key.xs, key.phot, ?_⟩
  intro c hc
  by_cases hce : c = e
  · subst hce; simp [key.ze]
  · simp only [hce, decide_false]
    cases hz : (s2.t.row g).z (s.np + c) with
    | false => rfl
    | true =>
      have := key.sup c hc hce hz
      simp at this

/-! ### `_add_photon_absorption` returns and makes the photon's column literal -/

theorem ptype_ne_zero_bits (p : PRow) (j : Nat) (h : p.pt j ≠ 0) : (p.x j || p.z j) = true := by
  cases hb : (p.x j || p.z j)
  · exact absurd ((PRow.pt_eq_zero_iff _ _).2 hb) h
  · rfl

theorem zs_sorted (n : Nat) (p1 p2 : Nat → Bool) : (((List.range n).filter p1).filter p2).Pairwise (· < ·) :=
  (List.pairwise_lt_range.filter _).filter _

/-- **`_add_photon_absorption` returns**, under (i) a generator starts at `photon`, (ii) every such generator acts on an emitter,
    (iii) every such generator is trivial on the photons right of `photon`; the photon's column is literal afterwards -/
theorem addPhotonAbsorption_ok (s : St) (photon : Nat) (hn : s.t.n = s.np + s.ne) (hph : photon < s.np) (hg : s.t.Good)
    (hex : ∃ i, i < s.t.n ∧ s.t.leftmost i = some photon)
    (hem : ∀ i, i < s.t.n → s.t.leftmost i = some photon → ∃ c, s.np ≤ c ∧ c < s.t.n ∧ s.t.ptype i c ≠ 0)
    (hxq : ∀ i, i < s.t.n → s.t.leftmost i = some photon → ∀ j, photon < j → j < s.np → s.t.ptype i j = 0) :
    ∃ s', addPhotonAbsorption s photon = .ok s' ∧ s'.np = s.np ∧ s'.ne = s.ne ∧
      Reach (fun c => c = photon ∨ s.np ≤ c) s.t s'.t ∧ s'.t.Lit photon := by
  unfold addPhotonAbsorption
  cases hsel : ((List.range s.t.n).reverse.filter fun i => s.t.leftmost i == some photon).head? with
  | none =>
    exfalso
    obtain ⟨i, hi, hl⟩ := hex
    rw [List.head?_eq_none_iff] at hsel
    have : i ∈ ((List.range s.t.n).reverse.filter fun i => s.t.leftmost i == some photon) := by
      simp only [List.mem_filter, List.mem_reverse, List.mem_range, beq_iff_eq]
      exact ⟨hi, hl⟩
    rw [hsel] at this; cases this
  | some g =>
    simp only
    have hgm := List.mem_of_mem_head? hsel
    simp only [List.mem_filter, List.mem_reverse, List.mem_range, beq_iff_eq] at hgm
    obtain ⟨hgn, hlm⟩ := hgm
    obtain ⟨hq, hlow, hnt⟩ := leftmost_some s.t g photon hlm
    -- step 0: the photon's Pauli becomes Z
    have cz := changeToZ_row s g photon hgn hq
    have v0 := changeToZ_via s g photon hq
    generalize changeToZ s g photon = r at cz v0
    obtain ⟨s0, gl⟩ := r
    simp only at cz v0 ⊢
    obtain ⟨c1, c2, c3, _, c5, c6, c7⟩ := cz
    obtain ⟨s1, h1⟩ := addOneQubit_ok s0 gl photon
    obtain ⟨e1, e2, e3⟩ := addOneQubit_t s0 s1 gl photon h1
    rw [h1]; simp only
    have hn1 : s1.t.n = s1.np + s1.ne := by rw [e1, e2, e3, c1, c2, c3]; exact hn
    have hg1 : g < s1.t.n := by rw [e1, c1]; exact hgn
    have hnp1 : s1.np = s.np := e2.trans c2
    have hne1 : s1.ne = s.ne := e3.trans c3
    have hnn1 : s1.t.n = s.t.n := by rw [e1, c1]
    have hzph1 : (s1.t.row g).z photon = true := by
      rw [e1, c6]; exact ptype_ne_zero_bits _ _ hnt
    have hxph1 : (s1.t.row g).x photon = false := by rw [e1]; exact c5
    have hoff1 : ∀ j, j < s.t.n → j ≠ photon → (s1.t.row g).x j = (s.t.row g).x j ∧ (s1.t.row g).z j = (s.t.row g).z j := by
      intro j hj hne; rw [e1]; exact c7 j hj hne
    -- the chosen emitter
    cases hem' : emitterIndices s1 g with
    | nil =>
      exfalso
      obtain ⟨c, hc1, hc2, hc3⟩ := hem g hgn hlm
      have : c - s.np ∈ emitterIndices s1 g := by
        simp only [emitterIndices, List.mem_filter, List.mem_range]
        refine ⟨by rw [hne1]; omega, ?_⟩
        have e : s1.np + (c - s.np) = c := by rw [hnp1]; omega
        rw [e, (hoff1 c hc2 (by omega)).1, (hoff1 c hc2 (by omega)).2]
        exact ptype_ne_zero_bits _ _ hc3
      rw [hem'] at this; cases this
    | cons e erest =>
      simp only
      have hee : e ∈ emitterIndices s1 g := by rw [hem']; exact List.mem_cons_self
      simp only [emitterIndices, List.mem_filter, List.mem_range] at hee
      obtain ⟨hene1, hent⟩ := hee
      have hene : e < s.ne := hne1 ▸ hene1
      -- step 1: all emitters to Z
      obtain ⟨s2, h2, v2⟩ := allEmittersToZ_ok s1 g false hn1
      have z2 := allEmittersToZ_row s1 s2 g false hn1 hg1 h2
      rw [h2]; simp only
      have hn2 : s2.t.n = s2.np + s2.ne := by rw [z2.n_eq, z2.np_eq, z2.ne_eq]; exact hn1
      have hg2 : g < s2.t.n := by rw [z2.n_eq]; exact hg1
      have hphot2 : ∀ j, j < s.np → (s2.t.row g).x j = false ∧ (s2.t.row g).z j = decide (j = photon) := by
        intro j hj
        have hj1 : j < s1.t.n := by rw [hnn1, hn]; omega
        obtain ⟨a1, a2⟩ := z2.rest j hj1 (Or.inl (by rw [hnp1]; exact hj))
        rw [a1, a2]
        by_cases hjp : j = photon
        · subst hjp; simp [hxph1, hzph1]
        · have hjn : j < s.t.n := by rw [hn]; omega
          obtain ⟨b1, b2⟩ := hoff1 j hjn hjp
          rw [b1, b2]
          have hz0 : s.t.ptype g j = 0 := by
            by_cases hlt : j < photon
            · exact hlow j hlt
            · exact hxq g hgn hlm j (by omega) hj
          have := PRow.pt_zero_bits _ _ hz0
          simp [this.1, this.2, hjp]
      have hx2 : ∀ j, j < s2.t.n → (s2.t.row g).x j = false := by
        intro j hj
        rw [z2.n_eq, hnn1, hn] at hj
        by_cases hjp : j < s.np
        · exact (hphot2 j hjp).1
        · have hj' : j = s1.np + (j - s.np) := by rw [hnp1]; omega
          rw [hj']; exact (z2.done (j - s.np) (by rw [hne1]; omega)).1
      have he2 : e < s2.ne := by rw [z2.ne_eq]; exact hene1
      have hze2 : (s2.t.row g).z (s2.np + e) = true := by
        rw [z2.np_eq, (z2.done e hene1).2]; exact hent
      -- step 2: CNOTs between emitters
      obtain ⟨s3, h3, v3⟩ := transformGeneratorEmitters_ok s2 g e hn2 he2 hx2
      obtain ⟨r1, r2, r3, r4, r5, r6⟩ := transformGeneratorEmitters_row2 s2 s3 g e hn2 hg2 he2 hx2 hze2 h3
      rw [h3]; simp only
      have hn3 : s3.t.n = s3.np + s3.ne := by rw [r1, r2, r3]; exact hn2
      have hg3 : g < s3.t.n := by rw [r3]; exact hg2
      have he3 : e < s3.ne := by rw [r2]; exact he2
      have hze3 : (s3.t.row g).z (s3.np + e) = true := by
        rw [r1, r6 e he2]; simp
      -- step 3: the sign
      obtain ⟨s4, h4, v4⟩ := fixSign_ok s3 g e hn3 he3
      obtain ⟨f1, f2, _, f4, f5, f6⟩ := fixSign_row s3 s4 g e hg3 hze3 h4
      rw [h4]; simp only
      have hnp2 : s2.np = s.np := z2.np_eq.trans hnp1
      have hne2 : s2.ne = s.ne := z2.ne_eq.trans hne1
      have hnn2 : s2.t.n = s.t.n := z2.n_eq.trans hnn1
      have hnn4 : s4.t.n = s.t.n := by rw [f4, r3]; exact hnn2
      have hnp4 : s4.np = s.np := by rw [f5, r1]; exact hnp2
      have hne4 : s4.ne = s.ne := by rw [f6, r2]; exact hne2
      have hg4 : g < s4.t.n := by rw [hnn4]; exact hgn
      -- row g before the emission CNOT: Z on the photon and on the emitter, nothing else, sign +
      have hx4 : ∀ j, j < s.t.n → (s4.t.row g).x j = false := by
        intro j hj
        rw [(f1 j (by rw [r3, hnn2]; exact hj)).1]; exact r4 j (by rw [hnn2]; exact hj)
      have hz4 : ∀ j, j < s.t.n → (s4.t.row g).z j = (decide (j = photon) || decide (j = s.np + e)) := by
        intro j hj
        rw [(f1 j (by rw [r3, hnn2]; exact hj)).2]
        by_cases hjp : j < s.np
        · rw [r5 j (by rw [hnp2]; exact hjp), (hphot2 j hjp).2]
          have : j ≠ s.np + e := by omega
          simp [this]
        · have hj' : j = s2.np + (j - s.np) := by rw [hnp2]; omega
          rw [hj', r6 (j - s.np) (by rw [hne2]; rw [hn] at hj; omega)]
          have h1 : ¬ (s2.np + (j - s.np) = photon) := by rw [hnp2]; omega
          by_cases hje : j - s.np = e
          · simp [hje, hnp2]
          · have h2 : ¬ (s2.np + (j - s.np) = s.np + e) := by rw [hnp2]; omega
            simp [hje, h1, h2]
      -- the emission CNOT
      have hG : (Gate.CNOT (s.np + e) photon).WF s4.t.n := by
        show s.np + e < s4.t.n ∧ photon < s4.t.n ∧ s.np + e ≠ photon
        rw [hnn4, hn]; omega
      have hE : s.np + e < s.t.n := by rw [hn]; omega
      have hgood6 : ((s4.t.applyGate (.CNOT (s.np + e) photon)).norm).Good := by
        apply gateNorm_good _ _ hG
        have hv : GVia (fun _ => True) s.t s4.t := by
          refine (v0.mono (fun _ _ => trivial)).trans ?_
          rw [← e1]
          exact (v2.mono (fun _ _ => trivial)).trans ((v3.mono (fun _ _ => trivial)).trans (v4.mono (fun _ _ => trivial)))
        exact hv.good hg
      have hrow6 : EqOn s.t.n (((s4.t.applyGate (.CNOT (s.np + e) photon)).norm).row g) (Zq photon) := by
        have hr := gateNorm_row s4.t (.CNOT (s.np + e) photon) g hg4
        rw [hnn4] at hr
        refine ⟨fun j hj => ?_, ?_, ?_⟩
        · obtain ⟨a1, a2⟩ := hr.1 j hj
          rw [a1, a2]
          show (if j = photon then xor ((s4.t.row g).x j) ((s4.t.row g).x (s.np + e)) else (s4.t.row g).x j) = false ∧
            (if j = s.np + e then xor ((s4.t.row g).z j) ((s4.t.row g).z photon) else (s4.t.row g).z j) = decide (j = photon)
          rw [hx4 j hj, hx4 _ hE, hz4 j hj, hz4 photon hq]
          have hpe : photon ≠ s.np + e := by omega
          by_cases hj1 : j = s.np + e
          · have : j ≠ photon := by omega
            simp [hj1, hpe.symm]
          · simp [hj1]
        · rw [hr.2.1]
          show xor (s4.t.row g).r ((s4.t.row g).x (s.np + e) && (s4.t.row g).z photon &&
            (xor (xor ((s4.t.row g).x photon) ((s4.t.row g).z (s.np + e))) true)) = false
          rw [f2, hx4 _ hE]; rfl
        · exact hgood6.real g (by show g < s4.t.n; exact hg4)
      have hpt6 : ((s4.t.applyGate (.CNOT (s.np + e) photon)).norm).ptype g photon = 3 := by
        rw [ptype_eq, PRow.pt_congr _ (Zq photon) photon (hrow6.1 photon hq).1 (hrow6.1 photon hq).2]
        simp [PRow.pt, Zq]
      have hn6 : ((s4.t.applyGate (.CNOT (s.np + e) photon)).norm).n = s.t.n := hnn4
      refine ⟨_, rfl, hnp4, hne4, ?_, ?_⟩
      · -- the path: gates on the photon and the emitters, then witnessed products with the `Z_photon` row
        have hv6 : GVia (fun c => c = photon ∨ s.np ≤ c) s.t ((s4.t.applyGate (.CNOT (s.np + e) photon)).norm) := by
          refine GVia.gate _ ?_ hG ?_
          · refine (v0.mono (fun c hc => Or.inl hc)).trans ?_
            rw [← e1]
            refine (v2.mono (fun c hc => Or.inr (hnp1 ▸ hc))).trans ((v3.mono (fun c hc => Or.inr (hnp2 ▸ hc))).trans
              (v4.mono (fun c hc => Or.inr ?_)))
            rw [← hnp2, ← r1]; exact hc
          · intro c hc
            simp only [Gate.cols, List.mem_cons, List.not_mem_nil, or_false] at hc
            rcases hc with h | h
            · right; omega
            · left; exact h
        refine Reach.ops (Reach.of_gvia hv6) ?_
        apply COps.norm
        apply COps.foldl_sum g photon (by rw [hn6]; exact hgn) (by rw [hn6]; exact hq) _ (zs_sorted _ _ _)
        · intro i hi
          simp only [List.mem_filter, List.mem_range, decide_eq_true_eq] at hi
          exact ⟨hi.1.1, fun h => hi.2 h.symm⟩
        · show ((s4.t.applyGate (.CNOT (s.np + e) photon)).norm).ptype g photon ≠ 0
          rw [hpt6]; decide
        · intro i hi
          simp only [List.mem_filter, List.mem_range, decide_eq_true_eq] at hi
          have : ((s4.t.applyGate (.CNOT (s.np + e) photon)).norm).ptype i photon = 3 := hi.1.2
          omega
        · exact COps.refl
      · -- the photon's column is literal
        show STab.Lit (((((List.range ((s4.t.applyGate (.CNOT (s.np + e) photon)).norm).n).filter
            fun i => ((s4.t.applyGate (.CNOT (s.np + e) photon)).norm).ptype i photon = 3).filter fun i => i ≠ g).foldl
          (fun acc i => acc.rowSum g i) ((s4.t.applyGate (.CNOT (s.np + e) photon)).norm)).norm) photon
        generalize ((s4.t.applyGate (.CNOT (s.np + e) photon)).norm) = t6 at hgood6 hrow6 hpt6 hn6 ⊢
        have hgz : g ∉ (((List.range t6.n).filter fun i => t6.ptype i photon = 3).filter fun i => i ≠ g) := by
          simp
        have hrows := foldl_rowSum_row g _ t6 (zs_sorted t6.n (fun i => t6.ptype i photon = 3) (fun i => i ≠ g)) hgz
        have hnf := foldl_rowSum_n g (((List.range t6.n).filter fun i => t6.ptype i photon = 3).filter fun i => i ≠ g) t6
        generalize (((List.range t6.n).filter fun i => t6.ptype i photon = 3).filter fun i => i ≠ g).foldl
          (fun acc i => acc.rowSum g i) t6 = tf at hrows hnf
        refine ⟨g, by show g < tf.n; rw [hnf, hn6]; exact hgn, ?_, ?_⟩
        · show EqOn tf.n (tf.norm.row g) (Zq photon)
          refine (norm_row tf g (by rw [hnf, hn6]; exact hgn)).trans ?_
          rw [hrows g, if_neg hgz, hnf, hn6]
          exact hrow6
        · intro k hk hkg
          have hk6 : k < t6.n := by
            have : k < tf.n := hk
            rw [hnf] at this; exact this
          show tf.norm.ptype k photon = 0
          rw [ptype_norm tf k photon (by rw [hnf]; exact hk6) (by rw [hnf, hn6]; exact hq), ptype_eq, hrows k]
          split
          · rw [pt_stabMul]
            next hmem =>
            simp only [List.mem_filter, List.mem_range, decide_eq_true_eq] at hmem
            have h1 : (t6.row g).pt photon = 3 := hpt6
            have h2 : (t6.row k).pt photon = 3 := hmem.1.2
            rw [h1, h2]; rfl
          · next hmem =>
            have hne3 : t6.ptype k photon ≠ 3 := by
              intro h3
              apply hmem
              simp only [List.mem_filter, List.mem_range, decide_eq_true_eq]
              exact ⟨⟨hk6, h3⟩, hkg⟩
            have hcomm := hgood6.comm k g hk6 (by rw [hn6]; exact hgn)
            rw [hn6, sp_eqOn s.t.n _ _ _ _ (EqOn.refl _ _) hrow6, sp_Zq _ _ _ _ hq] at hcomm
            rw [ptype_eq] at hne3
            revert hne3
            unfold PRow.pt
            rw [hcomm]
            cases (t6.row k).z photon <;> simp
