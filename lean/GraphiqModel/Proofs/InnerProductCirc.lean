/-
  Proofs/InnerProductCirc.lean — a gate list acts on signed groups as an invertible automorphism, so the two overlap
  predicates `Orth` and `OverlapDim` (Proofs/InnerProductSpec.lean) are invariant when the same gate list is applied to
  both states.  Also: `run_circuit` on a Clifford tableau followed by `to_stabilizer()` is row-wise the gate-list action.
  All sizes.  No Mathlib.
-/
import GraphiqModel.Proofs.InnerProductSpec
namespace Graphiq
open PRow Tab STab

/-! ### the gate-list action is an invertible automorphism that fixes `±I` -/

theorem Gate.act_neg (g : Gate) (a : PRow) : g.act (PRow.neg a) = PRow.neg (g.act a) := by
  cases g <;> cases a <;>
    simp [Gate.act, PRow.neg, PRow.h, PRow.s, PRow.sdg, PRow.xg, PRow.yg, PRow.zg, PRow.cnot, PRow.cz]

theorem Gate.act_setip (g : Gate) (a : PRow) : g.act { a with ip := false } = { g.act a with ip := false } := by
  cases g <;> rfl

theorem actCirc_neg (c : List Gate) (a : PRow) : actCirc c (PRow.neg a) = PRow.neg (actCirc c a) := by
  induction c generalizing a with
  | nil => rfl
  | cons g rest ih =>
    show actCirc rest (g.act (PRow.neg a)) = PRow.neg (actCirc rest (g.act a))
    rw [Gate.act_neg, ih]

theorem actCirc_setip (c : List Gate) (a : PRow) : actCirc c { a with ip := false } = { actCirc c a with ip := false } := by
  induction c generalizing a with
  | nil => rfl
  | cons g rest ih =>
    show actCirc rest (g.act { a with ip := false }) = { actCirc rest (g.act a) with ip := false }
    rw [Gate.act_setip, ih]

theorem actCirc_one (n : Nat) (c : List Gate) (hc : ∀ g, g ∈ c → g.WF n) : EqOn n (actCirc c PRow.one) PRow.one := by
  induction c with
  | nil => exact EqOn.refl _ _
  | cons g rest ih =>
    have hrest : ∀ g', g' ∈ rest → g'.WF n := fun g' hg' => hc g' (List.mem_cons_of_mem _ hg')
    show EqOn n (actCirc rest (g.act PRow.one)) PRow.one
    exact (actCirc_congr n rest hrest _ _ (Gate.act_one n g)).trans (ih hrest)

theorem actCirc_mul (n : Nat) (c : List Gate) (hc : ∀ g, g ∈ c → g.WF n) (a b : PRow) :
    EqOn n (actCirc c (PRow.mul n a b)) (PRow.mul n (actCirc c a) (actCirc c b)) := by
  induction c generalizing a b with
  | nil => exact EqOn.refl _ _
  | cons g rest ih =>
    have hrest : ∀ g', g' ∈ rest → g'.WF n := fun g' hg' => hc g' (List.mem_cons_of_mem _ hg')
    show EqOn n (actCirc rest (g.act (PRow.mul n a b))) (PRow.mul n (actCirc rest (g.act a)) (actCirc rest (g.act b)))
    exact (actCirc_congr n rest hrest _ _ ((g.isAut n (hc g List.mem_cons_self)).mul a b)).trans (ih hrest _ _)

theorem revCirc_wf (n : Nat) (c : List Gate) (hc : ∀ g, g ∈ c → g.WF n) : ∀ g, g ∈ revCirc c → g.WF n := by
  intro g hgm
  simp only [revCirc, List.mem_map, List.mem_reverse] at hgm
  obtain ⟨g0, hg0, e⟩ := hgm
  rw [← e]; exact Gate.rev_WF n g0 (hc g0 hg0)

/-- the action is injective (up to `EqOn`): run the reversed list -/
theorem actCirc_inj (n : Nat) (c : List Gate) (hc : ∀ g, g ∈ c → g.WF n) (a b : PRow)
    (h : EqOn n (actCirc c a) (actCirc c b)) : EqOn n a b :=
  ((revCirc_cancel n c hc a).symm.trans (actCirc_congr n _ (revCirc_wf n c hc) _ _ h)).trans (revCirc_cancel n c hc b)

/-- running the list after its reversal is the identity, too -/
theorem revCirc_cancel_right (n : Nat) (c : List Gate) (hc : ∀ g, g ∈ c → g.WF n) (b : PRow) :
    EqOn n (actCirc c (actCirc (revCirc c) b)) b := by
  apply actCirc_inj n (revCirc c) (revCirc_wf n c hc)
  exact revCirc_cancel n c hc _

theorem actCirc_sprod (n : Nat) (c : List Gate) (hc : ∀ g, g ∈ c → g.WF n) (gens : Nat → PRow) (S : Nat → Bool) (d : Nat) :
    EqOn n (actCirc c (sprod n gens S d)) (sprod n (fun i => actCirc c (gens i)) S d) := by
  induction d with
  | zero => exact actCirc_one n c hc
  | succ k ih =>
    simp only [sprod]
    cases S k
    · exact ih
    · exact (actCirc_mul n c hc _ _).trans (mul_congr n _ _ _ _ (EqOn.refl _ _) ih)

/-! ### `run_circuit` on a Clifford tableau, then `to_stabilizer()` -/

theorem Tab.runCircuit_rows (n : Nat) (c : List Gate) (hc : ∀ g, g ∈ c → g.WF n) (t : Tab) (hn : t.n = n) :
    (t.runCircuit c).n = n ∧ ∀ i, i < 2 * n → EqOn n ((t.runCircuit c).row i) (actCirc c (t.row i)) := by
  induction c generalizing t with
  | nil =>
    refine ⟨hn, fun i _ => ?_⟩
    exact EqOn.refl _ _
  | cons g rest ih =>
    have hrest : ∀ g', g' ∈ rest → g'.WF n := fun g' hg' => hc g' (List.mem_cons_of_mem _ hg')
    have e : t.runCircuit (g :: rest) = ((t.map g.act).norm).runCircuit rest := by
      simp [Tab.runCircuit]
    rw [e]
    have hn1 : ((t.map g.act).norm).n = n := hn
    obtain ⟨h1, h2⟩ := ih hrest _ hn1
    refine ⟨h1, fun i hi => ?_⟩
    have r1 : EqOn n (((t.map g.act).norm).row i) (g.act (t.row i)) := by
      have := tnorm_row (t.map g.act) i (by show i < 2 * t.n; rw [hn]; exact hi)
      have hnn : (t.map g.act).n = n := hn
      rw [hnn] at this
      exact this
    exact (h2 i hi).trans (actCirc_congr n rest hrest _ _ r1)

/-- the stabilizer half of `run_circuit(CliffordTableau(b), circ)` is row by row the image of the stabilizer half of `b` -/
theorem ofTab_runCircuit_row (n : Nat) (c : List Gate) (hc : ∀ g, g ∈ c → g.WF n) (t : Tab) (hn : t.n = n) (i : Nat) (hi : i < n) :
    EqOn n ((STab.ofTab (t.runCircuit c)).row i) (actCirc c ((STab.ofTab t).row i)) := by
  obtain ⟨h1, h2⟩ := Tab.runCircuit_rows n c hc t hn
  show EqOn n { ((t.runCircuit c).row (i + (t.runCircuit c).n)) with ip := false }
    (actCirc c { (t.row (i + t.n)) with ip := false })
  rw [actCirc_setip, h1, hn]
  have := h2 (i + n) (by omega)
  exact ⟨this.1, this.2.1, rfl⟩

/-! ### images of signed groups under a gate list -/

/-- the signed group of `T'` is the image of that of `T` under the gate list `c` -/
structure CircImage (n : Nat) (c : List Gate) (T T' : STab) : Prop where
  nT : T.n = n
  nT' : T'.n = n
  wf : ∀ g, g ∈ c → g.WF n
  fwd : ∀ a, T.Spn a → T'.Spn (actCirc c a)
  bwd : ∀ b, T'.Spn b → ∃ a, T.Spn a ∧ EqOn n (actCirc c a) b

theorem circImage_of_rows (n : Nat) (c : List Gate) (hc : ∀ g, g ∈ c → g.WF n) (T T' : STab) (hT : T.n = n) (hT' : T'.n = n)
    (hrow : ∀ i, i < n → EqOn n (T'.row i) (actCirc c (T.row i))) : CircImage n c T T' := by
  refine ⟨hT, hT', hc, ?_, ?_⟩
  · intro a ha
    unfold Spn at ha ⊢
    rw [hT] at ha
    rw [hT']
    induction ha with
    | one => exact InSpan.eqv _ _ InSpan.one (actCirc_one n c hc).symm
    | gen i hi => exact InSpan.eqv _ _ (InSpan.gen i hi) (hrow i hi)
    | mul a b _ _ iha ihb => exact InSpan.eqv _ _ (InSpan.mul _ _ iha ihb) (actCirc_mul n c hc a b).symm
    | eqv a b _ hab iha => exact InSpan.eqv _ _ iha (actCirc_congr n c hc a b hab)
  · intro b hb
    unfold Spn at hb
    rw [hT'] at hb
    have key : ∃ a, InSpan n n T.row a ∧ EqOn n (actCirc c a) b := by
      induction hb with
      | one => exact ⟨PRow.one, InSpan.one, actCirc_one n c hc⟩
      | gen i hi => exact ⟨T.row i, InSpan.gen i hi, (hrow i hi).symm⟩
      | mul a b _ _ iha ihb =>
        obtain ⟨a0, ha0, ea⟩ := iha
        obtain ⟨b0, hb0, eb⟩ := ihb
        exact ⟨PRow.mul n a0 b0, InSpan.mul _ _ ha0 hb0, (actCirc_mul n c hc a0 b0).trans (mul_congr n _ _ _ _ ea eb)⟩
      | eqv a b _ hab iha =>
        obtain ⟨a0, ha0, ea⟩ := iha
        exact ⟨a0, ha0, ea.trans hab⟩
    obtain ⟨a, ha, ea⟩ := key
    refine ⟨a, ?_, ea⟩
    unfold Spn; rw [hT]; exact ha

/-- the image relation is symmetric: `T` is the image of `T'` under the reversed list -/
theorem CircImage.rev {n : Nat} {c : List Gate} {T T' : STab} (h : CircImage n c T T') : CircImage n (revCirc c) T' T := by
  refine ⟨h.nT', h.nT, revCirc_wf n c h.wf, ?_, ?_⟩
  · intro b hb
    obtain ⟨a, ha, ea⟩ := h.bwd b hb
    have e : EqOn n a (actCirc (revCirc c) b) :=
      (revCirc_cancel n c h.wf a).symm.trans (actCirc_congr n _ (revCirc_wf n c h.wf) _ _ ea)
    unfold Spn at ha ⊢
    rw [h.nT] at ha ⊢
    exact InSpan.eqv _ _ ha e
  · intro a ha
    exact ⟨actCirc c a, h.fwd a ha, revCirc_cancel n c h.wf a⟩

theorem CircImage.congr {n : Nat} {c : List Gate} {T T' U U' : STab} (h : CircImage n c T T') (s : SpanEq T U)
    (s' : SpanEq T' U') : CircImage n c U U' :=
  ⟨s.n_eq ▸ h.nT, s'.n_eq ▸ h.nT', h.wf, fun a ha => s'.sub _ (h.fwd a (s.sup a ha)),
   fun b hb => by
     obtain ⟨a, ha, ea⟩ := h.bwd b (s'.sup b hb)
     exact ⟨a, s.sub a ha, ea⟩⟩

/-! ### invariance of the overlap predicates -/

theorem orth_image {n : Nat} {c : List Gate} {A A' B B' : STab} (hA : CircImage n c A A') (hB : CircImage n c B B')
    (h : Orth A B) : Orth A' B' := by
  obtain ⟨P, pa, pb⟩ := h
  refine ⟨actCirc c P, hA.fwd P pa, ?_⟩
  rw [← actCirc_neg]; exact hB.fwd _ pb

/-- **`Orth` is invariant** under applying one gate list to both states -/
theorem orth_image_iff {n : Nat} {c : List Gate} {A A' B B' : STab} (hA : CircImage n c A A') (hB : CircImage n c B B') :
    Orth A B ↔ Orth A' B' :=
  ⟨orth_image hA hB, orth_image hA.rev hB.rev⟩

theorem overlapBasis_image {n : Nat} {c : List Gate} {A A' B B' : STab} (hA : CircImage n c A A') (hB : CircImage n c B B')
    {d : Nat} {gens : Nat → PRow} (h : IsOverlapBasis A B d gens) :
    IsOverlapBasis A' B' d (fun i => actCirc c (gens i)) := by
  have nA := hA.nT
  have nA' := hA.nT'
  refine ⟨fun i hi => hA.fwd _ (h.memA i hi), fun i hi => hB.fwd _ (h.memB i hi), ?_, ?_⟩
  · intro S hS i hi
    rw [nA'] at hS
    apply h.indep S _ i hi
    rw [nA]
    apply actCirc_inj n c hA.wf
    exact ((actCirc_sprod n c hA.wf gens S d).trans hS).trans (actCirc_one n c hA.wf).symm
  · intro P' pa pb
    obtain ⟨a, ha, ea⟩ := hA.bwd P' pa
    obtain ⟨b, hb, eb⟩ := hB.bwd P' pb
    have eab : EqOn n a b := actCirc_inj n c hA.wf a b (ea.trans eb.symm)
    have hb' : B.Spn a := by
      unfold Spn at hb ⊢
      rw [hB.nT] at hb ⊢
      exact InSpan.eqv _ _ hb eab.symm
    obtain ⟨S, hS⟩ := h.span a ha hb'
    rw [nA] at hS
    refine ⟨S, ?_⟩
    rw [nA']
    exact (ea.symm.trans (actCirc_congr n c hA.wf _ _ hS)).trans (actCirc_sprod n c hA.wf gens S d)

/-- **the rank of the common subgroup is invariant** under applying one gate list to both states -/
theorem overlapDim_image_iff {n : Nat} {c : List Gate} {A A' B B' : STab} (hA : CircImage n c A A') (hB : CircImage n c B B')
    (d : Nat) : OverlapDim A B d ↔ OverlapDim A' B' d :=
  ⟨fun ⟨_, hg⟩ => ⟨_, overlapBasis_image hA hB hg⟩, fun ⟨_, hg⟩ => ⟨_, overlapBasis_image hA.rev hB.rev hg⟩⟩

/-- same signed group before ⇒ same signed group after (apply to `.rev` for the converse) -/
theorem spanEq_image {n : Nat} {c : List Gate} {A A' B B' : STab} (hA : CircImage n c A A') (hB : CircImage n c B B') :
    SpanEq A B → SpanEq A' B' := by
  intro s
  refine ⟨hA.nT'.trans hB.nT'.symm, fun p hp => ?_, fun p hp => ?_⟩
  · obtain ⟨a, ha, ea⟩ := hA.bwd p hp
    have := hB.fwd a (s.sub a ha)
    unfold Spn at this ⊢
    rw [hB.nT'] at this ⊢
    exact InSpan.eqv _ _ this ea
  · obtain ⟨b, hb, eb⟩ := hB.bwd p hp
    have := hA.fwd b (s.sup b hb)
    unfold Spn at this ⊢
    rw [hA.nT'] at this ⊢
    exact InSpan.eqv _ _ this eb

end Graphiq
