/-
  Proofs/CommuteTableau.lean — tableau level, gate-only circuits: the compile loop's steps for unitary gates on disjoint
  registers commute *literally* (the same table, destabilizers included — not only the same stabilizer group), because
  the row maps commute pointwise (`Local.comm`) and the tabulation `Tab.norm` identifies tables that agree on the first
  `n` sites.

  * `norm_eq_of_eqOn`: two tables with the same `n` whose rows agree on the first `n` sites tabulate to the same table.
  * `gate_steps_commute`: `((t.map g).norm.map f).norm = ((t.map f).norm.map g).norm` for commuting, site-respecting `f`, `g`.
  * `appT`: the compile step `stepOp` restricted to unitary-gate operations of the compile sequence (anything else is
    `none`); `appT_comm`: operations on disjoint registers commute, on every run state whose table has `ne + np` qubits.
  * `foldlM_eq_runSeq`: on gate-only sequences `stabRunFrom` is `runSeq appT`.
-/
import GraphiqModel.Proofs.CommuteComplete
namespace Graphiq.Commute
open Graphiq PRow Tab TabSpec
open Graphiq.Wire (Reg RegType SOp Item Kind G1 runSeq)

/-! ## 1. tabulation -/

theorem prow_norm_eq_of_eqOn (n : Nat) (a b : PRow) (h : EqOn n a b) : a.norm n = b.norm n := by
  obtain ⟨hb, hr, hi⟩ := h
  have hx : (Array.ofFn (n := n) fun j => a.x j) = Array.ofFn (n := n) fun j => b.x j := by
    congr 1; funext j; exact (hb j j.isLt).1
  have hz : (Array.ofFn (n := n) fun j => a.z j) = Array.ofFn (n := n) fun j => b.z j := by
    congr 1; funext j; exact (hb j j.isLt).2
  simp only [PRow.norm, hx, hz, hr, hi]

/-- tables that agree on the first `n` sites of every row have the same tabulation -/
theorem norm_eq_of_eqOn (t1 t2 : Tab) (hn : t1.n = t2.n) (h : ∀ i, i < 2 * t1.n → EqOn t1.n (t1.row i) (t2.row i)) :
    t1.norm = t2.norm := by
  obtain ⟨n1, r1⟩ := t1
  obtain ⟨n2, r2⟩ := t2
  simp only at hn h
  subst hn
  have : (Array.ofFn (n := 2 * n1) fun i => (r1 i).norm n1) = Array.ofFn (n := 2 * n1) fun i => (r2 i).norm n1 := by
    congr 1; funext i; exact prow_norm_eq_of_eqOn n1 _ _ (h i i.isLt)
  simp only [Tab.norm, this]

/-- a row map that respects equality on the first `n` sites -/
def Congr (n : Nat) (f : PRow → PRow) : Prop := ∀ a b, EqOn n a b → EqOn n (f a) (f b)

theorem Congr.comp {n : Nat} {f g : PRow → PRow} (hf : Congr n f) (hg : Congr n g) : Congr n (fun p => f (g p)) :=
  fun _ _ h => hf _ _ (hg _ _ h)

/-- **two gate steps of the compile loop whose row maps commute give literally the same table in both orders** -/
theorem gate_steps_commute (t : Tab) (f g : PRow → PRow) (hf : Congr t.n f) (hg : Congr t.n g)
    (hc : ∀ p, f (g p) = g (f p)) : ((t.map g).norm.map f).norm = ((t.map f).norm.map g).norm := by
  refine norm_eq_of_eqOn _ _ rfl ?_
  intro i hi
  have hi' : i < 2 * t.n := hi
  show EqOn t.n (f ((t.map g).norm.row i)) (g ((t.map f).norm.row i))
  have e1 : EqOn t.n ((t.map g).norm.row i) (g (t.row i)) := tnorm_row (t.map g) i hi'
  have e2 : EqOn t.n ((t.map f).norm.row i) (f (t.row i)) := tnorm_row (t.map f) i hi'
  exact (hf _ _ e1).trans ((by rw [hc]; exact EqOn.refl _ _ : EqOn t.n (f (g (t.row i))) (g (f (t.row i)))).trans
    (hg _ _ e2).symm)

/-! ## 2. the row map of a list of gate primitives -/

/-- row action of a gate primitive (identity on everything else) -/
def rowP : Tab.Op → PRow → PRow
  | .h q => PRow.h q | .s q => PRow.s q | .sdg q => PRow.sdg q | .x q => PRow.xg q | .y q => PRow.yg q
  | .z q => PRow.zg q | .cnot c t => PRow.cnot c t | .cz c t => PRow.cz c t
  | _ => fun p => p

/-- row action of a list of primitives, first element first -/
def rowsP : List Tab.Op → PRow → PRow
  | [] => fun p => p
  | a :: l => fun p => rowsP l (rowP a p)

theorem local_rowP (op : Tab.Op) : Local (fun j => j ∈ primSupp op) (rowP op) := by
  cases op with
  | h q => exact (local_h q).mono (fun j hj => by simp [primSupp, hj])
  | s q => exact (local_s q).mono (fun j hj => by simp [primSupp, hj])
  | sdg q => exact (local_sdg q).mono (fun j hj => by simp [primSupp, hj])
  | x q => exact (local_xg q).mono (fun j hj => by simp [primSupp, hj])
  | y q => exact (local_yg q).mono (fun j hj => by simp [primSupp, hj])
  | z q => exact (local_zg q).mono (fun j hj => by simp [primSupp, hj])
  | cnot c t => exact (local_cnot c t).mono (fun j hj => by simpa [primSupp] using hj)
  | cz c t => exact (local_cz c t).mono (fun j hj => by simpa [primSupp] using hj)
  | _ => exact local_id _

theorem local_rowsP (l : List Tab.Op) : Local (fun j => ∃ p, p ∈ l ∧ j ∈ primSupp p) (rowsP l) := by
  induction l with
  | nil => exact local_id _
  | cons a l ih =>
    exact Local.comp (f := rowsP l) (g := rowP a)
      (ih.mono (fun j ⟨p, hp, hj⟩ => ⟨p, List.mem_cons_of_mem _ hp, hj⟩))
      ((local_rowP a).mono (fun j hj => ⟨a, List.mem_cons_self, hj⟩))

theorem congr_rowP (n : Nat) (op : Tab.Op) (h : ∀ j, j ∈ primSupp op → j < n) : Congr n (rowP op) := by
  cases op with
  | h q => exact h_congr n q (h q (by simp [primSupp]))
  | s q => exact s_congr n q (h q (by simp [primSupp]))
  | sdg q =>
    have hs := s_congr n q (h q (by simp [primSupp]))
    exact fun a b e => hs _ _ (hs _ _ (hs _ _ e))
  | z q =>
    have hs := s_congr n q (h q (by simp [primSupp]))
    exact fun a b e => hs _ _ (hs _ _ e)
  | x q =>
    have hs := s_congr n q (h q (by simp [primSupp]))
    have hh := h_congr n q (h q (by simp [primSupp]))
    exact fun a b e => hh _ _ (hs _ _ (hs _ _ (hh _ _ e)))
  | y q =>
    have hs := s_congr n q (h q (by simp [primSupp]))
    have hh := h_congr n q (h q (by simp [primSupp]))
    exact fun a b e => hs _ _ (hh _ _ (hs _ _ (hs _ _ (hh _ _ (hs _ _ (hs _ _ (hs _ _ e)))))))
  | cnot c t => exact cnot_congr n c t (h c (by simp [primSupp])) (h t (by simp [primSupp]))
  | cz c t =>
    have hh := h_congr n t (h t (by simp [primSupp]))
    have hc := cnot_congr n c t (h c (by simp [primSupp])) (h t (by simp [primSupp]))
    exact fun a b e => hh _ _ (hc _ _ (hh _ _ e))
  | _ => exact fun a b h => h

theorem congr_rowsP (n : Nat) (l : List Tab.Op) (h : ∀ p, p ∈ l → ∀ j, j ∈ primSupp p → j < n) : Congr n (rowsP l) := by
  induction l with
  | nil => exact fun a b h => h
  | cons a l ih =>
    exact Congr.comp (f := rowsP l) (g := rowP a) (ih (fun p hp => h p (List.mem_cons_of_mem _ hp)))
      (congr_rowP n a (h a List.mem_cons_self))

/-! ## 3. the gate steps of the compile loop -/

/-- unitary-gate circuit operations whose step is `t ↦ (t.map f).norm` with `f` the row map of one API call -/
def cIsGate : COp → Bool
  | .gate1 .. | .pdag .. | .cnot .. | .cz .. => true
  | _ => false

theorem stepOp_gate (np n : Nat) (d : Det) (s : RunState) (op : COp) (hg : cIsGate op = true) (hin : cInRange np n op) :
    stepOp np n d s op = some { s with t := (s.t.map (rowsP (copPrims np op false))).norm } := by
  cases op with
  | gate1 g q =>
    simp only [stepOp]
    rw [if_pos (show qIndex np q < n from hin)]
    cases g <;> rfl
  | pdag q => simp only [stepOp]; rw [if_pos (show qIndex np q < n from hin)]; rfl
  | cnot c t => simp only [stepOp]; rw [if_pos (show qIndex np c < n ∧ qIndex np t < n from hin)]; rfl
  | cz c t => simp only [stepOp]; rw [if_pos (show qIndex np c < n ∧ qIndex np t < n from hin)]; rfl
  | ccx c t cr => cases hg
  | ccz c t cr => cases hg
  | mcr c t cr => cases hg
  | measz q cr => cases hg
  | wrap gs q => cases hg

/-- an operation of the compile sequence that is a unitary gate and decodable -/
def gateDec (ne np : Nat) (a : SOp) : Option Dec :=
  match decode ne np a with
  | some d => if cIsGate (toCOp a) then some d else none
  | none => none

/-- **the compile step of the stabilizer backend on unitary-gate operations** (`none` on everything else) -/
def appT (ne np : Nat) (a : SOp) (s : Option RunState) : Option RunState :=
  match gateDec ne np a with
  | some _ => s.bind fun s => stepOp np (ne + np) .zero s (toCOp a)
  | none => none

theorem appT_none (ne np : Nat) (a : SOp) : appT ne np a none = none := by
  unfold appT; split <;> rfl

theorem appT_undecodable (ne np : Nat) (a : SOp) (h : gateDec ne np a = none) (s : Option RunState) : appT ne np a s = none := by
  unfold appT; rw [h]

theorem gateDec_some {ne np : Nat} {a : SOp} {d : Dec} (h : gateDec ne np a = some d) :
    decode ne np a = some d ∧ cIsGate (toCOp a) = true := by
  unfold gateDec at h
  split at h
  · next d' hd =>
    split at h
    · next hg => cases h; exact ⟨hd, hg⟩
    · cases h
  · cases h

theorem appT_some (ne np : Nat) (a : SOp) (d : Dec) (h : gateDec ne np a = some d) (s : RunState) :
    appT ne np a (some s) = some { s with t := (s.t.map (rowsP (d.prims false))).norm } := by
  obtain ⟨hd, hg⟩ := gateDec_some h
  unfold appT
  rw [h]
  simp only [Option.bind_some]
  rw [stepOp_gate np (ne + np) .zero s (toCOp a) hg (decode_inRange ne np a d hd)]
  have hcop : copPrims np (toCOp a) false = d.prims false := by
    -- the primitives do not depend on distinctness of the registers
    have h2 := hd
    unfold decode at h2
    unfold toCOp
    split at h2
    · next g r hitem hregs =>
      rw [hitem, hregs]
      cases hq : regIx ne np r with
      | none => rw [hq] at h2; cases h2
      | some q =>
        rw [hq] at h2
        simp only [Option.map_some, Option.some.injEq] at h2
        subst h2
        show _ = g1Prims g q
        rw [← regIx_qIndex hq]; exact (g1Prims_eq np g _ false).symm
    · next _ cr r hitem hregs =>
      rw [hitem, hregs]
      cases hq : regIx ne np r with
      | none => rw [hq] at h2; cases h2
      | some q =>
        rw [hq] at h2
        simp only [Option.map_some, Option.some.injEq] at h2
        subst h2
        show [Tab.Op.meas (qIndex np (toQReg r)) false] = [Tab.Op.meas q false]
        rw [regIx_qIndex hq]
    · next k _ cr c t hitem hregs =>
      split at h2
      · next qc qt hc ht =>
        rw [hitem, hregs]
        cases k <;> simp only [pairPrims, Option.some.injEq, reduceCtorEq] at h2
        all_goals subst h2
        all_goals simp only [pairCOp, copPrims, regIx_qIndex hc, regIx_qIndex ht]
      · cases h2
    · cases h2
  rw [hcop]

/-- the invariant: the table has `n` qubits -/
def OkT (n : Nat) (s : Option RunState) : Prop := ∀ s', s = some s' → s'.t.n = n

theorem appT_ok (ne np : Nat) (a : SOp) {s : Option RunState} (hs : OkT (ne + np) s) : OkT (ne + np) (appT ne np a s) := by
  intro s' h
  cases hd : gateDec ne np a with
  | none => rw [appT_undecodable ne np a hd] at h; cases h
  | some d =>
    cases s with
    | none => rw [appT_none] at h; cases h
    | some s0 =>
      rw [appT_some ne np a d hd] at h
      cases h
      exact hs s0 rfl

/-- **gate operations on disjoint registers commute literally in the compile loop**: the same run state, table included -/
theorem appT_comm (ne np : Nat) (a b : SOp) (hdis : ∀ r, r ∈ a.regs → r ∉ b.regs) (s : Option RunState)
    (hs : OkT (ne + np) s) : appT ne np a (appT ne np b s) = appT ne np b (appT ne np a s) := by
  cases hda : gateDec ne np a with
  | none => rw [appT_undecodable ne np a hda, appT_undecodable ne np a hda, appT_none]
  | some da =>
    cases hdb : gateDec ne np b with
    | none => rw [appT_undecodable ne np b hdb, appT_undecodable ne np b hdb, appT_none]
    | some db =>
      cases s with
      | none => simp only [appT_none]
      | some s0 =>
        have hn : s0.t.n = ne + np := hs s0 rfl
        have hwa := decode_within ne np a da (gateDec_some hda).1
        have hwb := decode_within ne np b db (gateDec_some hdb).1
        rw [appT_some ne np b db hdb, appT_some ne np a da hda, appT_some ne np a da hda, appT_some ne np b db hdb]
        have hrange : ∀ (d : Dec) (regs : List Reg), d.Within ne np regs →
            ∀ p, p ∈ d.prims false → ∀ j, j ∈ primSupp p → j < s0.t.n := by
          intro d regs hw p hp j hj
          obtain ⟨r, _, hr⟩ := hw.2 false p hp j hj
          rw [hn]; exact regIx_lt hr
        have hfa := congr_rowsP s0.t.n (da.prims false) (hrange da a.regs hwa)
        have hfb := congr_rowsP s0.t.n (db.prims false) (hrange db b.regs hwb)
        have hcomm : ∀ p, rowsP (da.prims false) (rowsP (db.prims false) p) =
            rowsP (db.prims false) (rowsP (da.prims false) p) := by
          apply Local.comm (local_rowsP _) (local_rowsP _)
          rintro j ⟨p, hp, hj⟩ ⟨p', hp', hj'⟩
          obtain ⟨r, hr, hrj⟩ := hwa.2 false p hp j hj
          obtain ⟨r', hr', hrj'⟩ := hwb.2 false p' hp' j hj'
          exact hdis r hr (regIx_inj hrj hrj' ▸ hr')
        have := gate_steps_commute s0.t _ _ hfa hfb hcomm
        simp only [this]

/-! ## 4. `stabRunFrom` on a gate-only sequence is `runSeq appT` -/

theorem runSeq_appT_none (ne np : Nat) (l : List SOp) : runSeq (appT ne np) l none = none := by
  induction l with
  | nil => rfl
  | cons a l ih => rw [Wire.runSeq_cons, appT_none, ih]

theorem foldlM_eq_runSeq (ne np : Nat) (l : List SOp) (hl : ∀ a, a ∈ l → (gateDec ne np a).isSome = true) (s : RunState) :
    (l.map toCOp).foldlM (stepOp np (ne + np) .zero) s = runSeq (appT ne np) l (some s) := by
  induction l generalizing s with
  | nil => rfl
  | cons a l ih =>
    obtain ⟨d, hd⟩ := Option.isSome_iff_exists.mp (hl a List.mem_cons_self)
    rw [Wire.runSeq_cons, appT_some ne np a d hd, List.map_cons, List.foldlM_cons]
    have : stepOp np (ne + np) .zero s (toCOp a) = some { s with t := (s.t.map (rowsP (d.prims false))).norm } := by
      have := appT_some ne np a d hd s
      unfold appT at this
      rw [hd] at this
      simpa using this
    rw [this]
    exact ih (fun b hb => hl b (List.mem_cons_of_mem _ hb)) _

/-- a gate step does not look at the measurement setting -/
theorem stepOp_gate_det (np n : Nat) (d d' : Det) (s : RunState) (op : COp) (hg : cIsGate op = true) :
    stepOp np n d s op = stepOp np n d' s op := by
  cases op <;> first | rfl | cases hg

theorem foldlM_gate_det (np n : Nat) (d : Det) (ops : List COp) (hg : ∀ op, op ∈ ops → cIsGate op = true) (s : RunState) :
    ops.foldlM (stepOp np n d) s = ops.foldlM (stepOp np n .zero) s := by
  induction ops generalizing s with
  | nil => rfl
  | cons op ops ih =>
    rw [List.foldlM_cons, List.foldlM_cons, stepOp_gate_det np n d .zero s op (hg op List.mem_cons_self)]
    cases stepOp np n .zero s op with
    | none => rfl
    | some s1 => exact ih (fun o ho => hg o (List.mem_cons_of_mem _ ho)) s1

/-! ## 5. the state type for the instantiated theorems, and gate-only circuits -/

/-- run states whose table has `ne + np` qubits (or `none`) -/
def TSt (ne np : Nat) : Type := { s : Option RunState // OkT (ne + np) s }

def appTG (ne np : Nat) (a : SOp) (s : TSt ne np) : TSt ne np := ⟨appT ne np a s.1, appT_ok ne np a s.2⟩

theorem appTG_comm (ne np : Nat) (a b : SOp) (hd : ∀ r, r ∈ a.regs → r ∉ b.regs) (s : TSt ne np) :
    appTG ne np a (appTG ne np b s) = appTG ne np b (appTG ne np a s) :=
  Subtype.ext (appT_comm ne np a b hd s.1 s.2)

theorem runSeq_appTG_val (ne np : Nat) (l : List SOp) (s : TSt ne np) :
    (runSeq (appTG ne np) l s).1 = runSeq (appT ne np) l s.1 := by
  induction l generalizing s with
  | nil => rfl
  | cons a l ih => exact ih (appTG ne np a s)

/-- every operation of the circuit is a unitary gate (one-qubit gate or wrapper, CNOT, CZ) -/
def GateOnly (c : Wire.Circuit) : Prop :=
  c.NodesSat fun op => match op.kind with
    | .wrapper _ | .base _ | .cnot | .cz => True
    | _ => False

/-- the rewrites of C13 keep a gate-only circuit gate-only -/
theorem Rewrites.gateOnly {c c' : Wire.Circuit} (hgood : c.Good) (hg : GateOnly c) (h : Wire.Rewrites c c') : GateOnly c' := by
  cases h with
  | copy => exact hg
  | unwrap order => exact Wire.NodesSat_unwrapNodes c order hg (fun _ _ => trivial)
  | removeIdentity order => exact Wire.NodesSat_removeIdentity c order hg
  | group order => exact Wire.NodesSat_group c order hg (fun _ _ _ => trivial)
  | assignNoise seq c' h =>
    obtain ⟨_, _, hnodes⟩ := Wire.flat_assignNoise c seq c' hgood.1 (Wire.good_opsOk hgood) h
    intro m op hm
    obtain ⟨n, hn⟩ := hnodes m op hm
    exact hg n op hn

/-- on a sane gate-only circuit every operation of a compile sequence is a decodable unitary gate -/
theorem sops_gate_ok (c : Wire.Circuit) (hgood : c.Good) (har : ArityOk c) (hg : GateOnly c) (seq : List Nat) :
    ∀ a, a ∈ c.sops seq → (gateDec c.ne c.np a).isSome = true ∧ cIsGate (toCOp a) = true := by
  intro a ha
  obtain ⟨d, hd⟩ := Option.isSome_iff_exists.mp (sops_ok c hgood har seq a ha).1
  have hgate : cIsGate (toCOp a) = true := by
    simp only [Wire.Circuit.sops, List.mem_flatMap] at ha
    obtain ⟨n, _, hx⟩ := ha
    cases hop : c.node n with
    | none => simp [Wire.Circuit.sopsOfNode, hop] at hx
    | some op =>
      simp only [Wire.Circuit.sopsOfNode, hop, Wire.sopsOfOp, List.mem_map] at hx
      obtain ⟨it, hit, rfl⟩ := hx
      obtain ⟨_, _, _, har1⟩ := hgood.2 n op hop
      have hG := hg n op hop
      have hA : ArOp op := har n op hop
      unfold ArOp at hA
      simp only at hG
      cases hk : op.kind with
      | wrapper gs =>
        obtain ⟨⟨r, hq⟩, _⟩ := har1 (by rw [hk]; rfl)
        simp only [Wire.flatOp, hk, List.mem_map] at hit
        obtain ⟨g, _, rfl⟩ := hit
        simp only [toCOp, hq]
        cases g <;> rfl
      | base g0 =>
        obtain ⟨⟨r, hq⟩, _⟩ := har1 (by rw [hk]; rfl)
        simp only [Wire.flatOp, hk, List.mem_map] at hit
        obtain ⟨g, _, rfl⟩ := hit
        simp only [toCOp, hq]
        cases g <;> rfl
      | cnot =>
        rw [hk] at hA
        obtain ⟨r1, r2, hq⟩ := hA
        simp only [Wire.flatOp, hk, List.mem_singleton] at hit
        subst hit
        simp only [toCOp, hq]; rfl
      | cz =>
        rw [hk] at hA
        obtain ⟨r1, r2, hq⟩ := hA
        simp only [Wire.flatOp, hk, List.mem_singleton] at hit
        subst hit
        simp only [toCOp, hq]; rfl
      | measZ => rw [hk] at hG; exact hG.elim
      | ccnot => rw [hk] at hG; exact hG.elim
      | ccz => rw [hk] at hG; exact hG.elim
      | mcr => rw [hk] at hG; exact hG.elim
  refine ⟨?_, hgate⟩
  simp [gateDec, hd, hgate]

/-- the compile loop on a gate-only compile sequence, as `runSeq appT` -/
theorem stabRun_eq_runSeq (c : Wire.Circuit) (hgood : c.Good) (har : ArityOk c) (hg : GateOnly c) (seq : List Nat)
    (d : Det) (script : List Bool) (ne np : Nat) (hne : ne = c.ne) (hnp : np = c.np) :
    stabRun ne np d script ((c.sops seq).map toCOp) =
      runSeq (appT ne np) (c.sops seq)
        (some { t := Tab.ket0 (ne + np), writes := [], script := script, rand := [], outs := [] }) := by
  subst hne hnp
  have hok := sops_gate_ok c hgood har hg seq
  unfold stabRun stabRunFrom
  rw [foldlM_gate_det _ _ d _ (fun op hop => by
    obtain ⟨a, ha, rfl⟩ := List.mem_map.mp hop
    exact (hok a ha).2)]
  exact foldlM_eq_runSeq c.ne c.np (c.sops seq) (fun a ha => (hok a ha).1) _

end Graphiq.Commute
