/-
  MetricsHistWires.lean — `unwrap_nodes` and `remove_identity` on the wire sequences as wired (C18/C12): every wire afterwards
  carries the flatMap-unwrap / the non-identity operations of what it carried, classical threading included.
-/
import GraphiqModel.Proofs.MetricsHistIso
set_option linter.unusedSectionVars false
set_option linter.unusedSimpArgs false
namespace Graphiq
namespace Metrics
open Dag Relation

theorem wiredWire_of_sched {c : Dag} {P : Paths} {L : List (NodeId × Op)} (g : Good c P) (hS : Sched c P L) (r : Reg) :
    wiredWire c P r = (L.map (·.2)).filter (fun o => decide (r ∈ opRegs o)) := by
  rw [hS.wiredWire_eq g r]
  unfold onReg
  rw [List.filter_map]
  rfl

/-- unwrapping keeps the registers: every gate of an unwrapped well-formed operation acts on the registers of the operation -/
theorem opRegs_unwrap {o : Op} (hwf : OpWF o) : ∀ o' ∈ o.unwrap, opRegs o' = opRegs o := by
  intro o' ho'
  by_cases hk : o.kind = .wrapper
  · obtain ⟨⟨r0, hq⟩, hc, _⟩ := hwf.wrapper_shape hk
    unfold Op.unwrap at ho'
    rw [hk] at ho'
    obtain ⟨k, _, rfl⟩ := List.mem_map.mp ho'
    unfold opRegs Op.oneQubit
    rw [hq, hc]
    rfl
  · rw [unwrap_of_not_wrapper hk] at ho'
    simp at ho'; rw [ho']

theorem filter_flatMap_unwrap (r : Reg) (l : List Op) (hwf : ∀ o ∈ l, OpWF o) :
    (l.flatMap Op.unwrap).filter (fun o => decide (r ∈ opRegs o)) =
      (l.filter (fun o => decide (r ∈ opRegs o))).flatMap Op.unwrap := by
  induction l with
  | nil => rfl
  | cons o t ih =>
    have iht := ih (fun x hx => hwf x (List.mem_cons_of_mem _ hx))
    rw [List.flatMap_cons, List.filter_append, iht]
    have hregs := opRegs_unwrap (hwf o (by simp))
    by_cases hr : r ∈ opRegs o
    · rw [List.filter_cons_of_pos (by simpa using hr), List.flatMap_cons]
      congr 1
      apply List.filter_eq_self.mpr
      intro o' ho'
      rw [hregs o' ho']; simpa using hr
    · rw [List.filter_cons_of_neg (by simpa using hr)]
      have : o.unwrap.filter (fun o => decide (r ∈ opRegs o)) = [] := by
        apply List.filter_eq_nil_iff.mpr
        intro o' ho'
        rw [hregs o' ho']; simpa using hr
      rw [this, List.nil_append]

/-- **`unwrap_nodes` on the wire sequences as wired**: flatMap-unwrap of every wire -/
theorem unwrapNodes_wiredWire {c : Dag} {P : Paths} (g : Good c P) (hpl : AllPlain c) :
    c.unwrapNodes.2 = none ∧ ∃ P', Good c.unwrapNodes.1 P' ∧ AllPlain c.unwrapNodes.1 ∧
      ∀ r, wiredWire c.unwrapNodes.1 P' r = (wiredWire c P r).flatMap Op.unwrap := by
  obtain ⟨L, hS⟩ := sched_exists g
  obtain ⟨he, P', L', g', hS', hpl', hL'⟩ := unwrapNodes_sched_gen g hpl hS
  refine ⟨he, P', g', hpl', ?_⟩
  intro r
  rw [wiredWire_of_sched g' hS' r, wiredWire_of_sched g hS r, hL']
  exact filter_flatMap_unwrap r _ (fun o ho => (hS.wf_plain g hpl o ho).1)

/-- **`remove_identity` on the wire sequences as wired**: the non-identity operations of every wire, in order -/
theorem removeIdentity_wiredWire {c : Dag} {P : Paths} (g : Good c P) (hpl : AllPlain c) :
    c.removeIdentity.2 = none ∧ ∃ P', Good c.removeIdentity.1 P' ∧ AllPlain c.removeIdentity.1 ∧
      ∀ r, wiredWire c.removeIdentity.1 P' r = (wiredWire c P r).filter (fun o => !decide (o.kind = .identity)) := by
  obtain ⟨L, hS⟩ := sched_exists g
  obtain ⟨he, P', L', g', hS', hpl', hL'⟩ := removeIdentity_sched_gen g hpl hS
  refine ⟨he, P', g', hpl', ?_⟩
  intro r
  rw [wiredWire_of_sched g' hS' r, wiredWire_of_sched g hS r, hL', List.filter_filter, List.filter_filter]
  apply List.filter_congr
  intro o _
  exact Bool.and_comm _ _

end Metrics
end Graphiq
