/-
  Proofs/StateToGraphPairMatrix.lean — the density matrices of the two two-vertex graph states, entry by entry: they are the exact 4×4
  rational matrices `Neg.rhoPlus`, `Neg.rhoEdge` of Proofs/StateToGraphNegativity.lean (index `2·b₀ + b₁`, qubit 0 most significant, the
  order of `np.kron`).  Finite computation.
-/
import GraphiqModel.Proofs.StateToGraphCompress
import GraphiqModel.Proofs.StateToGraphNegativity
namespace Graphiq
open PRow Tab STab S2G Matrix Hilbert

/-- index of a two-qubit basis state in the 4×4 matrices: `2·b₀ + b₁` -/
def idx2 (a : Bits 2) : Fin 4 := ⟨2 * (a 0).toNat + (a 1).toNat, by cases a 0 <;> cases a 1 <;> decide⟩

theorem rho2_expand (T : STab) :
    rhoTo 2 T.row 2 = (1 / 4 : ℂ) • (1 + pauliMat 2 (T.row 0) + pauliMat 2 (T.row 1) + pauliMat 2 (PRow.mul 2 (T.row 0) (T.row 1))) := by
  rw [rhoTo_eq_gTo, pauliMat_mul]
  show ((1 / 2 : ℂ) ^ 2) • ((1 * (1 + pauliMat 2 (T.row 0))) * (1 + pauliMat 2 (T.row 1))) = _
  rw [Matrix.one_mul, Matrix.add_mul, Matrix.mul_add, Matrix.mul_add, Matrix.one_mul, Matrix.one_mul, Matrix.mul_one]
  congr 1
  · norm_num
  · abel

theorem pauliMat2_entry (p : PRow) (a0 a1 b0 b1 : Bool) :
    pauliMat 2 p ![a0, a1] ![b0, b1] =
      if (a0 = xor b0 (p.x 0) ∧ a1 = xor b1 (p.x 1)) then
        iPow (p.ph + (sFun (p.x 0) (p.z 0) b0 + sFun (p.x 1) (p.z 1) b1)) else 0 := by
  rw [pauliMat_apply]
  have hc : (![a0, a1] = flip p.x ![b0, b1]) ↔ (a0 = xor b0 (p.x 0) ∧ a1 = xor b1 (p.x 1)) := by
    constructor
    · intro h
      exact ⟨congrFun h 0, congrFun h 1⟩
    · rintro ⟨h0, h1⟩
      funext k
      fin_cases k
      · exact h0
      · exact h1
  have he : pexp 2 p ![b0, b1] = p.ph + (sFun (p.x 0) (p.z 0) b0 + sFun (p.x 1) (p.z 1) b1) := by
    simp [pexp, sumTo, bx]
  simp only [hc, he]

theorem iPow_six : iPow 6 = -1 := by
  rw [show (6 : ℤ) = 4 + 2 from rfl, iPow_add, iPow_four, iPow_two]; simp

theorem bits2_cases (a : Bits 2) : ∃ a0 a1, a = ![a0, a1] :=
  ⟨a 0, a 1, by funext k; fin_cases k <;> rfl⟩

/-- **the density matrices of the two two-vertex graph states are `Neg.rhoPlus` and `Neg.rhoEdge`**, entry by entry -/
theorem rho2_entries (e : Bool) (a b : Bits 2) :
    rho 2 (graphSTab 2 (pairAdj e)) a b = (((if e then Neg.rhoEdge else Neg.rhoPlus) (idx2 a) (idx2 b) : ℚ) : ℂ) := by
  obtain ⟨a0, a1, rfl⟩ := bits2_cases a
  obtain ⟨b0, b1, rfl⟩ := bits2_cases b
  show rhoTo 2 (graphSTab 2 (pairAdj e)).row 2 _ _ = _
  rw [rho2_expand]
  simp only [Matrix.smul_apply, Matrix.add_apply, pauliMat2_entry, Matrix.one_apply]
  cases e <;> cases a0 <;> cases a1 <;> cases b0 <;> cases b1 <;>
    simp [graphSTab, pairAdj, PRow.mul, PRow.ph, gSum, sumTo, gFun, sFun, Bool.toInt', Neg.rhoEdge, Neg.rhoPlus, idx2,
      iPow_zero, iPow_two, iPow_four, iPow_six] <;> norm_num

end Graphiq
