/-
  Proofs/HilbertDimSite.lean — one tensor factor at an arbitrary site of the bit-string index.

  * `siteEquiv q : Bits (m+1) ≃ Bits m × Bool` (delete bit `q` / insert a bit at position `q`), for every `q ≤ m`;
  * `insSite q A u` : the operator `A` on the other `m` qubits times the 2×2 matrix `u` on qubit `q` — it is the Kronecker
    product `A ⊗ₖ u` of Mathlib re-indexed along `siteEquiv q`; product, unit, adjoint, trace, linearity;
  * `ptraceSite q M` : the partial trace over qubit `q`, `(Tr_q M) a b = Σ_s M (a with s at q) (b with s at q)`;
    `ptraceSite q (insSite q A u) = tr u • A`;
  * `pauliMat_site` : `pauliMat (m+1) P = insSite q (pauliMat m (P.deleteCol q)) σ(x_q, z_q)` — the generalisation of
    `pauliMat_succ` from the last site to any site.
-/
import GraphiqModel.Proofs.HilbertMeasure
import GraphiqModel.Proofs.HilbertKron
import GraphiqModel.Proofs.TabSpecHom
import Mathlib.LinearAlgebra.Matrix.Kronecker
namespace Graphiq
namespace Hilbert
open Matrix PRow
open scoped Kronecker

/-! ### deleting / inserting one bit -/

/-- the string without bit `q` -/
def delB {m : Nat} (q : Nat) (b : Bits (m + 1)) : Bits m :=
  fun j => if j.val < q then bx b j.val else bx b (j.val + 1)

/-- the string with the bit `s` inserted at position `q` -/
def insB {m : Nat} (q : Nat) (a : Bits m) (s : Bool) : Bits (m + 1) :=
  fun j => if j.val < q then bx a j.val else if j.val = q then s else bx a (j.val - 1)

theorem bx_delB {m : Nat} (q : Nat) (b : Bits (m + 1)) (j : Nat) (hj : j < m) :
    bx (delB q b) j = if j < q then bx b j else bx b (j + 1) := by
  rw [bx_lt _ _ hj]; rfl

theorem bx_insB {m : Nat} (q : Nat) (a : Bits m) (s : Bool) (j : Nat) (hj : j < m + 1) :
    bx (insB q a s) j = if j < q then bx a j else if j = q then s else bx a (j - 1) := by
  rw [bx_lt _ _ hj]; rfl

theorem bx_insB_self {m : Nat} (q : Nat) (hq : q ≤ m) (a : Bits m) (s : Bool) : bx (insB q a s) q = s := by
  rw [bx_insB q a s q (by omega)]; simp

theorem delB_insB {m : Nat} (q : Nat) (a : Bits m) (s : Bool) : delB q (insB q a s) = a := by
  apply bits_ext
  intro j hj
  rw [bx_delB q _ j hj]
  by_cases h : j < q
  · rw [if_pos h, bx_insB q a s j (by omega), if_pos h]
  · rw [if_neg h, bx_insB q a s (j + 1) (by omega), if_neg (by omega), if_neg (by omega)]
    rfl

theorem insB_delB {m : Nat} (q : Nat) (hq : q ≤ m) (b : Bits (m + 1)) : insB q (delB q b) (bx b q) = b := by
  apply bits_ext
  intro j hj
  rw [bx_insB q _ _ j hj]
  by_cases h : j < q
  · rw [if_pos h, bx_delB q b j (by omega), if_pos h]
  · by_cases e : j = q
    · rw [if_neg h, if_pos e, e]
    · rw [if_neg h, if_neg e, bx_delB q b (j - 1) (by omega), if_neg (by omega)]
      congr 1; omega

/-- **`Bits (m+1) ≃ Bits m × Bool`** at site `q` -/
def siteEquiv {m : Nat} (q : Nat) (hq : q ≤ m) : Bits (m + 1) ≃ Bits m × Bool where
  toFun b := (delB q b, bx b q)
  invFun p := insB q p.1 p.2
  left_inv b := insB_delB q hq b
  right_inv p := by
    show (delB q (insB q p.1 p.2), bx (insB q p.1 p.2) q) = p
    rw [delB_insB, bx_insB_self q hq]

theorem bits_site_ext {m : Nat} (q : Nat) (hq : q ≤ m) (a b : Bits (m + 1)) :
    a = b ↔ delB q a = delB q b ∧ bx a q = bx b q := by
  constructor
  · intro h; subst h; exact ⟨rfl, rfl⟩
  · intro ⟨h1, h2⟩
    have := congrArg (siteEquiv q hq).symm (show (siteEquiv q hq) a = (siteEquiv q hq) b from Prod.ext h1 h2)
    simpa using this

/-! ### an operator on the other qubits times a 2×2 matrix at site `q` -/

/-- `A` on the `m` other qubits, `u` on qubit `q`: entry `A (a without q) (b without q) · u a_q b_q` -/
noncomputable def insSite {m : Nat} (q : Nat) (A : Matrix (Bits m) (Bits m) ℂ) (u : Matrix Bool Bool ℂ) :
    Matrix (Bits (m + 1)) (Bits (m + 1)) ℂ :=
  Matrix.of fun a b => A (delB q a) (delB q b) * u (bx a q) (bx b q)

theorem insSite_apply {m : Nat} (q : Nat) (A : Matrix (Bits m) (Bits m) ℂ) (u : Matrix Bool Bool ℂ)
    (a b : Bits (m + 1)) : insSite q A u a b = A (delB q a) (delB q b) * u (bx a q) (bx b q) := rfl

/-- `insSite` is Mathlib's Kronecker product re-indexed along `siteEquiv` -/
theorem insSite_eq_kronecker {m : Nat} (q : Nat) (hq : q ≤ m) (A : Matrix (Bits m) (Bits m) ℂ)
    (u : Matrix Bool Bool ℂ) : insSite q A u = (A ⊗ₖ u).submatrix (siteEquiv q hq) (siteEquiv q hq) := rfl

theorem insSite_mul {m : Nat} (q : Nat) (hq : q ≤ m) (A A' : Matrix (Bits m) (Bits m) ℂ) (u u' : Matrix Bool Bool ℂ) :
    insSite q A u * insSite q A' u' = insSite q (A * A') (u * u') := by
  rw [insSite_eq_kronecker q hq, insSite_eq_kronecker q hq, insSite_eq_kronecker q hq, Matrix.submatrix_mul_equiv,
    Matrix.mul_kronecker_mul]

theorem insSite_one {m : Nat} (q : Nat) (hq : q ≤ m) : insSite (m := m) q 1 1 = 1 := by
  rw [insSite_eq_kronecker q hq, Matrix.one_kronecker_one, Matrix.submatrix_one_equiv]

theorem insSite_conjTranspose {m : Nat} (q : Nat) (A : Matrix (Bits m) (Bits m) ℂ) (u : Matrix Bool Bool ℂ) :
    (insSite q A u)ᴴ = insSite q Aᴴ uᴴ := by
  ext a b
  simp only [Matrix.conjTranspose_apply, insSite_apply, star_mul']

theorem insSite_add_left {m : Nat} (q : Nat) (A A' : Matrix (Bits m) (Bits m) ℂ) (u : Matrix Bool Bool ℂ) :
    insSite q (A + A') u = insSite q A u + insSite q A' u := by
  ext a b; simp only [insSite_apply, Matrix.add_apply, add_mul]

theorem insSite_add_right {m : Nat} (q : Nat) (A : Matrix (Bits m) (Bits m) ℂ) (u u' : Matrix Bool Bool ℂ) :
    insSite q A (u + u') = insSite q A u + insSite q A u' := by
  ext a b; simp only [insSite_apply, Matrix.add_apply, mul_add]

theorem insSite_smul_left {m : Nat} (q : Nat) (c : ℂ) (A : Matrix (Bits m) (Bits m) ℂ) (u : Matrix Bool Bool ℂ) :
    insSite q (c • A) u = c • insSite q A u := by
  ext a b; simp only [insSite_apply, Matrix.smul_apply, smul_eq_mul]; ring

theorem insSite_smul_right {m : Nat} (q : Nat) (c : ℂ) (A : Matrix (Bits m) (Bits m) ℂ) (u : Matrix Bool Bool ℂ) :
    insSite q A (c • u) = c • insSite q A u := by
  ext a b; simp only [insSite_apply, Matrix.smul_apply, smul_eq_mul]; ring

theorem insSite_zero_left {m : Nat} (q : Nat) (u : Matrix Bool Bool ℂ) :
    insSite (m := m) q 0 u = 0 := by
  ext a b; simp [insSite_apply]

theorem trace_submatrix_equiv {α β : Type} [Fintype α] [Fintype β] (e : α ≃ β) (M : Matrix β β ℂ) :
    Matrix.trace (M.submatrix e e) = Matrix.trace M := by
  unfold Matrix.trace
  exact Fintype.sum_equiv e _ _ (fun a => rfl)

theorem trace_insSite {m : Nat} (q : Nat) (hq : q ≤ m) (A : Matrix (Bits m) (Bits m) ℂ) (u : Matrix Bool Bool ℂ) :
    Matrix.trace (insSite q A u) = Matrix.trace A * Matrix.trace u := by
  rw [insSite_eq_kronecker q hq, trace_submatrix_equiv, Matrix.trace_kronecker]

/-! ### partial trace over one site -/

/-- partial trace over qubit `q` -/
noncomputable def ptraceSite {m : Nat} (q : Nat) (M : Matrix (Bits (m + 1)) (Bits (m + 1)) ℂ) :
    Matrix (Bits m) (Bits m) ℂ :=
  Matrix.of fun a b => ∑ s : Bool, M (insB q a s) (insB q b s)

theorem ptraceSite_apply {m : Nat} (q : Nat) (M : Matrix (Bits (m + 1)) (Bits (m + 1)) ℂ) (a b : Bits m) :
    ptraceSite q M a b = M (insB q a false) (insB q b false) + M (insB q a true) (insB q b true) := by
  show ∑ s : Bool, M (insB q a s) (insB q b s) = _
  rw [Fintype.sum_bool, add_comm]

/-- **`Tr_q (A ⊗_q u) = tr(u) · A`** -/
theorem ptraceSite_insSite {m : Nat} (q : Nat) (hq : q ≤ m) (A : Matrix (Bits m) (Bits m) ℂ)
    (u : Matrix Bool Bool ℂ) : ptraceSite q (insSite q A u) = Matrix.trace u • A := by
  ext a b
  rw [ptraceSite_apply]
  simp only [insSite_apply, delB_insB, bx_insB_self q hq, Matrix.smul_apply, smul_eq_mul, Matrix.trace,
    Matrix.diag_apply, Fintype.sum_bool]
  ring

theorem ptraceSite_add {m : Nat} (q : Nat) (M N : Matrix (Bits (m + 1)) (Bits (m + 1)) ℂ) :
    ptraceSite q (M + N) = ptraceSite q M + ptraceSite q N := by
  ext a b; simp only [ptraceSite_apply, Matrix.add_apply]; ring

theorem ptraceSite_smul {m : Nat} (q : Nat) (c : ℂ) (M : Matrix (Bits (m + 1)) (Bits (m + 1)) ℂ) :
    ptraceSite q (c • M) = c • ptraceSite q M := by
  ext a b; simp only [ptraceSite_apply, Matrix.smul_apply, smul_eq_mul]; ring

/-- the partial trace preserves the trace -/
theorem trace_ptraceSite {m : Nat} (q : Nat) (hq : q ≤ m) (M : Matrix (Bits (m + 1)) (Bits (m + 1)) ℂ) :
    Matrix.trace (ptraceSite q M) = Matrix.trace M := by
  unfold Matrix.trace
  have h1 : ∑ b : Bits (m + 1), M.diag b = ∑ p : Bits m × Bool, M.diag ((siteEquiv q hq).symm p) :=
    (Fintype.sum_equiv (siteEquiv q hq).symm _ _ (fun _ => rfl)).symm
  rw [h1, Fintype.sum_prod_type]
  rfl

/-! ### the matrix of a Pauli row factorises at every site -/

theorem sumTo_site (m q : Nat) (hq : q ≤ m) (f : Nat → Int) :
    sumTo (m + 1) f = sumTo m (fun j => if j < q then f j else f (j + 1)) + f q := by
  let f' : Nat → Int := fun j => if j = q then 0 else f j
  have h1 : sumTo m (fun j => if j < q then f' j else f' (j + 1)) = sumTo (m + 1) f' :=
    TabSpec.sumTo_delete m q f' hq (by simp [f'])
  have h2 : sumTo m (fun j => if j < q then f' j else f' (j + 1)) = sumTo m (fun j => if j < q then f j else f (j + 1)) := by
    apply sumTo_congr
    intro j _
    by_cases h : j < q
    · have : j ≠ q := by omega
      simp [f', h, this]
    · have : j + 1 ≠ q := by omega
      simp [f', h, this]
  have h3 := sumTo_diff_one (m + 1) q f f' (by omega) (by intro j hj; simp [f', hj])
  have h4 : f' q = 0 := by simp [f']
  rw [← h2, h1]; omega

theorem delB_flip {m : Nat} (q : Nat) (x : Nat → Bool) (b : Bits (m + 1)) :
    delB q (flip x b) = flip (fun j => if j < q then x j else x (j + 1)) (delB q b) := by
  apply bits_ext
  intro j hj
  rw [bx_delB q _ j hj, bx_flip _ _ _ hj, bx_delB q b j hj]
  by_cases h : j < q
  · rw [if_pos h, if_pos h, if_pos h, bx_flip _ _ _ (by omega)]
  · rw [if_neg h, if_neg h, if_neg h, bx_flip _ _ _ (by omega)]

theorem pexp_site (m q : Nat) (hq : q ≤ m) (P : PRow) (b : Bits (m + 1)) :
    pexp (m + 1) P b = pexp m (P.deleteCol q) (delB q b) + sFun (P.x q) (P.z q) (bx b q) := by
  unfold pexp
  rw [sumTo_site m q hq, TabSpec.deleteCol_ph]
  have : sumTo m (fun j => if j < q then sFun (P.x j) (P.z j) (bx b j) else sFun (P.x (j + 1)) (P.z (j + 1)) (bx b (j + 1)))
      = sumTo m (fun j => sFun ((P.deleteCol q).x j) ((P.deleteCol q).z j) (bx (delB q b) j)) := by
    apply sumTo_congr
    intro j hj
    rw [bx_delB q b j hj]
    by_cases h : j < q <;> simp [PRow.deleteCol, h]
  rw [this]; omega

/-- **Kronecker structure at an arbitrary site.**  `pauliMat (m+1) P = pauliMat m (P without site q) ⊗_q σ(x_q, z_q)`
    (the phase bits are carried by the first factor); `pauliMat_succ` is the case `q = m`. -/
theorem pauliMat_site (m q : Nat) (hq : q ≤ m) (P : PRow) :
    pauliMat (m + 1) P = insSite q (pauliMat m (P.deleteCol q)) (sigma (P.x q) (P.z q)) := by
  ext a b
  rw [insSite_apply, pauliMat_apply, pauliMat_apply]
  simp only [sigma, Matrix.of_apply]
  have hf : a = flip P.x b ↔ delB q a = flip (P.deleteCol q).x (delB q b) ∧ bx a q = xor (bx b q) (P.x q) := by
    rw [bits_site_ext q hq, delB_flip, bx_flip _ _ _ (by omega)]
    rfl
  by_cases h1 : delB q a = flip (P.deleteCol q).x (delB q b)
  · by_cases h2 : bx a q = xor (bx b q) (P.x q)
    · rw [if_pos (hf.mpr ⟨h1, h2⟩), if_pos h1, if_pos h2, pexp_site m q hq, iPow_add]
    · rw [if_neg (fun h => h2 (hf.mp h).2), if_neg h2, mul_zero]
  · rw [if_neg (fun h => h1 (hf.mp h).1), if_neg h1, zero_mul]

/-- a row with an identity inserted at site `q` acts as `P ⊗_q 1` -/
theorem pauliMat_insertCol (m q : Nat) (hq : q ≤ m) (P : PRow) :
    pauliMat (m + 1) (P.insertCol q) = insSite q (pauliMat m P) 1 := by
  rw [pauliMat_site m q hq, pauliMat_congr m _ _ (TabSpec.deleteCol_insertCol m q P), TabSpec.insertCol_x,
    TabSpec.insertCol_z, sigma_ff]

theorem proj_insertCol (m q : Nat) (hq : q ≤ m) (P : PRow) :
    proj (m + 1) (P.insertCol q) = insSite q (proj m P) 1 := by
  unfold proj
  rw [pauliMat_insertCol m q hq, insSite_smul_left, insSite_add_left, insSite_one q hq]

/-! ### consistency with the "last qubit = right-most Kronecker factor" convention of `HilbertKron` -/

theorem delB_last {m : Nat} (b : Bits (m + 1)) : delB m b = initB b := by
  apply bits_ext
  intro j hj
  rw [bx_delB m b j hj, if_pos hj, bx_initB b j hj]

/-- at the last site `insSite` is the entrywise Kronecker product of `pauliMat_succ` -/
theorem insSite_last {m : Nat} (A : Matrix (Bits m) (Bits m) ℂ) (u : Matrix Bool Bool ℂ) (a b : Bits (m + 1)) :
    insSite m A u a b = A (initB a) (initB b) * u (lastB a) (lastB b) := by
  rw [insSite_apply, delB_last, delB_last, bx_lastB, bx_lastB]

end Hilbert
end Graphiq
