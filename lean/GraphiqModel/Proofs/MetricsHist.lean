/-
  MetricsHist.lean — every circuit satisfying DagInv has a schedule (C18, lifting the metric theorems from circuits
  built by `add` to every circuit reachable by an edit history).

  `schedOf c P pos` = the operation nodes of the circuit sorted by a position function, each with its operation as
  wired (`wiredOp`).  If `pos` is a linear extension of the edge relation that is injective on the nodes — what
  `nx.topological_sort` / `sequence()` returns; one exists on every circuit satisfying DagInv (`topo_exists`) — this is
  a schedule (`Sched`): every wire is `in, (the scheduled nodes on the register, in schedule order), out`.
  Hence the static depth theorem and the op-list specifications apply to every circuit satisfying DagInv, with the
  operation list "the operations in any topological order".
-/
import GraphiqModel.Proofs.PrepDepth
import GraphiqModel.Proofs.Topo
set_option linter.unusedSectionVars false
set_option linter.unusedSimpArgs false
namespace Graphiq
namespace Metrics
open Dag Relation

/-! ## list helpers -/

theorem pairwise_of_split {α : Type} {R : α → α → Prop} :
    ∀ {l : List α}, (∀ l1 l2 l3 x y, l = l1 ++ x :: (l2 ++ y :: l3) → R x y) → l.Pairwise R
  | [], _ => List.Pairwise.nil
  | a :: t, h => by
    rw [List.pairwise_cons]
    constructor
    · intro y hy
      obtain ⟨l2, l3, ht⟩ := List.append_of_mem hy
      exact h [] l2 l3 a y (by rw [ht]; rfl)
    · exact pairwise_of_split (fun l1 l2 l3 x y ht => h (a :: l1) l2 l3 x y (by rw [ht]; rfl))

/-- two duplicate-free lists with the same members, both sorted by an injective key, are equal -/
theorem eq_of_sorted_of_mem_iff {l1 l2 : List NodeId} {pos : NodeId → Nat} (hinj : ∀ a ∈ l1, ∀ b ∈ l1, pos a = pos b → a = b)
    (h1 : l1.Pairwise (fun a b => pos a ≤ pos b)) (h2 : l2.Pairwise (fun a b => pos a ≤ pos b)) (n1 : l1.Nodup) (n2 : l2.Nodup)
    (hmem : ∀ x, x ∈ l1 ↔ x ∈ l2) : l1 = l2 := by
  have hperm : l1.Perm l2 := (List.perm_ext_iff_of_nodup n1 n2).mpr hmem
  have h1' : l1.Pairwise (fun a b => decide (pos a ≤ pos b) = true) := h1.imp (by intro a b h; simpa using h)
  have h2' : l2.Pairwise (fun a b => decide (pos a ≤ pos b) = true) := h2.imp (by intro a b h; simpa using h)
  refine List.Perm.eq_of_pairwise (le := fun a b => decide (pos a ≤ pos b)) ?_ h1' h2' hperm
  intro a b ha hb hab hba
  have hab' : pos a ≤ pos b := by simpa using hab
  have hba' : pos b ≤ pos a := by simpa using hba
  exact hinj a ha b ((hmem b).mpr hb) (by omega)

/-! ## insertion sort by position (structural recursion: evaluates in the kernel) -/

def insertBy (pos : NodeId → Nat) (a : NodeId × Op) : List (NodeId × Op) → List (NodeId × Op)
  | [] => [a]
  | b :: t => if pos a.1 ≤ pos b.1 then a :: b :: t else b :: insertBy pos a t

def isort (pos : NodeId → Nat) : List (NodeId × Op) → List (NodeId × Op)
  | [] => []
  | a :: t => insertBy pos a (isort pos t)

theorem insertBy_perm (pos : NodeId → Nat) (a : NodeId × Op) (l : List (NodeId × Op)) : (insertBy pos a l).Perm (a :: l) := by
  induction l with
  | nil => exact List.Perm.refl _
  | cons b t ih =>
    unfold insertBy
    by_cases h : pos a.1 ≤ pos b.1
    · rw [if_pos h]
    · rw [if_neg h]
      exact (List.Perm.cons b ih).trans (List.Perm.swap a b t)

theorem isort_perm (pos : NodeId → Nat) (l : List (NodeId × Op)) : (isort pos l).Perm l := by
  induction l with
  | nil => exact List.Perm.refl _
  | cons a t ih => exact (insertBy_perm pos a _).trans (List.Perm.cons a ih)

theorem insertBy_pairwise (pos : NodeId → Nat) (a : NodeId × Op) {l : List (NodeId × Op)}
    (h : l.Pairwise (fun x y => pos x.1 ≤ pos y.1)) : (insertBy pos a l).Pairwise (fun x y => pos x.1 ≤ pos y.1) := by
  induction l with
  | nil => simp [insertBy]
  | cons b t ih =>
    rw [List.pairwise_cons] at h
    unfold insertBy
    by_cases hab : pos a.1 ≤ pos b.1
    · rw [if_pos hab, List.pairwise_cons]
      refine ⟨?_, List.pairwise_cons.mpr h⟩
      intro y hy
      rcases List.mem_cons.mp hy with rfl | hy
      · exact hab
      · have := h.1 y hy; omega
    · rw [if_neg hab, List.pairwise_cons]
      refine ⟨?_, ih h.2⟩
      intro y hy
      rcases List.mem_cons.mp ((insertBy_perm pos a t).subset hy) with rfl | hy
      · omega
      · exact h.1 y hy

theorem isort_pairwise (pos : NodeId → Nat) (l : List (NodeId × Op)) : (isort pos l).Pairwise (fun x y => pos x.1 ≤ pos y.1) := by
  induction l with
  | nil => exact List.Pairwise.nil
  | cons a t ih => exact insertBy_pairwise pos a ih

/-! ## the schedule of a topological order -/

/-- the operation nodes sorted by `pos`, each with its operation as wired -/
def schedOf (c : Dag) (P : Paths) (pos : NodeId → Nat) : List (NodeId × Op) :=
  (isort pos (c.nodes.filter isOpNode)).map (fun p => (p.1, wiredOp P p.1 p.2))

theorem mem_opNodes {c : Dag} {q : NodeId × Op} : q ∈ c.nodes.filter isOpNode ↔ (∃ i, q.1 = NodeId.op i) ∧ q ∈ c.nodes := by
  rw [List.mem_filter]
  obtain ⟨n, o⟩ := q
  cases n <;> simp [isOpNode]

theorem mem_schedOf {c : Dag} {P : Paths} {pos : NodeId → Nat} (p : NodeId × Op) :
    p ∈ schedOf c P pos ↔ (∃ i, p.1 = NodeId.op i) ∧ ∃ o, (p.1, o) ∈ c.nodes ∧ p.2 = wiredOp P p.1 o := by
  unfold schedOf
  rw [List.mem_map]
  constructor
  · rintro ⟨q, hq, rfl⟩
    have hq' := (isort_perm _ _).subset hq
    obtain ⟨hi, hm⟩ := mem_opNodes.mp hq'
    exact ⟨hi, q.2, hm, rfl⟩
  · rintro ⟨hi, o, hm, ho⟩
    refine ⟨(p.1, o), (isort_perm _ _).symm.subset (mem_opNodes.mpr ⟨hi, hm⟩), ?_⟩
    exact Prod.ext rfl ho.symm

theorem schedOf_fst (c : Dag) (P : Paths) (pos : NodeId → Nat) :
    (schedOf c P pos).map (·.1) = (isort pos (c.nodes.filter isOpNode)).map (·.1) := by
  unfold schedOf
  rw [List.map_map]
  rfl

theorem schedOf_sorted (c : Dag) (P : Paths) (pos : NodeId → Nat) :
    ((schedOf c P pos).map (·.1)).Pairwise (fun a b => pos a ≤ pos b) := by
  rw [schedOf_fst, List.pairwise_map]
  exact isort_pairwise pos _

theorem schedOf_nodup {c : Dag} {P : Paths} (h : Inv c P) (pos : NodeId → Nat) : ((schedOf c P pos).map (·.1)).Nodup := by
  rw [schedOf_fst]
  have hp : ((isort pos (c.nodes.filter isOpNode)).map (·.1)).Perm
      ((c.nodes.filter isOpNode).map (·.1)) := (isort_perm _ _).map _
  rw [hp.nodup_iff]
  exact List.Nodup.sublist (List.Sublist.map _ List.filter_sublist) h.ids_nodup

/-- **every topological order is a schedule**: for a circuit satisfying DagInv with wires `P` and a position function
    `pos` that increases along every edge and is injective on the nodes, the operation nodes sorted by `pos` (with their
    operations as wired) form a schedule of the circuit -/
theorem schedOf_sched {c : Dag} {P : Paths} (g : Good c P) {pos : NodeId → Nat} (hlin : LinearExt c pos)
    (hinj : ∀ a ∈ c.nodeIds, ∀ b ∈ c.nodeIds, pos a = pos b → a = b) : Sched c P (schedOf c P pos) := by
  have hlive : ∀ p ∈ schedOf c P pos, ∀ r ∈ opRegs p.2, c.live r := by
    intro p hp r hr
    obtain ⟨⟨i, hi⟩, o, hm, ho⟩ := (mem_schedOf p).mp hp
    rw [hi] at hm ho
    rw [ho, mem_opRegs_wiredOp g hm] at hr
    by_cases hl : c.live r
    · exact hl
    · rw [g.inv.dead r hl] at hr; simp at hr
  refine ⟨?_, mem_schedOf, schedOf_nodup g.inv pos, hlive⟩
  intro r hl
  obtain ⟨mid, hP, hmid⟩ := g.inv.shape r hl
  rw [hP]
  congr 2
  have hndP := g.inv.nodup r
  rw [hP] at hndP
  have hnd_mid : mid.Nodup := (List.nodup_append.mp (List.nodup_cons.mp hndP).2).1
  have hmid_nodes : ∀ x ∈ mid, x ∈ c.nodeIds := fun x hx => g.inv.mem_nodes r x (by rw [hP]; simp [hx])
  apply eq_of_sorted_of_mem_iff (pos := pos) (fun a ha b hb => hinj a (hmid_nodes a ha) b (hmid_nodes b hb))
  · apply pairwise_of_split
    intro l1 l2 l3 x y hsplit
    have := pos_lt_of_before g.inv hlin r (NodeId.inp r :: l1) l2 (l3 ++ [NodeId.out r]) x y (by rw [hP, hsplit]; simp)
    omega
  · unfold schedWire
    have hs := schedOf_sorted c P pos
    rw [List.pairwise_map] at hs ⊢
    exact hs.sublist List.filter_sublist
  · exact hnd_mid
  · unfold schedWire
    exact List.Nodup.sublist (List.Sublist.map _ List.filter_sublist) (schedOf_nodup g.inv pos)
  · intro x
    rw [mem_schedWire]
    constructor
    · intro hx
      obtain ⟨i, rfl⟩ := hmid x hx
      have hxP : NodeId.op i ∈ P r := by rw [hP]; simp [hx]
      obtain ⟨o, ho⟩ := mem_nodeIds.mp (g.inv.mem_nodes r _ hxP)
      exact ⟨(.op i, wiredOp P (.op i) o), (mem_schedOf _).mpr ⟨⟨i, rfl⟩, o, ho, rfl⟩,
        (mem_opRegs_wiredOp g ho r).mpr hxP, rfl⟩
    · rintro ⟨p, hp, hr, rfl⟩
      obtain ⟨⟨i, hi⟩, o, hm, ho⟩ := (mem_schedOf p).mp hp
      rw [hi] at hm ho ⊢
      rw [ho, mem_opRegs_wiredOp g hm, hP] at hr
      rcases List.mem_cons.mp hr with e | hr
      · cases e
      · rcases List.mem_append.mp hr with hr | hr
        · exact hr
        · simp at hr

/-- **every circuit satisfying DagInv has a schedule** -/
theorem sched_exists {c : Dag} {P : Paths} (g : Good c P) : ∃ L, Sched c P L := by
  obtain ⟨pos, hlin, hinj⟩ := topo_exists ⟨P, g⟩
  exact ⟨_, schedOf_sched g hlin hinj⟩

end Metrics
end Graphiq
