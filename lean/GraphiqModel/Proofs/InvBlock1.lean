/-
  Proofs/InvBlock1.lean — the first ("Hadamard") block of `inverse_circuit` as repaired in graphiq 74abae4: the loop
  invariant `Inv1` (processed columns: x-bit matrix upper triangular, every placed row "X type" or "Z type"; unprocessed
  X pivot columns still unit vectors held by unplaced rows; the unplaced x-free rows generate every unit vector on the
  unprocessed non-pivot columns) is kept by every column step, the filtered candidate list `z_list` is never empty (no
  IndexError), and at the end the tableau has the shape `Post1` of Proofs/InvRest.lean.  All sizes.  No Mathlib.
-/
import GraphiqModel.Proofs.InvRest
import GraphiqModel.Proofs.CanonUnique
namespace Graphiq
open PRow Tab
namespace STab

/-- column `c` is one of the X pivot columns `px 0, …, px (k-1)` of the canonical form -/
def IsPiv (k : Nat) (px : Nat → Nat) (c : Nat) : Prop := ∃ a, a < k ∧ px a = c

/-- the loop invariant of block 1 before column `j` (rows `< j` are placed) -/
structure Inv1 (N k : Nat) (px : Nat → Nat) (t : STab) (j : Nat) : Prop where
  n_eq : t.n = N
  good : t.Good
  px_lt : ∀ a, a < k → px a < N
  inj : ∀ a a', a < k → a' < k → px a = px a' → a = a'
  upper : ∀ c i, c < j → c < i → i < N → xb t i c = false
  diag : ∀ c, c < j → c < N → xb t c c = true ∨ ZType t c
  piv : ∀ a, a < k → j ≤ px a → ∃ i, j ≤ i ∧ i < N ∧ xb t i (px a) = true ∧
      (∀ m, m < N → m ≠ i → xb t m (px a) = false) ∧ ∀ c, c < px a → xb t i c = false
  hold : ∀ i c, j ≤ i → i < N → c < N → xb t i c = true → ∃ a, a < k ∧ j ≤ px a ∧ xb t i (px a) = true
  surj : ∀ q, j ≤ q → q < N → ¬ IsPiv k px q → ∃ S : Nat → Bool,
      (∀ i, i < N → S i = true → j ≤ i ∧ ∀ c, c < N → xb t i c = false) ∧
      ∀ c, j ≤ c → c < N → ¬ IsPiv k px c → parityTo N (fun i => S i && zb t i c) = decide (c = q)

/-! ### small facts -/

theorem swp_invol (a b m : Nat) : swp a b (swp a b m) = m := by
  unfold swp
  by_cases h1 : m = a
  · subst h1; by_cases h2 : b = m <;> simp [h2]
  · by_cases h2 : m = b
    · subst h2; simp [h1]
    · simp [h1, h2]

theorem swp_eq_left (a b m : Nat) (h : swp a b m = a) : m = b := by
  have := swp_invol a b m; rw [h, swp_left] at this; exact this.symm

theorem parityTo_swp (n a b : Nat) (f : Nat → Bool) (ha : a < n) (hb : b < n) :
    parityTo n (fun m => f (swp a b m)) = parityTo n f := by
  rw [← parityTo_swap n a b f ha hb]
  apply parityTo_congr; intro m _
  unfold swp
  split
  · rfl
  · split <;> rfl

theorem parityTo_and_const (n : Nat) (b : Bool) (f : Nat → Bool) :
    parityTo n (fun i => b && f i) = (b && parityTo n f) := by
  cases b
  · simp [parityTo_false]
  · simp

/-- removing one index from the selecting set -/
theorem parityTo_remove (n j : Nat) (S g : Nat → Bool) (hj : j < n) :
    parityTo n (fun i => (S i && decide (i ≠ j)) && g i) = xor (parityTo n (fun i => S i && g i)) (S j && g j) := by
  have e : ∀ i, i < n → (S i && g i) = xor ((S i && decide (i ≠ j)) && g i) (decide (i = j) && (S i && g i)) := by
    intro i _
    by_cases h : i = j <;> simp [h]
  rw [parityTo_congr n (fun i => S i && g i) _ e, parityTo_xor, parityTo_single n j (fun i => S i && g i) hj]
  cases parityTo n (fun i => (S i && decide (i ≠ j)) && g i) <;> cases (S j && g j) <;> rfl

theorem ztype_congr (t t' : STab) (hn : t'.n = t.n) (c : Nat)
    (hx : ∀ c', c' < t.n → xb t' c c' = xb t c c') (hz : ∀ c', c' < t.n → zb t' c c' = zb t c c') (hc : c < t.n)
    (h : ZType t c) : ZType t' c := by
  refine ⟨fun c' hc' => ?_, ?_, fun c' h1 h2 => ?_⟩
  · rw [hn] at hc'; rw [hx c' hc']; exact h.1 c' hc'
  · rw [hz c hc]; exact h.2.1
  · rw [hn] at h2; rw [hz c' h2]; exact h.2.2 c' h1 h2

/-- on a non-pivot column no unplaced row has an x-bit -/
theorem Inv1.nox {N k : Nat} {px : Nat → Nat} {t : STab} {j : Nat} (h : Inv1 N k px t j) (hj : j < N)
    (hnp : ¬ IsPiv k px j) (m : Nat) (h1 : j ≤ m) (h2 : m < N) : xb t m j = false := by
  cases hx : xb t m j
  · rfl
  · exfalso
    obtain ⟨a, ha, hpa, hxa⟩ := h.hold m j h1 h2 hj hx
    obtain ⟨i, _, hi, _, hu, hl⟩ := h.piv a ha hpa
    have hmi : m = i := by
      apply Classical.byContradiction; intro hne
      rw [hu m h2 hne] at hxa; cases hxa
    subst hmi
    have : px a = j := by
      apply Classical.byContradiction; intro hne
      have := hl j (by omega); rw [this] at hx; cases hx
    exact hnp ⟨a, ha, this⟩

/-! ### a row swap of two unplaced rows keeps the invariant -/

theorem Inv1.swap {N k : Nat} {px : Nat → Nat} {st : InvState} {j : Nat} (h : Inv1 N k px st.t j) (f : Nat)
    (hj : j < N) (hjf : j ≤ f) (hf : f < N) : Inv1 N k px (st.swap j f).t j := by
  have hn := h.n_eq
  have ex : ∀ m c, m < N → c < N → xb (st.swap j f).t m c = xb st.t (swp j f m) c :=
    fun m c hm hc => swap_xb st j f m c (by omega) (by omega)
  have ez : ∀ m c, m < N → c < N → zb (st.swap j f).t m c = zb st.t (swp j f m) c :=
    fun m c hm hc => swap_zb st j f m c (by omega) (by omega)
  have hb : ∀ m, m < N → swp j f m < N := fun m hm => swp_bound j f m N hj hf hm
  refine ⟨hn, swap_good st j f (by omega) (by omega) h.good, h.px_lt, h.inj, ?_, ?_, ?_, ?_, ?_⟩
  · intro c i h1 h2 h3
    rw [ex i c h3 (by omega)]
    apply h.upper c _ h1 _ (hb i h3)
    by_cases hij : i < j
    · rw [swp_lt j f i hij hjf]; exact h2
    · have := swp_ge j f i (by omega) hjf; omega
  · intro c h1 h2
    have hsc : swp j f c = c := swp_lt j f c h1 hjf
    rcases h.diag c h1 h2 with h3 | h3
    · left; rw [ex c c h2 h2, hsc]; exact h3
    · right
      apply ztype_congr st.t (st.swap j f).t rfl c _ _ (by omega) h3
      · intro c' hc'; rw [ex c c' h2 (by omega), hsc]
      · intro c' hc'; rw [ez c c' h2 (by omega), hsc]
  · intro a ha hpa
    obtain ⟨i, hi1, hi2, hi3, hu, hl⟩ := h.piv a ha hpa
    have hp := h.px_lt a ha
    refine ⟨swp j f i, swp_ge j f i hi1 hjf, hb i hi2, ?_, ?_, ?_⟩
    · rw [ex _ _ (hb i hi2) hp, swp_invol]; exact hi3
    · intro m hm hne
      rw [ex m _ hm hp]
      apply hu _ (hb m hm)
      intro e; apply hne; rw [← e, swp_invol]
    · intro c hc
      rw [ex _ c (hb i hi2) (by omega), swp_invol]; exact hl c hc
  · intro i c h1 h2 h3 hx
    rw [ex i c h2 h3] at hx
    obtain ⟨a, ha, hpa, hxa⟩ := h.hold (swp j f i) c (swp_ge j f i h1 hjf) (hb i h2) h3 hx
    exact ⟨a, ha, hpa, by rw [ex i _ h2 (h.px_lt a ha)]; exact hxa⟩
  · intro q h1 h2 hnp
    obtain ⟨S, hS, hpar⟩ := h.surj q h1 h2 hnp
    refine ⟨fun i => S (swp j f i), ?_, ?_⟩
    · intro i hi hSi
      obtain ⟨g1, g2⟩ := hS (swp j f i) (hb i hi) hSi
      constructor
      · apply Classical.byContradiction; intro hlt
        rw [swp_lt j f i (by omega) hjf] at g1; omega
      · intro c hc; rw [ex i c hi hc]; exact g2 c hc
    · intro c hc1 hc2 hcnp
      rw [← hpar c hc1 hc2 hcnp, ← parityTo_swp N j f (fun i => S i && zb st.t i c) hj hf]
      apply parityTo_congr; intro i hi
      show (S (swp j f i) && zb (st.swap j f).t i c) = _
      rw [ez i c hi hc2]

/-! ### a pivot column -/

theorem Inv1.advance_pivot {N k : Nat} {px : Nat → Nat} {t : STab} {j : Nat} (h : Inv1 N k px t j) (hj : j < N)
    (a : Nat) (ha : a < k) (hpa : px a = j) (h1 : xb t j j = true) (hu : ∀ m, m < N → m ≠ j → xb t m j = false) :
    Inv1 N k px t (j + 1) := by
  refine ⟨h.n_eq, h.good, h.px_lt, h.inj, ?_, ?_, ?_, ?_, ?_⟩
  · intro c i hc1 hc2 hi
    by_cases e : c = j
    · subst e; exact hu i hi (by omega)
    · exact h.upper c i (by omega) hc2 hi
  · intro c hc1 hc2
    by_cases e : c = j
    · subst e; left; exact h1
    · exact h.diag c (by omega) hc2
  · intro a' ha' hpa'
    obtain ⟨i, hi1, hi2, hi3, hu', hl⟩ := h.piv a' ha' (by omega)
    refine ⟨i, ?_, hi2, hi3, hu', hl⟩
    apply Classical.byContradiction; intro hlt
    have e : i = j := by omega
    subst e
    have := hl i (by omega); rw [this] at h1; cases h1
  · intro i c hi1 hi2 hc hx
    obtain ⟨a', ha', hpa', hxa'⟩ := h.hold i c (by omega) hi2 hc hx
    refine ⟨a', ha', ?_, hxa'⟩
    apply Classical.byContradiction; intro hlt
    have e : px a' = j := by omega
    rw [e, hu i hi2 (by omega)] at hxa'; cases hxa'
  · intro q hq1 hq2 hnp
    obtain ⟨S, hS, hpar⟩ := h.surj q (by omega) hq2 hnp
    refine ⟨S, ?_, fun c hc1 hc2 hcnp => hpar c (by omega) hc2 hcnp⟩
    intro i hi hSi
    obtain ⟨g1, g2⟩ := hS i hi hSi
    refine ⟨?_, g2⟩
    apply Classical.byContradiction; intro hlt
    have e : i = j := by omega
    subst e
    rw [g2 i hi] at h1; cases h1

/-! ### a non-pivot column: the state after the swap and the clearing loop -/

/-- the state after the pivot row was swapped to position `j` and the column was cleared below it -/
structure Mid (N k : Nat) (px : Nat → Nat) (t : STab) (j : Nat) : Prop where
  n_eq : t.n = N
  good : t.Good
  px_lt : ∀ a, a < k → px a < N
  inj : ∀ a a', a < k → a' < k → px a = px a' → a = a'
  upper : ∀ c i, c < j → c < i → i < N → xb t i c = false
  diag : ∀ c, c < j → c < N → xb t c c = true ∨ ZType t c
  rowx : ∀ c, c < N → xb t j c = false
  rowz : zb t j j = true
  colx : ∀ i, j < i → i < N → xb t i j = false
  colz : ∀ i, j < i → i < N → zb t i j = false
  piv : ∀ a, a < k → j + 1 ≤ px a → ∃ i, j + 1 ≤ i ∧ i < N ∧ xb t i (px a) = true ∧
      (∀ m, m < N → m ≠ i → xb t m (px a) = false) ∧ ∀ c, c < px a → xb t i c = false
  hold : ∀ i c, j + 1 ≤ i → i < N → c < N → xb t i c = true → ∃ a, a < k ∧ j + 1 ≤ px a ∧ xb t i (px a) = true
  surj : ∀ q, j + 1 ≤ q → q < N → ¬ IsPiv k px q → ∃ S : Nat → Bool,
      (∀ i, i < N → S i = true → j + 1 ≤ i ∧ ∀ c, c < N → xb t i c = false) ∧
      ∀ c, j + 1 ≤ c → c < N → ¬ IsPiv k px c → parityTo N (fun i => S i && zb t i c) = decide (c = q)

/-- from the invariant (pivot row already at position `j`) to the state after the clearing loop -/
theorem Inv1.clear {N k : Nat} {px : Nat → Nat} {t t2 : STab} {j : Nat} (h : Inv1 N k px t j) (hj : j < N)
    (hnp : ¬ IsPiv k px j) (hrx : ∀ c, c < N → xb t j c = false) (hrz : zb t j j = true)
    (hn2 : t2.n = N) (hg2 : t2.Good)
    (ex : ∀ m c, m < N → c < N → xb t2 m c = xb t m c)
    (ez : ∀ m c, m < N → c < N → zb t2 m c
      = if j < m ∧ zb t m j = true then xor (zb t j c) (zb t m c) else zb t m c) : Mid N k px t2 j := by
  have hn := h.n_eq
  have ezlow : ∀ m c, m ≤ j → m < N → c < N → zb t2 m c = zb t m c := by
    intro m c h1 h2 h3
    rw [ez m c h2 h3, if_neg (by omega)]
  refine ⟨hn2, hg2, h.px_lt, h.inj, ?_, ?_, ?_, ?_, ?_, ?_, ?_, ?_, ?_⟩
  · intro c i h1 h2 h3; rw [ex i c h3 (by omega)]; exact h.upper c i h1 h2 h3
  · intro c h1 h2
    rcases h.diag c h1 h2 with h3 | h3
    · left; rw [ex c c h2 h2]; exact h3
    · right
      apply ztype_congr t t2 (by omega) c _ _ (by omega) h3
      · intro c' hc'; exact ex c c' h2 (by omega)
      · intro c' hc'; exact ezlow c c' (by omega) h2 (by omega)
  · intro c hc; rw [ex j c hj hc]; exact hrx c hc
  · rw [ezlow j j (Nat.le_refl _) hj hj]; exact hrz
  · intro i h1 h2; rw [ex i j h2 hj]; exact h.nox hj hnp i (by omega) h2
  · intro i h1 h2
    rw [ez i j h2 hj]
    cases hz : zb t i j
    · simp
    · simp [h1, hrz]
  · intro a ha hpa
    obtain ⟨i, hi1, hi2, hi3, hu, hl⟩ := h.piv a ha (by omega)
    have hp := h.px_lt a ha
    refine ⟨i, ?_, hi2, by rw [ex i _ hi2 hp]; exact hi3, fun m hm hne => by rw [ex m _ hm hp]; exact hu m hm hne,
      fun c hc => by rw [ex i c hi2 (by omega)]; exact hl c hc⟩
    apply Classical.byContradiction; intro hlt
    have e : i = j := by omega
    subst e
    rw [hrx _ hp] at hi3; cases hi3
  · intro i c h1 h2 h3 hx
    rw [ex i c h2 h3] at hx
    obtain ⟨a, ha, hpa, hxa⟩ := h.hold i c (by omega) h2 h3 hx
    refine ⟨a, ha, ?_, by rw [ex i _ h2 (h.px_lt a ha)]; exact hxa⟩
    apply Classical.byContradiction; intro hlt
    exact hnp ⟨a, ha, by omega⟩
  · intro q hq1 hq2 hqnp
    obtain ⟨S, hS, hpar⟩ := h.surj q (by omega) hq2 hqnp
    refine ⟨fun i => S i && decide (i ≠ j), ?_, ?_⟩
    · intro i hi hSi
      simp only [Bool.and_eq_true, decide_eq_true_eq] at hSi
      obtain ⟨g1, g2⟩ := hS i hi hSi.1
      exact ⟨by omega, fun c hc => by rw [ex i c hi hc]; exact g2 c hc⟩
    · intro c hc1 hc2 hcnp
      -- split the z-bits of the cleared rows into the old bits and the contribution of the pivot row
      have e : ∀ i, i < N → ((S i && decide (i ≠ j)) && zb t2 i c)
          = xor ((S i && decide (i ≠ j)) && zb t i c) (zb t j c && ((S i && decide (i ≠ j)) && zb t i j)) := by
        intro i hi
        by_cases hSi : (S i && decide (i ≠ j)) = true
        · have hSi' := hSi
          simp only [Bool.and_eq_true, decide_eq_true_eq] at hSi'
          have hji : j < i := by have := (hS i hi hSi'.1).1; omega
          rw [hSi, ez i c hi hc2]
          cases hz : zb t i j
          · simp
          · simp [hji, Bool.xor_comm]
        · have : (S i && decide (i ≠ j)) = false := by
            cases hh : (S i && decide (i ≠ j))
            · rfl
            · exact absurd hh hSi
          rw [this]; simp
      rw [parityTo_congr N _ _ e, parityTo_xor, parityTo_and_const,
        parityTo_remove N j S (fun i => zb t i c) hj, parityTo_remove N j S (fun i => zb t i j) hj,
        hpar c (by omega) hc2 hcnp, hpar j (Nat.le_refl _) hj hnp, hrz]
      have hjq : decide (j = q) = false := by simp; omega
      rw [hjq]
      cases decide (c = q) <;> cases S j <;> cases zb t j c <;> rfl

/-- no Hadamard: the pivot row is a Z-type row -/
theorem Mid.noH {N k : Nat} {px : Nat → Nat} {t : STab} {j : Nat} (h : Mid N k px t j) (hj : j < N)
    (hr : ∀ c, j < c → c < N → xb t j c = false ∧ zb t j c = false) : Inv1 N k px t (j + 1) := by
  refine ⟨h.n_eq, h.good, h.px_lt, h.inj, ?_, ?_, h.piv, h.hold, h.surj⟩
  · intro c i hc1 hc2 hi
    by_cases e : c = j
    · subst e; exact h.colx i hc2 hi
    · exact h.upper c i (by omega) hc2 hi
  · intro c hc1 hc2
    by_cases e : c = j
    · subst e; right
      exact ⟨fun c' hc' => h.rowx c' (by rw [← h.n_eq]; exact hc'), h.rowz,
        fun c' h1 h2 => (hr c' h1 (by rw [← h.n_eq]; exact h2)).2⟩
    · exact h.diag c (by omega) hc2

/-- a Hadamard on column `j`: the pivot row becomes an X-type row -/
theorem Mid.withH {N k : Nat} {px : Nat → Nat} {st : InvState} {j : Nat} (h : Mid N k px st.t j) (hj : j < N) :
    Inv1 N k px (st.gate (.H j)).t (j + 1) := by
  have hn := h.n_eq
  have ex : ∀ m c, m < N → c < N → xb (st.gate (.H j)).t m c = if c = j then zb st.t m c else xb st.t m c := by
    intro m c hm hc
    rw [gate_xb st _ m c (by omega) (by omega)]; exact h_x j _ c
  have ez : ∀ m c, m < N → c < N → zb (st.gate (.H j)).t m c = if c = j then xb st.t m c else zb st.t m c := by
    intro m c hm hc
    rw [gate_zb st _ m c (by omega) (by omega)]; exact h_z j _ c
  refine ⟨hn, gate_good st _ (by show j < st.t.n; omega) h.good, h.px_lt, h.inj, ?_, ?_, ?_, ?_, ?_⟩
  · intro c i hc1 hc2 hi
    rw [ex i c hi (by omega)]
    split
    · next e => subst e; exact h.colz i hc2 hi
    · next e => exact h.upper c i (by omega) hc2 hi
  · intro c hc1 hc2
    by_cases e : c = j
    · subst e; left; rw [ex c c hc2 hc2, if_pos rfl]; exact h.rowz
    · rcases h.diag c (by omega) hc2 with h3 | h3
      · left; rw [ex c c hc2 hc2, if_neg e]; exact h3
      · right
        have hcj : c < j := by omega
        refine ⟨fun c' hc' => ?_, ?_, fun c' h1 h2 => ?_⟩
        · have hc'' : c' < N := by rw [← hn]; exact hc'
          rw [ex c c' hc2 hc'']
          split
          · next e' => subst e'; exact h3.2.2 c' hcj (by omega)
          · exact h3.1 c' (by omega)
        · rw [ez c c hc2 hc2, if_neg e]; exact h3.2.1
        · have hc'' : c' < N := by rw [← hn]; exact h2
          rw [ez c c' hc2 hc'']
          split
          · exact h3.1 c' (by omega)
          · exact h3.2.2 c' h1 (by omega)
  · intro a ha hpa
    obtain ⟨i, hi1, hi2, hi3, hu, hl⟩ := h.piv a ha hpa
    have hp := h.px_lt a ha
    have hne : px a ≠ j := by omega
    refine ⟨i, hi1, hi2, by rw [ex i _ hi2 hp, if_neg hne]; exact hi3,
      fun m hm hmi => by rw [ex m _ hm hp, if_neg hne]; exact hu m hm hmi, fun c hc => ?_⟩
    rw [ex i c hi2 (by omega)]
    split
    · next e => subst e; exact h.colz i (by omega) hi2
    · exact hl c hc
  · intro i c hi1 hi2 hc hx
    rw [ex i c hi2 hc] at hx
    by_cases e : c = j
    · subst e; rw [if_pos rfl, h.colz i (by omega) hi2] at hx; cases hx
    · rw [if_neg e] at hx
      obtain ⟨a, ha, hpa, hxa⟩ := h.hold i c hi1 hi2 hc hx
      have hne : px a ≠ j := by omega
      exact ⟨a, ha, hpa, by rw [ex i _ hi2 (h.px_lt a ha), if_neg hne]; exact hxa⟩
  · intro q hq1 hq2 hqnp
    obtain ⟨S, hS, hpar⟩ := h.surj q hq1 hq2 hqnp
    refine ⟨S, ?_, ?_⟩
    · intro i hi hSi
      obtain ⟨g1, g2⟩ := hS i hi hSi
      refine ⟨g1, fun c hc => ?_⟩
      rw [ex i c hi hc]
      split
      · next e => subst e; exact h.colz i (by omega) hi
      · exact g2 c hc
    · intro c hc1 hc2 hcnp
      rw [← hpar c hc1 hc2 hcnp]
      apply parityTo_congr; intro i hi
      have hne : c ≠ j := by omega
      show (S i && zb (st.gate (.H j)).t i c) = _
      rw [ez i c hi hc2, if_neg hne]

/-! ### the clearing loop -/

theorem invClear_spec (N j : Nat) (st : InvState) (hn : st.t.n = N) (hj : j < N) (hg : st.t.Good)
    (hx : ∀ c, c < N → xb st.t j c = false) :
    (invClear N j st).t.n = N ∧ (invClear N j st).t.Good ∧
    (∀ m c, m < N → c < N → xb (invClear N j st).t m c = xb st.t m c) ∧
    (∀ m c, m < N → c < N → zb (invClear N j st).t m c
      = if j < m ∧ zb st.t m j = true then xor (zb st.t j c) (zb st.t m c) else zb st.t m c) := by
  unfold invClear
  have key := foldl_above_inv (fun (acc : InvState) i => if (acc.t.row i).z j then acc.rsum j i else acc) j N hj
    (fun i' s => s.t.n = N ∧ s.t.Good ∧ (∀ m c, m < N → c < N → xb s.t m c = xb st.t m c) ∧
      (∀ m c, m < N → c < N → zb s.t m c
        = if (j < m ∧ m < i') ∧ zb st.t m j = true then xor (zb st.t j c) (zb st.t m c) else zb st.t m c)) st
    ⟨hn, hg, fun _ _ _ _ => rfl, fun m c _ _ => by rw [if_neg (by omega)]⟩
    (by
      intro i s h1 h2 ⟨sn, sg, sx, sz⟩
      have hzi : (s.t.row i).z j = zb st.t i j := by
        have := sz i j h2 hj; rw [if_neg (by omega)] at this; exact this
      split
      · next hc =>
        rw [hzi] at hc
        refine ⟨sn, rsum_good s j i (by omega) (by omega) sg, ?_, ?_⟩
        · intro m c hm hc'
          rw [rsum_xb s j i m c (by omega) (by omega)]
          split
          · next e => subst e; rw [sx j c hj hc', sx m c hm hc', hx c hc']; simp
          · exact sx m c hm hc'
        · intro m c hm hc'
          rw [rsum_zb s j i m c (by omega) (by omega)]
          split
          · next e =>
            subst e
            rw [sz j c hj hc', sz m c hm hc', if_neg (by omega), if_neg (by omega), if_pos ⟨⟨h1, by omega⟩, hc⟩]
          · next e =>
            rw [sz m c hm hc']
            by_cases hm' : (j < m ∧ m < i) ∧ zb st.t m j = true
            · rw [if_pos hm', if_pos ⟨⟨hm'.1.1, by omega⟩, hm'.2⟩]
            · rw [if_neg hm', if_neg (by intro hh; apply hm'; exact ⟨⟨hh.1.1, by omega⟩, hh.2⟩)]
      · next hc =>
        rw [hzi] at hc
        refine ⟨sn, sg, sx, ?_⟩
        intro m c hm hc'
        rw [sz m c hm hc']
        by_cases hm' : (j < m ∧ m < i) ∧ zb st.t m j = true
        · rw [if_pos hm', if_pos ⟨⟨hm'.1.1, by omega⟩, hm'.2⟩]
        · rw [if_neg hm', if_neg (by
            intro hh; apply hm'
            refine ⟨⟨hh.1.1, ?_⟩, hh.2⟩
            have : m ≠ i := by intro e; subst e; exact hc hh.2
            omega)])
  obtain ⟨k1, k2, k3, k4⟩ := key
  refine ⟨k1, k2, k3, ?_⟩
  intro m c hm hc
  rw [k4 m c hm hc]
  by_cases hm' : j < m ∧ zb st.t m j = true
  · rw [if_pos hm', if_pos ⟨⟨hm'.1, hm⟩, hm'.2⟩]
  · rw [if_neg hm', if_neg (by intro hh; exact hm' ⟨hh.1.1, hh.2⟩)]

theorem invClear_circ (N j : Nat) (st : InvState) : (invClear N j st).circ = st.circ := by
  unfold invClear
  generalize (List.range N).filter (fun i => j < i) = l
  induction l generalizing st with
  | nil => rfl
  | cons a l ih =>
    simp only [List.foldl]
    rw [ih]
    split
    · rfl
    · rfl

/-! ### which branch a column step takes -/

theorem mem_zs3 (t : STab) (pr j m : Nat) :
    m ∈ (t.pauliTypeFinder pr j).2.2 ↔ (pr ≤ m ∧ m < t.n ∧ t.ptype m j = 3) := by
  simp only [pauliTypeFinder, List.mem_filter, List.mem_range, decide_eq_true_eq]
  constructor
  · intro h; exact ⟨h.1.2, h.1.1, h.2⟩
  · intro h; exact ⟨⟨h.2.1, h.1⟩, h.2.2⟩

/-- a pivot column: the unique row with an x-bit in column `j` is swapped to position `j` -/
theorem invStep1_pivot (N : Nat) (st : InvState) (j i : Nat) (hn : st.t.n = N) (hji : j ≤ i) (hi : i < N)
    (h1 : xb st.t i j = true) (hu : ∀ m, m < N → m ≠ i → xb st.t m j = false) :
    invStep1 N st j = .ok (st.swap j i) := by
  have hxs := mem_xs st.t j j
  have hys := mem_ys st.t j j
  unfold invStep1
  generalize st.t.pauliTypeFinder j j = ft at hxs hys
  obtain ⟨xs, ys, zs⟩ := ft
  simp only at hxs hys ⊢
  have only_i : ∀ f, (f ∈ xs ∨ f ∈ ys) → f = i := by
    intro f hf
    have hf' : f < N ∧ xb st.t f j = true := by
      rcases hf with hf | hf
      · have := (hxs f).1 hf
        exact ⟨by omega, (ptype_x st.t f j).1 (Or.inl this.2.2)⟩
      · have := (hys f).1 hf
        exact ⟨by omega, (ptype_x st.t f j).1 (Or.inr this.2.2)⟩
    apply Classical.byContradiction; intro hne
    rw [hu f hf'.1 hne] at hf'; cases hf'.2
  cases hxh : xs.head? with
  | some f => simp only; rw [only_i f (Or.inl (List.mem_of_mem_head? hxh))]
  | none =>
    simp only
    cases hyh : ys.head? with
    | some f => simp only; rw [only_i f (Or.inr (List.mem_of_mem_head? hyh))]
    | none =>
      exfalso
      have e1 : xs = [] := List.head?_eq_none_iff.mp hxh
      have e2 : ys = [] := List.head?_eq_none_iff.mp hyh
      rcases (ptype_x st.t i j).2 h1 with h | h
      · have := (hxs i).2 ⟨hji, by omega, h⟩; rw [e1] at this; cases this
      · have := (hys i).2 ⟨hji, by omega, h⟩; rw [e2] at this; cases this

/-- a non-pivot column: some x-free unplaced row with a z-bit in column `j` is swapped to position `j`, the column is
    cleared below it, and a Hadamard is applied unless the row is already alone to its right -/
theorem invStep1_nonpivot (N : Nat) (st : InvState) (j : Nat) (hn : st.t.n = N) (hj : j < N)
    (h0 : ∀ m, j ≤ m → m < N → xb st.t m j = false)
    (hex : ∃ i, j ≤ i ∧ i < N ∧ (∀ c, c < N → xb st.t i c = false) ∧ zb st.t i j = true) :
    ∃ f, j ≤ f ∧ f < N ∧ (∀ c, c < N → xb st.t f c = false) ∧ zb st.t f j = true ∧
      invStep1 N st j = .ok
        (if (((List.range N).filter fun k => j < k).any fun k =>
            ((invClear N j (st.swap j f)).t.row j).x k || ((invClear N j (st.swap j f)).t.row j).z k) = true
         then (invClear N j (st.swap j f)).gate (.H j) else invClear N j (st.swap j f)) := by
  have hxs := mem_xs st.t j j
  have hys := mem_ys st.t j j
  have hzs := mem_zs3 st.t j j
  unfold invStep1
  generalize st.t.pauliTypeFinder j j = ft at hxs hys hzs
  obtain ⟨xs, ys, zs⟩ := ft
  simp only at hxs hys hzs ⊢
  have e1 : xs = [] := by
    cases xs with
    | nil => rfl
    | cons a l =>
      have := (hxs a).1 List.mem_cons_self
      have hx := (ptype_x st.t a j).1 (Or.inl this.2.2)
      rw [show (st.t.row a).x j = xb st.t a j from rfl, h0 a this.1 (by omega)] at hx; cases hx
  have e2 : ys = [] := by
    cases ys with
    | nil => rfl
    | cons a l =>
      have := (hys a).1 List.mem_cons_self
      have hx := (ptype_x st.t a j).1 (Or.inr this.2.2)
      rw [show (st.t.row a).x j = xb st.t a j from rfl, h0 a this.1 (by omega)] at hx; cases hx
  subst e1; subst e2
  simp only [List.head?_nil]
  obtain ⟨i, hi1, hi2, hi3, hi4⟩ := hex
  have hiz : i ∈ zs := (hzs i).2 ⟨hi1, by omega, (ptype_z st.t i j).2 ⟨hi3 j hj, hi4⟩⟩
  have hne : zs.isEmpty = false := by
    cases zs with
    | nil => cases hiz
    | cons a l => rfl
  rw [hne]
  simp only [Bool.false_eq_true, if_false]
  have hif : i ∈ zs.filter (fun i => !(List.range N).any fun k => (st.t.row i).x k) := by
    rw [List.mem_filter]
    refine ⟨hiz, ?_⟩
    simp only [Bool.not_eq_true', List.any_eq_false, List.mem_range]
    intro c hc; rw [show (st.t.row i).x c = xb st.t i c from rfl, hi3 c hc]; simp
  cases hl : (zs.filter (fun i => !(List.range N).any fun k => (st.t.row i).x k)).getLast? with
  | none =>
    rw [List.getLast?_eq_none_iff] at hl
    rw [hl] at hif; cases hif
  | some f =>
    simp only
    have hfm := List.mem_of_getLast? hl
    rw [List.mem_filter] at hfm
    obtain ⟨hfz, hfx⟩ := hfm
    have hf := (hzs f).1 hfz
    have hpt := (ptype_z st.t f j).1 hf.2.2
    simp only [Bool.not_eq_true', List.any_eq_false, List.mem_range] at hfx
    refine ⟨f, hf.1, by omega, ?_, hpt.2, rfl⟩
    intro c hc
    have := hfx c hc
    cases hh : xb st.t f c
    · rfl
    · rw [show (st.t.row f).x c = xb st.t f c from rfl, hh] at this; exact absurd rfl this

/-! ### one column step keeps the invariant and never raises -/

theorem inv1_step (N k : Nat) (px : Nat → Nat) (st : InvState) (j : Nat) (hj : j < N) (h : Inv1 N k px st.t j) :
    ∃ st', invStep1 N st j = .ok st' ∧ Inv1 N k px st'.t (j + 1) := by
  have hn := h.n_eq
  by_cases hp : IsPiv k px j
  · -- pivot column
    obtain ⟨a, ha, hpa⟩ := hp
    obtain ⟨i, hi1, hi2, hi3, hu, _⟩ := h.piv a ha (by omega)
    rw [hpa] at hi3 hu
    refine ⟨st.swap j i, invStep1_pivot N st j i hn hi1 hi2 hi3 hu, ?_⟩
    have hs := h.swap i hj hi1 hi2
    have ex : ∀ m c, m < N → c < N → xb (st.swap j i).t m c = xb st.t (swp j i m) c :=
      fun m c hm hc => swap_xb st j i m c (by omega) (by omega)
    apply hs.advance_pivot hj a ha hpa
    · rw [ex j j hj hj, swp_left]; exact hi3
    · intro m hm hne
      rw [ex m j hm hj]
      apply hu _ (swp_bound j i m N hj hi2 hm)
      intro e; apply hne; rw [← swp_invol j i m, e]
      unfold swp; by_cases e' : i = j <;> simp [e']
  · -- non-pivot column
    have hnox := fun m h1 h2 => h.nox hj hp m h1 h2
    have hex : ∃ i, j ≤ i ∧ i < N ∧ (∀ c, c < N → xb st.t i c = false) ∧ zb st.t i j = true := by
      obtain ⟨S, hS, hpar⟩ := h.surj j (Nat.le_refl _) hj hp
      have := hpar j (Nat.le_refl _) hj hp
      simp only [decide_true] at this
      obtain ⟨i, hi, hb⟩ := parityTo_exists N _ this
      simp only [Bool.and_eq_true] at hb
      obtain ⟨g1, g2⟩ := hS i hi hb.1
      exact ⟨i, g1, hi, g2, hb.2⟩
    obtain ⟨f, hf1, hf2, hf3, hf4, hstep⟩ := invStep1_nonpivot N st j hn hj hnox hex
    have hs := h.swap f hj hf1 hf2
    have ex : ∀ m c, m < N → c < N → xb (st.swap j f).t m c = xb st.t (swp j f m) c :=
      fun m c hm hc => swap_xb st j f m c (by omega) (by omega)
    have ez : ∀ m c, m < N → c < N → zb (st.swap j f).t m c = zb st.t (swp j f m) c :=
      fun m c hm hc => swap_zb st j f m c (by omega) (by omega)
    have hrx : ∀ c, c < N → xb (st.swap j f).t j c = false := by
      intro c hc; rw [ex j c hj hc, swp_left]; exact hf3 c hc
    have hrz : zb (st.swap j f).t j j = true := by rw [ez j j hj hj, swp_left]; exact hf4
    obtain ⟨c1, c2, c3, c4⟩ := invClear_spec N j (st.swap j f) hn hj hs.good hrx
    have hmid : Mid N k px (invClear N j (st.swap j f)).t j := hs.clear hj hp hrx hrz c1 c2 c3 c4
    rw [hstep]
    split
    · exact ⟨_, rfl, hmid.withH hj⟩
    · next hc =>
      refine ⟨_, rfl, hmid.noH hj ?_⟩
      intro c hc1 hc2
      have hc' : (((List.range N).filter fun k => j < k).any fun k =>
            ((invClear N j (st.swap j f)).t.row j).x k || ((invClear N j (st.swap j f)).t.row j).z k) = false := by
        cases hh : (((List.range N).filter fun k => j < k).any fun k =>
            ((invClear N j (st.swap j f)).t.row j).x k || ((invClear N j (st.swap j f)).t.row j).z k)
        · rfl
        · exact absurd hh hc
      rw [List.any_eq_false] at hc'
      have := hc' c (by simp [hc1, hc2])
      simp only [Bool.or_eq_true, not_or, Bool.not_eq_true] at this
      exact this

/-! ### the whole block -/

theorem foldlM_range_inv {σ : Type} (f : σ → Nat → Except Err σ) (P : Nat → σ → Prop) (n : Nat) (s0 : σ) (h0 : P 0 s0)
    (hs : ∀ i s, i < n → P i s → ∃ s', f s i = .ok s' ∧ P (i + 1) s') :
    ∃ s, (List.range n).foldlM f s0 = .ok s ∧ P n s := by
  have key : ∀ m, m ≤ n → ∃ s, (List.range m).foldlM f s0 = .ok s ∧ P m s := by
    intro m
    induction m with
    | zero => intro _; exact ⟨s0, rfl, h0⟩
    | succ k ih =>
      intro hk
      obtain ⟨s, e, hp⟩ := ih (by omega)
      obtain ⟨s', e', hp'⟩ := hs k s (by omega) hp
      refine ⟨s', ?_, hp'⟩
      rw [List.range_succ, List.foldlM_append, e]
      show List.foldlM f s [k] = _
      rw [List.foldlM_cons, e']
      rfl
  exact key n (Nat.le_refl _)

/-- **block 1 returns, and establishes the shape `Post1`**, from the invariant at column 0 -/
theorem invBlock1_post (t0 : STab) (k : Nat) (px : Nat → Nat) (h : Inv1 t0.n k px t0 0) :
    ∃ s1, invBlock1 t0 = .ok s1 ∧ s1.t.n = t0.n ∧ s1.t.Good ∧ Post1 s1.t := by
  unfold invBlock1
  obtain ⟨s1, e, hp⟩ := foldlM_range_inv (invStep1 t0.n) (fun j s => Inv1 t0.n k px s.t j) t0.n
    { t := t0, circ := [] } h (fun j s hj hq => inv1_step t0.n k px s j hj hq)
  refine ⟨s1, e, hp.n_eq, hp.good, ?_, ?_⟩
  · intro c i h1 h2; rw [hp.n_eq] at h2; exact hp.upper c i (by omega) h1 h2
  · intro c hc; rw [hp.n_eq] at hc; exact hp.diag c hc hc

end STab
end Graphiq
