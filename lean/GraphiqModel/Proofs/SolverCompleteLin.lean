/-
  Proofs/SolverCompleteLin.lean — GF(2) linear algebra for the completeness argument of the time-reversed solver (C02):
  linear independence of the generators (`LinIndep`) and the rank of the generator matrix restricted to the columns `0..k`
  (`cutRank`) are invariants of the signed group; gates keep independence; gates acting right of a cut keep the cut rank;
  the link with the height function; the starting tableau `target ⊗ |0…0⟩` of the solver and its emitter budget.
-/
import Mathlib.LinearAlgebra.FiniteDimensional.Basic
import Mathlib.LinearAlgebra.FiniteDimensional.Lemmas
import Mathlib.Algebra.Field.ZMod
import GraphiqModel.Proofs.HeightEntropy
import GraphiqModel.Proofs.HeightTotal
import GraphiqModel.Proofs.SolverSoundMain
import GraphiqModel.Proofs.SolverCompleteDefs
namespace Graphiq
open Module

/-! ### rows from bit vectors -/

/-- a row (phase `+1`) with prescribed bits below `n` -/
def ofVec {n : Nat} (v : PVec n) : PRow :=
  { x := fun j => if h : j < n then decide ((v ⟨j, h⟩).1 = 1) else false
    z := fun j => if h : j < n then decide ((v ⟨j, h⟩).2 = 1) else false
    r := false
    ip := false }

theorem vec_ofVec {n : Nat} (v : PVec n) : (ofVec v).vec n = v := by
  funext j
  simp only [PRow.vec, ofVec, dif_pos j.isLt, b2z_decide_eq_one]

theorem b2z_inj_lin (a b : Bool) (h : b2z a = b2z b) : a = b := by
  revert h; cases a <;> cases b <;> decide

theorem sameBits_of_vec_eq (n : Nat) (a b : PRow) (h : a.vec n = b.vec n) : PRow.SameBits n a b := by
  intro j hj
  have := congrFun h ⟨j, hj⟩
  simp only [PRow.vec, Prod.mk.injEq] at this
  exact ⟨b2z_inj_lin _ _ this.1, b2z_inj_lin _ _ this.2⟩

theorem ofVec_vec (n : Nat) (p : PRow) : PRow.SameBits n (ofVec (p.vec n)) p :=
  sameBits_of_vec_eq n _ _ (vec_ofVec _)

theorem sameBits_of_eqOn (n : Nat) (a b : PRow) (h : PRow.EqOn n a b) : PRow.SameBits n a b := h.1

/-! ### the bits of a gate image depend only on the bits -/

theorem h_sameBits (n q : Nat) (hq : q < n) (a b : PRow) (hab : PRow.SameBits n a b) :
    PRow.SameBits n (PRow.h q a) (PRow.h q b) := by
  intro j hj
  have h1 := hab j hj
  have h2 := hab q hq
  simp only [PRow.h]
  by_cases e : j = q
  · simp only [e, if_true]; exact ⟨h2.2, h2.1⟩
  · simp only [e, if_false]; exact h1

theorem s_sameBits (n q : Nat) (hq : q < n) (a b : PRow) (hab : PRow.SameBits n a b) :
    PRow.SameBits n (PRow.s q a) (PRow.s q b) := by
  intro j hj
  have h1 := hab j hj
  have h2 := hab q hq
  simp only [PRow.s]
  by_cases e : j = q
  · simp only [e, if_true]; exact ⟨h2.1, by rw [h2.1, h2.2]⟩
  · simp only [e, if_false]; exact h1

theorem cnot_sameBits (n c t : Nat) (hc : c < n) (ht : t < n) (a b : PRow) (hab : PRow.SameBits n a b) :
    PRow.SameBits n (PRow.cnot c t a) (PRow.cnot c t b) := by
  intro j hj
  have h1 := hab j hj
  have h2 := hab c hc
  have h3 := hab t ht
  simp only [PRow.cnot]
  refine ⟨?_, ?_⟩
  · by_cases e : j = t
    · simp only [e, if_true]; rw [h3.1, h2.1]
    · simp only [e, if_false]; exact h1.1
  · by_cases e : j = c
    · simp only [e, if_true]; rw [h3.2, h2.2]
    · simp only [e, if_false]; exact h1.2

theorem Gate.act_sameBits (n : Nat) (G : Gate) (hG : G.WF n) (a b : PRow) (hab : PRow.SameBits n a b) :
    PRow.SameBits n (G.act a) (G.act b) := by
  cases G with
  | H q => exact h_sameBits n q hG a b hab
  | P q => exact s_sameBits n q hG a b hab
  | Pdag q => exact s_sameBits n q hG _ _ (s_sameBits n q hG _ _ (s_sameBits n q hG a b hab))
  | X q =>
    exact h_sameBits n q hG _ _ (s_sameBits n q hG _ _ (s_sameBits n q hG _ _ (h_sameBits n q hG a b hab)))
  | Y q =>
    exact s_sameBits n q hG _ _ (h_sameBits n q hG _ _ (s_sameBits n q hG _ _ (s_sameBits n q hG _ _
      (h_sameBits n q hG _ _ (s_sameBits n q hG _ _ (s_sameBits n q hG _ _ (s_sameBits n q hG a b hab)))))))
  | Z q => exact s_sameBits n q hG _ _ (s_sameBits n q hG a b hab)
  | I q => exact hab
  | CNOT c t => exact cnot_sameBits n c t hG.1 hG.2.1 a b hab
  | CZ c t =>
    exact h_sameBits n t hG.2.1 _ _ (cnot_sameBits n c t hG.1 hG.2.1 _ _ (h_sameBits n t hG.2.1 a b hab))

/-- the GF(2)-linear map a well-formed gate induces on bit vectors -/
noncomputable def gateLin (n : Nat) (G : Gate) (hG : G.WF n) : PVec n →ₗ[ZMod 2] PVec n where
  toFun v := (G.act (ofVec v)).vec n
  map_add' a b := by
    have e1 : PRow.SameBits n (ofVec (a + b)) (PRow.mul n (ofVec a) (ofVec b)) :=
      sameBits_of_vec_eq n _ _ (by rw [PRow.vec_mul, vec_ofVec, vec_ofVec, vec_ofVec])
    rw [PRow.vec_congr n _ _ (Gate.act_sameBits n G hG _ _ e1),
      PRow.vec_congr n _ _ ((G.isAut n hG).mul (ofVec a) (ofVec b)).1, PRow.vec_mul]
  map_smul' c a := by
    rcases zmod2_cases c with h | h
    · subst h
      have e1 : PRow.SameBits n (ofVec ((0 : ZMod 2) • a)) PRow.one :=
        sameBits_of_vec_eq n _ _ (by rw [vec_ofVec, PRow.vec_one, zero_smul])
      rw [PRow.vec_congr n _ _ (Gate.act_sameBits n G hG _ _ e1), PRow.vec_congr n _ _ (Gate.act_one n G).1,
        PRow.vec_one]
      simp
    · subst h
      simp

theorem gateLin_apply (n : Nat) (G : Gate) (hG : G.WF n) (p : PRow) :
    (G.act p).vec n = gateLin n G hG (p.vec n) :=
  PRow.vec_congr n _ _ (Gate.act_sameBits n G hG _ _ (fun j hj => ⟨((ofVec_vec n p) j hj).1.symm, ((ofVec_vec n p) j hj).2.symm⟩))

theorem gateLin_rev (n : Nat) (G : Gate) (hG : G.WF n) (v : PVec n) :
    gateLin n G.rev (Gate.rev_WF n G hG) (gateLin n G hG v) = v := by
  show (G.rev.act (ofVec ((G.act (ofVec v)).vec n))).vec n = v
  rw [PRow.vec_congr n _ _ (Gate.act_sameBits n G.rev (Gate.rev_WF n G hG) _ _ (ofVec_vec n _)),
    PRow.vec_congr n _ _ (Gate.rev_cancel n G hG (ofVec v)).1, vec_ofVec]

theorem gateLin_ker (n : Nat) (G : Gate) (hG : G.WF n) : LinearMap.ker (gateLin n G hG) = ⊥ := by
  apply LinearMap.ker_eq_bot_of_injective
  exact Function.LeftInverse.injective (gateLin_rev n G hG)

namespace STab

/-- the generators are linearly independent over GF(2) (a valid stabilizer tableau) -/
def LinIndep (t : STab) : Prop := LinearIndependent (ZMod 2) (fun i : Fin t.n => (t.row i).vec t.n)

/-- rank of the generator matrix restricted to the columns `0..k` (x- and z-parts) -/
noncomputable def cutRank (t : STab) (k : Nat) : Nat := Module.finrank (ZMod 2) ↥(t.gspace.map (cutLin t.n k))

theorem indep_iff_finrank (t : STab) : t.LinIndep ↔ finrank (ZMod 2) ↥t.gspace = t.n := by
  unfold LinIndep
  rw [linearIndependent_iff_card_eq_finrank_span, Fintype.card_fin]
  exact eq_comm

/-- (1) same signed group ⇒ still independent -/
theorem indep_of_spanEq (t t' : STab) (h : SpanEq t t') (hi : t.LinIndep) : t'.LinIndep := by
  obtain ⟨hn, h1, h2⟩ := h
  obtain ⟨n, row⟩ := t
  obtain ⟨n', row'⟩ := t'
  simp only at hn
  subst hn
  have e : (STab.mk n row).gspace = (STab.mk n row').gspace :=
    gspaceOf_eq_of_inSpan n row row' (fun p => ⟨h1 p, h2 p⟩)
  rw [indep_iff_finrank] at hi ⊢
  rw [← e]; exact hi

/-- tabulation does not change the bit vectors of the generators -/
theorem norm_vec (t : STab) (i : Nat) (hi : i < t.n) : (t.norm.row i).vec t.n = (t.row i).vec t.n :=
  PRow.vec_congr _ _ _ (norm_row t i hi).1

/-- (2) a well-formed gate keeps independence -/
theorem indep_gate (t : STab) (G : Gate) (hG : G.WF t.n) (hi : t.LinIndep) : ((t.applyGate G).norm).LinIndep := by
  have h1 := LinearIndependent.map' hi (gateLin t.n G hG) (gateLin_ker t.n G hG)
  have e : (fun i : Fin ((t.applyGate G).norm).n => (((t.applyGate G).norm).row i).vec ((t.applyGate G).norm).n)
      = (gateLin t.n G hG) ∘ (fun i : Fin t.n => (t.row i).vec t.n) := by
    funext i
    show (((t.applyGate G).norm).row i).vec t.n = gateLin t.n G hG ((t.row i).vec t.n)
    rw [← gateLin_apply]
    exact norm_vec (t.applyGate G) i.val i.isLt
  unfold LinIndep
  rw [e]
  exact h1

/-- (3) cutRank depends only on the group -/
theorem cutRank_spanEq (t t' : STab) (h : SpanEq t t') (k : Nat) : t'.cutRank k = t.cutRank k := by
  obtain ⟨hn, h1, h2⟩ := h
  obtain ⟨n, row⟩ := t
  obtain ⟨n', row'⟩ := t'
  simp only at hn
  subst hn
  have e : (STab.mk n row).gspace = (STab.mk n row').gspace :=
    gspaceOf_eq_of_inSpan n row row' (fun p => ⟨h1 p, h2 p⟩)
  unfold cutRank
  rw [← e]

/-- a gate does not change the bits at columns it does not act on -/
theorem _root_.Graphiq.Gate.act_bits_off_lin (G : Gate) (j : Nat) (hj : ∀ c, c ∈ G.cols → j ≠ c) (p : PRow) :
    (G.act p).x j = p.x j ∧ (G.act p).z j = p.z j := by
  cases G with
  | H q =>
    have e : j ≠ q := hj q (by simp [Gate.cols])
    simp [Gate.act, PRow.h, e]
  | P q =>
    have e : j ≠ q := hj q (by simp [Gate.cols])
    simp [Gate.act, PRow.s, e]
  | Pdag q =>
    have e : j ≠ q := hj q (by simp [Gate.cols])
    simp [Gate.act, PRow.sdg, PRow.s, e]
  | X q =>
    have e : j ≠ q := hj q (by simp [Gate.cols])
    simp [Gate.act, PRow.xg, PRow.zg, PRow.h, PRow.s, e]
  | Y q =>
    have e : j ≠ q := hj q (by simp [Gate.cols])
    simp [Gate.act, PRow.yg, PRow.xg, PRow.zg, PRow.h, PRow.s, e]
  | Z q =>
    have e : j ≠ q := hj q (by simp [Gate.cols])
    simp [Gate.act, PRow.zg, PRow.s, e]
  | I q => exact ⟨rfl, rfl⟩
  | CNOT c t =>
    have e1 : j ≠ c := hj c (by simp [Gate.cols])
    have e2 : j ≠ t := hj t (by simp [Gate.cols])
    simp [Gate.act, PRow.cnot, e1, e2]
  | CZ c t =>
    have e1 : j ≠ c := hj c (by simp [Gate.cols])
    have e2 : j ≠ t := hj t (by simp [Gate.cols])
    simp [Gate.act, PRow.cz, PRow.cnot, PRow.h, e1, e2]

set_option linter.unusedVariables false in
/-- (4) a gate acting only on columns right of `k` does not change the generators' bits at columns `≤ k`, hence not `cutRank k` -/
theorem cutRank_gate (t : STab) (G : Gate) (hG : G.WF t.n) (k : Nat) (hc : ∀ c, c ∈ G.cols → k < c) :
    ((t.applyGate G).norm).cutRank k = t.cutRank k := by
  have e : Submodule.map (cutLin t.n k) (gspaceOf t.n ((t.applyGate G).norm).row)
      = Submodule.map (cutLin t.n k) (gspaceOf t.n t.row) := by
    unfold gspaceOf
    rw [Submodule.map_span, Submodule.map_span, ← Set.range_comp, ← Set.range_comp]
    congr 2
    funext i
    show cutLin t.n k ((((t.applyGate G).norm).row i).vec t.n) = cutLin t.n k ((t.row i).vec t.n)
    have hv : (((t.applyGate G).norm).row i).vec t.n = (G.act (t.row i)).vec t.n :=
      norm_vec (t.applyGate G) i.val i.isLt
    rw [hv]
    funext j
    simp only [cutLin, LinearMap.coe_mk, AddHom.coe_mk]
    by_cases hj : j.val ≤ k
    · rw [if_pos hj, if_pos hj]
      have hb := Gate.act_bits_off_lin G j.val (fun c hcm => by have := hc c hcm; omega) (t.row i)
      show (b2z ((G.act (t.row i)).x j), b2z ((G.act (t.row i)).z j)) = (b2z ((t.row i).x j), b2z ((t.row i).z j))
      rw [hb.1, hb.2]
    · rw [if_neg hj, if_neg hj]
  show finrank (ZMod 2) ↥(Submodule.map (cutLin t.n k) (gspaceOf t.n ((t.applyGate G).norm).row))
    = finrank (ZMod 2) ↥(Submodule.map (cutLin t.n k) (gspaceOf t.n t.row))
  rw [e]

theorem getD_map_range_int (n k : Nat) (hk : k < n) (f : Nat → Int) : ((List.range n).map f).getD k 0 = f k := by
  rw [List.getD_eq_getElem?_getD, List.getElem?_map, List.getElem?_range hk]
  rfl

/-- (5) link with the height function -/
theorem height_eq_cutRank (t : STab) (l : List Int) (h : t.heightFuncList = .ok l) (k : Nat) (hk : k < t.n) :
    l.getD k 0 = (t.cutRank k : Int) - ((k : Int) + 1) := by
  rw [heightFuncList_eq_rank_cut t l h, getD_map_range_int t.n k hk]
  rfl

/-- (6) link with the echelon form: the number of generators whose leading site is right of `k` -/
theorem echelon_count_right (t : STab) (piv : Nat → Nat) (he : Echelon t piv) (l : List Int) (h : t.heightFuncList = .ok l)
    (k : Nat) (hk : k < t.n) :
    (((List.range t.n).filter fun i => decide (k < piv i)).length : Int) = (t.n : Int) - ((k : Int) + 1) - l.getD k 0 := by
  rw [heightFuncList_eq_finrank t l h, getD_map_range_int t.n k hk, echelon_finrank_right t piv he k]
  simp only [Int.ofNat_eq_natCast]
  omega

/-- (7) `height_func_list` returns on an independent tableau, with a list of length `n` -/
theorem heightFuncList_ok_of_indep (t : STab) (hi : t.LinIndep) : ∃ l, t.heightFuncList = .ok l ∧ l.length = t.n := by
  obtain ⟨l, h⟩ := heightFuncList_total t hi
  refine ⟨l, h, ?_⟩
  rw [heightFuncList_eq_finrank t l h, List.length_map, List.length_range]

/-! ### the starting tableau of the solver: `target ⊗ |0…0⟩` -/

/-- zero-extension of a bit vector by `m` further sites -/
def extLin (n m : Nat) : PVec n →ₗ[ZMod 2] PVec (n + m) where
  toFun v := fun j => if h : j.val < n then v ⟨j.val, h⟩ else 0
  map_add' a b := by
    funext j
    by_cases h : j.val < n <;> simp [h]
  map_smul' c a := by
    funext j
    by_cases h : j.val < n <;> simp [h]

theorem extLin_apply (n m : Nat) (v : PVec n) (j : Fin (n + m)) :
    extLin n m v j = if h : j.val < n then v ⟨j.val, h⟩ else 0 := rfl

theorem extLin_ker (n m : Nat) : LinearMap.ker (extLin n m) = ⊥ := by
  apply LinearMap.ker_eq_bot_of_injective
  intro a b hab
  funext j
  have := congrFun hab ⟨j.val, by have := j.isLt; omega⟩
  rw [extLin_apply, extLin_apply, dif_pos j.isLt, dif_pos j.isLt] at this
  exact this

theorem indep_insertQubit (t : STab) (hi : t.LinIndep) : (t.insertQubit t.n).LinIndep := by
  show LinearIndependent (ZMod 2) (fun i : Fin (t.n + 1) => ((t.insertQubit t.n).row i).vec (t.n + 1))
  rw [linearIndependent_finSucc']
  have hinit : Fin.init (fun i : Fin (t.n + 1) => ((t.insertQubit t.n).row i).vec (t.n + 1))
      = (extLin t.n 1) ∘ (fun i : Fin t.n => (t.row i).vec t.n) := by
    funext i
    show ((t.insertQubit t.n).row i.val).vec (t.n + 1) = extLin t.n 1 ((t.row i).vec t.n)
    have hr : (t.insertQubit t.n).row i.val = (t.row i.val).insertCol t.n := by
      simp [STab.insertQubit, i.isLt]
    rw [hr]
    funext j
    rw [extLin_apply]
    by_cases hj : j.val < t.n
    · rw [dif_pos hj]
      simp [PRow.vec, PRow.insertCol, hj]
    · rw [dif_neg hj]
      have hj2 : j.val = t.n := by have := j.isLt; omega
      simp [PRow.vec, PRow.insertCol, hj2, b2z]
  rw [hinit]
  refine ⟨hi.map' _ (extLin_ker t.n 1), ?_⟩
  intro hmem
  have hle : Submodule.span (ZMod 2) (Set.range ((extLin t.n 1) ∘ (fun i : Fin t.n => (t.row i).vec t.n)))
      ≤ LinearMap.range (extLin t.n 1) := by
    apply Submodule.span_le.2
    rintro _ ⟨i, rfl⟩
    exact ⟨_, rfl⟩
  obtain ⟨u, hu⟩ := hle hmem
  have h1 := congrFun hu (Fin.last t.n)
  rw [extLin_apply, dif_neg (by simp)] at h1
  have hr : (t.insertQubit t.n).row (Fin.last t.n).val = PRow.Zq t.n := by
    simp [STab.insertQubit]
  have h2 : ((t.insertQubit t.n).row (Fin.last t.n).val).vec (t.n + 1) (Fin.last t.n) = (0, 1) := by
    rw [hr]
    simp [PRow.vec, PRow.Zq, b2z]
  have h3 : ((0 : ZMod 2 × ZMod 2)) = (0, 1) := h1.trans h2
  have h4 := congrArg Prod.snd h3
  revert h4
  decide

/-- (8) the starting tableau of the solver is independent -/
theorem indep_withEmitters (target : STab) (hi : target.LinIndep) (ne : Nat) : (Solver.withEmitters target ne).LinIndep := by
  induction ne with
  | zero => exact hi
  | succ k ih =>
    rw [Solver.withEmitters_succ]
    exact indep_of_spanEq _ _ (norm_spanEq _) (indep_insertQubit _ ih)

/-- zero-extension maps the cut generators of `t` onto those of any tableau whose rows are, bit by bit, `target ⊗ |0…0⟩` -/
theorem cutRank_ext_le (t w : STab) (m : Nat) (hn : w.n = t.n + m)
    (hrow : ∀ i, i < t.n + m → PRow.SameBits (t.n + m) (w.row i) (Solver.extRow t i)) (k : Nat) (hk : k < t.n) :
    w.cutRank k ≤ t.cutRank k := by
  obtain ⟨wn, wrow⟩ := w
  simp only at hn hrow
  subst hn
  have hle : Submodule.map (cutLin (t.n + m) k) (gspaceOf (t.n + m) wrow)
      ≤ Submodule.map (extLin t.n m) (Submodule.map (cutLin t.n k) t.gspace) := by
    unfold gspaceOf
    rw [Submodule.map_span]
    apply Submodule.span_le.2
    rintro _ ⟨_, ⟨i, rfl⟩, rfl⟩
    by_cases hi : i.val < t.n
    · have e : cutLin (t.n + m) k ((wrow i).vec (t.n + m)) = extLin t.n m (cutLin t.n k ((t.row i.val).vec t.n)) := by
        funext j
        have hb := hrow i.val i.isLt j.val j.isLt
        simp only [Solver.extRow, if_pos hi, PRow.truncCols] at hb
        rw [extLin_apply]
        simp only [cutLin, LinearMap.coe_mk, AddHom.coe_mk]
        by_cases hj : j.val ≤ k
        · have hj2 : j.val < t.n := by omega
          rw [if_pos hj, dif_pos hj2, if_pos hj]
          show (b2z ((wrow i).x j), b2z ((wrow i).z j)) = (b2z ((t.row i.val).x j.val), b2z ((t.row i.val).z j.val))
          rw [hb.1, hb.2]
          simp [hj2]
        · rw [if_neg hj]
          by_cases hj2 : j.val < t.n
          · rw [dif_pos hj2, if_neg hj]
          · rw [dif_neg hj2]
      show cutLin (t.n + m) k ((wrow i).vec (t.n + m)) ∈ _
      rw [e]
      exact Submodule.mem_map_of_mem (Submodule.mem_map_of_mem (gen_mem_gspaceOf t.n t.row i.val hi))
    · have e : cutLin (t.n + m) k ((wrow i).vec (t.n + m)) = 0 := by
        funext j
        have hb := hrow i.val i.isLt j.val j.isLt
        simp only [Solver.extRow, if_neg hi, PRow.Zq] at hb
        simp only [cutLin, LinearMap.coe_mk, AddHom.coe_mk]
        by_cases hj : j.val ≤ k
        · rw [if_pos hj]
          show (b2z ((wrow i).x j), b2z ((wrow i).z j)) = 0
          rw [hb.1, hb.2]
          have : j.val ≠ i.val := by omega
          simp [b2z, this]
        · rw [if_neg hj]; rfl
      show cutLin (t.n + m) k ((wrow i).vec (t.n + m)) ∈ _
      rw [e]
      exact Submodule.zero_mem _
  exact le_trans (Submodule.finrank_mono hle) (Submodule.finrank_map_le _ _)

theorem le_foldl_max (l : List Int) (a x : Int) (h : x ≤ a ∨ x ∈ l) : x ≤ l.foldl max a := by
  induction l generalizing a with
  | nil =>
    rcases h with h | h
    · exact h
    · cases h
  | cons b t ih =>
    simp only [List.foldl_cons]
    apply ih
    rcases h with h | h
    · left; exact le_trans h (le_max_left _ _)
    · rcases List.mem_cons.1 h with rfl | h
      · left; exact le_max_right _ _
      · right; exact h

/-- what `determine_n_emitters` returns bounds every entry of the height list of the target -/
theorem determineNEmitters_spec (target : STab) (ne : Nat) (h : Solver.determineNEmitters target = .ok ne) :
    ∃ l, target.heightFuncList = .ok l ∧ ∀ x, x ∈ l → x ≤ (ne : Int) := by
  unfold Solver.determineNEmitters at h
  cases hr : target.rref with
  | error e => rw [hr] at h; cases h
  | ok v =>
    obtain ⟨t1, brs⟩ := v
    rw [hr] at h
    simp only at h
    cases hl : t1.heightFuncList with
    | error e => rw [hl] at h; cases h
    | ok l =>
      rw [hl] at h
      cases l with
      | nil => cases h
      | cons a as =>
        simp only at h
        injection h with h
        refine ⟨a :: as, heightFuncList_rref target t1 brs hr _ hl, ?_⟩
        intro x hx
        have h1 : x ≤ as.foldl max a := by
          apply le_foldl_max
          rcases List.mem_cons.1 hx with rfl | hx
          · left; exact le_refl _
          · right; exact hx
        rw [← h]
        exact le_trans h1 (Int.self_le_toNat _)

/-- (9) the emitter budget bounds every photon cut of the starting tableau -/
theorem cutRank_withEmitters (target : STab) (ne : Nat) (h : Solver.determineNEmitters target = .ok ne) (k : Nat)
    (hk : k < target.n) : (Solver.withEmitters target ne).cutRank k ≤ ne + (k + 1) := by
  obtain ⟨l, hl, hmax⟩ := determineNEmitters_spec target ne h
  have h1 := height_eq_cutRank target l hl k hk
  have hlen : l.length = target.n := by
    rw [heightFuncList_eq_finrank target l hl, List.length_map, List.length_range]
  have hmem : l.getD k 0 ∈ l := by
    rw [List.getD_eq_getElem?_getD, List.getElem?_eq_getElem (by omega)]
    exact List.getElem_mem _
  have h2 := hmax _ hmem
  have h3 : (Solver.withEmitters target ne).cutRank k ≤ target.cutRank k :=
    cutRank_ext_le target _ ne (Solver.withEmitters_n target ne)
      (fun i hi => (Solver.withEmitters_row target ne i hi).1) k hk
  omega

/-- (10) `determine_n_emitters` returns on an independent non-empty target -/
theorem determineNEmitters_ok (target : STab) (hi : target.LinIndep) (hn : 0 < target.n) :
    ∃ ne, Solver.determineNEmitters target = .ok ne := by
  obtain ⟨t1, brs, piv, hr, he⟩ := rref_ok_of_indep target hi
  have hn1 : t1.n = target.n := (rref_ops _ t1 brs hr).n_eq
  obtain ⟨l, hl, hlen⟩ := heightFuncList_ok_of_indep t1 (echelon_linearIndependent t1 piv he)
  unfold Solver.determineNEmitters
  rw [hr]
  simp only
  rw [hl]
  cases l with
  | nil => simp at hlen; omega
  | cons a as => exact ⟨_, rfl⟩

end STab
end Graphiq
