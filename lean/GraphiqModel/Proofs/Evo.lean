/-
  Proofs/Evo.lean — helper lemmas for C19 (random-search solvers).  Core Lean only (`grind`, `omega`, `simp`).
-/
import GraphiqModel.Model.Evo
namespace Graphiq.Evo
open Graphiq

/-! ## Scores: `<` is a strict total order -/
namespace Score

theorem lt_irrefl (a : Score) : a.lt a = false := by
  cases a <;> simp [lt]

theorem lt_trans {a b c : Score} (h1 : a.lt b = true) (h2 : b.lt c = true) : a.lt c = true := by
  cases a <;> cases b <;> cases c <;> simp_all [lt]
  grind

theorem lt_asymm {a b : Score} (h : a.lt b = true) : b.lt a = false := by
  cases a <;> cases b <;> simp_all [lt]
  grind

theorem eq_of_not_lt {a b : Score} (h1 : a.lt b = false) (h2 : b.lt a = false) : a = b := by
  cases a <;> cases b <;> simp_all [lt]
  grind

theorem lt_of_not_lt_of_ne {a b : Score} (h1 : a.lt b = false) (hne : a ≠ b) : b.lt a = true := by
  cases h : b.lt a
  · exact absurd (eq_of_not_lt h1 h) hne
  · rfl

/-- `np.isclose(a, a)` for non-negative tolerances -/
theorem isclose_refl (t : Tol) (hr : 0 ≤ t.rtol) (ha : 0 ≤ t.atol) (a : Score) : a.isclose t a = true := by
  cases a with
  | inf => rfl
  | fin q =>
    simp only [isclose, absQ]
    have : (0 : Rat) ≤ t.rtol * (if q < 0 then -q else q) := by
      apply Rat.mul_nonneg hr
      split <;> grind
    grind

end Score

theorem Tol.numpy_rtol_nonneg : 0 ≤ Tol.numpy.rtol := by decide +kernel
theorem Tol.numpy_atol_nonneg : 0 ≤ Tol.numpy.atol := by decide +kernel

/-! ## The scan of `update_hof` -/
section Scan
variable {C : Type}

/-- iteration of the scan at entry `e` inserts (and breaks) -/
def Hit (t : Tol) (size : C → Nat) (h : Heap C) (score : Score) (csize : Nat) (e : HofEntry) : Prop :=
  (score.isclose t e.score = true ∧ ∃ r hc, e.circ = some r ∧ h.get? r = some hc ∧ csize < size hc) ∨
  (score.isclose t e.score = false ∧ score.lt e.score = true)

/-- iteration of the scan at entry `e` neither inserts nor raises -/
def Passed (t : Tol) (size : C → Nat) (h : Heap C) (score : Score) (csize : Nat) (e : HofEntry) : Prop :=
  (score.isclose t e.score = true ∧ ∃ r hc, e.circ = some r ∧ h.get? r = some hc ∧ ¬ csize < size hc) ∨
  (score.isclose t e.score = false ∧ score.lt e.score = false)

theorem scanHof_some (t : Tol) (size : C → Nat) (h : Heap C) (hof : List HofEntry) (score : Score) (csize : Nat) :
    ∀ (fuel i p : Nat), scanHof t size h hof score csize i fuel = .ok (some p) →
      i ≤ p ∧ p < i + fuel ∧ (∃ e, hof[p]? = some e ∧ Hit t size h score csize e) ∧
      ∀ k, i ≤ k → k < p → ∃ e, hof[k]? = some e ∧ Passed t size h score csize e := by
  intro fuel
  induction fuel with
  | zero => intro i p hres; simp [scanHof] at hres
  | succ fuel ih =>
    intro i p hres
    unfold scanHof at hres
    split at hres
    · simp at hres
    · next e he =>
      split at hres
      · next hclose =>
        split at hres
        · simp at hres
        · next r hr =>
          split at hres
          · simp at hres
          · next hc hhc =>
            split at hres
            · next hlt =>
              simp at hres; subst hres
              refine ⟨Nat.le_refl _, by omega, ⟨e, he, Or.inl ⟨hclose, r, hc, hr, hhc, hlt⟩⟩, ?_⟩
              intro k hk1 hk2; omega
            · next hlt =>
              obtain ⟨h1, h2, h3, h4⟩ := ih (i + 1) p hres
              refine ⟨by omega, by omega, h3, ?_⟩
              intro k hk1 hk2
              by_cases hki : k = i
              · subst hki; exact ⟨e, he, Or.inl ⟨hclose, r, hc, hr, hhc, hlt⟩⟩
              · exact h4 k (by omega) hk2
      · next hclose =>
        have hclose' : score.isclose t e.score = false := by simpa using hclose
        split at hres
        · next hlt =>
          simp at hres; subst hres
          refine ⟨Nat.le_refl _, by omega, ⟨e, he, Or.inr ⟨hclose', hlt⟩⟩, ?_⟩
          intro k hk1 hk2; omega
        · next hlt =>
          have hlt' : score.lt e.score = false := by simpa using hlt
          obtain ⟨h1, h2, h3, h4⟩ := ih (i + 1) p hres
          refine ⟨by omega, by omega, h3, ?_⟩
          intro k hk1 hk2
          by_cases hki : k = i
          · subst hki; exact ⟨e, he, Or.inr ⟨hclose', hlt'⟩⟩
          · exact h4 k (by omega) hk2

theorem scanHof_none (t : Tol) (size : C → Nat) (h : Heap C) (hof : List HofEntry) (score : Score) (csize : Nat) :
    ∀ (fuel i : Nat), scanHof t size h hof score csize i fuel = .ok none →
      ∀ k, i ≤ k → k < i + fuel → ∃ e, hof[k]? = some e ∧ Passed t size h score csize e := by
  intro fuel
  induction fuel with
  | zero => intro i _ k hk1 hk2; omega
  | succ fuel ih =>
    intro i hres
    unfold scanHof at hres
    split at hres
    · simp at hres
    · next e he =>
      split at hres
      · next hclose =>
        split at hres
        · simp at hres
        · next r hr =>
          split at hres
          · simp at hres
          · next hc hhc =>
            split at hres
            · simp at hres
            · next hlt =>
              intro k hk1 hk2
              by_cases hki : k = i
              · subst hki; exact ⟨e, he, Or.inl ⟨hclose, r, hc, hr, hhc, hlt⟩⟩
              · exact ih (i + 1) hres k (by omega) (by omega)
      · next hclose =>
        have hclose' : score.isclose t e.score = false := by simpa using hclose
        split at hres
        · simp at hres
        · next hlt =>
          have hlt' : score.lt e.score = false := by simpa using hlt
          intro k hk1 hk2
          by_cases hki : k = i
          · subst hki; exact ⟨e, he, Or.inr ⟨hclose', hlt'⟩⟩
          · exact ih (i + 1) hres k (by omega) (by omega)

end Scan

/-! ## `hof.insert(i, x); hof.pop()` -/

theorem insertPop_length (hof : List HofEntry) (i : Nat) (x : HofEntry) (hi : i < hof.length) :
    (insertPop hof i x).length = hof.length := by
  unfold insertPop
  rw [List.length_dropLast, List.length_insertIdx]
  split <;> omega

theorem insertPop_getElem? (hof : List HofEntry) (i : Nat) (x : HofEntry) (hi : i < hof.length) (j : Nat) :
    (insertPop hof i x)[j]? =
      if j < i then hof[j]? else if j = i then some x else if j < hof.length then hof[j - 1]? else none := by
  unfold insertPop
  rw [List.getElem?_dropLast, List.length_insertIdx, List.getElem?_insertIdx]
  have hle : i ≤ hof.length := Nat.le_of_lt hi
  simp only [hle, if_true]
  by_cases h1 : j < i
  · simp [h1]
  · by_cases h2 : j = i
    · subst h2
      simp [hle]
      exact hi
    · by_cases h3 : j < hof.length
      · simp [h1, h2, h3]
      · simp [h1, h2, h3]

/-! ## The heap -/
namespace Heap
variable {C : Type}

theorem copy_spec {h h' : Heap C} {r r' : Nat} (hc : h.copy r = .ok (h', r')) :
    r' = h.size ∧ h'.size = h.size + 1 ∧ (∀ k, k < h.size → h'.get? k = h.get? k) ∧
    h'.get? r' = h.get? r ∧ (∃ c, h.get? r = some c) := by
  unfold copy at hc
  split at hc
  · simp at hc
  · next c hcell =>
    simp only [Except.ok.injEq, Prod.mk.injEq] at hc
    obtain ⟨h1, h2⟩ := hc
    subst h1; subst h2
    refine ⟨rfl, by simp [size], ?_, ?_, ⟨c, hcell⟩⟩
    · intro k hk
      simp only [get?, size] at *
      rw [Array.getElem?_push]
      have : k ≠ h.cells.size := by omega
      simp [this]
    · simp only [get?, size] at *
      rw [Array.getElem?_push]
      simp [hcell]

theorem modify_size (h : Heap C) (r : Nat) (f : C → C) : (h.modify r f).size = h.size := by
  simp [modify, size]

theorem modify_get?_same (h : Heap C) (r : Nat) (f : C → C) : (h.modify r f).get? r = (h.get? r).map f := by
  simp [modify, get?, Array.getElem?_modify]

theorem modify_get?_other (h : Heap C) (r k : Nat) (f : C → C) (hk : k ≠ r) : (h.modify r f).get? k = h.get? k := by
  simp only [modify, get?, Array.getElem?_modify]
  have : ¬ r = k := fun e => hk e.symm
  simp [this]

theorem get?_some_iff_lt (h : Heap C) (r : Nat) : (∃ c, h.get? r = some c) ↔ r < h.size := by
  simp only [get?, size]
  constructor
  · rintro ⟨c, hc⟩
    exact (Array.getElem?_eq_some_iff.mp hc).1
  · intro hlt
    exact ⟨h.cells[r], Array.getElem?_eq_getElem hlt⟩

end Heap

/-! ## Order of the hall of fame up to the `isclose` tolerance -/

/-- `a ≤ b`, or the two are within the `np.isclose` tolerance (in either argument order) -/
def LeTol (t : Tol) (a b : Score) : Prop := b.lt a = false ∨ a.isclose t b = true ∨ b.isclose t a = true

/-- every entry is `LeTol` its successor -/
def SortedTol (t : Tol) (hof : List HofEntry) : Prop :=
  ∀ j a b, hof[j]? = some a → hof[j + 1]? = some b → LeTol t a.score b.score

section Sorted
variable {C : Type}

theorem Hit.leTol {t : Tol} {size : C → Nat} {h : Heap C} {score : Score} {csize : Nat} {e : HofEntry}
    (hh : Hit t size h score csize e) : LeTol t score e.score := by
  rcases hh with ⟨hc, _⟩ | ⟨_, hl⟩
  · exact Or.inr (Or.inl hc)
  · exact Or.inl (Score.lt_asymm hl)

theorem Passed.leTol {t : Tol} {size : C → Nat} {h : Heap C} {score : Score} {csize : Nat} {e : HofEntry}
    (hp : Passed t size h score csize e) : LeTol t e.score score := by
  rcases hp with ⟨hc, _⟩ | ⟨_, hl⟩
  · exact Or.inr (Or.inr hc)
  · exact Or.inl hl

/-- inserting `x` at a position whose entry it is `LeTol` and whose predecessor is `LeTol` it keeps the order -/
theorem sortedTol_insertPop (t : Tol) (hof : List HofEntry) (p : Nat) (x : HofEntry) (hp : p < hof.length)
    (hs : SortedTol t hof)
    (hnext : ∀ e, hof[p]? = some e → LeTol t x.score e.score)
    (hprev : ∀ k e, k + 1 = p → hof[k]? = some e → LeTol t e.score x.score) :
    SortedTol t (insertPop hof p x) := by
  intro j a b ha hb
  rw [insertPop_getElem? hof p x hp] at ha hb
  by_cases h1 : j + 1 < p
  · have : j < p := by omega
    simp only [this, h1, if_true] at ha hb
    exact hs j a b ha hb
  · by_cases h2 : j + 1 = p
    · have hj : j < p := by omega
      have hne : ¬ j + 1 < p := by omega
      simp only [hj, hne, h2, if_true, if_false] at ha hb
      have : b = x := by simpa using hb.symm
      subst this
      exact hprev j a h2 ha
    · by_cases h3 : j = p
      · subst h3
        have e1 : ¬ j < j := by omega
        have e2 : ¬ j + 1 < j := by omega
        have e3 : ¬ j + 1 = j := by omega
        simp only [e1, e2, e3, if_true, if_false] at ha hb
        have : a = x := by simpa using ha.symm
        subst this
        split at hb
        · simp only [Nat.add_sub_cancel] at hb
          exact hnext b hb
        · simp at hb
      · have e1 : ¬ j < p := by omega
        have e2 : ¬ j + 1 < p := by omega
        have e3 : ¬ j + 1 = p := by omega
        simp only [e1, e2, e3, h3, if_false] at ha hb
        split at ha
        · split at hb
          · have : j - 1 + 1 = j + 1 - 1 := by omega
            exact hs (j - 1) a b ha (by rw [this]; exact hb)
          · simp at hb
        · simp at ha

end Sorted

/-! ## Heap extension, references, honesty -/
section Inv
variable {C D : Type}

/-- `h'` extends `h`: every old object is still there, unchanged -/
def Ext (h h' : Heap C) : Prop := h.size ≤ h'.size ∧ ∀ k, k < h.size → h'.get? k = h.get? k

theorem Ext.refl (h : Heap C) : Ext h h := ⟨Nat.le_refl _, fun _ _ => rfl⟩

theorem Ext.trans {h1 h2 h3 : Heap C} (a : Ext h1 h2) (b : Ext h2 h3) : Ext h1 h3 :=
  ⟨Nat.le_trans a.1 b.1, fun k hk => by rw [b.2 k (Nat.lt_of_lt_of_le hk a.1), a.2 k hk]⟩

theorem Ext.of_copy {h h' : Heap C} {r r' : Nat} (hc : h.copy r = .ok (h', r')) : Ext h h' := by
  obtain ⟨_, h2, h3, _, _⟩ := Heap.copy_spec hc
  exact ⟨by omega, h3⟩

/-- the objects referenced by the hall of fame -/
def hofRefs (hof : List HofEntry) : List Nat := hof.filterMap (·.circ)

/-- the objects referenced by the population -/
def popRefs (pop : List PopEntry) : List Nat := pop.map (·.circ)

/-- the stored score of a population entry is the metric of the circuit object it points to -/
def PopHonest (P : Params C D) (h : Heap C) (e : PopEntry) : Prop :=
  ∃ c, h.get? e.circ = some c ∧ e.score = P.metric c

/-- the stored score of a hall-of-fame entry is the metric of the circuit object it points to
    (`np.inf` for the initial `(np.inf, None)` entries) -/
def HofEntryHonest (P : Params C D) (h : Heap C) (e : HofEntry) : Prop :=
  match e.circ with
  | some r => ∃ c, h.get? r = some c ∧ e.score = P.metric c
  | none => e.score = Score.inf

theorem PopHonest.ext {P : Params C D} {h h' : Heap C} {e : PopEntry} (hx : Ext h h') (hp : PopHonest P h e) :
    PopHonest P h' e := by
  obtain ⟨c, hc, hs⟩ := hp
  have hlt : e.circ < h.size := (Heap.get?_some_iff_lt h e.circ).mp ⟨c, hc⟩
  exact ⟨c, by rw [hx.2 _ hlt]; exact hc, hs⟩

theorem HofEntryHonest.ext {P : Params C D} {h h' : Heap C} {e : HofEntry} (hx : Ext h h')
    (hp : HofEntryHonest P h e) : HofEntryHonest P h' e := by
  unfold HofEntryHonest at *
  split
  · next r hr =>
    rw [hr] at hp
    obtain ⟨c, hc, hs⟩ := hp
    have hlt : r < h.size := (Heap.get?_some_iff_lt h r).mp ⟨c, hc⟩
    exact ⟨c, by rw [hx.2 _ hlt]; exact hc, hs⟩
  · next hr => rw [hr] at hp; exact hp

/-- invariant of the hall of fame relative to a heap -/
structure HofInv (P : Params C D) (t : Tol) (h : Heap C) (hof : List HofEntry) : Prop where
  /-- no dangling reference -/
  bound : ∀ r ∈ hofRefs hof, r < h.size
  /-- no two entries share a circuit object -/
  nodup : (hofRefs hof).Nodup
  /-- every stored score is the metric of the stored circuit -/
  honest : ∀ e ∈ hof, HofEntryHonest P h e
  /-- ordered by score up to the isclose tolerance -/
  sorted : SortedTol t hof

theorem mem_insertPop {hof : List HofEntry} {i : Nat} {x e : HofEntry} (hi : i ≤ hof.length)
    (he : e ∈ insertPop hof i x) : e = x ∨ e ∈ hof := by
  unfold insertPop at he
  have := (List.dropLast_sublist _).mem he
  exact (List.mem_insertIdx hi).mp this

theorem hofRefs_insertPop_mem {hof : List HofEntry} {i : Nat} {x : HofEntry} {r : Nat} (hi : i ≤ hof.length)
    (hr : r ∈ hofRefs (insertPop hof i x)) : x.circ = some r ∨ r ∈ hofRefs hof := by
  unfold hofRefs at *
  obtain ⟨e, he, hc⟩ := List.mem_filterMap.mp hr
  rcases mem_insertPop hi he with rfl | hm
  · exact Or.inl hc
  · exact Or.inr (List.mem_filterMap.mpr ⟨e, hm, hc⟩)

theorem hofRefs_insertPop_nodup {hof : List HofEntry} {i : Nat} {x : HofEntry} {r : Nat} (hi : i ≤ hof.length)
    (hx : x.circ = some r) (hfresh : r ∉ hofRefs hof) (hnd : (hofRefs hof).Nodup) :
    (hofRefs (insertPop hof i x)).Nodup := by
  unfold hofRefs insertPop at *
  have hsub : (List.filterMap (·.circ) (hof.insertIdx i x).dropLast).Sublist
      (List.filterMap (·.circ) (hof.insertIdx i x)) := List.Sublist.filterMap _ (List.dropLast_sublist _)
  have hperm : (List.filterMap (·.circ) (hof.insertIdx i x)).Perm (List.filterMap (·.circ) (x :: hof)) :=
    List.Perm.filterMap _ (List.perm_insertIdx x hof hi)
  apply List.Nodup.sublist hsub
  rw [hperm.nodup_iff]
  simp only [List.filterMap_cons, hx]
  exact List.nodup_cons.mpr ⟨hfresh, hnd⟩

/-- how the first entry changes when one population member is processed -/
def HeadStep (t : Tol) (hof hof' : List HofEntry) (score : Score) : Prop :=
  ∀ a b, hof[0]? = some a → hof'[0]? = some b →
    (b = a ∧ (score.isclose t a.score = true ∨ score.lt a.score = false)) ∨
    (b.score = score ∧ (score.isclose t a.score = true ∨ score.lt a.score = true))

theorem updateHofOne_inv (P : Params C D) (t : Tol) (n : Nat) {h h' : Heap C} {hof hof' : List HofEntry}
    {e : PopEntry} (hinv : HofInv P t h hof) (hlen : hof.length = n) (hpe : PopHonest P h e)
    (hres : updateHofOne t P.size n h hof e = .ok (h', hof')) :
    HofInv P t h' hof' ∧ Ext h h' ∧ hof'.length = hof.length ∧
    (∀ r ∈ hofRefs hof', r ∈ hofRefs hof ∨ (h.size ≤ r ∧ r < h'.size)) ∧ HeadStep t hof hof' e.score := by
  unfold updateHofOne at hres
  split at hres
  · simp at hres
  · next c hc =>
    split at hres
    · simp at hres
    · next hscan =>
      -- no insertion
      simp only [Except.ok.injEq, Prod.mk.injEq] at hres
      obtain ⟨rfl, rfl⟩ := hres
      refine ⟨hinv, Ext.refl _, rfl, fun r hr => Or.inl hr, ?_⟩
      intro a b ha hb
      rw [ha] at hb
      have hab : b = a := by simpa using hb.symm
      refine Or.inl ⟨hab, ?_⟩
      by_cases hn : 0 < n
      · obtain ⟨e0, he0, hp0⟩ := scanHof_none t P.size h hof e.score (P.size c) n 0 hscan 0 (Nat.le_refl _) (by omega)
        rw [ha] at he0
        have : e0 = a := by simpa using he0.symm
        subst this
        rcases hp0 with ⟨h1, _⟩ | ⟨_, h2⟩
        · exact Or.inl h1
        · exact Or.inr h2
      · -- n = 0 = hof.length: there is no first entry
        have hl : hof.length = 0 := by omega
        have : hof = [] := List.eq_nil_of_length_eq_zero hl
        subst this
        simp at ha
    · next p hscan =>
      split at hres
      · simp at hres
      · next h2 r' hcopy =>
        simp only [Except.ok.injEq, Prod.mk.injEq] at hres
        obtain ⟨rfl, rfl⟩ := hres
        obtain ⟨hp1, hp2, ⟨ep, hep, hhit⟩, hpassed⟩ := scanHof_some t P.size h hof e.score (P.size c) n 0 p hscan
        have hplt : p < hof.length := by
          have := (List.getElem?_eq_some_iff.mp hep).1
          exact this
        obtain ⟨hr', hsz, hold, hnew, _⟩ := Heap.copy_spec hcopy
        have hext : Ext h h2 := Ext.of_copy hcopy
        refine ⟨⟨?_, ?_, ?_, ?_⟩, hext, insertPop_length hof p _ hplt, ?_, ?_⟩
        · intro r hr
          rcases hofRefs_insertPop_mem (Nat.le_of_lt hplt) hr with hx | hm
          · simp at hx; omega
          · have := hinv.bound r hm; omega
        · apply hofRefs_insertPop_nodup (Nat.le_of_lt hplt) (r := r') rfl _ hinv.nodup
          intro hm
          have := hinv.bound r' hm
          omega
        · intro x hx
          rcases mem_insertPop (Nat.le_of_lt hplt) hx with rfl | hm
          · obtain ⟨c', hc', hs'⟩ := hpe
            show ∃ c, h2.get? r' = some c ∧ e.score = P.metric c
            exact ⟨c', by rw [hnew]; exact hc', hs'⟩
          · exact (hinv.honest x hm).ext hext
        · apply sortedTol_insertPop t hof p _ hplt hinv.sorted
          · intro e1 he1
            rw [hep] at he1
            have : e1 = ep := by simpa using he1.symm
            subst this
            exact hhit.leTol
          · intro k e1 hk he1
            obtain ⟨e2, he2, hp2'⟩ := hpassed k (Nat.zero_le _) (by omega)
            rw [he1] at he2
            have : e2 = e1 := by simpa using he2.symm
            subst this
            exact hp2'.leTol
        · intro r hr
          rcases hofRefs_insertPop_mem (Nat.le_of_lt hplt) hr with hx | hm
          · simp at hx; right; omega
          · exact Or.inl hm
        · intro a b ha hb
          rw [insertPop_getElem? hof p _ hplt] at hb
          by_cases hp0 : p = 0
          · subst hp0
            simp at hb
            subst hb
            rw [hep] at ha
            have : a = ep := by simpa using ha.symm
            subst this
            right
            refine ⟨rfl, ?_⟩
            rcases hhit with ⟨h1, _⟩ | ⟨_, h2'⟩
            · exact Or.inl h1
            · exact Or.inr h2'
          · have : 0 < p := by omega
            simp only [this, if_true] at hb
            rw [ha] at hb
            have hab : b = a := by simpa using hb.symm
            obtain ⟨e0, he0, hp0'⟩ := hpassed 0 (Nat.le_refl _) this
            rw [ha] at he0
            have : e0 = a := by simpa using he0.symm
            subst this
            left
            refine ⟨hab, ?_⟩
            rcases hp0' with ⟨h1, _⟩ | ⟨_, h2'⟩
            · exact Or.inl h1
            · exact Or.inr h2'

theorem HofInv.ext_bound {P : Params C D} {t : Tol} {h : Heap C} {hof : List HofEntry} (hi : HofInv P t h hof) :
    ∀ e ∈ hof, ∀ r, e.circ = some r → r < h.size := by
  intro e he r hr
  exact hi.bound r (List.mem_filterMap.mpr ⟨e, he, hr⟩)

/-- `update_hof(population)`: the invariant is kept, the heap only grows, the length is kept, and every reference of
    the new hall of fame is an old one or a freshly allocated object -/
theorem updateHof_inv (P : Params C D) (t : Tol) (n : Nat) :
    ∀ (pop : List PopEntry) {h h' : Heap C} {hof hof' : List HofEntry},
      HofInv P t h hof → hof.length = n → (∀ e ∈ pop, PopHonest P h e) →
      updateHof t P.size n h hof pop = .ok (h', hof') →
      HofInv P t h' hof' ∧ Ext h h' ∧ hof'.length = n ∧
      (∀ r ∈ hofRefs hof', r ∈ hofRefs hof ∨ (h.size ≤ r ∧ r < h'.size)) := by
  intro pop
  induction pop with
  | nil =>
    intro h h' hof hof' hinv hlen _ hres
    simp only [updateHof, Except.ok.injEq, Prod.mk.injEq] at hres
    obtain ⟨rfl, rfl⟩ := hres
    exact ⟨hinv, Ext.refl _, hlen, fun r hr => Or.inl hr⟩
  | cons e rest ih =>
    intro h h' hof hof' hinv hlen hpop hres
    simp only [updateHof] at hres
    split at hres
    · simp at hres
    · next h1 hof1 hone =>
      obtain ⟨hinv1, hext1, hlen1, hrefs1, _⟩ :=
        updateHofOne_inv P t n hinv hlen (hpop e List.mem_cons_self) hone
      have hpop1 : ∀ x ∈ rest, PopHonest P h1 x := fun x hx => (hpop x (List.mem_cons_of_mem _ hx)).ext hext1
      obtain ⟨hinv2, hext2, hlen2, hrefs2⟩ := ih hinv1 (hlen1.trans hlen) hpop1 hres
      refine ⟨hinv2, hext1.trans hext2, hlen2, ?_⟩
      intro r hr
      rcases hrefs2 r hr with hm | ⟨h1', h2'⟩
      · rcases hrefs1 r hm with hm' | ⟨h3, h4⟩
        · exact Or.inl hm'
        · exact Or.inr ⟨h3, Nat.lt_of_lt_of_le h4 hext2.1⟩
      · exact Or.inr ⟨Nat.le_trans hext1.1 h1', h2'⟩

end Inv

/-! ## The mutation loop of one generation -/
section Mutate
variable {C D : Type}

theorem popRefs_set_same (pop : List PopEntry) (j : Nat) (e : PopEntry) (sc : Score) (he : pop[j]? = some e) :
    popRefs (pop.set j ⟨sc, e.circ⟩) = popRefs pop := by
  unfold popRefs
  apply List.ext_getElem?
  intro i
  rw [List.map_set, List.getElem?_set]
  by_cases hij : j = i
  · subst hij
    obtain ⟨hlt, hget⟩ := List.getElem?_eq_some_iff.mp he
    simp [hlt, hget]
  · simp [hij]

/-- `mutatePhase` from slot `j`: references are kept, the heap keeps its size, only the objects of slots `≥ j` are
    touched, slots `< j` are not rewritten, and — because the population's objects are pairwise distinct — every slot
    `≥ j` ends up with the metric of its own (mutated) circuit -/
theorem mutatePhase_spec (P : Params C D) (d : Nat → D) :
    ∀ (fuel j : Nat) (h : Heap C) (pop : List PopEntry) {h' : Heap C} {pop' : List PopEntry},
      j + fuel = pop.length → (popRefs pop).Nodup → (∀ e ∈ pop, e.circ < h.size) →
      mutatePhase P d j fuel h pop = .ok (h', pop') →
      popRefs pop' = popRefs pop ∧ h'.size = h.size ∧
      (∀ r, r ∉ (popRefs pop).drop j → h'.get? r = h.get? r) ∧
      (∀ i, i < j → pop'[i]? = pop[i]?) ∧
      (∀ i e, j ≤ i → pop'[i]? = some e → PopHonest P h' e) := by
  intro fuel
  induction fuel with
  | zero =>
    intro j h pop h' pop' hlen _ _ hres
    simp only [mutatePhase, Except.ok.injEq, Prod.mk.injEq] at hres
    obtain ⟨rfl, rfl⟩ := hres
    refine ⟨rfl, rfl, fun _ _ => rfl, fun _ _ => rfl, ?_⟩
    intro i e hji hie
    have := (List.getElem?_eq_some_iff.mp hie).1
    omega
  | succ fuel ih =>
    intro j h pop h' pop' hlen hnd hb hres
    unfold mutatePhase at hres
    split at hres
    · simp at hres
    · next e he =>
      simp only at hres
      split at hres
      · simp at hres
      · next c1 hc1 =>
        have hjlt : j < pop.length := by omega
        have hrefs1 := popRefs_set_same pop j e (P.metric c1) he
        have hmem : e ∈ pop := List.mem_of_getElem? he
        have hlen1 : (j + 1) + fuel = (pop.set j ⟨P.metric c1, e.circ⟩).length := by rw [List.length_set]; omega
        have hb1 : ∀ x ∈ pop.set j ⟨P.metric c1, e.circ⟩, x.circ < (h.modify e.circ fun c => P.mutate c (d j)).size := by
          intro x hx
          rw [Heap.modify_size]
          rcases List.mem_or_eq_of_mem_set hx with hm | rfl
          · exact hb x hm
          · exact hb e hmem
        obtain ⟨g1, g2, g3, g4, g5⟩ := ih (j + 1) _ _ hlen1 (by rw [hrefs1]; exact hnd) hb1 hres
        -- the reference of slot j is not among the later slots
        have hrj : (popRefs pop)[j]? = some e.circ := by simp [popRefs, he]
        have hjl : j < (popRefs pop).length := by simp [popRefs]; exact hjlt
        have hdrop : (popRefs pop).drop j = e.circ :: (popRefs pop).drop (j + 1) := by
          rw [List.drop_eq_getElem_cons hjl]
          congr 1
          have := List.getElem?_eq_some_iff.mp hrj
          exact this.2
        have hnd' : ((popRefs pop).drop j).Nodup := List.Nodup.sublist (List.drop_sublist j _) hnd
        rw [hdrop] at hnd'
        have hnotin : e.circ ∉ (popRefs pop).drop (j + 1) := (List.nodup_cons.mp hnd').1
        refine ⟨g1.trans hrefs1, by rw [g2, Heap.modify_size], ?_, ?_, ?_⟩
        · intro r hr
          rw [hdrop] at hr
          have hr1 : r ≠ e.circ := fun heq => hr (by rw [heq]; exact List.mem_cons_self)
          have hr2 : r ∉ (popRefs pop).drop (j + 1) := fun hm => hr (List.mem_cons_of_mem _ hm)
          rw [g3 r (by rw [hrefs1]; exact hr2), Heap.modify_get?_other _ _ _ _ hr1]
        · intro i hi
          rw [g4 i (by omega), List.getElem?_set_ne (by omega)]
        · intro i x hji hix
          by_cases hij : i = j
          · subst hij
            rw [g4 i (by omega), List.getElem?_set_self hjlt] at hix
            have hx : x = ⟨P.metric c1, e.circ⟩ := by simpa using hix.symm
            subst hx
            refine ⟨c1, ?_, rfl⟩
            show h'.get? e.circ = some c1
            rw [g3 e.circ (by rw [hrefs1]; exact hnotin)]
            exact hc1
          · exact g5 i x (by omega) hix

end Mutate

/-! ## Tournament selection -/
section Tournament
variable {C D : Type}

theorem choices_spec (pop : List PopEntry) : ∀ (is : List Nat) {es : List PopEntry},
    choices pop is = .ok es → es.length = is.length ∧ ∀ e ∈ es, e ∈ pop := by
  intro is
  induction is with
  | nil => intro es h; simp [choices] at h; subst h; simp
  | cons i rest ih =>
    intro es h
    simp only [choices] at h
    split at h
    · simp at h
    · next e he =>
      split at h
      · simp at h
      · next es' hes' =>
        simp only [Except.ok.injEq] at h
        subst h
        obtain ⟨h1, h2⟩ := ih hes'
        refine ⟨by simp [h1], ?_⟩
        intro x hx
        rcases List.mem_cons.mp hx with rfl | hm
        · exact List.mem_of_getElem? he
        · exact h2 x hm

theorem foldl_min_spec (l : List PopEntry) : ∀ (b0 : PopEntry),
    let b := l.foldl (fun best x => if x.score.lt best.score then x else best) b0
    (b = b0 ∨ b ∈ l) ∧ b0.score.lt b.score = false ∧ ∀ x ∈ l, x.score.lt b.score = false := by
  induction l with
  | nil => intro b0; simp [Score.lt_irrefl]
  | cons y rest ih =>
    intro b0
    simp only [List.foldl_cons]
    by_cases hy : y.score.lt b0.score = true
    · simp only [hy, if_true]
      obtain ⟨h1, h2, h3⟩ := ih y
      refine ⟨?_, ?_, ?_⟩
      · rcases h1 with h1 | h1
        · right; rw [h1]; exact List.mem_cons_self
        · right; exact List.mem_cons_of_mem _ h1
      · -- b ≤ y < b0
        cases hb : b0.score.lt (rest.foldl (fun best x => if x.score.lt best.score then x else best) y).score
        · rfl
        · exact absurd (Score.lt_trans hy hb) (by simp [h2])
      · intro x hx
        rcases List.mem_cons.mp hx with rfl | hm
        · exact h2
        · exact h3 x hm
    · have hy' : y.score.lt b0.score = false := by simpa using hy
      simp only [hy', Bool.false_eq_true, if_false]
      obtain ⟨h1, h2, h3⟩ := ih b0
      refine ⟨?_, h2, ?_⟩
      · rcases h1 with h1 | h1
        · left; exact h1
        · right; exact List.mem_cons_of_mem _ h1
      · intro x hx
        rcases List.mem_cons.mp hx with rfl | hm
        · -- x = y, ¬ y < b0, b ≤ b0
          cases hb : x.score.lt (rest.foldl (fun best x => if x.score.lt best.score then x else best) b0).score
          · rfl
          · -- y < b and ¬ b0 < b  ⇒ y < b0, contradiction
            have hne : ¬ (rest.foldl (fun best x => if x.score.lt best.score then x else best) b0).score = b0.score := by
              intro heq; rw [heq] at hb; simp [hy'] at hb
            have := Score.lt_of_not_lt_of_ne h2 (fun heq => hne heq.symm)
            exact absurd (Score.lt_trans hb this) (by simp [hy'])
        · exact h3 x hm

/-- `min(tourn_pop, key=score)` returns a member of minimal score -/
theorem minByScore_spec {l : List PopEntry} {b : PopEntry} (h : minByScore l = some b) :
    b ∈ l ∧ ∀ x ∈ l, x.score.lt b.score = false := by
  cases l with
  | nil => simp [minByScore] at h
  | cons e rest =>
    simp only [minByScore, Option.some.injEq] at h
    obtain ⟨h1, h2, h3⟩ := foldl_min_spec rest e
    rw [h] at h1 h2 h3
    refine ⟨?_, ?_⟩
    · rcases h1 with h1 | h1
      · rw [h1]; exact List.mem_cons_self
      · exact List.mem_cons_of_mem _ h1
    · intro x hx
      rcases List.mem_cons.mp hx with rfl | hm
      · exact h2
      · exact h3 x hm

/-- the tournament loop: every selected member is a *fresh* object (reference `≥ base`), distinct from all others, its
    score is the score of a member of the old population and is honest -/
theorem tournamentLoop_spec (P : Params C D) (pop : List PopEntry) (draws : Nat → List Nat) (base : Nat) :
    ∀ (fuel i : Nat) (h : Heap C) (acc : List PopEntry) {h' : Heap C} {pop' : List PopEntry},
      (∀ e ∈ pop, PopHonest P h e) → base ≤ h.size →
      (∀ a ∈ acc, PopHonest P h a) → (popRefs acc).Nodup → (∀ r ∈ popRefs acc, base ≤ r ∧ r < h.size) →
      (∀ a ∈ acc, ∃ b ∈ pop, a.score = b.score) →
      tournamentLoop pop draws i fuel h acc = .ok (h', pop') →
      Ext h h' ∧ pop'.length = acc.length + fuel ∧ (∀ a ∈ pop', PopHonest P h' a) ∧ (popRefs pop').Nodup ∧
      (∀ r ∈ popRefs pop', base ≤ r ∧ r < h'.size) ∧ (∀ a ∈ pop', ∃ b ∈ pop, a.score = b.score) := by
  intro fuel
  induction fuel with
  | zero =>
    intro i h acc h' pop' _ _ ha hn hr hs hres
    simp only [tournamentLoop, Except.ok.injEq, Prod.mk.injEq] at hres
    obtain ⟨rfl, rfl⟩ := hres
    exact ⟨Ext.refl _, rfl, ha, hn, hr, hs⟩
  | succ fuel ih =>
    intro i h acc h' pop' hpop hbase ha hn hr hs hres
    unfold tournamentLoop at hres
    split at hres
    · simp at hres
    · next tourn htourn =>
      split at hres
      · simp at hres
      · next best hbest =>
        split at hres
        · simp at hres
        · next h1 r1 hcopy =>
          obtain ⟨hr1, hsz1, hold1, hnew1, _⟩ := Heap.copy_spec hcopy
          have hext1 : Ext h h1 := Ext.of_copy hcopy
          have hbm : best ∈ pop := (choices_spec pop _ htourn).2 best (minByScore_spec hbest).1
          have hacc1 : ∀ a ∈ acc ++ [⟨best.score, r1⟩], PopHonest P h1 a := by
            intro a hm
            rcases List.mem_append.mp hm with hm | hm
            · exact (ha a hm).ext hext1
            · have : a = ⟨best.score, r1⟩ := by simpa using hm
              subst this
              obtain ⟨c, hc, hsc⟩ := hpop best hbm
              exact ⟨c, by show h1.get? r1 = some c; rw [hnew1]; exact hc, hsc⟩
          have hn1 : (popRefs (acc ++ [⟨best.score, r1⟩])).Nodup := by
            unfold popRefs at *
            rw [List.map_append, List.nodup_append]
            refine ⟨hn, by simp, ?_⟩
            intro a ha' b hb'
            have hb'' : b = r1 := by simpa using hb'
            have := (hr a ha').2
            omega
          have hr1' : ∀ r ∈ popRefs (acc ++ [⟨best.score, r1⟩]), base ≤ r ∧ r < h1.size := by
            intro r hm
            unfold popRefs at hm
            rw [List.map_append, List.mem_append] at hm
            rcases hm with hm | hm
            · have := hr r hm; omega
            · have : r = r1 := by simpa using hm
              omega
          have hs1 : ∀ a ∈ acc ++ [⟨best.score, r1⟩], ∃ b ∈ pop, a.score = b.score := by
            intro a hm
            rcases List.mem_append.mp hm with hm | hm
            · exact hs a hm
            · have : a = ⟨best.score, r1⟩ := by simpa using hm
              subst this
              exact ⟨best, hbm, rfl⟩
          obtain ⟨g1, g2, g3, g4, g5, g6⟩ :=
            ih (i + 1) h1 _ (fun e he => (hpop e he).ext hext1) (by omega) hacc1 hn1 hr1' hs1 hres
          refine ⟨hext1.trans g1, ?_, g3, g4, g5, g6⟩
          rw [g2]; simp; omega

end Tournament

/-! ## One generation, and the whole run -/
section Generation
variable {C D : Type}

theorem HofInv.of_agree {P : Params C D} {t : Tol} {h h1 : Heap C} {hof : List HofEntry}
    (hsz : h1.size = h.size) (hag : ∀ r ∈ hofRefs hof, h1.get? r = h.get? r) (hi : HofInv P t h hof) :
    HofInv P t h1 hof := by
  refine ⟨fun r hr => by rw [hsz]; exact hi.bound r hr, hi.nodup, ?_, hi.sorted⟩
  intro e he
  have := hi.honest e he
  unfold HofEntryHonest at *
  split
  · next r hr =>
    rw [hr] at this
    rw [hag r (List.mem_filterMap.mpr ⟨e, he, hr⟩)]
    exact this
  · next hr => rw [hr] at this; exact this

theorem HofInv.ext {P : Params C D} {t : Tol} {h h1 : Heap C} {hof : List HofEntry}
    (hx : Ext h h1) (hi : HofInv P t h hof) : HofInv P t h1 hof :=
  ⟨fun r hr => Nat.lt_of_lt_of_le (hi.bound r hr) hx.1, hi.nodup, fun e he => (hi.honest e he).ext hx, hi.sorted⟩

/-- the invariant of the solver state between generations:
    * the population has `n_pop` members, the hall of fame `n_hof` entries;
    * no dangling references;
    * the population's circuit objects are pairwise distinct, the hall of fame's too, and no hall-of-fame circuit is a
      population member's object (**stores copies**);
    * every hall-of-fame score is the metric of the circuit stored with it (**honest**);
    * the hall of fame is ordered up to the isclose tolerance. -/
structure Inv (P : Params C D) (cfg : Cfg) (s : St C) : Prop where
  popLen : s.pop.length = cfg.nPop
  hofLen : s.hof.length = cfg.nHof
  popBound : ∀ e ∈ s.pop, e.circ < s.heap.size
  popNodup : (popRefs s.pop).Nodup
  disjoint : ∀ r ∈ hofRefs s.hof, r ∉ popRefs s.pop
  hof : HofInv P cfg.tol s.heap s.hof

theorem popRefs_length (pop : List PopEntry) : (popRefs pop).length = pop.length := by simp [popRefs]

theorem mem_popRefs {pop : List PopEntry} {r : Nat} : r ∈ popRefs pop ↔ ∃ e ∈ pop, e.circ = r := by
  simp [popRefs]

/-- what one generation establishes (besides keeping the invariant) -/
structure GenFacts (P : Params C D) (cfg : Cfg) (dr : Draws D) (g : Nat) (s s' : St C) : Prop where
  /-- the population as `update_hof` saw it: same objects as before, mutated in place, each with the metric of its own
      circuit as score -/
  seen : ∃ h1 pop1, mutatePhase P (dr.mutation g) 0 cfg.nPop s.heap s.pop = .ok (h1, pop1) ∧
    popRefs pop1 = popRefs s.pop ∧ (∀ e ∈ pop1, PopHonest P h1 e) ∧
    (∀ r ∈ hofRefs s.hof, h1.get? r = s.heap.get? r) ∧ HofInv P cfg.tol h1 s.hof ∧
    ∃ h2, updateHof cfg.tol P.size cfg.nHof h1 s.hof pop1 = .ok (h2, s'.hof) ∧
      (∀ r ∈ hofRefs s'.hof, r ∈ hofRefs s.hof ∨ s.heap.size ≤ r) ∧ Ext h2 s'.heap
  /-- hall-of-fame objects that are kept are not touched by the generation -/
  kept : ∀ r ∈ hofRefs s.hof, s'.heap.get? r = s.heap.get? r

theorem generation_inv (P : Params C D) (cfg : Cfg) (dr : Draws D) (g : Nat) {s s' : St C}
    (hinv : Inv P cfg s) (hres : generation P cfg dr g s = .ok s') : Inv P cfg s' ∧ GenFacts P cfg dr g s s' := by
  unfold generation at hres
  split at hres
  · simp at hres
  · next h1 pop1 hmut =>
    obtain ⟨m1, m2, m3, _, m5⟩ := mutatePhase_spec P (dr.mutation g) cfg.nPop 0 s.heap s.pop
      (by rw [hinv.popLen]; omega) hinv.popNodup hinv.popBound hmut
    have hpop1len : pop1.length = cfg.nPop := by
      rw [← popRefs_length, m1, popRefs_length, hinv.popLen]
    have hpop1honest : ∀ e ∈ pop1, PopHonest P h1 e := by
      intro e he
      obtain ⟨i, hi⟩ := List.mem_iff_getElem?.mp he
      exact m5 i e (Nat.zero_le _) hi
    have hagree : ∀ r ∈ hofRefs s.hof, h1.get? r = s.heap.get? r := by
      intro r hr
      exact m3 r (by simpa using hinv.disjoint r hr)
    have hhof1 : HofInv P cfg.tol h1 s.hof := HofInv.of_agree m2 hagree hinv.hof
    split at hres
    · simp at hres
    · next h2 hof2 hupd =>
      obtain ⟨u1, u2, u3, u4⟩ := updateHof_inv P cfg.tol cfg.nHof pop1 hhof1 hinv.hofLen hpop1honest hupd
      have hpop1bound : ∀ e ∈ pop1, e.circ < h2.size := by
        intro e he
        obtain ⟨c, hc, _⟩ := hpop1honest e he
        have := (Heap.get?_some_iff_lt h1 e.circ).mp ⟨c, hc⟩
        exact Nat.lt_of_lt_of_le this u2.1
      have hpop1h1 : ∀ r ∈ popRefs pop1, r < h1.size := by
        intro r hr
        obtain ⟨e, he, rfl⟩ := mem_popRefs.mp hr
        obtain ⟨c, hc, _⟩ := hpop1honest e he
        exact (Heap.get?_some_iff_lt h1 e.circ).mp ⟨c, hc⟩
      have hdisj2 : ∀ r ∈ hofRefs hof2, r ∉ popRefs pop1 := by
        intro r hr hm
        rcases u4 r hr with hold | ⟨hfresh, _⟩
        · exact hinv.disjoint r hold (by rw [← m1]; exact hm)
        · have := hpop1h1 r hm; omega
      have hfacts_refs : ∀ r ∈ hofRefs hof2, r ∈ hofRefs s.hof ∨ s.heap.size ≤ r := by
        intro r hr
        rcases u4 r hr with hold | ⟨hfresh, _⟩
        · exact Or.inl hold
        · exact Or.inr (by omega)
      have hkept2 : ∀ r ∈ hofRefs s.hof, h2.get? r = s.heap.get? r := by
        intro r hr
        have hlt : r < h1.size := by rw [m2]; exact hinv.hof.bound r hr
        rw [u2.2 r hlt, hagree r hr]
      simp only at hres
      split at hres
      · simp at hres
      · split at hres
        · -- selection active
          next hsel =>
          split at hres
          · simp at hres
          · next h3 pop3 htour =>
            simp only [Except.ok.injEq] at hres
            subst hres
            unfold tournamentSelection at htour
            split at htour
            · -- k = 0: the same population
              simp only [Except.ok.injEq, Prod.mk.injEq] at htour
              obtain ⟨rfl, rfl⟩ := htour
              exact ⟨⟨hpop1len, u3, hpop1bound, by rw [m1]; exact hinv.popNodup, hdisj2, u1⟩,
                ⟨⟨h1, pop1, hmut, m1, hpop1honest, hagree, hhof1, h2, hupd, hfacts_refs, Ext.refl _⟩, hkept2⟩⟩
            · obtain ⟨t1, t2, t3, t4, t5, _⟩ := tournamentLoop_spec P pop1 (dr.tournament g) h2.size cfg.nPop 0 h2 []
                (fun e he => (hpop1honest e he).ext u2) (Nat.le_refl _) (by simp) (by simp [popRefs])
                (by simp [popRefs]) (by simp) htour
              refine ⟨⟨by simpa using t2, u3, ?_, t4, ?_, u1.ext t1⟩,
                ⟨⟨h1, pop1, hmut, m1, hpop1honest, hagree, hhof1, h2, hupd, hfacts_refs, t1⟩, ?_⟩⟩
              · intro e he
                exact (t5 e.circ (mem_popRefs.mpr ⟨e, he, rfl⟩)).2
              · intro r hr hm
                have h1' := u1.bound r hr
                have h2' := (t5 r hm).1
                omega
              · intro r hr
                have hlt : r < h2.size := by
                  have : r < h1.size := by rw [m2]; exact hinv.hof.bound r hr
                  exact Nat.lt_of_lt_of_le this u2.1
                show h3.get? r = s.heap.get? r
                rw [t1.2 r hlt, hkept2 r hr]
        · simp only [Except.ok.injEq] at hres
          subst hres
          exact ⟨⟨hpop1len, u3, hpop1bound, by rw [m1]; exact hinv.popNodup, hdisj2, u1⟩,
            ⟨⟨h1, pop1, hmut, m1, hpop1honest, hagree, hhof1, h2, hupd, hfacts_refs, Ext.refl _⟩, hkept2⟩⟩

/-- any number of generations keeps the invariant -/
theorem generations_inv (P : Params C D) (cfg : Cfg) (dr : Draws D) :
    ∀ (fuel g : Nat) {s s' : St C}, Inv P cfg s → generations P cfg dr g fuel s = .ok s' → Inv P cfg s' := by
  intro fuel
  induction fuel with
  | zero => intro g s s' hinv hres; simp [generations] at hres; subst hres; exact hinv
  | succ fuel ih =>
    intro g s s' hinv hres
    simp only [generations] at hres
    split at hres
    · simp at hres
    · next s1 hs1 => exact ih (g + 1) (generation_inv P cfg dr g hinv hs1).1 hres

end Generation

/-! ## Scores on which `isclose` behaves like "equal": exact statements on classes -/

/-- On the set `S` of scores, `np.isclose` is an equivalence relation whose classes are ordered consistently with `<`.
    (True for any set of scores that is a union of clusters much narrower than the tolerance and much farther apart
    than it — e.g. the infidelities `1 - 2^-k` of stabilizer states with float noise `1e-16`.  The driver evaluates the
    hypothesis on the scores of every run, field `coherent=`.) -/
structure Coherent (t : Tol) (S : Score → Prop) : Prop where
  refl : ∀ a, S a → a.isclose t a = true
  symm : ∀ a b, S a → S b → a.isclose t b = true → b.isclose t a = true
  trans : ∀ a b c, S a → S b → S c → a.isclose t b = true → b.isclose t c = true → a.isclose t c = true
  convex : ∀ a b c, S a → S b → S c → a.isclose t b = true → b.lt c = true → b.isclose t c = false → a.lt c = true

/-- `a` is in a class not above the class of `b` -/
def ClsLe (t : Tol) (a b : Score) : Prop := a.isclose t b = true ∨ a.lt b = true

theorem Coherent.convex' {t : Tol} {S : Score → Prop} (hc : Coherent t S) {a b c : Score} (ha : S a) (hb : S b)
    (hcS : S c) (hab : a.lt b = true) (hbc : b.isclose t c = true) (hnab : a.isclose t b = false) :
    a.lt c = true := by
  cases hac : a.lt c
  · -- ¬ a < c : then c < a or c = a
    exfalso
    by_cases hca : c = a
    · subst hca
      have := hc.symm b c hb hcS hbc
      rw [this] at hnab; simp at hnab
    · have hlt : c.lt a = true := Score.lt_of_not_lt_of_ne hac (fun h => hca h.symm)
      have hcb : c.isclose t b = true := hc.symm b c hb hcS hbc
      cases hcla : c.isclose t a
      · have := hc.convex b c a hb hcS ha hbc hlt hcla
        have h2 := Score.lt_asymm hab
        rw [this] at h2; simp at h2
      · have hba := hc.trans b c a hb hcS ha hbc hcla
        have := hc.symm b a hb ha hba
        rw [this] at hnab; simp at hnab
  · rfl

theorem ClsLe.refl {t : Tol} {S : Score → Prop} (hc : Coherent t S) {a : Score} (ha : S a) : ClsLe t a a :=
  Or.inl (hc.refl a ha)

theorem ClsLe.trans {t : Tol} {S : Score → Prop} (hc : Coherent t S) {a b c : Score} (ha : S a) (hb : S b)
    (hcS : S c) (h1 : ClsLe t a b) (h2 : ClsLe t b c) : ClsLe t a c := by
  rcases h1 with h1 | h1
  · rcases h2 with h2 | h2
    · exact Or.inl (hc.trans a b c ha hb hcS h1 h2)
    · cases hbc : b.isclose t c
      · exact Or.inr (hc.convex a b c ha hb hcS h1 h2 hbc)
      · exact Or.inl (hc.trans a b c ha hb hcS h1 hbc)
  · rcases h2 with h2 | h2
    · cases hab : a.isclose t b
      · exact Or.inr (hc.convex' ha hb hcS h1 h2 hab)
      · exact Or.inl (hc.trans a b c ha hb hcS hab h2)
    · exact Or.inr (Score.lt_trans h1 h2)

theorem LeTol.clsLe {t : Tol} {S : Score → Prop} (hc : Coherent t S) {a b : Score} (ha : S a) (hb : S b)
    (h : LeTol t a b) : ClsLe t a b := by
  rcases h with h | h | h
  · by_cases hab : a = b
    · subst hab; exact ClsLe.refl hc ha
    · exact Or.inr (Score.lt_of_not_lt_of_ne h (fun e => hab e.symm))
  · exact Or.inl h
  · exact Or.inl (hc.symm b a hb ha h)

/-- with coherent scores a tolerance-sorted hall of fame is sorted by score class: entry `i` is not above entry `j`
    for all `i < j` -/
theorem sortedTol_pairwise {t : Tol} {S : Score → Prop} (hc : Coherent t S) {hof : List HofEntry}
    (hS : ∀ e ∈ hof, S e.score) (hs : SortedTol t hof) :
    ∀ (d i : Nat) (a b : HofEntry), hof[i]? = some a → hof[i + d + 1]? = some b → ClsLe t a.score b.score := by
  intro d
  induction d with
  | zero =>
    intro i a b ha hb
    exact (hs i a b ha hb).clsLe hc (hS a (List.mem_of_getElem? ha)) (hS b (List.mem_of_getElem? hb))
  | succ d ih =>
    intro i a b ha hb
    have hlt : i + d + 1 < hof.length := by
      have := (List.getElem?_eq_some_iff.mp hb).1
      omega
    have hm : hof[i + d + 1]? = some hof[i + d + 1] := List.getElem?_eq_getElem hlt
    have h1 := ih i a _ ha hm
    have h2 := (hs (i + d + 1) _ b hm hb).clsLe hc (hS _ (List.mem_of_getElem? hm)) (hS b (List.mem_of_getElem? hb))
    exact ClsLe.trans hc (hS a (List.mem_of_getElem? ha)) (hS _ (List.mem_of_getElem? hm))
      (hS b (List.mem_of_getElem? hb)) h1 h2

section Head
variable {C D : Type}

/-- processing one population member: length, provenance of the entries, and how the first entry changes
    (no invariant needed) -/
theorem updateHofOne_head (t : Tol) (size : C → Nat) (n : Nat) {h h' : Heap C} {hof hof' : List HofEntry}
    {e : PopEntry} (hlen : hof.length = n) (hres : updateHofOne t size n h hof e = .ok (h', hof')) :
    hof'.length = hof.length ∧ (∀ x ∈ hof', x ∈ hof ∨ x.score = e.score) ∧ HeadStep t hof hof' e.score := by
  unfold updateHofOne at hres
  split at hres
  · simp at hres
  · next c hc =>
    split at hres
    · simp at hres
    · next hscan =>
      simp only [Except.ok.injEq, Prod.mk.injEq] at hres
      obtain ⟨rfl, rfl⟩ := hres
      refine ⟨rfl, fun x hx => Or.inl hx, ?_⟩
      intro a b ha hb
      rw [ha] at hb
      have hab : b = a := by simpa using hb.symm
      refine Or.inl ⟨hab, ?_⟩
      have hn : 0 < n := by
        have := (List.getElem?_eq_some_iff.mp ha).1
        omega
      obtain ⟨e0, he0, hp0⟩ := scanHof_none t size h hof e.score (size c) n 0 hscan 0 (Nat.le_refl _) (by omega)
      rw [ha] at he0
      have : e0 = a := by simpa using he0.symm
      subst this
      rcases hp0 with ⟨h1, _⟩ | ⟨_, h2⟩
      · exact Or.inl h1
      · exact Or.inr h2
    · next p hscan =>
      split at hres
      · simp at hres
      · next h2 r' hcopy =>
        simp only [Except.ok.injEq, Prod.mk.injEq] at hres
        obtain ⟨rfl, rfl⟩ := hres
        obtain ⟨_, _, ⟨ep, hep, hhit⟩, hpassed⟩ := scanHof_some t size h hof e.score (size c) n 0 p hscan
        have hplt : p < hof.length := (List.getElem?_eq_some_iff.mp hep).1
        refine ⟨insertPop_length hof p _ hplt, ?_, ?_⟩
        · intro x hx
          rcases mem_insertPop (Nat.le_of_lt hplt) hx with rfl | hm
          · exact Or.inr rfl
          · exact Or.inl hm
        · intro a b ha hb
          rw [insertPop_getElem? hof p _ hplt] at hb
          by_cases hp0 : p = 0
          · subst hp0
            simp at hb
            subst hb
            rw [hep] at ha
            have : a = ep := by simpa using ha.symm
            subst this
            right
            refine ⟨rfl, ?_⟩
            rcases hhit with ⟨h1, _⟩ | ⟨_, h2'⟩
            · exact Or.inl h1
            · exact Or.inr h2'
          · have : 0 < p := by omega
            simp only [this, if_true] at hb
            rw [ha] at hb
            have hab : b = a := by simpa using hb.symm
            obtain ⟨e0, he0, hp0'⟩ := hpassed 0 (Nat.le_refl _) this
            rw [ha] at he0
            have : e0 = a := by simpa using he0.symm
            subst this
            left
            refine ⟨hab, ?_⟩
            rcases hp0' with ⟨h1, _⟩ | ⟨_, h2'⟩
            · exact Or.inl h1
            · exact Or.inr h2'

/-- `update_hof(population)` with coherent scores: the best entry does not get worse, and it is not worse than any
    member of the population just processed -/
theorem updateHof_head (t : Tol) (S : Score → Prop) (hc : Coherent t S) (size : C → Nat) (n : Nat) :
    ∀ (pop : List PopEntry) {h h' : Heap C} {hof hof' : List HofEntry},
      hof.length = n → (∀ x ∈ hof, S x.score) → (∀ e ∈ pop, S e.score) →
      updateHof t size n h hof pop = .ok (h', hof') →
      hof'.length = n ∧ (∀ x ∈ hof', S x.score) ∧
      ∀ a b, hof[0]? = some a → hof'[0]? = some b →
        ClsLe t b.score a.score ∧ ∀ e ∈ pop, ClsLe t b.score e.score := by
  intro pop
  induction pop with
  | nil =>
    intro h h' hof hof' hlen hS _ hres
    simp only [updateHof, Except.ok.injEq, Prod.mk.injEq] at hres
    obtain ⟨rfl, rfl⟩ := hres
    refine ⟨hlen, hS, ?_⟩
    intro a b ha hb
    rw [ha] at hb
    have : b = a := by simpa using hb.symm
    subst this
    exact ⟨ClsLe.refl hc (hS b (List.mem_of_getElem? ha)), by simp⟩
  | cons e rest ih =>
    intro h h' hof hof' hlen hS hSp hres
    simp only [updateHof] at hres
    split at hres
    · simp at hres
    · next h1 hof1 hone =>
      obtain ⟨l1, m1, hs1⟩ := updateHofOne_head t size n hlen hone
      have hSe : S e.score := hSp e List.mem_cons_self
      have hS1 : ∀ x ∈ hof1, S x.score := by
        intro x hx
        rcases m1 x hx with hm | hm
        · exact hS x hm
        · rw [hm]; exact hSe
      obtain ⟨l2, hS2, hh2⟩ := ih (l1.trans hlen) hS1 (fun x hx => hSp x (List.mem_cons_of_mem _ hx)) hres
      refine ⟨l2, hS2, ?_⟩
      intro a b ha hb
      have hn : 0 < hof1.length := by
        have := (List.getElem?_eq_some_iff.mp ha).1
        omega
      have hm : hof1[0]? = some hof1[0] := List.getElem?_eq_getElem hn
      obtain ⟨g1, g2⟩ := hh2 _ b hm hb
      have hSa : S a.score := hS a (List.mem_of_getElem? ha)
      have hSm : S (hof1[0]).score := hS1 _ (List.mem_of_getElem? hm)
      have hSb : S b.score := hS2 b (List.mem_of_getElem? hb)
      -- the first step
      have hstep : ClsLe t (hof1[0]).score a.score ∧ ClsLe t (hof1[0]).score e.score := by
        rcases hs1 a _ ha hm with ⟨heq, hcond⟩ | ⟨heq, hcond⟩
        · rw [heq]
          refine ⟨ClsLe.refl hc hSa, ?_⟩
          rcases hcond with hcl | hnl
          · exact Or.inl (hc.symm _ _ hSe hSa hcl)
          · by_cases hae : a.score = e.score
            · rw [hae]; exact ClsLe.refl hc hSe
            · exact Or.inr (Score.lt_of_not_lt_of_ne hnl (fun h => hae h.symm))
        · rw [heq]
          exact ⟨hcond, ClsLe.refl hc hSe⟩
      refine ⟨ClsLe.trans hc hSb hSm hSa g1 hstep.1, ?_⟩
      intro x hx
      rcases List.mem_cons.mp hx with rfl | hmem
      · exact ClsLe.trans hc hSb hSm hSe g1 hstep.2
      · exact g2 x hmem

end Head

/-! ## The initial state and the whole run -/
section Run
variable {C D : Type}

theorem initState_inv (P : Params C D) (cfg : Cfg) (tp : TransProbs) (init : List C) (hlen : init.length = cfg.nPop) :
    Inv P cfg (initState cfg tp init) := by
  refine ⟨?_, ?_, ?_, ?_, ?_, ⟨?_, ?_, ?_, ?_⟩⟩
  · simp [initState, hlen]
  · simp [initState]
  · intro e he
    simp only [initState, List.mem_map, List.mem_range] at he
    obtain ⟨j, hj, rfl⟩ := he
    simpa [Heap.size, initState] using hj
  · have : popRefs (initState cfg tp init).pop = List.range init.length := by
      simp [initState, popRefs, List.map_map, Function.comp_def]
    rw [this]; exact List.nodup_range
  · intro r hr
    simp [initState, hofRefs] at hr
  · intro r hr
    simp [initState, hofRefs] at hr
  · simp [initState, hofRefs]
  · intro e he
    simp only [initState, List.mem_replicate] at he
    obtain ⟨_, rfl⟩ := he
    simp [HofEntryHonest]
  · intro j a b ha hb
    simp only [initState, List.getElem?_replicate] at ha hb
    split at ha <;> simp at ha
    split at hb <;> simp at hb
    subst ha; subst hb
    exact Or.inl rfl

/-- the scores that can occur in a run: values of the metric, and `np.inf` -/
theorem Inv.hof_scores {P : Params C D} {cfg : Cfg} {s : St C} (hinv : Inv P cfg s) (S : Score → Prop)
    (hm : ∀ c, S (P.metric c)) (hinf : S Score.inf) : ∀ x ∈ s.hof, S x.score := by
  intro x hx
  have := hinv.hof.honest x hx
  unfold HofEntryHonest at this
  split at this
  · obtain ⟨c, _, hs⟩ := this; rw [hs]; exact hm c
  · rw [this]; exact hinf

/-- one generation with coherent scores: the best entry does not get worse and is not worse than anything evaluated in
    this generation -/
theorem generation_head (P : Params C D) (cfg : Cfg) (dr : Draws D) (g : Nat) (S : Score → Prop)
    (hc : Coherent cfg.tol S) (hm : ∀ c, S (P.metric c)) (hinf : S Score.inf) {s s' : St C}
    (hinv : Inv P cfg s) (hres : generation P cfg dr g s = .ok s') :
    ∀ a b, s.hof[0]? = some a → s'.hof[0]? = some b →
      ClsLe cfg.tol b.score a.score ∧
      ∃ h1 pop1, mutatePhase P (dr.mutation g) 0 cfg.nPop s.heap s.pop = .ok (h1, pop1) ∧
        ∀ e ∈ pop1, ClsLe cfg.tol b.score e.score := by
  intro a b ha hb
  obtain ⟨_, ⟨h1, pop1, hmut, _, hhon, _, _, h2, hupd, _, _⟩, _⟩ := generation_inv P cfg dr g hinv hres
  have hSp : ∀ e ∈ pop1, S e.score := by
    intro e he
    obtain ⟨c, _, hs⟩ := hhon e he
    rw [hs]; exact hm c
  obtain ⟨_, _, hh⟩ := updateHof_head cfg.tol S hc P.size cfg.nHof pop1 hinv.hofLen
    (hinv.hof_scores S hm hinf) hSp hupd
  obtain ⟨g1, g2⟩ := hh a b ha hb
  exact ⟨g1, h1, pop1, hmut, g2⟩

/-- over any number of generations the best score never gets worse (coherent scores) -/
theorem generations_head (P : Params C D) (cfg : Cfg) (dr : Draws D) (S : Score → Prop)
    (hc : Coherent cfg.tol S) (hm : ∀ c, S (P.metric c)) (hinf : S Score.inf) :
    ∀ (fuel g : Nat) {s s' : St C}, Inv P cfg s → generations P cfg dr g fuel s = .ok s' →
      ∀ a b, s.hof[0]? = some a → s'.hof[0]? = some b → ClsLe cfg.tol b.score a.score := by
  intro fuel
  induction fuel with
  | zero =>
    intro g s s' hinv hres a b ha hb
    simp [generations] at hres; subst hres
    rw [ha] at hb
    have : b = a := by simpa using hb.symm
    subst this
    exact ClsLe.refl hc (hinv.hof_scores S hm hinf b (List.mem_of_getElem? ha))
  | succ fuel ih =>
    intro g s s' hinv hres a b ha hb
    simp only [generations] at hres
    split at hres
    · simp at hres
    · next s1 hs1 =>
      have hinv1 := (generation_inv P cfg dr g hinv hs1).1
      have hn : 0 < s1.hof.length := by
        have := (List.getElem?_eq_some_iff.mp ha).1
        rw [hinv1.hofLen, ← hinv.hofLen]; exact this
      have hmid : s1.hof[0]? = some s1.hof[0] := List.getElem?_eq_getElem hn
      have h1 := (generation_head P cfg dr g S hc hm hinf hinv hs1 a _ ha hmid).1
      have h2 := ih (g + 1) hinv1 hres _ b hmid hb
      have hinv' := generations_inv P cfg dr fuel (g + 1) hinv1 hres
      exact ClsLe.trans hc (hinv'.hof_scores S hm hinf b (List.mem_of_getElem? hb))
        (hinv1.hof_scores S hm hinf _ (List.mem_of_getElem? hmid))
        (hinv.hof_scores S hm hinf a (List.mem_of_getElem? ha)) h2 h1

theorem solve_spec (P : Params C D) (cfg : Cfg) (dr : Draws D) (tp : TransProbs) (init : List C)
    {s : St C} {res : HofEntry} (hres : solve P cfg dr tp init = .ok (s, res)) :
    generations P cfg dr 0 cfg.nStop (initState cfg tp init) = .ok s ∧ s.hof[0]? = some res := by
  unfold solve at hres
  split at hres
  · simp at hres
  · next s1 hs1 =>
    split at hres
    · simp at hres
    · next e he =>
      simp only [Except.ok.injEq, Prod.mk.injEq] at hres
      obtain ⟨rfl, rfl⟩ := hres
      exact ⟨hs1, he⟩

end Run

/-! ## The computable coherence check implies `Coherent` -/

theorem coherent_of_coherentOn (t : Tol) (l : List Score) (h : coherentOn t l = true) :
    Coherent t (fun a => a ∈ l) := by
  unfold coherentOn at h
  rw [List.all_eq_true] at h
  refine ⟨?_, ?_, ?_, ?_⟩
  · intro a ha
    have := h a ha
    simp only [Bool.and_eq_true] at this
    exact this.1
  · intro a b ha hb hab
    have := h a ha
    simp only [Bool.and_eq_true, List.all_eq_true] at this
    have := (this.2 b hb).1
    simpa [hab] using this
  · intro a b c ha hb hc hab hbc
    have := h a ha
    simp only [Bool.and_eq_true, List.all_eq_true] at this
    have := ((this.2 b hb).2 c hc).1
    simpa [hab, hbc] using this
  · intro a b c ha hb hc hab hbc hnbc
    have := h a ha
    simp only [Bool.and_eq_true, List.all_eq_true] at this
    have := ((this.2 b hb).2 c hc).2
    simpa [hab, hbc, hnbc] using this

/-! ## The run depends only on the draws it consumes -/
section Congr
variable {C D : Type}

theorem mutatePhase_congr (P : Params C D) (d1 d2 : Nat → D) :
    ∀ (fuel j : Nat) (h : Heap C) (pop : List PopEntry),
      (∀ k, j ≤ k → k < j + fuel → d1 k = d2 k) →
      mutatePhase P d1 j fuel h pop = mutatePhase P d2 j fuel h pop := by
  intro fuel
  induction fuel with
  | zero => intro j h pop _; simp [mutatePhase]
  | succ fuel ih =>
    intro j h pop hd
    unfold mutatePhase
    split
    · rfl
    · next e he =>
      have hj : d1 j = d2 j := hd j (Nat.le_refl _) (by omega)
      simp only [hj]
      split
      · rfl
      · next c hc => exact ih (j + 1) _ _ (fun k hk1 hk2 => hd k (by omega) (by omega))

theorem tournamentLoop_congr (pop : List PopEntry) (d1 d2 : Nat → List Nat) :
    ∀ (fuel i : Nat) (h : Heap C) (acc : List PopEntry),
      (∀ k, i ≤ k → k < i + fuel → d1 k = d2 k) →
      tournamentLoop pop d1 i fuel h acc = tournamentLoop pop d2 i fuel h acc := by
  intro fuel
  induction fuel with
  | zero => intro i h acc _; simp [tournamentLoop]
  | succ fuel ih =>
    intro i h acc hd
    unfold tournamentLoop
    have hi : d1 i = d2 i := hd i (Nat.le_refl _) (by omega)
    rw [hi]
    split
    · rfl
    · split
      · rfl
      · split
        · rfl
        · exact ih (i + 1) _ _ (fun k hk1 hk2 => hd k (by omega) (by omega))

/-- two draw streams that agree on the draws a run of this configuration consumes -/
def Draws.AgreeOn (cfg : Cfg) (d1 d2 : Draws D) : Prop :=
  (∀ g j, g < cfg.nStop → j < cfg.nPop → d1.mutation g j = d2.mutation g j) ∧
  (∀ g i, g < cfg.nStop → i < cfg.nPop → d1.tournament g i = d2.tournament g i)

theorem tournamentSelection_congr (nPop k : Nat) (d1 d2 : Nat → List Nat) (hd : ∀ i, i < nPop → d1 i = d2 i)
    (h : Heap C) (pop : List PopEntry) :
    tournamentSelection nPop k h pop d1 = tournamentSelection nPop k h pop d2 := by
  unfold tournamentSelection
  split
  · rfl
  · exact tournamentLoop_congr pop d1 d2 nPop 0 h [] (fun i _ hi => hd i (by omega))

theorem generation_congr (P : Params C D) (cfg : Cfg) (d1 d2 : Draws D) (hag : Draws.AgreeOn cfg d1 d2)
    (g : Nat) (hg : g < cfg.nStop) (s : St C) : generation P cfg d1 g s = generation P cfg d2 g s := by
  unfold generation
  rw [mutatePhase_congr P (d1.mutation g) (d2.mutation g) cfg.nPop 0 s.heap s.pop
    (fun k _ hk => hag.1 g k hg (by omega))]
  have ht : ∀ (h : Heap C) (pop : List PopEntry),
      tournamentSelection cfg.nPop cfg.tournamentK h pop (d1.tournament g) =
      tournamentSelection cfg.nPop cfg.tournamentK h pop (d2.tournament g) :=
    tournamentSelection_congr cfg.nPop cfg.tournamentK _ _ (fun i hi => hag.2 g i hg hi)
  simp only [ht]

theorem generations_congr (P : Params C D) (cfg : Cfg) (d1 d2 : Draws D) (hag : Draws.AgreeOn cfg d1 d2) :
    ∀ (fuel g : Nat) (s : St C), g + fuel ≤ cfg.nStop →
      generations P cfg d1 g fuel s = generations P cfg d2 g fuel s := by
  intro fuel
  induction fuel with
  | zero => intro g s _; simp [generations]
  | succ fuel ih =>
    intro g s hg
    simp only [generations]
    rw [generation_congr P cfg d1 d2 hag g (by omega) s]
    split
    · rfl
    · exact ih (g + 1) _ (by omega)

end Congr

theorem exists_head {α : Type} (l : List α) (h : 0 < l.length) : ∃ a, l[0]? = some a :=
  ⟨l[0], List.getElem?_eq_getElem h⟩

/-! ## Unconditional facts about `update_hof`, splitting of runs -/
section Misc
variable {C D : Type}

/-- `update_hof` keeps the length and every entry of the result is an old entry or carries the score of a population
    member — for *every* heap, hall of fame and population (no invariant assumed) -/
theorem updateHof_length_mem (t : Tol) (size : C → Nat) (n : Nat) :
    ∀ (pop : List PopEntry) {h h' : Heap C} {hof hof' : List HofEntry},
      hof.length = n → updateHof t size n h hof pop = .ok (h', hof') →
      hof'.length = n ∧ ∀ x ∈ hof', x ∈ hof ∨ ∃ e ∈ pop, x.score = e.score := by
  intro pop
  induction pop with
  | nil =>
    intro h h' hof hof' hlen hres
    simp only [updateHof, Except.ok.injEq, Prod.mk.injEq] at hres
    obtain ⟨rfl, rfl⟩ := hres
    exact ⟨hlen, fun x hx => Or.inl hx⟩
  | cons e rest ih =>
    intro h h' hof hof' hlen hres
    simp only [updateHof] at hres
    split at hres
    · simp at hres
    · next h1 hof1 hone =>
      obtain ⟨l1, m1, _⟩ := updateHofOne_head t size n hlen hone
      obtain ⟨l2, m2⟩ := ih (l1.trans hlen) hres
      refine ⟨l2, ?_⟩
      intro x hx
      rcases m2 x hx with hm | ⟨e', he', hs⟩
      · rcases m1 x hm with hm' | hs
        · exact Or.inl hm'
        · exact Or.inr ⟨e, List.mem_cons_self, hs⟩
      · exact Or.inr ⟨e', List.mem_cons_of_mem _ he', hs⟩

theorem generations_split (P : Params C D) (cfg : Cfg) (dr : Draws D) :
    ∀ (a b g : Nat) {s s' : St C}, generations P cfg dr g (a + b) s = .ok s' →
      ∃ m, generations P cfg dr g a s = .ok m ∧ generations P cfg dr (g + a) b m = .ok s' := by
  intro a
  induction a with
  | zero => intro b g s s' h; exact ⟨s, by simp [generations], by simpa using h⟩
  | succ a ih =>
    intro b g s s' h
    have e : a + 1 + b = (a + b) + 1 := by omega
    rw [e] at h
    simp only [generations] at h
    split at h
    · simp at h
    · next s1 hs1 =>
      obtain ⟨m, hm1, hm2⟩ := ih b (g + 1) h
      refine ⟨m, ?_, ?_⟩
      · simp only [generations, hs1]; exact hm1
      · have : g + (a + 1) = g + 1 + a := by omega
        rw [this]; exact hm2

/-- the run is a function of the draws it consumes -/
theorem solve_congr (P : Params C D) (cfg : Cfg) (d1 d2 : Draws D) (hag : Draws.AgreeOn cfg d1 d2)
    (tp : TransProbs) (init : List C) : solve P cfg d1 tp init = solve P cfg d2 tp init := by
  unfold solve
  rw [generations_congr P cfg d1 d2 hag cfg.nStop 0 _ (by omega)]

end Misc

/-! ## Transformation probabilities stay a probability vector -/

theorem foldl_add_init (l : List Rat) (a : Rat) : l.foldl (· + ·) a = a + l.foldl (· + ·) 0 := by
  induction l generalizing a with
  | nil => simp only [List.foldl_nil]; grind
  | cons x rest ih =>
    simp only [List.foldl_cons]
    rw [ih (a + x), ih (0 + x)]
    grind

theorem sumQ_cons (x : Rat) (l : List Rat) : sumQ (x :: l) = x + sumQ l := by
  unfold sumQ
  simp only [List.foldl_cons]
  rw [foldl_add_init]
  grind

theorem sumQ_nil : sumQ [] = 0 := rfl

theorem sumQ_map_mul (l : List Rat) (c : Rat) : sumQ (l.map (· * c)) = sumQ l * c := by
  induction l with
  | nil => simp [sumQ_nil]
  | cons x rest ih => simp only [List.map_cons, sumQ_cons, ih]; grind

theorem sumQ_pos (l : List Rat) (hne : l ≠ []) (hp : ∀ x ∈ l, 0 < x) : 0 < sumQ l := by
  induction l with
  | nil => exact absurd rfl hne
  | cons x rest ih =>
    rw [sumQ_cons]
    have hx : 0 < x := hp x List.mem_cons_self
    by_cases hr : rest = []
    · subst hr; rw [sumQ_nil]; grind
    · have := ih hr (fun y hy => hp y (List.mem_cons_of_mem _ hy))
      grind

/-- a probability vector: positive entries summing to one -/
def IsDist (p : TransProbs) : Prop := (∀ kv ∈ p, 0 < kv.2) ∧ sumQ (p.map (·.2)) = 1

theorem normalize_isDist (p : TransProbs) (hne : p ≠ []) (hp : ∀ kv ∈ p, 0 < kv.2) :
    IsDist (normalizeTransProb p) ∧ (normalizeTransProb p).map (·.1) = p.map (·.1) := by
  have hpos : 0 < sumQ (p.map (·.2)) := by
    apply sumQ_pos
    · simpa using hne
    · intro x hx
      obtain ⟨kv, hkv, rfl⟩ := List.mem_map.mp hx
      exact hp kv hkv
  refine ⟨⟨?_, ?_⟩, ?_⟩
  · intro kv hkv
    unfold normalizeTransProb at hkv
    obtain ⟨kv0, h0, rfl⟩ := List.mem_map.mp hkv
    have h1 := hp kv0 h0
    have hinv : 0 < 1 / sumQ (p.map (·.2)) := by
      rw [Rat.div_def, Rat.one_mul]
      exact Rat.inv_pos.mpr hpos
    exact Rat.mul_pos h1 hinv
  · unfold normalizeTransProb
    simp only [List.map_map, Function.comp_def]
    have : (p.map fun kv => kv.2 * (1 / sumQ (p.map (·.2)))) = (p.map (·.2)).map (· * (1 / sumQ (p.map (·.2)))) := by
      simp [List.map_map, Function.comp_def]
    rw [this, sumQ_map_mul]
    have hne0 : sumQ (p.map (·.2)) ≠ 0 := by grind
    rw [Rat.div_def, Rat.one_mul]
    exact Rat.mul_inv_cancel _ hne0
  · unfold normalizeTransProb
    simp [List.map_map, Function.comp_def]

theorem update_pos (p : TransProbs) (k : TKind) (f : Rat → Rat) (hp : ∀ kv ∈ p, 0 < kv.2)
    (hf : ∀ v, 0 < v → 0 < f v) : ∀ kv ∈ p.update k f, 0 < kv.2 := by
  intro kv hkv
  unfold TransProbs.update at hkv
  obtain ⟨kv0, h0, rfl⟩ := List.mem_map.mp hkv
  split
  · exact hf _ (hp kv0 h0)
  · exact hp kv0 h0

theorem update_keys (p : TransProbs) (k : TKind) (f : Rat → Rat) : (p.update k f).map (·.1) = p.map (·.1) := by
  unfold TransProbs.update
  simp only [List.map_map, Function.comp_def]
  apply List.map_congr_left
  intro kv _
  split <;> rfl

theorem update_ne_nil (p : TransProbs) (k : TKind) (f : Rat → Rat) (hne : p ≠ []) : p.update k f ≠ [] := by
  unfold TransProbs.update
  simpa using hne

theorem maxQ_pos (a : Rat) : 0 < maxQ a (1 / 100) := by
  unfold maxQ
  split
  · decide +kernel
  · have : (0 : Rat) < 1 / 100 := by decide +kernel
    grind

theorem minQ_pos (a b : Rat) (ha : 0 < a) (hb : 0 < b) : 0 < minQ a b := by
  unfold minQ; split <;> assumption

/-- `adapt_probabilities` turns any positive table into a probability vector with the same keys in the same order
    (every `n_stop`, every number of emitters) -/
theorem adapt_isDist (nStop nEmitter : Nat) (p : TransProbs) (hne : p ≠ []) (hp : ∀ kv ∈ p, 0 < kv.2) :
    IsDist (adaptProbabilities nStop nEmitter p) ∧ (adaptProbabilities nStop nEmitter p).map (·.1) = p.map (·.1) := by
  unfold adaptProbabilities
  have hd : (0 : Rat) ≤ 1 / (nStop : Rat) := by
    rw [Rat.div_def, Rat.one_mul]
    by_cases h0 : nStop = 0
    · subst h0; decide +kernel
    · have : (0 : Rat) < (nStop : Rat) := by
        have : 0 < nStop := by omega
        exact_mod_cast this
      exact Rat.le_of_lt (Rat.inv_pos.mpr this)
  have f1 : ∀ v : Rat, 0 < v → 0 < maxQ (v - 1 / (nStop : Rat) / 3) (1 / 100) := fun v _ => maxQ_pos _
  have f3 : ∀ v : Rat, 0 < v → 0 < minQ (v + 1 / (nStop : Rat)) (99 / 100) := by
    intro v hv
    apply minQ_pos
    · grind
    · decide +kernel
  simp only
  have p1 := update_pos p .addEmitterOneQubitOp _ hp f1
  have p2 := update_pos _ .replacePhotonOneQubitOp _ p1 f1
  have p3 := update_pos _ .removeOp _ p2 f3
  have n3 : ((p.update .addEmitterOneQubitOp fun v => maxQ (v - 1 / (nStop : Rat) / 3) (1 / 100)).update
      .replacePhotonOneQubitOp fun v => maxQ (v - 1 / (nStop : Rat) / 3) (1 / 100)).update .removeOp
      (fun v => minQ (v + 1 / (nStop : Rat)) (99 / 100)) ≠ [] :=
    update_ne_nil _ _ _ (update_ne_nil _ _ _ (update_ne_nil _ _ _ hne))
  split
  · have p4 := update_pos _ .addEmitterCnot _ p3 f1
    obtain ⟨g1, g2⟩ := normalize_isDist _ (update_ne_nil _ _ _ n3) p4
    exact ⟨g1, by rw [g2, update_keys, update_keys, update_keys, update_keys]⟩
  · obtain ⟨g1, g2⟩ := normalize_isDist _ n3 p3
    exact ⟨g1, by rw [g2, update_keys, update_keys, update_keys]⟩

/-- the initial tables of both solvers and of `randomize_circuit` are probability vectors -/
theorem init_tables_isDist (nEmitter : Nat) :
    IsDist (initTransProbsEvo nEmitter) ∧ IsDist (initTransProbsHybrid nEmitter) ∧ IsDist (randomizeTransProbs nEmitter) := by
  refine ⟨?_, ?_, ?_⟩
  · unfold initTransProbsEvo
    apply (normalize_isDist _ (by simp) _).1
    intro kv hkv
    split at hkv <;> simp at hkv <;> rcases hkv with rfl | rfl | rfl | rfl <;> decide +kernel
  · unfold initTransProbsHybrid
    apply (normalize_isDist _ (by simp) _).1
    intro kv hkv
    split at hkv <;> simp at hkv <;> rcases hkv with rfl | rfl | rfl | rfl | rfl <;> decide +kernel
  · unfold randomizeTransProbs
    apply (normalize_isDist _ (by simp) _).1
    intro kv hkv
    split at hkv <;> simp at hkv <;> rcases hkv with rfl | rfl | rfl | rfl <;> decide +kernel

/-- the counting loop of `choiceIndex`: at most one per entry, and the last cumulative sum is not counted when it
    exceeds `u` -/
theorem choiceIndex_go_lt (total u : Rat) : ∀ (l : List Rat) (acc : Rat) (cnt : Nat), l ≠ [] →
    ¬ ((acc + sumQ l) / total ≤ u) → choiceIndex.go u total acc cnt l < cnt + l.length := by
  intro l
  induction l with
  | nil => intro acc cnt h; exact absurd rfl h
  | cons x rest ih =>
    intro acc cnt _ hlast
    unfold choiceIndex.go
    simp only
    by_cases hr : rest = []
    · subst hr
      rw [sumQ_cons, sumQ_nil] at hlast
      have e : acc + (x + 0) = acc + x := by grind
      rw [e] at hlast
      simp only [hlast, if_false, choiceIndex.go, List.length_cons, List.length_nil]
      omega
    · have hlast' : ¬ ((acc + x + sumQ rest) / total ≤ u) := by
        rw [sumQ_cons] at hlast
        have e : acc + (x + sumQ rest) = acc + x + sumQ rest := by grind
        rw [e] at hlast; exact hlast
      simp only [List.length_cons]
      by_cases hc : (acc + x) / total ≤ u
      · simp only [hc, if_true]
        have := ih (acc + x) (cnt + 1) hr hlast'
        omega
      · simp only [hc, if_false]
        have := ih (acc + x) cnt hr hlast'
        omega

/-- `np.random.choice(len(p), p=p)` returns a valid index: for a non-empty weight list with positive total and a
    uniform draw `u < 1`, `choiceIndex p u < len(p)` -/
theorem choiceIndex_lt (p : List Rat) (u : Rat) (hne : p ≠ []) (hpos : 0 < sumQ p) (hu : u < 1) :
    choiceIndex p u < p.length := by
  unfold choiceIndex
  have h := choiceIndex_go_lt (sumQ p) u p 0 0 hne (by
    have e : (0 : Rat) + sumQ p = sumQ p := by grind
    rw [e, Rat.div_def, Rat.mul_inv_cancel _ (by grind)]
    grind)
  simpa using h


section ProbRun
variable {C D : Type}

theorem IsDist.ne_nil {p : TransProbs} (h : IsDist p) : p ≠ [] := by
  intro hp
  subst hp
  have := h.2
  simp [sumQ_nil] at this

theorem generation_transProbs (P : Params C D) (cfg : Cfg) (dr : Draws D) (g : Nat) {s s' : St C}
    (hres : generation P cfg dr g s = .ok s') :
    s'.transProbs = if cfg.useAdaptProbability then adaptProbabilities cfg.nStop cfg.nEmitter s.transProbs
      else s.transProbs := by
  unfold generation at hres
  split at hres
  · simp at hres
  · split at hres
    · simp at hres
    · simp only at hres
      split at hres
      · simp at hres
      · split at hres
        · split at hres
          · simp at hres
          · simp only [Except.ok.injEq] at hres
            subst hres; rfl
        · simp only [Except.ok.injEq] at hres
          subst hres; rfl

/-- the transformation probabilities handed to `np.random.choice` are a probability vector with the same keys in the
    same order in every generation of every run -/
theorem generations_transProbs (P : Params C D) (cfg : Cfg) (dr : Draws D) :
    ∀ (fuel g : Nat) {s s' : St C}, IsDist s.transProbs → generations P cfg dr g fuel s = .ok s' →
      IsDist s'.transProbs ∧ s'.transProbs.map (·.1) = s.transProbs.map (·.1) := by
  intro fuel
  induction fuel with
  | zero => intro g s s' hd hres; simp [generations] at hres; subst hres; exact ⟨hd, rfl⟩
  | succ fuel ih =>
    intro g s s' hd hres
    simp only [generations] at hres
    split at hres
    · simp at hres
    · next s1 hs1 =>
      have h1 := generation_transProbs P cfg dr g hs1
      have hd1 : IsDist s1.transProbs ∧ s1.transProbs.map (·.1) = s.transProbs.map (·.1) := by
        rw [h1]
        split
        · exact adapt_isDist cfg.nStop cfg.nEmitter s.transProbs hd.ne_nil hd.1
        · exact ⟨hd, rfl⟩
      obtain ⟨g1, g2⟩ := ih (g + 1) hd1.1 hres
      exact ⟨g1, g2.trans hd1.2⟩

end ProbRun

section Keep
variable {C D : Type}

/-- processing one member keeps the tolerance order (needs nothing about the heap) -/
theorem updateHofOne_sorted (t : Tol) (size : C → Nat) (n : Nat) {h h' : Heap C} {hof hof' : List HofEntry}
    {e : PopEntry} (hs : SortedTol t hof) (hres : updateHofOne t size n h hof e = .ok (h', hof')) :
    SortedTol t hof' := by
  unfold updateHofOne at hres
  split at hres
  · simp at hres
  · next c hc =>
    split at hres
    · simp at hres
    · simp only [Except.ok.injEq, Prod.mk.injEq] at hres
      obtain ⟨rfl, rfl⟩ := hres
      exact hs
    · next p hscan =>
      split at hres
      · simp at hres
      · next h2 r' hcopy =>
        simp only [Except.ok.injEq, Prod.mk.injEq] at hres
        obtain ⟨rfl, rfl⟩ := hres
        obtain ⟨_, _, ⟨ep, hep, hhit⟩, hpassed⟩ := scanHof_some t size h hof e.score (size c) n 0 p hscan
        have hplt : p < hof.length := (List.getElem?_eq_some_iff.mp hep).1
        apply sortedTol_insertPop t hof p _ hplt hs
        · intro e1 he1
          rw [hep] at he1
          have : e1 = ep := by simpa using he1.symm
          subst this
          exact hhit.leTol
        · intro k e1 hk he1
          obtain ⟨e2, he2, hp2'⟩ := hpassed k (Nat.zero_le _) (by omega)
          rw [he1] at he2
          have : e2 = e1 := by simpa using he2.symm
          subst this
          exact hp2'.leTol

/-- a score is *kept*: an entry carries it, or the last (worst) entry is not above it -/
def Kept (t : Tol) (hof : List HofEntry) (s : Score) : Prop :=
  (∃ x ∈ hof, x.score = s) ∨ ∃ l, hof[hof.length - 1]? = some l ∧ ClsLe t l.score s

theorem updateHofOne_kept (t : Tol) (S : Score → Prop) (hc : Coherent t S) (size : C → Nat) (n : Nat)
    {h h' : Heap C} {hof hof' : List HofEntry} {e : PopEntry} (hlen : hof.length = n) (hn : 0 < n)
    (hS : ∀ x ∈ hof, S x.score) (hSe : S e.score) (hs : SortedTol t hof)
    (hres : updateHofOne t size n h hof e = .ok (h', hof')) :
    Kept t hof' e.score ∧ ∀ s, S s → Kept t hof s → Kept t hof' s := by
  unfold updateHofOne at hres
  split at hres
  · simp at hres
  · next c hc' =>
    split at hres
    · simp at hres
    · next hscan =>
      simp only [Except.ok.injEq, Prod.mk.injEq] at hres
      obtain ⟨rfl, rfl⟩ := hres
      refine ⟨?_, fun s _ hk => hk⟩
      obtain ⟨l, hl, hp⟩ := scanHof_none t size h hof e.score (size c) n 0 hscan (n - 1) (Nat.zero_le _) (by omega)
      right
      refine ⟨l, by rw [hlen]; exact hl, ?_⟩
      have hSl : S l.score := hS l (List.mem_of_getElem? hl)
      rcases hp with ⟨h1, _⟩ | ⟨_, h2⟩
      · exact Or.inl (hc.symm _ _ hSe hSl h1)
      · by_cases hle : l.score = e.score
        · rw [hle]; exact ClsLe.refl hc hSe
        · exact Or.inr (Score.lt_of_not_lt_of_ne h2 (fun h => hle h.symm))
    · next p hscan =>
      split at hres
      · simp at hres
      · next h2 r' hcopy =>
        simp only [Except.ok.injEq, Prod.mk.injEq] at hres
        obtain ⟨rfl, rfl⟩ := hres
        obtain ⟨_, _, ⟨ep, hep, hhit⟩, _⟩ := scanHof_some t size h hof e.score (size c) n 0 p hscan
        have hplt : p < hof.length := (List.getElem?_eq_some_iff.mp hep).1
        have hlen' : (insertPop hof p ⟨e.score, some r'⟩).length = hof.length := insertPop_length hof p _ hplt
        have hget := insertPop_getElem? hof p ⟨e.score, some r'⟩ hplt
        -- the new entry is present
        have hpres : (⟨e.score, some r'⟩ : HofEntry) ∈ insertPop hof p ⟨e.score, some r'⟩ := by
          apply List.mem_of_getElem? (i := p)
          rw [hget]; simp
        refine ⟨Or.inl ⟨_, hpres, rfl⟩, ?_⟩
        -- the old last entry and the new last entry
        have hlast_old : hof[n - 1]? = some hof[n - 1] := List.getElem?_eq_getElem (by omega)
        have hSlast : S (hof[n - 1]).score := hS _ (List.mem_of_getElem? hlast_old)
        -- new last is not above old last
        have hnewlast : ∃ l', (insertPop hof p ⟨e.score, some r'⟩)[n - 1]? = some l' ∧ S l'.score ∧
            ClsLe t l'.score (hof[n - 1]).score := by
          rw [hget]
          by_cases hp1 : p = n - 1
          · subst hp1
            simp only [Nat.lt_irrefl, if_false, if_true]
            refine ⟨_, rfl, hSe, ?_⟩
            rw [hlast_old] at hep
            have : ep = hof[n - 1] := by simpa using hep.symm
            subst this
            rcases hhit with ⟨h1, _⟩ | ⟨_, h2'⟩
            · exact Or.inl h1
            · exact Or.inr h2'
          · have h1 : ¬ n - 1 < p := by omega
            have h2' : ¬ n - 1 = p := by omega
            have h3 : n - 1 < hof.length := by omega
            simp only [h1, h2', h3, if_false, if_true]
            have hm : hof[n - 1 - 1]? = some hof[n - 1 - 1] := List.getElem?_eq_getElem (by omega)
            refine ⟨_, hm, hS _ (List.mem_of_getElem? hm), ?_⟩
            have hadj : hof[n - 1 - 1 + 1]? = some hof[n - 1] := by
              have : n - 1 - 1 + 1 = n - 1 := by omega
              rw [this]; exact hlast_old
            exact (hs (n - 1 - 1) _ _ hm hadj).clsLe hc (hS _ (List.mem_of_getElem? hm)) hSlast
        obtain ⟨l', hl', hSl', hle'⟩ := hnewlast
        intro s hSs hk
        rcases hk with ⟨x, hx, hxs⟩ | ⟨l, hl, hls⟩
        · -- x was present at some index i
          obtain ⟨i, hi⟩ := List.mem_iff_getElem?.mp hx
          have hilt : i < hof.length := (List.getElem?_eq_some_iff.mp hi).1
          by_cases hip : i < p
          · left
            refine ⟨x, ?_, hxs⟩
            apply List.mem_of_getElem? (i := i)
            rw [hget]; simp [hip, hi]
          · by_cases hin : i + 1 < hof.length
            · left
              refine ⟨x, ?_, hxs⟩
              apply List.mem_of_getElem? (i := i + 1)
              rw [hget]
              have e1 : ¬ i + 1 < p := by omega
              have e2 : ¬ i + 1 = p := by omega
              simp [e1, e2, hin, hi]
            · -- x was the last entry and is popped
              have hi1 : i = n - 1 := by omega
              subst hi1
              rw [hlast_old] at hi
              have : x = hof[n - 1] := by simpa using hi.symm
              right
              refine ⟨l', by rw [hlen', hlen]; exact hl', ?_⟩
              rw [← hxs, this]; exact hle'
        · right
          refine ⟨l', by rw [hlen', hlen]; exact hl', ?_⟩
          rw [hlen, hlast_old] at hl
          have : l = hof[n - 1] := by simpa using hl.symm
          subst this
          exact ClsLe.trans hc hSl' hSlast hSs hle' hls

/-- **The hall of fame keeps the best.**  After `update_hof(population)` with coherent scores, every population member's
    score is carried by an entry, or the last (worst) entry is not above it: nothing strictly better than the worst
    entry is ever dropped.  The same holds for every score that was kept before. -/
theorem updateHof_kept (t : Tol) (S : Score → Prop) (hc : Coherent t S) (size : C → Nat) (n : Nat) (hn : 0 < n) :
    ∀ (pop : List PopEntry) {h h' : Heap C} {hof hof' : List HofEntry},
      hof.length = n → (∀ x ∈ hof, S x.score) → (∀ e ∈ pop, S e.score) → SortedTol t hof →
      updateHof t size n h hof pop = .ok (h', hof') →
      (∀ e ∈ pop, Kept t hof' e.score) ∧ ∀ s, S s → Kept t hof s → Kept t hof' s := by
  intro pop
  induction pop with
  | nil =>
    intro h h' hof hof' _ _ _ _ hres
    simp only [updateHof, Except.ok.injEq, Prod.mk.injEq] at hres
    obtain ⟨rfl, rfl⟩ := hres
    exact ⟨by simp, fun s _ hk => hk⟩
  | cons e rest ih =>
    intro h h' hof hof' hlen hS hSp hs hres
    simp only [updateHof] at hres
    split at hres
    · simp at hres
    · next h1 hof1 hone =>
      have hSe : S e.score := hSp e List.mem_cons_self
      obtain ⟨l1, m1, _⟩ := updateHofOne_head t size n hlen hone
      have hS1 : ∀ x ∈ hof1, S x.score := by
        intro x hx
        rcases m1 x hx with hm | hm
        · exact hS x hm
        · rw [hm]; exact hSe
      obtain ⟨k1, k2⟩ := updateHofOne_kept t S hc size n hlen hn hS hSe hs hone
      obtain ⟨g1, g2⟩ := ih (l1.trans hlen) hS1 (fun x hx => hSp x (List.mem_cons_of_mem _ hx))
        (updateHofOne_sorted t size n hs hone) hres
      refine ⟨?_, fun s hSs hk => g2 s hSs (k2 s hSs hk)⟩
      intro x hx
      rcases List.mem_cons.mp hx with rfl | hm
      · exact g2 _ hSe k1
      · exact g1 x hm

end Keep

section SizeTie
variable {C D : Type}

/-- neighbours with isclose scores are ordered by node count -/
def SizeTie (t : Tol) (size : C → Nat) (h : Heap C) (hof : List HofEntry) : Prop :=
  ∀ j a b ra rb ca cb, hof[j]? = some a → hof[j + 1]? = some b → a.score.isclose t b.score = true →
    a.circ = some ra → b.circ = some rb → h.get? ra = some ca → h.get? rb = some cb → size ca ≤ size cb

theorem SizeTie.of_agree {t : Tol} {size : C → Nat} {h h1 : Heap C} {hof : List HofEntry}
    (hag : ∀ r ∈ hofRefs hof, h1.get? r = h.get? r) (hs : SizeTie t size h hof) : SizeTie t size h1 hof := by
  intro j a b ra rb ca cb ha hb hcl hra hrb hca hcb
  have h1' := hag ra (List.mem_filterMap.mpr ⟨a, List.mem_of_getElem? ha, hra⟩)
  have h2' := hag rb (List.mem_filterMap.mpr ⟨b, List.mem_of_getElem? hb, hrb⟩)
  exact hs j a b ra rb ca cb ha hb hcl hra hrb (by rw [← h1']; exact hca) (by rw [← h2']; exact hcb)

theorem updateHofOne_sizeTie (t : Tol) (S : Score → Prop) (hc : Coherent t S) (size : C → Nat) (n : Nat)
    {h h' : Heap C} {hof hof' : List HofEntry} {e : PopEntry}
    (hS : ∀ x ∈ hof, S x.score) (hSe : S e.score) (hb : ∀ r ∈ hofRefs hof, r < h.size)
    (hst : SizeTie t size h hof) (hres : updateHofOne t size n h hof e = .ok (h', hof')) :
    SizeTie t size h' hof' := by
  unfold updateHofOne at hres
  split at hres
  · simp at hres
  · next c hc' =>
    split at hres
    · simp at hres
    · simp only [Except.ok.injEq, Prod.mk.injEq] at hres
      obtain ⟨rfl, rfl⟩ := hres
      exact hst
    · next p hscan =>
      split at hres
      · simp at hres
      · next h2 r' hcopy =>
        simp only [Except.ok.injEq, Prod.mk.injEq] at hres
        obtain ⟨rfl, rfl⟩ := hres
        obtain ⟨_, _, ⟨ep, hep, hhit⟩, hpassed⟩ := scanHof_some t size h hof e.score (size c) n 0 p hscan
        have hplt : p < hof.length := (List.getElem?_eq_some_iff.mp hep).1
        obtain ⟨hr', hsz, hold, hnew, _⟩ := Heap.copy_spec hcopy
        have hget := insertPop_getElem? hof p ⟨e.score, some r'⟩ hplt
        -- an old entry's object is old
        have oldref : ∀ (x : HofEntry) (i : Nat) (r : Nat) (cx : C), hof[i]? = some x → x.circ = some r →
            h2.get? r = some cx → h.get? r = some cx := by
          intro x i r cx hx hr hcx
          have := hb r (List.mem_filterMap.mpr ⟨x, List.mem_of_getElem? hx, hr⟩)
          rw [← hold r this]; exact hcx
        have newcell : h2.get? r' = some c := by rw [hnew]; exact hc'
        intro j a b ra rb ca cb ha hb' hcl hra hrb hca hcb
        rw [hget] at ha hb'
        by_cases h1 : j + 1 < p
        · have hj : j < p := by omega
          simp only [hj, h1, if_true] at ha hb'
          exact hst j a b ra rb ca cb ha hb' hcl hra hrb (oldref a j ra ca ha hra hca) (oldref b (j + 1) rb cb hb' hrb hcb)
        · by_cases h2' : j + 1 = p
          · have hj : j < p := by omega
            have hne : ¬ j + 1 < p := by omega
            simp only [hj, hne, h2', if_true, if_false] at ha hb'
            have hbx : b = ⟨e.score, some r'⟩ := by simpa using hb'.symm
            subst hbx
            simp only [Option.some.injEq] at hrb
            subst hrb
            rw [newcell] at hcb
            have : cb = c := by simpa using hcb.symm
            subst this
            obtain ⟨e2, he2, hp2⟩ := hpassed j (Nat.zero_le _) (by omega)
            rw [ha] at he2
            have : e2 = a := by simpa using he2.symm
            subst this
            rcases hp2 with ⟨_, r0, hc0, hr0, hg0, hnlt⟩ | ⟨hncl, _⟩
            · rw [hra] at hr0
              have : r0 = ra := by simpa using hr0.symm
              subst this
              have := oldref e2 j r0 ca ha hra hca
              rw [hg0] at this
              have : hc0 = ca := by simpa using this
              subst this
              omega
            · have := hc.symm _ _ (hS e2 (List.mem_of_getElem? ha)) hSe hcl
              rw [this] at hncl; simp at hncl
          · by_cases h3 : j = p
            · subst h3
              have e1 : ¬ j < j := by omega
              have e2 : ¬ j + 1 < j := by omega
              have e3 : ¬ j + 1 = j := by omega
              simp only [e1, e2, e3, if_true, if_false] at ha hb'
              have hax : a = ⟨e.score, some r'⟩ := by simpa using ha.symm
              subst hax
              simp only [Option.some.injEq] at hra
              subst hra
              rw [newcell] at hca
              have : ca = c := by simpa using hca.symm
              subst this
              split at hb'
              · simp only [Nat.add_sub_cancel] at hb'
                rw [hep] at hb'
                have : b = ep := by simpa using hb'.symm
                subst this
                rcases hhit with ⟨_, r0, hc0, hr0, hg0, hlt⟩ | ⟨hncl, _⟩
                · rw [hrb] at hr0
                  have : r0 = rb := by simpa using hr0.symm
                  subst this
                  have := oldref b j r0 cb hep hrb hcb
                  rw [hg0] at this
                  have : hc0 = cb := by simpa using this
                  subst this
                  omega
                · simp only at hcl
                  rw [hcl] at hncl; simp at hncl
              · simp at hb'
            · have e1 : ¬ j < p := by omega
              have e2 : ¬ j + 1 < p := by omega
              have e3 : ¬ j + 1 = p := by omega
              simp only [e1, e2, e3, h3, if_false] at ha hb'
              split at ha
              · split at hb'
                · have hidx : j - 1 + 1 = j + 1 - 1 := by omega
                  have hb'' : hof[j - 1 + 1]? = some b := by rw [hidx]; exact hb'
                  exact hst (j - 1) a b ra rb ca cb ha hb'' hcl hra hrb
                    (oldref a (j - 1) ra ca ha hra hca) (oldref b (j - 1 + 1) rb cb hb'' hrb hcb)
                · simp at hb'
              · simp at ha

end SizeTie

section KeepRun
variable {C D : Type}

/-- `update_hof(population)` keeps the node-count order inside isclose classes (coherent scores) -/
theorem updateHof_sizeTie (P : Params C D) (t : Tol) (S : Score → Prop) (hc : Coherent t S) (n : Nat) :
    ∀ (pop : List PopEntry) {h h' : Heap C} {hof hof' : List HofEntry},
      HofInv P t h hof → hof.length = n → (∀ e ∈ pop, PopHonest P h e) →
      (∀ x ∈ hof, S x.score) → (∀ e ∈ pop, S e.score) → SizeTie t P.size h hof →
      updateHof t P.size n h hof pop = .ok (h', hof') → SizeTie t P.size h' hof' := by
  intro pop
  induction pop with
  | nil =>
    intro h h' hof hof' _ _ _ _ _ hst hres
    simp only [updateHof, Except.ok.injEq, Prod.mk.injEq] at hres
    obtain ⟨rfl, rfl⟩ := hres
    exact hst
  | cons e rest ih =>
    intro h h' hof hof' hinv hlen hpop hS hSp hst hres
    simp only [updateHof] at hres
    split at hres
    · simp at hres
    · next h1 hof1 hone =>
      have hSe : S e.score := hSp e List.mem_cons_self
      obtain ⟨hinv1, hext1, hlen1, _, _⟩ := updateHofOne_inv P t n hinv hlen (hpop e List.mem_cons_self) hone
      obtain ⟨_, m1, _⟩ := updateHofOne_head t P.size n hlen hone
      have hS1 : ∀ x ∈ hof1, S x.score := by
        intro x hx
        rcases m1 x hx with hm | hm
        · exact hS x hm
        · rw [hm]; exact hSe
      have hst1 := updateHofOne_sizeTie t S hc P.size n hS hSe hinv.bound hst hone
      exact ih hinv1 (hlen1.trans hlen) (fun x hx => (hpop x (List.mem_cons_of_mem _ hx)).ext hext1) hS1
        (fun x hx => hSp x (List.mem_cons_of_mem _ hx)) hst1 hres

theorem SizeTie.ext {t : Tol} {size : C → Nat} {h h1 : Heap C} {hof : List HofEntry} (hx : Ext h h1)
    (hb : ∀ r ∈ hofRefs hof, r < h.size) (hs : SizeTie t size h hof) : SizeTie t size h1 hof :=
  SizeTie.of_agree (fun r hr => hx.2 r (hb r hr)) hs

/-- one generation keeps the node-count order inside isclose classes -/
theorem generation_sizeTie (P : Params C D) (cfg : Cfg) (dr : Draws D) (g : Nat) (S : Score → Prop)
    (hc : Coherent cfg.tol S) (hm : ∀ c, S (P.metric c)) (hinf : S Score.inf) {s s' : St C}
    (hinv : Inv P cfg s) (hst : SizeTie cfg.tol P.size s.heap s.hof) (hres : generation P cfg dr g s = .ok s') :
    SizeTie cfg.tol P.size s'.heap s'.hof := by
  obtain ⟨hinv', ⟨h1, pop1, _, _, hhon, hag, hhof1, h2, hupd, _, hext⟩, _⟩ := generation_inv P cfg dr g hinv hres
  have hSp : ∀ e ∈ pop1, S e.score := by
    intro e he
    obtain ⟨c, _, hs⟩ := hhon e he
    rw [hs]; exact hm c
  have hst1 : SizeTie cfg.tol P.size h1 s.hof := SizeTie.of_agree hag hst
  have hst2 := updateHof_sizeTie P cfg.tol S hc cfg.nHof pop1 hhof1 hinv.hofLen hhon
    (hinv.hof_scores S hm hinf) hSp hst1 hupd
  have hinv2 := (updateHof_inv P cfg.tol cfg.nHof pop1 hhof1 hinv.hofLen hhon hupd).1
  exact SizeTie.ext hext hinv2.bound hst2

theorem generations_sizeTie (P : Params C D) (cfg : Cfg) (dr : Draws D) (S : Score → Prop)
    (hc : Coherent cfg.tol S) (hm : ∀ c, S (P.metric c)) (hinf : S Score.inf) :
    ∀ (fuel g : Nat) {s s' : St C}, Inv P cfg s → SizeTie cfg.tol P.size s.heap s.hof →
      generations P cfg dr g fuel s = .ok s' → SizeTie cfg.tol P.size s'.heap s'.hof := by
  intro fuel
  induction fuel with
  | zero => intro g s s' _ hst hres; simp [generations] at hres; subst hres; exact hst
  | succ fuel ih =>
    intro g s s' hinv hst hres
    simp only [generations] at hres
    split at hres
    · simp at hres
    · next s1 hs1 =>
      exact ih (g + 1) (generation_inv P cfg dr g hinv hs1).1
        (generation_sizeTie P cfg dr g S hc hm hinf hinv hst hs1) hres

theorem initState_sizeTie (P : Params C D) (cfg : Cfg) (tp : TransProbs) (init : List C) :
    SizeTie cfg.tol P.size (initState cfg tp init).heap (initState cfg tp init).hof := by
  intro j a b ra rb ca cb ha _ _ hra _ _ _
  simp only [initState, List.getElem?_replicate] at ha
  split at ha <;> simp at ha
  subst ha
  simp at hra

/-- one generation keeps every previously kept score and keeps every score it evaluates (coherent scores) -/
theorem generation_kept (P : Params C D) (cfg : Cfg) (dr : Draws D) (g : Nat) (S : Score → Prop)
    (hc : Coherent cfg.tol S) (hm : ∀ c, S (P.metric c)) (hinf : S Score.inf) (hn : 0 < cfg.nHof) {s s' : St C}
    (hinv : Inv P cfg s) (hres : generation P cfg dr g s = .ok s') :
    (∃ h1 pop1, mutatePhase P (dr.mutation g) 0 cfg.nPop s.heap s.pop = .ok (h1, pop1) ∧
      ∀ e ∈ pop1, Kept cfg.tol s'.hof e.score) ∧
    ∀ sc, S sc → Kept cfg.tol s.hof sc → Kept cfg.tol s'.hof sc := by
  obtain ⟨_, ⟨h1, pop1, hmut, _, hhon, _, _, h2, hupd, _, _⟩, _⟩ := generation_inv P cfg dr g hinv hres
  have hSp : ∀ e ∈ pop1, S e.score := by
    intro e he
    obtain ⟨c, _, hs⟩ := hhon e he
    rw [hs]; exact hm c
  obtain ⟨k1, k2⟩ := updateHof_kept cfg.tol S hc P.size cfg.nHof hn pop1 hinv.hofLen
    (hinv.hof_scores S hm hinf) hSp hinv.hof.sorted hupd
  exact ⟨⟨h1, pop1, hmut, k1⟩, k2⟩

theorem generations_kept (P : Params C D) (cfg : Cfg) (dr : Draws D) (S : Score → Prop)
    (hc : Coherent cfg.tol S) (hm : ∀ c, S (P.metric c)) (hinf : S Score.inf) (hn : 0 < cfg.nHof) :
    ∀ (fuel g : Nat) {s s' : St C}, Inv P cfg s → generations P cfg dr g fuel s = .ok s' →
      ∀ sc, S sc → Kept cfg.tol s.hof sc → Kept cfg.tol s'.hof sc := by
  intro fuel
  induction fuel with
  | zero => intro g s s' _ hres sc _ hk; simp [generations] at hres; subst hres; exact hk
  | succ fuel ih =>
    intro g s s' hinv hres sc hSs hk
    simp only [generations] at hres
    split at hres
    · simp at hres
    · next s1 hs1 =>
      exact ih (g + 1) (generation_inv P cfg dr g hinv hs1).1 hres sc hSs
        ((generation_kept P cfg dr g S hc hm hinf hn hinv hs1).2 sc hSs hk)

end KeepRun

/-! ## The tournament winner is the first minimum -/

theorem Score.lt_of_lt_of_not_lt {a b c : Score} (h1 : a.lt b = true) (h2 : c.lt b = false) : a.lt c = true := by
  cases a <;> cases b <;> cases c <;> simp_all [Score.lt]
  grind

theorem foldl_min_first (l : List PopEntry) : ∀ (b0 : PopEntry),
    let b := l.foldl (fun best x => if x.score.lt best.score then x else best) b0
    (b = b0 ∧ ∀ x ∈ l, x.score.lt b0.score = false) ∨
    (∃ i : Nat, l[i]? = some b ∧ b.score.lt b0.score = true ∧ ∀ (j : Nat) (x : PopEntry), j < i → l[j]? = some x → b.score.lt x.score = true) := by
  induction l with
  | nil => intro b0; simp
  | cons y rest ih =>
    intro b0
    simp only [List.foldl_cons]
    by_cases hy : y.score.lt b0.score = true
    · simp only [hy, if_true]
      rcases ih y with ⟨h1, h2⟩ | ⟨i, h1, h2, h3⟩
      · right
        refine ⟨0, by simp [h1], by rw [h1]; exact hy, by intro j x hj; omega⟩
      · right
        refine ⟨i + 1, by simpa using h1, Score.lt_trans h2 hy, ?_⟩
        intro j x hj hx
        cases j with
        | zero => simp at hx; subst hx; exact h2
        | succ j' => simp at hx; exact h3 j' x (by omega) hx
    · have hy' : y.score.lt b0.score = false := by simpa using hy
      simp only [hy', Bool.false_eq_true, if_false]
      rcases ih b0 with ⟨h1, h2⟩ | ⟨i, h1, h2, h3⟩
      · left
        refine ⟨h1, ?_⟩
        intro x hx
        rcases List.mem_cons.mp hx with rfl | hm
        · exact hy'
        · exact h2 x hm
      · right
        refine ⟨i + 1, by simpa using h1, h2, ?_⟩
        intro j x hj hx
        cases j with
        | zero => simp at hx; subst hx; exact Score.lt_of_lt_of_not_lt h2 hy'
        | succ j' => simp at hx; exact h3 j' x (by omega) hx

/-- `min(tourn_pop, key=score)` returns the **first** member of minimal score: everything before it is strictly worse,
    nothing after it is strictly better -/
theorem minByScore_first {l : List PopEntry} {b : PopEntry} (h : minByScore l = some b) :
    ∃ i : Nat, l[i]? = some b ∧ (∀ (j : Nat) (x : PopEntry), j < i → l[j]? = some x → b.score.lt x.score = true) ∧
      ∀ x ∈ l, x.score.lt b.score = false := by
  have hmin := (minByScore_spec h).2
  cases l with
  | nil => simp [minByScore] at h
  | cons e rest =>
    simp only [minByScore, Option.some.injEq] at h
    rcases foldl_min_first rest e with ⟨h1, _⟩ | ⟨i, h1, h2, h3⟩
    · rw [h] at h1
      exact ⟨0, by simp [h1], by intro j x hj; omega, hmin⟩
    · rw [h] at h1 h2 h3
      refine ⟨i + 1, by simpa using h1, ?_, hmin⟩
      intro j x hj hx
      cases j with
      | zero => simp at hx; subst hx; exact h2
      | succ j' => simp at hx; exact h3 j' x (by omega) hx



/-! ## `SolverResult.sort_by` -/

theorem Score.le_trans' {a b c : Score} (h1 : a.le b = true) (h2 : b.le c = true) : a.le c = true := by
  cases a <;> cases b <;> cases c <;> simp_all [Score.le, Score.lt]
  grind

theorem Score.le_total' (a b : Score) : (a.le b || b.le a) = true := by
  cases a <;> cases b <;> simp [Score.le, Score.lt]
  grind

/-- the sorted table has the same rows, is ordered by the column, and rows with `key a ≤ key b` keep their relative
    order (stability; in particular ties are never swapped) -/
theorem sortRowsBy_spec {α : Type} (key : α → Score) (rows : List α) :
    (sortRowsBy key rows).Perm rows ∧
    List.Pairwise (fun a b => (key a).le (key b) = true) (sortRowsBy key rows) ∧
    ∀ a b, (key a).le (key b) = true → [a, b].Sublist rows → [a, b].Sublist (sortRowsBy key rows) := by
  unfold sortRowsBy
  have htr : ∀ a b c : α, (key a).le (key b) = true → (key b).le (key c) = true → (key a).le (key c) = true :=
    fun a b c h1 h2 => Score.le_trans' h1 h2
  have htot : ∀ a b : α, ((key a).le (key b) || (key b).le (key a)) = true := fun a b => Score.le_total' _ _
  refine ⟨List.mergeSort_perm _ _, ?_, ?_⟩
  · exact List.pairwise_mergeSort (le := fun a b => (key a).le (key b)) htr htot rows
  · intro a b hab hsub
    exact List.pair_sublist_mergeSort (le := fun a b => (key a).le (key b)) htr htot hab hsub

/-! ## A hall of fame larger than the population -/
section Fail
variable {C D : Type}

theorem hofRefs_insertPop_length (hof : List HofEntry) (i : Nat) (x : HofEntry) (hi : i ≤ hof.length) :
    (hofRefs (insertPop hof i x)).length ≤ (hofRefs hof).length + 1 := by
  unfold hofRefs insertPop
  have hsub : (List.filterMap (·.circ) (hof.insertIdx i x).dropLast).Sublist
      (List.filterMap (·.circ) (hof.insertIdx i x)) := List.Sublist.filterMap _ (List.dropLast_sublist _)
  have hperm : (List.filterMap (·.circ) (hof.insertIdx i x)).Perm (List.filterMap (·.circ) (x :: hof)) :=
    List.Perm.filterMap _ (List.perm_insertIdx x hof hi)
  have h1 := hsub.length_le
  have h2 := hperm.length_eq
  have h3 : (List.filterMap (·.circ) (x :: hof)).length ≤ (List.filterMap (·.circ) hof).length + 1 := by
    simp only [List.filterMap_cons]
    split <;> simp
  omega

theorem updateHofOne_refs_length (t : Tol) (size : C → Nat) (n : Nat) {h h' : Heap C} {hof hof' : List HofEntry}
    {e : PopEntry} (hres : updateHofOne t size n h hof e = .ok (h', hof')) :
    (hofRefs hof').length ≤ (hofRefs hof).length + 1 := by
  unfold updateHofOne at hres
  split at hres
  · simp at hres
  · next c hc =>
    split at hres
    · simp at hres
    · simp only [Except.ok.injEq, Prod.mk.injEq] at hres
      obtain ⟨rfl, rfl⟩ := hres
      omega
    · next p hscan =>
      split at hres
      · simp at hres
      · next h2 r' hcopy =>
        simp only [Except.ok.injEq, Prod.mk.injEq] at hres
        obtain ⟨rfl, rfl⟩ := hres
        obtain ⟨_, _, ⟨ep, hep, _⟩, _⟩ := scanHof_some t size h hof e.score (size c) n 0 p hscan
        have hplt : p < hof.length := (List.getElem?_eq_some_iff.mp hep).1
        exact hofRefs_insertPop_length hof p _ (Nat.le_of_lt hplt)

theorem updateHof_refs_length (t : Tol) (size : C → Nat) (n : Nat) :
    ∀ (pop : List PopEntry) {h h' : Heap C} {hof hof' : List HofEntry},
      updateHof t size n h hof pop = .ok (h', hof') → (hofRefs hof').length ≤ (hofRefs hof).length + pop.length := by
  intro pop
  induction pop with
  | nil =>
    intro h h' hof hof' hres
    simp only [updateHof, Except.ok.injEq, Prod.mk.injEq] at hres
    obtain ⟨rfl, rfl⟩ := hres
    simp
  | cons e rest ih =>
    intro h h' hof hof' hres
    simp only [updateHof] at hres
    split at hres
    · simp at hres
    · next h1 hof1 hone =>
      have a := updateHofOne_refs_length t size n hone
      have b := ih hres
      simp only [List.length_cons]
      omega

theorem mutatePhase_length (P : Params C D) (d : Nat → D) :
    ∀ (fuel j : Nat) (h : Heap C) (pop : List PopEntry) {h' : Heap C} {pop' : List PopEntry},
      mutatePhase P d j fuel h pop = .ok (h', pop') → pop'.length = pop.length := by
  intro fuel
  induction fuel with
  | zero =>
    intro j h pop h' pop' hres
    simp only [mutatePhase, Except.ok.injEq, Prod.mk.injEq] at hres
    obtain ⟨_, rfl⟩ := hres; rfl
  | succ fuel ih =>
    intro j h pop h' pop' hres
    unfold mutatePhase at hres
    split at hres
    · simp at hres
    · simp only at hres
      split at hres
      · simp at hres
      · have := ih _ _ _ hres
        rw [this, List.length_set]

theorem exists_none_of_refs_lt (hof : List HofEntry) (h : (hofRefs hof).length < hof.length) :
    hof.any (fun e => e.circ.isNone) = true := by
  induction hof with
  | nil => simp at h
  | cons x rest ih =>
    simp only [hofRefs, List.filterMap_cons, List.length_cons] at h
    simp only [List.any_cons, Bool.or_eq_true]
    cases hx : x.circ with
    | none => left; simp
    | some r =>
      right
      rw [hx] at h
      simp only [List.length_cons] at h
      exact ih (by unfold hofRefs; omega)

/-- a hall of fame larger than the population: the first generation cannot finish (`update_logs` reads `.depth` of a
    remaining `(inf, None)` entry, or an earlier step already failed) -/
theorem generation_fails_of_hof_gt_pop (P : Params C D) (cfg : Cfg) (dr : Draws D) (g : Nat) (s : St C)
    (hlen : s.hof.length = cfg.nHof) (hrefs : (hofRefs s.hof).length + s.pop.length < cfg.nHof) :
    ∀ s', generation P cfg dr g s ≠ .ok s' := by
  intro s' hres
  unfold generation at hres
  split at hres
  · simp at hres
  · next h1 pop1 hmut =>
    split at hres
    · simp at hres
    · next h2 hof2 hupd =>
      have l1 := mutatePhase_length P _ _ _ _ _ hmut
      have l2 := updateHof_refs_length cfg.tol P.size cfg.nHof pop1 hupd
      have l3 := (updateHof_length_mem cfg.tol P.size cfg.nHof pop1 hlen hupd).1
      have hnone := exists_none_of_refs_lt hof2 (by omega)
      simp only at hres
      have hlogs : ∀ u, updateLogs pop1 hof2 ≠ .ok u := by
        intro u hu
        unfold updateLogs at hu
        simp only [hnone, if_true] at hu
        split at hu
        · simp at hu
        · split at hu <;> simp at hu
      split at hres
      · simp at hres
      · next hok => exact hlogs () hok


/-- **`n_hof > n_pop` never works** (as long as at least one generation is requested): `solve` raises — in the first
    generation `update_logs` meets a remaining `(inf, None)` entry (or an earlier step failed).  Mirrors the behaviour
    of the code; the harness compares error class and generation on such configurations. -/
theorem solve_fails_of_hof_gt_pop (P : Params C D) (cfg : Cfg) (dr : Draws D) (tp : TransProbs) (init : List C)
    (hlt : init.length < cfg.nHof) (hstop : 0 < cfg.nStop) : ∀ r, solve P cfg dr tp init ≠ .ok r := by
  intro r hres
  obtain ⟨s, res⟩ := r
  obtain ⟨hg, _⟩ := solve_spec P cfg dr tp init hres
  obtain ⟨k, hk⟩ : ∃ k, cfg.nStop = k + 1 := ⟨cfg.nStop - 1, by omega⟩
  rw [hk] at hg
  simp only [generations] at hg
  split at hg
  · simp at hg
  · next s1 hs1 =>
    refine generation_fails_of_hof_gt_pop P cfg dr 0 (initState cfg tp init) (by simp [initState]) ?_ s1 hs1
    simp [initState, hofRefs]
    exact hlt

end Fail

/-! ## Progress: well-formed configurations never raise -/
section Progress
variable {C D : Type}

/-- entries without a circuit carry `np.inf` (true of every reachable hall of fame: `HofEntryHonest`) -/
def NoneInf (hof : List HofEntry) : Prop := ∀ e ∈ hof, e.circ = none → e.score = Score.inf

theorem isclose_fin_inf (t : Tol) (q : Rat) : (Score.fin q).isclose t Score.inf = false := rfl
theorem lt_fin_inf (q : Rat) : (Score.fin q).lt Score.inf = true := rfl

/-- with a finite score the scan never raises (entries without circuit are never isclose to it) -/
theorem scanHof_ok (t : Tol) (size : C → Nat) (h : Heap C) (hof : List HofEntry) (q : Rat) (csize : Nat)
    (hni : NoneInf hof) (hb : ∀ r ∈ hofRefs hof, r < h.size) :
    ∀ (fuel i : Nat), i + fuel ≤ hof.length → ∃ r, scanHof t size h hof (Score.fin q) csize i fuel = .ok r := by
  intro fuel
  induction fuel with
  | zero => intro i _; exact ⟨none, rfl⟩
  | succ fuel ih =>
    intro i hi
    unfold scanHof
    have hlt : i < hof.length := by omega
    have he : hof[i]? = some hof[i] := List.getElem?_eq_getElem hlt
    rw [he]
    simp only
    have hmem : hof[i] ∈ hof := List.mem_of_getElem? he
    split
    · next hclose =>
      cases hc : (hof[i]).circ with
      | none =>
        have := hni _ hmem hc
        rw [this] at hclose
        simp [isclose_fin_inf] at hclose
      | some r =>
        simp only
        have hr : r < h.size := hb r (List.mem_filterMap.mpr ⟨_, hmem, hc⟩)
        obtain ⟨c, hcell⟩ := (Heap.get?_some_iff_lt h r).mpr hr
        rw [hcell]
        simp only
        split
        · exact ⟨_, rfl⟩
        · exact ih (i + 1) (by omega)
    · split
      · exact ⟨_, rfl⟩
      · exact ih (i + 1) (by omega)

/-- the first `m` slots hold circuits -/
def SomePrefix (hof : List HofEntry) (m : Nat) : Prop :=
  ∀ i, i < m → ∃ (a : HofEntry) (r : Nat), hof[i]? = some a ∧ a.circ = some r

theorem Passed.circ_some {t : Tol} {size : C → Nat} {h : Heap C} {q : Rat} {csize : Nat} {e : HofEntry}
    (hp : Passed t size h (Score.fin q) csize e) (hni : e.circ = none → e.score = Score.inf) : ∃ r, e.circ = some r := by
  rcases hp with ⟨_, r, _, hr, _⟩ | ⟨_, h2⟩
  · exact ⟨r, hr⟩
  · cases hc : e.circ with
    | some r => exact ⟨r, rfl⟩
    | none =>
      rw [hni hc] at h2
      simp [lt_fin_inf] at h2

/-- processing a member with a finite score never raises, and fills one more slot while empty slots remain -/
theorem updateHofOne_progress (t : Tol) (size : C → Nat) (n : Nat) {h : Heap C} {hof : List HofEntry} {e : PopEntry}
    (hlen : hof.length = n) (hni : NoneInf hof) (hb : ∀ r ∈ hofRefs hof, r < h.size) (he : e.circ < h.size)
    (q : Rat) (hq : e.score = Score.fin q) (m : Nat) (hsp : SomePrefix hof m) :
    ∃ h' hof', updateHofOne t size n h hof e = .ok (h', hof') ∧ hof'.length = n ∧ NoneInf hof' ∧
      (∀ r ∈ hofRefs hof', r < h'.size) ∧ h.size ≤ h'.size ∧ SomePrefix hof' (min n (m + 1)) := by
  obtain ⟨c, hc⟩ := (Heap.get?_some_iff_lt h e.circ).mpr he
  obtain ⟨r, hr⟩ := scanHof_ok t size h hof q (size c) hni hb n 0 (by omega)
  unfold updateHofOne
  rw [hc, hq]
  simp only [hr]
  cases r with
  | none =>
    refine ⟨h, hof, rfl, hlen, hni, hb, Nat.le_refl _, ?_⟩
    intro i hi
    have hin : i < n := by omega
    obtain ⟨e', he', hp⟩ := scanHof_none t size h hof (Score.fin q) (size c) n 0 hr i (Nat.zero_le _) (by omega)
    obtain ⟨r', hr'⟩ := hp.circ_some (hni e' (List.mem_of_getElem? he'))
    exact ⟨e', r', he', hr'⟩
  | some p =>
    simp only
    obtain ⟨_, _, ⟨ep, hep, _⟩, hpassed⟩ := scanHof_some t size h hof (Score.fin q) (size c) n 0 p hr
    have hplt : p < hof.length := (List.getElem?_eq_some_iff.mp hep).1
    have hcopy : h.copy e.circ = .ok (⟨h.cells.push c⟩, h.cells.size) := by
      unfold Heap.copy; rw [hc]
    rw [hcopy]
    simp only
    refine ⟨_, _, rfl, ?_, ?_, ?_, ?_, ?_⟩
    · rw [insertPop_length hof p _ hplt]; exact hlen
    · intro x hx hxc
      rcases mem_insertPop (Nat.le_of_lt hplt) hx with rfl | hmem
      · simp at hxc
      · exact hni x hmem hxc
    · intro r' hr'
      simp only [Heap.size, Array.size_push]
      rcases hofRefs_insertPop_mem (Nat.le_of_lt hplt) hr' with hx | hmem
      · simp at hx; omega
      · have := hb r' hmem; simp only [Heap.size] at this; omega
    · simp [Heap.size]
    · intro i hi
      have hin : i < n := by omega
      rw [insertPop_getElem? hof p _ hplt]
      by_cases h1 : i < p
      · simp only [h1, if_true]
        obtain ⟨e', he', hp⟩ := hpassed i (Nat.zero_le _) h1
        obtain ⟨r', hr'⟩ := hp.circ_some (hni e' (List.mem_of_getElem? he'))
        exact ⟨e', r', he', hr'⟩
      · by_cases h2 : i = p
        · subst h2
          simp only [Nat.lt_irrefl, if_true, if_false]
          exact ⟨⟨Score.fin q, some h.cells.size⟩, h.cells.size, rfl, rfl⟩
        · have h3 : i < hof.length := by omega
          simp only [h1, h2, h3, if_true, if_false]
          exact hsp (i - 1) (by omega)

theorem SomePrefix.mono {hof : List HofEntry} {m m' : Nat} (h : SomePrefix hof m) (hle : m' ≤ m) : SomePrefix hof m' :=
  fun i hi => h i (by omega)

/-- `update_hof` on a population of finite scores never raises and fills `min(n_hof, filled + len(population))` slots -/
theorem updateHof_progress (t : Tol) (size : C → Nat) (n : Nat) :
    ∀ (pop : List PopEntry) {h : Heap C} {hof : List HofEntry} (m : Nat),
      hof.length = n → NoneInf hof → (∀ r ∈ hofRefs hof, r < h.size) → (∀ e ∈ pop, e.circ < h.size) →
      (∀ e ∈ pop, ∃ q, e.score = Score.fin q) → SomePrefix hof m →
      ∃ h' hof', updateHof t size n h hof pop = .ok (h', hof') ∧ SomePrefix hof' (min n (m + pop.length)) := by
  intro pop
  induction pop with
  | nil =>
    intro h hof m _ _ _ _ _ hsp
    exact ⟨h, hof, rfl, hsp.mono (by simp; omega)⟩
  | cons e rest ih =>
    intro h hof m hlen hni hb hpb hfin hsp
    obtain ⟨q, hq⟩ := hfin e List.mem_cons_self
    obtain ⟨h1, hof1, hone, l1, ni1, b1, sz1, sp1⟩ :=
      updateHofOne_progress t size n hlen hni hb (hpb e List.mem_cons_self) q hq m hsp
    obtain ⟨h2, hof2, hres, sp2⟩ := ih (min n (m + 1)) l1 ni1 b1
      (fun x hx => Nat.lt_of_lt_of_le (hpb x (List.mem_cons_of_mem _ hx)) sz1)
      (fun x hx => hfin x (List.mem_cons_of_mem _ hx)) sp1
    refine ⟨h2, hof2, ?_, sp2.mono ?_⟩
    · simp only [updateHof, hone]; exact hres
    · simp only [List.length_cons]; omega

theorem mutatePhase_ok (P : Params C D) (d : Nat → D) :
    ∀ (fuel j : Nat) (h : Heap C) (pop : List PopEntry), j + fuel ≤ pop.length → (∀ e ∈ pop, e.circ < h.size) →
      ∃ h' pop', mutatePhase P d j fuel h pop = .ok (h', pop') := by
  intro fuel
  induction fuel with
  | zero => intro j h pop _ _; exact ⟨h, pop, rfl⟩
  | succ fuel ih =>
    intro j h pop hlen hb
    unfold mutatePhase
    have hj : j < pop.length := by omega
    have he : pop[j]? = some pop[j] := List.getElem?_eq_getElem hj
    rw [he]
    simp only
    have hmem : pop[j] ∈ pop := List.mem_of_getElem? he
    have hlt : (pop[j]).circ < (h.modify (pop[j]).circ fun c => P.mutate c (d j)).size := by
      rw [Heap.modify_size]; exact hb _ hmem
    obtain ⟨c, hc⟩ := (Heap.get?_some_iff_lt _ _).mpr hlt
    rw [hc]
    simp only
    apply ih
    · rw [List.length_set]; omega
    · intro x hx
      rw [Heap.modify_size]
      rcases List.mem_or_eq_of_mem_set hx with hm | heq
      · exact hb x hm
      · rw [heq]; exact hb (pop[j]) hmem

theorem choices_ok (pop : List PopEntry) : ∀ (is : List Nat), (∀ x ∈ is, x < pop.length) →
    ∃ es, choices pop is = .ok es ∧ es.length = is.length := by
  intro is
  induction is with
  | nil => intro _; exact ⟨[], rfl, rfl⟩
  | cons i rest ih =>
    intro hv
    have hi : i < pop.length := hv i List.mem_cons_self
    obtain ⟨es, hes, hl⟩ := ih (fun x hx => hv x (List.mem_cons_of_mem _ hx))
    refine ⟨pop[i] :: es, ?_, by simp [hl]⟩
    simp only [choices, List.getElem?_eq_getElem hi, hes]

/-- valid tournament draws: non-empty index lists within the population -/
def DrawsValid (nPop : Nat) (draws : Nat → List Nat) : Prop :=
  ∀ i, i < nPop → draws i ≠ [] ∧ ∀ x ∈ draws i, x < nPop

theorem tournamentLoop_ok (pop : List PopEntry) (draws : Nat → List Nat) (nPop : Nat) (hpl : pop.length = nPop)
    (hd : DrawsValid nPop draws) :
    ∀ (fuel i : Nat) (h : Heap C) (acc : List PopEntry), i + fuel ≤ nPop → (∀ e ∈ pop, e.circ < h.size) →
      ∃ h' pop', tournamentLoop pop draws i fuel h acc = .ok (h', pop') := by
  intro fuel
  induction fuel with
  | zero => intro i h acc _ _; exact ⟨h, acc, rfl⟩
  | succ fuel ih =>
    intro i h acc hi hb
    unfold tournamentLoop
    obtain ⟨hne, hv⟩ := hd i (by omega)
    obtain ⟨es, hes, hl⟩ := choices_ok pop (draws i) (by rw [hpl]; exact hv)
    rw [hes]
    simp only
    have hesne : es ≠ [] := by
      intro h0; rw [h0] at hl; simp at hl; exact hne (List.eq_nil_of_length_eq_zero hl.symm)
    obtain ⟨e0, rest, rfl⟩ := List.exists_cons_of_ne_nil hesne
    simp only [minByScore]
    have hbm : (rest.foldl (fun best x => if x.score.lt best.score then x else best) e0) ∈ pop := by
      have := (minByScore_spec (l := e0 :: rest) rfl).1
      exact (choices_spec pop _ hes).2 _ this
    obtain ⟨c, hc⟩ := (Heap.get?_some_iff_lt h _).mpr (hb _ hbm)
    have hcopy : h.copy (rest.foldl (fun best x => if x.score.lt best.score then x else best) e0).circ =
        .ok (⟨h.cells.push c⟩, h.cells.size) := by
      unfold Heap.copy; rw [hc]
    rw [hcopy]
    simp only
    apply ih (i + 1) _ _ (by omega)
    intro x hx
    have := hb x hx
    simp only [Heap.size, Array.size_push] at *
    omega

theorem SomePrefix.no_none {hof : List HofEntry} (h : SomePrefix hof hof.length) :
    hof.any (fun e => e.circ.isNone) = false := by
  rw [Bool.eq_false_iff]
  intro hany
  rw [List.any_eq_true] at hany
  obtain ⟨x, hx, hn⟩ := hany
  obtain ⟨i, hi⟩ := List.mem_iff_getElem?.mp hx
  have hlt : i < hof.length := (List.getElem?_eq_some_iff.mp hi).1
  obtain ⟨a, r, ha, hr⟩ := h i hlt
  rw [hi] at ha
  have : a = x := by simpa using ha.symm
  subst this
  rw [hr] at hn; simp at hn

/-- the metric never returns `np.inf` -/
def FiniteMetric (P : Params C D) : Prop := ∀ c, ∃ q, P.metric c = Score.fin q

/-- **Progress.**  From a state satisfying the invariant, with `0 < n_hof ≤ n_pop`, a finite metric and (if selection
    is active with `k > 0`) valid tournament draws, a generation returns — and fills the hall of fame completely. -/
theorem generation_progress (P : Params C D) (cfg : Cfg) (dr : Draws D) (g : Nat) (s : St C) (hinv : Inv P cfg s)
    (hfin : FiniteMetric P) (hn : 0 < cfg.nHof) (hle : cfg.nHof ≤ cfg.nPop)
    (hd : cfg.selectionActive = true → cfg.tournamentK ≠ 0 → DrawsValid cfg.nPop (dr.tournament g)) :
    ∃ s', generation P cfg dr g s = .ok s' ∧ SomePrefix s'.hof cfg.nHof := by
  obtain ⟨h1, pop1, hmut⟩ := mutatePhase_ok P (dr.mutation g) cfg.nPop 0 s.heap s.pop
    (by rw [hinv.popLen]; omega) hinv.popBound
  obtain ⟨m1, m2, m3, _, m5⟩ := mutatePhase_spec P (dr.mutation g) cfg.nPop 0 s.heap s.pop
    (by rw [hinv.popLen]; omega) hinv.popNodup hinv.popBound hmut
  have hpop1len : pop1.length = cfg.nPop := by rw [← popRefs_length, m1, popRefs_length, hinv.popLen]
  have hhon : ∀ e ∈ pop1, PopHonest P h1 e := by
    intro e he
    obtain ⟨i, hi⟩ := List.mem_iff_getElem?.mp he
    exact m5 i e (Nat.zero_le _) hi
  have hpb : ∀ e ∈ pop1, e.circ < h1.size := by
    intro e he
    obtain ⟨c, hc, _⟩ := hhon e he
    exact (Heap.get?_some_iff_lt h1 e.circ).mp ⟨c, hc⟩
  have hfinp : ∀ e ∈ pop1, ∃ q, e.score = Score.fin q := by
    intro e he
    obtain ⟨c, _, hs⟩ := hhon e he
    obtain ⟨q, hq⟩ := hfin c
    exact ⟨q, by rw [hs, hq]⟩
  have hni : NoneInf s.hof := by
    intro e he hc
    have := hinv.hof.honest e he
    unfold HofEntryHonest at this
    rw [hc] at this; exact this
  have hb1 : ∀ r ∈ hofRefs s.hof, r < h1.size := by
    intro r hr; rw [m2]; exact hinv.hof.bound r hr
  obtain ⟨h2, hof2, hupd, hsp⟩ := updateHof_progress cfg.tol P.size cfg.nHof pop1 0 hinv.hofLen hni hb1 hpb hfinp
    (fun i hi => by omega)
  have hlen2 := (updateHof_length_mem cfg.tol P.size cfg.nHof pop1 hinv.hofLen hupd).1
  have hsp' : SomePrefix hof2 cfg.nHof := hsp.mono (by rw [hpop1len]; omega)
  have hnone : hof2.any (fun e => e.circ.isNone) = false := by
    apply SomePrefix.no_none; rw [hlen2]; exact hsp'
  have hlogs : updateLogs pop1 hof2 = .ok () := by
    unfold updateLogs
    have e1 : pop1.isEmpty = false := by
      cases pop1 with
      | nil => simp at hpop1len; omega
      | cons _ _ => rfl
    have e2 : hof2.isEmpty = false := by
      cases hof2 with
      | nil => simp at hlen2; omega
      | cons _ _ => rfl
    simp [e1, e2, hnone]
  unfold generation
  rw [hmut]
  simp only [hupd, hlogs]
  by_cases hsel : cfg.selectionActive = true
  · simp only [hsel, if_true]
    unfold tournamentSelection
    by_cases hk : cfg.tournamentK = 0
    · simp only [hk, if_true]
      exact ⟨_, rfl, hsp'⟩
    · simp only [hk, if_false]
      have hext := (updateHof_inv P cfg.tol cfg.nHof pop1
        (HofInv.of_agree m2 (fun r hr => m3 r (by simpa using hinv.disjoint r hr)) hinv.hof) hinv.hofLen hhon hupd).2.1
      obtain ⟨h3, pop3, ht⟩ := tournamentLoop_ok pop1 (dr.tournament g) cfg.nPop hpop1len (hd hsel hk) cfg.nPop 0 h2 []
        (by omega) (fun e he => Nat.lt_of_lt_of_le (hpb e he) hext.1)
      rw [ht]
      exact ⟨_, rfl, hsp'⟩
  · simp only [hsel]
    exact ⟨_, rfl, hsp'⟩

theorem generations_progress (P : Params C D) (cfg : Cfg) (dr : Draws D) (hfin : FiniteMetric P)
    (hn : 0 < cfg.nHof) (hle : cfg.nHof ≤ cfg.nPop)
    (hd : cfg.selectionActive = true → cfg.tournamentK ≠ 0 → ∀ g, DrawsValid cfg.nPop (dr.tournament g)) :
    ∀ (fuel g : Nat) (s : St C), Inv P cfg s → ∃ s', generations P cfg dr g fuel s = .ok s' := by
  intro fuel
  induction fuel with
  | zero => intro g s _; exact ⟨s, rfl⟩
  | succ fuel ih =>
    intro g s hinv
    obtain ⟨s1, hs1, _⟩ := generation_progress P cfg dr g s hinv hfin hn hle (fun a b => hd a b g)
    obtain ⟨s2, hs2⟩ := ih (g + 1) s1 (generation_inv P cfg dr g hinv hs1).1
    exact ⟨s2, by simp only [generations, hs1]; exact hs2⟩

/-- **`solve` returns** for every configuration with `0 < n_hof ≤ n_pop`, a finite metric and valid tournament draws -/
theorem solve_returns (P : Params C D) (cfg : Cfg) (dr : Draws D) (tp : TransProbs) (init : List C)
    (hlen : init.length = cfg.nPop) (hfin : FiniteMetric P) (hn : 0 < cfg.nHof) (hle : cfg.nHof ≤ cfg.nPop)
    (hd : cfg.selectionActive = true → cfg.tournamentK ≠ 0 → ∀ g, DrawsValid cfg.nPop (dr.tournament g)) :
    ∃ s res, solve P cfg dr tp init = .ok (s, res) := by
  have hinv0 := initState_inv P cfg tp init hlen
  obtain ⟨s, hs⟩ := generations_progress P cfg dr hfin hn hle hd cfg.nStop 0 _ hinv0
  have hinv := generations_inv P cfg dr cfg.nStop 0 hinv0 hs
  obtain ⟨res, hres⟩ := exists_head s.hof (by rw [hinv.hofLen]; exact hn)
  exact ⟨s, res, by simp only [solve, hs, hres]⟩

end Progress

end Graphiq.Evo
