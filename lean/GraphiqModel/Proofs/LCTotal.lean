/-
  Proofs/LCTotal.lean — **totality of `is_lc_equivalent`**: on two graphs of the same size `n ≥ 1` and a supported mode, none
  of the internal assertions fires and no exception is raised — the function returns `(bool, Q or None)`.

  `pipeline_total` follows the body of the function on an arbitrary coefficient matrix with a non-zero first row:
  the echelon structure of `row_reduction` (LCTotalEch) makes the non-zero rows the pivot rows (assertion 1), `_col_finder`
  returns exactly the non-pivot columns (assertion 2, LCTotalCols), the pivot-column matrix is upper unitriangular, so its exact
  inverse exists (LCTotalInv), and the spliced basis vectors solve the system (assertion 3, LCTotalBasis).
-/
import GraphiqModel.Proofs.LCTotalBasis
namespace Graphiq.LC
open Graphiq

theorem pipeline_total (coeff z : BMat) (hr : 0 < coeff.r) (hc : 1 < coeff.c) (hne : coeff.f 0 1 = true) :
    ((nonzeroRows (rowReduction coeff z).1).length : Int) = (rowReduction coeff z).2.2 + 1 ∧
    ((rowReduction coeff z).2.2 + 1 < coeff.c →
      (((colFinder (selectRows (rowReduction coeff z).1 (nonzeroRows (rowReduction coeff z).1)).norm).length : Int) =
          coeff.c - ((rowReduction coeff z).2.2 + 1)) ∧
      (∃ basis, solutionBasisFinder (selectRows (rowReduction coeff z).1 (nonzeroRows (rowReduction coeff z).1)).norm
          (colFinder (selectRows (rowReduction coeff z).1 (nonzeroRows (rowReduction coeff z).1)).norm) = .ok basis) ∧
      ∀ bits, ∃ s, vecSolutionFinder (selectRows (rowReduction coeff z).1 (nonzeroRows (rowReduction coeff z).1)).norm
          (colFinder (selectRows (rowReduction coeff z).1 (nonzeroRows (rowReduction coeff z).1)).norm) bits = .ok s) := by
  obtain ⟨piv, hP, hE, hkr, hnn⟩ := rowReduction_ech coeff z hr (by omega)
  obtain ⟨h1, h2, h3⟩ := rowReduction_spec coeff z (fun j => decide (j = 1)) hr
  generalize hred : (rowReduction coeff z).1 = red at *
  generalize hlast : (rowReduction coeff z).2.2 = last at *
  have hkI : ((last + 1).toNat : Int) = last + 1 := Int.toNat_of_nonneg hnn
  generalize hk : (last + 1).toNat = k at *
  have hkeep : nonzeroRows red = List.range k := nonzeroRows_ech red k piv hP hE hkr
  -- the rank is positive: the first row of the coefficient matrix is not zero
  have hk0 : 0 < k := by
    rcases Nat.eq_zero_or_pos k with e | e
    · exfalso
      have hsol : SolF red (fun j => decide (j = 1)) := by
        intro i hi
        unfold rowDot
        apply parityTo_zero
        intro j hj
        rw [hE.low i (by omega) hi j hj]; rfl
      have := (h3.mp hsol) 0 hr
      unfold rowDot at this
      rw [parityTo_single_lt coeff.c 1 _ hc (fun j _ hj => by simp [hj]), hne] at this
      simp at this
    · exact e
  refine ⟨by rw [hkeep]; simp; exact hkI, fun hlt => ?_⟩
  rw [hkeep]
  obtain ⟨mr, mc, mP, mL⟩ := selectRows_ech red k piv hP hE hkr
  generalize hm : (selectRows red (List.range k)).norm = m at *
  have mP' : Piv m k m.c piv := by rw [mc]; exact mP
  have hexact := colFinder_exact m k piv hk0 mr mP' mL
  have hlen := colFinder_length m k piv hk0 mr mP' mL
  have hkeepc := keepCols_eq_pivots m k piv hk0 mr mP' mL
  -- the pivot-column matrix is upper unitriangular
  have hdf : ∀ i t, t < k → (deleteCols m (colFinder m)).f i t = m.f i (piv t) := by
    intro i t ht
    show m.f i ((keepCols m (colFinder m)).getD t 0) = _
    rw [hkeepc]
    simp [List.getD, ht]
  have hsq : (deleteCols m (colFinder m)).r = (deleteCols m (colFinder m)).c := by
    show m.r = (keepCols m (colFinder m)).length
    rw [hkeepc, mr]; simp
  have huni : UpperUni (deleteCols m (colFinder m)).r (deleteCols m (colFinder m)).f := by
    have hdr : (deleteCols m (colFinder m)).r = k := mr
    rw [hdr]
    refine ⟨fun i hi => ?_, fun i j hji hi => ?_⟩
    · rw [hdf i i hi]; exact mP'.one i hi
    · rw [hdf i j (by omega)]; exact mP'.below j i (by omega) hji (by rw [mr]; exact hi)
  obtain ⟨ainv, hinv⟩ := gf2Inv_total (deleteCols m (colFinder m)) hsq huni
  have hctx : BasisCtx m k piv (colFinder m) ainv := ⟨hk0, mr, mP', mL, hexact, hinv⟩
  refine ⟨?_, ?_, ?_⟩
  · have : ((colFinder m).length : Int) + k = m.c := by exact_mod_cast hlen
    rw [mc, h2] at this
    omega
  · refine ⟨(List.range (colFinder m).length).map fun i => basisVec m (colFinder m) ainv i, ?_⟩
    unfold solutionBasisFinder
    rw [if_neg (fun hh => hh.2 hctx.shape), hinv]
    simp only []
    rw [if_pos]
    rw [List.all_eq_true]
    intro v hv
    obtain ⟨i, hi, e⟩ := List.mem_map.mp hv
    have hi' := List.mem_range.mp hi
    rw [← e, basisVec_length hctx i, (solves_iff m _).mpr (basisVec_solves hctx i hi')]
    simp
  · intro bits
    unfold vecSolutionFinder
    simp only [hinv]
    exact ⟨_, rfl⟩

theorem randomChecker_total (n : Nat) (m : BMat) (colList : List Nat)
    (h : ∀ bits, ∃ s, vecSolutionFinder m colList bits = .ok s) (ts : List (List Bool)) (k0 : Nat) :
    ∃ r, randomChecker n m colList ts k0 = .ok r := by
  induction ts generalizing k0 with
  | nil => exact ⟨_, rfl⟩
  | cons t rest ih =>
    obtain ⟨s, hs⟩ := h t
    simp only [randomChecker, hs]
    split
    · exact ⟨_, rfl⟩
    · exact ih (k0 + 1)

/-- **`is_lc_equivalent` is total**: for two graphs on the same `n ≥ 1` vertices, in deterministic or random mode (every value of
    the draws), the model of the whole-graph algorithm returns — none of the three internal assertions ("The number of
    remaining rows is less than the rank!", "column list is not correct", "solution basis is wrong.") can fire, the reshape
    and the matrix inversions succeed.  (No hypothesis on the adjacency matrices: they need not even be symmetric.) -/
theorem isLcEquivalent_total (a b : BMat) (mode : Mode) (draws : List Bool) (hn : 0 < a.r) (hab : a.r = b.r)
    (hmode : mode ≠ .other) : ∃ out, isLcEquivalent a b mode draws = .ok out := by
  have hr : 0 < (coeffMaker a.r a.f b.f).norm.r := Nat.mul_pos hn hn
  have hc : 1 < (coeffMaker a.r a.f b.f).norm.c := by show 1 < 4 * a.r; omega
  have hne : (coeffMaker a.r a.f b.f).norm.f 0 1 = true := by
    rw [BMat.norm_agree _ 0 1 (Nat.mul_pos hn hn) (by show 1 < 4 * a.r; omega)]
    show coeffEntry a.f b.f (0 / a.r) (0 % a.r) (1 / 4) (1 % 4) = true
    simp [coeffEntry]
  obtain ⟨p1, p2⟩ := pipeline_total (coeffMaker a.r a.f b.f).norm
    { r := (coeffMaker a.r a.f b.f).norm.r, c := (coeffMaker a.r a.f b.f).norm.c, f := fun _ _ => false } hr hc hne
  unfold isLcEquivalent
  simp only []
  rw [if_neg (by rw [hab]; simp)]
  split
  · exact ⟨_, rfl⟩
  · rename_i hrank
    have hlt : (rowReduction (coeffMaker a.r a.f b.f).norm
        { r := (coeffMaker a.r a.f b.f).norm.r, c := (coeffMaker a.r a.f b.f).norm.c, f := fun _ _ => false }).2.2 + 1 <
        ((coeffMaker a.r a.f b.f).norm.c : Int) := by
      have : ((coeffMaker a.r a.f b.f).norm.c : Int) = 4 * (a.r : Int) := by
        show ((4 * a.r : Nat) : Int) = _
        simp
      rw [this]
      omega
    obtain ⟨q1, ⟨basis, q2⟩, q3⟩ := p2 hlt
    rw [if_neg (by rw [p1]; simp)]
    rw [if_neg (by
      rw [q1]
      have : ((coeffMaker a.r a.f b.f).norm.c : Int) = 4 * (a.r : Int) := by
        show ((4 * a.r : Nat) : Int) = _
        simp
      rw [this]; simp)]
    rw [q2]
    simp only []
    split
    · split <;> exact ⟨_, rfl⟩
    · cases mode with
      | other => exact absurd rfl hmode
      | det =>
        simp only []
        split <;> exact ⟨_, rfl⟩
      | rand =>
        simp only []
        obtain ⟨r, hr⟩ := randomChecker_total a.r _ _ q3 (chunk basis.length draws) 0
        rw [hr]
        exact ⟨_, rfl⟩

end Graphiq.LC
