/-
  Proofs/CommuteComplete.lean — the converse of `Proofs/CommuteRefine`: every run that is *possible* in the group semantics
  is produced by the stabilizer compile loop in probabilistic mode under a suitable script of drawn bits.

  * `measure_prob`: a Z measurement whose outcome `o` is feasible (`(-1)^(1-o) Z_q` is not a stabilizer) records `o` in
    probabilistic mode when the script starts with `o` (random case) — and records `o` anyway in the deterministic case.
  * `cop_complete`: one operation; `run_complete`: a whole compile sequence: if `runSeq appRaw l (gstate t, F) = some (g', F')`
    there is a script under which `stepOp … .prob` runs `l` from `t`, consumes the script, ends in a tableau with group `g'`,
    and the outcomes it records are exactly the ones read from `F` (`F = feed l outs F'`).
-/
import GraphiqModel.Proofs.CommuteCircuit
namespace Graphiq.Commute
open Graphiq PRow Tab TabSpec Classical
open Graphiq.Wire (Reg RegType SOp Item Kind G1 runSeq)

/-- every qubit index of the operation is in range (the compiler's assertions) -/
def cInRange (np n : Nat) : COp → Prop
  | .gate1 _ q | .pdag q | .measz q _ | .wrap _ q => qIndex np q < n
  | .cnot c t | .cz c t | .ccx c t _ | .ccz c t _ | .mcr c t _ => qIndex np c < n ∧ qIndex np t < n

/-- a feasible outcome is the one the compile loop records in probabilistic mode, when the script starts with it in the
    random case (a deterministic measurement draws nothing) -/
theorem measure_prob {n : Nat} (t : Tab) (w : List (Nat × Bool)) (rest rd os : List Bool) (ht : TInv n t) (q : Nat)
    (hq : q < n) (o : Bool) (hfe : ¬ Grp t (Zq q (!o))) :
    RunState.measure ⟨t, w, (if (t.pivot q).isSome then [o] else []) ++ rest, rd, os⟩ .prob q =
        (⟨(t.zMeasure q ((t.pivot q).isSome && o)).1.norm, w, rest, rd ++ [(t.pivot q).isSome], os ++ [o]⟩, o) ∧
      (t.zMeasure q ((t.pivot q).isSome && o)).2.1 = o := by
  have hq' : q < t.n := by rw [ht.n_eq]; exact hq
  cases hp : t.pivot q with
  | some p =>
    refine ⟨?_, ?_⟩
    · simp [RunState.measure, RunState.offer, hp, zMeasure]
    · simp [zMeasure, hp]
  | none =>
    have hz := measDet_grp_Zq t ht.valid ht.real q hq' hp
    have ho : (t.measScratch q).r = o := by
      by_cases e : (t.measScratch q).r = o
      · exact e
      · exfalso
        have : (t.measScratch q).r = !o := by revert e; cases (t.measScratch q).r <;> cases o <;> simp
        rw [this] at hz; exact hfe hz
    refine ⟨?_, ?_⟩
    · simp [RunState.measure, RunState.offer, hp, zMeasure, ho]
    · simp [zMeasure, hp, ho]

/-- a run of primitives that starts with a measurement and is possible has a feasible first outcome -/
theorem feasible_of_runP {n : Nat} {t : Tab} {q : Nat} {o : Bool} {l : List Tab.Op} {g1 : GState} (hq : q < n)
    (h : runP n (.meas q o :: l) (some (gstate t)) = some g1) : ¬ Grp t (Zq q (!o)) := by
  intro hz
  rw [runP_cons, appP_meas n q o hq] at h
  have : measStep q o (some (gstate t)) = none := by
    simp only [measStep, Option.bind_some]
    rw [if_pos (show (gstate t).G (Zq q (!o)) from hz)]
  rw [this, runP_none] at h
  cases h

/-- from the shape of one step to the full statement, through `cop_refines` -/
theorem complete_of_step (np n : Nat) (op : COp) (hwf : cWF2 np op) {t : Tab} (ht : TInv n t) (o : Bool) (g1 : GState)
    (hrun : runP n (copPrims np op o) (some (gstate t)) = some g1) (s s1 : RunState) (hst : s.t = t)
    (hstep : stepOp np n .prob s op = some s1) (houts : s1.outs = s.outs ++ (if cMeasures op then [o] else []))
    (hcp : cMeasures op = false → copPrims np op false = copPrims np op o) :
    TInv n s1.t ∧ gstate s1.t = g1 := by
  subst hst
  obtain ⟨ht1, new, hnew, hlen, hr⟩ := cop_refines np n .prob s s1 op hwf ht hstep
  refine ⟨ht1, ?_⟩
  have hn : new = if cMeasures op then [o] else [] := List.append_cancel_left (hnew.symm.trans houts)
  cases hm : cMeasures op with
  | false =>
    rw [hm] at hn
    simp only [Bool.false_eq_true, if_false] at hn
    rw [hn] at hr
    simp only [List.headD_nil] at hr
    rw [hcp hm, hrun] at hr
    exact (Option.some.inj hr).symm
  | true =>
    rw [hm] at hn
    simp only [if_true] at hn
    rw [hn] at hr
    simp only [List.headD_cons] at hr
    rw [hrun] at hr
    exact (Option.some.inj hr).symm

/-- **one operation, converse direction**: if the primitives of `op` with outcome `o` are possible on the group of `t`,
    then in probabilistic mode, with the script starting with `pre` (= `[o]` if the measurement is random, else empty),
    the compile step records `o`, consumes exactly `pre`, and ends in a valid tableau `t1` (the same for every rest of
    the script) with the group `g1` -/
theorem cop_complete (np n : Nat) (op : COp) (hwf : cWF2 np op) (hin : cInRange np n op) {t : Tab} (ht : TInv n t) (o : Bool)
    (g1 : GState) (hrun : runP n (copPrims np op o) (some (gstate t)) = some g1) :
    ∃ (pre : List Bool) (t1 : Tab), TInv n t1 ∧ gstate t1 = g1 ∧
      ∀ (rest : List Bool) (w : List (Nat × Bool)) (rd os : List Bool), ∃ w' rd',
        stepOp np n .prob ⟨t, w, pre ++ rest, rd, os⟩ op =
          some ⟨t1, w', rest, rd', os ++ (if cMeasures op then [o] else [])⟩ := by
  cases op with
  | gate1 g q =>
    have hstep : ∀ rest w rd os, stepOp np n .prob ⟨t, w, [] ++ rest, rd, os⟩ (.gate1 g q) =
        some ⟨(gen1 t g (qIndex np q)).norm, w, rest, rd, os ++ []⟩ := by
      intro rest w rd os
      simp only [stepOp, List.nil_append, List.append_nil]; exact if_pos hin
    obtain ⟨h1, h2⟩ := complete_of_step np n _ hwf ht o g1 hrun _ _ rfl (hstep [] [] [] []) (by simp [cMeasures])
      (fun _ => rfl)
    exact ⟨[], _, h1, h2, fun rest w rd os => ⟨_, _, hstep rest w rd os⟩⟩
  | pdag q =>
    have hstep : ∀ rest w rd os, stepOp np n .prob ⟨t, w, [] ++ rest, rd, os⟩ (.pdag q) =
        some ⟨(t.sdgGate (qIndex np q)).norm, w, rest, rd, os ++ []⟩ := by
      intro rest w rd os
      simp only [stepOp, List.nil_append, List.append_nil]; exact if_pos hin
    obtain ⟨h1, h2⟩ := complete_of_step np n _ hwf ht o g1 hrun _ _ rfl (hstep [] [] [] []) (by simp [cMeasures])
      (fun _ => rfl)
    exact ⟨[], _, h1, h2, fun rest w rd os => ⟨_, _, hstep rest w rd os⟩⟩
  | cnot c tg =>
    have hstep : ∀ rest w rd os, stepOp np n .prob ⟨t, w, [] ++ rest, rd, os⟩ (.cnot c tg) =
        some ⟨(t.cnotGate (qIndex np c) (qIndex np tg)).norm, w, rest, rd, os ++ []⟩ := by
      intro rest w rd os
      simp only [stepOp, List.nil_append, List.append_nil]; exact if_pos hin
    obtain ⟨h1, h2⟩ := complete_of_step np n _ hwf ht o g1 hrun _ _ rfl (hstep [] [] [] []) (by simp [cMeasures])
      (fun _ => rfl)
    exact ⟨[], _, h1, h2, fun rest w rd os => ⟨_, _, hstep rest w rd os⟩⟩
  | cz c tg =>
    have hstep : ∀ rest w rd os, stepOp np n .prob ⟨t, w, [] ++ rest, rd, os⟩ (.cz c tg) =
        some ⟨(t.czGate (qIndex np c) (qIndex np tg)).norm, w, rest, rd, os ++ []⟩ := by
      intro rest w rd os
      simp only [stepOp, List.nil_append, List.append_nil]; exact if_pos hin
    obtain ⟨h1, h2⟩ := complete_of_step np n _ hwf ht o g1 hrun _ _ rfl (hstep [] [] [] []) (by simp [cMeasures])
      (fun _ => rfl)
    exact ⟨[], _, h1, h2, fun rest w rd os => ⟨_, _, hstep rest w rd os⟩⟩
  | wrap gs q =>
    have hstep : ∀ rest w rd os, stepOp np n .prob ⟨t, w, [] ++ rest, rd, os⟩ (.wrap gs q) =
        some ⟨(gs.reverse.foldl (fun t g => gen1 t g (qIndex np q)) t).norm, w, rest, rd, os ++ []⟩ := by
      intro rest w rd os
      simp only [stepOp, List.nil_append, List.append_nil]; exact if_pos hin
    obtain ⟨h1, h2⟩ := complete_of_step np n _ hwf ht o g1 hrun _ _ rfl (hstep [] [] [] []) (by simp [cMeasures])
      (fun _ => rfl)
    exact ⟨[], _, h1, h2, fun rest w rd os => ⟨_, _, hstep rest w rd os⟩⟩
  | measz q creg =>
    have hfe := feasible_of_runP hin hrun
    have hstep : ∀ rest w rd os,
        stepOp np n .prob ⟨t, w, (if (t.pivot (qIndex np q)).isSome then [o] else []) ++ rest, rd, os⟩ (.measz q creg) =
          some ⟨(t.zMeasure (qIndex np q) ((t.pivot (qIndex np q)).isSome && o)).1.norm, w ++ [(creg, o)], rest,
            rd ++ [(t.pivot (qIndex np q)).isSome], os ++ [o]⟩ := by
      intro rest w rd os
      simp only [stepOp]
      rw [if_pos (show qIndex np q < n from hin), (measure_prob t w rest rd os ht _ hin o hfe).1]; rfl
    obtain ⟨h1, h2⟩ := complete_of_step np n _ hwf ht o g1 hrun _ _ rfl (hstep [] [] [] []) (by simp [cMeasures])
      (fun h => by simp [cMeasures] at h)
    exact ⟨_, _, h1, h2, fun rest w rd os => ⟨_, _, hstep rest w rd os⟩⟩
  | ccx c tg creg =>
    have hfe := feasible_of_runP hin.1 hrun
    have hstep : ∀ rest w rd os,
        stepOp np n .prob ⟨t, w, (if (t.pivot (qIndex np c)).isSome then [o] else []) ++ rest, rd, os⟩ (.ccx c tg creg) =
          some ⟨if o = true then ((t.zMeasure (qIndex np c) ((t.pivot (qIndex np c)).isSome && o)).1.norm.xGate
              (qIndex np tg)).norm else (t.zMeasure (qIndex np c) ((t.pivot (qIndex np c)).isSome && o)).1.norm,
            w ++ [(creg, o)], rest, rd ++ [(t.pivot (qIndex np c)).isSome], os ++ [o]⟩ := by
      intro rest w rd os
      simp only [stepOp]
      rw [if_pos (show qIndex np c < n ∧ qIndex np tg < n from hin), (measure_prob t w rest rd os ht _ hin.1 o hfe).1]; rfl
    obtain ⟨h1, h2⟩ := complete_of_step np n _ hwf ht o g1 hrun _ _ rfl (hstep [] [] [] []) (by simp [cMeasures])
      (fun h => by simp [cMeasures] at h)
    exact ⟨_, _, h1, h2, fun rest w rd os => ⟨_, _, hstep rest w rd os⟩⟩
  | ccz c tg creg =>
    have hfe := feasible_of_runP hin.1 hrun
    have hstep : ∀ rest w rd os,
        stepOp np n .prob ⟨t, w, (if (t.pivot (qIndex np c)).isSome then [o] else []) ++ rest, rd, os⟩ (.ccz c tg creg) =
          some ⟨if o = true then ((t.zMeasure (qIndex np c) ((t.pivot (qIndex np c)).isSome && o)).1.norm.zGate
              (qIndex np tg)).norm else (t.zMeasure (qIndex np c) ((t.pivot (qIndex np c)).isSome && o)).1.norm,
            w ++ [(creg, o)], rest, rd ++ [(t.pivot (qIndex np c)).isSome], os ++ [o]⟩ := by
      intro rest w rd os
      simp only [stepOp]
      rw [if_pos (show qIndex np c < n ∧ qIndex np tg < n from hin), (measure_prob t w rest rd os ht _ hin.1 o hfe).1]; rfl
    obtain ⟨h1, h2⟩ := complete_of_step np n _ hwf ht o g1 hrun _ _ rfl (hstep [] [] [] []) (by simp [cMeasures])
      (fun h => by simp [cMeasures] at h)
    exact ⟨_, _, h1, h2, fun rest w rd os => ⟨_, _, hstep rest w rd os⟩⟩
  | mcr c tg creg =>
    have hfe := feasible_of_runP hin.1 hrun
    have ho := (measure_prob t [] [] [] [] ht _ hin.1 o hfe).2
    generalize hoff : ((t.pivot (qIndex np c)).isSome && o) = off at ho
    have hm1 := (ht.meas _ off hin.1).norm
    have hz1 : Grp (t.zMeasure (qIndex np c) off).1.norm (Zq (qIndex np c) o) := by
      have := (norm_grp_iff _ _).mpr (meas_leaves_Zq ht _ off hin.1)
      rw [ho] at this; exact this
    have hpiv : (if o = true then ((t.zMeasure (qIndex np c) off).1.norm.xGate (qIndex np tg)).norm
        else (t.zMeasure (qIndex np c) off).1.norm).pivot (qIndex np c) = none := by
      cases o
      · simp only [Bool.false_eq_true, if_false]
        exact pivot_none_of_Zq _ hm1.valid hm1.real _ (by rw [hm1.n_eq]; exact hin.1) _ hz1
      · simp only [if_true]
        have hx : TInv n ((t.zMeasure (qIndex np c) off).1.norm.xGate (qIndex np tg)).norm :=
          (hm1.map _ (isAut1_xg n _ hin.2)).norm
        have hz2 : Grp ((t.zMeasure (qIndex np c) off).1.norm.xGate (qIndex np tg)).norm (Zq (qIndex np c) true) :=
          (norm_grp_iff _ _).mpr (map_keeps_Zq hm1 _ (isAut1_xg n _ hin.2) (local_xg _) _ (fun h => hwf h) true hz1)
        exact pivot_none_of_Zq _ hx.valid hx.real _ (by rw [hx.n_eq]; exact hin.1) _ hz2
    have hstep : ∀ rest w rd os,
        stepOp np n .prob ⟨t, w, (if (t.pivot (qIndex np c)).isSome then [o] else []) ++ rest, rd, os⟩ (.mcr c tg creg) =
          some ⟨((if o = true then ((t.zMeasure (qIndex np c) off).1.norm.xGate (qIndex np tg)).norm
              else (t.zMeasure (qIndex np c) off).1.norm).resetZ (qIndex np c) false false).norm,
            w ++ [(creg, o)], rest, rd ++ [(t.pivot (qIndex np c)).isSome], os ++ [o]⟩ := by
      intro rest w rd os
      simp only [stepOp]
      rw [if_pos (show qIndex np c < n ∧ qIndex np tg < n from hin), (measure_prob t w rest rd os ht _ hin.1 o hfe).1, hoff]
      simp only [RunState.condX, RunState.write, RunState.resetQ, RunState.offer, hpiv, Option.isSome_none,
        Bool.false_eq_true, if_false]
    obtain ⟨h1, h2⟩ := complete_of_step np n _ hwf ht o g1 hrun _ _ rfl (hstep [] [] [] []) (by simp [cMeasures])
      (fun h => by simp [cMeasures] at h)
    exact ⟨_, _, h1, h2, fun rest w rd os => ⟨_, _, hstep rest w rd os⟩⟩

/-! ## a whole compile sequence -/

theorem decode_inRange (ne np : Nat) (a : SOp) (d : Dec) (hdec : decode ne np a = some d) :
    cInRange np (ne + np) (toCOp a) := by
  have h := hdec
  unfold decode at h
  unfold toCOp
  split at h
  · next g r hitem hregs =>
    rw [hitem, hregs]
    cases hq : regIx ne np r with
    | none => rw [hq] at h; cases h
    | some q =>
      have hlt := regIx_lt hq
      rw [← regIx_qIndex hq] at hlt
      cases g <;> exact hlt
  · next _ cr r hitem hregs =>
    rw [hitem, hregs]
    cases hq : regIx ne np r with
    | none => rw [hq] at h; cases h
    | some q =>
      have hlt := regIx_lt hq
      rw [← regIx_qIndex hq] at hlt
      exact hlt
  · next k _ cr c t hitem hregs =>
    split at h
    · next qc qt hc ht =>
      have hlc := regIx_lt hc
      have hlt := regIx_lt ht
      rw [← regIx_qIndex hc] at hlc
      rw [← regIx_qIndex ht] at hlt
      rw [hitem, hregs]
      cases k <;> simp only [pairPrims, reduceCtorEq] at h
      all_goals exact ⟨hlc, hlt⟩
    · cases h
  · cases h

theorem runSeq_appRaw_none (ne np : Nat) (l : List SOp) : runSeq (appRaw ne np) l none = none := by
  induction l with
  | nil => rfl
  | cons a l ih => rw [Wire.runSeq_cons, appRaw_none, ih]

theorem pushOut_popReg (sc : Script) (r : Reg) (h : sc r ≠ []) : pushOut (popReg sc r) r ((sc r).headD false) = sc := by
  funext r'
  unfold pushOut popReg
  by_cases e : r' = r
  · subst e
    simp only [if_true]
    cases hs : sc r' with
    | nil => exact absurd hs h
    | cons o tl => rfl
  · simp [e]

/-- **completeness of the compile loop for the group semantics**: every run of the compile sequence `l` that is possible in
    the group semantics (from the group of a valid tableau `t`, reading the outcome streams `F` down to `F'`) is produced by
    the stabilizer compile loop in probabilistic mode: there is a script of drawn bits under which `stepOp` runs `l` from
    `t`, consumes exactly that script, ends in a valid tableau with the final group, and records exactly the outcomes that
    the semantics read (`F = feed l new F'`) -/
theorem run_complete (ne np : Nat) (l : List SOp) (hok : ∀ a, a ∈ l → (decode ne np a).isSome = true ∧ a.regs.Nodup)
    {t : Tab} (ht : TInv (ne + np) t) (F F' : Script) (g' : GState)
    (h : runSeq (appRaw ne np) l (some (gstate t, F)) = some (g', F')) :
    ∃ (script : List Bool) (t' : Tab) (new : List Bool), TInv (ne + np) t' ∧ gstate t' = g' ∧ F = feed ne np l new F' ∧
      ∀ (tail : List Bool) (w : List (Nat × Bool)) (rd os : List Bool), ∃ w' rd',
        (l.map toCOp).foldlM (stepOp np (ne + np) .prob) ⟨t, w, script ++ tail, rd, os⟩ =
          some ⟨t', w', tail, rd', os ++ new⟩ := by
  induction l generalizing t F with
  | nil =>
    simp only [runSeq, List.foldl_nil, Option.some.injEq, Prod.mk.injEq] at h
    refine ⟨[], t, [], ht, h.1, h.2, fun tail w rd os => ⟨w, rd, ?_⟩⟩
    simp
  | cons a l ih =>
    obtain ⟨hd1, hd2⟩ := hok a List.mem_cons_self
    obtain ⟨dd, hdd⟩ := Option.isSome_iff_exists.mp hd1
    obtain ⟨hwf, hpr, hms⟩ := decode_toCOp ne np a dd hdd hd2
    have hin := decode_inRange ne np a dd hdd
    rw [Wire.runSeq_cons] at h
    have e0 := appRaw_map ne np a dd hdd (some (gstate t)) F
    simp only [Option.map_some] at e0
    rw [e0] at h
    by_cases hhas : dd.has F
    · rw [if_pos hhas] at h
      cases hr : runP (ne + np) (dd.prims (dd.out F)) (some (gstate t)) with
      | none => rw [hr, Option.map_none, runSeq_appRaw_none] at h; cases h
      | some g1 =>
        rw [hr, Option.map_some] at h
        rw [hpr] at hr
        obtain ⟨pre, t1, ht1, hg1, hstep⟩ := cop_complete np (ne + np) (toCOp a) hwf hin ht (dd.out F) g1 hr
        rw [← hg1] at h
        obtain ⟨script2, t', new2, ht', hg', hF, hrun⟩ := ih (fun b hb => hok b (List.mem_cons_of_mem _ hb)) ht1 _ h
        refine ⟨pre ++ script2, t', (if cMeasures (toCOp a) then [dd.out F] else []) ++ new2, ht', hg', ?_,
          fun tail w rd os => ?_⟩
        · -- the streams
          cases hm : dd.mreg with
          | none =>
            have hmf : cMeasures (toCOp a) = false := by rw [← hms, hm]; rfl
            have hpop : dd.pop F = F := by simp [Dec.pop, hm]
            rw [hpop] at hF
            simp only [hmf, Bool.false_eq_true, if_false, List.nil_append, feed, hdd, Option.bind_some, hm]
            exact hF
          | some r =>
            have hmt : cMeasures (toCOp a) = true := by rw [← hms, hm]; rfl
            have hpop : dd.pop F = popReg F r := by simp [Dec.pop, hm]
            have hout : dd.out F = (F r).headD false := by simp [Dec.out, hm]
            have hne : F r ≠ [] := by simpa [Dec.has, hm] using hhas
            rw [hpop] at hF
            simp only [hmt, if_true, List.singleton_append, feed, hdd, Option.bind_some, hm, List.tail_cons,
              List.headD_cons]
            rw [← hF, hout, pushOut_popReg F r hne]
        · obtain ⟨w1, rd1, hs1⟩ := hstep (script2 ++ tail) w rd os
          obtain ⟨w2, rd2, hs2⟩ := hrun tail w1 rd1 (os ++ (if cMeasures (toCOp a) then [dd.out F] else []))
          refine ⟨w2, rd2, ?_⟩
          simp only [List.map_cons, List.foldlM]
          rw [List.append_assoc, hs1]
          simp only [Option.bind_eq_bind, Option.bind_some]
          rw [hs2, List.append_assoc]
    · rw [if_neg hhas, runSeq_appRaw_none] at h; cases h

theorem tinv_ket0 (n : Nat) : TInv n (Tab.ket0 n) :=
  ⟨Tab.ket0_valid n, by
    intro i h1 _
    have h1' : n ≤ i := h1
    have : ¬ i < n := by omega
    simp [Tab.ket0, this, Zq], rfl⟩

/-- completeness on a sane circuit, from `|0…0⟩`: a possible run of the group semantics along `seq` is produced by
    `stabRun` in probabilistic mode under some script -/
theorem stabRun_complete (c : Wire.Circuit) (hgood : c.Good) (har : ArityOk c) (seq : List Nat) (F : Script) (g' : GState)
    (h : runSeq (appRaw c.ne c.np) (c.sops seq) (some (gstate (Tab.ket0 (c.ne + c.np)), F)) = some (g', fun _ => [])) :
    ∃ (script : List Bool) (s' : RunState),
      stabRun c.ne c.np .prob script ((c.sops seq).map toCOp) = some s' ∧ gstate s'.t = g' ∧
        F = feed c.ne c.np (c.sops seq) s'.outs (fun _ => []) := by
  obtain ⟨script, t', new, _, hg, hF, hrun⟩ := run_complete c.ne c.np (c.sops seq) (sops_ok c hgood har seq)
    (tinv_ket0 (c.ne + c.np)) F (fun _ => []) g' h
  obtain ⟨w', rd', hs⟩ := hrun [] [] [] []
  refine ⟨script, ⟨t', w', [], rd', [] ++ new⟩, ?_, hg, by simpa using hF⟩
  unfold stabRun stabRunFrom
  rw [List.append_nil] at hs
  exact hs

/-! ### from an arbitrary valid initial tableau (`compile(circuit, initial_state)`) -/

theorem stabRunFrom_refines (c : Wire.Circuit) (hgood : c.Good) (har : ArityOk c) (seq : List Nat) (t0 : Tab)
    (h0 : TInv (c.ne + c.np) t0) (d : Det) (script : List Bool) (s' : RunState)
    (h : stabRunFrom t0 c.np d script ((c.sops seq).map toCOp) = some s') :
    TInv (c.ne + c.np) s'.t ∧ ∀ sc, runSeq (appRaw c.ne c.np) (c.sops seq)
        (some (gstate t0, feed c.ne c.np (c.sops seq) s'.outs sc)) = some (gstate s'.t, sc) := by
  unfold stabRunFrom at h
  rw [h0.n_eq] at h
  obtain ⟨ht', new, hnew, hrun⟩ := run_refines c.ne c.np d (c.sops seq) (sops_ok c hgood har seq)
    { t := t0, writes := [], script := script, rand := [], outs := [] } s' h0 h
  simp only [List.nil_append] at hnew
  rw [hnew]
  exact ⟨ht', hrun⟩

theorem stabRunFrom_complete (c : Wire.Circuit) (hgood : c.Good) (har : ArityOk c) (seq : List Nat) (t0 : Tab)
    (h0 : TInv (c.ne + c.np) t0) (F : Script) (g' : GState)
    (h : runSeq (appRaw c.ne c.np) (c.sops seq) (some (gstate t0, F)) = some (g', fun _ => [])) :
    ∃ (script : List Bool) (s' : RunState),
      stabRunFrom t0 c.np .prob script ((c.sops seq).map toCOp) = some s' ∧ gstate s'.t = g' ∧
        F = feed c.ne c.np (c.sops seq) s'.outs (fun _ => []) := by
  obtain ⟨script, t', new, _, hg, hF, hrun⟩ := run_complete c.ne c.np (c.sops seq) (sops_ok c hgood har seq)
    h0 F (fun _ => []) g' h
  obtain ⟨w', rd', hs⟩ := hrun [] [] [] []
  refine ⟨script, ⟨t', w', [], rd', [] ++ new⟩, ?_, hg, by simpa using hF⟩
  unfold stabRunFrom
  rw [List.append_nil] at hs
  rw [h0.n_eq]
  exact hs

/-- the state of the semantics described by a valid tableau and outcome streams -/
noncomputable def GSt.ofTab (ne np : Nat) (t0 : Tab) (h0 : TInv (ne + np) t0) (sc : Script) : GSt ne np :=
  ⟨some (gstate t0, sc), fun g sc' h => by
    simp only [Option.some.injEq, Prod.mk.injEq] at h
    rw [← h.1]; exact h0.isTab⟩

end Graphiq.Commute
