/-
  Proofs/AltTargetFinal.lean — the parts of `AlternateTargetSolver.solve` instantiated (C10):
  * the relabel map: the decidable specification recorded for networkx `GraphMatcher.mapping` (`isIsoMap`, evaluated on every observed
    call) implies that the relabelled target IS the target renamed by the map (`iso_of_isIsoMap`);
  * the LC conversion: appending `str_to_op(lc_check(lc, iso, validate=True))` to a circuit that generates |lc⟩ ⊗ |0…0⟩ gives a circuit that
    generates |iso⟩ ⊗ |0…0⟩ (`conv_generates`; C09 `lcCheckR_sound` + uniqueness of the stabilizer group of a valid tableau, C07, lifted from
    the photons to photons + emitters);
  * the time-reversed solver: C02 `model_solver_generates`.
-/
import Mathlib.Data.Fintype.Card
import Mathlib.Data.Fintype.Pi
import Mathlib.Data.Finite.Defs
import GraphiqModel.Proofs.AltTargetLoop
import GraphiqModel.Proofs.AltTargetConvDefs
import GraphiqModel.Proofs.AltTargetConvRun
namespace Graphiq
namespace Alt
open PRow STab Tab

/-- an injective map of `{0..n-1}` into itself is onto -/
theorem inj_surj (n : Nat) (m : Nat → Nat) (hr : ∀ u, u < n → m u < n) (hi : ∀ u v, u < n → v < n → m u = m v → u = v)
    (a : Nat) (ha : a < n) : ∃ u, u < n ∧ m u = a := by
  let φ : Fin n → Fin n := fun u => ⟨m u.val, hr u.val u.isLt⟩
  have hinj : Function.Injective φ := by
    intro u v h
    apply Fin.ext
    exact hi u.val v.val u.isLt v.isLt (congrArg Fin.val h)
  obtain ⟨u, hu⟩ := (Finite.injective_iff_surjective.1 hinj) ⟨a, ha⟩
  exact ⟨u.val, u.isLt, congrArg Fin.val hu⟩

/-- **the matcher's specification gives the renamed target**: if `m` passes the isomorphism test `isIsoMap n A B m` (what is recorded for
    networkx `GraphMatcher.mapping` and evaluated on every observed `get_relabel_map`), then on the vertices `B` is `A` renamed by `m` -/
theorem iso_of_isIsoMap (n : Nat) (A B : Adj) (m : List Nat) (h : isIsoMap n A B m = true) :
    ∀ a b, a < n → b < n → B a b = relabelAdj n A m a b := by
  obtain ⟨_, hr, hinj, hedge⟩ := isIsoMap_spec n A B m h
  intro a b ha hb
  obtain ⟨u, hu, eu⟩ := inj_surj n (fun u => m.getD u n) hr hinj a ha
  obtain ⟨v, hv, ev⟩ := inj_surj n (fun u => m.getD u n) hr hinj b hb
  rw [← eu, ← ev, ← hedge u v hu hv]
  exact (relabelAdj_edge n A m hinj u v hu hv).symm

/-- a graph isomorphic (by a map passing `isIsoMap`) to a simple graph is simple -/
theorem simple_of_isIsoMap (n : Nat) (A B : Adj) (m : List Nat) (hA : Simple n A) (h : isIsoMap n A B m = true) : Simple n B := by
  obtain ⟨_, hr, hinj, hedge⟩ := isIsoMap_spec n A B m h
  constructor
  · intro a b ha hb
    obtain ⟨u, hu, eu⟩ := inj_surj n (fun u => m.getD u n) hr hinj a ha
    obtain ⟨v, hv, ev⟩ := inj_surj n (fun u => m.getD u n) hr hinj b hb
    rw [← eu, ← ev, ← hedge u v hu hv, ← hedge v u hv hu]
    exact hA.1 u v hu hv
  · intro a ha
    obtain ⟨u, hu, eu⟩ := inj_surj n (fun u => m.getD u n) hr hinj a ha
    rw [← eu, ← hedge u u hu hu]
    exact hA.2 u hu

theorem cutAdj_symm (n : Nat) (A : Adj) (hA : Simple n A) : ∀ i j, cutAdj n A i j = cutAdj n A j i := by
  intro i j
  unfold cutAdj
  by_cases hi : i < n <;> by_cases hj : j < n <;> simp [hi, hj]
  exact hA.1 i j hi hj

theorem cutAdj_agree (n : Nat) (A : Adj) : ∀ i j, i < n → j < n → cutAdj n A i j = A i j := by
  intro i j hi hj
  simp [cutAdj, hi, hj]

/-! ### the translated gate list contains no measuring operation -/

theorem countMeas_append (a b : List COp) : countMeas (a ++ b) = countMeas a + countMeas b := by
  induction a with
  | nil => simp [countMeas]
  | cons o r ih =>
    cases o <;> simp [countMeas, ih] <;> omega

theorem gateCOp_noMeas (g : String × Nat) (o : COp) (h : gateCOp g = some o) : countMeas [o] = 0 := by
  unfold gateCOp at h
  split at h <;> first | (injection h with h; rw [← h]; rfl) | cases h

theorem gatesCOps_noMeas (gates : List (String × Nat)) (gops : List COp) (h : gatesCOps gates = some gops) : countMeas gops = 0 := by
  unfold gatesCOps at h
  induction gates generalizing gops with
  | nil =>
    simp only [List.mapM_nil, Option.pure_def, Option.some.injEq] at h
    rw [← h]; rfl
  | cons g rest ih =>
    rw [List.mapM_cons] at h
    cases hg : gateCOp g with
    | none => rw [hg] at h; simp at h
    | some o =>
      cases hr : rest.mapM gateCOp with
      | none => rw [hg, hr] at h; simp at h
      | some os =>
        rw [hg, hr] at h
        simp only [Option.pure_def, Option.bind_eq_bind, Option.bind_some, Option.some.injEq] at h
        rw [← h]
        have e : o :: os = [o] ++ os := rfl
        rw [e, countMeas_append, gateCOp_noMeas g o hg, ih os hr]

/-! ### the LC conversion step -/

theorem target_row_photon (np ne : Nat) (A : Adj) (i : Nat) (hi : i < np) :
    PRow.EqOn (np + ne) ((targetSTab np ne A).row i) (PRow.truncCols np (LC.graphGen A i)) := by
  have e : (targetSTab np ne A).row i = ⟨fun j => decide (j = i), fun j => decide (j < np) && A i j, false, false⟩ := by
    simp [targetSTab, hi]
  rw [e]
  refine ⟨fun j hj => ?_, rfl, rfl⟩
  simp only [PRow.truncCols, LC.graphGen]
  by_cases hjn : j < np
  · simp [hjn]
  · have : ¬ j = i := by omega
    simp [hjn, this]

theorem target_row_emitter (np ne : Nat) (A : Adj) (i : Nat) (hi : np ≤ i) : (targetSTab np ne A).row i = PRow.Zq i := by
  have : ¬ i < np := by omega
  simp [targetSTab, this]

/-- **appending the validated LC-conversion gates**: if `lc_check(lc, iso, validate=True)` succeeds and `ops` generates `|lc⟩ ⊗ |0…0⟩` under
    every outcome script, then `ops ++ str_to_op(gates)` generates `|iso⟩ ⊗ |0…0⟩` under every outcome script -/
theorem conv_generates (np ne : Nat) (lc iso : BMat) (hr : lc.r = np) (hA : Simple np lc.f) (hB : Simple np iso.f)
    (gops : List COp) (hc : convModel lc iso = some gops) (ops : List COp) (hgen : Generates ne np ops lc.f) :
    Generates ne np (ops ++ gops) iso.f := by
  unfold convModel at hc
  cases hl : LC.lcCheckR lc iso true with
  | error e => rw [hl] at hc; cases hc
  | ok v =>
    obtain ⟨okb, gates⟩ := v
    rw [hl] at hc
    cases okb with
    | false => cases hc
    | true =>
      simp only at hc
      obtain ⟨hrange, hsub, hsup⟩ := conv_group_eq lc iso gates (hr ▸ hA) (hr ▸ hB) hl
      rw [hr] at hrange hsub hsup
      intro script hlen
      rw [countMeas_append, gatesCOps_noMeas gates gops hc, Nat.add_zero] at hlen
      obtain ⟨rs, hs, se⟩ := hgen script hlen
      have hn : rs.t.n = ne + np := by
        have : (STab.ofTab rs.t).n = np + ne := se.n_eq
        show (STab.ofTab rs.t).n = ne + np
        omega
      obtain ⟨rs', hrun, hn', hiff⟩ := append_gates_group ne np script ops gops gates hc hrange rs hs hn
      refine ⟨rs', hrun, ?_⟩
      have eN : ne + np = np + ne := Nat.add_comm _ _
      rw [eN] at hiff hn'
      have hrangeN : ∀ g, g ∈ gates → g.2 < np + ne := fun g hg => by have := hrange g hg; omega
      have aut := namesAct_isAut (np + ne) gates hrangeN
      -- the images of the generators of the LC target
      have himgP : ∀ i, i < np → PRow.EqOn (np + ne) (namesAct gates ((targetSTab np ne lc.f).row i))
          (PRow.truncCols np (namesAct gates (LC.graphGen lc.f i))) := fun i hi =>
        (aut.congr _ _ (target_row_photon np ne lc.f i hi)).trans (namesAct_trunc np ne gates hrange _)
      have himgE : ∀ i, np ≤ i → PRow.EqOn (np + ne) (namesAct gates ((targetSTab np ne lc.f).row i)) (PRow.Zq i) := by
        intro i hi
        rw [target_row_emitter np ne lc.f i hi]
        apply namesAct_fix_right np ne gates hrange
        intro j hj
        refine ⟨rfl, ?_⟩
        show decide (j = i) = false
        have : ¬ j = i := by omega
        simp [this]
      have hTIn : (targetSTab np ne iso.f).n = np + ne := rfl
      have hTLn : (targetSTab np ne lc.f).n = np + ne := rfl
      -- every element of the old group is mapped into the new target group
      have C1 : ∀ a, (targetSTab np ne lc.f).Spn a → (targetSTab np ne iso.f).Spn (namesAct gates a) := by
        intro a ha
        unfold STab.Spn at ha ⊢
        rw [hTLn] at ha
        rw [hTIn]
        induction ha with
        | one => exact InSpan.eqv _ _ InSpan.one (namesAct_one (np + ne) gates).symm
        | gen i hi =>
          by_cases hip : i < np
          · have h1 := inSpan_lift np ne np (np + ne) (fun q => LC.graphGen iso.f q) (targetSTab np ne iso.f).row _
              (fun q hq => target_row_photon np ne iso.f q hq) (by omega) (hsub i hip)
            exact InSpan.eqv _ _ h1 (himgP i hip).symm
          · have h2 : InSpan (np + ne) (np + ne) (targetSTab np ne iso.f).row ((targetSTab np ne iso.f).row i) := InSpan.gen i hi
            rw [target_row_emitter np ne iso.f i (by omega)] at h2
            exact InSpan.eqv _ _ h2 (himgE i (by omega)).symm
        | mul a b _ _ iha ihb => exact InSpan.eqv _ _ (InSpan.mul _ _ iha ihb) (aut.mul a b).symm
        | eqv a b _ hab iha => exact InSpan.eqv _ _ iha (aut.congr a b hab)
      -- the images of the old generators are in the new group
      have hgenImg : ∀ i, i < np + ne → (STab.ofTab rs'.t).Spn (namesAct gates ((targetSTab np ne lc.f).row i)) := by
        intro i hi
        exact (hiff _).2 ⟨_, se.sup _ (spn_gen (targetSTab np ne lc.f) i hi), PRow.EqOn.refl _ _⟩
      refine ⟨hn', fun b hb => ?_, ?_⟩
      · obtain ⟨a, ha, ea⟩ := (hiff b).1 hb
        have := C1 a (se.sub a ha)
        exact InSpan.eqv _ _ this ea
      · apply span_le_of_gens (STab.ofTab rs'.t) (targetSTab np ne iso.f) (by rw [hn']; rfl)
        intro q hq
        have hq' : q < np + ne := hq
        by_cases hqp : q < np
        · have h1 := inSpan_lift np ne np (np + ne) (fun i => namesAct gates (LC.graphGen lc.f i))
            (fun i => namesAct gates ((targetSTab np ne lc.f).row i)) _ (fun i hi => himgP i hi) (by omega) (hsup q hqp)
          have h2 : InSpan (np + ne) (np + ne) (STab.ofTab rs'.t).row (PRow.truncCols np (LC.graphGen iso.f q)) := by
            refine inSpan_of_gens (np + ne) (np + ne) (np + ne) _ _ _ ?_ h1
            intro i hi
            have := hgenImg i hi
            unfold STab.Spn at this
            rw [hn'] at this
            exact this
          unfold STab.Spn
          rw [hn']
          exact InSpan.eqv _ _ h2 (target_row_photon np ne iso.f q hqp).symm
        · have := hgenImg q hq'
          rw [target_row_emitter np ne iso.f q (by omega)]
          unfold STab.Spn at this ⊢
          rw [hn'] at this ⊢
          exact InSpan.eqv _ _ this (himgE q (by omega))

end Alt
end Graphiq
