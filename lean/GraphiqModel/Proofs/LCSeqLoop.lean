/-
  Proofs/LCSeqLoop.lean — the loops of `lc_graph_operations` (`_singles`, `_doubles`, the two `while`s) keep the invariant of
  Proofs/LCSeqStep.lean; correctness of the returned vertex sequence.

  `Track n b θ0 r seq μ`: after the complementations `seq` the matrix `r` the Python holds is `R(θ, Q)` for the current graph
  `θ = θ0 * seq` and some valid local Clifford `Q` from θ to the target `b`; `μ` counts the blocks with `c = 1` (the
  termination measure of the `singles` loop).
-/
import GraphiqModel.Proofs.LCSeqStep
namespace Graphiq.LC
open Graphiq

/-! ### counting -/

theorem countTo_congr (n : Nat) (f g : Nat → Bool) (h : ∀ j, j < n → f j = g j) : countTo n f = countTo n g := by
  induction n with
  | zero => rfl
  | succ k ih =>
    simp only [countTo]
    rw [ih (fun j hj => h j (by omega)), h k (by omega)]

theorem countTo_le (n : Nat) (f : Nat → Bool) : countTo n f ≤ n := by
  induction n with
  | zero => exact Nat.le_refl 0
  | succ k ih =>
    simp only [countTo]
    split <;> omega

/-- clearing one set position lowers the count by one -/
theorem countTo_clear (n v : Nat) (f g : Nat → Bool) (hv : v < n) (hf : f v = true) (hg : g v = false)
    (h : ∀ j, j ≠ v → g j = f j) : countTo n g + 1 = countTo n f := by
  induction n with
  | zero => omega
  | succ k ih =>
    simp only [countTo]
    by_cases e : v = k
    · subst e
      rw [hf, hg, countTo_congr v g f (fun j hj => h j (by omega))]
      simp
    · rw [h k (fun x => e x.symm)]
      have := ih (by omega)
      omega

/-- number of blocks with `c = 1` -/
def cntC (n : Nat) (q : Nat → Bool) : Nat := countTo n fun m => q (4 * m + 2)

/-! ### the tracked state -/

def Track (n : Nat) (b θ0 : Adj) (r : BMat) (seq : List Nat) (μ : Nat) : Prop :=
  ∃ q : Nat → Bool, LCInv n (applySeq θ0 seq) b q ∧ RRel n r (applySeq θ0 seq) q ∧ (∀ v ∈ seq, v < n) ∧ cntC n q = μ

theorem Track.rows {n : Nat} {b θ0 : Adj} {r : BMat} {seq : List Nat} {μ : Nat} (h : Track n b θ0 r seq μ) : r.r = n := by
  obtain ⟨_, _, hR, _, _⟩ := h
  exact hR.hr

theorem Track.cols {n : Nat} {b θ0 : Adj} {r : BMat} {seq : List Nat} {μ : Nat} (h : Track n b θ0 r seq μ) : r.c = n := by
  obtain ⟨_, _, hR, _, _⟩ := h
  exact hR.hc

theorem Track.bound {n : Nat} {b θ0 : Adj} {r : BMat} {seq : List Nat} {μ : Nat} (h : Track n b θ0 r seq μ) : μ ≤ n := by
  obtain ⟨q, _, _, _, hμ⟩ := h
  rw [← hμ]
  exact countTo_le n _

theorem Track.valid {n : Nat} {b θ0 : Adj} {r : BMat} {seq : List Nat} {μ : Nat} (h : Track n b θ0 r seq μ) :
    ∀ v ∈ seq, v < n := by
  obtain ⟨_, _, _, hs, _⟩ := h
  exact hs

/-- **one `_apply_f` at a vertex with `c_v = 1`** (recognised on `R`: a 0 on the diagonal, or an off-diagonal 1 in row `v`)
    is one local complementation; the count of `c = 1` blocks drops by one exactly when `R_vv = 1` -/
theorem Track.step {n : Nat} {b θ0 : Adj} {r : BMat} {seq : List Nat} {μ : Nat} (h : Track n b θ0 r seq μ)
    (hb : Simple n b) (v : Nat) (hv : v < n) (hcv : r.f v v = false ∨ ∃ j, j < n ∧ j ≠ v ∧ r.f v j = true) :
    ∃ μ', Track n b θ0 (applyF r v) (seq ++ [v]) μ' ∧ μ' + (if r.f v v then 1 else 0) = μ := by
  obtain ⟨q, hI, hR, hs, hμ⟩ := h
  have hc : q (4 * v + 2) = true := by
    rcases hcv with h0 | ⟨j, hj, hne, h1⟩
    · exact c_of_diag_zero hI hR v hv h0
    · exact c_of_offdiag hR v j hv hj hne h1
  have hdv : r.f v v = q (4 * v + 3) := by
    rw [hR.hf v v hv hv]; unfold rOf; simp
  refine ⟨cntC n (stepQ q (applySeq θ0 seq) v), ⟨stepQ q (applySeq θ0 seq) v, ?_, ?_, ?_, rfl⟩, ?_⟩
  · rw [applySeq_append]; exact hI.step hb v hv
  · rw [applySeq_append]; exact applyF_tracks n r _ q v hv hI.simple hR hc
  · intro w hw
    rcases List.mem_append.mp hw with hw | hw
    · exact hs w hw
    · rw [List.mem_singleton.mp hw]; exact hv
  · rw [← hμ, hdv]
    unfold cntC
    cases hd : q (4 * v + 3)
    · simp only [Bool.false_eq_true, if_false, Nat.add_zero]
      apply countTo_congr
      intro m _
      rw [stepQ_2]
      by_cases e : m = v
      · subst e; rw [hd]; simp
      · simp [e]
    · simp only [if_true]
      apply countTo_clear n v _ _ hv hc
      · rw [stepQ_2, hc, hd]; simp
      · intro m hm
        rw [stepQ_2]; simp [hm]

/-! ### `_singles` -/

theorem rowIsUnit_false (r : BMat) (i : Nat) (h : rowIsUnit r i = false) : ∃ j, j < r.c ∧ r.f i j ≠ decide (i = j) := by
  unfold rowIsUnit at h
  have : ¬ ((List.range r.c).all fun j => r.f i j == decide (i = j)) = true := by rw [h]; simp
  rw [List.all_eq_true] at this
  apply Classical.byContradiction
  intro hno
  apply this
  intro j hj
  have hj' : j < r.c := List.mem_range.mp hj
  cases e : (r.f i j == decide (i = j))
  · exact absurd ⟨j, hj', by simpa using e⟩ hno
  · rfl

theorem rowIsUnit_true (r : BMat) (i : Nat) (h : rowIsUnit r i = true) (j : Nat) (hj : j < r.c) : r.f i j = decide (i = j) := by
  unfold rowIsUnit at h
  rw [List.all_eq_true] at h
  have := h j (List.mem_range.mpr hj)
  simpa using this

theorem rowIsUnit_of (r : BMat) (i : Nat) (h : ∀ j, j < r.c → r.f i j = decide (i = j)) : rowIsUnit r i = true := by
  unfold rowIsUnit
  rw [List.all_eq_true]
  intro j hj
  rw [h j (List.mem_range.mp hj)]
  simp

/-- the test of `_singles` / `_condition` at `i` -/
def singleTest (r : BMat) (i : Nat) : Bool := r.f i i && !rowIsUnit r i

theorem singleTest_offdiag (r : BMat) (i : Nat) (h : singleTest r i = true) :
    r.f i i = true ∧ ∃ j, j < r.c ∧ j ≠ i ∧ r.f i j = true := by
  unfold singleTest at h
  have h1 : r.f i i = true := by revert h; cases r.f i i <;> simp
  have h2 : rowIsUnit r i = false := by revert h; cases rowIsUnit r i <;> simp
  obtain ⟨j, hj, hne⟩ := rowIsUnit_false r i h2
  refine ⟨h1, j, hj, ?_, ?_⟩
  · intro e; subst e; rw [h1] at hne; simp at hne
  · by_cases e : i = j
    · subst e; rw [h1] at hne; simp at hne
    · simp only [e, decide_false] at hne
      revert hne; cases r.f i j <;> simp

def singlesStep (st : BMat × List Nat) (i : Nat) : BMat × List Nat :=
  if singleTest st.1 i then (applyF st.1 i, st.2 ++ [i]) else st

theorem singles_eq (r : BMat) : singles r = (List.range r.r).foldl singlesStep (r, []) := rfl

theorem condition_eq (r : BMat) : condition r = (List.range r.r).any fun i => singleTest r i := rfl

/-- `_singles` keeps the invariant; every recorded vertex lowers the measure by one -/
theorem singles_fold (n : Nat) (b θ0 : Adj) (hb : Simple n b) (seq0 : List Nat) (l : List Nat) :
    ∀ (st : BMat × List Nat) (μ : Nat), (∀ i ∈ l, i < n) → Track n b θ0 st.1 (seq0 ++ st.2) μ →
      ∃ μ', Track n b θ0 (l.foldl singlesStep st).1 (seq0 ++ (l.foldl singlesStep st).2) μ' ∧
        μ' + (l.foldl singlesStep st).2.length = μ + st.2.length := by
  induction l with
  | nil => intro st μ _ h; exact ⟨μ, h, rfl⟩
  | cons i l ih =>
    intro st μ hl h
    rw [List.foldl_cons]
    have hi : i < n := hl i (by simp)
    have hl' : ∀ j ∈ l, j < n := fun j hj => hl j (List.mem_cons_of_mem _ hj)
    by_cases ht : singleTest st.1 i = true
    · obtain ⟨hd, j, hj, hne, h1⟩ := singleTest_offdiag st.1 i ht
      rw [h.cols] at hj
      obtain ⟨μ1, hT1, hμ1⟩ := h.step hb i hi (Or.inr ⟨j, hj, hne, h1⟩)
      rw [hd] at hμ1
      simp only [if_true] at hμ1
      have e : singlesStep st i = (applyF st.1 i, st.2 ++ [i]) := by unfold singlesStep; rw [if_pos ht]
      rw [e]
      have hT1' : Track n b θ0 (applyF st.1 i, st.2 ++ [i]).1 (seq0 ++ (applyF st.1 i, st.2 ++ [i]).2) μ1 := by
        show Track n b θ0 (applyF st.1 i) (seq0 ++ (st.2 ++ [i])) μ1
        rw [← List.append_assoc]; exact hT1
      obtain ⟨μ', hT', hμ'⟩ := ih _ μ1 hl' hT1'
      refine ⟨μ', hT', ?_⟩
      rw [hμ']
      show μ1 + (st.2 ++ [i]).length = μ + st.2.length
      rw [List.length_append, List.length_singleton]
      omega
    · have e : singlesStep st i = st := by unfold singlesStep; rw [if_neg ht]
      rw [e]
      exact ih st μ hl' h

/-- the list only grows; if it did not grow no test fired on the initial matrix -/
theorem singles_fold_progress (l : List Nat) :
    ∀ st : BMat × List Nat, st.2.length ≤ (l.foldl singlesStep st).2.length ∧
      ((l.foldl singlesStep st).2.length = st.2.length → ∀ i ∈ l, singleTest st.1 i = false) := by
  induction l with
  | nil => intro st; exact ⟨Nat.le_refl _, fun _ i hi => by simp at hi⟩
  | cons i l ih =>
    intro st
    rw [List.foldl_cons]
    by_cases ht : singleTest st.1 i = true
    · have e : singlesStep st i = (applyF st.1 i, st.2 ++ [i]) := by unfold singlesStep; rw [if_pos ht]
      rw [e]
      have h1 := (ih (applyF st.1 i, st.2 ++ [i])).1
      have h2 : (applyF st.1 i, st.2 ++ [i]).2.length = st.2.length + 1 := by
        show (st.2 ++ [i]).length = _
        rw [List.length_append, List.length_singleton]
      rw [h2] at h1
      exact ⟨by omega, fun hh => by omega⟩
    · have e : singlesStep st i = st := by unfold singlesStep; rw [if_neg ht]
      rw [e]
      refine ⟨(ih st).1, fun hh j hj => ?_⟩
      rcases List.mem_cons.mp hj with hj | hj
      · rw [hj]; revert ht; cases singleTest st.1 i <;> simp
      · exact (ih st).2 hh j hj

/-- `_condition(R)` true ⇒ the pass of `_singles` records at least one vertex -/
theorem singles_progress (r : BMat) (h : condition r = true) : 1 ≤ (singles r).2.length := by
  rw [condition_eq, List.any_eq_true] at h
  obtain ⟨i, hi, ht⟩ := h
  rw [singles_eq]
  have hp := singles_fold_progress (List.range r.r) (r, [])
  rcases Nat.eq_zero_or_pos ((List.range r.r).foldl singlesStep (r, [])).2.length with e | e
  · have := hp.2 (by rw [e]; rfl) i hi
    rw [ht] at this
    exact absurd this (by decide)
  · exact e

theorem singlesLoop_succ (fuel : Nat) (r : BMat) (acc : List Nat) :
    singlesLoop (fuel + 1) r acc =
      if condition r then singlesLoop fuel (singles r).1 (acc ++ (singles r).2) else .ok (r, acc) := rfl

/-- the first `while`: a returned state satisfies the invariant and `_condition` is false on it -/
theorem singlesLoop_ok (n : Nat) (b θ0 : Adj) (hb : Simple n b) (fuel : Nat) :
    ∀ (r : BMat) (acc : List Nat) (μ : Nat) (r' : BMat) (acc' : List Nat), Track n b θ0 r acc μ →
      singlesLoop fuel r acc = .ok (r', acc') → (∃ μ', Track n b θ0 r' acc' μ') ∧ condition r' = false := by
  induction fuel with
  | zero => intro r acc μ r' acc' _ e; cases e
  | succ k ih =>
    intro r acc μ r' acc' h e
    rw [singlesLoop_succ] at e
    by_cases hc : condition r = true
    · rw [if_pos hc] at e
      have hl : ∀ i ∈ List.range r.r, i < n := fun i hi => by rw [h.rows] at hi; exact List.mem_range.mp hi
      obtain ⟨μ', hT, _⟩ := singles_fold n b θ0 hb acc (List.range r.r) (r, []) μ hl (by simpa using h)
      rw [← singles_eq] at hT
      exact ih _ _ μ' r' acc' hT e
    · rw [if_neg hc] at e
      cases e
      exact ⟨⟨μ, h⟩, by revert hc; cases condition r <;> simp⟩

/-- **the first `while` terminates**: every pass with `_condition` true removes at least one `c = 1` block -/
theorem singlesLoop_terminates (n : Nat) (b θ0 : Adj) (hb : Simple n b) (fuel : Nat) :
    ∀ (r : BMat) (acc : List Nat) (μ : Nat), Track n b θ0 r acc μ → μ < fuel →
      ∃ r' acc', singlesLoop fuel r acc = .ok (r', acc') := by
  induction fuel with
  | zero => intro r acc μ _ hf; omega
  | succ k ih =>
    intro r acc μ h hf
    rw [singlesLoop_succ]
    by_cases hc : condition r = true
    · rw [if_pos hc]
      have hl : ∀ i ∈ List.range r.r, i < n := fun i hi => by rw [h.rows] at hi; exact List.mem_range.mp hi
      obtain ⟨μ', hT, hμ⟩ := singles_fold n b θ0 hb acc (List.range r.r) (r, []) μ hl (by simpa using h)
      rw [← singles_eq] at hT hμ
      have hp := singles_progress r hc
      have hμ' : μ' + (singles r).2.length = μ := by simpa using hμ
      exact ih _ _ μ' hT (by omega)
    · rw [if_neg hc]
      exact ⟨r, acc, rfl⟩

/-! ### `_doubles` -/

/-- the flattened triples `i, j, i` -/
def flat3 (d : List (Nat × Nat)) : List Nat := d.flatMap fun p => [p.1, p.2, p.1]

theorem flat3_append (d e : List (Nat × Nat)) : flat3 (d ++ e) = flat3 d ++ flat3 e := by
  unfold flat3; rw [List.flatMap_append]

theorem flat3_single (j k : Nat) : flat3 [(j, k)] = [j, k, j] := rfl

def doublesStep (n : Nat) (acc : Except Err (BMat × List (Nat × Nat))) (j : Nat) : Except Err (BMat × List (Nat × Nat)) :=
  match acc with
  | .error e => .error e
  | .ok st =>
    if !rowIsUnit st.1 j && !st.1.f j j then
      match (List.range n).filter fun k => st.1.f k j with
      | [] => .error .index
      | k :: _ => .ok (applyF (applyF (applyF st.1 j) k) j, st.2 ++ [(j, k)])
    else .ok st

theorem doubles_eq (r : BMat) : doubles r = (List.range r.r).foldl (doublesStep r.r) (.ok (r, [])) := rfl

theorem doubles_error (n : Nat) (l : List Nat) (e : Err) : l.foldl (doublesStep n) (.error e) = .error e := by
  induction l with
  | nil => rfl
  | cons j l ih => rw [List.foldl_cons]; exact ih

/-- for a tracked `R` with `R_jj = 0` and `R_kj = 1` also `R_jk = 1` -/
theorem Track.sym_entry {n : Nat} {b θ0 : Adj} {r : BMat} {seq : List Nat} {μ : Nat} (h : Track n b θ0 r seq μ)
    (j k : Nat) (hj : j < n) (hk : k < n) (hjj : r.f j j = false) (hkj : r.f k j = true) : r.f j k = true := by
  obtain ⟨q, hI, hR, _, _⟩ := h
  have hne : k ≠ j := by intro e; subst e; rw [hjj] at hkj; cases hkj
  have hne' : ¬ j = k := fun e => hne e.symm
  have hc := c_of_diag_zero hI hR j hj hjj
  rw [hR.hf k j hk hj] at hkj
  rw [hR.hf j k hj hk]
  unfold rOf at hkj ⊢
  simp only [hne, hne', if_false] at hkj ⊢
  rw [hc, hI.simple.1 j k hj hk]
  revert hkj
  cases q (4 * k + 2) <;> simp

/-- **one step of `_doubles` is three local complementations** `j, k, j` (for `R_jj = 0`, `R_kj = 1`) -/
theorem Track.double {n : Nat} {b θ0 : Adj} {r : BMat} {seq : List Nat} {μ : Nat} (h : Track n b θ0 r seq μ)
    (hb : Simple n b) (j k : Nat) (hj : j < n) (hk : k < n) (hjj : r.f j j = false) (hkj : r.f k j = true) :
    ∃ μ', Track n b θ0 (applyF (applyF (applyF r j) k) j) (seq ++ [j, k, j]) μ' := by
  have hne : k ≠ j := by intro e; subst e; rw [hjj] at hkj; cases hkj
  have hjk := h.sym_entry j k hj hk hjj hkj
  have hr := h.rows
  obtain ⟨μ1, h1, _⟩ := h.step hb j hj (Or.inl hjj)
  have e1 : (applyF r j).f k j = true := by
    rw [applyF_entry n r j k j hr hj hk hj, hkj, hjj]; rfl
  have e1' : (applyF r j).f j k = true := by
    rw [applyF_entry n r j j k hr hj hj hk, hjk, hjj]; rfl
  obtain ⟨μ2, h2, _⟩ := h1.step hb k hk (Or.inr ⟨j, hj, fun e => hne e.symm, e1⟩)
  have hr1 : (applyF r j).r = n := hr
  have e2 : (applyF (applyF r j) k).f j k = true := by
    rw [applyF_entry n _ k j k hr1 hk hj hk, e1']
    cases (applyF r j).f k k <;> simp
  obtain ⟨μ3, h3, _⟩ := h2.step hb j hj (Or.inr ⟨k, hk, hne, e2⟩)
  refine ⟨μ3, ?_⟩
  have : seq ++ [j, k, j] = seq ++ [j] ++ [k] ++ [j] := by simp
  rw [this]; exact h3

/-- `_doubles` keeps the invariant (whenever it returns) -/
theorem doubles_fold (n : Nat) (b θ0 : Adj) (hb : Simple n b) (seq0 : List Nat) (l : List Nat) :
    ∀ (st st' : BMat × List (Nat × Nat)), (∀ j ∈ l, j < n) → (∃ μ, Track n b θ0 st.1 (seq0 ++ flat3 st.2) μ) →
      l.foldl (doublesStep n) (.ok st) = .ok st' → ∃ μ', Track n b θ0 st'.1 (seq0 ++ flat3 st'.2) μ' := by
  induction l with
  | nil =>
    intro st st' _ h e
    have : st = st' := by simpa using e
    rw [← this]; exact h
  | cons j l ih =>
    intro st st' hl h e
    rw [List.foldl_cons] at e
    have hj : j < n := hl j (by simp)
    have hl' : ∀ i ∈ l, i < n := fun i hi => hl i (List.mem_cons_of_mem _ hi)
    obtain ⟨μ, h⟩ := h
    by_cases ht : (!rowIsUnit st.1 j && !st.1.f j j) = true
    · have hjj : st.1.f j j = false := by revert ht; cases st.1.f j j <;> simp
      cases hf : (List.range n).filter fun k => st.1.f k j with
      | nil =>
        have e' : doublesStep n (.ok st) j = .error .index := by
          show (if (!rowIsUnit st.1 j && !st.1.f j j) = true then
            (match (List.range n).filter fun k => st.1.f k j with
              | [] => Except.error Err.index
              | k :: _ => Except.ok (applyF (applyF (applyF st.1 j) k) j, st.2 ++ [(j, k)])) else .ok st) = _
          rw [if_pos ht, hf]
        rw [e', doubles_error] at e
        cases e
      | cons k t =>
        have e' : doublesStep n (.ok st) j = .ok (applyF (applyF (applyF st.1 j) k) j, st.2 ++ [(j, k)]) := by
          show (if (!rowIsUnit st.1 j && !st.1.f j j) = true then
            (match (List.range n).filter fun k => st.1.f k j with
              | [] => Except.error Err.index
              | k :: _ => Except.ok (applyF (applyF (applyF st.1 j) k) j, st.2 ++ [(j, k)])) else .ok st) = _
          rw [if_pos ht, hf]
        rw [e'] at e
        have hkm : k ∈ (List.range n).filter fun k => st.1.f k j := by rw [hf]; simp
        rw [List.mem_filter] at hkm
        have hk : k < n := List.mem_range.mp hkm.1
        obtain ⟨μ3, h3⟩ := h.double hb j k hj hk hjj hkm.2
        refine ih _ st' hl' ⟨μ3, ?_⟩ e
        show Track n b θ0 _ (seq0 ++ flat3 (st.2 ++ [(j, k)])) μ3
        rw [flat3_append, flat3_single, ← List.append_assoc]
        exact h3
    · have e' : doublesStep n (.ok st) j = .ok st := by
        show (if (!rowIsUnit st.1 j && !st.1.f j j) = true then _ else Except.ok st) = _
        rw [if_neg ht]
      rw [e'] at e
      exact ih st st' hl' ⟨μ, h⟩ e

theorem beq_identity (r : BMat) (h : r.beq (identM r.r) = true) (i j : Nat) (hi : i < r.r) (hj : j < r.c) :
    r.f i j = decide (i = j) := by
  unfold BMat.beq at h
  rw [Bool.and_eq_true, List.all_eq_true] at h
  have := h.2 i (List.mem_range.mpr hi)
  rw [List.all_eq_true] at this
  have := this j (List.mem_range.mpr hj)
  simpa [identM, idM] using this

theorem doublesLoop_succ (fuel : Nat) (r : BMat) (acc : List (Nat × Nat)) :
    doublesLoop (fuel + 1) r acc =
      if !r.beq (identM r.r) then
        match doubles r with
        | .error e => .error e
        | .ok (r1, d) => doublesLoop fuel r1 (acc ++ d)
      else .ok acc := rfl

/-- the second `while`: when it returns, the complementations recorded so far take the first graph to the target -/
theorem doublesLoop_ok (n : Nat) (b θ0 : Adj) (hb : Simple n b) (seq0 : List Nat) (fuel : Nat) :
    ∀ (r : BMat) (acc d : List (Nat × Nat)), (∃ μ, Track n b θ0 r (seq0 ++ flat3 acc) μ) →
      doublesLoop fuel r acc = .ok d → EqAdj n (applySeq θ0 (seq0 ++ flat3 d)) b ∧ ∀ v ∈ seq0 ++ flat3 d, v < n := by
  induction fuel with
  | zero => intro r acc d _ e; cases e
  | succ k ih =>
    intro r acc d h e
    rw [doublesLoop_succ] at e
    obtain ⟨μ, h⟩ := h
    by_cases hc : (!r.beq (identM r.r)) = true
    · rw [if_pos hc] at e
      cases hd : doubles r with
      | error x => rw [hd] at e; cases e
      | ok res =>
        obtain ⟨r1, d1⟩ := res
        rw [hd] at e
        have e1 : doublesLoop k r1 (acc ++ d1) = .ok d := e
        rw [doubles_eq, h.rows] at hd
        have hl : ∀ i ∈ List.range n, i < n := fun i hi => List.mem_range.mp hi
        obtain ⟨μ', hT⟩ := doubles_fold n b θ0 hb (seq0 ++ flat3 acc) (List.range n) (r, []) (r1, d1) hl
          ⟨μ, by simpa [flat3] using h⟩ hd
        refine ih r1 (acc ++ d1) d ⟨μ', ?_⟩ e1
        rw [flat3_append, ← List.append_assoc]
        exact hT
    · rw [if_neg hc] at e
      cases e
      have hid : r.beq (identM r.r) = true := by revert hc; cases r.beq (identM r.r) <;> simp
      obtain ⟨q, hI, hR, hs, _⟩ := h
      refine ⟨identity_R_means_done n _ b q hI hb (fun i j hi hj => ?_), hs⟩
      rw [← hR.hf i j hi hj]
      exact beq_identity r hid i j (by rw [hR.hr]; exact hi) (by rw [hR.hc]; exact hj)

/-! ### `lc_graph_operations` -/

theorem detQ_of_valid (n : Nat) (q : List Bool) (h : isValidClifford n q = true) (m : Nat) (hm : m < n) :
    detQ (vget q) m = true := by
  unfold isValidClifford at h
  rw [List.all_eq_true] at h
  exact h m (List.mem_range.mpr hm)

/-- the initial state: `_R_matrix(θ, Q)` is `R(θ, Q)` -/
theorem track_init (n : Nat) (a b : Adj) (q : List Bool) (ha : Simple n a)
    (hq : ∀ j k, j < n → k < n → equation n a b (vget q) j k = false) (hv : isValidClifford n q = true) :
    Track n b a (rMatrix n a q).norm [] (cntC n (vget q)) := by
  refine ⟨vget q, ⟨ha, hq, detQ_of_valid n q hv⟩, ⟨rfl, rfl, fun i j hi hj => ?_⟩, fun v hv => by simp at hv, rfl⟩
  rw [BMat.norm_agree _ i j hi hj]
  rfl

/-- **`lc_graph_operations` is correct**: for a valid local Clifford `Q` solving the system for `(a, b)`, every sequence the
    R-matrix reduction returns consists of vertices of the graph and, applied to `a` as local complementations, gives `b` -/
theorem lcGraphOperations_correct (fuel n : Nat) (a b : Adj) (q : List Bool) (seq : List Nat) (ha : Simple n a)
    (hb : Simple n b) (hq : ∀ j k, j < n → k < n → equation n a b (vget q) j k = false)
    (hv : isValidClifford n q = true) (e : lcGraphOperations fuel n a q = .ok seq) :
    EqAdj n (applySeq a seq) b ∧ ∀ v ∈ seq, v < n := by
  have h0 := track_init n a b q ha hq hv
  unfold lcGraphOperations at e
  cases hs : singlesLoop fuel (rMatrix n a q).norm [] with
  | error x => rw [hs] at e; cases e
  | ok res =>
    obtain ⟨r, s⟩ := res
    rw [hs] at e
    dsimp only at e
    obtain ⟨⟨μ, h1⟩, _⟩ := singlesLoop_ok n b a hb fuel _ [] _ r s h0 hs
    cases hd : doublesLoop fuel r [] with
    | error x => rw [hd] at e; cases e
    | ok d =>
      rw [hd] at e
      have : seq = s ++ flat3 d := by
        have : Except.ok (s ++ d.flatMap fun p => [p.1, p.2, p.1]) = (Except.ok seq : Except Err (List Nat)) := e
        cases this; rfl
      rw [this]
      exact doublesLoop_ok n b a hb s fuel r [] d ⟨μ, by simpa [flat3] using h1⟩ hd

end Graphiq.LC
