/-
  Proofs/MixtureDMPhysical.lean — consequences of C06 (c) for the density-matrix backend, every measurement-free noisy
  circuit and every number of qubits:

  * `runH_trace`  : the Hilbert-space run of a placement trace multiplies the trace by `∏ (1 − loss_j)`;
  * `runH_psd`    : it preserves positive semidefiniteness (depolarizing probabilities in `[0,1]`, loss rates `≤ 1`);
  * `compileDM_trace` : the exact matrix of `compileDM` has trace `∏ (1 − loss_j)` (as an element of ℚ[i]);
  * `compileDM_psd`   : and is positive semidefinite (as a complex matrix);
  * `overlap_linear`  : `tr(ρ σ) = Σ_k w_k tr(ρ(T_k) σ)` for every matrix `σ` — the fidelity with any pure target computed
    on the density matrix is the weighted sum `Infidelity.evaluate` computes on the mixture.
-/
import GraphiqModel.Proofs.MixtureDMFinal
import GraphiqModel.Proofs.Channel
namespace Graphiq
namespace MixDM
open Matrix Hilbert Noise DM
open scoped ComplexOrder

/-! ### trace -/

theorem trace_conjH {n : Nat} (U R : HMat n) (hU : Uᴴ * U = 1) : (conjH U R).trace = R.trace := by
  unfold conjH
  rw [Matrix.trace_mul_cycle, hU, Matrix.one_mul]

theorem opGate_wf (n np : Nat) (op : COp) (hw : OpWF n np op) (g : Gate) (h : opGate np op = some g) : g.WF n := by
  unfold opGate at h
  cases hk : op.kind <;> simp only [hk] at h <;> first
    | (injection h with h; subst h; exact hw.1)
    | (injection h with h; subst h; trivial)
    | (injection h with h; subst h
       exact ⟨hw.1, hw.2.1 (Or.inl (by simp [hk, Kind.isCtrlPair])), hw.2.2 (by simp [hk, Kind.isCtrlPair])⟩)
    | cases h

theorem gateH_trace (np n : Nat) (op : COp) (hw : OpWF n np op) (R : HMat n) : (gateH np n op R).trace = R.trace := by
  unfold gateH
  cases hg : opGate np op with
  | none => rfl
  | some g => exact trace_conjH _ _ (gate_unitary n g (opGate_wf n np op hw g hg)).2

theorem depolH_trace (n q : Nat) (hq : q < n) (p : Rat) (R : HMat n) : (depolH n q p R).trace = R.trace := by
  unfold depolH
  have hx := trace_conjH (gateMat n (.X q)) R (gate_unitary n (.X q) hq).2
  have hy := trace_conjH (gateMat n (.Y q)) R (gate_unitary n (.Y q) hq).2
  have hz := trace_conjH (gateMat n (.Z q)) R (gate_unitary n (.Z q) hq).2
  rw [Matrix.trace_add, Matrix.trace_smul, Matrix.trace_smul, Matrix.trace_add, Matrix.trace_add, hx, hy, hz]
  simp only [smul_eq_mul]
  push_cast
  ring

theorem noiseH_trace (n : Nat) (nm : NoiseM) (q : Nat) (hq : q < n) (R : HMat n) :
    (noiseH n nm q R).trace = ((lossOf (.noise 0 0 q nm) : ℚ) : ℂ) * R.trace := by
  cases nm with
  | depol p a => simp only [noiseH, lossOf]; rw [depolH_trace n q hq]; simp
  | pauli k a =>
    simp only [noiseH, lossOf]
    cases k <;> simp only [pauliH]
    · simp
    · rw [trace_conjH _ _ (gate_unitary n (.X q) hq).2]; simp
    · rw [trace_conjH _ _ (gate_unitary n (.Y q) hq).2]; simp
    · rw [trace_conjH _ _ (gate_unitary n (.Z q) hq).2]; simp
    · simp
  | loss r a => simp only [noiseH, lossOf]; rw [Matrix.trace_smul, smul_eq_mul]
  | none => simp [noiseH, lossOf]
  | replace => simp [noiseH, lossOf]
  | other => simp [noiseH, lossOf]

theorem actH_trace (np n : Nat) (arr : Array COp) (a : Act) (ha : ActOKd n np arr a) (R : HMat n) :
    (actH np n arr a R).trace = ((lossOf a : ℚ) : ℂ) * R.trace := by
  cases a with
  | gate k =>
    show (gateH np n (arr.getD k { kind := .identity }) R).trace = _
    have e1 : lossOf (.gate k) = 1 := rfl
    rw [e1]
    cases hk : arr[k]? with
    | none =>
      have e : arr.getD k { kind := .identity } = { kind := .identity } := by
        simp [Array.getD, Array.getElem?_eq_none_iff.1 hk |> Nat.not_lt.2]
      rw [e]
      show (conjH (1 : HMat n) R).trace = _
      rw [conjH_one]; simp
    | some op =>
      have e : arr.getD k { kind := .identity } = op := by
        have hlt : k < arr.size := by
          rcases Nat.lt_or_ge k arr.size with h' | h'
          · exact h'
          · rw [Array.getElem?_eq_none_iff.2 h'] at hk; cases hk
        simp [Array.getD, hlt]
        have := Array.getElem?_eq_getElem hlt
        rw [this] at hk; injection hk
      rw [e, gateH_trace np n op (ha op hk).2]; simp
  | noise k side q nm =>
    have := noiseH_trace n nm q ha R
    have e : lossOf (.noise k side q nm) = lossOf (.noise 0 0 q nm) := by cases nm <;> rfl
    rw [e]
    exact this
  | replace k => simp [actH, lossOf]

/-- **trace bookkeeping of the density-matrix run**: `tr(runH tr ρ) = ∏ (1 − loss_j) · tr ρ` -/
theorem runH_trace (np n : Nat) (arr : Array COp) : ∀ (tr : List Act) (R : HMat n), (∀ a ∈ tr, ActOKd n np arr a) →
    (runH np n arr tr R).trace = ((lossFactor tr : ℚ) : ℂ) * R.trace
  | [], R, _ => by simp [runH, lossFactor]
  | a :: as, R, h => by
    show (runH np n arr as (actH np n arr a R)).trace = _
    rw [runH_trace np n arr as _ (fun b hb => h b (List.mem_cons_of_mem _ hb)),
      actH_trace np n arr a (h a List.mem_cons_self)]
    simp only [lossFactor]
    push_cast
    ring

/-! ### positivity -/

theorem psd_ratsmul {n : Nat} (q : ℚ) (hq : 0 ≤ q) (R : HMat n) (h : R.PosSemidef) : (((q : ℚ) : ℂ) • R).PosSemidef := by
  have h2 : (0 : ℝ) ≤ (q : ℝ) := by exact_mod_cast hq
  have := h.smul (α := ℝ) h2
  convert this using 1
  ext i j
  simp [Matrix.smul_apply, Complex.real_smul]

theorem psd_conjH {n : Nat} (U R : HMat n) (h : R.PosSemidef) : (conjH U R).PosSemidef :=
  h.mul_mul_conjTranspose_same U

/-- parameters for which the channels are completely positive: depolarizing probability in `[0,1]`, loss rate `≤ 1` -/
def ParamPhys : NoiseM → Prop
  | .depol p _ => 0 ≤ p ∧ p ≤ 1
  | .loss r _ => r ≤ 1
  | _ => True

theorem noiseH_psd (n : Nat) (nm : NoiseM) (q : Nat) (hp : ParamPhys nm) (R : HMat n) (h : R.PosSemidef) :
    (noiseH n nm q R).PosSemidef := by
  cases nm with
  | depol p a =>
    simp only [noiseH, depolH]
    have h1 : (0 : ℚ) ≤ 1 - p := by linarith [hp.2]
    have h2 : (0 : ℚ) ≤ p / 3 := div_nonneg hp.1 (by norm_num)
    exact (psd_ratsmul _ h1 _ h).add (psd_ratsmul _ h2 _ (((psd_conjH _ _ h).add (psd_conjH _ _ h)).add (psd_conjH _ _ h)))
  | pauli k a => cases k <;> first | exact h | exact psd_conjH _ _ h
  | loss r a =>
    have h1 : (0 : ℚ) ≤ 1 - r := by have : r ≤ 1 := hp; linarith
    exact psd_ratsmul _ h1 _ h
  | none => exact h
  | replace => exact h
  | other => exact h

theorem gateH_psd (np n : Nat) (op : COp) (R : HMat n) (h : R.PosSemidef) : (gateH np n op R).PosSemidef := by
  unfold gateH
  split
  · exact psd_conjH _ _ h
  · exact h

/-- every noise application of the trace has parameters satisfying `P` -/
def TraceP (P : NoiseM → Prop) (tr : List Act) : Prop := ∀ k side q nm, Act.noise k side q nm ∈ tr → P nm

/-- every noise application of the trace has physical parameters -/
abbrev TracePhys (tr : List Act) : Prop := TraceP ParamPhys tr

/-- **positivity of the density-matrix run** -/
theorem runH_psd (np n : Nat) (arr : Array COp) : ∀ (tr : List Act) (R : HMat n), TracePhys tr → R.PosSemidef →
    (runH np n arr tr R).PosSemidef
  | [], R, _, h => h
  | a :: as, R, hp, h => by
    show (runH np n arr as (actH np n arr a R)).PosSemidef
    apply runH_psd np n arr as _ (fun k side q nm hm => hp k side q nm (List.mem_cons_of_mem _ hm))
    cases a with
    | gate k => exact gateH_psd np n _ R h
    | noise k side q nm => exact noiseH_psd n nm q (hp k side q nm List.mem_cons_self) R h
    | replace k => exact h

theorem rho0_eq_ket0 (n : Nat) : rho0 n = tabRho n (Tab.ket0 n) := (rho_ket0 n).symm

theorem rho0_psd (n : Nat) : (rho0 n).PosSemidef := by
  rw [rho0_eq_ket0]
  have hg := ofTab_good (Tab.ket0 n) (Tab.ket0_valid n)
  exact posSemidef_of_projector _ (rho_idem (STab.ofTab (Tab.ket0 n)) hg) (rho_hermitian (STab.ofTab (Tab.ket0 n)) hg)

theorem rho0_trace (n : Nat) : (rho0 n).trace = 1 := by
  rw [rho0_eq_ket0]
  exact rho_ofTab_trace (Tab.ket0 n) (Tab.ket0_valid n)

/-! ### the compile loop -/

/-- all noise applications of a compile trace are noises of the operations -/
theorem traceGo_P (P : NoiseM → Prop) (pn : P NoiseM.none) (ns : Bool) (be : Backend) (np n : Nat) :
    ∀ (ops : List COp) (k : Nat) (tr : List Act),
    (∀ op ∈ ops, OpWF n np op ∧ P op.n0 ∧ P op.n1) → traceGo ns be np ops k = .ok tr → TraceP P tr
  | [], _, tr, _, h => by
    simp [traceGo] at h; subst h
    intro k side q nm hm; cases hm
  | op :: rest, k, tr, hw, h => by
    simp only [traceGo] at h
    cases hp : placeOp ns be np op k with
    | error e => rw [hp] at h; cases h
    | ok acts =>
      rw [hp] at h; simp only at h
      cases hr : traceGo ns be np rest (k + 1) with
      | error e => rw [hr] at h; cases h
      | ok tr' =>
        rw [hr] at h; injection h with h; subst h
        have ho := hw op List.mem_cons_self
        have hg := placeOp_goodP P pn n np ns be op k ho.1 ho.2.1 ho.2.2 acts hp
        have ih := traceGo_P P pn ns be np n rest (k + 1) tr' (fun o h' => hw o (List.mem_cons_of_mem _ h')) hr
        intro k' side q nm hm
        rcases List.mem_append.1 hm with hm | hm
        · rcases hg _ hm with e | e | ⟨s', q', nm', e, _, hP⟩
          · cases e
          · cases e
          · injection e with _ _ _ e4; rw [e4]; exact hP
        · exact ih k' side q nm hm

theorem traceGo_phys (ns : Bool) (be : Backend) (np n : Nat) (ops : List COp) (k : Nat) (tr : List Act)
    (hw : ∀ op ∈ ops, OpWF n np op ∧ ParamPhys op.n0 ∧ ParamPhys op.n1) (h : traceGo ns be np ops k = .ok tr) :
    TracePhys tr := traceGo_P ParamPhys trivial ns be np n ops k tr hw h

theorem traceGo_okd (ns : Bool) (be : Backend) (np n : Nat) (arr : Array COp)
    (harr : ∀ (j : Nat) (op : COp), arr[j]? = some op → OpOK n np op) : ∀ (ops : List COp) (k : Nat) (tr : List Act),
    (∀ op ∈ ops, OpOK n np op) → traceGo ns be np ops k = .ok tr → ∀ a ∈ tr, ActOKd n np arr a
  | [], _, tr, _, h => by simp [traceGo] at h; subst h; intro a ha; cases ha
  | op :: rest, k, tr, hw, h => by
    simp only [traceGo] at h
    cases hp : placeOp ns be np op k with
    | error e => rw [hp] at h; cases h
    | ok acts =>
      rw [hp] at h; simp only at h
      cases hr : traceGo ns be np rest (k + 1) with
      | error e => rw [hr] at h; cases h
      | ok tr' =>
        rw [hr] at h; injection h with h; subst h
        have ho := hw op List.mem_cons_self
        have hg := placeOp_good' n np ns be op k ho.wf ho.p0 ho.p1 acts hp
        have ih := traceGo_okd ns be np n arr harr rest (k + 1) tr' (fun o h' => hw o (List.mem_cons_of_mem _ h')) hr
        intro a ha
        rcases List.mem_append.1 ha with ha | ha
        · exact good_to_okd n np k arr harr a (hg a ha)
        · exact ih a ha

theorem gqC_trace (n : Nat) (ρ : Mat) (hn : ρ.n = 2 ^ n) : gqC ρ.trace = (toC n ρ).trace := by
  unfold Mat.trace Matrix.trace
  rw [gsum_eq_sum, hn, gqC_sum]
  simp only [Matrix.diag_apply, toC_apply]
  exact (sum_idx n fun i => gqC (ρ.e i i)).symm

theorem gqC_ofRat (q : Rat) : gqC ⟨q, 0⟩ = ((q : ℚ) : ℂ) := by
  apply Complex.ext <;> simp

/-- **the density matrix has trace `∏ (1 − loss_j)`** — exactly, as an element of ℚ[i]: every measurement-free noisy
    circuit, every number of qubits, whenever the density-matrix compile returns -/
theorem compileDM_trace (ns : Bool) (ne np nc : Nat) (det : Bool) (ops : List COp)
    (hw : ∀ op ∈ ops, OpOK (ne + np) np op) (d : DmSt) (h : compileDM ns ne np nc det ops = .ok d) :
    ∃ tr ρ, compileTrace ns .dm np ops = .ok tr ∧ d.ρ = some ρ ∧ ρ.trace = ⟨lossFactor tr, 0⟩ := by
  obtain ⟨tr, htr, ρ, hρ, e, hn, _⟩ := compileDM_toC ns ne np nc det ops hw d h
  refine ⟨tr, ρ, htr, hρ, ?_⟩
  apply gqC_injective
  have harr : ∀ (j : Nat) (op : COp), ops.toArray[j]? = some op → OpOK (ne + np) np op := by
    intro j op hop
    apply hw
    have : op ∈ ops.toArray := Array.mem_of_getElem? hop
    simpa using this
  rw [gqC_trace (ne + np) ρ hn, e, runH_trace np (ne + np) ops.toArray tr _
    (traceGo_okd ns .dm np (ne + np) ops.toArray harr ops 0 tr hw htr), rho0_trace, gqC_ofRat]
  simp

/-- **the density matrix is positive semidefinite** (loss rates `≤ 1` in addition) -/
theorem compileDM_psd (ns : Bool) (ne np nc : Nat) (det : Bool) (ops : List COp)
    (hw : ∀ op ∈ ops, OpOK (ne + np) np op) (hl : ∀ op ∈ ops, ParamPhys op.n0 ∧ ParamPhys op.n1)
    (d : DmSt) (ρ : Mat) (h : compileDM ns ne np nc det ops = .ok d) (hρ : d.ρ = some ρ) :
    (toC (ne + np) ρ).PosSemidef := by
  obtain ⟨tr, htr, ρ', hρ', e, _, _⟩ := compileDM_toC ns ne np nc det ops hw d h
  rw [hρ] at hρ'; injection hρ' with hρ'; subst hρ'
  rw [e]
  exact runH_psd np (ne + np) ops.toArray tr _
    (traceGo_phys ns .dm np (ne + np) ops 0 tr (fun op ho => ⟨(hw op ho).wf, hl op ho⟩) htr) (rho0_psd _)

/-! ### overlaps with a target -/

/-- `Σ_k w_k tr(ρ(T_k) σ)`: the weighted per-branch overlap (`Infidelity.evaluate` on a mixture, with `tr(ρ(T) σ)` the
    specification of `sfm.fidelity`) -/
noncomputable def mixOverlap (n : Nat) (σ : HMat n) : Mixture → ℂ
  | [] => 0
  | x :: m => ((x.1 : ℚ) : ℂ) * (tabRho n x.2 * σ).trace + mixOverlap n σ m

/-- **the overlap with any matrix is linear in the mixture**: `tr(Σ w_k ρ(T_k) · σ) = Σ w_k tr(ρ(T_k) σ)` -/
theorem overlap_linear (n : Nat) (σ : HMat n) : ∀ (m : Mixture), (mixRho n m * σ).trace = mixOverlap n σ m
  | [] => by simp [mixRho_nil, mixOverlap]
  | (w, t) :: rest => by
    rw [mixRho_cons, Matrix.add_mul, Matrix.trace_add, Matrix.smul_mul, Matrix.trace_smul, overlap_linear n σ rest]
    rfl

/-- the same quantity in the exact model: `Σ_k w_k · tr(ρ_{T_k} ρ_T)` with `ρ_T = stabilizerDensity T` -/
def mixOverlapQ (T : Tab) : Mixture → GQ
  | [] => 0
  | x :: m => GQ.smul x.1 ((stabilizerDensity x.2).mul (stabilizerDensity T)).trace + mixOverlapQ T m

theorem gqC_mulTrace (n : Nat) (a b : Mat) (ha : a.n = 2 ^ n) : gqC (a.mul b).trace = (toC n a * toC n b).trace := by
  rw [gqC_trace n (a.mul b) ha, toC_mul n a b ha]

theorem gqC_mixOverlapQ (n : Nat) (T : Tab) (hT : T.n = n) : ∀ (m : Mixture), MixN n m →
    gqC (mixOverlapQ T m) = mixOverlap n (tabRho n T) m
  | [], _ => gqC_zero
  | (w, t) :: rest, hm => by
    obtain ⟨e1, n1⟩ := toC_stabilizerDensity n t hm.head
    obtain ⟨e2, _⟩ := toC_stabilizerDensity n T hT
    show gqC (GQ.smul w _ + mixOverlapQ T rest) = _ * _ + mixOverlap n (tabRho n T) rest
    rw [gqC_add, gqC_smul, gqC_mulTrace n _ _ n1, e1, e2, gqC_mixOverlapQ n T hT rest hm.tail]

/-- **same fidelity with any pure stabilizer target on both backends**: for the density matrix `ρ` of the density-matrix
    backend and the mixture `[(w_k, T_k)]` of the stabilizer backend, `tr(ρ ρ_T) = Σ_k w_k tr(ρ_{T_k} ρ_T)` exactly, for every
    target tableau `T` -/
theorem overlap_both_backends (ns : Bool) (ne np nc : Nat) (det : Bool) (ops : List COp)
    (hw : ∀ op ∈ ops, OpOK (ne + np) np op) (s : StabSt) (d : DmSt) (ρ : Mat)
    (hs : compileStab ns ne np nc det ops = .ok s) (hd : compileDM ns ne np nc det ops = .ok d) (hρ : d.ρ = some ρ)
    (T : Tab) (hT : T.n = ne + np) :
    (ρ.mul (stabilizerDensity T)).trace = mixOverlapQ T s.mix := by
  obtain ⟨tr1, _, e1, m1⟩ := compileStab_mixRho ns ne np nc det ops hw s hs
  obtain ⟨tr2, _, ρ', hρ', _, n2, _⟩ := compileDM_toC ns ne np nc det ops hw d hd
  rw [hρ] at hρ'; injection hρ' with hρ'; subst hρ'
  have heq := dm_equals_mixture ns ne np nc det ops hw s d ρ hs hd hρ
  obtain ⟨e3, _⟩ := toC_mixtureDensity (ne + np) s.mix m1
  obtain ⟨e4, _⟩ := toC_stabilizerDensity (ne + np) T hT
  apply gqC_injective
  rw [gqC_mulTrace (ne + np) _ _ n2, toC_congr (ne + np) _ _ n2 heq, e3, e4, overlap_linear,
    gqC_mixOverlapQ (ne + np) T hT s.mix m1]

end MixDM
end Graphiq
