/-
  Proofs/CompareRepairEqv.lean — the repaired comparison is an equivalence relation on well-formed circuits (as `compare`
  calls it and as the filters call it): reflexive (`self_reported`), symmetric (the inverse of a map passing the check passes
  it, and the model's search is complete), transitive (the exact characterisation, and renamings compose).
-/
import GraphiqModel.Proofs.CompareRepairLin
namespace Graphiq.Compare
open Graphiq Graphiq.Export

/-! ## symmetry of the model function -/

theorem circuitIsIsomorphic2_symm (c1 c2 : Circuit) (h1 : ∀ o ∈ c1.ops, OpOK (wiresN c1.ne c1.np c1.nc) o)
    (h2 : ∀ o ∈ c2.ops, OpOK (wiresN c2.ne c2.np c2.nc) o) (h : circuitIsIsomorphic2 c1 c2 = .ok true) :
    circuitIsIsomorphic2 c2 c1 = .ok true := by
  obtain ⟨g1, hb1, i1, _⟩ := build_rep c1 h1
  obtain ⟨g2, hb2, i2, _⟩ := build_rep c2 h2
  unfold circuitIsIsomorphic2 at h ⊢
  rw [hb1, hb2] at h
  rw [hb1, hb2]
  have hiso : isoGraphs2 g1 g2 = true := by
    simp only [bind, Except.bind, pure, Except.pure] at h
    injection h
  obtain ⟨f, hf⟩ := isoGraphs2_witness g1 g2 hiso
  have hf' := isoCheck2_symm _ _ f hf
  obtain ⟨B1, r1, _⟩ := i1
  obtain ⟨B2, r2, _, _, _, _, hnames2, _⟩ := i2
  simp only [bind, Except.bind, pure, Except.pure]
  rw [isoGraphs2_complete g2 g1 _ _ B2 B1 r2 r1 hnames2 _ (isoCheck2_facts _ _ _ hf').2]

theorem isoNormalised2_symm (c1 c2 : Circuit) (h1 : ∀ o ∈ c1.ops, OpOK (wiresN c1.ne c1.np c1.nc) o)
    (h2 : ∀ o ∈ c2.ops, OpOK (wiresN c2.ne c2.np c2.nc) o) (h : isoNormalised2 c1 c2 = .ok true) :
    isoNormalised2 c2 c1 = .ok true := by
  obtain ⟨g1, hb1, i1, _⟩ := build_rep c1 h1
  obtain ⟨g2, hb2, i2, _⟩ := build_rep c2 h2
  unfold isoNormalised2 at h ⊢
  rw [hb1, hb2] at h
  rw [hb1, hb2]
  have hiso : isoGraphs2 g1.normalise g2.normalise = true := by
    simp only [bind, Except.bind, pure, Except.pure] at h
    injection h
  obtain ⟨f, hf⟩ := isoGraphs2_witness _ _ hiso
  have hf' := isoCheck2_symm _ _ f hf
  obtain ⟨B1, n1, _⟩ := normalise_nInv _ g1 c1.ops i1
  obtain ⟨B2, n2, _⟩ := normalise_nInv _ g2 c2.ops i2
  simp only [bind, Except.bind, pure, Except.pure]
  rw [isoGraphs2_complete g2.normalise g1.normalise _ _ B2 B1 n2.rep n1.rep n2.names _ (isoCheck2_facts _ _ _ hf').2]

/-! ## renamings compose -/

theorem renOp_comp (W : List Wire) (π1 π2 : Wire → Wire) (hπ1 : IsRenaming W π1) (o : Op) (ho : ∀ w ∈ opWires o, w ∈ W) :
    renOp (π2 ∘ π1) o = renOp π2 (renOp π1 o) := by
  have hq : ∀ q : QReg, Wire.ofQ q ∈ opWires o → renQ (π2 ∘ π1) q = renQ π2 (renQ π1 q) := by
    intro q hq
    unfold renQ
    simp only [Function.comp]
    have := ofQ_renQ π1 q (hπ1.ty _ (ho _ hq))
    unfold renQ at this
    rw [this]
  have hc : ∀ m : Nat, (⟨.c, m⟩ : Wire) ∈ opWires o → renC (π2 ∘ π1) m = renC π2 (renC π1 m) := by
    intro m hm
    unfold renC
    simp only [Function.comp]
    have := c_renC π1 m (hπ1.ty _ (ho _ hm))
    unfold renC at this
    rw [this]
  cases o with
  | one g q => simp only [renOp]; rw [hq q (by simp [opWires, Op.qRegs])]
  | wrap gs q => simp only [renOp]; rw [hq q (by simp [opWires, Op.qRegs])]
  | ctrl g a b => simp only [renOp]; rw [hq a (by simp [opWires, Op.qRegs]), hq b (by simp [opWires, Op.qRegs])]
  | cctrl g a b m =>
    simp only [renOp]
    rw [hq a (by simp [opWires, Op.qRegs]), hq b (by simp [opWires, Op.qRegs]), hc m (by simp [opWires, Op.qRegs, Op.cRegs])]
  | meas q m =>
    simp only [renOp]
    rw [hq q (by simp [opWires, Op.qRegs]), hc m (by simp [opWires, Op.qRegs, Op.cRegs])]

theorem RenamedBy.trans {π1 π2 : Wire → Wire} {c1 c2 c3 : Circuit} (h12 : RenamedBy π1 c1 c2) (h23 : RenamedBy π2 c2 c3)
    (h1 : ∀ o ∈ c1.ops, OpOK (wiresN c1.ne c1.np c1.nc) o) : RenamedBy (π2 ∘ π1) c1 c3 := by
  have hW : wiresN c2.ne c2.np c2.nc = wiresN c1.ne c1.np c1.nc := by rw [h12.ne, h12.np, h12.nc]
  have i23 := h23.into; have j23 := h23.inj; have s23 := h23.surj; have w23 := h23.wires
  rw [hW] at i23 j23 s23 w23
  refine ⟨h12.ne.trans h23.ne, h12.np.trans h23.np, h12.nc.trans h23.nc, ?_, ?_, ?_, ?_⟩
  · intro w hw
    obtain ⟨a, b⟩ := h12.into w hw
    obtain ⟨a', b'⟩ := i23 _ a
    exact ⟨a', b'.trans b⟩
  · intro w hw w' hw' hww
    exact h12.inj w hw w' hw' (j23 _ (h12.into w hw).1 _ (h12.into w' hw').1 hww)
  · intro w3 hw3
    obtain ⟨w2, hw2, rfl⟩ := s23 w3 hw3
    obtain ⟨w1, hw1, rfl⟩ := h12.surj w2 hw2
    exact ⟨w1, hw1, rfl⟩
  · intro w hw
    show c3.ops.filter (touches (π2 (π1 w))) = _
    rw [w23 _ (h12.into w hw).1, h12.wires w hw, List.map_map]
    apply List.map_congr_left
    intro o ho
    exact (renOp_comp _ π1 π2 h12.isRenaming o (h1 o (List.mem_filter.1 ho).1).1).symm

/-! ## transitivity of the model function -/

theorem circuitIsIsomorphic2_trans (c1 c2 c3 : Circuit) (h1 : ∀ o ∈ c1.ops, OpOK (wiresN c1.ne c1.np c1.nc) o)
    (h2 : ∀ o ∈ c2.ops, OpOK (wiresN c2.ne c2.np c2.nc) o) (h3 : ∀ o ∈ c3.ops, OpOK (wiresN c3.ne c3.np c3.nc) o)
    (h12 : circuitIsIsomorphic2 c1 c2 = .ok true) (h23 : circuitIsIsomorphic2 c2 c3 = .ok true) :
    circuitIsIsomorphic2 c1 c3 = .ok true := by
  obtain ⟨π1, a⟩ := iso2_sound c1 c2 h1 h2 h12
  obtain ⟨π2, b⟩ := iso2_sound c2 c3 h2 h3 h23
  exact (a.trans b h1).reported h1 h3

theorem isoNormalised2_trans (c1 c2 c3 : Circuit) (h1 : ∀ o ∈ c1.ops, OpOK (wiresN c1.ne c1.np c1.nc) o)
    (h2 : ∀ o ∈ c2.ops, OpOK (wiresN c2.ne c2.np c2.nc) o) (h3 : ∀ o ∈ c3.ops, OpOK (wiresN c3.ne c3.np c3.nc) o)
    (h12 : isoNormalised2 c1 c2 = .ok true) (h23 : isoNormalised2 c2 c3 = .ok true) :
    isoNormalised2 c1 c3 = .ok true := by
  obtain ⟨π1, a⟩ := isoNorm2_sound c1 c2 h1 h2 h12
  obtain ⟨π2, b⟩ := isoNorm2_sound c2 c3 h2 h3 h23
  exact isoNorm2_complete c1 c3 h1 h3 _ (a.trans b (flat_opOK _ _ h1))

end Graphiq.Compare
