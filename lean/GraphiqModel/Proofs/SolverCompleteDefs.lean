/-
  Proofs/SolverCompleteDefs.lean — vocabulary of the completeness argument for the time-reversed solver (C02):
  "literal" columns (an absorbed photon: one generator is exactly `+Z_q`, every other generator is trivial at `q`),
  row-operation sequences in which every product is witnessed by a column where both factors are non-trivial
  (what `rref` and `canonical_form` do), and the columns a gate touches.
-/
import GraphiqModel.Proofs.EchelonRref
import GraphiqModel.Proofs.InverseCircuit
namespace Graphiq
open PRow

/-- the qubit columns a gate acts on -/
def Gate.cols : Gate → List Nat
  | .H q | .P q | .Pdag q | .X q | .Y q | .Z q => [q]
  | .I _ => []
  | .CNOT c t | .CZ c t => [c, t]

namespace STab

/-- **column `q` is literal**: some generator is exactly `+Z_q` (on the `n` sites) and every other generator is trivial at `q`.
    This is the form an absorbed photon has in the working tableau of the solver. -/
def Lit (t : STab) (q : Nat) : Prop :=
  ∃ i, i < t.n ∧ PRow.EqOn t.n (t.row i) (PRow.Zq q) ∧ ∀ k, k < t.n → k ≠ i → t.ptype k q = 0

/-- sequences of tabulations, row swaps and row products in which every product `row b := row a · row b` is *witnessed* by a
    column `pc` at which both rows are non-trivial (the pivot column of the elimination step) -/
inductive COps (t0 : STab) : STab → Prop
  | refl : COps t0 t0
  | norm {t : STab} : COps t0 t → COps t0 t.norm
  | swap {t : STab} (a b : Nat) : a < t0.n → b < t0.n → COps t0 t → COps t0 (t.rowSwap a b)
  | sum {t : STab} (a b pc : Nat) : a < t0.n → b < t0.n → a ≠ b → pc < t0.n → t.ptype a pc ≠ 0 → t.ptype b pc ≠ 0 →
      COps t0 t → COps t0 (t.rowSum a b)

theorem COps.n_eq {t0 t : STab} (h : COps t0 t) : t.n = t0.n := by
  induction h with
  | refl => rfl
  | norm _ ih => exact ih
  | swap a b _ _ _ ih => exact ih
  | sum a b pc _ _ _ _ _ _ _ ih => exact ih

theorem COps.trans {t0 t1 t2 : STab} (h1 : COps t0 t1) (h2 : COps t1 t2) : COps t0 t2 := by
  have e := h1.n_eq
  induction h2 with
  | refl => exact h1
  | norm _ ih => exact COps.norm ih
  | swap a b h2 h4 _ ih => exact COps.swap a b (e ▸ h2) (e ▸ h4) ih
  | sum a b pc h2 h4 h5 h6 h7 h8 _ ih => exact COps.sum a b pc (e ▸ h2) (e ▸ h4) h5 (e ▸ h6) h7 h8 ih

end STab
end Graphiq
