/-
  Proofs/Compare.lean — lemmas about the comparison model (C15).

  Part 1: class-relation table facts (kernel `decide` over the regenerated `issubclass` table).
  Part 2: `directL`: soundness, reflexivity, symmetry, dependence on the flattened operation list only.
  Part 3: the redundancy filters, for an arbitrary comparison function.
  Part 4: the coded isomorphism check: what the search returns is checked; a key-respecting isomorphism maps wires to wires.
-/
import GraphiqModel.Model.Compare
import GraphiqModel.Proofs.Export
import GraphiqModel.Model.Tableau
namespace Graphiq.Compare
open Graphiq Graphiq.Export

/-! ## Part 1: `isinstance` between the 13 operation classes is equality (no class subclasses another) -/

theorem tbl_subclass_refl : ∀ k ∈ Cls.all, isSubclass k k = true := by decide +kernel
theorem tbl_subclass_eq : ∀ a ∈ Cls.all, ∀ b ∈ Cls.all, isSubclass a b = true → a = b := by decide +kernel

theorem isSubclass_iff (a b : Cls) : isSubclass a b = true ↔ a = b :=
  ⟨tbl_subclass_eq a (Cls.mem_all a) b (Cls.mem_all b), fun h => h ▸ tbl_subclass_refl a (Cls.mem_all a)⟩

/-! ## Part 2: `direct` -/

/-- two operations the walk accepts are the same operation up to the classical register they write -/
theorem opMatchL_dropC (a b : Op) (ha : ∀ gs q, a ≠ .wrap gs q) (h : opMatchL a b = true) : dropC a = dropC b := by
  unfold opMatchL at h
  simp only [Bool.and_eq_true, beq_iff_eq] at h
  obtain ⟨hc, hq⟩ := h
  cases a with
  | wrap gs q => exact absurd rfl (ha gs q)
  | one g q =>
    cases b <;> simp only [opClsMatch, Op.cls, isSubclass_iff, reduceCtorEq, Bool.false_eq_true] at hc
    · simp only [Op.qRegs, List.cons.injEq, and_true] at hq
      injection hc with hc; subst hc; subst hq; rfl
  | ctrl g x y =>
    cases b <;> simp only [opClsMatch, Op.cls, isSubclass_iff, reduceCtorEq, Bool.false_eq_true] at hc
    · simp only [Op.qRegs, List.cons.injEq, and_true] at hq
      injection hc with hc; subst hc; obtain ⟨h1, h2⟩ := hq; subst h1; subst h2; rfl
  | cctrl g x y c =>
    cases b <;> simp only [opClsMatch, Op.cls, isSubclass_iff, reduceCtorEq, Bool.false_eq_true] at hc
    · simp only [Op.qRegs, List.cons.injEq, and_true] at hq
      injection hc with hc; subst hc; obtain ⟨h1, h2⟩ := hq; subst h1; subst h2; rfl
  | meas q c =>
    cases b <;> simp only [opClsMatch, Op.cls, isSubclass_iff, reduceCtorEq, Bool.false_eq_true] at hc
    · simp only [Op.qRegs, List.cons.injEq, and_true] at hq
      subst hq; rfl

theorem walkL_dropC (l1 l2 : List Op) (h1 : ∀ a ∈ l1, ∀ gs q, a ≠ .wrap gs q) (h : walkL l1 l2 = true) :
    l1.map dropC = l2.map dropC := by
  induction l1 generalizing l2 with
  | nil => cases l2 <;> simp_all [walkL]
  | cons a as ih =>
    cases l2 with
    | nil => simp [walkL] at h
    | cons b bs =>
      simp only [walkL, Bool.and_eq_true] at h
      simp only [List.map_cons]
      rw [opMatchL_dropC a b (h1 a (by simp)) h.1, ih bs (fun x hx => h1 x (by simp [hx])) h.2]

/-- flattening leaves no wrappers -/
theorem flat_no_wrap (ops : List Op) : ∀ a ∈ flat ops, ∀ gs q, a ≠ .wrap gs q := by
  intro a ha gs q heq
  subst heq
  unfold flat at ha
  simp only [List.mem_filter, List.mem_flatMap] at ha
  obtain ⟨⟨o, _, ho⟩, _⟩ := ha
  cases o <;> simp [Op.unwrap] at ho

theorem touches_ofQ (q : QReg) (o : Op) : touches (Wire.ofQ q) o = o.qRegs.contains q := by
  unfold touches opWires
  rw [List.contains_eq_mem, List.contains_eq_mem]
  have inj : ∀ a b : QReg, Wire.ofQ a = Wire.ofQ b → a = b := by
    intro a b h
    cases a with | mk ta ia => cases b with | mk tb ib =>
    cases ta <;> cases tb <;> simp [Wire.ofQ, RT.ofRegT] at h <;> simp [h]
  have hc : ∀ i : Nat, (⟨.c, i⟩ : Wire) ≠ Wire.ofQ q := by
    intro i h; cases q with | mk t i' => cases t <;> simp [Wire.ofQ, RT.ofRegT] at h
  by_cases hm : q ∈ o.qRegs
  · have : Wire.ofQ q ∈ o.qRegs.map Wire.ofQ ++ o.cRegs.map fun i => (⟨.c, i⟩ : Wire) :=
      List.mem_append_left _ (List.mem_map_of_mem hm)
    simp [hm, this]
  · have : ¬ Wire.ofQ q ∈ o.qRegs.map Wire.ofQ ++ o.cRegs.map fun i => (⟨.c, i⟩ : Wire) := by
      intro h
      rcases List.mem_append.1 h with h | h
      · obtain ⟨a, ha, hEq⟩ := List.mem_map.1 h
        exact hm (inj a q hEq ▸ ha)
      · obtain ⟨i, _, hEq⟩ := List.mem_map.1 h
        exact hc i hEq
    simp [hm, this]

theorem mem_allWires_of_qreg (c : Circuit) (q : QReg) (h : q ∈ qregsOf c) : Wire.ofQ q ∈ allWires c := by
  unfold qregsOf at h
  unfold allWires
  rcases List.mem_append.1 h with h | h
  · obtain ⟨i, hi, rfl⟩ := List.mem_map.1 h
    exact List.mem_append_left _ (List.mem_append_right _ (List.mem_map.2 ⟨i, hi, rfl⟩))
  · obtain ⟨i, hi, rfl⟩ := List.mem_map.1 h
    exact List.mem_append_left _ (List.mem_append_left _ (List.mem_map.2 ⟨i, hi, rfl⟩))

/-- **`direct` is sound**: reported equal ⇒ same register counts and, on every quantum register, the same sequence of
    executed operations (up to which classical register records an outcome) -/
theorem directL_sound (c1 c2 : Circuit) (h : directL c1 c2 = true) : wiresEq c1 c2 = true := by
  unfold directL at h
  simp only [Bool.and_eq_true, beq_iff_eq, List.all_eq_true] at h
  obtain ⟨⟨⟨⟨hne, hnp⟩, hnc⟩, _⟩, hw⟩ := h
  unfold wiresEq
  simp only [Bool.and_eq_true, beq_iff_eq, List.all_eq_true, hne, hnp, hnc, true_and]
  intro q hq
  have := hw (Wire.ofQ q) (mem_allWires_of_qreg c1 q hq)
  unfold wireOf
  have hf : ∀ ops : List Op, ops.filter (touches (Wire.ofQ q)) = ops.filter (fun o => o.qRegs.contains q) := by
    intro ops; congr 1; funext o; exact touches_ofQ q o
  rw [hf, hf] at this
  exact walkL_dropC _ _ (fun a ha => flat_no_wrap c1.ops a (List.mem_filter.1 ha).1) this

theorem opMatchL_refl (a : Op) : opMatchL a a = true := by
  unfold opMatchL
  cases a <;> simp [opClsMatch, Op.cls, isSubclass_iff]

theorem walkL_refl (l : List Op) : walkL l l = true := by
  induction l with
  | nil => rfl
  | cons a as ih => simp [walkL, opMatchL_refl, ih]

/-- `direct` is reflexive (in particular on copies) -/
theorem directL_refl (c : Circuit) : directL c c = true := by
  unfold directL
  simp [walkL_refl]

theorem opMatchL_symm (a b : Op) : opMatchL a b = opMatchL b a := by
  unfold opMatchL
  have hq : (a.qRegs == b.qRegs) = (b.qRegs == a.qRegs) :=
    Bool.eq_iff_iff.2 (by simp only [beq_iff_eq]; exact eq_comm)
  have hc : opClsMatch a b = opClsMatch b a := by
    cases a <;> cases b <;> simp only [opClsMatch, Op.cls] <;>
      (apply Bool.eq_iff_iff.2; simp only [isSubclass_iff]; exact eq_comm)
  rw [hq, hc]

theorem walkL_symm (l1 l2 : List Op) : walkL l1 l2 = walkL l2 l1 := by
  induction l1 generalizing l2 with
  | nil => cases l2 <;> rfl
  | cons a as ih =>
    cases l2 with
    | nil => rfl
    | cons b bs => simp only [walkL, opMatchL_symm a b, ih bs]

/-- `direct` is symmetric -/
theorem directL_symm (c1 c2 : Circuit) : directL c1 c2 = directL c2 c1 := by
  unfold directL
  by_cases hr : c1.ne = c2.ne ∧ c1.np = c2.np ∧ c1.nc = c2.nc
  · obtain ⟨h1, h2, h3⟩ := hr
    have hw : allWires c1 = allWires c2 := by unfold allWires; rw [h1, h2, h3]
    rw [hw]
    simp only [h1, h2, h3, beq_self_eq_true, Bool.true_and]
    have hl : ((flat c1.ops).length == (flat c2.ops).length) = ((flat c2.ops).length == (flat c1.ops).length) :=
      Bool.eq_iff_iff.2 (by simp only [beq_iff_eq]; exact eq_comm)
    rw [hl]
    congr 1
    congr 1
    funext w
    exact walkL_symm _ _
  · have h1 : (c1.ne == c2.ne && c1.np == c2.np && c1.nc == c2.nc) = false := by
      apply Bool.eq_false_iff.2
      intro h
      simp only [Bool.and_eq_true, beq_iff_eq] at h
      exact hr ⟨h.1.1, h.1.2, h.2⟩
    have h2 : (c2.ne == c1.ne && c2.np == c1.np && c2.nc == c1.nc) = false := by
      apply Bool.eq_false_iff.2
      intro h
      simp only [Bool.and_eq_true, beq_iff_eq] at h
      exact hr ⟨h.1.1.symm, h.1.2.symm, h.2.symm⟩
    simp only [h1, h2, Bool.false_and]

/-- `direct` only looks at the flattened circuits: wrapping, re-bracketing and identities are invisible to it -/
theorem directL_flat_congr (c1 c1' c2 : Circuit) (hr : c1.ne = c1'.ne ∧ c1.np = c1'.np ∧ c1.nc = c1'.nc)
    (hf : flat c1.ops = flat c1'.ops) : directL c1 c2 = directL c1' c2 := by
  unfold directL allWires
  rw [hr.1, hr.2.1, hr.2.2, hf]

/-! ## Part 3: redundancy filters (any comparison function) -/

theorem removeRedundantWith_append {α : Type} (eq : α → α → Bool) (l : List α) (kept0 : List α) :
    ∃ extra, l.foldl (fun kept x => if kept.any (fun k => eq k x) then kept else kept ++ [x]) kept0 = kept0 ++ extra ∧
      extra.Sublist l ∧ ∀ x ∈ l, x ∈ extra ∨ ∃ k ∈ kept0 ++ extra, eq k x = true := by
  induction l generalizing kept0 with
  | nil => exact ⟨[], by simp, List.Sublist.refl _, by simp⟩
  | cons x rest ih =>
    simp only [List.foldl_cons]
    by_cases hx : kept0.any (fun k => eq k x) = true
    · obtain ⟨extra, h1, h2, h3⟩ := ih kept0
      refine ⟨extra, by simpa [hx] using h1, List.Sublist.cons _ h2, ?_⟩
      intro y hy
      rcases List.mem_cons.1 hy with rfl | hy
      · right
        obtain ⟨k, hk, hkx⟩ := List.any_eq_true.1 hx
        exact ⟨k, List.mem_append_left _ hk, hkx⟩
      · exact h3 y hy
    · obtain ⟨extra, h1, h2, h3⟩ := ih (kept0 ++ [x])
      refine ⟨x :: extra, by simpa [hx] using h1, List.Sublist.cons_cons _ h2, ?_⟩
      intro y hy
      rcases List.mem_cons.1 hy with rfl | hy
      · left; simp
      · rcases h3 y hy with h | ⟨k, hk, hky⟩
        · left; simp [h]
        · right; exact ⟨k, by simpa using hk, hky⟩

/-- the filtered list is a sub-list of the input, and every circuit of the input is kept or compares equal to a kept one -/
theorem removeRedundantWith_spec {α : Type} (eq : α → α → Bool) (l : List α) :
    (removeRedundantWith eq l).Sublist l ∧
    ∀ x ∈ l, x ∈ removeRedundantWith eq l ∨ ∃ k ∈ removeRedundantWith eq l, eq k x = true := by
  obtain ⟨extra, h1, h2, h3⟩ := removeRedundantWith_append eq l []
  unfold removeRedundantWith
  rw [h1]
  simpa using ⟨h2, h3⟩

theorem storage_fold_fst {α : Type} (eq : α → α → Bool) (l : List α) (st : List α) (fl : List Bool) :
    (l.foldl (fun (st : List α × List Bool) x =>
      if false then (st.1 ++ [x], st.2 ++ [true])
      else if st.1.any (fun k => eq k x) then (st.1, st.2 ++ [false])
      else (st.1 ++ [x], st.2 ++ [true])) (st, fl)).1 =
    l.foldl (fun kept x => if kept.any (fun k => eq k x) then kept else kept ++ [x]) st := by
  induction l generalizing st fl with
  | nil => rfl
  | cons x rest ih =>
    simp only [List.foldl_cons, Bool.false_eq_true, if_false]
    by_cases hx : st.any (fun k => eq k x) = true
    · simp only [hx, if_true]; exact ih st _
    · simp only [hx]; exact ih _ _

/-- `CircuitStorage` keeps exactly what `remove_redundant_circuits` would keep with the same comparison -/
theorem storage_eq_removeRedundant {α : Type} (eq : α → α → Bool) (l : List α) :
    (storageAddAll eq false l).1 = removeRedundantWith eq l :=
  storage_fold_fst eq l [] []

/-! ## Part 4: the coded isomorphism check -/

instance : DecidableEq (Except Err Bool) := fun a b =>
  match a, b with
  | .ok x, .ok y => if h : x = y then isTrue (by rw [h]) else isFalse (by intro h'; injection h' with h''; exact h h'')
  | .error x, .error y => if h : x = y then isTrue (by rw [h]) else isFalse (by intro h'; injection h' with h''; exact h h'')
  | .ok _, .error _ => isFalse (by intro h; cases h)
  | .error _, .ok _ => isFalse (by intro h; cases h)

/-- whatever the search does, a positive answer exhibits a map that passes the full check -/
theorem isoGraphs_witness (g1 g2 : MG) (h : isoGraphs g1 g2 = true) :
    ∃ f, isoCheck g1.addControlTarget g2.addControlTarget f = true := by
  unfold isoGraphs at h
  simp only [Bool.and_eq_true, List.any_eq_true] at h
  obtain ⟨_, f, _, hf⟩ := h
  exact ⟨f, hf⟩

/-- the nodes reached from `n` by following the edges with key `w` (at most `fuel` steps) -/
def followKey (g : MG) (w : Wire) : Nat → Nd → List Nd
  | 0, n => [n]
  | fuel + 1, n =>
    n :: match g.outEdge n w with
      | some e => followKey g w fuel e.dst
      | none => []

/-- `f` (on nodes) together with `π` (on edge keys) maps the keyed edges of `g1` onto the keyed edges of `g2`.
    This is what the coded `edge_match` does **not** check: it never looks at the key. -/
structure KeyRespecting (g1 g2 : MG) (f : Nd → Nd) (π : Wire → Wire) : Prop where
  fwd : ∀ e ∈ g1.edges, ∃ e' ∈ g2.edges, e'.src = f e.src ∧ e'.dst = f e.dst ∧ e'.key = π e.key
  bwd : ∀ e' ∈ g2.edges, ∃ e ∈ g1.edges, e'.src = f e.src ∧ e'.dst = f e.dst ∧ e'.key = π e.key
  injN : ∀ a b, f a = f b → a = b
  injK : ∀ a b, π a = π b → a = b

/-- a circuit DAG has at most one edge with a given key leaving a node -/
def UniqueOut (g : MG) : Prop := ∀ e ∈ g.edges, ∀ e' ∈ g.edges, e.src = e'.src → e.key = e'.key → e.dst = e'.dst

theorem outEdge_some (g : MG) (n : Nd) (w : Wire) (e : Edge) (h : g.outEdge n w = some e) :
    e ∈ g.edges ∧ e.src = n ∧ e.key = w := by
  unfold MG.outEdge at h
  have hm := List.mem_of_find?_eq_some h
  have hp := List.find?_some h
  simp only [Bool.and_eq_true, beq_iff_eq] at hp
  exact ⟨hm, hp.1, hp.2⟩

theorem outEdge_none (g : MG) (n : Nd) (w : Wire) (h : g.outEdge n w = none) :
    ∀ e ∈ g.edges, ¬ (e.src = n ∧ e.key = w) := by
  unfold MG.outEdge at h
  intro e he hc
  have := List.find?_eq_none.1 h e he
  simp [hc.1, hc.2] at this

theorem outEdge_isSome_of_mem (g : MG) (e : Edge) (he : e ∈ g.edges) : ∃ e', g.outEdge e.src e.key = some e' := by
  cases h : g.outEdge e.src e.key with
  | some e' => exact ⟨e', rfl⟩
  | none => exact absurd ⟨rfl, rfl⟩ (outEdge_none g _ _ h e he)

/-- a key-respecting node map sends the node sequence of every wire of `g1` to the node sequence of the corresponding
    wire of `g2` -/
theorem followKey_map (g1 g2 : MG) (f : Nd → Nd) (π : Wire → Wire) (hk : KeyRespecting g1 g2 f π) (hu : UniqueOut g2)
    (w : Wire) (fuel : Nat) (n : Nd) : followKey g2 (π w) fuel (f n) = (followKey g1 w fuel n).map f := by
  induction fuel generalizing n with
  | zero => rfl
  | succ k ih =>
    simp only [followKey, List.map_cons]
    congr 1
    cases h1 : g1.outEdge n w with
    | some e =>
      obtain ⟨he, hs, hkey⟩ := outEdge_some g1 n w e h1
      obtain ⟨e', he', hs', hd', hk'⟩ := hk.fwd e he
      obtain ⟨e'', h2⟩ := outEdge_isSome_of_mem g2 e' he'
      obtain ⟨he'', hs'', hk''⟩ := outEdge_some g2 _ _ e'' h2
      have hd : e''.dst = e'.dst := hu e'' he'' e' he' hs'' hk''
      rw [hs', hs, hk', hkey] at h2
      simp only [h2, hd, hd']
      exact ih e.dst
    | none =>
      cases h2 : g2.outEdge (f n) (π w) with
      | none => rfl
      | some e' =>
        exfalso
        obtain ⟨he', hs', hk'⟩ := outEdge_some g2 _ _ e' h2
        obtain ⟨e, he, hs, _, hkey⟩ := hk.bwd e' he'
        have h3 : e.src = n := hk.injN _ _ (hs.symm.trans hs')
        have h4 : e.key = w := hk.injK _ _ (hkey.symm.trans hk')
        exact outEdge_none g1 n w h1 e he ⟨h3, h4⟩


/-- a map that passes the coded check matches every node of `g1` with a node of `g2` of the same class / register types -/
theorem isoCheck_nodeMatch (g1 g2 : MG) (fl : List (Nd × Nd)) (h : isoCheck g1 g2 fl = true) :
    ∀ n ∈ g1.nodes.map (·.1), ∃ m a b, applyMap fl n = some m ∧ g1.opOf n = some a ∧ g2.opOf m = some b ∧ nodeMatch a b = true := by
  unfold isoCheck at h
  simp only [Bool.and_eq_true, List.all_eq_true] at h
  obtain ⟨⟨_, hnm⟩, _⟩ := h
  intro n hn
  have := hnm n hn
  cases hm : applyMap fl n with
  | none => simp [hm] at this
  | some m =>
    simp only [hm] at this
    cases ha : g1.opOf n with
    | none => simp [ha] at this
    | some a =>
      cases hb : g2.opOf m with
      | none => simp [ha, hb] at this
      | some b =>
        simp only [ha, hb] at this
        exact ⟨m, a, b, rfl, rfl, hb, this⟩

/-! ### flattening: wrapping, unwrapping and identities do not change the executed operations -/

theorem flat_unwrap_in_place (pre post : List Op) (gs : List G1) (q : QReg) :
    flat (pre ++ [.wrap gs q] ++ post) = flat (pre ++ Op.unwrap (.wrap gs q) ++ post) := by
  simp only [flat_append]
  congr 2
  rw [flat_wrap]
  simp only [flat, Op.unwrap]
  have : ∀ l : List G1, (l.map fun g => Op.one g q).flatMap Op.unwrap = l.map fun g => Op.one g q := by
    intro l
    induction l with
    | nil => rfl
    | cons g rest ih => simp only [List.map_cons, List.flatMap_cons, Op.unwrap, ih, List.singleton_append]
  rw [this, List.filter_map, ← List.filter_reverse]
  congr 1
  apply List.filter_congr
  intro g _
  cases g <;> rfl

theorem flat_identity_in_place (pre post : List Op) (q : QReg) :
    flat (pre ++ [.one .I q] ++ post) = flat (pre ++ post) := by
  simp only [flat_append]
  have : flat [Op.one .I q] = [] := by simp [flat, Op.unwrap, Op.isIdentity]
  rw [this, List.append_nil]

/-! ## Part 5: reflexivity of the coded check; compiled states of the unitary witnesses (verified tableau semantics) -/

theorem nodeMatch_refl (a : NOp) : nodeMatch a a = true := by
  cases a with
  | input w => cases w with | mk t i => cases t <;> simp [nodeMatch]
  | output w => cases w with | mk t i => cases t <;> simp [nodeMatch]
  | gate o => cases o <;> simp [nodeMatch]

theorem edgeMatch_refl (es : List Edge) : edgeMatch es es = true := by
  cases es <;> simp [edgeMatch]

def idMapOf (g : MG) : List (Nd × Nd) := g.nodes.map fun p => (p.1, p.1)

theorem applyMap_id (g : MG) (n : Nd) (h : n ∈ g.nodes.map (·.1)) : applyMap (idMapOf g) n = some n := by
  unfold applyMap idMapOf
  obtain ⟨p, hp, rfl⟩ := List.mem_map.1 h
  cases hf : (g.nodes.map fun p => (p.1, p.1)).find? (fun q => q.1 == p.1) with
  | none =>
    exfalso
    have := List.find?_eq_none.1 hf (p.1, p.1) (List.mem_map_of_mem hp)
    simp at this
  | some q =>
    have hq := List.find?_some hf
    have hm := List.mem_of_find?_eq_some hf
    obtain ⟨r, _, hr⟩ := List.mem_map.1 hm
    simp only [beq_iff_eq] at hq
    subst hr
    simp only [Option.map_some]
    exact congrArg some hq

/-- **the coded isomorphism check is reflexive**: for any DAG with distinct node names in which every node carries an
    operation, the identity map passes `isoCheck` (so `networkx.is_isomorphic`, which decides existence, answers True
    for a circuit and its copy) -/
theorem isoCheck_refl (g : MG) (hnd : nodupNd (g.nodes.map (·.1)) = true)
    (hop : ∀ n ∈ g.nodes.map (·.1), (g.opOf n).isSome = true) : isoCheck g g (idMapOf g) = true := by
  have himg : (g.nodes.map (·.1)).map (applyMap (idMapOf g)) = (g.nodes.map (·.1)).map some := by
    apply List.map_congr_left
    intro n hn
    exact applyMap_id g n hn
  have hfm : ((g.nodes.map (·.1)).map some).filterMap id = g.nodes.map (·.1) := by
    rw [List.filterMap_map]
    have : (id ∘ some : Nd → Option Nd) = some := rfl
    rw [this, List.filterMap_some]
  unfold isoCheck
  simp only [himg, hfm, beq_self_eq_true, Bool.true_and, hnd, Bool.and_eq_true, List.all_eq_true]
  refine ⟨⟨⟨⟨?_, trivial⟩, ?_⟩, ?_⟩, ?_⟩
  · intro o ho
    obtain ⟨n, _, rfl⟩ := List.mem_map.1 ho
    rfl
  · intro n hn
    simpa using hn
  · intro n hn
    rw [applyMap_id g n hn]
    have := hop n hn
    cases ho : g.opOf n with
    | none => rw [ho] at this; cases this
    | some a => simp only [ho, nodeMatch_refl]
  · intro u hu v hv
    rw [applyMap_id g u hu, applyMap_id g v hv]
    simp [edgeMatch_refl]

/-! ### compiled states of the unitary witness pairs in the tableau model of C07 -/

/-- index of a quantum register in the compiled state: photons first, then emitters (`reg_to_index_func`) -/
def qIndex (np : Nat) (q : QReg) : Nat := match q.t with | .p => q.i | .e => np + q.i

/-- the tableau operation of a unitary circuit operation (after flattening) -/
def tabOp (np : Nat) : Op → Option Tab.Op
  | .one .H q => some (.h (qIndex np q)) | .one .X q => some (.x (qIndex np q)) | .one .Y q => some (.y (qIndex np q))
  | .one .Z q => some (.z (qIndex np q)) | .one .S q => some (.s (qIndex np q)) | .one .Sdg q => some (.sdg (qIndex np q))
  | .ctrl .CNOT a b => some (.cnot (qIndex np a) (qIndex np b))
  | .ctrl .CZ a b => some (.cz (qIndex np a) (qIndex np b))
  | _ => none

/-- compile a unitary circuit from |0…0⟩ with the verified tableau gates -/
def compileU (c : Circuit) : Option Tab :=
  match (flat c.ops).mapM (tabOp c.np) with
  | none => none
  | some ops => match (Tab.ket0 (c.ne + c.np)).runOps ops with
    | .ok t => some t.norm
    | .error _ => none

/-- is the signed Pauli `p` in the group generated by the two stabilizer rows of a 2-qubit tableau? -/
def inGroup2 (t : Tab) (p : PRow) : Bool :=
  let g1 := t.row 2
  let g2 := t.row 3
  PRow.beqOn 2 p PRow.one || PRow.beqOn 2 p g1 || PRow.beqOn 2 p g2 || PRow.beqOn 2 p (PRow.mul 2 g1 g2)

/-- same stabilizer state (2 qubits): every generator of one is in the group of the other -/
def sameState2 (t1 t2 : Tab) : Bool :=
  inGroup2 t2 (t1.row 2) && inGroup2 t2 (t1.row 3) && inGroup2 t1 (t2.row 2) && inGroup2 t1 (t2.row 3)

/-- exchange the two qubits (the only non-trivial renaming of two emitters) -/
def swapQubits (t : Tab) : Tab := (t.swapGate 0 1).norm

def statesDiffer2 (c1 c2 : Circuit) : Bool :=
  match compileU c1, compileU c2 with
  | some t1, some t2 => !sameState2 t1 t2 && !sameState2 t1 (swapQubits t2)
  | _, _ => false

end Graphiq.Compare
