/-
  Proofs/Compare.lean — lemmas about the comparison model (C15).

  Part 1: class-relation table facts (kernel `decide` over the regenerated `issubclass` table).
  Part 2: `directL`: soundness, reflexivity, symmetry, dependence on the flattened operation list only.
  Part 3: the redundancy filters, for an arbitrary comparison function.
  Part 4: the coded isomorphism check: what the search returns is checked; a key-respecting isomorphism maps wires to wires.
-/
import GraphiqModel.Model.Compare
import GraphiqModel.Proofs.Export
import GraphiqModel.Model.Tableau
import Mathlib.Data.List.Perm.Subperm
import Mathlib.Data.List.Nodup
namespace Graphiq.Compare
open Graphiq Graphiq.Export

/-! ## Part 1: `isinstance` between the 13 operation classes is equality (no class subclasses another) -/

theorem tbl_subclass_refl : ∀ k ∈ Cls.all, isSubclass k k = true := by decide +kernel
theorem tbl_subclass_eq : ∀ a ∈ Cls.all, ∀ b ∈ Cls.all, isSubclass a b = true → a = b := by decide +kernel

theorem isSubclass_iff (a b : Cls) : isSubclass a b = true ↔ a = b :=
  ⟨tbl_subclass_eq a (Cls.mem_all a) b (Cls.mem_all b), fun h => h ▸ tbl_subclass_refl a (Cls.mem_all a)⟩

/-! ## Part 2: `direct` -/

/-- two operations the walk accepts are the same operation up to the classical register they write -/
theorem opMatchL_dropC (a b : Op) (ha : ∀ gs q, a ≠ .wrap gs q) (h : opMatchL a b = true) : dropC a = dropC b := by
  unfold opMatchL at h
  simp only [Bool.and_eq_true, beq_iff_eq] at h
  obtain ⟨hc, hq⟩ := h
  cases a with
  | wrap gs q => exact absurd rfl (ha gs q)
  | one g q =>
    cases b <;> simp only [opClsMatch, Op.cls, isSubclass_iff, reduceCtorEq, Bool.false_eq_true] at hc
    · simp only [Op.qRegs, List.cons.injEq, and_true] at hq
      injection hc with hc; subst hc; subst hq; rfl
  | ctrl g x y =>
    cases b <;> simp only [opClsMatch, Op.cls, isSubclass_iff, reduceCtorEq, Bool.false_eq_true] at hc
    · simp only [Op.qRegs, List.cons.injEq, and_true] at hq
      injection hc with hc; subst hc; obtain ⟨h1, h2⟩ := hq; subst h1; subst h2; rfl
  | cctrl g x y c =>
    cases b <;> simp only [opClsMatch, Op.cls, isSubclass_iff, reduceCtorEq, Bool.false_eq_true] at hc
    · simp only [Op.qRegs, List.cons.injEq, and_true] at hq
      injection hc with hc; subst hc; obtain ⟨h1, h2⟩ := hq; subst h1; subst h2; rfl
  | meas q c =>
    cases b <;> simp only [opClsMatch, Op.cls, isSubclass_iff, reduceCtorEq, Bool.false_eq_true] at hc
    · simp only [Op.qRegs, List.cons.injEq, and_true] at hq
      subst hq; rfl

theorem walkL_dropC (l1 l2 : List Op) (h1 : ∀ a ∈ l1, ∀ gs q, a ≠ .wrap gs q) (h : walkL l1 l2 = true) :
    l1.map dropC = l2.map dropC := by
  induction l1 generalizing l2 with
  | nil => cases l2 <;> simp_all [walkL]
  | cons a as ih =>
    cases l2 with
    | nil => simp [walkL] at h
    | cons b bs =>
      simp only [walkL, Bool.and_eq_true] at h
      simp only [List.map_cons]
      rw [opMatchL_dropC a b (h1 a (by simp)) h.1, ih bs (fun x hx => h1 x (by simp [hx])) h.2]

/-- flattening leaves no wrappers -/
theorem flat_no_wrap (ops : List Op) : ∀ a ∈ flat ops, ∀ gs q, a ≠ .wrap gs q := by
  intro a ha gs q heq
  subst heq
  unfold flat at ha
  simp only [List.mem_filter, List.mem_flatMap] at ha
  obtain ⟨⟨o, _, ho⟩, _⟩ := ha
  cases o <;> simp [Op.unwrap] at ho

theorem touches_ofQ (q : QReg) (o : Op) : touches (Wire.ofQ q) o = o.qRegs.contains q := by
  unfold touches opWires
  rw [List.contains_eq_mem, List.contains_eq_mem]
  have inj : ∀ a b : QReg, Wire.ofQ a = Wire.ofQ b → a = b := by
    intro a b h
    cases a with | mk ta ia => cases b with | mk tb ib =>
    cases ta <;> cases tb <;> simp [Wire.ofQ, RT.ofRegT] at h <;> simp [h]
  have hc : ∀ i : Nat, (⟨.c, i⟩ : Wire) ≠ Wire.ofQ q := by
    intro i h; cases q with | mk t i' => cases t <;> simp [Wire.ofQ, RT.ofRegT] at h
  by_cases hm : q ∈ o.qRegs
  · have : Wire.ofQ q ∈ o.qRegs.map Wire.ofQ ++ o.cRegs.map fun i => (⟨.c, i⟩ : Wire) :=
      List.mem_append_left _ (List.mem_map_of_mem hm)
    simp [hm, this]
  · have : ¬ Wire.ofQ q ∈ o.qRegs.map Wire.ofQ ++ o.cRegs.map fun i => (⟨.c, i⟩ : Wire) := by
      intro h
      rcases List.mem_append.1 h with h | h
      · obtain ⟨a, ha, hEq⟩ := List.mem_map.1 h
        exact hm (inj a q hEq ▸ ha)
      · obtain ⟨i, _, hEq⟩ := List.mem_map.1 h
        exact hc i hEq
    simp [hm, this]

theorem mem_allWires_of_qreg (c : Circuit) (q : QReg) (h : q ∈ qregsOf c) : Wire.ofQ q ∈ allWires c := by
  unfold qregsOf at h
  unfold allWires
  rcases List.mem_append.1 h with h | h
  · obtain ⟨i, hi, rfl⟩ := List.mem_map.1 h
    exact List.mem_append_left _ (List.mem_append_right _ (List.mem_map.2 ⟨i, hi, rfl⟩))
  · obtain ⟨i, hi, rfl⟩ := List.mem_map.1 h
    exact List.mem_append_left _ (List.mem_append_left _ (List.mem_map.2 ⟨i, hi, rfl⟩))

/-- **`direct` is sound**: reported equal ⇒ same register counts and, on every quantum register, the same sequence of
    executed operations (up to which classical register records an outcome) -/
theorem directL_sound (c1 c2 : Circuit) (h : directL c1 c2 = true) : wiresEq c1 c2 = true := by
  unfold directL at h
  simp only [Bool.and_eq_true, beq_iff_eq, List.all_eq_true] at h
  obtain ⟨⟨⟨⟨hne, hnp⟩, hnc⟩, _⟩, hw⟩ := h
  unfold wiresEq
  simp only [Bool.and_eq_true, beq_iff_eq, List.all_eq_true, hne, hnp, hnc, true_and]
  intro q hq
  have := hw (Wire.ofQ q) (mem_allWires_of_qreg c1 q hq)
  unfold wireOf
  have hf : ∀ ops : List Op, ops.filter (touches (Wire.ofQ q)) = ops.filter (fun o => o.qRegs.contains q) := by
    intro ops; congr 1; funext o; exact touches_ofQ q o
  rw [hf, hf] at this
  exact walkL_dropC _ _ (fun a ha => flat_no_wrap c1.ops a (List.mem_filter.1 ha).1) this

theorem opMatchL_refl (a : Op) : opMatchL a a = true := by
  unfold opMatchL
  cases a <;> simp [opClsMatch, Op.cls, isSubclass_iff]

theorem walkL_refl (l : List Op) : walkL l l = true := by
  induction l with
  | nil => rfl
  | cons a as ih => simp [walkL, opMatchL_refl, ih]

/-- `direct` is reflexive (in particular on copies) -/
theorem directL_refl (c : Circuit) : directL c c = true := by
  unfold directL
  simp [walkL_refl]

theorem opMatchL_symm (a b : Op) : opMatchL a b = opMatchL b a := by
  unfold opMatchL
  have hq : (a.qRegs == b.qRegs) = (b.qRegs == a.qRegs) :=
    Bool.eq_iff_iff.2 (by simp only [beq_iff_eq]; exact eq_comm)
  have hc : opClsMatch a b = opClsMatch b a := by
    cases a <;> cases b <;> simp only [opClsMatch, Op.cls] <;>
      (apply Bool.eq_iff_iff.2; simp only [isSubclass_iff]; exact eq_comm)
  rw [hq, hc]

theorem walkL_symm (l1 l2 : List Op) : walkL l1 l2 = walkL l2 l1 := by
  induction l1 generalizing l2 with
  | nil => cases l2 <;> rfl
  | cons a as ih =>
    cases l2 with
    | nil => rfl
    | cons b bs => simp only [walkL, opMatchL_symm a b, ih bs]

/-- `direct` is symmetric -/
theorem directL_symm (c1 c2 : Circuit) : directL c1 c2 = directL c2 c1 := by
  unfold directL
  by_cases hr : c1.ne = c2.ne ∧ c1.np = c2.np ∧ c1.nc = c2.nc
  · obtain ⟨h1, h2, h3⟩ := hr
    have hw : allWires c1 = allWires c2 := by unfold allWires; rw [h1, h2, h3]
    rw [hw]
    simp only [h1, h2, h3, beq_self_eq_true, Bool.true_and]
    have hl : ((flat c1.ops).length == (flat c2.ops).length) = ((flat c2.ops).length == (flat c1.ops).length) :=
      Bool.eq_iff_iff.2 (by simp only [beq_iff_eq]; exact eq_comm)
    rw [hl]
    congr 1
    congr 1
    funext w
    exact walkL_symm _ _
  · have h1 : (c1.ne == c2.ne && c1.np == c2.np && c1.nc == c2.nc) = false := by
      apply Bool.eq_false_iff.2
      intro h
      simp only [Bool.and_eq_true, beq_iff_eq] at h
      exact hr ⟨h.1.1, h.1.2, h.2⟩
    have h2 : (c2.ne == c1.ne && c2.np == c1.np && c2.nc == c1.nc) = false := by
      apply Bool.eq_false_iff.2
      intro h
      simp only [Bool.and_eq_true, beq_iff_eq] at h
      exact hr ⟨h.1.1.symm, h.1.2.symm, h.2.symm⟩
    simp only [h1, h2, Bool.false_and]

/-- `direct` only looks at the flattened circuits: wrapping, re-bracketing and identities are invisible to it -/
theorem directL_flat_congr (c1 c1' c2 : Circuit) (hr : c1.ne = c1'.ne ∧ c1.np = c1'.np ∧ c1.nc = c1'.nc)
    (hf : flat c1.ops = flat c1'.ops) : directL c1 c2 = directL c1' c2 := by
  unfold directL allWires
  rw [hr.1, hr.2.1, hr.2.2, hf]

/-! ## Part 3: redundancy filters (any comparison function) -/

theorem removeRedundantWith_append {α : Type} (eq : α → α → Bool) (l : List α) (kept0 : List α) :
    ∃ extra, l.foldl (fun kept x => if kept.any (fun k => eq k x) then kept else kept ++ [x]) kept0 = kept0 ++ extra ∧
      extra.Sublist l ∧ ∀ x ∈ l, x ∈ extra ∨ ∃ k ∈ kept0 ++ extra, eq k x = true := by
  induction l generalizing kept0 with
  | nil => exact ⟨[], by simp, List.Sublist.refl _, by simp⟩
  | cons x rest ih =>
    simp only [List.foldl_cons]
    by_cases hx : kept0.any (fun k => eq k x) = true
    · obtain ⟨extra, h1, h2, h3⟩ := ih kept0
      refine ⟨extra, by simpa [hx] using h1, List.Sublist.cons _ h2, ?_⟩
      intro y hy
      rcases List.mem_cons.1 hy with rfl | hy
      · right
        obtain ⟨k, hk, hkx⟩ := List.any_eq_true.1 hx
        exact ⟨k, List.mem_append_left _ hk, hkx⟩
      · exact h3 y hy
    · obtain ⟨extra, h1, h2, h3⟩ := ih (kept0 ++ [x])
      refine ⟨x :: extra, by simpa [hx] using h1, List.Sublist.cons_cons _ h2, ?_⟩
      intro y hy
      rcases List.mem_cons.1 hy with rfl | hy
      · left; simp
      · rcases h3 y hy with h | ⟨k, hk, hky⟩
        · left; simp [h]
        · right; exact ⟨k, by simpa using hk, hky⟩

/-- the filtered list is a sub-list of the input, and every circuit of the input is kept or compares equal to a kept one -/
theorem removeRedundantWith_spec {α : Type} (eq : α → α → Bool) (l : List α) :
    (removeRedundantWith eq l).Sublist l ∧
    ∀ x ∈ l, x ∈ removeRedundantWith eq l ∨ ∃ k ∈ removeRedundantWith eq l, eq k x = true := by
  obtain ⟨extra, h1, h2, h3⟩ := removeRedundantWith_append eq l []
  unfold removeRedundantWith
  rw [h1]
  simpa using ⟨h2, h3⟩

theorem storage_fold_fst {α : Type} (eq : α → α → Bool) (l : List α) (st : List α) (fl : List Bool) :
    (l.foldl (fun (st : List α × List Bool) x =>
      if false then (st.1 ++ [x], st.2 ++ [true])
      else if st.1.any (fun k => eq k x) then (st.1, st.2 ++ [false])
      else (st.1 ++ [x], st.2 ++ [true])) (st, fl)).1 =
    l.foldl (fun kept x => if kept.any (fun k => eq k x) then kept else kept ++ [x]) st := by
  induction l generalizing st fl with
  | nil => rfl
  | cons x rest ih =>
    simp only [List.foldl_cons, Bool.false_eq_true, if_false]
    by_cases hx : st.any (fun k => eq k x) = true
    · simp only [hx, if_true]; exact ih st _
    · simp only [hx]; exact ih _ _

/-- `CircuitStorage` keeps exactly what `remove_redundant_circuits` would keep with the same comparison -/
theorem storage_eq_removeRedundant {α : Type} (eq : α → α → Bool) (l : List α) :
    (storageAddAll eq false l).1 = removeRedundantWith eq l :=
  storage_fold_fst eq l [] []

/-! ## Part 4: the coded isomorphism check -/

instance : DecidableEq (Except Err Bool) := fun a b =>
  match a, b with
  | .ok x, .ok y => if h : x = y then isTrue (by rw [h]) else isFalse (by intro h'; injection h' with h''; exact h h'')
  | .error x, .error y => if h : x = y then isTrue (by rw [h]) else isFalse (by intro h'; injection h' with h''; exact h h'')
  | .ok _, .error _ => isFalse (by intro h; cases h)
  | .error _, .ok _ => isFalse (by intro h; cases h)

/-- whatever the search does, a positive answer exhibits a map that passes the full check -/
theorem isoGraphs_witness (g1 g2 : MG) (h : isoGraphs g1 g2 = true) :
    ∃ f, isoCheck g1.addControlTarget g2.addControlTarget f = true := by
  unfold isoGraphs at h
  simp only [Bool.and_eq_true, List.any_eq_true] at h
  obtain ⟨_, f, _, hf⟩ := h
  exact ⟨f, hf⟩

/-- the nodes reached from `n` by following the edges with key `w` (at most `fuel` steps) -/
def followKey (g : MG) (w : Wire) : Nat → Nd → List Nd
  | 0, n => [n]
  | fuel + 1, n =>
    n :: match g.outEdge n w with
      | some e => followKey g w fuel e.dst
      | none => []

/-- `f` (on nodes) together with `π` (on edge keys) maps the keyed edges of `g1` onto the keyed edges of `g2`.
    This is what the coded `edge_match` does **not** check: it never looks at the key. -/
structure KeyRespecting (g1 g2 : MG) (f : Nd → Nd) (π : Wire → Wire) : Prop where
  fwd : ∀ e ∈ g1.edges, ∃ e' ∈ g2.edges, e'.src = f e.src ∧ e'.dst = f e.dst ∧ e'.key = π e.key
  bwd : ∀ e' ∈ g2.edges, ∃ e ∈ g1.edges, e'.src = f e.src ∧ e'.dst = f e.dst ∧ e'.key = π e.key
  injN : ∀ a b, f a = f b → a = b
  injK : ∀ a b, π a = π b → a = b

/-- a circuit DAG has at most one edge with a given key leaving a node -/
def UniqueOut (g : MG) : Prop := ∀ e ∈ g.edges, ∀ e' ∈ g.edges, e.src = e'.src → e.key = e'.key → e.dst = e'.dst

theorem outEdge_some (g : MG) (n : Nd) (w : Wire) (e : Edge) (h : g.outEdge n w = some e) :
    e ∈ g.edges ∧ e.src = n ∧ e.key = w := by
  unfold MG.outEdge at h
  have hm := List.mem_of_find?_eq_some h
  have hp := List.find?_some h
  simp only [Bool.and_eq_true, beq_iff_eq] at hp
  exact ⟨hm, hp.1, hp.2⟩

theorem outEdge_none (g : MG) (n : Nd) (w : Wire) (h : g.outEdge n w = none) :
    ∀ e ∈ g.edges, ¬ (e.src = n ∧ e.key = w) := by
  unfold MG.outEdge at h
  intro e he hc
  have := List.find?_eq_none.1 h e he
  simp [hc.1, hc.2] at this

theorem outEdge_isSome_of_mem (g : MG) (e : Edge) (he : e ∈ g.edges) : ∃ e', g.outEdge e.src e.key = some e' := by
  cases h : g.outEdge e.src e.key with
  | some e' => exact ⟨e', rfl⟩
  | none => exact absurd ⟨rfl, rfl⟩ (outEdge_none g _ _ h e he)

/-- a key-respecting node map sends the node sequence of every wire of `g1` to the node sequence of the corresponding
    wire of `g2` -/
theorem followKey_map (g1 g2 : MG) (f : Nd → Nd) (π : Wire → Wire) (hk : KeyRespecting g1 g2 f π) (hu : UniqueOut g2)
    (w : Wire) (fuel : Nat) (n : Nd) : followKey g2 (π w) fuel (f n) = (followKey g1 w fuel n).map f := by
  induction fuel generalizing n with
  | zero => rfl
  | succ k ih =>
    simp only [followKey, List.map_cons]
    congr 1
    cases h1 : g1.outEdge n w with
    | some e =>
      obtain ⟨he, hs, hkey⟩ := outEdge_some g1 n w e h1
      obtain ⟨e', he', hs', hd', hk'⟩ := hk.fwd e he
      obtain ⟨e'', h2⟩ := outEdge_isSome_of_mem g2 e' he'
      obtain ⟨he'', hs'', hk''⟩ := outEdge_some g2 _ _ e'' h2
      have hd : e''.dst = e'.dst := hu e'' he'' e' he' hs'' hk''
      rw [hs', hs, hk', hkey] at h2
      simp only [h2, hd, hd']
      exact ih e.dst
    | none =>
      cases h2 : g2.outEdge (f n) (π w) with
      | none => rfl
      | some e' =>
        exfalso
        obtain ⟨he', hs', hk'⟩ := outEdge_some g2 _ _ e' h2
        obtain ⟨e, he, hs, _, hkey⟩ := hk.bwd e' he'
        have h3 : e.src = n := hk.injN _ _ (hs.symm.trans hs')
        have h4 : e.key = w := hk.injK _ _ (hkey.symm.trans hk')
        exact outEdge_none g1 n w h1 e he ⟨h3, h4⟩


/-- a map that passes the coded check matches every node of `g1` with a node of `g2` of the same class / register types -/
theorem isoCheck_nodeMatch (g1 g2 : MG) (fl : List (Nd × Nd)) (h : isoCheck g1 g2 fl = true) :
    ∀ n ∈ g1.nodes.map (·.1), ∃ m a b, applyMap fl n = some m ∧ g1.opOf n = some a ∧ g2.opOf m = some b ∧ nodeMatch a b = true := by
  unfold isoCheck at h
  simp only [Bool.and_eq_true, List.all_eq_true] at h
  obtain ⟨⟨_, hnm⟩, _⟩ := h
  intro n hn
  have := hnm n hn
  cases hm : applyMap fl n with
  | none => simp [hm] at this
  | some m =>
    simp only [hm] at this
    cases ha : g1.opOf n with
    | none => simp [ha] at this
    | some a =>
      cases hb : g2.opOf m with
      | none => simp [ha, hb] at this
      | some b =>
        simp only [ha, hb] at this
        exact ⟨m, a, b, rfl, rfl, hb, this⟩

/-! ### flattening: wrapping, unwrapping and identities do not change the executed operations -/

theorem flat_unwrap_in_place (pre post : List Op) (gs : List G1) (q : QReg) :
    flat (pre ++ [.wrap gs q] ++ post) = flat (pre ++ Op.unwrap (.wrap gs q) ++ post) := by
  simp only [flat_append]
  congr 2
  rw [flat_wrap]
  simp only [flat, Op.unwrap]
  have : ∀ l : List G1, (l.map fun g => Op.one g q).flatMap Op.unwrap = l.map fun g => Op.one g q := by
    intro l
    induction l with
    | nil => rfl
    | cons g rest ih => simp only [List.map_cons, List.flatMap_cons, Op.unwrap, ih, List.singleton_append]
  rw [this, List.filter_map, ← List.filter_reverse]
  congr 1
  apply List.filter_congr
  intro g _
  cases g <;> rfl

theorem flat_identity_in_place (pre post : List Op) (q : QReg) :
    flat (pre ++ [.one .I q] ++ post) = flat (pre ++ post) := by
  simp only [flat_append]
  have : flat [Op.one .I q] = [] := by simp [flat, Op.unwrap, Op.isIdentity]
  rw [this, List.append_nil]

/-! ## Part 5: reflexivity of the coded check; compiled states of the unitary witnesses (verified tableau semantics) -/

theorem nodeMatch_refl (a : NOp) : nodeMatch a a = true := by
  cases a with
  | input w => cases w with | mk t i => cases t <;> simp [nodeMatch]
  | output w => cases w with | mk t i => cases t <;> simp [nodeMatch]
  | gate o => cases o <;> simp [nodeMatch]

theorem edgeMatch_refl (es : List Edge) : edgeMatch es es = true := by
  simp [edgeMatch]

def idMapOf (g : MG) : List (Nd × Nd) := g.nodes.map fun p => (p.1, p.1)

theorem applyMap_id (g : MG) (n : Nd) (h : n ∈ g.nodes.map (·.1)) : applyMap (idMapOf g) n = some n := by
  unfold applyMap idMapOf
  obtain ⟨p, hp, rfl⟩ := List.mem_map.1 h
  cases hf : (g.nodes.map fun p => (p.1, p.1)).find? (fun q => q.1 == p.1) with
  | none =>
    exfalso
    have := List.find?_eq_none.1 hf (p.1, p.1) (List.mem_map_of_mem hp)
    simp at this
  | some q =>
    have hq := List.find?_some hf
    have hm := List.mem_of_find?_eq_some hf
    obtain ⟨r, _, hr⟩ := List.mem_map.1 hm
    simp only [beq_iff_eq] at hq
    subst hr
    simp only [Option.map_some]
    exact congrArg some hq

/-- **the coded isomorphism check is reflexive**: for any DAG with distinct node names in which every node carries an
    operation, the identity map passes `isoCheck` (so `networkx.is_isomorphic`, which decides existence, answers True
    for a circuit and its copy) -/
theorem isoCheck_refl (g : MG) (hnd : nodupNd (g.nodes.map (·.1)) = true)
    (hop : ∀ n ∈ g.nodes.map (·.1), (g.opOf n).isSome = true) : isoCheck g g (idMapOf g) = true := by
  have himg : (g.nodes.map (·.1)).map (applyMap (idMapOf g)) = (g.nodes.map (·.1)).map some := by
    apply List.map_congr_left
    intro n hn
    exact applyMap_id g n hn
  have hfm : ((g.nodes.map (·.1)).map some).filterMap id = g.nodes.map (·.1) := by
    rw [List.filterMap_map]
    have : (id ∘ some : Nd → Option Nd) = some := rfl
    rw [this, List.filterMap_some]
  unfold isoCheck
  simp only [himg, hfm, beq_self_eq_true, Bool.true_and, hnd, Bool.and_eq_true, List.all_eq_true]
  refine ⟨⟨⟨⟨?_, trivial⟩, ?_⟩, ?_⟩, ?_⟩
  · intro o ho
    obtain ⟨n, _, rfl⟩ := List.mem_map.1 ho
    rfl
  · intro n hn
    simpa using hn
  · intro n hn
    rw [applyMap_id g n hn]
    have := hop n hn
    cases ho : g.opOf n with
    | none => rw [ho] at this; cases this
    | some a => simp only [ho, nodeMatch_refl]
  · intro u hu v hv
    rw [applyMap_id g u hu, applyMap_id g v hv]
    simp [edgeMatch_refl]

/-! ### compiled states of the unitary witness pairs in the tableau model of C07 -/

/-- index of a quantum register in the compiled state: photons first, then emitters (`reg_to_index_func`) -/
def qIndex (np : Nat) (q : QReg) : Nat := match q.t with | .p => q.i | .e => np + q.i

/-- the tableau operation of a unitary circuit operation (after flattening) -/
def tabOp (np : Nat) : Op → Option Tab.Op
  | .one .H q => some (.h (qIndex np q)) | .one .X q => some (.x (qIndex np q)) | .one .Y q => some (.y (qIndex np q))
  | .one .Z q => some (.z (qIndex np q)) | .one .S q => some (.s (qIndex np q)) | .one .Sdg q => some (.sdg (qIndex np q))
  | .ctrl .CNOT a b => some (.cnot (qIndex np a) (qIndex np b))
  | .ctrl .CZ a b => some (.cz (qIndex np a) (qIndex np b))
  | _ => none

/-- compile a unitary circuit from |0…0⟩ with the verified tableau gates -/
def compileU (c : Circuit) : Option Tab :=
  match (flat c.ops).mapM (tabOp c.np) with
  | none => none
  | some ops => match (Tab.ket0 (c.ne + c.np)).runOps ops with
    | .ok t => some t.norm
    | .error _ => none

/-- is the signed Pauli `p` in the group generated by the two stabilizer rows of a 2-qubit tableau? -/
def inGroup2 (t : Tab) (p : PRow) : Bool :=
  let g1 := t.row 2
  let g2 := t.row 3
  PRow.beqOn 2 p PRow.one || PRow.beqOn 2 p g1 || PRow.beqOn 2 p g2 || PRow.beqOn 2 p (PRow.mul 2 g1 g2)

/-- same stabilizer state (2 qubits): every generator of one is in the group of the other -/
def sameState2 (t1 t2 : Tab) : Bool :=
  inGroup2 t2 (t1.row 2) && inGroup2 t2 (t1.row 3) && inGroup2 t1 (t2.row 2) && inGroup2 t1 (t2.row 3)

/-- exchange the two qubits (the only non-trivial renaming of two emitters) -/
def swapQubits (t : Tab) : Tab := (t.swapGate 0 1).norm

def statesDiffer2 (c1 c2 : Circuit) : Bool :=
  match compileU c1, compileU c2 with
  | some t1, some t2 => !sameState2 t1 t2 && !sameState2 t1 (swapQubits t2)
  | _, _ => false

/-! ## Part 6: equal wire sequences = equal up to exchanging neighbouring operations on disjoint registers -/

/-- the two operations share no quantum register -/
def disjointOps (a b : Op) : Bool := a.qRegs.all fun q => !b.qRegs.contains q

/-- the operation acts on quantum register `q` -/
def onReg (q : QReg) (o : Op) : Bool := o.qRegs.contains q

/-- equivalence generated by exchanging two neighbouring operations that share no quantum register (operations on
    disjoint registers commute, so equivalent lists compile to the same state) -/
inductive SwapEquiv : List Op → List Op → Prop
  | refl (l : List Op) : SwapEquiv l l
  | swap (pre : List Op) (a b : Op) (post : List Op) (h : disjointOps a b = true) :
      SwapEquiv (pre ++ a :: b :: post) (pre ++ b :: a :: post)
  | trans {l1 l2 l3 : List Op} : SwapEquiv l1 l2 → SwapEquiv l2 l3 → SwapEquiv l1 l3

theorem SwapEquiv.cons (a : Op) {l1 l2 : List Op} (h : SwapEquiv l1 l2) : SwapEquiv (a :: l1) (a :: l2) := by
  induction h with
  | refl l => exact .refl _
  | swap pre x y post hd => exact .swap (a :: pre) x y post hd
  | trans _ _ ih1 ih2 => exact .trans ih1 ih2

theorem disjointOps_symm (a b : Op) (h : disjointOps a b = true) : disjointOps b a = true := by
  unfold disjointOps at *
  simp only [List.all_eq_true, Bool.not_eq_true', List.contains_eq_mem, decide_eq_false_iff_not] at *
  intro q hq hqa
  exact h q hqa hq

/-- an operation that is disjoint from everything before it can be moved to the front -/
theorem moveFront (pre : List Op) (a : Op) (post : List Op) (h : ∀ b ∈ pre, disjointOps b a = true) :
    SwapEquiv (pre ++ a :: post) (a :: pre ++ post) := by
  induction pre with
  | nil => exact .refl _
  | cons b rest ih =>
    have h1 : SwapEquiv (b :: (rest ++ a :: post)) (b :: (a :: rest ++ post)) :=
      SwapEquiv.cons b (ih (fun x hx => h x (by simp [hx])))
    have h2 : SwapEquiv ([] ++ b :: a :: (rest ++ post)) ([] ++ a :: b :: (rest ++ post)) :=
      .swap [] b a (rest ++ post) (h b (by simp))
    exact .trans h1 h2

theorem filter_onReg_disjoint (pre : List Op) (a : Op) (q : QReg) (hq : onReg q a = true)
    (h : ∀ b ∈ pre, disjointOps b a = true) : pre.filter (onReg q) = [] := by
  rw [List.filter_eq_nil_iff]
  intro b hb hbq
  have := h b hb
  unfold disjointOps at this
  simp only [List.all_eq_true, Bool.not_eq_true', List.contains_eq_mem, decide_eq_false_iff_not] at this
  unfold onReg at hq hbq
  simp only [List.contains_eq_mem, decide_eq_true_eq] at hq hbq
  exact this q hbq hq

theorem all_false_exists (l : List QReg) (p : QReg → Bool) (h : l.all p = false) : ∃ q, q ∈ l ∧ p q = false := by
  induction l with
  | nil => simp at h
  | cons q rest ih =>
    simp only [List.all_cons, Bool.and_eq_false_iff] at h
    rcases h with h | h
    · exact ⟨q, by simp, h⟩
    · obtain ⟨q', h1, h2⟩ := ih h
      exact ⟨q', by simp [h1], h2⟩

theorem disjointOps_false (b a : Op) (h : disjointOps b a = false) : ∃ q, q ∈ b.qRegs ∧ q ∈ a.qRegs := by
  obtain ⟨q, h1, h2⟩ := all_false_exists _ _ h
  exact ⟨q, h1, by simpa using h2⟩

/-- split a list at its first operation that shares a register with `a` -/
theorem split_first_touching (a : Op) (l : List Op) (h : ∃ b ∈ l, disjointOps b a = false) :
    ∃ pre b post, l = pre ++ b :: post ∧ (∀ x ∈ pre, disjointOps x a = true) ∧ disjointOps b a = false := by
  induction l with
  | nil => obtain ⟨b, hb, _⟩ := h; cases hb
  | cons x rest ih =>
    by_cases hx : disjointOps x a = true
    · have : ∃ b ∈ rest, disjointOps b a = false := by
        obtain ⟨b, hb, hd⟩ := h
        rcases List.mem_cons.1 hb with rfl | hb
        · rw [hx] at hd; cases hd
        · exact ⟨b, hb, hd⟩
      obtain ⟨pre, b, post, he, hp, hb⟩ := ih this
      refine ⟨x :: pre, b, post, by simp [he], ?_, hb⟩
      intro y hy
      rcases List.mem_cons.1 hy with rfl | hy
      · exact hx
      · exact hp y hy
    · exact ⟨[], x, rest, rfl, fun y hy => absurd hy (List.not_mem_nil), by simpa using hx⟩

/-- **wire sequences determine the circuit up to commuting exchanges**: if every operation acts on at least one quantum
    register and the two lists have the same subsequence on every quantum register, they are `SwapEquiv` -/
theorem swapEquiv_of_wires (l1 l2 : List Op) (hne1 : ∀ o ∈ l1, o.qRegs ≠ [])
    (hw : ∀ q, l1.filter (onReg q) = l2.filter (onReg q)) (hlen : l1.length = l2.length) : SwapEquiv l1 l2 := by
  induction l1 generalizing l2 with
  | nil =>
    cases l2 with
    | nil => exact .refl _
    | cons _ _ => simp at hlen
  | cons a rest ih =>
    -- a register of `a`
    obtain ⟨q0, hq0⟩ : ∃ q0, q0 ∈ a.qRegs := by
      cases hqs : a.qRegs with
      | nil => exact absurd hqs (hne1 a (by simp))
      | cons q _ => exact ⟨q, by simp⟩
    have hq0' : onReg q0 a = true := by unfold onReg; simpa using hq0
    -- `l2` contains an operation on `q0`
    have hex : ∃ b ∈ l2, disjointOps b a = false := by
      have h0 := hw q0
      simp only [List.filter_cons, hq0', if_true] at h0
      have hmem : a ∈ l2.filter (onReg q0) := by rw [← h0]; simp
      refine ⟨a, (List.mem_filter.1 hmem).1, ?_⟩
      unfold disjointOps
      apply Bool.eq_false_iff.2
      intro hall
      simp only [List.all_eq_true, Bool.not_eq_true', List.contains_eq_mem, decide_eq_false_iff_not] at hall
      exact hall q0 hq0 hq0
    obtain ⟨pre, b, post, he, hpre, hb⟩ := split_first_touching a l2 hex
    subst he
    -- `b` shares a register `q1` with `a`; on that wire `a` is first in `l1` and `b` is first in `l2`
    obtain ⟨q1, hq1b, hq1a⟩ := disjointOps_false b a hb
    have hq1a' : onReg q1 a = true := by unfold onReg; simpa using hq1a
    have hq1b' : onReg q1 b = true := by unfold onReg; simpa using hq1b
    have hba : b = a := by
      have h1 := hw q1
      rw [List.filter_append, filter_onReg_disjoint pre a q1 hq1a' hpre] at h1
      simp only [List.filter_cons, hq1a', hq1b', if_true, List.nil_append] at h1
      injection h1 with h1 _
      exact h1.symm
    subst hba
    -- the remaining lists still agree on every wire
    have hw' : ∀ q, rest.filter (onReg q) = (pre ++ post).filter (onReg q) := by
      intro q
      have h1 := hw q
      rw [List.filter_append] at h1
      rw [List.filter_append]
      by_cases hqa : onReg q b = true
      · rw [filter_onReg_disjoint pre b q hqa hpre] at h1 ⊢
        simp only [List.filter_cons, hqa, if_true, List.nil_append] at h1
        simpa using h1
      · simp only [List.filter_cons, hqa] at h1
        simpa using h1
    have hlen' : rest.length = (pre ++ post).length := by
      simp only [List.length_cons, List.length_append] at hlen ⊢
      omega
    have h1 : SwapEquiv (b :: rest) (b :: (pre ++ post)) :=
      SwapEquiv.cons b (ih (pre ++ post) (fun o ho => hne1 o (by simp [ho])) hw' hlen')
    have h2 : SwapEquiv (pre ++ b :: post) (b :: pre ++ post) := moveFront pre b post hpre
    exact .trans h1 (swapEquiv_symm h2)
where
  swapEquiv_symm {x y : List Op} (h : SwapEquiv x y) : SwapEquiv y x := by
    induction h with
    | refl l => exact .refl _
    | swap pre a b post hd => exact .swap pre b a post (disjointOps_symm a b hd)
    | trans _ _ ih1 ih2 => exact .trans ih2 ih1

theorem qRegs_ne_nil (o : Op) : o.qRegs ≠ [] := by cases o <;> simp [Op.qRegs]

theorem dropC_qRegs (o : Op) : (dropC o).qRegs = o.qRegs := by cases o <;> rfl

theorem filter_map_dropC (l : List Op) (q : QReg) :
    (l.map dropC).filter (onReg q) = (l.filter (fun o => o.qRegs.contains q)).map dropC := by
  induction l with
  | nil => rfl
  | cons o rest ih =>
    simp only [List.map_cons, List.filter_cons, onReg, dropC_qRegs]
    split <;> simp [ih]

theorem mem_qregsOf (c : Circuit) (q : QReg) : q ∈ qregsOf c ↔ q.i < c.nOf q.t := by
  unfold qregsOf Circuit.nOf
  cases q with | mk t i =>
  cases t <;> simp

/-- unwrapping keeps the registers in range -/
theorem flat_inRange (c : Circuit) (ops : List Op) (h : ∀ op ∈ ops, InRange c op) : ∀ o ∈ flat ops, ∀ q ∈ o.qRegs, q ∈ qregsOf c := by
  intro o ho q hq
  unfold flat at ho
  obtain ⟨hm, _⟩ := List.mem_filter.1 ho
  obtain ⟨op, hop, hu⟩ := List.mem_flatMap.1 hm
  have hr := (h op hop).1
  rw [mem_qregsOf]
  cases op with
  | wrap gs q' =>
    simp only [Op.unwrap, List.mem_map] at hu
    obtain ⟨g, _, rfl⟩ := hu
    simp only [Op.qRegs, List.mem_singleton] at hq
    subst hq
    exact hr q (by simp [Op.qRegs])
  | one g q' => simp only [Op.unwrap, List.mem_singleton] at hu; subst hu; exact hr q hq
  | ctrl g a b => simp only [Op.unwrap, List.mem_singleton] at hu; subst hu; exact hr q hq
  | cctrl g a b cr => simp only [Op.unwrap, List.mem_singleton] at hu; subst hu; exact hr q hq
  | meas q' cr => simp only [Op.unwrap, List.mem_singleton] at hu; subst hu; exact hr q hq

/-- **`direct` reports equal ⇒ the two circuits are the same up to exchanging neighbouring operations on disjoint
    registers** (and up to which classical register records an outcome) -/
theorem directL_swapEquiv (c1 c2 : Circuit) (h1 : ∀ op ∈ c1.ops, InRange c1 op) (h2 : ∀ op ∈ c2.ops, InRange c2 op)
    (h : directL c1 c2 = true) : SwapEquiv ((flat c1.ops).map dropC) ((flat c2.ops).map dropC) := by
  have hw := directL_sound c1 c2 h
  unfold wiresEq at hw
  simp only [Bool.and_eq_true, beq_iff_eq, List.all_eq_true] at hw
  obtain ⟨⟨⟨hne, hnp⟩, hnc⟩, hwires⟩ := hw
  have hlen : (flat c1.ops).length = (flat c2.ops).length := by
    unfold directL at h
    simp only [Bool.and_eq_true, beq_iff_eq] at h
    exact h.1.2
  have hq2 : qregsOf c2 = qregsOf c1 := by unfold qregsOf; rw [hne, hnp]
  apply swapEquiv_of_wires
  · intro o ho
    obtain ⟨o', _, rfl⟩ := List.mem_map.1 ho
    rw [dropC_qRegs]; exact qRegs_ne_nil o'
  · intro q
    rw [filter_map_dropC, filter_map_dropC]
    by_cases hq : q ∈ qregsOf c1
    · exact hwires q hq
    · have e1 : (flat c1.ops).filter (fun o => o.qRegs.contains q) = [] := by
        rw [List.filter_eq_nil_iff]
        intro o ho hc
        exact hq (flat_inRange c1 c1.ops h1 o ho q (by simpa using hc))
      have e2 : (flat c2.ops).filter (fun o => o.qRegs.contains q) = [] := by
        rw [List.filter_eq_nil_iff]
        intro o ho hc
        exact hq (hq2 ▸ flat_inRange c2 c2.ops h2 o ho q (by simpa using hc))
      rw [e1, e2]
  · simp [hlen]

/-! ## Part 7: the coded isomorphism relation is symmetric -/

theorem nodupNd_iff (l : List Nd) : nodupNd l = true ↔ l.Nodup := by
  induction l with
  | nil => simp [nodupNd]
  | cons a rest ih => simp [nodupNd, ih]

theorem nodeMatch_symm (a b : NOp) : nodeMatch a b = nodeMatch b a := by
  cases a with
  | input w1 =>
    cases b with
    | input w2 => cases w1 with | mk t1 i1 => cases w2 with | mk t2 i2 => cases t1 <;> cases t2 <;> rfl
    | output _ => rfl
    | gate _ => rfl
  | output w1 =>
    cases b with
    | output w2 => cases w1 with | mk t1 i1 => cases w2 with | mk t2 i2 => cases t1 <;> cases t2 <;> rfl
    | input _ => rfl
    | gate _ => rfl
  | gate o1 =>
    cases b with
    | input _ => rfl
    | output _ => rfl
    | gate o2 =>
      cases o1 <;> cases o2 <;> simp only [nodeMatch] <;>
        (apply Bool.eq_iff_iff.2; simp only [Bool.and_eq_true, beq_iff_eq]; constructor <;> (intro h; exact ⟨h.1.symm, h.2.symm⟩))

theorem edgeMatch_symm (a b : List Edge) : edgeMatch a b = edgeMatch b a := by
  unfold edgeMatch
  congr 1
  funext k
  exact Bool.eq_iff_iff.2 (by simp only [beq_iff_eq]; exact eq_comm)

/-- the node function of an association list -/
def mapFn (f : List (Nd × Nd)) (n : Nd) : Nd := (applyMap f n).getD n

/-- the inverse association list on the nodes `ns` -/
def invMap (f : List (Nd × Nd)) (ns : List Nd) : List (Nd × Nd) := ns.map fun n => (mapFn f n, n)

theorem applyMap_invMap (f : List (Nd × Nd)) (ns : List Nd) (hinj : ∀ a ∈ ns, ∀ b ∈ ns, mapFn f a = mapFn f b → a = b)
    (n : Nd) (hn : n ∈ ns) : applyMap (invMap f ns) (mapFn f n) = some n := by
  unfold applyMap invMap
  cases hf : (ns.map fun n => (mapFn f n, n)).find? (fun p => p.1 == mapFn f n) with
  | none =>
    exfalso
    have := List.find?_eq_none.1 hf (mapFn f n, n) (List.mem_map_of_mem hn)
    simp at this
  | some p =>
    have hp := List.find?_some hf
    have hm := List.mem_of_find?_eq_some hf
    obtain ⟨n0, hn0, rfl⟩ := List.mem_map.1 hm
    simp only [beq_iff_eq] at hp
    simp only [Option.map_some]
    exact congrArg some (hinj n0 hn0 n hn hp)

/-- what a successful `isoCheck` says, as propositions about the node function -/
structure IsoFacts (g1 g2 : MG) (φ : Nd → Nd) : Prop where
  len : (g1.nodes.map (·.1)).length = (g2.nodes.map (·.1)).length
  nodup : ((g1.nodes.map (·.1)).map φ).Nodup
  into : ∀ n ∈ g1.nodes.map (·.1), φ n ∈ g2.nodes.map (·.1)
  nodes : ∀ n ∈ g1.nodes.map (·.1), ∃ a b, g1.opOf n = some a ∧ g2.opOf (φ n) = some b ∧ nodeMatch a b = true
  edges : ∀ u ∈ g1.nodes.map (·.1), ∀ v ∈ g1.nodes.map (·.1),
    (g1.edgesBetween u v).length = (g2.edgesBetween (φ u) (φ v)).length ∧
    edgeMatch (g1.edgesBetween u v) (g2.edgesBetween (φ u) (φ v)) = true

theorem isoCheck_facts (g1 g2 : MG) (f : List (Nd × Nd)) (h : isoCheck g1 g2 f = true) :
    (∀ n ∈ g1.nodes.map (·.1), applyMap f n = some (mapFn f n)) ∧ IsoFacts g1 g2 (mapFn f) := by
  unfold isoCheck at h
  simp only [Bool.and_eq_true, List.all_eq_true, beq_iff_eq] at h
  obtain ⟨⟨⟨⟨⟨hlen, hsome⟩, hnd⟩, hinto⟩, hnodes⟩, hedges⟩ := h
  have happ : ∀ n ∈ g1.nodes.map (·.1), applyMap f n = some (mapFn f n) := by
    intro n hn
    have := hsome (applyMap f n) (List.mem_map_of_mem hn)
    unfold mapFn
    cases hm : applyMap f n with
    | none => rw [hm] at this; cases this
    | some m => rfl
  have himg : ((g1.nodes.map (·.1)).map (applyMap f)).filterMap id = (g1.nodes.map (·.1)).map (mapFn f) := by
    rw [List.filterMap_map]
    generalize g1.nodes.map (·.1) = ns at happ
    induction ns with
    | nil => rfl
    | cons n rest ih =>
      have ih' := ih (fun x hx => happ x (by simp [hx]))
      simp only [List.filterMap_cons, Function.comp, id, happ n (by simp), List.map_cons]
      exact congrArg _ ih' 
  rw [himg] at hnd hinto
  refine ⟨happ, ⟨hlen, (nodupNd_iff _).1 hnd, ?_, ?_, ?_⟩⟩
  · intro n hn
    have := hinto (mapFn f n) (List.mem_map_of_mem hn)
    simpa using this
  · intro n hn
    have := hnodes n hn
    rw [happ n hn] at this
    cases ha : g1.opOf n with
    | none => simp [ha] at this
    | some a =>
      cases hb : g2.opOf (mapFn f n) with
      | none => simp [ha, hb] at this
      | some b => simp only [ha, hb] at this; exact ⟨a, b, rfl, rfl, this⟩
  · intro u hu v hv
    have := hedges u hu v hv
    rw [happ u hu, happ v hv] at this
    simpa using this

/-- conversely, the facts make the check succeed for any association list that realises the node function -/
theorem isoCheck_of_facts (g1 g2 : MG) (f : List (Nd × Nd)) (φ : Nd → Nd)
    (happ : ∀ n ∈ g1.nodes.map (·.1), applyMap f n = some (φ n)) (h : IsoFacts g1 g2 φ) : isoCheck g1 g2 f = true := by
  have himg : (g1.nodes.map (·.1)).map (applyMap f) = (g1.nodes.map (·.1)).map (fun n => some (φ n)) :=
    List.map_congr_left happ
  have hfm : ((g1.nodes.map (·.1)).map (fun n => some (φ n))).filterMap id = (g1.nodes.map (·.1)).map φ := by
    rw [List.filterMap_map]
    have : (id ∘ fun n => some (φ n)) = fun n => some (φ n) := rfl
    rw [this]
    induction g1.nodes.map (·.1) with
    | nil => rfl
    | cons n rest ih => simp [ih]
  unfold isoCheck
  simp only [himg, hfm, Bool.and_eq_true, List.all_eq_true, beq_iff_eq]
  refine ⟨⟨⟨⟨⟨h.len, ?_⟩, (nodupNd_iff _).2 h.nodup⟩, ?_⟩, ?_⟩, ?_⟩
  · intro o ho
    obtain ⟨n, _, rfl⟩ := List.mem_map.1 ho
    rfl
  · intro m hm
    obtain ⟨n, hn, rfl⟩ := List.mem_map.1 hm
    simpa using h.into n hn
  · intro n hn
    rw [happ n hn]
    obtain ⟨a, b, ha, hb, hab⟩ := h.nodes n hn
    simp only [ha, hb, hab]
  · intro u hu v hv
    rw [happ u hu, happ v hv]
    have := h.edges u hu v hv
    simp [this.1, this.2]

/-- **symmetry of the coded isomorphism relation**: if some map passes the check from `g1` to `g2`, the inverse map
    passes it from `g2` to `g1` -/
theorem isoCheck_symm (g1 g2 : MG) (f : List (Nd × Nd)) (h : isoCheck g1 g2 f = true) :
    isoCheck g2 g1 (invMap f (g1.nodes.map (·.1))) = true := by
  obtain ⟨_, hf⟩ := isoCheck_facts g1 g2 f h
  let ns1 := g1.nodes.map (·.1)
  let ns2 := g2.nodes.map (·.1)
  let φ := mapFn f
  -- φ is injective on ns1 and onto ns2
  have hinj : ∀ a ∈ ns1, ∀ b ∈ ns1, φ a = φ b → a = b := fun a ha b hb hab =>
    List.inj_on_of_nodup_map hf.nodup ha hb hab
  have hsub : ns1.map φ ⊆ ns2 := by
    intro m hm
    obtain ⟨n, hn, rfl⟩ := List.mem_map.1 hm
    exact hf.into n hn
  have hperm : (ns1.map φ).Perm ns2 :=
    (List.subperm_of_subset hf.nodup hsub).perm_of_length_le (by simp [ns1, ns2, ← hf.len])
  have hnd2 : ns2.Nodup := hperm.nodup_iff.1 hf.nodup
  have hsurj : ∀ m ∈ ns2, ∃ n ∈ ns1, φ n = m := by
    intro m hm
    have := hperm.mem_iff.2 hm
    obtain ⟨n, hn, rfl⟩ := List.mem_map.1 this
    exact ⟨n, hn, rfl⟩
  -- the inverse node function on ns2
  let ψ : Nd → Nd := mapFn (invMap f ns1)
  have hψ : ∀ n ∈ ns1, ψ (φ n) = n := by
    intro n hn
    show (applyMap (invMap f ns1) (mapFn f n)).getD _ = n
    rw [applyMap_invMap f ns1 hinj n hn]; rfl
  have happ : ∀ m ∈ ns2, applyMap (invMap f ns1) m = some (ψ m) := by
    intro m hm
    obtain ⟨n, hn, rfl⟩ := hsurj m hm
    rw [hψ n hn]
    exact applyMap_invMap f ns1 hinj n hn
  apply isoCheck_of_facts g2 g1 _ ψ happ
  refine ⟨hf.len.symm, ?_, ?_, ?_, ?_⟩
  · -- ψ is injective on ns2
    apply (List.nodup_map_iff_inj_on hnd2).2
    intro a ha b hb hab
    show a = b
    obtain ⟨na, hna, rfl⟩ := hsurj a ha
    obtain ⟨nb, hnb, rfl⟩ := hsurj b hb
    rw [hψ na hna, hψ nb hnb] at hab
    rw [hab]
  · intro m hm
    obtain ⟨n, hn, rfl⟩ := hsurj m hm
    rw [hψ n hn]; exact hn
  · intro m hm
    obtain ⟨n, hn, rfl⟩ := hsurj m hm
    rw [hψ n hn]
    obtain ⟨a, b, ha, hb, hab⟩ := hf.nodes n hn
    exact ⟨b, a, hb, ha, by rw [nodeMatch_symm]; exact hab⟩
  · intro u' hu' v' hv'
    obtain ⟨u, hu, rfl⟩ := hsurj u' hu'
    obtain ⟨v, hv, rfl⟩ := hsurj v' hv'
    rw [hψ u hu, hψ v hv]
    have := hf.edges u hu v hv
    exact ⟨this.1.symm, by rw [edgeMatch_symm]; exact this.2⟩

end Graphiq.Compare
