/-
  Proofs/StateToGraphGaugeIndep.lean — the modelled `state_to_graph` is a function of the STATE, not of the generating set:
  two tableaux of real, commuting, independent generators that generate the same signed group get the same graph and the same gate list.
  * the Hadamard positions are the columns without pivot in the echelon form of the X part, and the pivot columns of an echelon matrix are
    determined by its row space (a column is a pivot column iff some vector of the row space has its first 1 there) — the row space of
    the X part is `{g.x : g ∈ group}`;
  * after the Hadamards the X part is invertible, so `final_z` is the unique matrix `C` with `z = x·C` on the transformed group;
  * the sign-fixing `Z` gates are read off the canonical form of the transformed state, which is unique for the group.
  All sizes n ≥ 1.
-/
import GraphiqModel.Proofs.StateToGraphGauge
namespace Graphiq
open PRow Tab STab S2G

namespace S2G

/-! ### strictly increasing lists are determined by their members -/

theorem sorted_ext (l l' : List Nat) (h : l.Pairwise (· < ·)) (h' : l'.Pairwise (· < ·)) (hm : ∀ q, q ∈ l ↔ q ∈ l') : l = l' := by
  induction l generalizing l' with
  | nil =>
    cases l' with
    | nil => rfl
    | cons b t => exact absurd ((hm b).mpr List.mem_cons_self) (by simp)
  | cons a t ih =>
    cases l' with
    | nil => exact absurd ((hm a).mp List.mem_cons_self) (by simp)
    | cons b t' =>
      have ha := List.pairwise_cons.mp h
      have hb := List.pairwise_cons.mp h'
      have hab : a = b := by
        have h1 : a ∈ b :: t' := (hm a).mp List.mem_cons_self
        have h2 : b ∈ a :: t := (hm b).mpr List.mem_cons_self
        rcases List.mem_cons.mp h1 with e | e
        · exact e
        · rcases List.mem_cons.mp h2 with e2 | e2
          · exact e2.symm
          · have := hb.1 a e
            have := ha.1 b e2
            omega
      subst hab
      congr 1
      apply ih t' ha.2 hb.2
      intro q
      constructor
      · intro hq
        have h1 : q ∈ a :: t' := (hm q).mp (List.mem_cons_of_mem _ hq)
        rcases List.mem_cons.mp h1 with e | e
        · have := ha.1 q hq; omega
        · exact e
      · intro hq
        have h1 : q ∈ a :: t := (hm q).mpr (List.mem_cons_of_mem _ hq)
        rcases List.mem_cons.mp h1 with e | e
        · have := hb.1 q hq; omega
        · exact e

theorem posLoop_sorted (x : Adj) (n k : Nat) : (posLoop x n k).2.Pairwise (· < ·) := by
  induction k with
  | zero => rw [posLoop_zero]; exact List.Pairwise.nil
  | succ k ih =>
    rw [posLoop_succ]
    unfold posStep
    split
    · exact ih
    · rw [List.pairwise_append]
      refine ⟨ih, List.pairwise_singleton _ _, ?_⟩
      intro a ha b hb
      simp only [List.mem_singleton] at hb
      have := (posLoop_spec x n k).1 a ha
      omega

/-! ### the pivot columns of an echelon matrix are determined by its row space -/

/-- `v` is the combination of the rows of `x` with coefficients `c` (below `n`) -/
def IsCombo (n : Nat) (x : Adj) (v : Nat → Bool) : Prop :=
  ∃ c : Nat → Bool, ∀ j, j < n → v j = parityTo n (fun i => c i && x i j)

/-- `q` is the position of the first 1 of some vector of the row space -/
def IsLead (n : Nat) (x : Adj) (q : Nat) : Prop :=
  ∃ v, IsCombo n x v ∧ v q = true ∧ ∀ j, j < q → v j = false

theorem ech_lead_iff (m : XZ) (r : Nat) (piv : Nat → Nat) (he : Ech m r piv) (q : Nat) (hq : q < m.n) :
    IsLead m.n m.x q ↔ ∃ i, i < r ∧ piv i = q := by
  constructor
  · rintro ⟨v, ⟨c, hc⟩, hv1, hv0⟩
    -- the first pivot row used
    have hex : ∃ i, i < r ∧ c i = true := by
      apply Classical.byContradiction
      intro hno
      have : v q = false := by
        rw [hc q hq]
        apply parityTo_zero
        intro i hi
        by_cases hir : i < r
        · have : c i = false := by
            cases h : c i
            · rfl
            · exact absurd ⟨i, hir, h⟩ hno
          rw [this]; rfl
        · rw [he.below i q (by omega) hi hq]; simp
      rw [this] at hv1; cases hv1
    -- least such index
    have hleast : ∃ k, k < r ∧ c k = true ∧ ∀ i, i < k → c i = false := by
      obtain ⟨i0, hi0, hci0⟩ := hex
      induction i0 using Nat.strong_induction_on with
      | _ i0 ih =>
        by_cases hall : ∀ i, i < i0 → c i = false
        · exact ⟨i0, hi0, hci0, hall⟩
        · have : ∃ i, i < i0 ∧ c i = true := by
            apply Classical.byContradiction
            intro hno
            apply hall
            intro i hi
            cases h : c i
            · rfl
            · exact absurd ⟨i, hi, h⟩ hno
          obtain ⟨i, hi, hci⟩ := this
          exact ih i hi (by omega) hci
    obtain ⟨k, hk, hck, hmin⟩ := hleast
    have hkn : k < m.n := Nat.lt_of_lt_of_le hk he.r_le
    have hpk := he.piv_lt k hk
    -- the combination has a 1 at `piv k` and zeros before
    have v1 : v (piv k) = true := by
      rw [hc (piv k) hpk]
      have : parityTo m.n (fun i => c i && m.x i (piv k)) = (c k && m.x k (piv k)) := by
        apply parityTo_only m.n k _ hkn
        intro i hi hne
        by_cases h1 : i < k
        · rw [hmin i h1]; rfl
        · have hki : k < i := by omega
          by_cases h2 : i < r
          · rw [he.before i (piv k) h2 (he.mono k i hki h2)]; simp
          · rw [he.below i (piv k) (by omega) hi hpk]; simp
      rw [this, hck, he.one k hk]; rfl
    have v0 : ∀ j, j < piv k → v j = false := by
      intro j hj
      have hjn : j < m.n := by omega
      rw [hc j hjn]
      apply parityTo_zero
      intro i hi
      by_cases h1 : i < k
      · rw [hmin i h1]; rfl
      · by_cases h2 : i < r
        · have : j < piv i := by
            by_cases e : i = k
            · rw [e]; exact hj
            · have := he.mono k i (by omega) h2; omega
          rw [he.before i j h2 this]; simp
        · rw [he.below i j (by omega) hi hjn]; simp
    refine ⟨k, hk, ?_⟩
    -- both `q` and `piv k` are the position of the first 1
    apply Classical.byContradiction
    intro hne
    by_cases hlt : piv k < q
    · have := hv0 (piv k) hlt
      rw [v1] at this; cases this
    · have := v0 q (by omega)
      rw [hv1] at this; cases this
  · rintro ⟨i, hi, e⟩
    have hin : i < m.n := Nat.lt_of_lt_of_le hi he.r_le
    refine ⟨m.x i, ⟨fun k => decide (k = i), fun j _ => (parityTo_single m.n i (fun k => m.x k j) hin).symm⟩, ?_, ?_⟩
    · rw [← e]; exact he.one i hi
    · intro j hj; rw [← e] at hj; exact he.before i j hi hj

/-- combinations of combinations -/
theorem isCombo_trans (n : Nat) (x x' : Adj) (h : ∀ i, i < n → IsCombo n x (x' i)) (v : Nat → Bool) (hv : IsCombo n x' v) :
    IsCombo n x v := by
  obtain ⟨c, hc⟩ := hv
  -- as a row space statement, through `BSpan` with a dummy Z part
  have hb : ∀ i, i < n → BSpan n n x x (x' i) (x' i) := by
    intro i hi
    obtain ⟨ci, hci⟩ := h i hi
    exact BSpan.ext _ _ _ _ (BSpan.combo n n x x ci n (Nat.le_refl _)) (fun j hj => ⟨(hci j hj).symm, (hci j hj).symm⟩)
  have h1 : BSpan n n x x (fun j => parityTo n (fun i => c i && x' i j)) (fun j => parityTo n (fun i => c i && x' i j)) :=
    BSpan.mono hb (BSpan.combo n n x' x' c n (Nat.le_refl _))
  obtain ⟨c', hc'⟩ := bspan_coeffs h1
  exact ⟨c', fun j hj => by rw [hc j hj]; exact (hc' j hj).1⟩

theorem isLead_mono (n : Nat) (x x' : Adj) (h : ∀ i, i < n → IsCombo n x (x' i)) (q : Nat) (hq : IsLead n x' q) : IsLead n x q := by
  obtain ⟨v, hv, h1, h0⟩ := hq
  exact ⟨v, isCombo_trans n x x' h v hv, h1, h0⟩

/-- the X rows of a matrix whose rows lie in the row space of another are combinations of that one's X rows -/
theorem isCombo_of_bspan (n : Nat) (x z x' z' : Adj) (h : ∀ i, i < n → BSpan n n x z (x' i) (z' i)) :
    ∀ i, i < n → IsCombo n x (x' i) := by
  intro i hi
  obtain ⟨c, hc⟩ := bspan_coeffs (h i hi)
  exact ⟨c, fun j hj => (hc j hj).1⟩

/-- **`_position_finder` after `row_reduction` depends only on the row space**: two pairs of matrices with the same row space get the
    same Hadamard positions -/
theorem positionFinder_rowspace (m0 m0' : XZ) (hn : 0 < m0.n) (hnn : m0'.n = m0.n)
    (h1 : ∀ i, i < m0.n → BSpan m0.n m0.n m0.x m0.z (m0'.x i) (m0'.z i))
    (h2 : ∀ i, i < m0.n → BSpan m0.n m0.n m0'.x m0'.z (m0.x i) (m0.z i)) :
    positionFinder m0.n m0.norm.rowReduction.1.x = positionFinder m0'.n m0'.norm.rowReduction.1.x := by
  have hn' : 0 < m0'.n := by omega
  have hred := bequiv_rowReduction m0.norm hn
  have hred' := bequiv_rowReduction m0'.norm hn'
  obtain ⟨r, piv, he⟩ := rowReduction_ech m0.norm hn
  obtain ⟨r', piv', he'⟩ := rowReduction_ech m0'.norm hn'
  have hb : BEquiv m0 m0.norm.rowReduction.1 := (bequiv_norm m0).trans hred.1
  have hb' : BEquiv m0' m0'.norm.rowReduction.1 := (bequiv_norm m0').trans hred'.1
  generalize m0.norm.rowReduction.1 = m1 at hred he hb
  generalize m0'.norm.rowReduction.1 = m1' at hred' he' hb'
  have n1 : m1.n = m0.n := hred.2
  have n1' : m1'.n = m0.n := hred'.2.trans hnn
  -- rows of `m1'` in the row space of `m1`, and conversely
  have e12 : ∀ i, i < m0.n → BSpan m0.n m0.n m1.x m1.z (m1'.x i) (m1'.z i) := by
    intro i hi
    have a := hb'.fwd i (by rw [hnn]; exact hi)
    rw [hnn] at a
    exact BSpan.mono hb.bwd (BSpan.mono h1 a)
  have e21 : ∀ i, i < m0.n → BSpan m0.n m0.n m1'.x m1'.z (m1.x i) (m1.z i) := by
    intro i hi
    have a := hb.fwd i hi
    have hb'bwd : ∀ k, k < m0.n → BSpan m0.n m0.n m1'.x m1'.z (m0'.x k) (m0'.z k) := by
      intro k hk
      have := hb'.bwd k (by rw [hnn]; exact hk)
      rw [hnn] at this; exact this
    exact BSpan.mono hb'bwd (BSpan.mono h2 a)
  have c12 := isCombo_of_bspan m0.n m1.x m1.z m1'.x m1'.z e12
  have c21 := isCombo_of_bspan m0.n m1'.x m1'.z m1.x m1.z e21
  rw [hnn, ← n1]
  have e' : positionFinder m1.n m1'.x = positionFinder m1'.n m1'.x := by rw [n1, n1']
  rw [e']
  apply sorted_ext _ _ (posLoop_sorted m1.x m1.n m1.n) (posLoop_sorted m1'.x m1'.n m1'.n)
  intro q
  show q ∈ positionFinder m1.n m1.x ↔ q ∈ positionFinder m1'.n m1'.x
  rw [positionFinder_ech m1 r piv he q, positionFinder_ech m1' r' piv' he' q, n1, n1']
  constructor
  · rintro ⟨hq, hnp⟩
    refine ⟨hq, fun i hi e => ?_⟩
    have hl : IsLead m1'.n m1'.x q := (ech_lead_iff m1' r' piv' he' q (by rw [n1']; exact hq)).mpr ⟨i, hi, e⟩
    rw [n1'] at hl
    have := isLead_mono m0.n m1.x m1'.x c12 q hl
    rw [← n1] at this
    obtain ⟨k, hk, ek⟩ := (ech_lead_iff m1 r piv he q (by rw [n1]; exact hq)).mp this
    exact hnp k hk ek
  · rintro ⟨hq, hnp⟩
    refine ⟨hq, fun i hi e => ?_⟩
    have hl : IsLead m1.n m1.x q := (ech_lead_iff m1 r piv he q (by rw [n1]; exact hq)).mpr ⟨i, hi, e⟩
    rw [n1] at hl
    have := isLead_mono m0.n m1'.x m1.x c21 q hl
    rw [← n1'] at this
    obtain ⟨k, hk, ek⟩ := (ech_lead_iff m1' r' piv' he' q (by rw [n1']; exact hq)).mp this
    exact hnp k hk ek

/-! ### the graph and the `P_dag` positions depend only on the row space -/

theorem graphFinderTail_shape (m2 : XZ) (xinv : Adj) (hpos : List Nat) (rank : Int) (g : GraphFinderOut)
    (e : graphFinderTail m2 xinv hpos rank = .ok g) :
    (∃ f, g.adj = (BMat.ofAdj m2.n f).norm) ∧ g.zdiag.Pairwise (· < ·) := by
  unfold graphFinderTail at e
  simp only at e
  split at e
  · cases e
  · split at e
    · cases e
    · injection e with e
      rw [← e]
      exact ⟨⟨_, rfl⟩, List.Pairwise.filter _ List.pairwise_lt_range⟩

theorem graphFinderWith_shape (inv : Nat → Adj → Option Adj) (m0 : XZ) (g : GraphFinderOut)
    (e : graphFinderWith inv m0 = .ok g) : (∃ f, g.adj = (BMat.ofAdj m0.n f).norm) ∧ g.zdiag.Pairwise (· < ·) := by
  unfold graphFinderWith at e
  split at e
  · cases e
  · next hn =>
    have hred := bequiv_rowReduction m0.norm (Nat.pos_of_ne_zero hn)
    generalize m0.norm.rowReduction = rr at e hred
    obtain ⟨m1, rank0⟩ := rr
    simp only at e hred
    split at e
    · cases e
    · have := graphFinderTail_shape _ _ _ _ g e
      have hn2 : ((m1.hadamardTransform (positionFinder m0.n m1.x)).norm).n = m0.n := hred.2
      rw [hn2] at this
      exact this

/-- **`_graph_finder` depends only on the row space of `[X | Z]`** (for every pair of candidate inverses): two inputs with the same row
    space get the same graph, Hadamard positions and `P_dag` positions -/
theorem graphFinderWith_rowspace (inv inv' : Nat → Adj → Option Adj) (m0 m0' : XZ) (hnn : m0'.n = m0.n)
    (h1 : ∀ i, i < m0.n → BSpan m0.n m0.n m0.x m0.z (m0'.x i) (m0'.z i))
    (h2 : ∀ i, i < m0.n → BSpan m0.n m0.n m0'.x m0'.z (m0.x i) (m0.z i))
    (g g' : GraphFinderOut) (e : graphFinderWith inv m0 = .ok g) (e' : graphFinderWith inv' m0' = .ok g') :
    g.adj = g'.adj ∧ g.hpos = g'.hpos ∧ g.zdiag = g'.zdiag := by
  have spec := graphFinderWith_spec inv m0 g e
  have spec' := graphFinderWith_spec inv' m0' g' e'
  have hn := spec.n_pos
  have hpos : g.hpos = g'.hpos := by
    rw [graphFinderWith_hpos inv m0 g e, graphFinderWith_hpos inv' m0' g' e']
    exact positionFinder_rowspace m0 m0' hn hnn h1 h2
  -- the matrix `C` with `z' = x'·C` is determined by the row space
  have hK : ∀ j j', j < m0.n → j' < m0.n →
      xor (g.adj.f j j') (decide (j = j') && g.zdiag.contains j') = xor (g'.adj.f j j') (decide (j = j') && g'.zdiag.contains j') := by
    intro j j' hj hj'
    obtain ⟨a, b, hab', hu⟩ := spec'.full j (by rw [hnn]; exact hj)
    rw [hnn] at hab' hu
    have hab : BSpan m0.n m0.n m0.x m0.z a b := BSpan.mono h1 hab'
    have r1 := BSpan.sat (rowEq_linear m0.n g.hpos _) spec.rows hab j' hj'
    have rows' := spec'.rows
    rw [hnn] at rows'
    have r2 := BSpan.sat (rowEq_linear m0.n g'.hpos _) rows' hab' j' hj'
    rw [hpos] at r1
    rw [r1] at r2
    rw [parityTo_congr m0.n _ (fun k => decide (k = j) && xor (g.adj.f k j') (decide (k = j') && g.zdiag.contains j'))
        (fun k hk => by rw [hu k hk]),
      parityTo_single m0.n j _ hj,
      parityTo_congr m0.n _ (fun k => decide (k = j) && xor (g'.adj.f k j') (decide (k = j') && g'.zdiag.contains j'))
        (fun k hk => by rw [hu k hk]),
      parityTo_single m0.n j _ hj] at r2
    exact r2
  have irr' : ∀ i, i < m0.n → g'.adj.f i i = false := fun i hi => spec'.irrefl i (by rw [hnn]; exact hi)
  have hadj : ∀ i j, i < m0.n → j < m0.n → g.adj.f i j = g'.adj.f i j := by
    intro i j hi hj
    by_cases hij : i = j
    · subst hij; rw [spec.irrefl i hi, irr' i hi]
    · have := hK i j hi hj
      simpa [hij] using this
  have hzd : g.zdiag = g'.zdiag := by
    apply sorted_ext _ _ (graphFinderWith_shape inv m0 g e).2 (graphFinderWith_shape inv' m0' g' e').2
    intro q
    have key : ∀ q, q < m0.n → g.zdiag.contains q = g'.zdiag.contains q := by
      intro q hq
      have := hK q q hq hq
      rw [spec.irrefl q hq, irr' q hq] at this
      simpa using this
    constructor
    · intro h
      have hq := spec.zdiag_lt q h
      have : g'.zdiag.contains q = true := by rw [← key q hq]; exact List.contains_iff_mem.mpr h
      exact List.contains_iff_mem.mp this
    · intro h
      have hq : q < m0.n := by have := spec'.zdiag_lt q h; omega
      have : g.zdiag.contains q = true := by rw [key q hq]; exact List.contains_iff_mem.mpr h
      exact List.contains_iff_mem.mp this
  refine ⟨?_, hpos, hzd⟩
  obtain ⟨f, ef⟩ := (graphFinderWith_shape inv m0 g e).1
  obtain ⟨f', ef'⟩ := (graphFinderWith_shape inv' m0' g' e').1
  rw [hnn] at ef'
  rw [ef, ef']
  refine BMat.norm_congr (BMat.ofAdj m0.n f) (BMat.ofAdj m0.n f') rfl rfl ?_
  intro i j hi hj
  have a1 := BMat.norm_agree (BMat.ofAdj m0.n f) i j hi hj
  have a2 := BMat.norm_agree (BMat.ofAdj m0.n f') i j hi hj
  rw [← ef] at a1
  rw [← ef'] at a2
  show f i j = f' i j
  have a1' : g.adj.f i j = f i j := a1
  have a2' : g'.adj.f i j = f' i j := a2
  rw [← a1', ← a2']
  exact hadj i j hi hj

end S2G

/-! ### `_phase_correction` and the whole conversion -/

/-- the rows of one generating set, as combinations of the rows of another generating set of the same group -/
theorem bspan_of_spanEq (t t' : STab) (hs : SpanEq t t') (i : Nat) (hi : i < t.n) :
    BSpan t.n t.n (XZ.ofSTab t).x (XZ.ofSTab t).z ((XZ.ofSTab t').x i) ((XZ.ofSTab t').z i) :=
  spn_bspan t (t'.row i) (hs.sup _ (spn_gen t' i (hs.n_eq ▸ hi)))

/-- the sign-fixing `Z` gates depend only on the group of the input (same target graph, same local-Clifford gates) -/
theorem phaseCorrection_gauge (t t' : STab) (hg : t.Good) (hg' : t'.Good) (hs : SpanEq t t') (g : GraphFinderOut)
    (A : AfterLC t g) (zs zs' : List Gate)
    (e : phaseCorrection t (graphSTab t.n g.adj.f) (lcGates g.hpos g.zdiag) = .ok zs)
    (e' : phaseCorrection t' (graphSTab t.n g.adj.f) (lcGates g.hpos g.zdiag) = .ok zs') : zs = zs' := by
  obtain ⟨Awf, _, Asym, _, _, Afull⟩ := A
  generalize lcGates g.hpos g.zdiag = gates0 at *
  obtain ⟨tab1, tab2, newTab, xinv, c1, c2, c3, c4, ezs⟩ := phaseCorrection_unfold _ _ _ _ e
  obtain ⟨tab1', tab2', newTab', xinv', c1', c2', c3', c4', ezs'⟩ := phaseCorrection_unfold _ _ _ _ e'
  have h22 : tab2 = tab2' := by rw [c2] at c2'; injection c2' with h
  subst h22
  obtain ⟨s1, g1⟩ := canonicalForm_spanEq t tab1 hg c1
  obtain ⟨s1', g1'⟩ := canonicalForm_spanEq t' tab1' hg' c1'
  have n1 : tab1.n = t.n := s1.n_eq.symm
  have s11 : SpanEq tab1 tab1' := (s1.symm.trans hs).trans s1'
  have wf1 : ∀ g', g' ∈ gates0 → g'.WF tab1.n := fun g' h => n1 ▸ Awf g' h
  have wf1' : ∀ g', g' ∈ gates0 → g'.WF tab1'.n := fun g' h => s11.n_eq ▸ wf1 g' h
  have tr0 := tracks_runCircuit tab1 g1 gates0 wf1
  have tr0' := tracks_runCircuit tab1' g1' gates0 wf1'
  have sRR : SpanEq (tab1.runCircuit gates0) (tab1'.runCircuit gates0) := runCircuit_spanEq tab1 tab1' gates0 wf1 s11 g1 g1'
  obtain ⟨s3, g3⟩ := canonicalForm_spanEq _ newTab tr0.good c3
  obtain ⟨s3', g3'⟩ := canonicalForm_spanEq _ newTab' tr0'.good c3'
  have sNN : SpanEq newTab newTab' := (s3.symm.trans sRR).trans s3'
  have hrows := canon_unique newTab newTab' (canonicalForm_canon _ _ c3) (canonicalForm_canon _ _ c3') g3 g3' sNN
  have nN : newTab.n = t.n := by rw [← s3.n_eq, runCircuit_n]; exact n1
  -- the X parts of both canonical forms are the identity, so both inverses are the identity
  have s20 : SpanEq (t.runCircuit gates0) (tab1.runCircuit gates0) := runCircuit_spanEq t tab1 gates0 Awf s1 hg g1
  have n0 : (tab1.runCircuit gates0).n = t.n := by rw [runCircuit_n]; exact n1
  have hK : ∀ j, j < (tab1.runCircuit gates0).n →
      ∃ p, (tab1.runCircuit gates0).Spn p ∧ ∀ k, k < (tab1.runCircuit gates0).n → p.x k = decide (k = j) := by
    intro j hj
    rw [n0] at hj
    obtain ⟨p, hp, hpx⟩ := Afull j hj
    exact ⟨p, s20.sub p hp, fun k hk => hpx k (n0 ▸ hk)⟩
  obtain ⟨c, ec, _, _, _, xc⟩ := canonicalForm_fullX (tab1.runCircuit gates0) tr0.good hK
  have hcn : c = newTab := by rw [c3] at ec; injection ec with ec; exact ec.symm
  subst hcn
  rw [n0] at xc
  have idX : ∀ (T : STab), T.n = t.n → (∀ i k, i < t.n → k < t.n → (T.row i).x k = decide (k = i)) → ∀ M,
      gf2Inv T.n (fun i j => (T.row i).x j) = some M → ∀ i j, i < t.n → j < t.n → M.f i j = decide (i = j) := by
    intro T hT hx M hM
    obtain ⟨M0, e0, h0⟩ := gf2Inv_id T.n (fun i j => (T.row i).x j) (fun i j hi hj => by
      rw [hT] at hi hj
      rw [hx i j hi hj]
      by_cases h : i = j
      · subst h; simp
      · have : ¬ (j = i) := fun e => h e.symm
        simp [h, this])
    rw [hM] at e0
    injection e0 with e0
    subst e0
    rw [hT] at h0
    exact h0
  have hx1 : ∀ i k, i < t.n → k < t.n → (c.row i).x k = decide (k = i) := fun i k hi hk => xc i k (nN ▸ hi) hk
  have hx2 : ∀ i k, i < t.n → k < t.n → (newTab'.row i).x k = decide (k = i) := by
    intro i k hi hk
    rw [← ((hrows i (nN ▸ hi)).1 k (nN ▸ hk)).1]
    exact hx1 i k hi hk
  have nN' : newTab'.n = t.n := sNN.n_eq.symm.trans nN
  have hM1 := idX c nN hx1 xinv c4
  have hM2 := idX newTab' nN' hx2 xinv' c4'
  rw [ezs, ezs', nN, nN']
  congr 1
  apply List.filter_congr
  intro i hi
  have hi' : i < t.n := List.mem_range.mp hi
  apply parityTo_congr
  intro k hk
  rw [hM1 i k hi' hk, hM2 i k hi' hk, (hrows k (nN ▸ hk)).2.1]

/-- another generating set (real, commuting, `n` rows) of the group of a stabilizer state is independent too -/
theorem indep_of_spanEq (t t' : STab) (hn : 0 < t.n) (hg : t.Good) (hg' : t'.Good) (hi : Indep (XZ.ofSTab t)) (hs : SpanEq t t') :
    Indep (XZ.ofSTab t') := by
  obtain ⟨g, eg⟩ := graphFinderWith_complete gf2InvF (XZ.ofSTab t) hn (gf2InvF_ok t.n) (comm_ofSTab t hg) hi
  have spec := graphFinderWith_spec gf2InvF _ g eg
  obtain ⟨Awf, _, _, _, _, Afull⟩ := afterLC_of_spec t hg.real g spec
  have hnn : t'.n = t.n := hs.n_eq.symm
  have Awf' : ∀ g', g' ∈ lcGates g.hpos g.zdiag → g'.WF t'.n := fun g' h => hnn ▸ Awf g' h
  have sRR := runCircuit_spanEq t t' (lcGates g.hpos g.zdiag) Awf hs hg hg'
  have nT : (t'.runCircuit (lcGates g.hpos g.zdiag)).n = t.n := by rw [runCircuit_n]; exact hnn
  have hfull : FullX (t'.runCircuit (lcGates g.hpos g.zdiag)) := by
    intro j hj
    rw [nT] at hj
    obtain ⟨p, hp, hpx⟩ := Afull j hj
    exact ⟨p, sRR.sub p hp, fun k hk => hpx k (nT ▸ hk)⟩
  have hind := indep_of_fullX _ hfull
  intro c hc i hi'
  have hn0 : (XZ.ofSTab t').n = t.n := hnn
  rw [hn0] at hc hi'
  have hnT : (XZ.ofSTab (t'.runCircuit (lcGates g.hpos g.zdiag))).n = t.n := nT
  apply hind c _ i (by rw [hnT]; exact hi')
  intro j hj
  rw [hnT] at hj ⊢
  -- bits of the transformed rows
  have rowx : ∀ m, m < t.n → ((t'.runCircuit (lcGates g.hpos g.zdiag)).row m).x j =
      hx g.hpos (t'.row m).x (t'.row m).z j := by
    intro m hm
    have er := runCircuit_row t' _ Awf' m (hnn ▸ hm)
    rw [hnn] at er
    rw [(er.1 j hj).1, (actCirc_lcGates_bits g.hpos g.zdiag spec.hpos_nodup spec.zdiag_nodup (t'.row m) j).1]
  have rowz : ∀ m, m < t.n → ((t'.runCircuit (lcGates g.hpos g.zdiag)).row m).z j =
      xor (hx g.hpos (t'.row m).z (t'.row m).x j) (g.zdiag.contains j && hx g.hpos (t'.row m).x (t'.row m).z j) := by
    intro m hm
    have er := runCircuit_row t' _ Awf' m (hnn ▸ hm)
    rw [hnn] at er
    rw [(er.1 j hj).2, (actCirc_lcGates_bits g.hpos g.zdiag spec.hpos_nodup spec.zdiag_nodup (t'.row m) j).2.1]
  have sx : parityTo t.n (fun m => c m && hx g.hpos (t'.row m).x (t'.row m).z j) = false := by
    simp only [hx]
    split
    · exact (hc j hj).2
    · exact (hc j hj).1
  have sz : parityTo t.n (fun m => c m && hx g.hpos (t'.row m).z (t'.row m).x j) = false := by
    simp only [hx]
    split
    · exact (hc j hj).1
    · exact (hc j hj).2
  constructor
  · rw [← sx]
    apply parityTo_congr
    intro m hm
    show (c m && ((t'.runCircuit (lcGates g.hpos g.zdiag)).row m).x j) = _
    rw [rowx m hm]
  · have : parityTo t.n (fun m => c m && ((t'.runCircuit (lcGates g.hpos g.zdiag)).row m).z j) =
        xor (parityTo t.n (fun m => c m && hx g.hpos (t'.row m).z (t'.row m).x j))
          (g.zdiag.contains j && parityTo t.n (fun m => c m && hx g.hpos (t'.row m).x (t'.row m).z j)) := by
      rw [and_parityTo, ← parityTo_xor]
      apply parityTo_congr
      intro m hm
      rw [rowz m hm]
      cases c m <;> cases g.zdiag.contains j <;> simp
    show parityTo t.n (fun m => c m && ((t'.runCircuit (lcGates g.hpos g.zdiag)).row m).z j) = false
    rw [this, sx, sz]; simp

/-- **`state_to_graph` depends only on the state**: two generating sets (real, commuting, independent) of the same signed group are
    converted to the same graph with the same gate list -/
theorem stateToGraph_gauge_indep (t t' : STab) (hn : 0 < t.n) (hg : t.Good) (hg' : t'.Good)
    (hi : Indep (XZ.ofSTab t)) (hi' : Indep (XZ.ofSTab t')) (hs : SpanEq t t') : stateToGraph t = stateToGraph t' := by
  have hn' : 0 < t'.n := hs.n_eq ▸ hn
  obtain ⟨g, eg⟩ := graphFinderWith_complete gf2InvF (XZ.ofSTab t) hn (gf2InvF_ok t.n) (comm_ofSTab t hg) hi
  obtain ⟨g', eg'⟩ := graphFinderWith_complete gf2InvF (XZ.ofSTab t') hn' (gf2InvF_ok t'.n) (comm_ofSTab t' hg') hi'
  have hnn : (XZ.ofSTab t').n = (XZ.ofSTab t).n := hs.n_eq.symm
  obtain ⟨ha, hp, hz⟩ := graphFinderWith_rowspace gf2InvF gf2InvF (XZ.ofSTab t) (XZ.ofSTab t') hnn
    (fun i hi => bspan_of_spanEq t t' hs i hi)
    (fun i hi => by
      have := bspan_of_spanEq t' t hs.symm i (hs.n_eq ▸ hi)
      rw [← hs.n_eq] at this
      exact this) g g' eg eg'
  have A := afterLC_of_spec t hg.real g (graphFinderWith_spec gf2InvF _ g eg)
  obtain ⟨zs, ez⟩ := phaseCorrection_ok t hg hi g A
  have A' := afterLC_of_spec t' hg'.real g' (graphFinderWith_spec gf2InvF _ g' eg')
  obtain ⟨zs', ez'⟩ := phaseCorrection_ok t' hg' hi' g' A'
  have ez'' : phaseCorrection t' (graphSTab t.n g.adj.f) (lcGates g.hpos g.zdiag) = .ok zs' := by
    rw [ha, hp, hz, hs.n_eq]; exact ez'
  have hzs := phaseCorrection_gauge t t' hg hg' hs g A zs zs' ez ez''
  unfold stateToGraph stateToGraphWith
  rw [eg, eg']
  simp only
  rw [ez, ez', ha, hp, hz, hzs]

end Graphiq
