/-
  MetricsHistReach.lean — exact characterisation of `find_incompatible_edges` (C12) relative to the recorded networkx
  specification of `ancestors` / `descendants`: which edges are reported, that the in-edge term of the code is redundant, and
  that the reported set is a (strict) over-approximation of the edges on which a joint insertion would close a cycle.
-/
import GraphiqModel.Proofs.Dag
set_option linter.unusedSectionVars false
set_option linter.unusedSimpArgs false
namespace Graphiq
namespace Dag
open Relation

/-- **what `find_incompatible_edges(first)` returns**: `first` itself and exactly the edges of the graph whose source is a proper
    ancestor of `first`'s source, or is `first`'s target or one of its descendants.  (The in-edges of `first`'s source, which the
    code adds separately, are out-edges of ancestors: the term is redundant.) -/
theorem findIncompatibleEdgesWith_iff {c : Dag} {first : Edge} {anc desc : List NodeId} {L : List Edge}
    (hanc : AncSpec c first.src anc) (hdesc : DescSpec c first.dst desc)
    (hL : c.findIncompatibleEdgesWith anc desc first = .ok L) (e : Edge) :
    e ∈ L ↔ e = first ∨ (e ∈ c.edges ∧ (TransGen c.E e.src first.src ∨ ReflTransGen c.E first.dst e.src)) := by
  unfold findIncompatibleEdgesWith at hL
  split at hL
  · simp at hL
  · injection hL with hL
    subst hL
    rw [List.mem_eraseDups]
    simp only [List.mem_append, List.mem_cons, List.mem_flatMap, List.not_mem_nil, or_false]
    constructor
    · rintro ((rfl | hin | ⟨a, ha, hout⟩) | hout | ⟨a, ha, hout⟩)
      · exact Or.inl rfl
      · right
        have h1 : e ∈ c.edges ∧ e.dst = first.src := by simpa [inEdges] using hin
        exact ⟨h1.1, Or.inl (TransGen.single ⟨e, h1.1, rfl, h1.2⟩)⟩
      · right
        have h1 : e ∈ c.edges ∧ e.src = a := by simpa [outEdges] using hout
        exact ⟨h1.1, Or.inl (by rw [h1.2]; exact (hanc a).mp ha)⟩
      · right
        have h1 : e ∈ c.edges ∧ e.src = first.dst := by simpa [outEdges] using hout
        exact ⟨h1.1, Or.inr (by rw [h1.2])⟩
      · right
        have h1 : e ∈ c.edges ∧ e.src = a := by simpa [outEdges] using hout
        exact ⟨h1.1, Or.inr (by rw [h1.2]; exact ((hdesc a).mp ha).to_reflTransGen)⟩
    · rintro (rfl | ⟨he, ht | hr⟩)
      · exact Or.inl (Or.inl rfl)
      · exact Or.inl (Or.inr (Or.inr ⟨e.src, (hanc _).mpr ht, by simp [outEdges, he]⟩))
      · rcases reflTransGen_iff_eq_or_transGen.mp hr with heq | ht
        · exact Or.inr (Or.inl (by simp [outEdges, he, heq]))
        · exact Or.inr (Or.inr ⟨e.src, (hdesc _).mpr ht, by simp [outEdges, he]⟩)

/-- **every edge on which a joint insertion with `first` would close a cycle is reported** (completeness of the search with
    respect to the cycle condition): a path from `first`'s target to the edge's source, or from the edge's target to `first`'s
    source, puts the edge into the reported set -/
theorem findIncompatibleEdgesWith_complete {c : Dag} {first e : Edge} {anc desc : List NodeId} {L : List Edge}
    (hanc : AncSpec c first.src anc) (hdesc : DescSpec c first.dst desc)
    (hL : c.findIncompatibleEdgesWith anc desc first = .ok L) (he : e ∈ c.edges)
    (hcyc : ReflTransGen c.E first.dst e.src ∨ ReflTransGen c.E e.dst first.src) : e ∈ L := by
  rw [findIncompatibleEdgesWith_iff hanc hdesc hL]
  right
  refine ⟨he, ?_⟩
  rcases hcyc with h | h
  · exact Or.inr h
  · left
    rcases reflTransGen_iff_eq_or_transGen.mp h with heq | ht
    · exact TransGen.single ⟨e, he, rfl, heq.symm⟩
    · exact TransGen.head ⟨e, he, rfl, rfl⟩ ht

end Dag
end Graphiq

/-! ## insertions at the beginning / at the end of wires are always well formed

  The time-reversed solver inserts its gates on the first edge of each wire (`out_edges(<reg>_in)`), the evolutionary moves
  partly on the last; for such edge lists the path-freeness clause of `InsertOK` holds for free: nothing reaches an input node,
  nothing leaves an output node. -/
namespace Graphiq
namespace Dag
open Relation

theorem reflTransGen_to_source {α : Type} {E : α → α → Prop} {a b : α} (hs : ∀ x, ¬ E x b) (h : ReflTransGen E a b) : a = b := by
  rcases ReflTransGen.cases_tail h with e | ⟨c, _, hc⟩
  · exact e.symm
  · exact absurd hc (hs c)

/-- edges leaving input nodes (one per quantum register of the operation, keyed by it) form a well-formed `insert_at` argument -/
theorem insertOK_of_input_edges {c : Dag} {P : Paths} (g : Good c P) {op : Op} {es : List Edge}
    (hmem : ∀ e ∈ es, e ∈ c.edges) (hkeys : es.map (·.key) = op.qregs) (hsrc : ∀ e ∈ es, ∃ r, e.src = NodeId.inp r) :
    InsertOK c op es := by
  refine ⟨hmem, hkeys, ?_⟩
  intro e1 he1 e2 he2 _ hr
  obtain ⟨r, hr2⟩ := hsrc e2 he2
  rw [hr2] at hr
  have := reflTransGen_to_source (fun x => g.inv.inp_source r x) hr
  have hE : c.E e1.src (NodeId.inp r) := ⟨e1, hmem e1 he1, rfl, this⟩
  exact g.inv.inp_source r _ hE

/-- edges entering output nodes form a well-formed `insert_at` argument -/
theorem insertOK_of_output_edges {c : Dag} {P : Paths} (g : Good c P) {op : Op} {es : List Edge}
    (hmem : ∀ e ∈ es, e ∈ c.edges) (hkeys : es.map (·.key) = op.qregs) (hdst : ∀ e ∈ es, ∃ r, e.dst = NodeId.out r) :
    InsertOK c op es := by
  refine ⟨hmem, hkeys, ?_⟩
  intro e1 he1 e2 he2 _ hr
  obtain ⟨r, hr1⟩ := hdst e1 he1
  rw [hr1] at hr
  have := reflTransGen_of_sink (fun x => g.inv.out_sink r x) hr
  have hE : c.E (NodeId.out r) e2.dst := ⟨e2, hmem e2 he2, this.symm, rfl⟩
  exact g.inv.out_sink r _ hE

end Dag
end Graphiq
