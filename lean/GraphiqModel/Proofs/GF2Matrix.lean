/-
  Proofs/GF2Matrix.lean — the one fact about GF(2) matrices that is taken from Mathlib: for square matrices a left inverse is a
  right inverse (`Matrix.mul_eq_one_comm`), transported to the model's `Nat → Nat → Bool` matrices with `matMul`.
-/
import Mathlib.LinearAlgebra.Matrix.NonsingularInverse
import Mathlib.Data.ZMod.Basic
import GraphiqModel.Model.GraphOps
import GraphiqModel.Proofs.B2Z
namespace Graphiq
open Matrix

theorem b2z_inj (a b : Bool) (h : b2z a = b2z b) : a = b := by
  cases a <;> cases b <;> first | rfl | exact absurd h (by decide)

theorem b2z_parity (m : Nat) (f : Nat → Bool) : b2z (parityTo m f) = ∑ k : Fin m, b2z (f k.val) := by
  induction m with
  | zero => simp [parityTo, b2z]
  | succ k ih => rw [Fin.sum_univ_castSucc]; simp [parityTo, b2z_xor, ih]

def toMat (n : Nat) (A : Adj) : Matrix (Fin n) (Fin n) (ZMod 2) := fun i j => b2z (A i.val j.val)

theorem toMat_mul (n : Nat) (A B : Adj) : toMat n (matMul n A B) = toMat n A * toMat n B := by
  ext i j
  simp [toMat, matMul, Matrix.mul_apply, b2z_parity, b2z_and]

theorem toMat_one_iff (n : Nat) (A : Adj) :
    toMat n A = 1 ↔ ∀ i j, i < n → j < n → A i j = decide (i = j) := by
  constructor
  · intro h i j hi hj
    have := congrFun (congrFun h ⟨i, hi⟩) ⟨j, hj⟩
    simp only [toMat, Matrix.one_apply, Fin.mk.injEq] at this
    apply b2z_inj
    rw [this]
    by_cases e : i = j <;> simp [e, b2z]
  · intro h
    ext i j
    simp only [toMat, Matrix.one_apply]
    rw [h i.val j.val i.isLt j.isLt]
    by_cases e : i = j
    · subst e; simp [b2z]
    · have : ¬ (i.val = j.val) := fun h => e (Fin.ext h)
      simp [e, this, b2z]

/-- over GF(2) (as over any commutative ring) a left inverse of a square matrix is a right inverse -/
theorem gf2_inverse_comm (n : Nat) (A B : Adj)
    (h : ∀ i j, i < n → j < n → matMul n A B i j = decide (i = j)) :
    ∀ i j, i < n → j < n → matMul n B A i j = decide (i = j) := by
  have h1 : toMat n A * toMat n B = 1 := by
    rw [← toMat_mul]; exact (toMat_one_iff n _).mpr h
  have h2 : toMat n B * toMat n A = 1 := mul_eq_one_comm.mp h1
  rw [← toMat_mul] at h2
  exact (toMat_one_iff n _).mp h2

end Graphiq
